/-
C02, execution half — loops: script values are never stack marks.

`for` puts a stack mark (`SexpStackmark`, `Val.mark`) on the data stack and `popUntilMark` /
`clearMark` pop down to it. That is only right if no value an expression leaves on the stack is
itself such a mark. Marks are made by `PushStackmarkInstr` only; no builtin makes one. `Clean v`:
no mark anywhere inside `v` (pairs); `CleanHeap h`: no mark inside any array. Every first-order
builtin maps clean operands and a clean heap to a clean result and a clean heap.
-/
import ZygoVerif.Model.Prim
set_option linter.unusedSimpArgs false
set_option linter.unusedVariables false
namespace ZygoVerif.Sim
open ZygoVerif.Core

def Clean : Val → Prop
  | .mark _ => False
  | .pair h t => Clean h ∧ Clean t
  | _ => True

def CleanHeap (h : DataHeap) : Prop := ∀ r x, x ∈ h.get r → Clean x

theorem clean_mkList : ∀ (xs : List Val), (∀ x ∈ xs, Clean x) → Clean (mkList xs)
  | [], _ => trivial
  | x :: xs, h => ⟨h x List.mem_cons_self, clean_mkList xs (fun y hy => h y (List.mem_cons_of_mem _ hy))⟩

theorem clean_listToArray : ∀ (v : Val) (xs : List Val), listToArray v = some xs → Clean v → ∀ x ∈ xs, Clean x
  | .nil, xs, h, _ => by simp [listToArray] at h; subst h; intro x hx; cases hx
  | .pair a t, xs, h, hc => by
    simp only [listToArray, Option.map_eq_some_iff] at h
    obtain ⟨ys, hys, rfl⟩ := h
    intro x hx
    rcases List.mem_cons.mp hx with rfl | hx
    · exact hc.1
    · exact clean_listToArray t ys hys hc.2 x hx
  | .bool _, _, h, _ | .int _, _, h, _ | .str _, _, h, _ | .arr _, _, h, _ | .fn _, _, h, _
  | .builtin _, _, h, _ | .lazy _, _, h, _ | .mark _, _, h, _ | .sym _, _, h, _ => by simp [listToArray] at h

theorem clean_get {h : DataHeap} (hh : CleanHeap h) (r : Nat) : ∀ x ∈ h.get r, Clean x := hh r

theorem cleanHeap_alloc {h : DataHeap} (hh : CleanHeap h) (xs : List Val) (hx : ∀ x ∈ xs, Clean x) :
    CleanHeap (h.alloc xs).2 := by
  intro r x hm
  unfold DataHeap.alloc DataHeap.get at hm
  simp only [List.getD_eq_getElem?_getD] at hm
  by_cases hr : r < h.arrs.length
  · rw [List.getElem?_append_left hr] at hm
    exact hh r x (by unfold DataHeap.get; simpa [List.getD_eq_getElem?_getD] using hm)
  · by_cases hr' : r = h.arrs.length
    · subst hr'; simp at hm; exact hx x hm
    · rw [List.getElem?_eq_none (by simp; omega)] at hm; simp at hm

theorem cleanHeap_set {h : DataHeap} (hh : CleanHeap h) (r : Nat) (xs : List Val) (hx : ∀ x ∈ xs, Clean x) :
    CleanHeap (h.set r xs) := by
  intro r' x hm
  unfold DataHeap.set DataHeap.get at hm
  simp only [List.getD_eq_getElem?_getD, List.getElem?_set] at hm
  by_cases hr : r = r'
  · subst hr
    by_cases hl : r < h.arrs.length
    · simp [hl] at hm; exact hx x hm
    · simp [hl] at hm
  · simp [hr] at hm
    exact hh r' x (by unfold DataHeap.get; simpa [List.getD_eq_getElem?_getD] using hm)

theorem clean_concatLists : ∀ (bs : List Val) (a r : Val), concatLists a bs = some r → Clean a → (∀ b ∈ bs, Clean b) → Clean r
  | [], a, r, h, ha, _ => by simp [concatLists] at h; subst h; exact ha
  | b :: bs, a, r, h, ha, hb => by
    simp only [concatLists] at h
    cases hxa : listToArray a with
    | none => rw [hxa] at h; simp at h
    | some xs =>
      cases hxb : listToArray b with
      | none => rw [hxa, hxb] at h; simp at h
      | some ys =>
        rw [hxa, hxb] at h
        simp only at h
        have hcl : Clean (mkList (xs ++ ys)) := clean_mkList _ (fun x hx => by
          rcases List.mem_append.mp hx with hx | hx
          · exact clean_listToArray a xs hxa ha x hx
          · exact clean_listToArray b ys hxb (hb b List.mem_cons_self) x hx)
        split at h
        · cases h
        · exact clean_concatLists bs _ r h hcl (fun y hy => hb y (List.mem_cons_of_mem _ hy))

theorem clean_concatArrs {h : DataHeap} (hh : CleanHeap h) : ∀ (rest acc out : List Val),
    concatArrs h acc rest = some out → (∀ x ∈ acc, Clean x) → ∀ x ∈ out, Clean x
  | [], acc, out, hc, ha => by simp [concatArrs] at hc; subst hc; exact ha
  | v :: rest, acc, out, hc, ha => by
    cases v with
    | arr r =>
      simp only [concatArrs] at hc
      exact clean_concatArrs hh rest _ out hc (fun x hx => by
        rcases List.mem_append.mp hx with hx | hx
        · exact ha x hx
        · exact hh r x hx)
    | _ => simp [concatArrs] at hc

theorem prim_clean_0 (args : List Val) (h : DataHeap) (v : Val) (h' : DataHeap)
    (hp : prim "+" args h = some (v, h')) (ha : ∀ a ∈ args, Clean a) (hh : CleanHeap h) :
    Clean v ∧ CleanHeap h' := by
  simp [prim, isCmp] at hp
  repeat' split at hp
  all_goals first
    | (cases hp; done)
    | (simp at hp; obtain ⟨rfl, rfl⟩ := hp; simp_all [Clean])

theorem prim_clean_1 (args : List Val) (h : DataHeap) (v : Val) (h' : DataHeap)
    (hp : prim "-" args h = some (v, h')) (ha : ∀ a ∈ args, Clean a) (hh : CleanHeap h) :
    Clean v ∧ CleanHeap h' := by
  simp [prim, isCmp] at hp
  repeat' split at hp
  all_goals first
    | (cases hp; done)
    | (simp at hp; obtain ⟨rfl, rfl⟩ := hp; simp_all [Clean])

theorem prim_clean_2 (args : List Val) (h : DataHeap) (v : Val) (h' : DataHeap)
    (hp : prim "*" args h = some (v, h')) (ha : ∀ a ∈ args, Clean a) (hh : CleanHeap h) :
    Clean v ∧ CleanHeap h' := by
  simp [prim, isCmp] at hp
  repeat' split at hp
  all_goals first
    | (cases hp; done)
    | (simp at hp; obtain ⟨rfl, rfl⟩ := hp; simp_all [Clean])

theorem prim_clean_3 (args : List Val) (h : DataHeap) (v : Val) (h' : DataHeap)
    (hp : prim "mod" args h = some (v, h')) (ha : ∀ a ∈ args, Clean a) (hh : CleanHeap h) :
    Clean v ∧ CleanHeap h' := by
  simp [prim, isCmp] at hp
  repeat' split at hp
  all_goals first
    | (cases hp; done)
    | (simp at hp; obtain ⟨rfl, rfl⟩ := hp; simp_all [Clean])

theorem prim_clean_4 (args : List Val) (h : DataHeap) (v : Val) (h' : DataHeap)
    (hp : prim "<" args h = some (v, h')) (ha : ∀ a ∈ args, Clean a) (hh : CleanHeap h) :
    Clean v ∧ CleanHeap h' := by
  simp [prim, isCmp] at hp
  split at hp
  · obtain ⟨r, _, heq⟩ := Option.map_eq_some_iff.mp hp
    simp only [Prod.mk.injEq] at heq
    obtain ⟨rfl, rfl⟩ := heq
    exact ⟨trivial, hh⟩
  · cases hp

theorem prim_clean_5 (args : List Val) (h : DataHeap) (v : Val) (h' : DataHeap)
    (hp : prim ">" args h = some (v, h')) (ha : ∀ a ∈ args, Clean a) (hh : CleanHeap h) :
    Clean v ∧ CleanHeap h' := by
  simp [prim, isCmp] at hp
  split at hp
  · obtain ⟨r, _, heq⟩ := Option.map_eq_some_iff.mp hp
    simp only [Prod.mk.injEq] at heq
    obtain ⟨rfl, rfl⟩ := heq
    exact ⟨trivial, hh⟩
  · cases hp

theorem prim_clean_6 (args : List Val) (h : DataHeap) (v : Val) (h' : DataHeap)
    (hp : prim "<=" args h = some (v, h')) (ha : ∀ a ∈ args, Clean a) (hh : CleanHeap h) :
    Clean v ∧ CleanHeap h' := by
  simp [prim, isCmp] at hp
  split at hp
  · obtain ⟨r, _, heq⟩ := Option.map_eq_some_iff.mp hp
    simp only [Prod.mk.injEq] at heq
    obtain ⟨rfl, rfl⟩ := heq
    exact ⟨trivial, hh⟩
  · cases hp

theorem prim_clean_7 (args : List Val) (h : DataHeap) (v : Val) (h' : DataHeap)
    (hp : prim ">=" args h = some (v, h')) (ha : ∀ a ∈ args, Clean a) (hh : CleanHeap h) :
    Clean v ∧ CleanHeap h' := by
  simp [prim, isCmp] at hp
  split at hp
  · obtain ⟨r, _, heq⟩ := Option.map_eq_some_iff.mp hp
    simp only [Prod.mk.injEq] at heq
    obtain ⟨rfl, rfl⟩ := heq
    exact ⟨trivial, hh⟩
  · cases hp

theorem prim_clean_8 (args : List Val) (h : DataHeap) (v : Val) (h' : DataHeap)
    (hp : prim "==" args h = some (v, h')) (ha : ∀ a ∈ args, Clean a) (hh : CleanHeap h) :
    Clean v ∧ CleanHeap h' := by
  simp [prim, isCmp] at hp
  split at hp
  · obtain ⟨r, _, heq⟩ := Option.map_eq_some_iff.mp hp
    simp only [Prod.mk.injEq] at heq
    obtain ⟨rfl, rfl⟩ := heq
    exact ⟨trivial, hh⟩
  · cases hp

theorem prim_clean_9 (args : List Val) (h : DataHeap) (v : Val) (h' : DataHeap)
    (hp : prim "!=" args h = some (v, h')) (ha : ∀ a ∈ args, Clean a) (hh : CleanHeap h) :
    Clean v ∧ CleanHeap h' := by
  simp [prim, isCmp] at hp
  split at hp
  · obtain ⟨r, _, heq⟩ := Option.map_eq_some_iff.mp hp
    simp only [Prod.mk.injEq] at heq
    obtain ⟨rfl, rfl⟩ := heq
    exact ⟨trivial, hh⟩
  · cases hp

theorem prim_clean_10 (args : List Val) (h : DataHeap) (v : Val) (h' : DataHeap)
    (hp : prim "not" args h = some (v, h')) (ha : ∀ a ∈ args, Clean a) (hh : CleanHeap h) :
    Clean v ∧ CleanHeap h' := by
  simp [prim, isCmp] at hp
  repeat' split at hp
  all_goals first
    | (cases hp; done)
    | (simp at hp; obtain ⟨rfl, rfl⟩ := hp; simp_all [Clean])

theorem prim_clean_11 (args : List Val) (h : DataHeap) (v : Val) (h' : DataHeap)
    (hp : prim "cons" args h = some (v, h')) (ha : ∀ a ∈ args, Clean a) (hh : CleanHeap h) :
    Clean v ∧ CleanHeap h' := by
  simp [prim, isCmp] at hp
  repeat' split at hp
  all_goals first
    | (cases hp; done)
    | (simp at hp; obtain ⟨rfl, rfl⟩ := hp; simp_all [Clean])

theorem prim_clean_12 (args : List Val) (h : DataHeap) (v : Val) (h' : DataHeap)
    (hp : prim "first" args h = some (v, h')) (ha : ∀ a ∈ args, Clean a) (hh : CleanHeap h) :
    Clean v ∧ CleanHeap h' := by
  simp [prim, isCmp] at hp
  split at hp
  · rename_i a0 t0
    simp at hp; obtain ⟨rfl, rfl⟩ := hp
    have hc : Clean (Val.pair a0 t0) := ha _ (by simp)
    exact ⟨hc.1, hh⟩
  · obtain ⟨x, hx, heq⟩ := Option.map_eq_some_iff.mp hp
    simp only [Prod.mk.injEq] at heq
    obtain ⟨rfl, rfl⟩ := heq
    exact ⟨hh _ x (List.mem_of_mem_head? hx), hh⟩
  · cases hp

theorem prim_clean_13 (args : List Val) (h : DataHeap) (v : Val) (h' : DataHeap)
    (hp : prim "rest" args h = some (v, h')) (ha : ∀ a ∈ args, Clean a) (hh : CleanHeap h) :
    Clean v ∧ CleanHeap h' := by
  simp [prim, isCmp] at hp
  split at hp
  · rename_i a0 t0
    simp at hp; obtain ⟨rfl, rfl⟩ := hp
    have hc : Clean (Val.pair a0 t0) := ha _ (by simp)
    exact ⟨hc.2, hh⟩
  · rename_i r
    split at hp
    · simp at hp; obtain ⟨rfl, rfl⟩ := hp; exact ⟨trivial, hh⟩
    · rename_i x0 tl hg
      have hcl := cleanHeap_alloc hh tl (fun x hx => hh r x (by rw [hg]; exact List.mem_cons_of_mem _ hx))
      simp at hp
      have h1 : (h.alloc tl).1 = v := by rw [hp]
      have h2 : (h.alloc tl).2 = h' := by rw [hp]
      rw [← h1, ← h2]
      exact ⟨trivial, hcl⟩
  · simp at hp; obtain ⟨rfl, rfl⟩ := hp; exact ⟨trivial, hh⟩
  · cases hp

theorem prim_clean_14 (args : List Val) (h : DataHeap) (v : Val) (h' : DataHeap)
    (hp : prim "second" args h = some (v, h')) (ha : ∀ a ∈ args, Clean a) (hh : CleanHeap h) :
    Clean v ∧ CleanHeap h' := by
  simp [prim, isCmp] at hp
  split at hp
  · rename_i a0 b0 t0
    simp at hp; obtain ⟨rfl, rfl⟩ := hp
    have hc : Clean (Val.pair a0 (Val.pair b0 t0)) := ha _ (by simp)
    exact ⟨hc.2.1, hh⟩
  · rename_i r
    split at hp
    · rename_i x0 b tl hg
      simp at hp; obtain ⟨rfl, rfl⟩ := hp
      exact ⟨hh r _ (by rw [hg]; simp), hh⟩
    · cases hp
  · cases hp

theorem prim_clean_15 (args : List Val) (h : DataHeap) (v : Val) (h' : DataHeap)
    (hp : prim "list" args h = some (v, h')) (ha : ∀ a ∈ args, Clean a) (hh : CleanHeap h) :
    Clean v ∧ CleanHeap h' := by
  simp [prim, isCmp] at hp
  obtain ⟨rfl, rfl⟩ := hp
  exact ⟨clean_mkList args ha, hh⟩

theorem prim_clean_16 (args : List Val) (h : DataHeap) (v : Val) (h' : DataHeap)
    (hp : prim "array" args h = some (v, h')) (ha : ∀ a ∈ args, Clean a) (hh : CleanHeap h) :
    Clean v ∧ CleanHeap h' := by
  simp [prim, isCmp] at hp
  have h1 : (h.alloc args).1 = v := by rw [hp]
  have h2 : (h.alloc args).2 = h' := by rw [hp]
  rw [← h1, ← h2]
  exact ⟨trivial, cleanHeap_alloc hh args ha⟩

theorem prim_clean_17 (args : List Val) (h : DataHeap) (v : Val) (h' : DataHeap)
    (hp : prim "len" args h = some (v, h')) (ha : ∀ a ∈ args, Clean a) (hh : CleanHeap h) :
    Clean v ∧ CleanHeap h' := by
  simp [prim, isCmp] at hp
  split at hp
  · simp at hp; obtain ⟨rfl, rfl⟩ := hp; exact ⟨trivial, hh⟩
  · simp at hp; obtain ⟨rfl, rfl⟩ := hp; exact ⟨trivial, hh⟩
  · simp at hp; obtain ⟨rfl, rfl⟩ := hp; exact ⟨trivial, hh⟩
  · obtain ⟨l, _, heq⟩ := Option.map_eq_some_iff.mp hp
    simp only [Prod.mk.injEq] at heq
    obtain ⟨rfl, rfl⟩ := heq
    exact ⟨trivial, hh⟩
  · cases hp

theorem prim_clean_18 (args : List Val) (h : DataHeap) (v : Val) (h' : DataHeap)
    (hp : prim "append" args h = some (v, h')) (ha : ∀ a ∈ args, Clean a) (hh : CleanHeap h) :
    Clean v ∧ CleanHeap h' := by
  simp [prim, isCmp] at hp
  split at hp
  · rename_i r x
    have hcl := cleanHeap_alloc hh (h.get r ++ [x]) (fun y hy => by
      rcases List.mem_append.mp hy with hy | hy
      · exact hh r y hy
      · simp at hy; subst hy; exact ha _ (by simp))
    simp at hp
    have h1 : (h.alloc (h.get r ++ [x])).1 = v := by rw [hp]
    have h2 : (h.alloc (h.get r ++ [x])).2 = h' := by rw [hp]
    rw [← h1, ← h2]
    exact ⟨trivial, hcl⟩
  · cases hp

theorem prim_clean_19 (args : List Val) (h : DataHeap) (v : Val) (h' : DataHeap)
    (hp : prim "concat" args h = some (v, h')) (ha : ∀ a ∈ args, Clean a) (hh : CleanHeap h) :
    Clean v ∧ CleanHeap h' := by
  simp [prim, isCmp] at hp
  split at hp
  · rename_i r rest
    obtain ⟨out, hout, heq⟩ := Option.map_eq_some_iff.mp hp
    have hcl := cleanHeap_alloc hh out (clean_concatArrs hh rest _ out hout (hh r))
    have h1 : (h.alloc out).1 = v := by rw [heq]
    have h2 : (h.alloc out).2 = h' := by rw [heq]
    rw [← h1, ← h2]
    exact ⟨trivial, hcl⟩
  · obtain ⟨s', _, heq⟩ := Option.map_eq_some_iff.mp hp
    simp only [Prod.mk.injEq] at heq
    obtain ⟨rfl, rfl⟩ := heq
    exact ⟨trivial, hh⟩
  · simp at hp; obtain ⟨rfl, rfl⟩ := hp
    exact ⟨ha _ (by simp), hh⟩
  · rename_i a b rest _
    obtain ⟨x, hx, heq⟩ := Option.map_eq_some_iff.mp hp
    simp only [Prod.mk.injEq] at heq
    obtain ⟨rfl, rfl⟩ := heq
    exact ⟨clean_concatLists rest _ _ hx (ha _ (by simp)) (fun y hy => ha y (List.mem_cons_of_mem _ hy)), hh⟩
  · cases hp

theorem prim_clean_20 (args : List Val) (h : DataHeap) (v : Val) (h' : DataHeap)
    (hp : prim "aget" args h = some (v, h')) (ha : ∀ a ∈ args, Clean a) (hh : CleanHeap h) :
    Clean v ∧ CleanHeap h' := by
  simp [prim, isCmp] at hp
  split at hp
  · rename_i r i
    obtain ⟨x, hx, heq⟩ := Option.map_eq_some_iff.mp hp
    simp only [Prod.mk.injEq] at heq
    obtain ⟨rfl, rfl⟩ := heq
    have hx' : (h.get r)[i.toInt.toNat]? = some x := by
      cases hg : (h.get r)[i.toInt.toNat]? with
      | none => rw [hg] at hx; simp at hx
      | some y => rw [hg] at hx; simp [Option.filter] at hx; rw [hx.2]
    exact ⟨hh r x (List.mem_of_getElem? hx'), hh⟩
  · rename_i r i d
    simp at hp; obtain ⟨rfl, rfl⟩ := hp
    refine ⟨?_, hh⟩
    cases hg : (h.get r)[i.toInt.toNat]? with
    | none => simp [Option.filter]; exact ha _ (by simp)
    | some y =>
      simp only [Option.filter]
      split
      · exact hh r y (List.mem_of_getElem? hg)
      · exact ha _ (by simp)
  · cases hp

theorem prim_clean_21 (args : List Val) (h : DataHeap) (v : Val) (h' : DataHeap)
    (hp : prim "aset" args h = some (v, h')) (ha : ∀ a ∈ args, Clean a) (hh : CleanHeap h) :
    Clean v ∧ CleanHeap h' := by
  simp [prim, isCmp] at hp
  split at hp
  · rename_i r i w
    split at hp
    · simp at hp; obtain ⟨rfl, rfl⟩ := hp
      refine ⟨trivial, cleanHeap_set hh r _ (fun x hx => ?_)⟩
      rcases List.mem_or_eq_of_mem_set hx with hx | hx
      · exact hh r x hx
      · subst hx; exact ha _ (by simp)
    · cases hp
  · cases hp

theorem prim_clean_22 (args : List Val) (h : DataHeap) (v : Val) (h' : DataHeap)
    (hp : prim "hash" args h = some (v, h')) (ha : ∀ a ∈ args, Clean a) (hh : CleanHeap h) :
    Clean v ∧ CleanHeap h' := by
  simp [prim, isCmp] at hp
  repeat' split at hp
  all_goals first
    | (cases hp; done)
    | (simp at hp; obtain ⟨rfl, rfl⟩ := hp; simp_all [Clean])

theorem prim_clean_23 (args : List Val) (h : DataHeap) (v : Val) (h' : DataHeap)
    (hp : prim "hget" args h = some (v, h')) (ha : ∀ a ∈ args, Clean a) (hh : CleanHeap h) :
    Clean v ∧ CleanHeap h' := by
  simp [prim, isCmp] at hp
  repeat' split at hp
  all_goals first
    | (cases hp; done)
    | (simp at hp; obtain ⟨rfl, rfl⟩ := hp; simp_all [Clean])

theorem prim_clean_24 (args : List Val) (h : DataHeap) (v : Val) (h' : DataHeap)
    (hp : prim "hset" args h = some (v, h')) (ha : ∀ a ∈ args, Clean a) (hh : CleanHeap h) :
    Clean v ∧ CleanHeap h' := by
  simp [prim, isCmp] at hp
  repeat' split at hp
  all_goals first
    | (cases hp; done)
    | (simp at hp; obtain ⟨rfl, rfl⟩ := hp; simp_all [Clean])

/-- the pure first-order builtins (all of `foBuiltins` but `trace`) -/
def primNames : List String := ["+", "-", "*", "mod", "<", ">", "<=", ">=", "==", "!=", "not", "cons", "first", "rest", "second", "list", "array", "len", "append", "concat", "aget", "aset", "hash", "hget", "hset"]

/-- **No first-order builtin makes a stack mark.** -/
theorem prim_clean (name : String) (hn : name ∈ primNames) (args : List Val) (h : DataHeap) (v : Val) (h' : DataHeap)
    (hp : prim name args h = some (v, h')) (ha : ∀ a ∈ args, Clean a) (hh : CleanHeap h) :
    Clean v ∧ CleanHeap h' := by
  simp only [primNames, List.mem_cons, List.mem_nil_iff, or_false] at hn
  rcases hn with rfl | rfl | rfl | rfl | rfl | rfl | rfl | rfl | rfl | rfl | rfl | rfl | rfl | rfl | rfl | rfl | rfl | rfl | rfl | rfl | rfl | rfl | rfl | rfl | rfl
  · exact prim_clean_0 args h v h' hp ha hh
  · exact prim_clean_1 args h v h' hp ha hh
  · exact prim_clean_2 args h v h' hp ha hh
  · exact prim_clean_3 args h v h' hp ha hh
  · exact prim_clean_4 args h v h' hp ha hh
  · exact prim_clean_5 args h v h' hp ha hh
  · exact prim_clean_6 args h v h' hp ha hh
  · exact prim_clean_7 args h v h' hp ha hh
  · exact prim_clean_8 args h v h' hp ha hh
  · exact prim_clean_9 args h v h' hp ha hh
  · exact prim_clean_10 args h v h' hp ha hh
  · exact prim_clean_11 args h v h' hp ha hh
  · exact prim_clean_12 args h v h' hp ha hh
  · exact prim_clean_13 args h v h' hp ha hh
  · exact prim_clean_14 args h v h' hp ha hh
  · exact prim_clean_15 args h v h' hp ha hh
  · exact prim_clean_16 args h v h' hp ha hh
  · exact prim_clean_17 args h v h' hp ha hh
  · exact prim_clean_18 args h v h' hp ha hh
  · exact prim_clean_19 args h v h' hp ha hh
  · exact prim_clean_20 args h v h' hp ha hh
  · exact prim_clean_21 args h v h' hp ha hh
  · exact prim_clean_22 args h v h' hp ha hh
  · exact prim_clean_23 args h v h' hp ha hh
  · exact prim_clean_24 args h v h' hp ha hh

end ZygoVerif.Sim
