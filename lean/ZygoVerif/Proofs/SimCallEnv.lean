/-
C02, execution half — Stage D, second half (builtin calls): vocabulary.

A call compiles to one instruction, `callExpr callee args`; executing it evaluates the operands
by compiling each of them at run time into a fresh function object and running it in a nested
`Run` (`EvalCallExpression` → `nested`). So
* the fuel a step needs is no longer 1: `ReachE`/`FailsE` quantify the fuel floor existentially;
* the function table grows, and the current function may be such a helper, with a parent:
  `FnChainOk` (every closing list on the parent chain of the current function is a suffix of the
  linear scope stack) replaces "the current function is top-level" in the relation (`RelC`);
* what a balanced piece of code leaves alone is recorded explicitly (`Frame`);
* the callee of a call in the fragment is the name of a first-order builtin; `Globals` says those
  names are bound in the global frame only, to themselves.
-/
import ZygoVerif.Proofs.SimGlue
import ZygoVerif.Proofs.SimBind
import ZygoVerif.Proofs.SimClean
set_option linter.unusedSimpArgs false
namespace ZygoVerif.Sim
open ZygoVerif.Core ZygoVerif.VM

/-! ## Reachability with an existential fuel floor -/

def ReachE (K : Nat) (s s' : St) : Prop := ∃ m, Reach K m s s'

theorem Reach.toE {K m : Nat} {s s' : St} (h : Reach K m s s') : ReachE K s s' := ⟨m, h⟩
theorem ReachE.refl (s : St) : ReachE 0 s s := ⟨0, Reach.refl s⟩
theorem ReachE.mono {K K' : Nat} {s s' : St} (h : ReachE K s s') (hK : K ≤ K') : ReachE K' s s' := by
  obtain ⟨m, h⟩ := h; exact ⟨m, h.mono hK (Nat.le_refl _)⟩
theorem ReachE.trans {K₁ K₂ : Nat} {s s₁ s₂ : St} (h₁ : ReachE K₁ s s₁) (h₂ : ReachE K₂ s₁ s₂) :
    ReachE (K₁ + K₂) s s₂ := by
  obtain ⟨m₁, h₁⟩ := h₁; obtain ⟨m₂, h₂⟩ := h₂; exact ⟨_, h₁.trans h₂⟩
theorem ReachE.cast {K : Nat} {s s' s'' : St} (h : ReachE K s s') (e : s' = s'') : ReachE K s s'' := e ▸ h

/-- From `s` the run loop ends in a script error after at most `K` instructions — for every
enclosing `Run` and every sufficiently large remaining fuel; the final trace is `tr`. -/
def FailsE (K : Nat) (s : St) (tr : List String) : Prop :=
  ∃ k, k ≤ K ∧ ∃ m, ∀ fuel, m ≤ fuel → ∀ st, ∃ sf, (runLoop (fuel + k) st).run s = (.error .err, sf) ∧ sf.trace = tr

theorem Fails.toE {K : Nat} {s : St} {tr} (h : Fails K s tr) : FailsE K s tr := by
  obtain ⟨k, hk, H⟩ := h; exact ⟨k, hk, 1, H⟩

theorem FailsE.mono {K K' : Nat} {s : St} {tr} (h : FailsE K s tr) (hK : K ≤ K') : FailsE K' s tr := by
  obtain ⟨k, hk, H⟩ := h; exact ⟨k, Nat.le_trans hk hK, H⟩

theorem FailsE.of_reach {K₁ K₂ : Nat} {s s₁ : St} {tr} (h₁ : ReachE K₁ s s₁) (h₂ : FailsE K₂ s₁ tr) :
    FailsE (K₁ + K₂) s tr := by
  obtain ⟨m₁, k₁, hk₁, H₁⟩ := h₁
  obtain ⟨k₂, hk₂, m₂, H₂⟩ := h₂
  refine ⟨k₂ + k₁, by omega, max m₁ m₂, fun fuel hf st => ?_⟩
  rw [← Nat.add_assoc, H₁ (fuel + k₂) (by omega) st]
  exact H₂ fuel (by omega) st

/-- one instruction that executes without fault for every fuel `≥ m + 1` -/
theorem ReachE.step {s s' : St} {pre i post} (h : At s pre i post) (m : Nat)
    (hx : ∀ f, m ≤ f → (exec (f + 1) i).run s = (.ok (), s')) : ReachE 1 s s' := by
  refine ⟨m + 1, 1, Nat.le_refl _, fun fuel hf st => ?_⟩
  obtain ⟨f, rfl⟩ : ∃ f, fuel = f + 1 := ⟨fuel - 1, by omega⟩
  exact runLoop_step h (f + 1) st (hx f (by omega))

/-- one instruction that returns an error for every fuel `≥ m + 1` -/
theorem FailsE.step {s : St} {tr : List String} {pre i post} (h : At s pre i post) (m : Nat)
    (hx : ∀ f, m ≤ f → ∃ se, (exec (f + 1) i).run s = (.error .err, se) ∧ se.trace = tr) : FailsE 1 s tr := by
  refine ⟨1, Nat.le_refl _, m + 1, fun fuel hf st => ?_⟩
  obtain ⟨f, rfl⟩ : ∃ f, fuel = f + 1 := ⟨fuel - 1, by omega⟩
  obtain ⟨se, hse, htr⟩ := hx f (by omega)
  refine ⟨_, runLoop_step_err h (f + 1) st hse, ?_⟩
  rw [← htr]; exact restore_trace st se

/-! ## … and without a bound on the number of instructions (loops) -/

def ReachX (s s' : St) : Prop := ∃ K, ReachE K s s'
def FailsX (s : St) (tr : List String) : Prop := ∃ K, FailsE K s tr

theorem ReachE.toX {K : Nat} {s s' : St} (h : ReachE K s s') : ReachX s s' := ⟨K, h⟩
theorem Reach.toX {K m : Nat} {s s' : St} (h : Reach K m s s') : ReachX s s' := h.toE.toX
theorem ReachX.refl (s : St) : ReachX s s := (ReachE.refl s).toX
theorem ReachX.trans {s s₁ s₂ : St} (h₁ : ReachX s s₁) (h₂ : ReachX s₁ s₂) : ReachX s s₂ := by
  obtain ⟨K₁, h₁⟩ := h₁; obtain ⟨K₂, h₂⟩ := h₂; exact ⟨_, h₁.trans h₂⟩
theorem FailsE.toX {K : Nat} {s : St} {tr} (h : FailsE K s tr) : FailsX s tr := ⟨K, h⟩
theorem Fails.toX {K : Nat} {s : St} {tr} (h : Fails K s tr) : FailsX s tr := h.toE.toX
theorem FailsX.of_reach {s s₁ : St} {tr} (h₁ : ReachX s s₁) (h₂ : FailsX s₁ tr) : FailsX s tr := by
  obtain ⟨K₁, h₁⟩ := h₁; obtain ⟨K₂, h₂⟩ := h₂; exact ⟨_, FailsE.of_reach h₁ h₂⟩
theorem ReachX.step {s s' : St} {pre i post} (h : At s pre i post) (m : Nat)
    (hx : ∀ f, m ≤ f → (exec (f + 1) i).run s = (.ok (), s')) : ReachX s s' := (ReachE.step h m hx).toX
theorem FailsX.step {s : St} {tr : List String} {pre i post} (h : At s pre i post) (m : Nat)
    (hx : ∀ f, m ≤ f → ∃ se, (exec (f + 1) i).run s = (.error .err, se) ∧ se.trace = tr) : FailsX s tr :=
  (FailsE.step h m hx).toX

/-! ## What balanced code leaves alone -/

structure Frame (s s' : St) : Prop where
  linear : s'.linear = s.linear
  curfunc : s'.curfunc = s.curfunc
  addr : s'.addr = s.addr
  susp : s'.suspended = s.suspended
  fnsLen : s.fns.length ≤ s'.fns.length
  fns : ∀ id, id < s.fns.length → fnOf s' id = fnOf s id
  loopsLen : s.loops.length ≤ s'.loops.length
  loops : ∀ id, id < s.loops.length → s'.loops.getD id {} = s.loops.getD id {}

theorem Frame.refl (s : St) : Frame s s :=
  ⟨rfl, rfl, rfl, rfl, Nat.le_refl _, fun _ _ => rfl, Nat.le_refl _, fun _ _ => rfl⟩

theorem Frame.trans {a b c : St} (h₁ : Frame a b) (h₂ : Frame b c) : Frame a c :=
  ⟨h₂.linear.trans h₁.linear, h₂.curfunc.trans h₁.curfunc, h₂.addr.trans h₁.addr, h₂.susp.trans h₁.susp,
   Nat.le_trans h₁.fnsLen h₂.fnsLen,
   fun id hid => (h₂.fns id (Nat.lt_of_lt_of_le hid h₁.fnsLen)).trans (h₁.fns id hid),
   Nat.le_trans h₁.loopsLen h₂.loopsLen,
   fun id hid => (h₂.loops id (Nat.lt_of_lt_of_le hid h₁.loopsLen)).trans (h₁.loops id hid)⟩

theorem Frame.jmp (s : St) (p : Int) (d : List (Option Val)) : Frame s (s.jmp p d) :=
  ⟨rfl, rfl, rfl, rfl, Nat.le_refl _, fun _ _ => rfl, Nat.le_refl _, fun _ _ => rfl⟩

theorem Frame.bind (s : St) (id : Nat) (x : String) (v : Val) : Frame s (s.bind id x v) :=
  ⟨rfl, rfl, rfl, rfl, Nat.le_refl _, fun _ _ => rfl, Nat.le_refl _, fun _ _ => rfl⟩

/-! ## The parent chain of the current function -/

/-- Every function on the parent chain of `f` exists and closes over a suffix of the linear stack. -/
inductive FnChainOk (s : St) : Nat → Prop
  | root (f : Nat) : f < s.fns.length → (fnOf s f).parent = none →
      (∃ t, s.linear = t ++ (fnOf s f).closing) → FnChainOk s f
  | step (f p : Nat) : f < s.fns.length → (fnOf s f).parent = some p →
      (∃ t, s.linear = t ++ (fnOf s f).closing) → FnChainOk s p → FnChainOk s f

theorem FnChainOk.lt {s f} (h : FnChainOk s f) : f < s.fns.length := by cases h <;> assumption

theorem FnChainOk.suffix {s f} (h : FnChainOk s f) : ∃ t, s.linear = t ++ (fnOf s f).closing := by
  cases h <;> assumption

/-- the chain is still fine when the function table has grown and the linear stack was extended on top -/
theorem FnChainOk.transfer {s s' : St} (hlin : ∃ t, s'.linear = t ++ s.linear) (hlen : s.fns.length ≤ s'.fns.length)
    (hfns : ∀ id, id < s.fns.length → fnOf s' id = fnOf s id) : ∀ {f}, FnChainOk s f → FnChainOk s' f := by
  intro f h
  obtain ⟨t0, ht0⟩ := hlin
  induction h with
  | root f hlt hp hs =>
    obtain ⟨t, ht⟩ := hs
    exact FnChainOk.root f (Nat.lt_of_lt_of_le hlt hlen) (by rw [hfns f hlt]; exact hp)
      ⟨t0 ++ t, by rw [hfns f hlt, ht0, ht, List.append_assoc]⟩
  | step f p hlt hp hs _ ih =>
    obtain ⟨t, ht⟩ := hs
    exact FnChainOk.step f p (Nat.lt_of_lt_of_le hlt hlen) (by rw [hfns f hlt]; exact hp)
      ⟨t0 ++ t, by rw [hfns f hlt, ht0, ht, List.append_assoc]⟩ ih

/-- the chain only reads parents, closing lists, the table size and the linear stack -/
theorem FnChainOk.congr {s s' : St} (hlin : s'.linear = s.linear) (hlen : s'.fns.length = s.fns.length)
    (hpar : ∀ id, (fnOf s' id).parent = (fnOf s id).parent) (hclo : ∀ id, (fnOf s' id).closing = (fnOf s id).closing) :
    ∀ {f}, FnChainOk s f → FnChainOk s' f := by
  intro f h
  induction h with
  | root f hlt hp hs =>
    exact FnChainOk.root f (by rw [hlen]; exact hlt) (by rw [hpar]; exact hp) (by rw [hlin, hclo]; exact hs)
  | step f p hlt hp hs _ ih =>
    exact FnChainOk.step f p (by rw [hlen]; exact hlt) (by rw [hpar]; exact hp) (by rw [hlin, hclo]; exact hs) ih

theorem lookupUntilFn_suffix_none {s : St} (hnofn : ∀ i, (scopeOf s i).isFunction = false) (x : String) (cc : Bool)
    (l : List (Option Nat)) : ∀ (t : List (Option Nat)), lookupUntilFn s x cc (t ++ l) = none → lookupUntilFn s x cc l = none
  | [], h => h
  | none :: t, h => by
    simp only [List.cons_append, lookupUntilFn] at h
    exact lookupUntilFn_suffix_none hnofn x cc l t h
  | some id :: t, h => by
    simp only [List.cons_append, lookupUntilFn, hnofn id] at h
    cases hl : (scopeOf s id).vars.lookup x with
    | some v => rw [hl] at h; cases h
    | none => rw [hl] at h; exact lookupUntilFn_suffix_none hnofn x cc l t h

/-- what stage 1 does not find, the walk along the parent chain of closures does not find either -/
theorem lookupChain_none {s : St} (hnofn : ∀ i, (scopeOf s i).isFunction = false) (x : String)
    (h1 : lookupUntilFn s x false s.linear = none) : ∀ fuel f, FnChainOk s f → lookupChain s x fuel f = none
  | 0, _, _ => rfl
  | fuel + 1, f, hc => by
    cases hc with
    | root _ _ hp _ => simp only [lookupChain, hp]
    | step _ p _ hp hs hrest =>
      obtain ⟨t, ht⟩ := hs
      have hclo : lookupUntilFn s x false (fnOf s f).closing = none :=
        lookupUntilFn_suffix_none hnofn x false _ t (by rw [← ht]; exact h1)
      simp only [lookupChain, hp, hclo]
      exact lookupChain_none hnofn x h1 fuel p hrest

/-! ## First-order builtins and their names -/

/-- the builtins a call of the fragment may name: every core builtin that does not call back
into the evaluator (`map`, `apply`, `force` do), and the host function `trace` -/
def foBuiltins : List String :=
  ["+", "-", "*", "mod", "<", ">", "<=", ">=", "==", "!=", "not", "cons", "first", "rest",
   "second", "list", "array", "len", "append", "concat", "aget", "aset", "hash", "hget", "hset", "trace"]

theorem foBuiltins_not_ho : ∀ h ∈ foBuiltins, h ≠ "force" ∧ h ≠ "apply" ∧ h ≠ "map" := by decide
/-- `substitute` (C16) reads the thunk table: not first-order either -/
theorem foBuiltins_not_substitute : ∀ h ∈ foBuiltins, h ≠ "substitute" := by decide
/-- `probe` (C09, channel `tail`) reads the stack depths: not first-order either -/
theorem foBuiltins_not_probe : ∀ h ∈ foBuiltins, h ≠ "probe" := by decide

/-- a name a `def`/`set`/`let`/`letseq` of the fragment may bind -/
def okBinder (x : String) : Bool := !foBuiltins.contains x

theorem okBinder_ne {x h : String} (hx : okBinder x = true) (hh : h ∈ foBuiltins) : (h == x) = false := by
  unfold okBinder at hx
  have : ¬ x ∈ foBuiltins := by simpa using hx
  have hne : h ≠ x := fun e => this (e ▸ hh)
  simpa using hne

/-- first-order builtin names are bound in the global frame only, to themselves -/
def Globals (rs : Ref.St) : Prop :=
  ∀ h, h ∈ foBuiltins → (rs.frames.getD 0 {}).vars.lookup h = some (.builtin h)
    ∧ ∀ i, 0 < i → (rs.frames.getD i {}).vars.lookup h = none

theorem Globals.lookupIn {rs : Ref.St} (hg : Globals rs) {h : String} (hh : h ∈ foBuiltins) :
    ∀ {env lin}, Chain rs.frames env lin → ∀ fuel, env + 1 ≤ fuel →
      Ref.lookupIn rs.frames fuel env h = some (0, .builtin h) := by
  intro env lin hc
  induction hc with
  | root fr h0 hp =>
    intro fuel hf
    obtain ⟨f, rfl⟩ : ∃ f, fuel = f + 1 := ⟨fuel - 1, by omega⟩
    have hv := (hg h hh).1
    rw [List.getD_eq_getElem?_getD, h0, Option.getD_some] at hv
    simp only [Ref.lookupIn, h0, hv]
  | cons env p fr rest h0 hp hlt _ ih =>
    intro fuel hf
    obtain ⟨f, rfl⟩ : ∃ f, fuel = f + 1 := ⟨fuel - 1, by omega⟩
    have hv := (hg h hh).2 env (by omega)
    rw [List.getD_eq_getElem?_getD, h0, Option.getD_some] at hv
    simp only [Ref.lookupIn, h0, hv, hp]
    exact ih f (by omega)

theorem Globals.setVar {rs : Ref.St} (hg : Globals rs) (id : Nat) {x : String} (hx : okBinder x = true) (v : Val) :
    Globals (Ref.setVar rs id x v) := by
  intro h hh
  have hne := okBinder_ne hx hh
  unfold Ref.setVar
  cases hid : rs.frames[id]? with
  | none => exact hg h hh
  | some fr0 =>
    have hlt := lt_of_getElem?_some hid
    have key : ∀ i, ((rs.frames.set id { fr0 with vars := Ref.assocSet fr0.vars x v }).getD i {}).vars.lookup h
        = (rs.frames.getD i {}).vars.lookup h := by
      intro i
      simp only [List.getD_eq_getElem?_getD, List.getElem?_set]
      by_cases hi : id = i
      · subst hi
        simp only [hlt, if_true, Option.getD_some, hid, assocSet_eq, lookup_assocSet, hne, Bool.false_eq_true, if_false]
      · simp only [hi, if_false]
    exact ⟨by rw [key]; exact (hg h hh).1, fun i hi => by rw [key]; exact (hg h hh).2 i hi⟩

theorem Globals.newFrame {rs : Ref.St} (hg : Globals rs) (env : Nat) (hne : rs.frames ≠ []) :
    Globals (Ref.newFrame rs env).2 := by
  intro h hh
  have hpos : 0 < rs.frames.length := List.length_pos_iff.mpr hne
  have key : ∀ i, (((rs.frames ++ [({ parent := some env } : Ref.Frame)]).getD i {}).vars.lookup h
      = (rs.frames.getD i {}).vars.lookup h) := by
    intro i
    simp only [List.getD_eq_getElem?_getD]
    by_cases hi : i < rs.frames.length
    · rw [List.getElem?_append_left hi]
    · by_cases hi' : i = rs.frames.length
      · subst hi'; simp
      · rw [List.getElem?_eq_none (by simp; omega), List.getElem?_eq_none (by omega)]
  exact ⟨by show ((rs.frames ++ [_]).getD 0 {}).vars.lookup h = _; rw [key]; exact (hg h hh).1,
    fun i hi => by show ((rs.frames ++ [_]).getD i {}).vars.lookup h = _; rw [key]; exact (hg h hh).2 i hi⟩

/-! ## The relation for the fragment with calls -/

/-- no stack mark in any binding or array of the reference state (`for` relies on it) -/
def CleanSt (rs : Ref.St) : Prop :=
  (∀ i x v, (rs.frames.getD i {}).vars.lookup x = some v → Clean v) ∧ CleanHeap rs.heap

theorem CleanSt.setVar {rs : Ref.St} (hc : CleanSt rs) (id : Nat) (x : String) {v : Val} (hv : Clean v) :
    CleanSt (Ref.setVar rs id x v) := by
  unfold Ref.setVar
  cases hid : rs.frames[id]? with
  | none => exact hc
  | some fr0 =>
    have hlt := lt_of_getElem?_some hid
    refine ⟨fun i y w hw => ?_, hc.2⟩
    simp only [List.getD_eq_getElem?_getD, List.getElem?_set] at hw
    by_cases hi : id = i
    · subst hi
      simp only [hlt, if_true, Option.getD_some, assocSet_eq, lookup_assocSet] at hw
      split at hw
      · injection hw with hw; subst hw; exact hv
      · refine hc.1 id y w ?_
        rw [List.getD_eq_getElem?_getD, hid]; exact hw
    · simp only [hi, if_false] at hw
      exact hc.1 i y w (by rw [List.getD_eq_getElem?_getD]; exact hw)

theorem CleanSt.newFrame {rs : Ref.St} (hc : CleanSt rs) (env : Nat) : CleanSt (Ref.newFrame rs env).2 := by
  refine ⟨fun i y w hw => ?_, hc.2⟩
  have hw' : ((rs.frames ++ [({ parent := some env } : Ref.Frame)]).getD i {}).vars.lookup y = some w := hw
  simp only [List.getD_eq_getElem?_getD] at hw'
  by_cases hi : i < rs.frames.length
  · rw [List.getElem?_append_left hi] at hw'
    exact hc.1 i y w (by rw [List.getD_eq_getElem?_getD]; exact hw')
  · by_cases hi' : i = rs.frames.length
    · subst hi'; simp at hw'
    · rw [List.getElem?_eq_none (by simp; omega)] at hw'; simp at hw'

structure RelC (s : St) (rs : Ref.St) (env : Nat) : Prop extends RelCore s rs env where
  fnchain : FnChainOk s s.curfunc
  globals : Globals rs
  clean : CleanSt rs

/-- Under `RelC`, the three-stage `LexicalLookupSymbol` is the reference lookup. -/
theorem RelC.lexLookup {s rs env} (h : RelC s rs env) (x : String) :
    lexLookup s x = Ref.lookup rs env x := by
  have h1 := h.toRelCore.stage1 x
  unfold VM.lexLookup
  rw [h1 false]
  cases hl : Ref.lookup rs env x with
  | some r => rfl
  | none =>
    have hs1 : lookupUntilFn s x false s.linear = none := by rw [h1 false, hl]
    have hch := lookupChain_none h.nofn x hs1 (s.fns.length + 1) s.curfunc h.fnchain
    obtain ⟨t, ht⟩ := h.fnchain.suffix
    have hclo : lookupUntilFn s x false (fnOf s s.curfunc).closing = none :=
      lookupUntilFn_suffix_none h.nofn x false _ t (by rw [← ht]; exact hs1)
    simp only [hch, hclo, ite_self, h1 true, hl]

/-- a first-order builtin name always denotes that builtin -/
theorem RelC.lookup_fo {s rs env} (h : RelC s rs env) {name : String} (hn : name ∈ foBuiltins) :
    Ref.lookup rs env name = some (0, .builtin name) :=
  h.globals.lookupIn hn h.chain _ (by have := h.chain.lt; omega)

theorem RelC.jmp {s rs env} (h : RelC s rs env) (p : Int) (d : List (Option Val)) : RelC (s.jmp p d) rs env :=
  ⟨h.toRelCore.jmp p d, h.fnchain.transfer (s' := s.jmp p d) ⟨[], rfl⟩ (Nat.le_refl _) (fun _ _ => rfl), h.globals,
   h.clean⟩

theorem RelC.bind {s rs env} (h : RelC s rs env) (id : Nat) (hid : id < rs.frames.length) {x : String}
    (hx : okBinder x = true) {v : Val} (hv : Clean v) : RelC (s.bind id x v) (Ref.setVar rs id x v) env :=
  ⟨h.toRelCore.bind id hid x v, h.fnchain.transfer (s' := s.bind id x v) ⟨[], rfl⟩ (Nat.le_refl _) (fun _ _ => rfl),
   h.globals.setVar id hx v, h.clean.setVar id x hv⟩

theorem RelC.pushScope {s rs env} (h : RelC s rs env) :
    RelC s.pushScope (Ref.newFrame rs env).2 rs.frames.length :=
  ⟨h.toRelCore.pushScope,
   h.fnchain.transfer (s' := s.pushScope) ⟨[some s.scopes.length], rfl⟩ (Nat.le_refl _) (fun _ _ => rfl),
   h.globals.newFrame env (by intro e; have := h.chain.lt; rw [e] at this; simp at this),
   h.clean.newFrame env⟩

end ZygoVerif.Sim
