/-
Lemmas for Props/C01 §5: the primitive stack operations of the VM model keep the stacks free
of nil cells and do not panic on such stacks.
-/
import ZygoVerif.Model.VM
namespace ZygoVerif.VMSafe
open ZygoVerif.VM ZygoVerif.Core

def allSome {α} (l : List (Option α)) : Prop := ∀ x ∈ l, x ≠ none

theorem allSome_nil {α} : allSome ([] : List (Option α)) := by intro x hx; cases hx

theorem allSome_cons {α} {a : α} {l : List (Option α)} (h : allSome l) : allSome (some a :: l) := by
  intro x hx
  cases hx with
  | head => simp
  | tail _ h' => exact h x h'

theorem allSome_tail {α} {a : Option α} {l : List (Option α)} (h : allSome (a :: l)) : allSome l :=
  fun x hx => h x (List.mem_cons_of_mem _ hx)

theorem allSome_drop {α} {l : List (Option α)} (h : allSome l) (n : Nat) : allSome (l.drop n) :=
  fun x hx => h x (List.mem_of_mem_drop hx)

/-- `TruncateToSize` keeps a stack free of nil cells when it really truncates (`n` not above
the length); above the length it PADS the stack with nil cells (`truncate_pads`). -/
theorem allSome_truncate {α} {l : List (Option α)} (h : allSome l) (n : Nat) (hn : n ≤ l.length) :
    allSome (truncate l n) := by
  unfold truncate
  rw [if_pos hn]
  exact allSome_drop h _

theorem truncate_pads {α} (l : List (Option α)) (n : Nat) (hn : l.length < n) : none ∈ truncate l n := by
  unfold truncate
  rw [if_neg (by omega)]
  apply List.mem_append_left
  rw [List.mem_replicate]
  exact ⟨by omega, rfl⟩

/-- the stacks of a state hold no nil cell -/
structure Good (s : St) : Prop where
  data : allSome s.data
  linear : allSome s.linear
  addr : allSome s.addr
  susp : ∀ l ∈ s.suspended, allSome l
  lazies : ∀ z ∈ s.lazies, allSome z.stack

theorem good_init : Good VM.initSt := by
  refine ⟨allSome_nil, ?_, allSome_nil, ?_, ?_⟩
  · intro x hx; simp [VM.initSt] at hx; simp [hx]
  · intro l hl; simp [VM.initSt] at hl
  · intro z hz; simp [VM.initSt] at hz

/-- Running `m` from `s`: the final state is good again, and if the outcome is a host panic
then the scope stack is empty in the final state — the panic is the `empty stack!!` of
`Stack.BindSymbol`, the only one that nil-free stacks leave possible. -/
def SafeAt {α} (s : St) (m : M α) : Prop :=
  Good (m.run s).2 ∧ ((m.run s).1 = .error .panic → (m.run s).2.linear = [])

/-! ### how the monad runs -/

theorem run_pure {α} (a : α) (s : St) : (pure a : M α).run s = (.ok a, s) := rfl

theorem run_throw {α} (e : Fault) (s : St) : (throw e : M α).run s = (.error e, s) := rfl

theorem run_err {α} (s : St) : (VM.err : M α).run s = (.error .err, s) := rfl

theorem run_hostPanic {α} (s : St) : (VM.hostPanic : M α).run s = (.error .panic, s) := rfl

theorem run_get (s : St) : (get : M St).run s = (.ok s, s) := rfl

theorem run_set (s' s : St) : (set s' : M PUnit).run s = (.ok PUnit.unit, s') := rfl

theorem run_modify (f : St → St) (s : St) : (modify f : M PUnit).run s = (.ok PUnit.unit, f s) := rfl

theorem run_bind {α β} (m : M α) (f : α → M β) (s : St) :
    (m >>= f).run s = (match m.run s with
      | (.ok a, s') => (f a).run s'
      | (.error e, s') => (.error e, s')) := by
  show (ExceptT.bind m f).run s = _
  unfold ExceptT.bind ExceptT.mk ExceptT.run ExceptT.bindCont
  show (StateT.bind _ _) s = _
  unfold StateT.bind
  simp only []
  cases h : m s with
  | mk r s' =>
    cases r with
    | ok a => rfl
    | error e => rfl

theorem SafeAt_pure {α} (a : α) (s : St) (hg : Good s) : SafeAt s (pure a : M α) := by
  constructor
  · exact hg
  · intro h; cases h

theorem SafeAt_err {α} (s : St) (hg : Good s) : SafeAt s (VM.err : M α) := by
  constructor
  · exact hg
  · intro h; cases h

theorem SafeAt_timeout {α} (s : St) (hg : Good s) : SafeAt s (throw Fault.timeout : M α) := by
  constructor
  · exact hg
  · intro h; cases h

theorem SafeAt_bind {α β} {m : M α} {f : α → M β} {s : St} (hm : SafeAt s m)
    (hf : ∀ a s', m.run s = (.ok a, s') → SafeAt s' (f a)) : SafeAt s (m >>= f) := by
  unfold SafeAt at *
  rw [run_bind]
  cases h : m.run s with
  | mk r s' =>
    cases r with
    | ok a => exact hf a s' h
    | error e =>
      rw [h] at hm
      simpa using hm

theorem SafeAt_get {α} {f : St → M α} {s : St} (h : SafeAt s (f s)) : SafeAt s (get >>= f) := by
  unfold SafeAt at *
  rw [run_bind, run_get]
  exact h

theorem SafeAt_set (s' s : St) (hg : Good s') : SafeAt s (set s' : M PUnit) := by
  constructor
  · exact hg
  · intro h; cases h

theorem SafeAt_modify (f : St → St) (s : St) (hg : Good (f s)) : SafeAt s (modify f : M PUnit) := by
  constructor
  · exact hg
  · intro h; cases h

theorem SafeAt_hostPanic_of_empty {α} (s : St) (hg : Good s) (h : s.linear = []) : SafeAt s (VM.hostPanic : M α) := by
  constructor
  · exact hg
  · intro _; exact h

theorem good_data {s : St} (hg : Good s) {d : List (Option Val)} (hd : allSome d) : Good { s with data := d } :=
  ⟨hd, hg.linear, hg.addr, hg.susp, hg.lazies⟩

theorem popData_safe (s : St) (hg : Good s) : SafeAt s popData := by
  unfold popData
  refine SafeAt_get ?_
  cases hd : s.data with
  | nil => exact SafeAt_err s hg
  | cons a rest =>
    have hrest : allSome rest := allSome_tail (by have := hg.data; rwa [hd] at this)
    cases a with
    | none => exact absurd rfl (hg.data none (by rw [hd]; exact List.mem_cons_self))
    | some v =>
      refine SafeAt_bind (SafeAt_set _ s (good_data hg hrest)) (fun _ s' h => ?_)
      rw [run_set] at h
      injection h with _ h2
      subst h2
      exact SafeAt_pure _ _ (good_data hg hrest)

theorem pushData_safe (v : Val) (s : St) (hg : Good s) : SafeAt s (pushData v) := by
  unfold pushData
  exact SafeAt_modify _ s (good_data hg (allSome_cons hg.data))

theorem run_pushData (v : Val) (s : St) : (pushData v).run s = (.ok PUnit.unit, { s with data := some v :: s.data }) := rfl

theorem mapM_id_some {α} : ∀ (l : List (Option α)), allSome l → ∃ vs, l.mapM id = some vs
  | [], _ => ⟨[], rfl⟩
  | none :: _, h => absurd rfl (h none List.mem_cons_self)
  | some a :: rest, h => by
    obtain ⟨vs, hvs⟩ := mapM_id_some rest (allSome_tail h)
    exact ⟨a :: vs, by simp [List.mapM_cons, hvs]⟩

theorem allSome_take {α} {l : List (Option α)} (h : allSome l) (n : Nat) : allSome (l.take n) :=
  fun x hx => h x (List.mem_of_mem_take hx)

theorem popN_safe (n : Nat) (s : St) (hg : Good s) : SafeAt s (popN n) := by
  unfold popN
  refine SafeAt_get ?_
  split
  · exact SafeAt_err s hg
  · obtain ⟨vs, hvs⟩ := mapM_id_some (s.data.take n) (allSome_take hg.data n)
    simp only [hvs]
    refine SafeAt_bind (SafeAt_set _ s (good_data hg (allSome_drop hg.data n))) (fun _ s' h => ?_)
    rw [run_set] at h
    injection h with _ h2
    subst h2
    exact SafeAt_pure _ _ (good_data hg (allSome_drop hg.data n))

/-- the sizes recorded in `c` are not above the present sizes of the stacks they are applied
to: `restoreControlState` only truncates. For generated code this is the stack balance that
C04 establishes; it is a hypothesis here. -/
def Fits (c : CtlState) (s : St) : Prop :=
  c.dataSize ≤ s.data.length ∧ c.addrSize ≤ s.addr.length ∧
  (if s.suspended.length > c.susp
   then c.linearSize ≤ (s.suspended.getD (s.suspended.length - c.susp - 1) []).length
   else c.linearSize ≤ s.linear.length)

theorem restore_good (c : CtlState) (s : St) (hg : Good s) (hf : Fits c s) : Good ((restore c).run s).2 := by
  show Good _
  unfold restore
  rw [run_modify]
  obtain ⟨hd, ha, hl⟩ := hf
  simp only
  split
  · rename_i hlt
    rw [if_pos hlt] at hl
    refine ⟨allSome_truncate hg.data _ hd, allSome_truncate ?_ _ hl, allSome_truncate hg.addr _ ha, ?_, hg.lazies⟩
    · intro x hx
      have hmem : s.suspended.getD (s.suspended.length - c.susp - 1) [] ∈ s.suspended := by
        rw [List.getD_eq_getElem?_getD, List.getElem?_eq_getElem (by omega)]
        exact List.getElem_mem _
      exact hg.susp _ hmem x hx
    · intro l hl'
      exact hg.susp l (List.mem_of_mem_drop hl')
  · rename_i hlt
    rw [if_neg hlt] at hl
    exact ⟨allSome_truncate hg.data _ hd, allSome_truncate hg.linear _ hl, allSome_truncate hg.addr _ ha, hg.susp, hg.lazies⟩

theorem restore_safe (c : CtlState) (s : St) (hg : Good s) (hf : Fits c s) : SafeAt s (restore c) := by
  constructor
  · exact restore_good c s hg hf
  · intro h; cases h

theorem run_restore_ok (c : CtlState) (s : St) : ((restore c).run s).1 = .ok PUnit.unit := rfl

theorem popScope_safe (s : St) (hg : Good s) : SafeAt s popScope := by
  unfold popScope
  refine SafeAt_get ?_
  cases hl : s.linear with
  | nil => exact SafeAt_err s hg
  | cons a rest =>
    exact SafeAt_set _ s ⟨hg.data, allSome_tail (by have := hg.linear; rwa [hl] at this), hg.addr, hg.susp, hg.lazies⟩

theorem popScopes_safe : ∀ (n : Nat) (s : St), Good s → SafeAt s (popScopes n)
  | 0, s, hg => SafeAt_pure _ s hg
  | n + 1, s, hg => by
    unfold popScopes
    exact SafeAt_bind (popScope_safe s hg) (fun _ s' h => popScopes_safe n s' (by
      have := (popScope_safe s hg).1
      rw [h] at this
      exact this))

theorem popToMark_safe (l : Nat) (k : Bool) : ∀ (fuel : Nat) (s : St), Good s → SafeAt s (popToMark l k fuel)
  | 0, s, hg => SafeAt_err s hg
  | fuel + 1, s, hg => by
    unfold popToMark
    refine SafeAt_bind (popData_safe s hg) (fun v s' h => ?_)
    have hg' : Good s' := by
      have := (popData_safe s hg).1
      rw [h] at this
      exact this
    split
    · split
      · split
        · exact pushData_safe _ s' hg'
        · exact SafeAt_pure _ s' hg'
      · exact popToMark_safe l k fuel s' hg'
    · exact popToMark_safe l k fuel s' hg'

theorem setInScope_safe (id : Nat) (x : String) (v : Val) (s : St) (hg : Good s) : SafeAt s (setInScope id x v) := by
  unfold setInScope
  exact SafeAt_modify _ s ⟨hg.data, hg.linear, hg.addr, hg.susp, hg.lazies⟩

theorem bindTop_safe (x : String) (v : Val) (s : St) (hg : Good s) : SafeAt s (bindTop x v) := by
  unfold bindTop
  refine SafeAt_get ?_
  cases hl : s.linear with
  | nil => exact SafeAt_hostPanic_of_empty s hg hl
  | cons a rest =>
    cases a with
    | none => exact absurd rfl (hg.linear none (by rw [hl]; exact List.mem_cons_self))
    | some id =>
      simp only
      split
      · split
        · exact setInScope_safe _ _ _ s hg
        · exact SafeAt_err s hg
      · exact setInScope_safe _ _ _ s hg

theorem wrangleOptargs_safe (a b : Nat) (s : St) (hg : Good s) : SafeAt s (wrangleOptargs a b) := by
  unfold wrangleOptargs
  split
  · exact SafeAt_err s hg
  · split
    · refine SafeAt_bind (popN_safe _ s hg) (fun xs s' h => ?_)
      have hg' : Good s' := by
        have := (popN_safe (b - a) s hg).1
        rw [h] at this
        exact this
      exact pushData_safe _ s' hg'
    · exact pushData_safe _ s hg

theorem SafeAt_err_bind {α β} (f : α → M β) (s : St) (hg : Good s) : SafeAt s ((VM.err : M α) >>= f) := by
  unfold SafeAt
  rw [run_bind, run_err]
  exact ⟨hg, by intro h; cases h⟩

theorem SafeAt_timeout_bind {α β} (f : α → M β) (s : St) (hg : Good s) :
    SafeAt s ((throw Fault.timeout : M α) >>= f) := by
  unfold SafeAt
  rw [run_bind, run_throw]
  exact ⟨hg, by intro h; cases h⟩

theorem good_of_safe {α} {m : M α} {s : St} (h : SafeAt s m) {a : α} {s' : St} (hr : m.run s = (.ok a, s')) : Good s' := by
  have := h.1
  rw [hr] at this
  exact this

theorem any_isNone_false {α} {l : List (Option α)} (h : allSome l) : l.any Option.isNone = false := by
  rw [List.any_eq_false]
  intro x hx
  have := h x hx
  cases x with
  | none => exact absurd rfl this
  | some _ => simp

theorem good_addr {s : St} (hg : Good s) (a : Nat × Int) (f : Nat) (pc : Int) :
    Good { s with addr := some a :: s.addr, curfunc := f, pc := pc } :=
  ⟨hg.data, hg.linear, allSome_cons hg.addr, hg.susp, hg.lazies⟩

theorem callFunction_safe (f n : Nat) (s : St) (hg : Good s) : SafeAt s (callFunction f n) := by
  unfold callFunction
  refine SafeAt_get ?_
  dsimp only
  have hany : (List.take n s.data).any Option.isNone = false := any_isNone_false (allSome_take hg.data n)
  have hfin : ∀ s', Good s' → SafeAt s' (modify fun s => { s with addr := some (s.curfunc, s.pc + 1) :: s.addr, curfunc := f, pc := 0 } : M PUnit) :=
    fun s' hg' => SafeAt_modify _ s' (good_addr hg' _ _ _)
  split
  · exact SafeAt_err_bind _ s hg
  · rw [hany]
    simp only [Bool.false_eq_true, if_false]
    split
    · exact SafeAt_bind (wrangleOptargs_safe _ _ s hg) (fun _ s' h => hfin s' (good_of_safe (wrangleOptargs_safe _ _ s hg) h))
    · split
      · exact SafeAt_err_bind _ s hg
      · exact hfin s hg

/-! ### single instructions -/

theorem good_pc {s : St} (hg : Good s) (pc : Int) : Good { s with pc := pc } :=
  ⟨hg.data, hg.linear, hg.addr, hg.susp, hg.lazies⟩

theorem incPc_safe (s : St) (hg : Good s) : SafeAt s incPc := by
  unfold incPc
  exact SafeAt_modify _ s (good_pc hg _)

theorem run_incPc (s : St) : incPc.run s = (.ok PUnit.unit, { s with pc := s.pc + 1 }) := rfl

theorem jumpTo_safe (p : Int) (s : St) (hg : Good s) : SafeAt s (jumpTo p) := by
  unfold jumpTo
  refine SafeAt_get ?_
  split
  · exact SafeAt_err s hg
  · exact SafeAt_set _ s (good_pc hg _)

/-- the instructions that call into the mutually recursive part of the interpreter -/
def isCall : Instr → Bool
  | .callArr _ => true
  | .callExpr _ _ => true
  | _ => false

theorem then_safe {α β} {m : M α} {k : M β} {s : St} (hm : SafeAt s m)
    (hk : ∀ s', Good s' → SafeAt s' k) : SafeAt s (m >>= fun _ => k) :=
  SafeAt_bind hm (fun _ s' h => hk s' (good_of_safe hm h))

/-- Every instruction that does not call (24 of the 26 instruction kinds of the model):
one step from a state without nil cells does not panic — except the bind on an empty scope
stack — and leaves a state without nil cells. -/
theorem exec_step_safe (fuel : Nat) (i : Instr) (hi : isCall i = false) (s : St) (hg : Good s) :
    SafeAt s (exec (fuel + 1) i) := by
  cases i with
  | callArr n => simp [isCall] at hi
  | callExpr c a => simp [isCall] at hi
  | push v =>
    rw [exec]
    exact then_safe (pushData_safe v s hg) incPc_safe
  | pop =>
    rw [exec]
    refine SafeAt_get ?_
    cases hd : s.data with
    | nil => exact incPc_safe s hg
    | cons a rest =>
      have hrest : allSome rest := allSome_tail (by have := hg.data; rwa [hd] at this)
      cases a with
      | none => exact absurd rfl (hg.data none (by rw [hd]; exact List.mem_cons_self))
      | some v => exact SafeAt_set _ s ⟨hrest, hg.linear, hg.addr, hg.susp, hg.lazies⟩
  | dup =>
    rw [exec]
    refine SafeAt_get ?_
    cases hd : s.data with
    | nil => exact SafeAt_err s hg
    | cons a rest =>
      cases a with
      | none => exact absurd rfl (hg.data none (by rw [hd]; exact List.mem_cons_self))
      | some v => exact then_safe (pushData_safe v s hg) incPc_safe
  | envToStack x =>
    rw [exec]
    refine SafeAt_get ?_
    split
    · exact then_safe (pushData_safe _ s hg) incPc_safe
    · exact SafeAt_err s hg
  | popStackPutEnv x =>
    rw [exec]
    refine SafeAt_bind (popData_safe s hg) (fun v s' h => ?_)
    have hg' := good_of_safe (popData_safe s hg) h
    exact then_safe (incPc_safe s' hg') (fun s'' hg'' => bindTop_safe x v s'' hg'')
  | update x =>
    rw [exec]
    refine SafeAt_bind (popData_safe s hg) (fun v s' h => ?_)
    have hg' := good_of_safe (popData_safe s hg) h
    refine then_safe (incPc_safe s' hg') (fun s'' hg'' => ?_)
    refine SafeAt_get ?_
    split
    · exact setInScope_safe _ _ _ s'' hg''
    · exact bindTop_safe x v s'' hg''
  | jump off =>
    rw [exec]
    exact SafeAt_get (jumpTo_safe _ s hg)
  | goto loc =>
    rw [exec]
    exact jumpTo_safe _ s hg
  | branch dir off =>
    rw [exec]
    refine SafeAt_bind (popData_safe s hg) (fun v s' h => ?_)
    have hg' := good_of_safe (popData_safe s hg) h
    refine SafeAt_get ?_
    split
    · exact jumpTo_safe _ s' hg'
    · exact incPc_safe s' hg'
  | ret =>
    rw [exec]
    refine SafeAt_get ?_
    cases ha : s.addr with
    | nil => exact SafeAt_err s hg
    | cons a rest =>
      have hrest : allSome rest := allSome_tail (by have := hg.addr; rwa [ha] at this)
      cases a with
      | none => exact absurd rfl (hg.addr none (by rw [ha]; exact List.mem_cons_self))
      | some fp => exact SafeAt_set _ s ⟨hg.data, hg.linear, hrest, hg.susp, hg.lazies⟩
  | addScope =>
    rw [exec]
    exact SafeAt_modify _ s ⟨hg.data, allSome_cons hg.linear, hg.addr, hg.susp, hg.lazies⟩
  | addFuncScope t =>
    rw [exec]
    exact SafeAt_modify _ s ⟨hg.data, allSome_cons hg.linear, hg.addr, hg.susp, hg.lazies⟩
  | removeScope =>
    rw [exec]
    exact then_safe (incPc_safe s hg) popScope_safe
  | createClosure t =>
    rw [exec]
    refine then_safe (incPc_safe s hg) (fun s' hg' => ?_)
    refine SafeAt_get ?_
    refine then_safe (SafeAt_set _ s' ⟨hg'.data, hg'.linear, hg'.addr, hg'.susp, hg'.lazies⟩) (fun s'' hg'' => pushData_safe _ s'' hg'')
  | prepareCall x nargs =>
    rw [exec]
    refine SafeAt_get ?_
    dsimp only
    split
    · exact then_safe (wrangleOptargs_safe _ _ s hg) incPc_safe
    · exact incPc_safe s hg
  | tailGuard x skip =>
    rw [exec]
    refine SafeAt_get ?_
    have hset : SafeAt s (set { s with pc := s.pc + skip } : M PUnit) :=
      SafeAt_set _ s ⟨hg.data, hg.linear, hg.addr, hg.susp, hg.lazies⟩
    split
    · split
      · exact incPc_safe s hg
      · exact hset
    · exact hset
  | pushLazy e =>
    rw [exec]
    refine SafeAt_get ?_
    have hg1 : Good { s with lazies := s.lazies ++ [({ e, stack := s.linear, curfunc := s.curfunc, value := none } : LazyObj)] } :=
      ⟨hg.data, hg.linear, hg.addr, hg.susp, by
        intro z hz
        rcases List.mem_append.mp hz with h | h
        · exact hg.lazies z h
        · simp at h; subst h; exact hg.linear⟩
    refine then_safe (SafeAt_set _ s hg1) (fun s' hg' => ?_)
    exact then_safe (pushData_safe _ s' hg') incPc_safe
  | loopStart l => rw [exec]; exact incPc_safe s hg
  | label => rw [exec]; exact incPc_safe s hg
  | pushMark l =>
    rw [exec]
    exact then_safe (pushData_safe _ s hg) incPc_safe
  | popUntilMark l =>
    rw [exec]
    refine then_safe (incPc_safe s hg) (fun s' hg' => ?_)
    exact SafeAt_get (popToMark_safe l true _ s' hg')
  | clearMark l =>
    rw [exec]
    refine SafeAt_get ?_
    exact then_safe (popToMark_safe l false _ s hg) incPc_safe
  | brk l n =>
    rw [exec]
    refine SafeAt_get ?_
    split
    · exact SafeAt_err s hg
    · exact then_safe (popScopes_safe n s hg) (fun s' hg' => SafeAt_modify _ s' (good_pc hg' _))
  | cont l n =>
    rw [exec]
    refine SafeAt_get ?_
    split
    · exact SafeAt_err s hg
    · exact then_safe (popScopes_safe n s hg) (fun s' hg' => SafeAt_modify _ s' (good_pc hg' _))
  | assign =>
    rw [exec]
    refine then_safe (incPc_safe s hg) (fun s1 hg1 => ?_)
    refine SafeAt_bind (popData_safe s1 hg1) (fun rhs s2 h2 => ?_)
    have hg2 := good_of_safe (popData_safe s1 hg1) h2
    refine SafeAt_bind (popData_safe s2 hg2) (fun lhs s3 h3 => ?_)
    have hg3 := good_of_safe (popData_safe s2 hg2) h3
    refine SafeAt_get ?_
    split
    · split
      · exact pushData_safe _ s3 hg3
      · exact SafeAt_err s3 hg3
    · exact SafeAt_err s3 hg3

end ZygoVerif.VMSafe
