/-
Proofs/GenBalancedState.lean — what the modelled generator (Model/Gen.lean) does to the
interpreter state it threads (`GS`): loop records and function templates are only appended
(`Ext`), the compile-time loop stack is restored, loop ids are fresh (`idsIn`), and the
unfolding lemmas for the stateful forms (`for`, `fn`/`defn`, `break`/`continue`).
Used by Proofs/GenBalancedLoopGen.lean.
-/
import ZygoVerif.Proofs.GenBalancedLoop
set_option linter.unusedSimpArgs false
namespace ZygoVerif.Bal
open ZygoVerif.VM ZygoVerif.Core

/-! ## The generator state only grows -/

structure Ext (gs gs' : GS) : Prop where
  stack : gs'.loopstack = gs.loopstack
  loops : ∃ ext, gs'.loops = gs.loops ++ ext
  fns : ∃ ext, gs'.fns = gs.fns ++ ext

theorem Ext.refl (gs : GS) : Ext gs gs := ⟨rfl, ⟨[], by simp⟩, ⟨[], by simp⟩⟩

theorem Ext.trans {a b c : GS} (h₁ : Ext a b) (h₂ : Ext b c) : Ext a c := by
  obtain ⟨s1, ⟨l1, hl1⟩, ⟨f1, hf1⟩⟩ := h₁
  obtain ⟨s2, ⟨l2, hl2⟩, ⟨f2, hf2⟩⟩ := h₂
  exact ⟨s2.trans s1, ⟨l1 ++ l2, by rw [hl2, hl1, List.append_assoc]⟩, ⟨f1 ++ f2, by rw [hf2, hf1, List.append_assoc]⟩⟩

theorem Ext.loops_len {a b : GS} (h : Ext a b) : a.loops.length ≤ b.loops.length := by
  obtain ⟨_, ⟨l, hl⟩, _⟩ := h
  rw [hl]; simp

theorem Ext.fns_len {a b : GS} (h : Ext a b) : a.fns.length ≤ b.fns.length := by
  obtain ⟨_, _, ⟨l, hl⟩⟩ := h
  rw [hl]; simp

theorem Ext.loops_getD {a b : GS} (h : Ext a b) (l : Nat) (hl : l < a.loops.length) :
    b.loops.getD l {} = a.loops.getD l {} := by
  obtain ⟨_, ⟨e, he⟩, _⟩ := h
  rw [he, List.getD_eq_getElem?_getD, List.getD_eq_getElem?_getD, List.getElem?_append_left hl]

theorem Ext.fns_get {a b : GS} (h : Ext a b) (i : Nat) (hi : i < a.fns.length) : b.fns[i]? = a.fns[i]? := by
  obtain ⟨_, _, ⟨e, he⟩⟩ := h
  rw [he, List.getElem?_append_left hi]

/-- ids on the compile-time loop stack are ids of existing loop records -/
def GSok (gs : GS) : Prop := ∀ id ∈ gs.loopstack, id < gs.loops.length

theorem GSok.ext {a b : GS} (h : GSok a) (he : Ext a b) : GSok b := by
  intro id hid
  rw [he.stack] at hid
  exact Nat.lt_of_lt_of_le (h id hid) he.loops_len

/-- the final loop table `T` agrees with the records allocated between `gs` and `gs'` -/
def TOk (gs gs' : GS) (T : List LoopRec) : Prop :=
  ∀ l, gs.loops.length ≤ l → l < gs'.loops.length → T.getD l {} = gs'.loops.getD l {}

theorem TOk.left {a b c : GS} {T : List LoopRec} (h : TOk a c T) (_h1 : Ext a b) (h2 : Ext b c) : TOk a b T := by
  intro l hlo hhi
  rw [h l hlo (Nat.lt_of_lt_of_le hhi h2.loops_len), h2.loops_getD l hhi]

theorem TOk.right {a b c : GS} {T : List LoopRec} (h : TOk a c T) (h1 : Ext a b) (_h2 : Ext b c) : TOk b c T := by
  intro l hlo hhi
  exact h l (Nat.le_trans h1.loops_len hlo) hhi

/-! ## Function templates -/

/-- a finished template is a verified function -/
def FnVerified (T : List LoopRec) (f : FnObj) : Prop :=
  ∃ ann, verify { kind := .fn, nformals := f.params.length, varargs := f.varargs, nfixed := f.nargs,
                  code := B T f.code } ann = true

/-- every template allocated between `gs` and `gs'` is verified -/
def FnsOK (gs gs' : GS) (T : List LoopRec) : Prop :=
  ∀ i f, gs.fns.length ≤ i → gs'.fns[i]? = some f → FnVerified T f

theorem FnsOK.refl (gs : GS) (T : List LoopRec) : FnsOK gs gs T := by
  intro i f hi hf
  have : i < gs.fns.length := by
    rcases Nat.lt_or_ge i gs.fns.length with h | h
    · exact h
    · rw [List.getElem?_eq_none_iff.mpr h] at hf; cases hf
  omega

theorem FnsOK.trans {a b c : GS} {T : List LoopRec} (h1 : FnsOK a b T) (h2 : FnsOK b c T) (e2 : Ext b c) :
    FnsOK a c T := by
  intro i f hi hf
  rcases Nat.lt_or_ge i b.fns.length with h | h
  · rw [e2.fns_get i h] at hf
    exact h1 i f hi hf
  · exact h2 i f h hf

/-! ## Fresh loop ids -/

def ilid? : Instr → Option Nat
  | .loopStart l => some l
  | _ => none

def ilids (code : List Instr) : List Nat := code.filterMap ilid?

theorem ilids_append (a b : List Instr) : ilids (a ++ b) = ilids a ++ ilids b := by simp [ilids]

theorem ilids_cons (i : Instr) (r : List Instr) : ilids (i :: r) = (ilid? i).toList ++ ilids r := by
  simp only [ilids, List.filterMap_cons]
  cases ilid? i <;> simp

theorem lid?_toB (T : List LoopRec) (i : Instr) : lid? (toB T i) = ilid? i := by
  cases i <;> rfl

theorem lids_B (T : List LoopRec) (code : List Instr) : lids (B T code) = ilids code := by
  simp only [lids, B, ilids, List.filterMap_map]
  congr 1
  funext i
  exact lid?_toB T i

/-- each loop id in `code` occurs once and was allocated between `lo` and `hi` -/
def idsIn (code : List Instr) (lo hi : Nat) : Prop :=
  ∀ l, (ilids code).count l ≤ 1 ∧ (0 < (ilids code).count l → lo ≤ l ∧ l < hi)

theorem idsIn_nil (lo hi : Nat) : idsIn [] lo hi := by
  intro l; simp [ilids]

theorem idsIn_mono {code : List Instr} {lo hi lo' hi' : Nat} (h : idsIn code lo hi) (h1 : lo' ≤ lo) (h2 : hi ≤ hi') :
    idsIn code lo' hi' := by
  intro l
  have := h l
  omega

/-- two pieces with ids from disjoint ranges, in either order -/
theorem idsIn_app {a b : List Instr} {lo mid hi : Nat} (ha : idsIn a lo mid) (hb : idsIn b mid hi) (h1 : lo ≤ mid) (h2 : mid ≤ hi) :
    idsIn (a ++ b) lo hi := by
  intro l
  have := ha l
  have := hb l
  simp only [ilids_append, List.count_append]
  omega

theorem idsIn_app' {a b : List Instr} {lo mid hi : Nat} (ha : idsIn a mid hi) (hb : idsIn b lo mid) (h1 : lo ≤ mid) (h2 : mid ≤ hi) :
    idsIn (a ++ b) lo hi := by
  intro l
  have := ha l
  have := hb l
  simp only [ilids_append, List.count_append]
  omega

/-- instructions other than `loopStart` carry no id -/
theorem idsIn_plain {a p : List Instr} {lo hi : Nat} (ha : idsIn a lo hi) (hp : ilids p = []) :
    idsIn (a ++ p) lo hi ∧ idsIn (p ++ a) lo hi := by
  constructor <;> intro l <;> have := ha l <;> simp only [ilids_append, List.count_append, hp, List.count_nil] <;> omega

theorem idsIn_of_plain {p : List Instr} (lo hi : Nat) (hp : ilids p = []) : idsIn p lo hi := by
  intro l; simp [hp]

theorem nodup_of_count_le_one : ∀ (xs : List Nat), (∀ x, xs.count x ≤ 1) → xs.Nodup
  | [], _ => List.nodup_nil
  | x :: r, h => by
    rw [List.nodup_cons]
    constructor
    · intro hm
      have h1 := h x
      have h2 : 0 < r.count x := List.count_pos_iff.mpr hm
      simp only [List.count_cons_self] at h1
      omega
    · apply nodup_of_count_le_one r
      intro y
      have := h y
      rw [List.count_cons] at this
      omega

theorem nodup_of_idsIn {code : List Instr} {lo hi : Nat} (h : idsIn code lo hi) : (ilids code).Nodup :=
  nodup_of_count_le_one _ (fun l => (h l).1)

theorem mem_range_of_idsIn {code : List Instr} {lo hi : Nat} (h : idsIn code lo hi) (l : Nat) (hl : l ∈ ilids code) :
    lo ≤ l ∧ l < hi :=
  (h l).2 (List.count_pos_iff.mpr hl)

/-! ## Running the generator monad, continued -/

theorem set_ok (s' gs : GS) (r : PUnit × GS) : (set s' : G PUnit) gs = Except.ok r ↔ r = (⟨⟩, s') := by
  show (StateT.set s' : G PUnit) gs = Except.ok r ↔ _
  unfold StateT.set
  simp only [pure, Except.pure]
  constructor
  · intro h; cases h; rfl
  · intro h; rw [h]

theorem modify_ok (f : GS → GS) (gs : GS) (r : PUnit × GS) : (modify f : G PUnit) gs = Except.ok r ↔ r = (⟨⟩, f gs) := by
  show (StateT.modifyGet (fun s => (PUnit.unit, f s)) : G PUnit) gs = Except.ok r ↔ _
  unfold StateT.modifyGet
  simp only [pure, Except.pure]
  constructor
  · intro h; cases h; rfl
  · intro h; rw [h]

/-- the generator state inside a `for`: a fresh loop record, pushed on the compile-time loop stack -/
def forGs (gs : GS) (c : Ctx) (label : Option String) : GS :=
  { gs with loops := gs.loops ++ [({ label, scopeDepth := c.scopes } : LoopRec)], loopstack := gs.loops.length :: gs.loopstack }

/-- the generator state after a `for`: offsets stored, loop stack popped -/
def forDone (g5 : GS) (loop : Nat) (brk cont : Int) : GS :=
  { g5 with loopstack := g5.loopstack.drop 1,
            loops := g5.loops.set loop ({ (g5.loops.getD loop {}) with breakOff := brk, contOff := cont } : LoopRec) }

/-- the code of a `for` loop, from the code of its four parts -/
def forCode (loop : Nat) (i t s b : List Instr) : List Instr :=
  (asmFor loop (i ++ [.popUntilMark loop]) t (s ++ [.popUntilMark loop]) (b ++ [.popUntilMark loop])).1

def forBrk (loop : Nat) (i t s b : List Instr) : Int :=
  (asmFor loop (i ++ [.popUntilMark loop]) t (s ++ [.popUntilMark loop]) (b ++ [.popUntilMark loop])).2.1

def forCont (loop : Nat) (i t s b : List Instr) : Int :=
  (asmFor loop (i ++ [.popUntilMark loop]) t (s ++ [.popUntilMark loop]) (b ++ [.popUntilMark loop])).2.2

/-- `GenerateForLoop`, with the state threading spelled out: body, init, test, increment are compiled
in this order with the loop on the compile-time loop stack; then the offsets are stored. -/
theorem compile_for_ok (isFn : Nat → Bool) (c : Ctx) (label : Option String) (init test incr : Expr) (body : List Expr)
    (gs : GS) (r : (List Instr × Bool) × GS)
    (h : compile isFn c (.for_ label init test incr body) gs = .ok r) :
    ∃ rb g2 ri g3 rt g4 rs g5,
      compileBegin isFn { c with tail := false, scopes := c.scopes + 1 } body (forGs gs c label) = .ok (rb, g2) ∧
      compile isFn { c with tail := false, scopes := c.scopes + 1 } init g2 = .ok (ri, g3) ∧
      compile isFn { c with tail := false, scopes := c.scopes + 1 } test g3 = .ok (rt, g4) ∧
      compile isFn { c with tail := false, scopes := c.scopes + 1 } incr g4 = .ok (rs, g5) ∧
      r = ((forCode gs.loops.length ri.1 rt.1 rs.1 rb.1, c.tail),
           forDone g5 gs.loops.length (forBrk gs.loops.length ri.1 rt.1 rs.1 rb.1) (forCont gs.loops.length ri.1 rt.1 rs.1 rb.1)) := by
  rw [compile] at h
  simp only [bind, StateT.bind, StateT.run, get, getThe, MonadStateOf.get, StateT.get, pure, Except.pure, Except.bind,
    set, StateT.set, StateT.pure] at h
  unfold forGs forDone forCode forBrk forCont
  cases hb : compileBegin isFn { scopes := c.scopes + 1, funcname := c.funcname, known := c.known } body
      { fns := gs.fns, loops := gs.loops ++ [{ label := label, scopeDepth := c.scopes }],
        loopstack := gs.loops.length :: gs.loopstack, live := gs.live } with
  | error e => rw [hb] at h; cases h
  | ok vb =>
    obtain ⟨rb, g2⟩ := vb
    rw [hb] at h
    simp only at h
    cases hi : compile isFn { scopes := c.scopes + 1, funcname := c.funcname, known := c.known } init g2 with
    | error e => rw [hi] at h; cases h
    | ok vi =>
      obtain ⟨ri, g3⟩ := vi
      rw [hi] at h
      simp only at h
      cases ht : compile isFn { scopes := c.scopes + 1, funcname := c.funcname, known := c.known } test g3 with
      | error e => rw [ht] at h; cases h
      | ok vt =>
        obtain ⟨rt, g4⟩ := vt
        rw [ht] at h
        simp only at h
        cases hs : compile isFn { scopes := c.scopes + 1, funcname := c.funcname, known := c.known } incr g4 with
        | error e => rw [hs] at h; cases h
        | ok vs =>
          obtain ⟨rs, g5⟩ := vs
          rw [hs] at h
          refine ⟨rb, g2, ri, g3, rt, g4, rs, g5, by first | rfl | assumption, by first | rfl | assumption, by first | rfl | assumption, by first | rfl | assumption, ?_⟩
          cases h
          rfl

theorem Ext.for_ {gs g5 : GS} {c : Ctx} {label : Option String} {brk cont : Int} (h : Ext (forGs gs c label) g5) :
    Ext gs (forDone g5 gs.loops.length brk cont) := by
  obtain ⟨hs, ⟨el, hl⟩, ⟨ef, hf⟩⟩ := h
  refine ⟨?_, ⟨[({ (g5.loops.getD gs.loops.length {}) with breakOff := brk, contOff := cont } : LoopRec)] ++ el, ?_⟩, ⟨ef, hf⟩⟩
  · show g5.loopstack.drop 1 = gs.loopstack
    rw [hs]; rfl
  · show g5.loops.set gs.loops.length _ = _
    rw [hl]
    simp only [forGs, List.append_assoc, List.cons_append, List.nil_append]
    rw [List.set_append_right _ _ (Nat.le_refl _)]
    simp

theorem forDone_getD_self {gs g5 : GS} {c : Ctx} {label : Option String} {brk cont : Int} (h : Ext (forGs gs c label) g5) :
    ((forDone g5 gs.loops.length brk cont).loops.getD gs.loops.length {}).breakOff = brk ∧
    ((forDone g5 gs.loops.length brk cont).loops.getD gs.loops.length {}).contOff = cont := by
  have hlen : gs.loops.length < g5.loops.length := by
    have := h.loops_len
    simp only [forGs, List.length_append, List.length_cons, List.length_nil] at this
    omega
  simp only [forDone, List.getD_eq_getElem?_getD, List.getElem?_set_self hlen, Option.getD_some, and_self]

theorem forDone_getD_ne {g5 : GS} {loop l : Nat} {brk cont : Int} (h : loop ≠ l) :
    (forDone g5 loop brk cont).loops.getD l {} = g5.loops.getD l {} := by
  simp only [forDone, List.getD_eq_getElem?_getD, List.getElem?_set_ne h]

theorem forGs_getD {gs : GS} {c : Ctx} {label : Option String} (l : Nat) (hl : l < gs.loops.length) :
    (forGs gs c label).loops.getD l {} = gs.loops.getD l {} := by
  simp only [forGs, List.getD_eq_getElem?_getD, List.getElem?_append_left hl]

theorem forGs_getD_self {gs : GS} {c : Ctx} {label : Option String} :
    (forGs gs c label).loops.getD gs.loops.length {} = ({ label, scopeDepth := c.scopes } : LoopRec) := by
  simp [forGs, List.getD_eq_getElem?_getD]

/-! ## `buildSexpFun` -/

def tmplName (gs : GS) (name : String) : String := if name.isEmpty then s!"__anon{gs.fns.length}" else name

/-- the template `allocTemplate` registers -/
def tmplOf (isFn : Nat → Bool) (gs : GS) (name : String) (ps : List String) (rest : Option String) : FnObj :=
  { name := tmplName gs name, nargs := ps.length, varargs := rest.isSome, params := ps ++ rest.toList,
    closing := newClosing isFn gs.live }

def allocGs (isFn : Nat → Bool) (gs : GS) (name : String) (ps : List String) (rest : Option String) : GS :=
  { gs with fns := gs.fns ++ [tmplOf isFn gs name ps rest] }

/-- the context the body of a template is compiled in -/
def bodyCtx (c : Ctx) (gs : GS) (name : String) (selfTail : Bool) : Ctx :=
  { tail := true, scopes := 0, funcname := if selfTail then tmplName gs name else "",
    known := if name.isEmpty then c.known else (name, gs.fns.length) :: c.known }

theorem allocTemplate_ok (isFn : Nat → Bool) (c : Ctx) (name : String) (ps : List String) (rest : Option String)
    (selfTail : Bool) (gs : GS) (r : (Nat × Ctx) × GS) :
    allocTemplate isFn c name ps rest selfTail gs = .ok r ↔
      r = ((gs.fns.length, bodyCtx c gs name selfTail), allocGs isFn gs name ps rest) := by
  simp only [allocTemplate, bind_ok, get_ok, set_ok, pure_ok]
  constructor
  · rintro ⟨_, _, h1, _, _, h2, rfl⟩
    cases h1; cases h2
    rfl
  · rintro rfl
    exact ⟨_, _, rfl, _, _, rfl, rfl⟩

/-- the code of a finished template: prologue, body, epilogue -/
def fnCode (t : Nat) (params : List String) (b : List Instr) : List Instr :=
  [Instr.addFuncScope t] ++ (params.map Instr.popStackPutEnv).reverse ++ b ++ [.removeScope, .ret]

def finishGs (t : Nat) (b : List Instr) (gs : GS) : GS :=
  { gs with fns := gs.fns.set t { (gs.fns.getD t {}) with code := fnCode t (gs.fns.getD t {}).params b } }

theorem finishTemplate_ok (t : Nat) (b : List Instr) (gs : GS) (r : Unit × GS) :
    finishTemplate t b gs = .ok r ↔ r = ((), finishGs t b gs) := by
  simp only [finishTemplate, modify_ok]
  rfl

theorem Ext.alloc (isFn : Nat → Bool) (gs : GS) (name : String) (ps : List String) (rest : Option String) :
    Ext gs (allocGs isFn gs name ps rest) :=
  ⟨rfl, ⟨[], by simp [allocGs]⟩, ⟨[_], rfl⟩⟩

/-- a whole `fn`/`defn`: the template is appended, the body only appends, the template is completed -/
theorem Ext.finish {isFn : Nat → Bool} {gs g2 : GS} {name : String} {ps : List String} {rest : Option String} {b : List Instr}
    (h : Ext (allocGs isFn gs name ps rest) g2) : Ext gs (finishGs gs.fns.length b g2) := by
  obtain ⟨hs, ⟨el, hl⟩, ⟨ef, hf⟩⟩ := h
  refine ⟨hs, ⟨el, by simpa [allocGs, finishGs] using hl⟩,
    ⟨[({ (g2.fns.getD gs.fns.length {}) with code := fnCode gs.fns.length (g2.fns.getD gs.fns.length {}).params b } : FnObj)] ++ ef, ?_⟩⟩
  show g2.fns.set gs.fns.length _ = _
  rw [hf]
  simp only [allocGs, List.append_assoc, List.cons_append, List.nil_append]
  rw [List.set_append_right _ _ (Nat.le_refl _)]
  simp

/-- the finished template keeps its signature and gets its code -/
theorem finishGs_get_self {isFn : Nat → Bool} {gs g2 : GS} {name : String} {ps : List String} {rest : Option String} {b : List Instr}
    (h : Ext (allocGs isFn gs name ps rest) g2) :
    (finishGs gs.fns.length b g2).fns[gs.fns.length]? =
      some { tmplOf isFn gs name ps rest with code := fnCode gs.fns.length (ps ++ rest.toList) b } := by
  have hget : g2.fns[gs.fns.length]? = some (tmplOf isFn gs name ps rest) := by
    rw [h.fns_get gs.fns.length (by simp [allocGs])]
    simp [allocGs]
  have hlen : gs.fns.length < g2.fns.length := by
    have := h.fns_len
    simp only [allocGs, List.length_append, List.length_cons, List.length_nil] at this
    omega
  simp only [finishGs, List.getElem?_set_self hlen, List.getD_eq_getElem?_getD, hget, Option.getD_some]
  rfl

theorem finishGs_get_ne {t i : Nat} {b : List Instr} {g2 : GS} (h : t ≠ i) : (finishGs t b g2).fns[i]? = g2.fns[i]? := by
  simp only [finishGs, List.getElem?_set_ne h]

theorem finishGs_loops (t : Nat) (b : List Instr) (g2 : GS) : (finishGs t b g2).loops = g2.loops := rfl

end ZygoVerif.Bal
