/-
C06, Pratt loop = stratified grammar, part 4: the correspondence `Corr` holds between the
operator table REGENERATED from the current tree (`Table.generated`) and the documented levels
(`Stratified.documented`), with the binding power of each documented level read off the table
(`bpsOf`: no number is written here, a consistent renumbering of the table passes).

Tokens are infinitely many (any name, any literal text, any selector); the functions involved
only compare a name with the finitely many names of the table and the grammar (`names`) and never
look inside a literal or a selector. So: names of `names` are checked one by one (`decide`), every
other name behaves like an unknown one (lemmas below), payloads are irrelevant.
-/
import ZygoVerif.Proofs.PrattStrat
namespace ZygoVerif.Pratt
open ZygoVerif.Stratified

/-- the binding power the table gives to a level of the grammar (through any of its operators) -/
def bpOfLevel (T : Table) (lv : Level) : Nat :=
  (lv.members.findSome? (fun m => match m with
    | .op n _ => (T.find? n).map (·.bp)
    | .post n => (T.find? n).map (·.bp)
    | .drop n => (T.find? n).map (·.bp)
    | .commaTok _ => some T.lbpComma
    | .index => some T.lbpArr
    | .field => some T.lbpDot
    | .pre _ _ => none)).getD 0

def bpsOf (T : Table) (G : Grammar) : List Nat := G.map (bpOfLevel T)

/-- the name a member compares a token's name with -/
def anyName? : Member → Option String
  | .op n _ => some n
  | .post n => some n
  | .drop n => some n
  | .pre n _ => some n
  | _ => none

def memberNames (G : Grammar) : List String := G.flatMap (fun lv => lv.members.filterMap anyName?)

/-- every name the table or the grammar compares a token's name with -/
def names (T : Table) (G : Grammar) : List String := (T.entries.map (·.name) ++ memberNames G ++ [":", "if"]).eraseDups

/-! ## unknown names -/

theorem find?_none (T : Table) (n : String) (h : ∀ e ∈ T.entries, e.name ≠ n) : T.find? n = none := by
  unfold Table.find?
  rw [List.find?_eq_none]
  intro e he
  have := h e (List.mem_reverse.1 he)
  simpa using this

/-- a token whose name (if any) is none of the grammar's names, and that is no comma, selector or dot-symbol -/
def Plain (G : Grammar) (t : Sx) : Prop :=
  (∀ n, t.symName? = some n → n ∉ memberNames G) ∧ t.isComma = false ∧ t.isArr = false ∧ (∀ n, t ≠ .dot n)

theorem mem_memberNames {G : Grammar} {lv : Level} {m : Member} (hlv : lv ∈ G) (hm : m ∈ lv.members) {n : String}
    (hn : anyName? m = some n) : n ∈ memberNames G := by
  unfold memberNames
  rw [List.mem_flatMap]
  exact ⟨lv, hlv, List.mem_filterMap.2 ⟨m, hm, hn⟩⟩

theorem isNamed_false {G : Grammar} {t : Sx} (h : ∀ n, t.symName? = some n → n ∉ memberNames G) {nm : String}
    (hnm : nm ∈ memberNames G) : t.isNamed nm = false := by
  unfold Sx.isNamed
  cases hs : t.symName? with
  | none => rfl
  | some n =>
    have := h n hs
    rw [beq_eq_false_iff_ne]
    intro he
    simp only [Option.some.injEq] at he
    subst he; exact this hnm

theorem matchMember_plain {G : Grammar} {t : Sx} (h : Plain G t) {lv : Level} (hlv : lv ∈ G) {m : Member} (hm : m ∈ lv.members) :
    matchMember G t m = none := by
  obtain ⟨h1, h2, h3, h4⟩ := h
  cases m with
  | op n out => simp [matchMember, isNamed_false h1 (mem_memberNames hlv hm (n := n) rfl)]
  | commaTok out => simp [matchMember, h2]
  | post n => simp [matchMember, isNamed_false h1 (mem_memberNames hlv hm (n := n) rfl)]
  | drop n => simp [matchMember, isNamed_false h1 (mem_memberNames hlv hm (n := n) rfl)]
  | index => cases t <;> simp_all [matchMember, Sx.isArr]
  | field => cases t <;> simp_all [matchMember]
  | pre n out => rfl

theorem actOf_plain {G : Grammar} {t : Sx} (h : Plain G t) {lv : Level} (hlv : lv ∈ G) : actOf G lv t = none := by
  unfold actOf
  rw [List.findSome?_eq_none_iff]
  intro m hm
  exact matchMember_plain h hlv hm

theorem levelOf_none (G : Grammar) (t : Sx) : ∀ (lvls : Grammar) (i : Nat), (∀ lv ∈ lvls, actOf G lv t = none) →
    levelOf G t lvls i = none
  | [], _, _ => rfl
  | lv :: rest, i, h => by
    rw [levelOf, h lv (by simp)]
    exact levelOf_none G t rest (i + 1) (fun lv' hl => h lv' (by simp [hl]))

theorem actAt_none {G : Grammar} {t : Sx} (h : ∀ lv ∈ G, actOf G lv t = none) (m : Nat) : actAt G m t = none := by
  unfold actAt
  cases hg : G[m]? with
  | none => rfl
  | some lv => exact h lv (List.mem_of_getElem? hg)

theorem prefixOf_none (t : Sx) : ∀ (lvls : Grammar),
    (∀ lv ∈ lvls, ∀ m ∈ lv.members, ∀ nm out, m = Member.pre nm out → t.isNamed nm = false) → prefixOf t lvls = none
  | [], _ => rfl
  | lv :: rest, h => by
    rw [prefixOf]
    split
    · rename_i out heq
      exfalso
      obtain ⟨m, hm, hf⟩ := List.exists_of_findSome?_eq_some heq
      cases m with
      | pre n out' => simp [h lv (by simp) _ hm n out' rfl] at hf
      | _ => simp at hf
    · exact prefixOf_none t rest (fun lv' hl => h lv' (by simp [hl]))

theorem prefixOf_plain {G : Grammar} {t : Sx} (h : ∀ n, t.symName? = some n → n ∉ memberNames G) : prefixOf t G = none := by
  apply prefixOf_none
  intro lv hlv m hm nm out he
  subst he
  exact isNamed_false h (mem_memberNames hlv hm (n := nm) rfl)

/-- a plain token is owned by no level -/
theorem ledCorr_plain {T : Table} {G : Grammar} {bps : List Nat} {t : Sx} (h : Plain G t) (hl : lbp T t = some 0) :
    ledCorr T G bps t = true := by
  have hall : ∀ lv ∈ G, actOf G lv t = none := fun lv hlv => actOf_plain h hlv
  unfold ledCorr
  rw [levelOf_none G t G 0 hall, hl]
  simp only [beq_self_eq_true, Bool.true_and, List.all_eq_true, List.mem_range]
  intro m _
  rw [actAt_none hall m]; rfl

theorem nudCorr_plain {T : Table} {G : Grammar} {bps : List Nat} {t : Sx}
    (h : ∀ n, t.symName? = some n → n ∉ memberNames G) (hn : nudOf T t = .atom) : nudCorr T G bps t = true := by
  unfold nudCorr
  rw [prefixOf_plain h, hn]
  rfl

/-! ## dot-symbols with an unknown name: field access -/

theorem known_false {G : Grammar} {n : String} (h : n ∉ memberNames G) : known G n = false := by
  unfold known
  rw [Bool.eq_false_iff]
  intro hk
  rw [List.any_eq_true] at hk
  obtain ⟨lv, hlv, hm⟩ := hk
  rw [List.any_eq_true] at hm
  obtain ⟨m, hm, he⟩ := hm
  have he' : m.opName? = some n := by simpa using he
  apply h
  cases m with
  | op nm out => simp only [Member.opName?, Option.some.injEq] at he'; subst he'; exact mem_memberNames hlv hm rfl
  | post nm => simp only [Member.opName?, Option.some.injEq] at he'; subst he'; exact mem_memberNames hlv hm rfl
  | drop nm => simp only [Member.opName?, Option.some.injEq] at he'; subst he'; exact mem_memberNames hlv hm rfl
  | _ => simp [Member.opName?] at he'

/-- what a level does with a dot-symbol of unknown name -/
def fieldAct (lv : Level) : Option Act := if lv.members.any (fun m => m == .field) then some .field else none

theorem actOf_dot {G : Grammar} {n : String} (h : n ∉ memberNames G) {lv : Level} (hlv : lv ∈ G) :
    actOf G lv (.dot n) = fieldAct lv := by
  have h1 : ∀ nm, (Sx.dot n).symName? = some nm → nm ∉ memberNames G := by
    intro nm hs; simp only [Sx.symName?, Option.some.injEq] at hs; subst hs; exact h
  unfold actOf fieldAct
  have key : ∀ ms : List Member, (∀ m ∈ ms, m ∈ lv.members) →
      ms.findSome? (matchMember G (.dot n)) = if ms.any (fun m => m == .field) then some .field else none := by
    intro ms
    induction ms with
    | nil => intro _; rfl
    | cons m r ih =>
      intro hsub
      have hm : m ∈ lv.members := hsub m (by simp)
      have hr := ih (fun x hx => hsub x (by simp [hx]))
      cases m with
      | op nm out => simp [List.findSome?, matchMember, isNamed_false h1 (mem_memberNames hlv hm (n := nm) rfl), hr]
      | commaTok out => simp [List.findSome?, matchMember, Sx.isComma, hr]
      | post nm => simp [List.findSome?, matchMember, isNamed_false h1 (mem_memberNames hlv hm (n := nm) rfl), hr]
      | drop nm => simp [List.findSome?, matchMember, isNamed_false h1 (mem_memberNames hlv hm (n := nm) rfl), hr]
      | index => simp [List.findSome?, matchMember, hr]
      | field => simp [List.findSome?, matchMember, known_false h]
      | pre nm out => simp [List.findSome?, matchMember, hr]
  exact key lv.members (fun _ hm => hm)

/-- `levelOf` with the action of each level given by `f` -/
def levelOfF (f : Level → Option Act) : Grammar → Nat → Option (Nat × Act)
  | [], _ => none
  | lv :: rest, k => match f lv with
    | some a => some (k, a)
    | none => levelOfF f rest (k + 1)

theorem levelOf_congr (G : Grammar) (t : Sx) (f : Level → Option Act) : ∀ (lvls : Grammar) (i : Nat),
    (∀ lv ∈ lvls, actOf G lv t = f lv) → levelOf G t lvls i = levelOfF f lvls i
  | [], _, _ => rfl
  | lv :: rest, i, h => by
    rw [levelOf, levelOfF, h lv (by simp)]
    cases f lv with
    | some a => rfl
    | none => exact levelOf_congr G t f rest (i + 1) (fun lv' hl => h lv' (by simp [hl]))

theorem actAt_congr {G : Grammar} {t : Sx} {f : Level → Option Act} (h : ∀ lv ∈ G, actOf G lv t = f lv) (m : Nat) :
    actAt G m t = (G[m]?).bind f := by
  unfold actAt
  cases hg : G[m]? with
  | none => rfl
  | some lv => exact h lv (List.mem_of_getElem? hg)

/-- `ledCorr` with the grammar's side given by `f` -/
def ledCorrF (G : Grammar) (bps : List Nat) (f : Level → Option Act) (l : Option Nat) (led : Led) (isArr : Bool) : Bool :=
  match levelOfF f G 0 with
  | none => l == some 0 && (List.range G.length).all (fun m => (G[m]?).bind f == none)
  | some (k, act) =>
    decide (k < G.length) && l == some (bps.getD k 0) && (G[k]?).bind f == some act &&
    (List.range G.length).all (fun m => m == k || (G[m]?).bind f == none) &&
    (match act with
     | .bin out => led == .bin out (if rightAt G k then bps.getD k 0 - 1 else bps.getD k 0)
     | .post name => led == .post name
     | .field => led == .field && k + 1 == G.length
     | .index => led == .index && k + 1 == G.length && isArr
     | .drop => led == .drop)

theorem ledCorr_eq_F {T : Table} {G : Grammar} {bps : List Nat} {t : Sx} {f : Level → Option Act}
    (h : ∀ lv ∈ G, actOf G lv t = f lv) : ledCorr T G bps t = ledCorrF G bps f (lbp T t) (ledOf T t) t.isArr := by
  unfold ledCorr ledCorrF
  rw [levelOf_congr G t f G 0 h]
  simp only [actAt_congr h] <;> rfl

/-! ## the table of the current tree and the documented levels -/

abbrev TG := Table.generated
abbrev DG := documented
abbrev bpsG := bpsOf TG DG

theorem names_cover : (TG.entries.all fun e => (names TG DG).contains e.name) = true ∧
    ((memberNames DG).all fun n => (names TG DG).contains n) = true := by decide +kernel

theorem unknown_find {n : String} (h : n ∉ names TG DG) : TG.find? n = none := by
  apply find?_none
  intro e he heq
  apply h
  have := List.all_eq_true.1 names_cover.1 e he
  rw [List.contains_iff_mem] at this
  rw [← heq]; exact this

theorem unknown_member {n : String} (h : n ∉ names TG DG) : n ∉ memberNames DG := by
  intro hm
  apply h
  have := List.all_eq_true.1 names_cover.2 n hm
  rwa [List.contains_iff_mem] at this

theorem if_known : "if" ∈ names TG DG := by decide +kernel

/-- the known names, one by one -/
theorem known_ok : ((names TG DG).all fun n =>
    (!okTok TG (.sym n) || (ledCorr TG DG bpsG (.sym n) && nudCorr TG DG bpsG (.sym n))) &&
    (!okTok TG (.lab n) || (ledCorr TG DG bpsG (.lab n) && nudCorr TG DG bpsG (.lab n))) &&
    (!okTok TG (.dot n) || (ledCorr TG DG bpsG (.dot n) && nudCorr TG DG bpsG (.dot n)))) = true := by decide +kernel

/-- the tokens without a name or payload -/
theorem fixed_ok : ([Sx.comma, Sx.semi, Sx.hash, Sx.null, Sx.arr [], Sx.lit "", Sx.list [], Sx.other true "", Sx.other false ""].all fun t =>
    !okTok TG t || (ledCorr TG DG bpsG t && nudCorr TG DG bpsG t)) = true := by decide +kernel

/-- a dot-symbol of unknown name is a field access of the tightest level -/
theorem dot_unknown_F : ledCorrF DG bpsG fieldAct (some TG.lbpDot)
    (match TG.find? "." with | some e => ledOfEntry e | none => .drop) false = true := by decide +kernel

theorem ledCorr_payload {t t' : Sx} (hm : ∀ m, matchMember DG t m = matchMember DG t' m) (hl : lbp TG t = lbp TG t')
    (hled : ledOf TG t = ledOf TG t') (ha : t.isArr = t'.isArr) : ledCorr TG DG bpsG t = ledCorr TG DG bpsG t' := by
  have hact : ∀ lv ∈ DG, actOf DG lv t = actOf DG lv t' := by
    intro lv _
    unfold actOf
    congr 1
    funext m; exact hm m
  rw [ledCorr_eq_F (f := fun lv => actOf DG lv t') hact, ledCorr_eq_F (f := fun lv => actOf DG lv t') (fun _ _ => rfl), hl, hled, ha]

theorem nudCorr_noname {t : Sx} (h : t.symName? = none) : nudCorr TG DG bpsG t = true := by
  apply nudCorr_plain
  · intro n hn; rw [h] at hn; cases hn
  · simp [nudOf, h]

/-- **the correspondence holds for the table of the current tree** -/
theorem corr_generated : Corr TG DG bpsG where
  pos := by
    have : (List.range DG.length).all (fun j => decide (0 < bpsG.getD j 0)) = true := by decide +kernel
    intro j hj
    simpa using List.all_eq_true.1 this j (List.mem_range.2 hj)
  incr := by
    have : (List.range DG.length).all (fun j => (List.range j).all (fun i => decide (bpsG.getD i 0 < bpsG.getD j 0))) = true := by
      decide +kernel
    intro i j hij hj
    have h1 := List.all_eq_true.1 this j (List.mem_range.2 hj)
    simpa using List.all_eq_true.1 h1 i (List.mem_range.2 hij)
  colon := by decide +kernel
  lab := by
    intro n h
    exact h
  led := by
    intro t ht
    have hk := List.all_eq_true.1 known_ok
    have hf := List.all_eq_true.1 fixed_ok
    cases t with
    | sym n =>
      by_cases hn : n ∈ names TG DG
      · have := hk n hn
        simp only [Bool.and_eq_true, Bool.or_eq_true, Bool.not_eq_true'] at this
        rcases this.1.1 with h | h
        · rw [ht] at h; cases h
        · exact h.1
      · have hp : Plain DG (.sym n) := by
          refine ⟨?_, rfl, rfl, fun m hm => by cases hm⟩
          intro nm hs
          simp only [Sx.symName?, Option.some.injEq] at hs
          subst hs; exact unknown_member hn
        refine ledCorr_plain hp ?_
        simp only [lbp, unknown_find hn]
        split <;> rfl
    | lab n =>
      by_cases hn : n ∈ names TG DG
      · have := hk n hn
        simp only [Bool.and_eq_true, Bool.or_eq_true, Bool.not_eq_true'] at this
        rcases this.1.2 with h | h
        · rw [ht] at h; cases h
        · exact h.1
      · have hp : Plain DG (.lab n) := by
          refine ⟨?_, rfl, rfl, fun m hm => by cases hm⟩
          intro nm hs
          simp only [Sx.symName?, Option.some.injEq] at hs
          subst hs; exact unknown_member hn
        refine ledCorr_plain hp ?_
        simp only [lbp, unknown_find hn]
        split <;> rfl
    | dot n =>
      by_cases hn : n ∈ names TG DG
      · have := hk n hn
        simp only [Bool.and_eq_true, Bool.or_eq_true, Bool.not_eq_true'] at this
        rcases this.2 with h | h
        · rw [ht] at h; cases h
        · exact h.1
      · rw [ledCorr_eq_F (f := fieldAct) (fun lv hlv => actOf_dot (unknown_member hn) hlv)]
        have hne : (n == "if") = false := by
          rw [beq_eq_false_iff_ne]; intro he; subst he; exact hn if_known
        have hl : lbp TG (.dot n) = some TG.lbpDot := by simp only [lbp, hne, unknown_find hn]; rfl
        have hled : ledOf TG (.dot n) = (match TG.find? "." with | some e => ledOfEntry e | none => .drop) := by
          simp only [ledOf, unknown_find hn] <;> rfl
        rw [hl, hled]
        exact dot_unknown_F
    | arr xs =>
      have := hf (.arr []) (by simp)
      rw [ledCorr_payload (t := .arr xs) (t' := .arr []) (fun m => by cases m <;> rfl) rfl rfl rfl]
      simp only [Bool.and_eq_true, Bool.or_eq_true, Bool.not_eq_true'] at this
      rcases this with h | h
      · have : okTok TG (.arr xs) = okTok TG (.arr []) := rfl
        rw [← this, ht] at h; cases h
      · exact h.1
    | lit s =>
      have hp : Plain DG (.lit s) := ⟨fun n hs => (by cases hs), rfl, rfl, fun m hm => (by cases hm)⟩
      exact ledCorr_plain hp rfl
    | list xs =>
      have hp : Plain DG (.list xs) := ⟨fun n hs => (by cases hs), rfl, rfl, fun m hm => (by cases hm)⟩
      exact ledCorr_plain hp rfl
    | other u s =>
      have := hf (.other u "") (by cases u <;> simp)
      rw [ledCorr_payload (t := .other u s) (t' := .other u "") (fun m => by cases m <;> rfl) rfl rfl rfl]
      simp only [Bool.and_eq_true, Bool.or_eq_true, Bool.not_eq_true'] at this
      rcases this with h | h
      · have : okTok TG (.other u s) = okTok TG (.other u "") := rfl
        rw [← this, ht] at h; cases h
      · exact h.1
    | comma =>
      have := hf .comma (by simp)
      simp only [Bool.and_eq_true, Bool.or_eq_true, Bool.not_eq_true'] at this
      rcases this with h | h
      · rw [ht] at h; cases h
      · exact h.1
    | semi =>
      have := hf .semi (by simp)
      simp only [Bool.and_eq_true, Bool.or_eq_true, Bool.not_eq_true'] at this
      rcases this with h | h
      · rw [ht] at h; cases h
      · exact h.1
    | hash =>
      have := hf .hash (by simp)
      simp only [Bool.and_eq_true, Bool.or_eq_true, Bool.not_eq_true'] at this
      rcases this with h | h
      · rw [ht] at h; cases h
      · exact h.1
    | null =>
      have := hf .null (by simp)
      simp only [Bool.and_eq_true, Bool.or_eq_true, Bool.not_eq_true'] at this
      rcases this with h | h
      · rw [ht] at h; cases h
      · exact h.1
  nud := by
    intro t ht
    have hk := List.all_eq_true.1 known_ok
    cases t with
    | sym n =>
      by_cases hn : n ∈ names TG DG
      · have := hk n hn
        simp only [Bool.and_eq_true, Bool.or_eq_true, Bool.not_eq_true'] at this
        rcases this.1.1 with h | h
        · rw [ht] at h; cases h
        · exact h.2
      · apply nudCorr_plain
        · intro nm hs
          simp only [Sx.symName?, Option.some.injEq] at hs
          subst hs; exact unknown_member hn
        · simp [nudOf, Sx.symName?, unknown_find hn]
    | lab n =>
      by_cases hn : n ∈ names TG DG
      · have := hk n hn
        simp only [Bool.and_eq_true, Bool.or_eq_true, Bool.not_eq_true'] at this
        rcases this.1.2 with h | h
        · rw [ht] at h; cases h
        · exact h.2
      · apply nudCorr_plain
        · intro nm hs
          simp only [Sx.symName?, Option.some.injEq] at hs
          subst hs; exact unknown_member hn
        · simp [nudOf, Sx.symName?, unknown_find hn]
    | dot n =>
      by_cases hn : n ∈ names TG DG
      · have := hk n hn
        simp only [Bool.and_eq_true, Bool.or_eq_true, Bool.not_eq_true'] at this
        rcases this.2 with h | h
        · rw [ht] at h; cases h
        · exact h.2
      · apply nudCorr_plain
        · intro nm hs
          simp only [Sx.symName?, Option.some.injEq] at hs
          subst hs; exact unknown_member hn
        · simp [nudOf, Sx.symName?, unknown_find hn]
    | arr xs => exact nudCorr_noname rfl
    | lit s => exact nudCorr_noname rfl
    | list xs => exact nudCorr_noname rfl
    | other u s => exact nudCorr_noname rfl
    | comma => exact nudCorr_noname rfl
    | semi => exact nudCorr_noname rfl
    | hash => exact nudCorr_noname rfl
    | null => exact nudCorr_noname rfl

end ZygoVerif.Pratt
