/-
Proofs/VMRefine.lean — the VM model (`Model/VM.lean`) refines the stack-effect machine
(`Model/StackEffect.lean`), instruction by instruction.

`absC s` forgets everything of a VM state but the pc, the kinds of the cells on the data stack
and the depths of the scope and address stacks; `fnB s f` is entry `f` of the function table as
the balance checker sees it. `StepRefines i`: a successful `VM.exec` of instruction `i`,
fetched from the code of the current function, is a `Bal.CStep` of that function between the
abstractions. The effect table `Bal.eff` was written from zygo/vm.go; these lemmas tie it to the
VM model that C02 validates against the real interpreter.
-/
import ZygoVerif.Model.VM
import ZygoVerif.Model.StackEffect
import ZygoVerif.Proofs.GenBalancedLoop
import ZygoVerif.Proofs.TailVM
set_option linter.unusedSimpArgs false
set_option linter.unusedVariables false
namespace ZygoVerif.Refine
open ZygoVerif.Core ZygoVerif.VM ZygoVerif.Bal ZygoVerif.TailVM


syntax "vmsimp_at " ident (" [" Lean.Parser.Tactic.simpLemma,* "]")? : tactic
macro_rules
  | `(tactic| vmsimp_at $h:ident) => `(tactic| simp [incPc, popScope, jumpTo, pushData, popData, err, hostPanic, ExceptT.run, bind, ExceptT.bind, ExceptT.mk, ExceptT.bindCont, StateT.bind, modify, modifyGet, MonadStateOf.modifyGet, StateT.modifyGet, ExceptT.lift, liftM, monadLift, MonadLift.monadLift, get, getThe, MonadStateOf.get, StateT.get, set, StateT.set, pure, ExceptT.pure, StateT.pure, Functor.map, StateT.map, throw, throwThe, MonadExceptOf.throw] at $h:ident)
  | `(tactic| vmsimp_at $h:ident [$ts,*]) => `(tactic| simp [incPc, popScope, jumpTo, pushData, popData, err, hostPanic, ExceptT.run, bind, ExceptT.bind, ExceptT.mk, ExceptT.bindCont, StateT.bind, modify, modifyGet, MonadStateOf.modifyGet, StateT.modifyGet, ExceptT.lift, liftM, monadLift, MonadLift.monadLift, get, getThe, MonadStateOf.get, StateT.get, set, StateT.set, pure, ExceptT.pure, StateT.pure, Functor.map, StateT.map, throw, throwThe, MonadExceptOf.throw, $ts,*] at $h:ident)

/-- a data-stack cell as the balance checker sees it: a stack-mark or an ordinary value -/
def cellOf : Option Val → Cell
  | some (.mark l) => .mark l
  | _ => .val

/-- the state of the stack-effect machine a VM state stands for -/
def absC (s : St) : CState := ⟨s.pc.toNat, s.data.map cellOf, s.linear.length, s.addr.length⟩

/-- entry `f` of the function table as the balance checker sees it -/
def fnB (s : St) (f : Nat) : Fn :=
  { kind := .fn, nformals := (fnOf s f).params.length, varargs := (fnOf s f).varargs, nfixed := (fnOf s f).nargs,
    code := B s.loops (fnOf s f).code }

/-- a value that is not a stack-mark -/
def plain : Val → Bool
  | .mark _ => false
  | _ => true

theorem cellOf_plain {v : Val} (h : plain v = true) : cellOf (some v) = .val := by
  cases v <;> first | rfl | cases h

/-- **The refinement, for one instruction**: fetched from the code of the current function at a
non-negative pc and executed successfully, it is a step of the stack-effect machine. -/
def StepRefines (i : Instr) : Prop :=
  ∀ (n : Nat) (s s' : St), 0 ≤ s.pc → (fnOf s s.curfunc).code[s.pc.toNat]? = some i →
    (exec (n + 1) i).run s = (.ok (), s') → CStep (fnB s s.curfunc) (absC s) (absC s')

theorem fetchB {s : St} {i : Instr} (h : (fnOf s s.curfunc).code[s.pc.toNat]? = some i) :
    (fnB s s.curfunc).code[(absC s).pc]? = some (toB s.loops i) := by
  show (B s.loops (fnOf s s.curfunc).code)[s.pc.toNat]? = _
  simp only [B, List.getElem?_map, h]
  rfl

theorem pc_succ {s : St} (h : 0 ≤ s.pc) : (s.pc + 1).toNat = s.pc.toNat + 1 := by omega

/-! ## Instructions without operands -/

theorem refines_label : StepRefines .label := by
  intro n s s' hpc hc hex
  simp only [exec] at hex
  vmsimp_at hex
  cases hex
  have := CStep.simple (f := fnB s s.curfunc) (absC s) _ 0 0 [] (absC s).data (fetchB hc) rfl rfl rfl
  simpa [absC, pc_succ hpc] using this

theorem refines_loopStart (l : Nat) : StepRefines (.loopStart l) := by
  intro n s s' hpc hc hex
  simp only [exec] at hex
  vmsimp_at hex
  cases hex
  have := CStep.simple (f := fnB s s.curfunc) (absC s) _ 0 0 [] (absC s).data (fetchB hc) rfl rfl rfl
  simpa [absC, pc_succ hpc] using this

theorem refines_addScope : StepRefines .addScope := by
  intro n s s' hpc hc hex
  simp only [exec] at hex
  vmsimp_at hex
  cases hex
  have := CStep.scopeUp (f := fnB s s.curfunc) (absC s) _ (fetchB hc) rfl
  simpa [absC, pc_succ hpc] using this

theorem refines_addFuncScope (t : Nat) : StepRefines (.addFuncScope t) := by
  intro n s s' hpc hc hex
  simp only [exec] at hex
  vmsimp_at hex
  cases hex
  have := CStep.scopeUp (f := fnB s s.curfunc) (absC s) _ (fetchB hc) rfl
  simpa [absC, pc_succ hpc] using this

theorem refines_removeScope : StepRefines .removeScope := by
  intro n s s' hpc hc hex
  simp only [exec] at hex
  cases hl : s.linear with
  | nil => vmsimp_at hex [hl]; cases hex
  | cons top rest =>
    vmsimp_at hex [hl]
    cases hex
    have := CStep.scopeDown (f := fnB s s.curfunc) (absC s) _ rest.length (fetchB hc) rfl (by simp [absC, hl])
    simpa [absC, pc_succ hpc] using this

/-! ## Pushes -/

theorem refines_push (v : Val) (hv : plain v = true) : StepRefines (.push v) := by
  intro n s s' hpc hc hex
  simp only [exec] at hex
  vmsimp_at hex
  cases hex
  have := CStep.simple (f := fnB s s.curfunc) (absC s) _ 0 1 [] (absC s).data (fetchB hc) rfl rfl rfl
  simpa [absC, pc_succ hpc, cellOf_plain hv] using this

theorem refines_createClosure (t : Nat) : StepRefines (.createClosure t) := by
  intro n s s' hpc hc hex
  simp only [exec] at hex
  vmsimp_at hex
  cases hex
  have := CStep.simple (f := fnB s s.curfunc) (absC s) _ 0 1 [] (absC s).data (fetchB hc) rfl rfl rfl
  simpa [absC, pc_succ hpc, cellOf] using this

theorem refines_pushLazy (e : Expr) : StepRefines (.pushLazy e) := by
  intro n s s' hpc hc hex
  simp only [exec] at hex
  vmsimp_at hex
  cases hex
  have := CStep.simple (f := fnB s s.curfunc) (absC s) _ 0 1 [] (absC s).data (fetchB hc) rfl rfl rfl
  simpa [absC, pc_succ hpc, cellOf] using this

theorem refines_pushMark (l : Nat) : StepRefines (.pushMark l) := by
  intro n s s' hpc hc hex
  simp only [exec] at hex
  vmsimp_at hex
  cases hex
  have := CStep.pushMark (f := fnB s s.curfunc) (absC s) _ l (fetchB hc) rfl
  simpa [absC, pc_succ hpc, cellOf] using this

/-! ## Operands -/

theorem refines_dup : StepRefines .dup := by
  intro n s s' hpc hc hex
  simp only [exec] at hex
  cases hd : s.data with
  | nil => vmsimp_at hex [hd]; cases hex
  | cons v rest =>
    cases v with
    | none => vmsimp_at hex [hd]; cases hex
    | some v =>
      vmsimp_at hex [hd]
      cases hex
      have := CStep.dup (f := fnB s s.curfunc) (absC s) _ (cellOf (some v)) (rest.map cellOf) (fetchB hc) rfl (by simp [absC, hd])
      simpa [absC, pc_succ hpc, hd] using this

theorem refines_pop : StepRefines .pop := by
  intro n s s' hpc hc hex
  simp only [exec] at hex
  cases hd : s.data with
  | nil =>
    vmsimp_at hex [hd]
    cases hex
    have := CStep.popEmpty (f := fnB s s.curfunc) (absC s) _ (fetchB hc) rfl (by simp [absC, hd])
    simpa [absC, pc_succ hpc, hd] using this
  | cons v rest =>
    cases v with
    | none => vmsimp_at hex [hd]; cases hex
    | some v =>
      vmsimp_at hex [hd]
      cases hex
      have := CStep.popCell (f := fnB s s.curfunc) (absC s) _ (cellOf (some v)) (rest.map cellOf) (fetchB hc) rfl (by simp [absC, hd])
      simpa [absC, pc_succ hpc, hd] using this

/-! ## Control -/

theorem curSize_le (s : St) : curSize s ≤ ((fnB s s.curfunc).code.length : Int) := by
  show curSize s ≤ ((B s.loops (fnOf s s.curfunc).code).length : Int)
  simp only [curSize, B_length]
  split <;> omega

theorem refines_jump (off : Int) : StepRefines (.jump off) := by
  intro n s s' hpc hc hex
  simp only [exec] at hex
  have hsz := curSize_le s
  by_cases hb : s.pc + off < 0 ∨ s.pc + off > curSize s
  · vmsimp_at hex [hb]; cases hex
  · vmsimp_at hex [hb]
    cases hex
    have ht : target (absC s).pc off (fnB s s.curfunc).code.length = some (s.pc + off).toNat := by
      apply ZygoVerif.Bal.target_eq
      · show ((s.pc.toNat : Nat) : Int) + off = _
        omega
      · omega
    have := CStep.jump (f := fnB s s.curfunc) (absC s) _ off _ (fetchB hc) rfl ht
    simpa [absC] using this

theorem refines_goto (loc : Nat) : StepRefines (.goto loc) := by
  intro n s s' hpc hc hex
  simp only [exec] at hex
  have hsz := curSize_le s
  by_cases hb : (loc : Int) < 0 ∨ (loc : Int) > curSize s
  · vmsimp_at hex [hb]; cases hex
  · vmsimp_at hex [hb]
    cases hex
    have ht : absTarget (loc : Int) (fnB s s.curfunc).code.length = some loc := by
      unfold absTarget
      rw [if_pos (by omega)]
      simp
    have := CStep.goto (f := fnB s s.curfunc) (absC s) _ (loc : Int) loc (fetchB hc) rfl ht
    simpa [absC] using this

theorem refines_branch (dir : Bool) (off : Int) : StepRefines (.branch dir off) := by
  intro n s s' hpc hc hex
  simp only [exec] at hex
  have hsz := curSize_le s
  cases hd : s.data with
  | nil => vmsimp_at hex [hd]; cases hex
  | cons v rest =>
    cases v with
    | none => vmsimp_at hex [hd]; cases hex
    | some v =>
      by_cases hdir : dir = truthy v
      · -- taken
        by_cases hb : s.pc + off < 0 ∨ s.pc + off > curSize s
        · vmsimp_at hex [hd, hdir, hb, curSize, fnOf]
          simp [curSize, fnOf] at hb
          rcases hb with hb | hb <;> (simp [hb, StateT.pure] at hex; exact absurd hex (by intro h; cases h))
        · have hb' : ¬ (s.pc + off < 0 ∨ curSize { s with data := rest } < s.pc + off) := by
            simpa [curSize, fnOf] using hb
          vmsimp_at hex [hd, hdir, hb']
          cases hex
          have ht : target (absC s).pc off (fnB s s.curfunc).code.length = some (s.pc + off).toNat := by
            apply ZygoVerif.Bal.target_eq
            · show ((s.pc.toNat : Nat) : Int) + off = _
              omega
            · omega
          have := CStep.branchTaken (f := fnB s s.curfunc) (absC s) _ off (cellOf (some v)) (rest.map cellOf) _ (fetchB hc) rfl
            (by simp [absC, hd]) ht
          simpa [absC] using this
      · vmsimp_at hex [hd, hdir]
        cases hex
        have := CStep.branchFall (f := fnB s s.curfunc) (absC s) _ off (cellOf (some v)) (rest.map cellOf) (fetchB hc) rfl
          (by simp [absC, hd])
        simpa [absC, pc_succ hpc] using this

end ZygoVerif.Refine
