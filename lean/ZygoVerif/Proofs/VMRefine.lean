/-
Proofs/VMRefine.lean — the VM model (`Model/VM.lean`) refines the stack-effect machine
(`Model/StackEffect.lean`), instruction by instruction.

`absC s` forgets everything of a VM state but the pc, the kinds of the cells on the data stack
and the depths of the scope and address stacks; `fnB s f` is entry `f` of the function table as
the balance checker sees it. `StepRefines i`: a successful `VM.exec` of instruction `i`,
fetched from the code of the current function, is a `Bal.CStep` of that function between the
abstractions. The effect table `Bal.eff` was written from zygo/vm.go; these lemmas tie it to the
VM model that C02 validates against the real interpreter.
-/
import ZygoVerif.Model.VM
import ZygoVerif.Model.StackEffect
import ZygoVerif.Proofs.GenBalancedLoop
import ZygoVerif.Proofs.TailVM
set_option linter.unusedSimpArgs false
set_option linter.unusedVariables false
namespace ZygoVerif.Refine
open ZygoVerif.Core ZygoVerif.VM ZygoVerif.Bal ZygoVerif.TailVM


syntax "vmsimp_at " ident (" [" Lean.Parser.Tactic.simpLemma,* "]")? : tactic
macro_rules
  | `(tactic| vmsimp_at $h:ident) => `(tactic| simp [incPc, popScope, jumpTo, pushData, popData, err, hostPanic, ExceptT.run, bind, ExceptT.bind, ExceptT.mk, ExceptT.bindCont, StateT.bind, modify, modifyGet, MonadStateOf.modifyGet, StateT.modifyGet, ExceptT.lift, liftM, monadLift, MonadLift.monadLift, get, getThe, MonadStateOf.get, StateT.get, set, StateT.set, pure, ExceptT.pure, StateT.pure, Functor.map, StateT.map, throw, throwThe, MonadExceptOf.throw] at $h:ident)
  | `(tactic| vmsimp_at $h:ident [$ts,*]) => `(tactic| simp [incPc, popScope, jumpTo, pushData, popData, err, hostPanic, ExceptT.run, bind, ExceptT.bind, ExceptT.mk, ExceptT.bindCont, StateT.bind, modify, modifyGet, MonadStateOf.modifyGet, StateT.modifyGet, ExceptT.lift, liftM, monadLift, MonadLift.monadLift, get, getThe, MonadStateOf.get, StateT.get, set, StateT.set, pure, ExceptT.pure, StateT.pure, Functor.map, StateT.map, throw, throwThe, MonadExceptOf.throw, $ts,*] at $h:ident)

/-- a data-stack cell as the balance checker sees it: a stack-mark or an ordinary value -/
def cellOf : Option Val → Cell
  | some (.mark l) => .mark l
  | _ => .val

/-- the state of the stack-effect machine a VM state stands for -/
def absC (s : St) : CState := ⟨s.pc.toNat, s.data.map cellOf, s.linear.length, s.addr.length⟩

/-- entry `f` of the function table as the balance checker sees it -/
def fnB (s : St) (f : Nat) : Fn :=
  { kind := .fn, nformals := (fnOf s f).params.length, varargs := (fnOf s f).varargs, nfixed := (fnOf s f).nargs,
    code := B s.loops (fnOf s f).code }

/-- a value that is not a stack-mark -/
def plain : Val → Bool
  | .mark _ => false
  | _ => true

theorem cellOf_plain {v : Val} (h : plain v = true) : cellOf (some v) = .val := by
  cases v <;> first | rfl | cases h

/-- **The refinement, for one instruction**: fetched from the code of the current function at a
non-negative pc and executed successfully, it is a step of the stack-effect machine. -/
def StepRefines (i : Instr) : Prop :=
  ∀ (n : Nat) (s s' : St), 0 ≤ s.pc → (fnOf s s.curfunc).code[s.pc.toNat]? = some i →
    (exec (n + 1) i).run s = (.ok (), s') → CStep (fnB s s.curfunc) (absC s) (absC s')

theorem fetchB {s : St} {i : Instr} (h : (fnOf s s.curfunc).code[s.pc.toNat]? = some i) :
    (fnB s s.curfunc).code[(absC s).pc]? = some (toB s.loops i) := by
  show (B s.loops (fnOf s s.curfunc).code)[s.pc.toNat]? = _
  simp only [B, List.getElem?_map, h]
  rfl

theorem pc_succ {s : St} (h : 0 ≤ s.pc) : (s.pc + 1).toNat = s.pc.toNat + 1 := by omega

/-! ## Instructions without operands -/

theorem refines_label : StepRefines .label := by
  intro n s s' hpc hc hex
  simp only [exec] at hex
  vmsimp_at hex
  cases hex
  have := CStep.simple (f := fnB s s.curfunc) (absC s) _ 0 0 [] (absC s).data (fetchB hc) rfl rfl rfl
  simpa [absC, pc_succ hpc] using this

theorem refines_loopStart (l : Nat) : StepRefines (.loopStart l) := by
  intro n s s' hpc hc hex
  simp only [exec] at hex
  vmsimp_at hex
  cases hex
  have := CStep.simple (f := fnB s s.curfunc) (absC s) _ 0 0 [] (absC s).data (fetchB hc) rfl rfl rfl
  simpa [absC, pc_succ hpc] using this

theorem refines_addScope : StepRefines .addScope := by
  intro n s s' hpc hc hex
  simp only [exec] at hex
  vmsimp_at hex
  cases hex
  have := CStep.scopeUp (f := fnB s s.curfunc) (absC s) _ (fetchB hc) rfl
  simpa [absC, pc_succ hpc] using this

theorem refines_addFuncScope (t : Nat) : StepRefines (.addFuncScope t) := by
  intro n s s' hpc hc hex
  simp only [exec] at hex
  vmsimp_at hex
  cases hex
  have := CStep.scopeUp (f := fnB s s.curfunc) (absC s) _ (fetchB hc) rfl
  simpa [absC, pc_succ hpc] using this

theorem refines_removeScope : StepRefines .removeScope := by
  intro n s s' hpc hc hex
  simp only [exec] at hex
  cases hl : s.linear with
  | nil => vmsimp_at hex [hl]; cases hex
  | cons top rest =>
    vmsimp_at hex [hl]
    cases hex
    have := CStep.scopeDown (f := fnB s s.curfunc) (absC s) _ rest.length (fetchB hc) rfl (by simp [absC, hl])
    simpa [absC, pc_succ hpc] using this

/-! ## Pushes -/

theorem refines_push (v : Val) (hv : plain v = true) : StepRefines (.push v) := by
  intro n s s' hpc hc hex
  simp only [exec] at hex
  vmsimp_at hex
  cases hex
  have := CStep.simple (f := fnB s s.curfunc) (absC s) _ 0 1 [] (absC s).data (fetchB hc) rfl rfl rfl
  simpa [absC, pc_succ hpc, cellOf_plain hv] using this

theorem refines_createClosure (t : Nat) : StepRefines (.createClosure t) := by
  intro n s s' hpc hc hex
  simp only [exec] at hex
  vmsimp_at hex
  cases hex
  have := CStep.simple (f := fnB s s.curfunc) (absC s) _ 0 1 [] (absC s).data (fetchB hc) rfl rfl rfl
  simpa [absC, pc_succ hpc, cellOf] using this

theorem refines_pushLazy (e : Expr) : StepRefines (.pushLazy e) := by
  intro n s s' hpc hc hex
  simp only [exec] at hex
  vmsimp_at hex
  cases hex
  have := CStep.simple (f := fnB s s.curfunc) (absC s) _ 0 1 [] (absC s).data (fetchB hc) rfl rfl rfl
  simpa [absC, pc_succ hpc, cellOf] using this

theorem refines_pushMark (l : Nat) : StepRefines (.pushMark l) := by
  intro n s s' hpc hc hex
  simp only [exec] at hex
  vmsimp_at hex
  cases hex
  have := CStep.pushMark (f := fnB s s.curfunc) (absC s) _ l (fetchB hc) rfl
  simpa [absC, pc_succ hpc, cellOf] using this

/-! ## Operands -/

theorem refines_dup : StepRefines .dup := by
  intro n s s' hpc hc hex
  simp only [exec] at hex
  cases hd : s.data with
  | nil => vmsimp_at hex [hd]; cases hex
  | cons v rest =>
    cases v with
    | none => vmsimp_at hex [hd]; cases hex
    | some v =>
      vmsimp_at hex [hd]
      cases hex
      have := CStep.dup (f := fnB s s.curfunc) (absC s) _ (cellOf (some v)) (rest.map cellOf) (fetchB hc) rfl (by simp [absC, hd])
      simpa [absC, pc_succ hpc, hd] using this

theorem refines_pop : StepRefines .pop := by
  intro n s s' hpc hc hex
  simp only [exec] at hex
  cases hd : s.data with
  | nil =>
    vmsimp_at hex [hd]
    cases hex
    have := CStep.popEmpty (f := fnB s s.curfunc) (absC s) _ (fetchB hc) rfl (by simp [absC, hd])
    simpa [absC, pc_succ hpc, hd] using this
  | cons v rest =>
    cases v with
    | none => vmsimp_at hex [hd]; cases hex
    | some v =>
      vmsimp_at hex [hd]
      cases hex
      have := CStep.popCell (f := fnB s s.curfunc) (absC s) _ (cellOf (some v)) (rest.map cellOf) (fetchB hc) rfl (by simp [absC, hd])
      simpa [absC, pc_succ hpc, hd] using this

/-! ## Control -/

theorem curSize_le (s : St) : curSize s ≤ ((fnB s s.curfunc).code.length : Int) := by
  show curSize s ≤ ((B s.loops (fnOf s s.curfunc).code).length : Int)
  simp only [curSize, B_length]
  split <;> omega

theorem refines_jump (off : Int) : StepRefines (.jump off) := by
  intro n s s' hpc hc hex
  simp only [exec] at hex
  have hsz := curSize_le s
  by_cases hb : s.pc + off < 0 ∨ s.pc + off > curSize s
  · vmsimp_at hex [hb]; cases hex
  · vmsimp_at hex [hb]
    cases hex
    have ht : target (absC s).pc off (fnB s s.curfunc).code.length = some (s.pc + off).toNat := by
      apply ZygoVerif.Bal.target_eq
      · show ((s.pc.toNat : Nat) : Int) + off = _
        omega
      · omega
    have := CStep.jump (f := fnB s s.curfunc) (absC s) _ off _ (fetchB hc) rfl ht
    simpa [absC] using this

theorem refines_goto (loc : Nat) : StepRefines (.goto loc) := by
  intro n s s' hpc hc hex
  simp only [exec] at hex
  have hsz := curSize_le s
  by_cases hb : (loc : Int) < 0 ∨ (loc : Int) > curSize s
  · vmsimp_at hex [hb]; cases hex
  · vmsimp_at hex [hb]
    cases hex
    have ht : absTarget (loc : Int) (fnB s s.curfunc).code.length = some loc := by
      unfold absTarget
      rw [if_pos (by omega)]
      simp
    have := CStep.goto (f := fnB s s.curfunc) (absC s) _ (loc : Int) loc (fetchB hc) rfl ht
    simpa [absC] using this

theorem refines_branch (dir : Bool) (off : Int) : StepRefines (.branch dir off) := by
  intro n s s' hpc hc hex
  simp only [exec] at hex
  have hsz := curSize_le s
  cases hd : s.data with
  | nil => vmsimp_at hex [hd]; cases hex
  | cons v rest =>
    cases v with
    | none => vmsimp_at hex [hd]; cases hex
    | some v =>
      by_cases hdir : dir = truthy v
      · -- taken
        by_cases hb : s.pc + off < 0 ∨ s.pc + off > curSize s
        · vmsimp_at hex [hd, hdir, hb, curSize, fnOf]
          simp [curSize, fnOf] at hb
          rcases hb with hb | hb <;> (simp [hb, StateT.pure] at hex; exact absurd hex (by intro h; cases h))
        · have hb' : ¬ (s.pc + off < 0 ∨ curSize { s with data := rest } < s.pc + off) := by
            simpa [curSize, fnOf] using hb
          vmsimp_at hex [hd, hdir, hb']
          cases hex
          have ht : target (absC s).pc off (fnB s s.curfunc).code.length = some (s.pc + off).toNat := by
            apply ZygoVerif.Bal.target_eq
            · show ((s.pc.toNat : Nat) : Int) + off = _
              omega
            · omega
          have := CStep.branchTaken (f := fnB s s.curfunc) (absC s) _ off (cellOf (some v)) (rest.map cellOf) _ (fetchB hc) rfl
            (by simp [absC, hd]) ht
          simpa [absC] using this
      · vmsimp_at hex [hd, hdir]
        cases hex
        have := CStep.branchFall (f := fnB s s.curfunc) (absC s) _ off (cellOf (some v)) (rest.map cellOf) (fetchB hc) rfl
          (by simp [absC, hd])
        simpa [absC, pc_succ hpc] using this

/-! ## The tail-call instructions -/

/-- `TailGuardInstr`. The VM adds `skip` to the pc without a bounds check; the stack-effect machine
(like the checker) only has the step when the target lies inside the function — which it does
in generated code (`selfTailCode_skip` of Props/C09.lean). -/
theorem refines_tailGuard (x : String) (skip : Nat) (n : Nat) (s s' : St) (hpc : 0 ≤ s.pc)
    (hc : (fnOf s s.curfunc).code[s.pc.toNat]? = some (.tailGuard x skip))
    (hin : s.pc.toNat + skip ≤ (fnOf s s.curfunc).code.length)
    (hex : (exec (n + 1) (.tailGuard x skip)).run s = (.ok (), s')) :
    CStep (fnB s s.curfunc) (absC s) (absC s') := by
  simp only [exec] at hex
  have ht : target (absC s).pc (skip : Int) (fnB s s.curfunc).code.length = some (s.pc.toNat + skip) := by
    apply target_eq
    · show ((s.pc.toNat : Nat) : Int) + skip = _
      push_cast; rfl
    · show s.pc.toNat + skip ≤ (B s.loops (fnOf s s.curfunc).code).length
      rw [B_length]; exact hin
  have taken : CStep (fnB s s.curfunc) (absC s) (absC { s with pc := s.pc + skip }) := by
    have := CStep.guardTaken (f := fnB s s.curfunc) (absC s) _ (skip : Int) _ (fetchB hc) rfl ht
    have he : (s.pc + (skip : Int)).toNat = s.pc.toNat + skip := by omega
    simpa [absC, he] using this
  have fall : CStep (fnB s s.curfunc) (absC s) (absC { s with pc := s.pc + 1 }) := by
    have := CStep.guardFall (f := fnB s s.curfunc) (absC s) _ (skip : Int) (fetchB hc) rfl
    simpa [absC, pc_succ hpc] using this
  cases hl : lexLookup s x with
  | none => vmsimp_at hex [hl]; cases hex; exact taken
  | some r =>
    obtain ⟨id, v⟩ := r
    cases v <;> try (vmsimp_at hex [hl]; cases hex; exact taken)
    rename_i f
    by_cases hf : f = s.curfunc
    · vmsimp_at hex [hl, hf]; cases hex; exact fall
    · vmsimp_at hex [hl, hf]; cases hex; exact taken

theorem plain_mkList : ∀ xs : List Val, plain (mkList xs) = true
  | [] => rfl
  | _ :: _ => rfl

/-- `PrepareCallInstr` of compiled code (fix C09-02: it packs the variadic tail of the running
function) -/
theorem refines_prepareCall (x : String) (nargs : Nat) (n : Nat) (s s' : St) (hpc : 0 ≤ s.pc)
    (hc : (fnOf s s.curfunc).code[s.pc.toNat]? = some (.prepareCall x nargs))
    (hu : (fnOf s s.curfunc).user = false)
    (hex : (exec (n + 1) (.prepareCall x nargs)).run s = (.ok (), s')) :
    CStep (fnB s s.curfunc) (absC s) (absC s') := by
  simp only [exec] at hex
  cases hv : (fnOf s s.curfunc).varargs with
  | false =>
    vmsimp_at hex [hu, hv]
    cases hex
    have := CStep.prepareFix (f := fnB s s.curfunc) (absC s) _ nargs (fetchB hc) rfl hv
    simpa [absC, pc_succ hpc] using this
  | true =>
    by_cases h1 : nargs < (fnOf s s.curfunc).nargs
    · vmsimp_at hex [hu, hv, wrangleOptargs, h1]; cases hex
    · by_cases h2 : (fnOf s s.curfunc).nargs < nargs
      · by_cases h3 : s.data.length < nargs - (fnOf s s.curfunc).nargs
        · vmsimp_at hex [hu, hv, wrangleOptargs, popN, h1, h2, h3]; cases hex
        · cases hm : (s.data.take (nargs - (fnOf s s.curfunc).nargs)).mapM id with
          | none => vmsimp_at hex [hu, hv, wrangleOptargs, popN, h1, h2, h3, hm]; cases hex
          | some vs =>
            vmsimp_at hex [hu, hv, wrangleOptargs, popN, h1, h2, h3, hm]
            cases hex
            have := CStep.prepareVar (f := fnB s s.curfunc) (absC s) _ nargs
              ((s.data.take (nargs - (fnOf s s.curfunc).nargs)).map cellOf)
              ((s.data.drop (nargs - (fnOf s s.curfunc).nargs)).map cellOf) (fetchB hc) rfl hv
              (by show (fnOf s s.curfunc).nargs ≤ nargs; omega)
              (by simp only [absC, ← List.map_append, List.take_append_drop])
              (by simp only [List.length_map, List.length_take]; show min _ _ = nargs - (fnOf s s.curfunc).nargs; omega)
            simpa [absC, pc_succ hpc, cellOf_plain (plain_mkList _)] using this
      · have heq : nargs = (fnOf s s.curfunc).nargs := by omega
        vmsimp_at hex [hu, hv, wrangleOptargs, h1, h2]
        cases hex
        have := CStep.prepareVar (f := fnB s s.curfunc) (absC s) _ nargs [] (s.data.map cellOf) (fetchB hc) rfl hv
          (by show (fnOf s s.curfunc).nargs ≤ nargs; omega) (by simp [absC])
          (by show 0 = nargs - (fnOf s s.curfunc).nargs; omega)
        simpa [absC, pc_succ hpc, cellOf] using this

/-! ## Environment -/

/-- `EnvToStackInstr`: the value pushed is the value bound; it is an ordinary value as long as
no stack-mark was ever bound to a name (verified code never pops a mark as an operand) -/
theorem refines_envToStack (x : String) (n : Nat) (s s' : St) (hpc : 0 ≤ s.pc)
    (hc : (fnOf s s.curfunc).code[s.pc.toNat]? = some (.envToStack x))
    (hplain : ∀ id v, lexLookup s x = some (id, v) → plain v = true)
    (hex : (exec (n + 1) (.envToStack x)).run s = (.ok (), s')) :
    CStep (fnB s s.curfunc) (absC s) (absC s') := by
  simp only [exec] at hex
  cases hl : lexLookup s x with
  | none => vmsimp_at hex [hl]; cases hex
  | some r =>
    obtain ⟨id, v⟩ := r
    vmsimp_at hex [hl]
    cases hex
    have := CStep.simple (f := fnB s s.curfunc) (absC s) _ 0 1 [] (absC s).data (fetchB hc) rfl rfl rfl
    simpa [absC, pc_succ hpc, cellOf_plain (hplain id v hl)] using this

/-- what `bindTop` leaves of the state when it succeeds: everything the abstraction sees -/
theorem bindTop_abs (x : String) (v : Val) (s s' : St) (h : (bindTop x v).run s = (.ok (), s')) :
    s'.pc = s.pc ∧ s'.data = s.data ∧ s'.linear = s.linear ∧ s'.addr = s.addr := by
  cases hl : s.linear with
  | nil => vmsimp_at h [bindTop, hl]; cases h
  | cons top rest =>
    cases top with
    | none => vmsimp_at h [bindTop, hl]; cases h
    | some top =>
      cases hx : (scopeOf s top).vars.lookup x with
      | none =>
        vmsimp_at h [bindTop, setInScope, hl, hx]
        cases h
        exact ⟨rfl, rfl, rfl, rfl⟩
      | some cur =>
        by_cases hr : rebindOk s.heap cur v = true
        · vmsimp_at h [bindTop, setInScope, hl, hx, hr]
          cases h
          exact ⟨rfl, rfl, rfl, rfl⟩
        · vmsimp_at h [bindTop, setInScope, hl, hx, hr]
          cases h

theorem refines_popStackPutEnv (x : String) : StepRefines (.popStackPutEnv x) := by
  intro n s s' hpc hc hex
  simp only [exec] at hex
  cases hd : s.data with
  | nil => vmsimp_at hex [hd]; cases hex
  | cons v rest =>
    cases v with
    | none => vmsimp_at hex [hd]; cases hex
    | some v =>
      have hb : (bindTop x v).run { s with data := rest, pc := s.pc + 1 } = (.ok (), s') := by
        vmsimp_at hex [hd]
        vmsimp
        exact hex
      obtain ⟨h1, h2, h3, h4⟩ := bindTop_abs x v _ s' hb
      have := CStep.simple (f := fnB s s.curfunc) (absC s) _ 1 0 [cellOf (some v)] (rest.map cellOf) (fetchB hc) rfl
        (by simp [absC, hd]) rfl
      simpa [absC, pc_succ hpc, h1, h2, h3, h4] using this

/-! ## Stack-marks -/

/-- `popToMark` succeeds exactly by popping the cells above the first stack-mark of the loop -/
theorem popToMark_ok (l : Nat) (keep : Bool) : ∀ (fuel : Nat) (s s' : St),
    (popToMark l keep fuel).run s = (.ok (), s') →
    ∃ above below, s.data = above ++ some (.mark l) :: below ∧ (∀ c ∈ above.map cellOf, c ≠ Cell.mark l) ∧
      s' = { s with data := if keep then some (.mark l) :: below else below }
  | 0, s, s', h => by
    simp only [popToMark] at h
    vmsimp_at h
    cases h
  | fuel + 1, s, s', h => by
    simp only [popToMark] at h
    cases hd : s.data with
    | nil => vmsimp_at h [hd]; cases h
    | cons v rest =>
      cases v with
      | none => vmsimp_at h [hd]; cases h
      | some v =>
        have recStep : ∀ (hv : ∀ l', v ≠ .mark l'),
            (popToMark l keep fuel).run { s with data := rest } = (.ok (), s') →
            ∃ above below, some v :: rest = above ++ some (.mark l) :: below ∧
              (∀ c ∈ above.map cellOf, c ≠ Cell.mark l) ∧
              s' = { s with data := if keep then some (.mark l) :: below else below } := by
          intro hv hr
          obtain ⟨above, below, h1, h2, h3⟩ := popToMark_ok l keep fuel _ s' hr
          refine ⟨some v :: above, below, by simp only at h1; rw [h1]; rfl, ?_, by simpa using h3⟩
          intro c hcm
          simp only [List.map_cons, List.mem_cons] at hcm
          rcases hcm with rfl | hcm
          · cases v <;> first | exact absurd rfl (hv _) | (intro hh; cases hh)
          · exact h2 c hcm
        cases v with
        | mark l' =>
          by_cases hl : l' = l
          · subst hl
            cases keep with
            | true =>
              vmsimp_at h [hd]
              cases h
              exact ⟨[], rest, rfl, by simp, by simp⟩
            | false =>
              vmsimp_at h [hd]
              cases h
              exact ⟨[], rest, rfl, by simp, by simp⟩
          · vmsimp_at h [hd, hl]
            obtain ⟨above, below, h1, h2, h3⟩ := popToMark_ok l keep fuel _ s' (by vmsimp; exact h)
            refine ⟨some (.mark l') :: above, below, by simp only at h1; rw [h1]; rfl, ?_, by simpa using h3⟩
            intro c hcm
            simp only [List.map_cons, List.mem_cons] at hcm
            rcases hcm with rfl | hcm
            · intro hh
              simp only [cellOf, Cell.mark.injEq] at hh
              exact hl hh
            · exact h2 c hcm
        | nil => vmsimp_at h [hd]; exact recStep (fun _ hh => by cases hh) (by vmsimp; exact h)
        | bool b => vmsimp_at h [hd]; exact recStep (fun _ hh => by cases hh) (by vmsimp; exact h)
        | int i => vmsimp_at h [hd]; exact recStep (fun _ hh => by cases hh) (by vmsimp; exact h)
        | str i => vmsimp_at h [hd]; exact recStep (fun _ hh => by cases hh) (by vmsimp; exact h)
        | pair a b => vmsimp_at h [hd]; exact recStep (fun _ hh => by cases hh) (by vmsimp; exact h)
        | arr r => vmsimp_at h [hd]; exact recStep (fun _ hh => by cases hh) (by vmsimp; exact h)
        | fn r => vmsimp_at h [hd]; exact recStep (fun _ hh => by cases hh) (by vmsimp; exact h)
        | builtin r => vmsimp_at h [hd]; exact recStep (fun _ hh => by cases hh) (by vmsimp; exact h)
        | lazy r => vmsimp_at h [hd]; exact recStep (fun _ hh => by cases hh) (by vmsimp; exact h)
        | sym r => vmsimp_at h [hd]; exact recStep (fun _ hh => by cases hh) (by vmsimp; exact h)

theorem refines_popUntilMark (l : Nat) : StepRefines (.popUntilMark l) := by
  intro n s s' hpc hc hex
  simp only [exec] at hex
  have hr : (popToMark l true (s.data.length + 1)).run { s with pc := s.pc + 1 } = (.ok (), s') := by
    vmsimp_at hex
    vmsimp
    exact hex
  obtain ⟨above, below, h1, h2, h3⟩ := popToMark_ok l true _ _ s' hr
  simp only at h1
  have := CStep.popUntil (f := fnB s s.curfunc) (absC s) _ l (above.map cellOf) (below.map cellOf) (fetchB hc) rfl
    (by simp [absC, h1, cellOf]) (fun hm => h2 _ hm rfl)
  rw [h3]
  simpa [absC, pc_succ hpc, cellOf] using this

theorem run_get_bind {α : Type} (f : St → M α) (s : St) : (do let t ← get; f t : M α).run s = (f s).run s := rfl

theorem run_then_incPc (m : M Unit) (s : St) :
    (do m; incPc : M Unit).run s =
      match m.run s with
      | (.ok _, s1) => (.ok (), { s1 with pc := s1.pc + 1 })
      | (.error e, s1) => (.error e, s1) := by
  show ExceptT.run (m >>= fun _ => incPc) s = _
  cases hm : m.run s with
  | mk r s1 =>
    have hm' : ExceptT.run m s = (r, s1) := hm
    cases r with
    | error e =>
      vmsimp
      rw [show m s = (Except.error e, s1) from hm]
      rfl
    | ok u =>
      vmsimp
      rw [show m s = (Except.ok u, s1) from hm]
      rfl

theorem refines_clearMark (l : Nat) : StepRefines (.clearMark l) := by
  intro n s s' hpc hc hex
  simp only [exec] at hex
  rw [run_get_bind, run_then_incPc] at hex
  cases hr : (popToMark l false (s.data.length + 1)).run s with
  | mk r s1 =>
    rw [hr] at hex
    cases r with
    | error e => cases hex
    | ok u =>
      cases hex
      obtain ⟨above, below, h1, h2, h3⟩ := popToMark_ok l false _ _ s1 hr
      have := CStep.clearMark (f := fnB s s.curfunc) (absC s) _ l (above.map cellOf) (below.map cellOf) (fetchB hc) rfl
        (by simp [absC, h1, cellOf]) (fun hm => h2 _ hm rfl)
      rw [h3]
      simpa [absC, pc_succ hpc] using this

/-! ## `break` / `continue` -/

theorem popScopes_ok : ∀ (n : Nat) (s s' : St), (popScopes n).run s = (.ok (), s') →
    n ≤ s.linear.length ∧ s' = { s with linear := s.linear.drop n }
  | 0, s, s', h => by
    simp only [popScopes] at h
    vmsimp_at h
    cases h
    exact ⟨Nat.zero_le _, by simp⟩
  | n + 1, s, s', h => by
    simp only [popScopes] at h
    cases hl : s.linear with
    | nil => vmsimp_at h [hl]; cases h
    | cons top rest =>
      have hr : (popScopes n).run { s with linear := rest } = (.ok (), s') := by
        vmsimp_at h [hl]
        vmsimp
        exact h
      obtain ⟨h1, h2⟩ := popScopes_ok n _ s' hr
      refine ⟨by simp only at h1; simp only [List.length_cons]; omega, ?_⟩
      rw [h2]
      simp

theorem findIdx?_map' {α β : Type} (f : α → β) (p : β → Bool) : ∀ (xs : List α),
    (xs.map f).findIdx? p = xs.findIdx? (fun a => p (f a))
  | [] => rfl
  | x :: xs => by
    simp only [List.map_cons, List.findIdx?_cons]
    rw [findIdx?_map' f p xs]

theorem beq_loopStart (a l : Nat) : (BInstr.loopStart a == BInstr.loopStart l) = (a == l) := by
  by_cases h : a = l
  · subst h; simp
  · have h1 : (a == l) = false := by simpa using h
    have h2 : ¬ (BInstr.loopStart a = BInstr.loopStart l) := by intro he; cases he; exact h rfl
    rw [h1]
    simpa using h2

/-- `FindLoop` on the listing the checker sees = `findLoopStart` on the VM's code -/
theorem loopPos_B (T : List LoopRec) (code : List Instr) (l : Nat) : loopPos (B T code) l = findLoopStart code l := by
  unfold loopPos findLoopStart B
  rw [findIdx?_map']
  congr 1
  funext i
  cases i <;> first | exact beq_loopStart _ _ | rfl | simp [toB]

/-- `BreakInstr`, given that the new pc is not negative (the VM does not check; in generated code
the offsets are positions inside the loop) -/
theorem refines_brk (l k : Nat) (n : Nat) (s s' : St) (hpc : 0 ≤ s.pc)
    (hc : (fnOf s s.curfunc).code[s.pc.toNat]? = some (.brk l k))
    (hex : (exec (n + 1) (.brk l k)).run s = (.ok (), s')) (hnn : 0 ≤ s'.pc) :
    CStep (fnB s s.curfunc) (absC s) (absC s') := by
  simp only [exec] at hex
  rw [run_get_bind] at hex
  cases hf : findLoopStart (fnOf s s.curfunc).code l with
  | none => rw [hf] at hex; vmsimp_at hex; cases hex
  | some pos =>
    rw [hf] at hex
    cases hr : (popScopes k).run s with
    | mk r s1 =>
      cases r with
      | error e =>
        vmsimp_at hex
        rw [show popScopes k s = (Except.error e, s1) from hr] at hex
        cases hex
      | ok u =>
        vmsimp_at hex
        rw [show popScopes k s = (Except.ok u, s1) from hr] at hex
        cases hex
        obtain ⟨h1, h2⟩ := popScopes_ok k s s1 hr
        subst h2
        have hlp : loopPos (fnB s s.curfunc).code l = some pos := by
          show loopPos (B s.loops (fnOf s s.curfunc).code) l = _
          rw [loopPos_B]; exact hf
        have := CStep.exitLoop (f := fnB s s.curfunc) (absC s) _ l (s.loops.getD l {}).breakOff k pos (fetchB hc) rfl hlp
          (by simpa using hnn) h1
        simpa [absC] using this

theorem refines_cont (l k : Nat) (n : Nat) (s s' : St) (hpc : 0 ≤ s.pc)
    (hc : (fnOf s s.curfunc).code[s.pc.toNat]? = some (.cont l k))
    (hex : (exec (n + 1) (.cont l k)).run s = (.ok (), s')) (hnn : 0 ≤ s'.pc) :
    CStep (fnB s s.curfunc) (absC s) (absC s') := by
  simp only [exec] at hex
  rw [run_get_bind] at hex
  cases hf : findLoopStart (fnOf s s.curfunc).code l with
  | none => rw [hf] at hex; vmsimp_at hex; cases hex
  | some pos =>
    rw [hf] at hex
    cases hr : (popScopes k).run s with
    | mk r s1 =>
      cases r with
      | error e =>
        vmsimp_at hex
        rw [show popScopes k s = (Except.error e, s1) from hr] at hex
        cases hex
      | ok u =>
        vmsimp_at hex
        rw [show popScopes k s = (Except.ok u, s1) from hr] at hex
        cases hex
        obtain ⟨h1, h2⟩ := popScopes_ok k s s1 hr
        subst h2
        have hlp : loopPos (fnB s s.curfunc).code l = some pos := by
          show loopPos (B s.loops (fnOf s s.curfunc).code) l = _
          rw [loopPos_B]; exact hf
        have := CStep.exitLoop (f := fnB s s.curfunc) (absC s) _ l (s.loops.getD l {}).contOff k pos (fetchB hc) rfl hlp
          (by simpa using hnn) h1
        simpa [absC] using this

/-! ## `update`, `assign` -/

theorem setInScope_abs (id : Nat) (x : String) (v : Val) (s s' : St) (h : (setInScope id x v).run s = (.ok (), s')) :
    s'.pc = s.pc ∧ s'.data = s.data ∧ s'.linear = s.linear ∧ s'.addr = s.addr := by
  vmsimp_at h [setInScope]
  cases h
  exact ⟨rfl, rfl, rfl, rfl⟩

theorem refines_update (x : String) : StepRefines (.update x) := by
  intro n s s' hpc hc hex
  simp only [exec] at hex
  cases hd : s.data with
  | nil => vmsimp_at hex [hd]; cases hex
  | cons v rest =>
    cases v with
    | none => vmsimp_at hex [hd]; cases hex
    | some v =>
      have hb : (do let t ← get
                    match lexLookup t x with
                    | some (id, _) => setInScope id x v
                    | none => bindTop x v : M Unit).run { s with data := rest, pc := s.pc + 1 } = (.ok (), s') := by
        vmsimp_at hex [hd]
        vmsimp
        exact hex
      rw [run_get_bind] at hb
      have habs : s'.pc = s.pc + 1 ∧ s'.data = rest ∧ s'.linear = s.linear ∧ s'.addr = s.addr := by
        cases hl : lexLookup { s with data := rest, pc := s.pc + 1 } x with
        | none =>
          rw [hl] at hb
          exact bindTop_abs x v _ s' hb
        | some r =>
          obtain ⟨id, w⟩ := r
          rw [hl] at hb
          exact setInScope_abs id x v _ s' hb
      obtain ⟨h1, h2, h3, h4⟩ := habs
      have := CStep.simple (f := fnB s s.curfunc) (absC s) _ 1 0 [cellOf (some v)] (rest.map cellOf) (fetchB hc) rfl
        (by simp [absC, hd]) rfl
      simpa [absC, pc_succ hpc, h1, h2, h3, h4] using this

theorem refines_assign : StepRefines .assign := by
  intro n s s' hpc hc hex
  simp only [exec] at hex
  cases hd : s.data with
  | nil => vmsimp_at hex [hd]; cases hex
  | cons r rest1 =>
    cases r with
    | none => vmsimp_at hex [hd]; cases hex
    | some r =>
      cases rest1 with
      | nil => vmsimp_at hex [hd]; cases hex
      | cons l rest =>
        cases l with
        | none => vmsimp_at hex [hd]; cases hex
        | some l =>
          have hb : (do let t ← get
                        match l, r with
                        | .arr a, .arr b => if (t.heap.get a).isEmpty ∧ (t.heap.get b).isEmpty then pushData r else err
                        | _, _ => err : M Unit).run { s with data := rest, pc := s.pc + 1 } = (.ok (), s') := by
            vmsimp_at hex [hd]
            vmsimp
            exact hex
          rw [run_get_bind] at hb
          have hres : plain r = true ∧ s' = { s with data := some r :: rest, pc := s.pc + 1 } := by
            split at hb
            · rename_i a b
              split at hb
              · vmsimp_at hb
                cases hb
                exact ⟨rfl, rfl⟩
              · vmsimp_at hb
                cases hb
            · vmsimp_at hb
              cases hb
          obtain ⟨hp, rfl⟩ := hres
          have := CStep.simple (f := fnB s s.curfunc) (absC s) _ 2 1 [cellOf (some r), cellOf (some l)] (rest.map cellOf)
            (fetchB hc) rfl (by simp [absC, hd]) rfl
          simpa [absC, pc_succ hpc, cellOf_plain hp] using this

/-! ## Summary -/

/-- **exec_refines**, full statement: every successful `VM.exec` step taken in the code of the
current function is a step of the stack-effect machine of that function, as the checker sees it,
between the abstractions of the two states — provided the step stays in the activation (a call
has returned: same function, same address depth; `ret` leaves the activation and is the end of
the run of the stack-effect machine, `Bal.AtRet`). -/
def ExecRefines : Prop :=
  ∀ (i : Instr) (n : Nat) (s s' : St), 0 ≤ s.pc → (fnOf s s.curfunc).code[s.pc.toNat]? = some i →
    (exec (n + 1) i).run s = (.ok (), s') → s'.curfunc = s.curfunc → s'.addr.length = s.addr.length → 0 ≤ s'.pc →
    CStep (fnB s s.curfunc) (absC s) (absC s')

/-- the instructions for which the refinement is proved unconditionally (`StepRefines`): every
instruction of the model but `push` of a stack-mark value (never generated), `envToStack`,
`tailGuard`, `prepareCall`, `brk`, `cont` — proved with the side condition each needs
(`refines_envToStack`: no stack-mark is bound to a name; `refines_tailGuard`: the skip target lies
inside the function; `refines_prepareCall`: compiled code; `refines_brk`/`refines_cont`: the new
pc is not negative) — and `callArr`, `callExpr` (the calling contract: needs the induction over
nested runs), `ret` (leaves the activation). -/
theorem exec_refines_partial (i : Instr)
    (h : match i with
      | .push v => plain v = true
      | .envToStack _ | .tailGuard _ _ | .prepareCall _ _ | .brk _ _ | .cont _ _
      | .callArr _ | .callExpr _ _ | .ret => False
      | _ => True) : StepRefines i := by
  cases i with
  | push v => exact refines_push v h
  | pop => exact refines_pop
  | dup => exact refines_dup
  | envToStack x => exact absurd h id
  | popStackPutEnv x => exact refines_popStackPutEnv x
  | update x => exact refines_update x
  | callArr n => exact absurd h id
  | callExpr c a => exact absurd h id
  | jump off => exact refines_jump off
  | goto loc => exact refines_goto loc
  | branch d off => exact refines_branch d off
  | ret => exact absurd h id
  | addScope => exact refines_addScope
  | addFuncScope t => exact refines_addFuncScope t
  | removeScope => exact refines_removeScope
  | createClosure t => exact refines_createClosure t
  | prepareCall x n => exact absurd h id
  | tailGuard x k => exact absurd h id
  | pushLazy e => exact refines_pushLazy e
  | loopStart l => exact refines_loopStart l
  | label => exact refines_label
  | pushMark l => exact refines_pushMark l
  | popUntilMark l => exact refines_popUntilMark l
  | clearMark l => exact refines_clearMark l
  | brk l k => exact absurd h id
  | cont l k => exact absurd h id
  | assign => exact refines_assign

end ZygoVerif.Refine
