/-
C06 `lex_spacing`, part 1: the rune-level facts about the lexer model that decide where a blank
is needed between two tokens of an infix block.

After a token has been read the lexer is in one of three *pending* situations (`Pend`):
  * `norm b`    — LexerNormal with the atom `b` still in the buffer (`b = []` after a bracket,
                  comma, semicolon or two-rune operator, which are emitted at once);
  * `op1 o p`   — LexerBuiltinOperator: the operator rune `o` has been read, the rune before it
                  was `p` (`preBuiltinRune`); whether `o` is an operator on its own, the first half
                  of a two-rune operator or the sign of a number is decided by the NEXT rune;
  * `slash b`   — LexerFirstFwdSlash: a `/` has been read, the atom `b` is still in the buffer.
`LexP q T l text q' T' l'`: from every lexer state in situation `q` with token queue `T` whose
last rune was `l`, feeding `text` succeeds and ends in situation `q'` with queue `T'`, last rune `l'`.

The two *settling* lemmas say when the next rune does not interact with a pending operator: the
lexer then behaves exactly as if the operator had already been emitted. Their side conditions
(`opMerges`, `signGlues`) are the adjacencies that need a blank.
-/
import ZygoVerif.Proofs.LexNormal
import ZygoVerif.Proofs.LexRing
import ZygoVerif.Proofs.LexLiterals
import ZygoVerif.Proofs.LexNumbers
import ZygoVerif.Proofs.LexFloat
import ZygoVerif.Proofs.LexChar
namespace ZygoVerif.Lexer

inductive Pend where
  | norm (b : List Char)
  | op1 (o p : Char)
  | slash (b : List Char)
  deriving Repr, DecidableEq

def Pend.Holds (q : Pend) (s : LexCore) : Prop :=
  match q with
  | .norm b => s.state = .normal ∧ s.buffer = b
  | .op1 o p => s.state = .builtinOperator ∧ s.buffer = [] ∧ s.prevrune = o ∧ s.preBuiltinRune = p
  | .slash b => s.state = .firstFwdSlash ∧ s.buffer = b

/-- the tokens a pending situation still owes -/
def Pend.owes : Pend → List Token
  | .norm b => flush b
  | .op1 o _ => [⟨.symbol, [o]⟩]
  | .slash b => flush b ++ [⟨.symbol, ['/']⟩]

structure InPend (s : LexCore) (q : Pend) (T : List Token) (l : Char) : Prop where
  ring : RingOK s
  last : lastRune s = l
  tokens : s.tokens = T
  holds : q.Holds s

def LexP (q : Pend) (T : List Token) (l : Char) (text : List Char) (q' : Pend) (T' : List Token) (l' : Char) : Prop :=
  ∀ s, InPend s q T l → ∃ s', feed (.ok s) text = .ok s' ∧ InPend s' q' T' l'

theorem LexP.nil (q : Pend) (T : List Token) (l : Char) : LexP q T l [] q T l := fun s h => ⟨s, rfl, h⟩

theorem LexP.trans {q1 q2 q3 : Pend} {T1 T2 T3 : List Token} {l1 l2 l3 : Char} {t u : List Char}
    (h1 : LexP q1 T1 l1 t q2 T2 l2) (h2 : LexP q2 T2 l2 u q3 T3 l3) : LexP q1 T1 l1 (t ++ u) q3 T3 l3 := by
  intro s hs
  obtain ⟨s1, hf1, hs1⟩ := h1 s hs
  obtain ⟨s2, hf2, hs2⟩ := h2 s1 hs1
  exact ⟨s2, by rw [feed_append, hf1, hf2], hs2⟩

theorem LexP.cast {q q' : Pend} {T T' T'' : List Token} {l l' l'' : Char} {t : List Char}
    (h : LexP q T l t q' T' l') (hT : T' = T'') (hl : l' = l'') : LexP q T l t q' T'' l'' := by
  subst hT; subst hl; exact h

theorem inPend_norm_iff (s : LexCore) (b : List Char) (T : List Token) (l : Char) :
    InPend s (.norm b) T l ↔ HasShape s ⟨.normal, b, T, l⟩ :=
  ⟨fun h => ⟨h.holds.1, h.holds.2, h.tokens, h.ring, h.last⟩, fun h => ⟨h.ring, h.last, h.tokens, ⟨h.state, h.buffer⟩⟩⟩

/-- the `Lex` facts of the C12 library are `LexP` facts between normal situations -/
theorem LexP.of_Lex {b b' : List Char} {T T' : List Token} {l l' : Char} {t : List Char}
    (h : Lex ⟨.normal, b, T, l⟩ t ⟨.normal, b', T', l'⟩) : LexP (.norm b) T l t (.norm b') T' l' := by
  intro s hs
  obtain ⟨s', hf, hs'⟩ := h s ((inPend_norm_iff s b T l).1 hs)
  exact ⟨s', hf, (inPend_norm_iff s' b' T' l').2 hs'⟩

/-- a single rune: only the step equation, the queue and the situation have to be shown (the ring
follows from `step_ring`) -/
theorem LexP.step1 {q q' : Pend} {T T' : List Token} {l r : Char}
    (h : ∀ s, InPend s q T l → ∃ s', step s r = .ok s' ∧ s'.tokens = T' ∧ q'.Holds s') :
    LexP q T l [r] q' T' r := by
  intro s hs
  obtain ⟨s', hst, ht, hq⟩ := h s hs
  obtain ⟨hr, hl⟩ := step_ring s s' r hst hs.ring
  exact ⟨s', by rw [feed_ok_cons, hst]; rfl, hr, hl, ht, hq⟩

/-! ## flushing the pending atom -/

/-- the state `dumpBuffer` leaves when the buffer is empty or holds a well-formed atom -/
def settleBuf (s : LexCore) : LexCore :=
  if s.buffer.isEmpty then s else
  match decodeAtom s.buffer with
  | .ok t => appendToken { s with buffer := [] } t
  | .error _ => s

theorem dumpBuffer_settle (s : LexCore) (hf : Flushable s.buffer) : dumpBuffer s = .ok (settleBuf s) := by
  unfold dumpBuffer settleBuf
  by_cases hb : s.buffer.isEmpty = true
  · simp [hb]
  · rcases hf with h | ⟨t, ht⟩
    · simp [h] at hb
    · simp [hb, ht]

theorem thenDump_settle (s : LexCore) (k : LexCore → Outcome LexCore) (hf : Flushable s.buffer) :
    thenDump s k = k (settleBuf s) := by
  simp [thenDump, dumpBuffer_settle s hf]

theorem settleBuf_facts (s : LexCore) (hf : Flushable s.buffer) :
    (settleBuf s).buffer = [] ∧ (settleBuf s).tokens = s.tokens ++ flush s.buffer ∧
    (settleBuf s).state = s.state ∧ (settleBuf s).priorRune = s.priorRune ∧ (settleBuf s).priori = s.priori ∧
    (settleBuf s).prevrune = s.prevrune ∧ (settleBuf s).preBuiltinRune = s.preBuiltinRune := by
  unfold settleBuf flush
  by_cases hb : s.buffer.isEmpty = true
  · have : s.buffer = [] := by simpa using hb
    simp [hb, this]
  · rcases hf with h | ⟨t, ht⟩
    · simp [h] at hb
    · simp [hb, ht, appendToken]

theorem twoback_settleBuf (s : LexCore) (hf : Flushable s.buffer) : twoback (settleBuf s) = twoback s := by
  obtain ⟨_, _, _, h4, h5, _, _⟩ := settleBuf_facts s hf
  simp [twoback, h4, h5]

theorem settleBuf_pushRing (s : LexCore) (c : Char) : settleBuf (pushRing s c) = pushRing (settleBuf s) c := by
  unfold settleBuf
  show (if s.buffer.isEmpty then pushRing s c else
    match decodeAtom s.buffer with
    | .ok t => appendToken { pushRing s c with buffer := [] } t
    | .error _ => pushRing s c) = _
  split
  · rfl
  · split <;> rfl

/-! ## runes read in the normal situation -/

/-- the operator runes that open the one-rune look-ahead (`/` and `:` have states of their own) -/
def isOpRune (c : Char) : Bool :=
  c == '+' || c == '-' || c == '*' || c == '<' || c == '>' || c == '=' || c == '!' || c == '&' || c == '|'

/-- `1e+5`: a sign directly after `e`/`E` continues the numeral in the buffer -/
def sciGlues (b : List Char) (l c : Char) : Bool := (c == '+' || c == '-') && isE l && sciPrefix b

theorem stepNormal_opRune (s : LexCore) (c : Char) (hc : isOpRune c = true)
    (hs : ((c == '+' || c == '-') && isE (twoback s) && sciPrefix s.buffer) = false) :
    stepNormal s c = thenDump s fun s' => .ok { s' with state := .builtinOperator, preBuiltinRune := twoback s', prevrune := c } := by
  simp only [isOpRune, Bool.or_eq_true, beq_iff_eq] at hc
  rcases hc with (((((((rfl | rfl) | rfl) | rfl) | rfl) | rfl) | rfl) | rfl) | rfl
  · have : (isE (twoback s) && sciPrefix s.buffer) = false := by simpa using hs
    simp [stepNormal, this]
  · have : (isE (twoback s) && sciPrefix s.buffer) = false := by simpa using hs
    simp [stepNormal, this]
  all_goals simp [stepNormal]

/-- an operator rune after a (possibly empty) atom: the atom is flushed, the look-ahead opens -/
theorem lexP_opRune (b : List Char) (T : List Token) (l c : Char) (hc : isOpRune c = true)
    (hf : Flushable b) (hs : sciGlues b l c = false) :
    LexP (.norm b) T l [c] (.op1 c l) (T ++ flush b) c := by
  apply LexP.step1
  intro s hsp
  have hst : (pushRing s c).state = .normal := hsp.holds.1
  have hbuf : (pushRing s c).buffer = b := hsp.holds.2
  have htb : twoback (pushRing s c) = l := by rw [twoback_pushRing s c hsp.ring, hsp.last]
  have hfl : Flushable (pushRing s c).buffer := by rw [hbuf]; exact hf
  obtain ⟨h1, h2, h3, h4, h5, h6, h7⟩ := settleBuf_facts (pushRing s c) hfl
  refine ⟨{ settleBuf (pushRing s c) with state := .builtinOperator, preBuiltinRune := twoback (settleBuf (pushRing s c)), prevrune := c }, ?_, ?_, ?_⟩
  · rw [step_def, stepMode_normal _ _ hst, stepNormal_opRune _ c hc (by rw [htb, hbuf]; simpa [sciGlues] using hs),
      thenDump_settle _ _ hfl]
  · show (settleBuf (pushRing s c)).tokens = _
    rw [h2, hbuf]; show s.tokens ++ _ = _; rw [hsp.tokens]
  · refine ⟨rfl, h1, rfl, ?_⟩
    show twoback (settleBuf (pushRing s c)) = l
    rw [twoback_settleBuf _ hfl, htb]

/-- `/` opens LexerFirstFwdSlash; the pending atom stays in the buffer -/
theorem lexP_slash (b : List Char) (T : List Token) (l : Char) :
    LexP (.norm b) T l ['/'] (.slash b) T '/' := by
  apply LexP.step1
  intro s hsp
  have hst : (pushRing s '/').state = .normal := hsp.holds.1
  refine ⟨{ pushRing s '/' with state := .firstFwdSlash }, ?_, hsp.tokens, rfl, hsp.holds.2⟩
  rw [step_def, stepMode_normal _ _ hst]
  simp [stepNormal]

def sepTok (c : Char) : Token := if c == ';' then ⟨.semicolon, [';']⟩ else ⟨.comma, [',']⟩

/-- `,` and `;` flush the atom and are tokens at once -/
theorem lexP_sep (b : List Char) (T : List Token) (l c : Char) (hc : c = ',' ∨ c = ';') (hf : Flushable b) :
    LexP (.norm b) T l [c] (.norm []) (T ++ flush b ++ [sepTok c]) c := by
  apply LexP.step1
  intro s hsp
  have hst : (pushRing s c).state = .normal := hsp.holds.1
  have hbuf : (pushRing s c).buffer = b := hsp.holds.2
  have hfl : Flushable (pushRing s c).buffer := by rw [hbuf]; exact hf
  obtain ⟨h1, h2, h3, h4, h5, h6, h7⟩ := settleBuf_facts (pushRing s c) hfl
  refine ⟨appendToken (settleBuf (pushRing s c)) (sepTok c), ?_, ?_, ?_⟩
  · rw [step_def, stepMode_normal _ _ hst]
    rcases hc with rfl | rfl
    · simp [stepNormal, thenDump_settle _ _ hfl, sepTok]
    · simp [stepNormal, thenDump_settle _ _ hfl, sepTok]
  · simp only [appendToken, h2, hbuf]
    show s.tokens ++ _ ++ _ = _; rw [hsp.tokens]
  · exact ⟨by simpa [appendToken] using h3.trans hst, by simpa [appendToken] using h1⟩

theorem lexP_blank (b : List Char) (T : List Token) (l c : Char) (hc : isBlank c = true) (hf : Flushable b) :
    LexP (.norm b) T l [c] (.norm []) (T ++ flush b) c :=
  LexP.of_Lex (lex_blank b T l c hc hf)

theorem lexP_brace (b : List Char) (T : List Token) (l c : Char) (hc : isBrace c = true) (hf : Flushable b) :
    LexP (.norm b) T l [c] (.norm []) (T ++ flush b ++ [braceTok c]) c :=
  LexP.of_Lex (lex_brace b T l c hc hf)

/-- a run of blanks after the atom has been flushed -/
theorem lexP_blanks (g : List Char) (hg : ∀ c ∈ g, isBlank c = true) (T : List Token) (l : Char) :
    LexP (.norm []) T l g (.norm []) T (lastOf l g) := by
  induction g generalizing l with
  | nil => exact LexP.nil _ _ _
  | cons c g ih =>
    have h1 : LexP (.norm []) T l [c] (.norm []) T c := by
      simpa [flush] using lexP_blank [] T l c (hg c (by simp)) (Or.inl rfl)
    have h2 := ih (fun x hx => hg x (by simp [hx])) c
    have := LexP.trans h1 h2
    simpa using this

/-! ## the rune after a one-rune operator -/

/-- `o` followed by `c` is a two-rune operator of `BuiltinOpRegex` -/
def opMerges (o c : Char) : Bool := builtinOpRe [o, c]

/-- `-` followed by a digit where a signed number may start: the sign of a numeral -/
def signGlues (o p c : Char) : Bool := o == '-' && canStartSignedNumberAfter p && isDig c

/-- `-.` where a signed number may start: the next rune decides between `-.5` and the symbol `-`
(LexerMinusDot, repo fix C12-05) -/
def dotGlues (o p c : Char) : Bool := o == '-' && canStartSignedNumberAfter p && c == '.'

theorem neg_atom_iff (c : Char) : (floatRe ['-', c] || decimalRe ['-', c]) = isDig c := by
  have h1 : floatRe ['-', c] = false := by
    simp only [floatRe, dropMinus]
    unfold floatBody
    split
    · rename_i heq
      simp only [List.cons.injEq] at heq
      obtain ⟨_, rfl⟩ := heq
      simp [digThenDigU]
    · rename_i heq
      simp only [List.cons.injEq] at heq
      obtain ⟨rfl, rfl⟩ := heq
      split <;> simp
    · rfl
  have h2 : decimalRe ['-', c] = isDig c := by simp [decimalRe, dropMinus, digThenDigU]
  rw [h1, h2]; rfl

theorem stepBuiltin_eq (s : LexCore) (c : Char) :
    stepBuiltin s c =
      (if signGlues s.prevrune s.preBuiltinRune c then .ok { s with state := .normal, buffer := s.buffer ++ [s.prevrune, c] }
       else if dotGlues s.prevrune s.preBuiltinRune c then .ok { s with state := .minusDot }
       else if opMerges s.prevrune c then
         .ok (appendToken { s with state := .normal } ⟨.symbol,
           if [s.prevrune, c] == "&&".toList then "and".toList else if [s.prevrune, c] == "||".toList then "or".toList else [s.prevrune, c]⟩)
       else stepNormal (appendToken { s with state := .normal } ⟨.symbol, [s.prevrune]⟩) c) := by
  unfold stepBuiltin signGlues dotGlues opMerges
  by_cases hm : s.prevrune = '-'
  · simp only [hm, beq_self_eq_true, Bool.true_and, neg_atom_iff]
  · have : (s.prevrune == '-') = false := by simpa using hm
    simp [this]

/-- the two-rune operators: the second rune completes the operator -/
def op2Tok (o c : Char) : Token :=
  ⟨.symbol, if [o, c] == "&&".toList then "and".toList else if [o, c] == "||".toList then "or".toList else [o, c]⟩

theorem opMerges_not_digit : ∀ o ∈ ['+', '-', '*', '<', '>', '=', '!', '&', '|', '/'], ∀ c, opMerges o c = true → isDig c = false := by
  intro o ho c hm
  simp only [opMerges, builtinOpRe, List.any_eq_true] at hm
  obtain ⟨x, hx, he⟩ := hm
  have he' : x.toList = [o, c] := by simpa using he
  have : builtinOps.all (fun x => match x.toList with | [_, c] => !isDig c | _ => true) = true := by decide
  have h := List.all_eq_true.1 this x hx
  rw [he'] at h
  simpa using h

theorem lexP_op2 (o p c : Char) (T : List Token) (hm : opMerges o c = true) (hd : isDig c = false) (hdot : c ≠ '.') :
    LexP (.op1 o p) T o [c] (.norm []) (T ++ [op2Tok o c]) c := by
  apply LexP.step1
  intro s hsp
  obtain ⟨hst, hbuf, rfl, rfl⟩ := hsp.holds
  have hst' : (pushRing s c).state = .builtinOperator := hst
  refine ⟨appendToken { pushRing s c with state := .normal } (op2Tok s.prevrune c), ?_, ?_, rfl, hbuf⟩
  · rw [step_def, stepMode_builtin _ _ hst', stepBuiltin_eq]
    have h1 : signGlues (pushRing s c).prevrune (pushRing s c).preBuiltinRune c = false := by simp [signGlues, hd]
    have h2 : opMerges (pushRing s c).prevrune c = true := hm
    have h3 : dotGlues (pushRing s c).prevrune (pushRing s c).preBuiltinRune c = false := by simp [dotGlues, hdot]
    simp only [h1, h2, h3, Bool.false_eq_true, ↓reduceIte]
    rfl
  · show s.tokens ++ _ = _; rw [hsp.tokens]

/-- **settling a one-rune operator**: a rune that neither completes a two-rune operator nor makes
the `-` a sign is read exactly as if the operator had been emitted before it -/
theorem step_settle_op1 (s : LexCore) (o p c : Char) (T : List Token) (hsp : InPend s (.op1 o p) T o)
    (hm : opMerges o c = false) (hg : signGlues o p c = false) (hd : dotGlues o p c = false) :
    ∃ s0, InPend s0 (.norm []) (T ++ [⟨.symbol, [o]⟩]) o ∧ step s c = step s0 c := by
  obtain ⟨hst, hbuf, rfl, rfl⟩ := hsp.holds
  refine ⟨appendToken { s with state := .normal } ⟨.symbol, [s.prevrune]⟩, ⟨⟨hsp.ring.len, hsp.ring.lt⟩, hsp.last, ?_, rfl, hbuf⟩, ?_⟩
  · show s.tokens ++ _ = _; rw [hsp.tokens]
  · have hst' : (pushRing s c).state = .builtinOperator := hst
    have h1 : signGlues (pushRing s c).prevrune (pushRing s c).preBuiltinRune c = false := hg
    have h2 : opMerges (pushRing s c).prevrune c = false := hm
    have h3 : dotGlues (pushRing s c).prevrune (pushRing s c).preBuiltinRune c = false := hd
    rw [step_def, stepMode_builtin _ _ hst', stepBuiltin_eq]
    simp only [h1, h2, h3, Bool.false_eq_true, ↓reduceIte]
    rw [step_def, stepMode_normal _ _ (by rfl)]
    rfl

theorem stepMode_minusDot (s : LexCore) (r : Char) (h : s.state = .minusDot) : stepMode s r = stepMinusDot s r := by
  simp only [stepMode, h]

/-- **settling `-.`** (LexerMinusDot): after `-` where a signed number may start, a `.` followed by a
rune that is no digit is read exactly as if the `-` had been emitted before the dot -/
theorem feed_settle_minusDot (s : LexCore) (p x : Char) (T : List Token) (hsp : InPend s (.op1 '-' p) T '-')
    (hp : canStartSignedNumberAfter p = true) (hx : isDig x = false) :
    ∃ s0, InPend s0 (.norm []) (T ++ [⟨.symbol, ['-']⟩]) '-' ∧ feed (.ok s) ['.', x] = feed (.ok s0) ['.', x] := by
  obtain ⟨hst, hbuf, hprev, hpre⟩ := hsp.holds
  refine ⟨appendToken { s with state := .normal } ⟨.symbol, ['-']⟩, ⟨⟨hsp.ring.len, hsp.ring.lt⟩, hsp.last, ?_, rfl, hbuf⟩, ?_⟩
  · show s.tokens ++ _ = _; rw [hsp.tokens]
  · -- left: `-` pending, then `.`, then x
    have hst' : (pushRing s '.').state = .builtinOperator := hst
    have h1 : signGlues (pushRing s '.').prevrune (pushRing s '.').preBuiltinRune '.' = false := by simp [signGlues, isDig]
    have h2 : dotGlues (pushRing s '.').prevrune (pushRing s '.').preBuiltinRune '.' = true := by
      show dotGlues s.prevrune s.preBuiltinRune '.' = true
      rw [hprev, hpre]; simp [dotGlues, hp]
    have e1 : step s '.' = .ok { pushRing s '.' with state := .minusDot } := by
      rw [step_def, stepMode_builtin _ _ hst', stepBuiltin_eq]
      simp only [h1, h2, Bool.false_eq_true, ↓reduceIte]
    have hxd : ('0' ≤ x && x ≤ '9') = false := hx
    have e2 : step { pushRing s '.' with state := .minusDot } x =
        stepNormal { appendToken { pushRing (pushRing s '.') x with state := .normal } ⟨.symbol, ['-']⟩ with
          buffer := (pushRing (pushRing s '.') x).buffer ++ ['.'] } x := by
      rw [step_def, stepMode_minusDot _ _ (by rfl)]
      simp only [stepMinusDot, hxd, Bool.false_eq_true, ↓reduceIte]
      rfl
    -- right: the `-` already emitted, then `.` (a plain rune), then x
    have f1 : step (appendToken { s with state := .normal } ⟨.symbol, ['-']⟩) '.' =
        .ok { pushRing (appendToken { s with state := .normal } ⟨.symbol, ['-']⟩) '.' with
          buffer := (pushRing (appendToken { s with state := .normal } ⟨.symbol, ['-']⟩) '.').buffer ++ ['.'] } := by
      rw [step_def, stepMode_normal _ _ (by rfl), stepNormal_plain _ _ (by decide)]
      rfl
    rw [feed_ok_cons, e1, feed_ok_cons, e2, feed_ok_cons, f1, feed_ok_cons, step_def, stepMode_normal _ _ (by rfl)]
    rfl

/-- **settling `/`**: a rune that starts neither a comment nor `/=` is read as if the atom before
the `/` and the `/` itself had been emitted -/
theorem step_settle_slash (s : LexCore) (b : List Char) (c : Char) (T : List Token) (hsp : InPend s (.slash b) T '/')
    (hf : Flushable b) (h1 : c ≠ '/') (h2 : c ≠ '*') (hm : opMerges '/' c = false) :
    ∃ s0, InPend s0 (.norm []) (T ++ flush b ++ [⟨.symbol, ['/']⟩]) '/' ∧ step s c = step s0 c := by
  obtain ⟨hst, hbuf⟩ := hsp.holds
  have hfl : Flushable ({ s with state := .builtinOperator, prevrune := '/' } : LexCore).buffer := by
    show Flushable s.buffer; rw [hbuf]; exact hf
  obtain ⟨f1, f2, f3, f4, f5, f6, f7⟩ := settleBuf_facts { s with state := .builtinOperator, prevrune := '/' } hfl
  refine ⟨appendToken { settleBuf { s with state := .builtinOperator, prevrune := '/' } with state := .normal } ⟨.symbol, ['/']⟩,
    ⟨⟨by show (settleBuf _).priorRune.length = 20; rw [f4]; exact hsp.ring.len,
       by show (settleBuf _).priori < 20; rw [f5]; exact hsp.ring.lt⟩, ?_, ?_, rfl, f1⟩, ?_⟩
  · have := hsp.last
    simp only [lastRune] at this ⊢
    show (settleBuf _).priorRune.getD (((settleBuf _).priori + 19) % 20) '\x00' = '/'
    rw [f4, f5]; exact this
  · show (settleBuf _).tokens ++ _ = _
    rw [f2]; show s.tokens ++ flush s.buffer ++ _ = _; rw [hsp.tokens, hbuf]
  · have hst' : (pushRing s c).state = .firstFwdSlash := hst
    have hc1 : (c == '/') = false := by simpa using h1
    have hc2 : (c == '*') = false := by simpa using h2
    have hfl' : Flushable ({ pushRing s c with state := .builtinOperator, prevrune := '/' } : LexCore).buffer := hfl
    have e1 : step s c = stepBuiltin (settleBuf { pushRing s c with state := .builtinOperator, prevrune := '/' }) c := by
      rw [step_def]
      simp only [stepMode, hst', stepFirstFwdSlash, hc1, hc2, Bool.false_eq_true, ↓reduceIte]
      exact thenDump_settle _ _ hfl'
    have e2 : ({ pushRing s c with state := .builtinOperator, prevrune := '/' } : LexCore) =
        pushRing { s with state := .builtinOperator, prevrune := '/' } c := rfl
    rw [e1, e2, settleBuf_pushRing, stepBuiltin_eq]
    have g1 : (pushRing (settleBuf { s with state := .builtinOperator, prevrune := '/' }) c).prevrune = '/' := f6
    have g2 : signGlues (pushRing (settleBuf { s with state := .builtinOperator, prevrune := '/' }) c).prevrune
        (pushRing (settleBuf { s with state := .builtinOperator, prevrune := '/' }) c).preBuiltinRune c = false := by
      rw [g1]; simp [signGlues]
    have g3 : opMerges (pushRing (settleBuf { s with state := .builtinOperator, prevrune := '/' }) c).prevrune c = false := by
      rw [g1]; exact hm
    have g5 : dotGlues (pushRing (settleBuf { s with state := .builtinOperator, prevrune := '/' }) c).prevrune
        (pushRing (settleBuf { s with state := .builtinOperator, prevrune := '/' }) c).preBuiltinRune c = false := by
      rw [g1]; simp [dotGlues]
    simp only [g2, g3, g5, Bool.false_eq_true, ↓reduceIte]
    have g4 : (⟨.symbol, [(pushRing (settleBuf { s with state := .builtinOperator, prevrune := '/' }) c).prevrune]⟩ : Token) =
        ⟨.symbol, ['/']⟩ := by rw [g1]
    rw [g4, step_def, stepMode_normal _ _ (by rfl)]
    rfl

/-- a text of several runes: the step equations, the queue and the situation (the ring follows
from `feed_ring`) -/
theorem LexP.of_feed {q q' : Pend} {T T' : List Token} {l l' : Char} {t : List Char}
    (h : ∀ s, InPend s q T l → ∃ s', feed (.ok s) t = .ok s' ∧ s'.tokens = T' ∧ q'.Holds s')
    (hl : l' = lastOf l t) : LexP q T l t q' T' l' := by
  intro s hs
  obtain ⟨s', hf, ht, hq⟩ := h s hs
  obtain ⟨hr, hlast⟩ := feed_ring s s' t hf hs.ring
  exact ⟨s', hf, hr, by rw [hlast, hs.last, hl], ht, hq⟩

/-- `:=` after a (possibly empty) atom: the atom is flushed when the `=` arrives -/
theorem lexP_freshAssign (b : List Char) (T : List Token) (l : Char) (hf : Flushable b) :
    LexP (.norm b) T l [':', '='] (.norm []) (T ++ flush b ++ [⟨.freshAssign, ":=".toList⟩]) '=' := by
  apply LexP.of_feed
  · intro s hsp
    have hst : (pushRing s ':').state = .normal := hsp.holds.1
    have h1 : step s ':' = .ok { pushRing s ':' with state := .freshAssignOrColon } := by
      rw [step_def, stepMode_normal _ _ hst]; simp [stepNormal]
    let s1 : LexCore := { pushRing s ':' with state := .freshAssignOrColon }
    have hfl : Flushable ({ pushRing s1 '=' with state := .normal } : LexCore).buffer := by
      show Flushable s.buffer; rw [hsp.holds.2]; exact hf
    obtain ⟨f1, f2, f3, f4, f5, f6, f7⟩ := settleBuf_facts { pushRing s1 '=' with state := .normal } hfl
    have h2 : step s1 '=' = .ok (appendToken (settleBuf { pushRing s1 '=' with state := .normal }) ⟨.freshAssign, ":=".toList⟩) := by
      have hst1 : (pushRing s1 '=').state = .freshAssignOrColon := rfl
      rw [step_def]
      simp only [stepMode, hst1, stepFresh, beq_self_eq_true, ↓reduceIte]
      exact thenDump_settle _ _ hfl
    refine ⟨_, feed_two s s1 _ ':' '=' h1 h2, ?_, ?_, ?_⟩
    · simp only [appendToken, f2]
      show s.tokens ++ flush s.buffer ++ _ = _; rw [hsp.tokens, hsp.holds.2]
    · simpa [appendToken] using f3
    · simpa [appendToken] using f1
  · simp

/-! ## words -/

/-- The texts read as ONE atom: a run of plain runes that `DecodeAtom` accepts (names, dotted
paths, unsigned numerals, `1.5`, `1e5`), such a run behind a sign and a digit (`-12`, `-1.5`), and
the float shape with a signed exponent (`1e-5`, `-2.5e+10`). -/
inductive WordText : List Char → Prop
  | plain (w : List Char) (hne : w ≠ []) (hp : ∀ c ∈ w, isSpecial c = false) (hd : ∃ t, decodeAtom w = .ok t) : WordText w
  | neg (d : Char) (r : List Char) (hd : isDig d = true) (hp : ∀ c ∈ r, isSpecial c = false)
      (ht : ∃ t, decodeAtom ('-' :: d :: r) = .ok t) : WordText ('-' :: d :: r)
  | float (p : FloatParts) (hv : p.Valid) : WordText p.render

def negStart (w : List Char) : Bool := w.head? == some '-'

theorem WordText.ne_nil {w : List Char} (h : WordText w) : w ≠ [] := by
  cases h with
  | plain w hne _ _ => exact hne
  | neg d r _ _ _ => simp
  | float p hv =>
    obtain ⟨c, hc, _⟩ := p.last_digit hv
    intro h; rw [h] at hc; cases hc

theorem WordText.flushable {w : List Char} (h : WordText w) : Flushable w := by
  cases h with
  | plain w _ _ hd => exact Or.inr hd
  | neg d r _ _ ht => exact Or.inr ht
  | float p hv => exact Or.inr ⟨_, decodeAtom_floatParts p hv⟩

theorem lex_floatParts' (p : FloatParts) (hv : p.Valid) (T : List Token) (l : Char)
    (hl : p.neg = true → canStartSignedNumberAfter l = true) :
    Lex ⟨.normal, [], T, l⟩ p.render ⟨.normal, p.render, T, lastOf l p.render⟩ := by
  cases hneg : p.neg with
  | true => exact lex_floatParts p hv T l (hl hneg)
  | false =>
    obtain ⟨hipne, hipd⟩ := hv.ip
    cases hip : p.ip with
    | nil => exact absurd hip hipne
    | cons d r =>
      have hm : p.mant = [] ++ (d :: (r ++ fracText p.fp)) := by simp [FloatParts.mant, hneg, hip]
      have hdp : ∀ c ∈ d :: (r ++ fracText p.fp), isSpecial c = false := by
        intro c hc
        rw [List.mem_cons, List.mem_append] at hc
        rcases hc with rfl | hc | hc
        · exact digits_plain p.ip hipd c (by rw [hip]; simp)
        · exact digits_plain p.ip hipd c (by rw [hip]; simp [hc])
        · exact fracText_plain p.fp hv.fp c hc
      have h2 := lex_float_rest p hv T [] (d :: (r ++ fracText p.fp)) l hm hdp
      have hr : p.render = (d :: (r ++ fracText p.fp)) ++ expText p.ex := by
        simp [FloatParts.render, hm]
      rw [← hr] at h2
      exact h2

theorem floatParts_negStart (p : FloatParts) (hv : p.Valid) : negStart p.render = p.neg := by
  obtain ⟨hipne, hipd⟩ := hv.ip
  cases hip : p.ip with
  | nil => exact absurd hip hipne
  | cons d r =>
    have hdd : isDig d = true := hipd d (by rw [hip]; simp)
    have hdm : d ≠ '-' := (isDig_facts d hdd).2.2.2.2.2.2.1
    cases hneg : p.neg <;> simp [negStart, FloatParts.render, FloatParts.mant, hneg, hip, hdm]

/-- **a word is read as one pending atom** — when it starts with a sign, the rune before it must
be one after which a signed number may start -/
theorem lex_word {w : List Char} (hw : WordText w) (T : List Token) (l : Char)
    (hl : negStart w = true → canStartSignedNumberAfter l = true) :
    LexP (.norm []) T l w (.norm w) T (lastOf l w) := by
  apply LexP.of_Lex
  cases hw with
  | plain w hne hp hd =>
    have := lex_plain_run w hp [] T l
    simpa [lastOf] using this
  | neg d r hd hp ht =>
    have h1 := lex_minus_digit T l d (hl (by simp [negStart])) hd
    have h2 := lex_plain_run r hp ['-', d] T d
    have := Lex.trans h1 h2
    simpa [lastOf] using this
  | float p hv =>
    exact lex_floatParts' p hv T l (fun hn => hl (by rw [floatParts_negStart p hv]; exact hn))

end ZygoVerif.Lexer
