/-
C06, Pratt loop = stratified grammar, part 6: the fuel of the executable models always suffices.

`Model/Pratt.lean` and `Spec/Stratified.lean` are fuel-indexed so that they are total; the
outcome `none` therefore stands both for an error return of pratt.go and for "fuel exhausted".
This file proves that with the fuel the driver uses (`Pratt.fuelFor`, `Stratified.fuelFor`,
`ts.length + 1` for the statement loop of the specification) the second meaning never occurs:

  * `Pratt.stable_step` — a termination measure: every recursive call of `expr`/`loop`/
    `prattOne`/`normSelector` is on a token list of strictly smaller weight `pwList` (the loop
    consumes a token per round; a selector `[…]` recurses into its parts, which weigh less than
    the token; `splitColonTailSelectorSymbols` makes a label two tokens, so a label weighs 2),
    hence once the fuel exceeds the weight one more unit of fuel changes NOTHING — neither a
    result nor a `none`;
  * `Pratt.expr_fuelFor`, `Pratt.expandArray_fuelFor` — `fuelFor ts ≥ pwList ts + 2`;
  * `Stratified.stable_step`, `strat_fuelFor`, `statements_fuel` — the same for the specification
    (measure: `sizeList ts * (levels + 3) + levels still to descend`).
-/
import ZygoVerif.Proofs.PrattStratBlock
namespace ZygoVerif.Pratt

/-! ## Pratt: the measure -/

mutual
/-- weight of a token for the Pratt loop: what the loop can spend on it -/
def pw : Sx → Nat
  | .arr xs => pwList xs + 2
  | .lab _ => 2
  | .sym _ => 1
  | .dot _ => 1
  | .lit _ => 1
  | .other _ _ => 1
  | .list _ => 1
  | .comma => 1
  | .semi => 1
  | .hash => 1
  | .null => 1
def pwList : List Sx → Nat
  | [] => 0
  | t :: ts => pw t + pwList ts
end

theorem pw_pos (t : Sx) : 1 ≤ pw t := by cases t <;> simp [pw]

theorem pwList_split (xs : List Sx) : pwList (splitColonTail xs) = pwList xs := by
  induction xs with
  | nil => rfl
  | cons a r ih => cases a <;> simp [splitColonTail, pwList, pw, ih] <;> omega

theorem pwList_append (a b : List Sx) : pwList (a ++ b) = pwList a + pwList b := by
  induction a with
  | nil => simp [pwList]
  | cons x r ih => simp [pwList, ih]; omega

theorem pwList_suffix {a b : List Sx} (h : a <:+ b) : pwList a ≤ pwList b := by
  obtain ⟨p, rfl⟩ := h
  rw [pwList_append]; omega

mutual
theorem pw_le_size : ∀ t : Sx, pw t ≤ 2 * t.size
  | .arr xs => by have := pwList_le_size xs; simp only [pw, Sx.size]; omega
  | .lab _ => by simp [pw, Sx.size]
  | .sym _ => by simp [pw, Sx.size]
  | .dot _ => by simp [pw, Sx.size]
  | .lit _ => by simp [pw, Sx.size]
  | .other _ _ => by simp [pw, Sx.size]
  | .list _ => by simp only [pw, Sx.size]; omega
  | .comma => by simp [pw, Sx.size]
  | .semi => by simp [pw, Sx.size]
  | .hash => by simp [pw, Sx.size]
  | .null => by simp [pw, Sx.size]
theorem pwList_le_size : ∀ ts : List Sx, pwList ts ≤ 2 * sizeList ts
  | [] => by simp [pwList]
  | t :: ts => by have := pw_le_size t; have := pwList_le_size ts; simp only [pwList, sizeList]; omega
end

/-- the colon of a slice is a token of its own: both parts weigh strictly less than the selector -/
theorem pwList_colon_parts (l : List Sx) (h : countNamed ":" l ≥ 1) :
    pwList (l.takeWhile (fun t => !t.isNamed ":")) + 1 ≤ pwList l ∧
    pwList (l.dropWhile (fun t => !t.isNamed ":")).tail + 1 ≤ pwList l := by
  have happ := pwList_append (l.takeWhile (fun t => !t.isNamed ":")) (l.dropWhile (fun t => !t.isNamed ":"))
  rw [List.takeWhile_append_dropWhile] at happ
  cases hd : l.dropWhile (fun t => !t.isNamed ":") with
  | nil =>
    exfalso
    have hall : ∀ (l : List Sx), l.dropWhile (fun t => !t.isNamed ":") = [] → l.filter (fun t => t.isNamed ":") = [] := by
      intro l
      induction l with
      | nil => intro _; rfl
      | cons a r ih =>
        intro h
        by_cases ha : a.isNamed ":" = true
        · simp [List.dropWhile, ha] at h
        · have ha' : a.isNamed ":" = false := by simpa using ha
          simp only [List.dropWhile, ha', Bool.not_false] at h
          simp only [List.filter, ha']
          exact ih h
    simp [countNamed, hall l hd] at h
  | cons d rest =>
    rw [hd] at happ
    have := pw_pos d
    simp only [pwList, List.tail_cons] at happ ⊢
    omega

/-! ## Pratt: past the measure, one more unit of fuel changes nothing -/

theorem stable_step (T : Table) (hc : okNudB T (.sym ":") = true) : ∀ f,
    (∀ rbp st ts, fragList (okNudB T) ts = true → pwList ts + 1 ≤ f → expr T (f + 1) rbp st ts = expr T f rbp st ts) ∧
    (∀ rbp left st ts, fragList (okNudB T) ts = true → pwList ts + 1 ≤ f →
      loop T (f + 1) rbp left st ts = loop T f rbp left st ts) ∧
    (∀ ts, fragList (okNudB T) ts = true → pwList ts + 2 ≤ f → prattOne T (f + 1) ts = prattOne T f ts) ∧
    (∀ t, fragTok (okNudB T) t = true → pw t ≤ f → normSelector T (f + 1) t = normSelector T f t) := by
  intro f
  induction f with
  | zero =>
    refine ⟨fun _ _ _ _ h => by omega, fun _ _ _ _ _ h => by omega, fun _ _ h => by omega, fun t _ h => ?_⟩
    have := pw_pos t; omega
  | succ f ih =>
    obtain ⟨ihE, ihL, ihO, ihS⟩ := ih
    refine ⟨?_, ?_, ?_, ?_⟩
    · intro rbp st ts hfr hw
      cases ts with
      | nil => rw [expr.eq_2, expr.eq_2]
      | cons t ts =>
        have hfr' := frag_tail hfr
        have hok := fragList_OKs T _ hfr
        have hpos := pw_pos t
        simp only [pwList] at hw
        rw [expr.eq_3, expr.eq_3]
        rcases hok t (by simp) with hn | ⟨n, r0, hn⟩
        · rw [hn]
          exact ihL _ _ _ _ hfr' (by omega)
        · rw [hn]
          simp only
          rw [ihE r0 st ts hfr' (by omega)]
          cases hx : expr T f r0 st ts with
          | none => rfl
          | some p =>
            obtain ⟨x, st1, ts1⟩ := p
            simp only
            obtain ⟨_, hs, _⟩ := expr_res hfr' hx
            have := pwList_suffix hs
            exact ihL _ _ _ _ (frag_suffix hfr' hs) (by omega)
    · intro rbp left st ts hfr hw
      cases ts with
      | nil => rw [loop.eq_2, loop.eq_2]
      | cons t ts =>
        have hfr' := frag_tail hfr
        have hft := frag_head hfr
        have hpos := pw_pos t
        simp only [pwList] at hw
        rw [loop.eq_3, loop.eq_3]
        cases hl : lbp T t with
        | none => rfl
        | some l =>
          simp only
          by_cases hge : rbp ≥ l
          · rw [if_pos hge, if_pos hge]
          · rw [if_neg hge, if_neg hge]
            cases hled : ledOf T t with
            | bin name r0 =>
              simp only
              rw [ihE r0 st ts hfr' (by omega)]
              cases hx : expr T f r0 st ts with
              | none => rfl
              | some p =>
                obtain ⟨x, st1, ts1⟩ := p
                simp only
                obtain ⟨_, hs, _⟩ := expr_res hfr' hx
                have := pwList_suffix hs
                exact ihL _ _ _ _ (frag_suffix hfr' hs) (by omega)
            | post name => exact ihL _ _ _ _ hfr' (by omega)
            | field => exact ihL _ _ _ _ hfr' (by omega)
            | drop => exact ihL _ _ _ _ hfr' (by omega)
            | index =>
              simp only
              rw [ihS t hft (by omega)]
              cases hs : normSelector T f t with
              | none => rfl
              | some sel => exact ihL _ _ _ _ hfr' (by omega)
    · intro ts hfr hw
      rw [prattOne.eq_2, prattOne.eq_2, ihE 0 (staleOf ts) ts hfr (by omega)]
    · intro t hft hw
      cases t with
      | arr xs =>
        have htoks := fragList_split T hc xs (fragTok_arr _ xs hft)
        have hbef : fragList (okNudB T) (List.takeWhile (fun t => !t.isNamed ":") (splitColonTail xs)) = true :=
          fragList_sublist _ _ _ htoks (fun a ha => (List.takeWhile_sublist _).subset ha)
        have haft : fragList (okNudB T) (List.dropWhile (fun t => !t.isNamed ":") (splitColonTail xs)).tail = true :=
          fragList_sublist _ _ _ htoks (fun a ha => (List.dropWhile_sublist _).subset (List.mem_of_mem_tail ha))
        have hsplit := pwList_split xs
        simp only [pw] at hw
        rw [normSelector.eq_2, normSelector.eq_2]
        by_cases h1 : countNamed ":" (splitColonTail xs) > 1
        · rw [if_pos h1, if_pos h1]
        · rw [if_neg h1, if_neg h1]
          by_cases h2 : (countNamed ":" (splitColonTail xs) == 1) = true
          · rw [if_pos h2, if_pos h2]
            have hcnt : countNamed ":" (splitColonTail xs) ≥ 1 := by
              have := beq_iff_eq.1 h2; omega
            obtain ⟨hb, ha⟩ := pwList_colon_parts _ hcnt
            simp only
            rw [ihO _ hbef (by omega), ihO _ haft (by omega)]
          · rw [if_neg h2, if_neg h2]
            by_cases h3 : (splitColonTail xs).length ≤ 1
            · rw [if_pos h3, if_pos h3]
            · rw [if_neg h3, if_neg h3]
              rw [ihE 0 _ _ htoks (by omega)]
      | _ => simp only [normSelector]

/-- from the measure on, the result (a tree or an error) no longer depends on the fuel -/
theorem stable (T : Table) (hc : okNudB T (.sym ":") = true) {f f' : Nat} (hle : f ≤ f') :
    (∀ rbp st ts, fragList (okNudB T) ts = true → pwList ts + 1 ≤ f → expr T f' rbp st ts = expr T f rbp st ts) ∧
    (∀ rbp left st ts, fragList (okNudB T) ts = true → pwList ts + 1 ≤ f →
      loop T f' rbp left st ts = loop T f rbp left st ts) ∧
    (∀ ts, fragList (okNudB T) ts = true → pwList ts + 2 ≤ f → prattOne T f' ts = prattOne T f ts) ∧
    (∀ t, fragTok (okNudB T) t = true → pw t ≤ f → normSelector T f' t = normSelector T f t) := by
  induction hle with
  | refl => exact ⟨fun _ _ _ _ _ => rfl, fun _ _ _ _ _ _ => rfl, fun _ _ _ => rfl, fun _ _ _ => rfl⟩
  | @step m hm ih =>
    obtain ⟨a, b, c, d⟩ := ih
    obtain ⟨a', b', c', d'⟩ := stable_step T hc m
    have hfm : f ≤ m := hm
    exact ⟨fun rbp st ts hf hw => (a' rbp st ts hf (by omega)).trans (a rbp st ts hf hw),
      fun rbp left st ts hf hw => (b' rbp left st ts hf (by omega)).trans (b rbp left st ts hf hw),
      fun ts hf hw => (c' ts hf (by omega)).trans (c ts hf hw),
      fun t hf hw => (d' t hf (by omega)).trans (d t hf hw)⟩

theorem fuelFor_ge (ts : List Sx) : pwList ts + 2 ≤ fuelFor ts := by
  have := pwList_le_size ts
  unfold fuelFor; omega

/-- **`fuelFor` suffices for `Expression`**: whatever fuel `f ≥ fuelFor ts` the model is run with, it returns
what it returns with `fuelFor ts` — the same tree and rest, or the same error. -/
theorem expr_fuelFor (T : Table) (hc : okNudB T (.sym ":") = true) (ts : List Sx) (hfr : fragList (okNudB T) ts = true)
    (rbp : Nat) (st : Sx) (f : Nat) (hf : fuelFor ts ≤ f) : expr T f rbp st ts = expr T (fuelFor ts) rbp st ts :=
  (stable T hc hf).1 rbp st ts hfr (by have := fuelFor_ge ts; omega)

/-- … in particular a result obtained with ANY fuel is the result with `fuelFor ts` … -/
theorem expr_fuelFor_some (T : Table) (hc : okNudB T (.sym ":") = true) (ts : List Sx) (hfr : fragList (okNudB T) ts = true)
    (rbp : Nat) (st : Sx) (f : Nat) (r : Sx × Sx × List Sx) (h : expr T f rbp st ts = some r) :
    expr T (fuelFor ts) rbp st ts = some r := by
  have g := (mono T hc (Nat.le_max_left f (fuelFor ts))).1 _ _ _ _ hfr h
  rw [expr_fuelFor T hc ts hfr rbp st _ (Nat.le_max_right f (fuelFor ts))] at g
  exact g

/-- … and a `none` with `fuelFor ts` is an error return of `Expression`, never a fuel shortage: no fuel gives a result. -/
theorem expr_fuelFor_none (T : Table) (hc : okNudB T (.sym ":") = true) (ts : List Sx) (hfr : fragList (okNudB T) ts = true)
    (rbp : Nat) (st : Sx) (h : expr T (fuelFor ts) rbp st ts = none) (f : Nat) : expr T f rbp st ts = none := by
  cases hx : expr T f rbp st ts with
  | none => rfl
  | some r => rw [expr_fuelFor_some T hc ts hfr rbp st f r hx] at h; cases h

/-! ## Pratt: the statement loop -/

theorem expandArray_stable_step (T : Table) (hc : okNudB T (.sym ":") = true) : ∀ (f : Nat) (st : Sx) (ts acc : List Sx),
    fragList (okNudB T) ts = true → noFor ts → pwList ts + 2 ≤ f →
    expandArray T (f + 1) st ts acc = expandArray T f st ts acc := by
  intro f
  induction f with
  | zero => intro _ _ _ _ _ h; omega
  | succ f ih =>
    intro st ts acc hfr hnf hw
    rw [expandArray_succ T (f + 1) st ts acc hnf, expandArray_succ T f st ts acc hnf]
    rw [(stable_step T hc f).1 0 st ts hfr (by omega)]
    cases hx : expr T f 0 st ts with
    | none => rfl
    | some p =>
      obtain ⟨x, st1, ts1⟩ := p
      simp only
      cases ts with
      | nil =>
        cases f with
        | zero => simp [expr] at hx
        | succ f => rw [expr.eq_2] at hx; cases hx; rfl
      | cons t ts' =>
        -- `Expression` consumes at least the first token
        have hlt : pwList ts1 + 1 ≤ pwList (t :: ts') ∧ ts1 <:+ (t :: ts') := by
          have hpos := pw_pos t
          cases f with
          | zero => simp [expr] at hx
          | succ f =>
            rw [expr.eq_3] at hx
            rcases fragList_OKs T _ hfr t (by simp) with hn | ⟨nm, r0, hn⟩
            · rw [hn] at hx
              have hs := (loop_res (frag_tail hfr) hx).2.1
              have := pwList_suffix hs
              exact ⟨by simp only [pwList]; omega, hs.trans (List.suffix_cons t ts')⟩
            · rw [hn] at hx
              simp only at hx
              cases hy : expr T f r0 st ts' with
              | none => rw [hy] at hx; cases hx
              | some q =>
                obtain ⟨y, st2, ts2⟩ := q
                rw [hy] at hx
                obtain ⟨rfl, hs2, _⟩ := expr_res (frag_tail hfr) hy
                have hs := (loop_res (frag_suffix (frag_tail hfr) hs2) hx).2.1
                have h1 := pwList_suffix hs
                have h2 := pwList_suffix hs2
                exact ⟨by simp only [pwList]; omega, (hs.trans hs2).trans (List.suffix_cons t ts')⟩
        obtain ⟨hlt, hs⟩ := hlt
        have hfr1 : fragList (okNudB T) ts1 = true := frag_suffix hfr hs
        have hnf1 : noFor ts1 := fun a ha => hnf a (hs.subset ha)
        cases ts1 with
        | nil => rfl
        | cons u us =>
          simp only
          by_cases hu : u.isSemi = true
          · rw [if_pos hu, if_pos hu]
            by_cases he : us.isEmpty = true
            · rw [if_pos he, if_pos he]
            · rw [if_neg he, if_neg he]
              have := pw_pos u
              have hcons : pwList (u :: us) = pw u + pwList us := by simp only [pwList]
              exact ih _ _ _ (frag_tail hfr1) (fun a ha => hnf1 a (by simp [ha])) (by omega)
          · rw [if_neg hu, if_neg hu]
            exact ih _ _ _ hfr1 hnf1 (by omega)

/-- **`fuelFor` suffices for `InfixExpandArray`**: with any fuel `f ≥ fuelFor ts` the model returns what it
returns with `fuelFor ts`. -/
theorem expandArray_fuelFor (T : Table) (hc : okNudB T (.sym ":") = true) (ts : List Sx) (hfr : fragList (okNudB T) ts = true)
    (hnf : noFor ts) (st : Sx) (acc : List Sx) (f : Nat) (hf : fuelFor ts ≤ f) :
    expandArray T f st ts acc = expandArray T (fuelFor ts) st ts acc := by
  induction hf with
  | refl => rfl
  | @step m hm ih =>
    have hfm : fuelFor ts ≤ m := hm
    rw [expandArray_stable_step T hc m st ts acc hfr hnf (by have := fuelFor_ge ts; omega), ih]

theorem expandArray_fuelFor_some (T : Table) (hc : okNudB T (.sym ":") = true) (ts : List Sx)
    (hfr : fragList (okNudB T) ts = true) (hnf : noFor ts) (st : Sx) (acc : List Sx) (f : Nat) (out : List Sx)
    (h : expandArray T f st ts acc = some out) : expandArray T (fuelFor ts) st ts acc = some out := by
  have g := expandArray_mono_le T hc (Nat.le_max_left f (fuelFor ts)) st ts acc out hfr hnf h
  rw [expandArray_fuelFor T hc ts hfr hnf st acc _ (Nat.le_max_right f (fuelFor ts))] at g
  exact g

end ZygoVerif.Pratt

/-! ## the specification: the measure -/

namespace ZygoVerif.Stratified
open ZygoVerif.Pratt (Sx sizeList countNamed)

theorem size_pos (t : Sx) : 1 ≤ t.size := by cases t <;> simp [Sx.size] <;> omega

theorem sizeList_append (a b : List Sx) : sizeList (a ++ b) = sizeList a + sizeList b := by
  induction a with
  | nil => simp [sizeList]
  | cons x r ih => simp [sizeList, ih]; omega

theorem sizeList_suffix {a b : List Sx} (h : a <:+ b) : sizeList a ≤ sizeList b := by
  obtain ⟨p, rfl⟩ := h
  rw [sizeList_append]; omega

theorem countNamed_cons_ge (n : String) (a : Sx) (l : List Sx) : countNamed n l ≤ countNamed n (a :: l) := by
  unfold countNamed
  rw [List.filter_cons]
  split <;> simp

theorem countNamed_colon_cons (l : List Sx) : countNamed ":" (Sx.sym ":" :: l) = countNamed ":" l + 1 := by
  unfold countNamed
  have : (Sx.sym ":").isNamed ":" = true := by decide
  rw [List.filter_cons, if_pos this]; rfl

/-- `splitColonTailSelectorSymbols` adds one token per colon it makes -/
theorem sizeList_split_le (xs : List Sx) :
    sizeList (Pratt.splitColonTail xs) ≤ sizeList xs + countNamed ":" (Pratt.splitColonTail xs) := by
  induction xs with
  | nil => simp [Pratt.splitColonTail, sizeList]
  | cons a r ih =>
    cases a with
    | lab n =>
      have h1 := countNamed_cons_ge ":" (Sx.sym n) (Sx.sym ":" :: Pratt.splitColonTail r)
      have h2 := countNamed_colon_cons (Pratt.splitColonTail r)
      simp only [Pratt.splitColonTail, sizeList, Sx.size]; omega
    | _ =>
      simp only [Pratt.splitColonTail, sizeList]
      refine Nat.le_trans ?_ (Nat.add_le_add_left (countNamed_cons_ge ":" _ (Pratt.splitColonTail r)) _)
      omega

theorem sizeList_colon_parts (l : List Sx) (h : countNamed ":" l ≥ 1) :
    sizeList (l.takeWhile (fun t => !t.isNamed ":")) + 1 ≤ sizeList l ∧
    sizeList (l.dropWhile (fun t => !t.isNamed ":")).tail + 1 ≤ sizeList l := by
  have happ := sizeList_append (l.takeWhile (fun t => !t.isNamed ":")) (l.dropWhile (fun t => !t.isNamed ":"))
  rw [List.takeWhile_append_dropWhile] at happ
  cases hd : l.dropWhile (fun t => !t.isNamed ":") with
  | nil =>
    exfalso
    have hall : ∀ (l : List Sx), l.dropWhile (fun t => !t.isNamed ":") = [] → l.filter (fun t => t.isNamed ":") = [] := by
      intro l
      induction l with
      | nil => intro _; rfl
      | cons a r ih =>
        intro h
        by_cases ha : a.isNamed ":" = true
        · simp [List.dropWhile, ha] at h
        · have ha' : a.isNamed ":" = false := by simpa using ha
          simp only [List.dropWhile, ha', Bool.not_false] at h
          simp only [List.filter, ha']
          exact ih h
    simp [countNamed, hall l hd] at h
  | cons d rest =>
    rw [hd] at happ
    have := size_pos d
    simp only [sizeList, List.tail_cons] at happ ⊢
    omega

/-- the unconsumed rest is a suffix of the input -/
theorem res_suffix (G : Grammar) : ∀ f,
    (∀ E lvls ts r, strat G E f lvls ts = some r → r.2 <:+ ts) ∧
    (∀ E lv rest x ts r, chain G E f lv rest x ts = some r → r.2 <:+ ts) ∧
    (∀ E ts r, operand G E f ts = some r → r.2 <:+ ts) := by
  intro f
  induction f with
  | zero =>
    exact ⟨fun _ _ _ _ h => by simp [strat] at h, fun _ _ _ _ _ _ h => by simp [chain] at h,
      fun _ _ _ h => by simp [operand] at h⟩
  | succ f ih =>
    obtain ⟨ihS, ihC, ihO⟩ := ih
    refine ⟨?_, ?_, ?_⟩
    · intro E lvls ts r h
      cases lvls with
      | nil => rw [strat.eq_2] at h; exact ihO _ _ _ h
      | cons lv rest =>
        rw [strat.eq_3] at h
        cases hx : strat G E f rest ts with
        | none => rw [hx] at h; cases h
        | some p =>
          obtain ⟨x, ts1⟩ := p
          rw [hx] at h
          exact (ihC _ _ _ _ _ _ h).trans (ihS _ _ _ _ hx)
    · intro E lv rest x ts r h
      cases ts with
      | nil => rw [chain.eq_2] at h; cases h; exact List.suffix_refl _
      | cons t ts =>
        rw [chain.eq_3] at h
        cases ha : actOf G lv t with
        | none => rw [ha] at h; cases h; exact List.suffix_refl _
        | some a =>
          rw [ha] at h
          cases a with
          | bin out =>
            simp only at h
            by_cases hr : lv.right = true
            · rw [if_pos hr] at h
              cases hy : strat G E f (lv :: rest) ts with
              | none => rw [hy] at h; cases h
              | some p =>
                rw [hy] at h; cases h
                exact (ihS _ _ _ _ hy).trans (List.suffix_cons t ts)
            · rw [if_neg hr] at h
              cases hy : strat G E f rest ts with
              | none => rw [hy] at h; cases h
              | some p =>
                obtain ⟨y, ts1⟩ := p
                rw [hy] at h
                exact ((ihC _ _ _ _ _ _ h).trans (ihS _ _ _ _ hy)).trans (List.suffix_cons t ts)
          | post name => exact (ihC _ _ _ _ _ _ h).trans (List.suffix_cons t ts)
          | field => exact (ihC _ _ _ _ _ _ h).trans (List.suffix_cons t ts)
          | drop => exact (ihC _ _ _ _ _ _ h).trans (List.suffix_cons t ts)
          | index =>
            simp only at h
            cases hs : selector G f t with
            | none => rw [hs] at h; cases h
            | some sel => rw [hs] at h; exact (ihC _ _ _ _ _ _ h).trans (List.suffix_cons t ts)
    · intro E ts r h
      cases ts with
      | nil => rw [operand.eq_2] at h; cases h; exact List.suffix_refl _
      | cons t ts =>
        rw [operand.eq_3] at h
        cases hp : prefixOf t G with
        | none => rw [hp] at h; cases h; exact List.suffix_cons t ts
        | some p =>
          obtain ⟨out, above⟩ := p
          rw [hp] at h
          simp only at h
          cases hx : strat G E f above ts with
          | none => rw [hx] at h; cases h
          | some q =>
            rw [hx] at h; cases h
            exact (ihS _ _ _ _ hx).trans (List.suffix_cons t ts)

/-- an expression consumes at least its first token -/
theorem strat_consumes (G : Grammar) : ∀ (f : Nat) (E : Sx) (lvls : Grammar) (t : Sx) (ts : List Sx) (r : Sx × List Sx),
    strat G E f lvls (t :: ts) = some r → r.2 <:+ ts := by
  intro f
  induction f with
  | zero => intro _ _ _ _ _ h; simp [strat] at h
  | succ f ih =>
    intro E lvls t ts r h
    cases lvls with
    | nil =>
      rw [strat.eq_2] at h
      cases f with
      | zero => simp [operand] at h
      | succ f =>
        rw [operand.eq_3] at h
        cases hp : prefixOf t G with
        | none => rw [hp] at h; cases h; exact List.suffix_refl _
        | some p =>
          obtain ⟨out, above⟩ := p
          rw [hp] at h
          simp only at h
          cases hx : strat G E f above ts with
          | none => rw [hx] at h; cases h
          | some q => rw [hx] at h; cases h; have := (res_suffix G f).1 _ _ _ _ hx; exact this
    | cons lv rest =>
      rw [strat.eq_3] at h
      cases hx : strat G E f rest (t :: ts) with
      | none => rw [hx] at h; cases h
      | some p =>
        obtain ⟨x, ts1⟩ := p
        rw [hx] at h
        exact ((res_suffix G f).2.1 _ _ _ _ _ _ h).trans (ih _ _ _ _ _ hx)

/-! ## the specification: past the measure, one more unit of fuel changes nothing -/

/-- Measure: `K = levels + 3` per unit of token size (a token is met by at most one descent through the
levels, one `operand`, one chain round, and — a selector — one fresh descent), plus the levels still to
descend. -/
theorem stable_step (G : Grammar) (K : Nat) (hK : G.length + 3 ≤ K) : ∀ f,
    (∀ E lvls ts, lvls.length ≤ G.length → sizeList ts * K + lvls.length + 2 ≤ f →
      strat G E (f + 1) lvls ts = strat G E f lvls ts) ∧
    (∀ E lv rest x ts, rest.length + 1 ≤ G.length → sizeList ts * K + rest.length + 2 ≤ f →
      chain G E (f + 1) lv rest x ts = chain G E f lv rest x ts) ∧
    (∀ E ts, sizeList ts * K + 1 ≤ f → operand G E (f + 1) ts = operand G E f ts) ∧
    (∀ ts, sizeList ts * K + G.length + 3 ≤ f → single G (f + 1) ts = single G f ts) ∧
    (∀ t, t.size * K + 1 ≤ f → selector G (f + 1) t = selector G f t) := by
  intro f
  induction f with
  | zero =>
    exact ⟨fun _ _ _ _ h => by omega, fun _ _ _ _ _ _ h => by omega, fun _ _ h => by omega, fun _ h => by omega,
      fun _ h => by omega⟩
  | succ f ih =>
    obtain ⟨ihS, ihC, ihO, ih1, ihSel⟩ := ih
    refine ⟨?_, ?_, ?_, ?_, ?_⟩
    · intro E lvls ts hl hw
      cases lvls with
      | nil =>
        simp only [List.length_nil] at hw
        rw [strat.eq_2, strat.eq_2]; exact ihO _ _ (by omega)
      | cons lv rest =>
        simp only [List.length_cons] at hl hw
        rw [strat.eq_3, strat.eq_3, ihS E rest ts (by omega) (by omega)]
        cases hx : strat G E f rest ts with
        | none => rfl
        | some p =>
          obtain ⟨x, ts1⟩ := p
          simp only
          have hs : ts1 <:+ ts := (res_suffix G f).1 _ _ _ _ hx
          have hm := Nat.mul_le_mul_right K (sizeList_suffix hs)
          exact ihC _ _ _ _ _ (by omega) (by omega)
    · intro E lv rest x ts hl hw
      cases ts with
      | nil => rw [chain.eq_2, chain.eq_2]
      | cons t ts =>
        have hpos : K ≤ t.size * K := Nat.le_mul_of_pos_left K (size_pos t)
        have hcons : sizeList (t :: ts) * K = t.size * K + sizeList ts * K := by
          simp only [sizeList]; exact Nat.add_mul _ _ _
        rw [hcons] at hw
        rw [chain.eq_3, chain.eq_3]
        cases ha : actOf G lv t with
        | none => rfl
        | some a =>
          cases a with
          | bin out =>
            simp only
            by_cases hr : lv.right = true
            · rw [if_pos hr, if_pos hr, ihS E (lv :: rest) ts (by simp only [List.length_cons]; omega)
                (by simp only [List.length_cons]; omega)]
            · rw [if_neg hr, if_neg hr, ihS E rest ts (by omega) (by omega)]
              cases hy : strat G E f rest ts with
              | none => rfl
              | some p =>
                obtain ⟨y, ts1⟩ := p
                simp only
                have hs : ts1 <:+ ts := (res_suffix G f).1 _ _ _ _ hy
                have hm := Nat.mul_le_mul_right K (sizeList_suffix hs)
                exact ihC _ _ _ _ _ hl (by omega)
          | post name => exact ihC _ _ _ _ _ hl (by omega)
          | field => exact ihC _ _ _ _ _ hl (by omega)
          | drop => exact ihC _ _ _ _ _ hl (by omega)
          | index =>
            simp only
            rw [ihSel t (by omega)]
            cases hs : selector G f t with
            | none => rfl
            | some sel => exact ihC _ _ _ _ _ hl (by omega)
    · intro E ts hw
      cases ts with
      | nil => rw [operand.eq_2, operand.eq_2]
      | cons t ts =>
        have hpos : K ≤ t.size * K := Nat.le_mul_of_pos_left K (size_pos t)
        have hcons : sizeList (t :: ts) * K = t.size * K + sizeList ts * K := by
          simp only [sizeList]; exact Nat.add_mul _ _ _
        rw [hcons] at hw
        rw [operand.eq_3, operand.eq_3]
        cases hp : prefixOf t G with
        | none => rfl
        | some p =>
          obtain ⟨out, above⟩ := p
          simp only
          have hab : above.length ≤ G.length := (Pratt.prefixOf_suffix t G out above hp).length_le
          rw [ihS E above ts hab (by omega)]
    · intro ts hw
      rw [single.eq_2, single.eq_2, ihS _ G ts (Nat.le_refl _) (by omega)]
    · intro t hw
      cases t with
      | arr xs =>
        have hA := sizeList_split_le xs
        rw [← splitColonTail_eq] at hA
        simp only [countNamed] at hA
        have hexp : (Sx.arr xs).size * K = K + sizeList xs * K := by
          simp only [Sx.size]; rw [Nat.add_mul, Nat.one_mul]
        rw [hexp] at hw
        rw [selector.eq_2, selector.eq_2]
        by_cases h1 : (List.filter (fun x => x.isNamed ":") (splitColonTail xs)).length > 1
        · rw [if_pos h1, if_pos h1]
        · rw [if_neg h1, if_neg h1]
          by_cases h2 : ((List.filter (fun x => x.isNamed ":") (splitColonTail xs)).length == 1) = true
          · rw [if_pos h2, if_pos h2]
            have h2' := beq_iff_eq.1 h2
            have hcnt : countNamed ":" (splitColonTail xs) ≥ 1 := by simp only [countNamed]; omega
            obtain ⟨hb, ha⟩ := sizeList_colon_parts _ hcnt
            have mb := Nat.mul_le_mul_right K
              (show sizeList (List.takeWhile (fun t => !t.isNamed ":") (splitColonTail xs)) ≤ sizeList xs by omega)
            have ma := Nat.mul_le_mul_right K
              (show sizeList (List.dropWhile (fun t => !t.isNamed ":") (splitColonTail xs)).tail ≤ sizeList xs by omega)
            simp only
            rw [ih1 _ (by omega), ih1 _ (by omega)]
          · rw [if_neg h2, if_neg h2]
            by_cases h3 : (splitColonTail xs).length ≤ 1
            · rw [if_pos h3, if_pos h3]
            · rw [if_neg h3, if_neg h3]
              have h2' : ¬ (List.filter (fun x => x.isNamed ":") (splitColonTail xs)).length = 1 := by
                intro hh; exact h2 (beq_iff_eq.2 hh)
              have mt := Nat.mul_le_mul_right K (show sizeList (splitColonTail xs) ≤ sizeList xs by omega)
              rw [ihS _ G _ (Nat.le_refl _) (by omega)]
      | _ => simp only [selector]

theorem fuelFor_ge (G : Grammar) (ts : List Sx) : sizeList ts * (G.length + 3) + G.length + 2 ≤ fuelFor G ts := by
  unfold fuelFor
  rw [Nat.add_mul]; omega

/-- **the specification's fuel suffices for one expression**: with any fuel `f ≥ fuelFor G ts` the stratified parser
returns what it returns with `fuelFor G ts` — the same tree and rest, or the same `none`. No fragment condition. -/
theorem strat_fuelFor (G : Grammar) (E : Sx) (ts : List Sx) (f : Nat) (hf : fuelFor G ts ≤ f) :
    strat G E f G ts = strat G E (fuelFor G ts) G ts := by
  induction hf with
  | refl => rfl
  | @step m hm ih =>
    have hfm : fuelFor G ts ≤ m := hm
    have := fuelFor_ge G ts
    rw [(stable_step G (G.length + 3) (Nat.le_refl _) m).1 E G ts (Nat.le_refl _) (by omega), ih]

theorem strat_fuelFor_some (G : Grammar) (E : Sx) (ts : List Sx) (f : Nat) (r : Sx × List Sx)
    (h : strat G E f G ts = some r) : strat G E (fuelFor G ts) G ts = some r := by
  have g := (mono G (Nat.le_max_left f (fuelFor G ts))).1 _ _ _ _ h
  rw [strat_fuelFor G E ts _ (Nat.le_max_right f (fuelFor G ts))] at g
  exact g

/-- a `none` of `parse` is a `none` with every fuel -/
theorem strat_fuelFor_none (G : Grammar) (E : Sx) (ts : List Sx) (h : strat G E (fuelFor G ts) G ts = none) (f : Nat) :
    strat G E f G ts = none := by
  cases hx : strat G E f G ts with
  | none => rfl
  | some r => rw [strat_fuelFor_some G E ts f r hx] at h; cases h

open ZygoVerif.Pratt (Stmts dropSemi dropSemi_suffix statements_succ) in
/-- **the statement loop of the specification never runs out of fuel**: the stratified statements of a block
are what `statements` returns with any fuel above the number of tokens (each statement consumes a token). -/
theorem statements_complete (G : Grammar) (E : Sx) (ts out : List Sx) (h : Stmts G E ts out) :
    ∀ f, ts.length + 1 ≤ f → statements G E f ts = some out := by
  induction h with
  | nil =>
    intro f hf
    cases f with
    | zero => omega
    | succ f => rw [statements.eq_2]
  | cons t ts x rest xs hss _ ih =>
    intro f hf
    cases f with
    | zero => omega
    | succ f =>
      obtain ⟨f0, h0⟩ := hss
      have hs : rest <:+ ts := strat_consumes G f0 E G t ts (x, rest) h0
      rw [statements_succ, strat_fuelFor_some G E (t :: ts) f0 (x, rest) h0]
      simp only
      have hl := ((dropSemi_suffix rest).trans hs).length_le
      simp only [List.length_cons] at hf
      rw [ih f (by omega)]
      rfl

end ZygoVerif.Stratified

/-! ## the concrete statement: the two executable functions, each with its own fuel, agree -/

namespace ZygoVerif.Pratt
open ZygoVerif.Stratified

/-- **Pratt = stratified, with the concrete fuel of both models**, for every table/grammar pair in correspondence
(`Corr`) and every token list of the fragment: `expression T 0 ts` — `Pratt.Expression(0)` as the driver runs it —
equals `Stratified.parse G ts`; both are a result, or both are `none` (and then no fuel gives either a result). -/
theorem expression_eq_parse_of_corr {T : Table} {G : Grammar} {bps : List Nat} (hC : Corr T G bps) (ts : List Sx)
    (hfr : Frag T G ts) : expression T 0 ts = Stratified.parse G ts := by
  have hcn := Corr.colonNud hC
  have hnf := hfr.nudFrag
  unfold expression Stratified.parse
  show Option.map (fun r => (r.1, r.2.2)) (expr T (fuelFor ts) 0 (staleOf ts) ts) =
    strat G (staleOf ts) (Stratified.fuelFor G ts) G ts
  cases hx : expr T (fuelFor ts) 0 (staleOf ts) ts with
  | none =>
    cases hy : strat G (staleOf ts) (Stratified.fuelFor G ts) G ts with
    | none => rfl
    | some r =>
      exfalso
      obtain ⟨f, hf⟩ := (pratt_iff_strat hC ts hfr (staleOf ts) r).2 ⟨_, hy⟩
      rw [expr_fuelFor_some T hcn ts hnf 0 (staleOf ts) f _ hf] at hx
      cases hx
  | some p =>
    obtain ⟨x, st1, ts1⟩ := p
    obtain ⟨rfl, _, _⟩ := expr_res hnf hx
    obtain ⟨f, hf⟩ := (pratt_iff_strat hC ts hfr (staleOf ts) (x, ts1)).1 ⟨_, hx⟩
    rw [strat_fuelFor_some G (staleOf ts) ts f (x, ts1) hf]
    rfl

/-- **the statements of a block, with the concrete fuel of both models** (table of the current tree, documented
levels): `expandBlock` = `parseBlock` — the same statement list, or both `none`. -/
theorem expandBlock_eq_parseBlock_frag (ts : List Sx) (hne : ts ≠ []) (hfr : Frag TG DG ts) (hnf : noFor ts) :
    expandBlock TG ts = parseBlock DG ts := by
  have hcn := Corr.colonNud corr_generated
  unfold expandBlock parseBlock
  show expandArray TG (fuelFor ts) (staleOf ts) ts [] = statements DG (staleOf ts) (ts.length + 1) ts
  cases hx : expandArray TG (fuelFor ts) (staleOf ts) ts [] with
  | some out =>
    obtain ⟨xs, hst, hout⟩ := (expandArray_iff (staleOf ts) ts hne hfr hnf [] out).1 ⟨_, hx⟩
    rw [List.nil_append] at hout
    subst hout
    rw [statements_complete DG (staleOf ts) ts out hst _ (Nat.le_refl _)]
  | none =>
    cases hy : statements DG (staleOf ts) (ts.length + 1) ts with
    | none => rfl
    | some o =>
      exfalso
      have hst := statements_sound _ _ _ _ _ hy
      obtain ⟨f, hf⟩ := (expandArray_iff (staleOf ts) ts hne hfr hnf [] o).2 ⟨o, hst, by simp⟩
      rw [expandArray_fuelFor_some TG hcn ts hfr.nudFrag hnf (staleOf ts) [] f o hf] at hx
      cases hx

end ZygoVerif.Pratt
