/-
C06, Pratt loop = stratified grammar, part 6: the fuel of the executable models always suffices.

`Model/Pratt.lean` and `Spec/Stratified.lean` are fuel-indexed so that they are total; the
outcome `none` therefore stands both for an error return of pratt.go and for "fuel exhausted".
This file proves that with the fuel the driver uses (`Pratt.fuelFor`, `Stratified.fuelFor`,
`ts.length + 1` for the statement loop of the specification) the second meaning never occurs:

  * `Pratt.stable_step` — a termination measure: every recursive call of `expr`/`loop`/
    `prattOne`/`normSelector` is on a token list of strictly smaller weight `pwList` (the loop
    consumes a token per round; a selector `[…]` recurses into its parts, which weigh less than
    the token; `splitColonTailSelectorSymbols` makes a label two tokens, so a label weighs 2),
    hence once the fuel exceeds the weight one more unit of fuel changes NOTHING — neither a
    result nor a `none`;
  * `Pratt.expr_fuelFor`, `Pratt.expandArray_fuelFor` — `fuelFor ts ≥ pwList ts + 2`;
  * `Stratified.stable_step`, `strat_fuelFor`, `statements_fuel` — the same for the specification
    (measure: `sizeList ts * (levels + 3) + levels still to descend`).
-/
import ZygoVerif.Proofs.PrattStratBlock
namespace ZygoVerif.Pratt

/-! ## Pratt: the measure -/

mutual
/-- weight of a token for the Pratt loop: what the loop can spend on it -/
def pw : Sx → Nat
  | .arr xs => pwList xs + 2
  | .lab _ => 2
  | .sym _ => 1
  | .dot _ => 1
  | .lit _ => 1
  | .other _ _ => 1
  | .list _ => 1
  | .comma => 1
  | .semi => 1
  | .hash => 1
  | .null => 1
def pwList : List Sx → Nat
  | [] => 0
  | t :: ts => pw t + pwList ts
end

theorem pw_pos (t : Sx) : 1 ≤ pw t := by cases t <;> simp [pw]

theorem pwList_split (xs : List Sx) : pwList (splitColonTail xs) = pwList xs := by
  induction xs with
  | nil => rfl
  | cons a r ih => cases a <;> simp [splitColonTail, pwList, pw, ih] <;> omega

theorem pwList_append (a b : List Sx) : pwList (a ++ b) = pwList a + pwList b := by
  induction a with
  | nil => simp [pwList]
  | cons x r ih => simp [pwList, ih]; omega

theorem pwList_suffix {a b : List Sx} (h : a <:+ b) : pwList a ≤ pwList b := by
  obtain ⟨p, rfl⟩ := h
  rw [pwList_append]; omega

mutual
theorem pw_le_size : ∀ t : Sx, pw t ≤ 2 * t.size
  | .arr xs => by have := pwList_le_size xs; simp only [pw, Sx.size]; omega
  | .lab _ => by simp [pw, Sx.size]
  | .sym _ => by simp [pw, Sx.size]
  | .dot _ => by simp [pw, Sx.size]
  | .lit _ => by simp [pw, Sx.size]
  | .other _ _ => by simp [pw, Sx.size]
  | .list _ => by simp only [pw, Sx.size]; omega
  | .comma => by simp [pw, Sx.size]
  | .semi => by simp [pw, Sx.size]
  | .hash => by simp [pw, Sx.size]
  | .null => by simp [pw, Sx.size]
theorem pwList_le_size : ∀ ts : List Sx, pwList ts ≤ 2 * sizeList ts
  | [] => by simp [pwList]
  | t :: ts => by have := pw_le_size t; have := pwList_le_size ts; simp only [pwList, sizeList]; omega
end

/-- the colon of a slice is a token of its own: both parts weigh strictly less than the selector -/
theorem pwList_colon_parts (l : List Sx) (h : countNamed ":" l ≥ 1) :
    pwList (l.takeWhile (fun t => !t.isNamed ":")) + 1 ≤ pwList l ∧
    pwList (l.dropWhile (fun t => !t.isNamed ":")).tail + 1 ≤ pwList l := by
  have happ := pwList_append (l.takeWhile (fun t => !t.isNamed ":")) (l.dropWhile (fun t => !t.isNamed ":"))
  rw [List.takeWhile_append_dropWhile] at happ
  cases hd : l.dropWhile (fun t => !t.isNamed ":") with
  | nil =>
    exfalso
    have hall : ∀ (l : List Sx), l.dropWhile (fun t => !t.isNamed ":") = [] → l.filter (fun t => t.isNamed ":") = [] := by
      intro l
      induction l with
      | nil => intro _; rfl
      | cons a r ih =>
        intro h
        by_cases ha : a.isNamed ":" = true
        · simp [List.dropWhile, ha] at h
        · have ha' : a.isNamed ":" = false := by simpa using ha
          simp only [List.dropWhile, ha', Bool.not_false] at h
          simp only [List.filter, ha']
          exact ih h
    simp [countNamed, hall l hd] at h
  | cons d rest =>
    rw [hd] at happ
    have := pw_pos d
    simp only [pwList, List.tail_cons] at happ ⊢
    omega

/-! ## Pratt: past the measure, one more unit of fuel changes nothing -/

theorem stable_step (T : Table) (hc : okNudB T (.sym ":") = true) : ∀ f,
    (∀ rbp st ts, fragList (okNudB T) ts = true → pwList ts + 1 ≤ f → expr T (f + 1) rbp st ts = expr T f rbp st ts) ∧
    (∀ rbp left st ts, fragList (okNudB T) ts = true → pwList ts + 1 ≤ f →
      loop T (f + 1) rbp left st ts = loop T f rbp left st ts) ∧
    (∀ ts, fragList (okNudB T) ts = true → pwList ts + 2 ≤ f → prattOne T (f + 1) ts = prattOne T f ts) ∧
    (∀ t, fragTok (okNudB T) t = true → pw t ≤ f → normSelector T (f + 1) t = normSelector T f t) := by
  intro f
  induction f with
  | zero =>
    refine ⟨fun _ _ _ _ h => by omega, fun _ _ _ _ _ h => by omega, fun _ _ h => by omega, fun t _ h => ?_⟩
    have := pw_pos t; omega
  | succ f ih =>
    obtain ⟨ihE, ihL, ihO, ihS⟩ := ih
    refine ⟨?_, ?_, ?_, ?_⟩
    · intro rbp st ts hfr hw
      cases ts with
      | nil => rw [expr.eq_2, expr.eq_2]
      | cons t ts =>
        have hfr' := frag_tail hfr
        have hok := fragList_OKs T _ hfr
        have hpos := pw_pos t
        simp only [pwList] at hw
        rw [expr.eq_3, expr.eq_3]
        rcases hok t (by simp) with hn | ⟨n, r0, hn⟩
        · rw [hn]
          exact ihL _ _ _ _ hfr' (by omega)
        · rw [hn]
          simp only
          rw [ihE r0 st ts hfr' (by omega)]
          cases hx : expr T f r0 st ts with
          | none => rfl
          | some p =>
            obtain ⟨x, st1, ts1⟩ := p
            simp only
            obtain ⟨_, hs, _⟩ := expr_res hfr' hx
            have := pwList_suffix hs
            exact ihL _ _ _ _ (frag_suffix hfr' hs) (by omega)
    · intro rbp left st ts hfr hw
      cases ts with
      | nil => rw [loop.eq_2, loop.eq_2]
      | cons t ts =>
        have hfr' := frag_tail hfr
        have hft := frag_head hfr
        have hpos := pw_pos t
        simp only [pwList] at hw
        rw [loop.eq_3, loop.eq_3]
        cases hl : lbp T t with
        | none => rfl
        | some l =>
          simp only
          by_cases hge : rbp ≥ l
          · rw [if_pos hge, if_pos hge]
          · rw [if_neg hge, if_neg hge]
            cases hled : ledOf T t with
            | bin name r0 =>
              simp only
              rw [ihE r0 st ts hfr' (by omega)]
              cases hx : expr T f r0 st ts with
              | none => rfl
              | some p =>
                obtain ⟨x, st1, ts1⟩ := p
                simp only
                obtain ⟨_, hs, _⟩ := expr_res hfr' hx
                have := pwList_suffix hs
                exact ihL _ _ _ _ (frag_suffix hfr' hs) (by omega)
            | post name => exact ihL _ _ _ _ hfr' (by omega)
            | field => exact ihL _ _ _ _ hfr' (by omega)
            | drop => exact ihL _ _ _ _ hfr' (by omega)
            | index =>
              simp only
              rw [ihS t hft (by omega)]
              cases hs : normSelector T f t with
              | none => rfl
              | some sel => exact ihL _ _ _ _ hfr' (by omega)
    · intro ts hfr hw
      rw [prattOne.eq_2, prattOne.eq_2, ihE 0 (staleOf ts) ts hfr (by omega)]
    · intro t hft hw
      cases t with
      | arr xs =>
        have htoks := fragList_split T hc xs (fragTok_arr _ xs hft)
        have hbef : fragList (okNudB T) (List.takeWhile (fun t => !t.isNamed ":") (splitColonTail xs)) = true :=
          fragList_sublist _ _ _ htoks (fun a ha => (List.takeWhile_sublist _).subset ha)
        have haft : fragList (okNudB T) (List.dropWhile (fun t => !t.isNamed ":") (splitColonTail xs)).tail = true :=
          fragList_sublist _ _ _ htoks (fun a ha => (List.dropWhile_sublist _).subset (List.mem_of_mem_tail ha))
        have hsplit := pwList_split xs
        simp only [pw] at hw
        rw [normSelector.eq_2, normSelector.eq_2]
        by_cases h1 : countNamed ":" (splitColonTail xs) > 1
        · rw [if_pos h1, if_pos h1]
        · rw [if_neg h1, if_neg h1]
          by_cases h2 : (countNamed ":" (splitColonTail xs) == 1) = true
          · rw [if_pos h2, if_pos h2]
            have hcnt : countNamed ":" (splitColonTail xs) ≥ 1 := by
              have := beq_iff_eq.1 h2; omega
            obtain ⟨hb, ha⟩ := pwList_colon_parts _ hcnt
            simp only
            rw [ihO _ hbef (by omega), ihO _ haft (by omega)]
          · rw [if_neg h2, if_neg h2]
            by_cases h3 : (splitColonTail xs).length ≤ 1
            · rw [if_pos h3, if_pos h3]
            · rw [if_neg h3, if_neg h3]
              rw [ihE 0 _ _ htoks (by omega)]
      | _ => simp only [normSelector]

/-- from the measure on, the result (a tree or an error) no longer depends on the fuel -/
theorem stable (T : Table) (hc : okNudB T (.sym ":") = true) {f f' : Nat} (hle : f ≤ f') :
    (∀ rbp st ts, fragList (okNudB T) ts = true → pwList ts + 1 ≤ f → expr T f' rbp st ts = expr T f rbp st ts) ∧
    (∀ rbp left st ts, fragList (okNudB T) ts = true → pwList ts + 1 ≤ f →
      loop T f' rbp left st ts = loop T f rbp left st ts) ∧
    (∀ ts, fragList (okNudB T) ts = true → pwList ts + 2 ≤ f → prattOne T f' ts = prattOne T f ts) ∧
    (∀ t, fragTok (okNudB T) t = true → pw t ≤ f → normSelector T f' t = normSelector T f t) := by
  induction hle with
  | refl => exact ⟨fun _ _ _ _ _ => rfl, fun _ _ _ _ _ _ => rfl, fun _ _ _ => rfl, fun _ _ _ => rfl⟩
  | @step m hm ih =>
    obtain ⟨a, b, c, d⟩ := ih
    obtain ⟨a', b', c', d'⟩ := stable_step T hc m
    have hfm : f ≤ m := hm
    exact ⟨fun rbp st ts hf hw => (a' rbp st ts hf (by omega)).trans (a rbp st ts hf hw),
      fun rbp left st ts hf hw => (b' rbp left st ts hf (by omega)).trans (b rbp left st ts hf hw),
      fun ts hf hw => (c' ts hf (by omega)).trans (c ts hf hw),
      fun t hf hw => (d' t hf (by omega)).trans (d t hf hw)⟩

theorem fuelFor_ge (ts : List Sx) : pwList ts + 2 ≤ fuelFor ts := by
  have := pwList_le_size ts
  unfold fuelFor; omega

/-- **`fuelFor` suffices for `Expression`**: whatever fuel `f ≥ fuelFor ts` the model is run with, it returns
what it returns with `fuelFor ts` — the same tree and rest, or the same error. -/
theorem expr_fuelFor (T : Table) (hc : okNudB T (.sym ":") = true) (ts : List Sx) (hfr : fragList (okNudB T) ts = true)
    (rbp : Nat) (st : Sx) (f : Nat) (hf : fuelFor ts ≤ f) : expr T f rbp st ts = expr T (fuelFor ts) rbp st ts :=
  (stable T hc hf).1 rbp st ts hfr (by have := fuelFor_ge ts; omega)

/-- … in particular a result obtained with ANY fuel is the result with `fuelFor ts` … -/
theorem expr_fuelFor_some (T : Table) (hc : okNudB T (.sym ":") = true) (ts : List Sx) (hfr : fragList (okNudB T) ts = true)
    (rbp : Nat) (st : Sx) (f : Nat) (r : Sx × Sx × List Sx) (h : expr T f rbp st ts = some r) :
    expr T (fuelFor ts) rbp st ts = some r := by
  have g := (mono T hc (Nat.le_max_left f (fuelFor ts))).1 _ _ _ _ hfr h
  rw [expr_fuelFor T hc ts hfr rbp st _ (Nat.le_max_right f (fuelFor ts))] at g
  exact g

/-- … and a `none` with `fuelFor ts` is an error return of `Expression`, never a fuel shortage: no fuel gives a result. -/
theorem expr_fuelFor_none (T : Table) (hc : okNudB T (.sym ":") = true) (ts : List Sx) (hfr : fragList (okNudB T) ts = true)
    (rbp : Nat) (st : Sx) (h : expr T (fuelFor ts) rbp st ts = none) (f : Nat) : expr T f rbp st ts = none := by
  cases hx : expr T f rbp st ts with
  | none => rfl
  | some r => rw [expr_fuelFor_some T hc ts hfr rbp st f r hx] at h; cases h

/-! ## Pratt: the statement loop -/

theorem expandArray_stable_step (T : Table) (hc : okNudB T (.sym ":") = true) : ∀ (f : Nat) (st : Sx) (ts acc : List Sx),
    fragList (okNudB T) ts = true → noFor ts → pwList ts + 2 ≤ f →
    expandArray T (f + 1) st ts acc = expandArray T f st ts acc := by
  intro f
  induction f with
  | zero => intro _ _ _ _ _ h; omega
  | succ f ih =>
    intro st ts acc hfr hnf hw
    rw [expandArray_succ T (f + 1) st ts acc hnf, expandArray_succ T f st ts acc hnf]
    rw [(stable_step T hc f).1 0 st ts hfr (by omega)]
    cases hx : expr T f 0 st ts with
    | none => rfl
    | some p =>
      obtain ⟨x, st1, ts1⟩ := p
      simp only
      cases ts with
      | nil =>
        cases f with
        | zero => simp [expr] at hx
        | succ f => rw [expr.eq_2] at hx; cases hx; rfl
      | cons t ts' =>
        -- `Expression` consumes at least the first token
        have hlt : pwList ts1 + 1 ≤ pwList (t :: ts') ∧ ts1 <:+ (t :: ts') := by
          have hpos := pw_pos t
          cases f with
          | zero => simp [expr] at hx
          | succ f =>
            rw [expr.eq_3] at hx
            rcases fragList_OKs T _ hfr t (by simp) with hn | ⟨nm, r0, hn⟩
            · rw [hn] at hx
              have hs := (loop_res (frag_tail hfr) hx).2.1
              have := pwList_suffix hs
              exact ⟨by simp only [pwList]; omega, hs.trans (List.suffix_cons t ts')⟩
            · rw [hn] at hx
              simp only at hx
              cases hy : expr T f r0 st ts' with
              | none => rw [hy] at hx; cases hx
              | some q =>
                obtain ⟨y, st2, ts2⟩ := q
                rw [hy] at hx
                obtain ⟨rfl, hs2, _⟩ := expr_res (frag_tail hfr) hy
                have hs := (loop_res (frag_suffix (frag_tail hfr) hs2) hx).2.1
                have h1 := pwList_suffix hs
                have h2 := pwList_suffix hs2
                exact ⟨by simp only [pwList]; omega, (hs.trans hs2).trans (List.suffix_cons t ts')⟩
        obtain ⟨hlt, hs⟩ := hlt
        have hfr1 : fragList (okNudB T) ts1 = true := frag_suffix hfr hs
        have hnf1 : noFor ts1 := fun a ha => hnf a (hs.subset ha)
        cases ts1 with
        | nil => rfl
        | cons u us =>
          simp only
          by_cases hu : u.isSemi = true
          · rw [if_pos hu, if_pos hu]
            by_cases he : us.isEmpty = true
            · rw [if_pos he, if_pos he]
            · rw [if_neg he, if_neg he]
              have := pw_pos u
              have hcons : pwList (u :: us) = pw u + pwList us := by simp only [pwList]
              exact ih _ _ _ (frag_tail hfr1) (fun a ha => hnf1 a (by simp [ha])) (by omega)
          · rw [if_neg hu, if_neg hu]
            exact ih _ _ _ hfr1 hnf1 (by omega)

/-- **`fuelFor` suffices for `InfixExpandArray`**: with any fuel `f ≥ fuelFor ts` the model returns what it
returns with `fuelFor ts`. -/
theorem expandArray_fuelFor (T : Table) (hc : okNudB T (.sym ":") = true) (ts : List Sx) (hfr : fragList (okNudB T) ts = true)
    (hnf : noFor ts) (st : Sx) (acc : List Sx) (f : Nat) (hf : fuelFor ts ≤ f) :
    expandArray T f st ts acc = expandArray T (fuelFor ts) st ts acc := by
  induction hf with
  | refl => rfl
  | @step m hm ih =>
    have hfm : fuelFor ts ≤ m := hm
    rw [expandArray_stable_step T hc m st ts acc hfr hnf (by have := fuelFor_ge ts; omega), ih]

theorem expandArray_fuelFor_some (T : Table) (hc : okNudB T (.sym ":") = true) (ts : List Sx)
    (hfr : fragList (okNudB T) ts = true) (hnf : noFor ts) (st : Sx) (acc : List Sx) (f : Nat) (out : List Sx)
    (h : expandArray T f st ts acc = some out) : expandArray T (fuelFor ts) st ts acc = some out := by
  have g := expandArray_mono_le T hc (Nat.le_max_left f (fuelFor ts)) st ts acc out hfr hnf h
  rw [expandArray_fuelFor T hc ts hfr hnf st acc _ (Nat.le_max_right f (fuelFor ts))] at g
  exact g

end ZygoVerif.Pratt
