/-
C02, execution half — F2 with `break`/`continue`: the segment lemma, program texts.
-/
import ZygoVerif.Proofs.SimF2Ind
import ZygoVerif.Proofs.SimF2Top
set_option linter.unusedSimpArgs false
set_option linter.unusedVariables false
namespace ZygoVerif.Sim
open ZygoVerif.Core ZygoVerif.VM

theorem xclaims (n : Nat) : XClaimE n ∧ XClaimB n ∧ XClaimC n ∧ XClaimN n ∧ XClaimF n := by
  obtain ⟨_, _, _, _, _, _, _, _, _, _, _, _, _, _, _, _, h1, h2, h3, h4, h5, _⟩ := fclaims n
  exact ⟨h1, h2, h3, h4, h5⟩

/-- **Segment lemma for statement lists with `break`/`continue`** (inside the loops `Γ`). -/
theorem segment_Fx_begin (ls : List (Option String)) (self : String) (es : List Expr) (hne : es ≠ []) (he : FxList ls self es = true)
    (isFn : Nat → Bool) (c : Ctx) (hfn : FnameOk self c) (gs : GS) (r : (List Instr × Bool) × GS)
    (hc : (compileBegin isFn c es).run gs = .ok r) (Γ : List LCtx) (hls : Γ.map (·.label) = ls) (hg : GsOk Γ gs)
    (m : Nat → Nat) (s : St) (rs : Ref.St) (env : Nat)
    (pre post : List Instr) (hrel : RelF m s rs env) (hgen : GenOk gs r.2 s) (hctx : CtxF Γ c.scopes s rs)
    (hlf : LoopsFinal r.2 s) (hlo : LsOut pre gs.loops.length r.2.loops.length) (hseg : Seg s pre r.1.1 post)
    (n : Nat) : SimX r.1.1 Γ m s rs env (Ref.evalBegin n es env rs) :=
  (xclaims n).2.1 ls self es hne he isFn c gs r hc hfn Γ hls hg m s rs env pre post hrel hgen hctx hlf hlo hseg

/-! ## Program texts -/

/-- the program texts of F2 with loops that `break`/`continue` -/
def FxTop (p : List Expr) : Bool := FxList [] "" p

/-- **A non-empty program text of F2 with `break`/`continue`, loaded and run** from a resting
top-level state related to the reference state: `runText` reports what the reference evaluator yields. -/
theorem runText_Fx (m : Nat → Nat) (s : St) (rs : Ref.St) (p : List Expr) (hne : p ≠ []) (hp : FxTop p = true)
    (hs : AtRest s) (hlin : s.linear = [some 0]) (hstack : s.loopstack = [])
    (hold : ∀ l, Instr.loopStart l ∈ (fnOf s mainFn).code → l < s.loops.length)
    (hrel : RelF m s rs 0) (n : Nat) :
    ∃ N, ∀ fuel, N ≤ fuel → TextOut (runText fuel p s) (Ref.evalBegin n p 0 { rs with trace := [] }) := by
  have hg0 : GsOk [] { fns := s.fns, loops := s.loops, loopstack := s.loopstack, live := s.linear } :=
    ⟨by simp [hstack], fun _ h => by cases h⟩
  obtain ⟨code, t, gs', hc, -, hk, hls⟩ := compileBegin_total_Fx [] "" p hne hp (isFnScope (clearTrace s)) {}
    { fns := s.fns, loops := s.loops, loopstack := s.loopstack, live := s.linear } [] (Or.inl rfl) hg0 rfl
  have hload : (runGen (compileBegin (isFnScope (clearTrace s)) {} p)).run (clearTrace s)
      = (.ok (code, t), withGen (clearTrace s) gs') := run_runGen_gen _ (clearTrace s) _ gs' hc
  -- the loaded state
  have hsz : curSize (clearTrace s) = ((fnOf s mainFn).code.length : Int) := by
    show (if (fnOf s s.curfunc).user then (0 : Int) else ((fnOf s s.curfunc).code.length : Int)) = _
    rw [hs.cur, hs.user]; rfl
  have hpre : (if (clearTrace s).pc ≥ curSize (clearTrace s) then ([] : List Instr) else [.pop]) = [] :=
    if_pos (by rw [hsz]; show s.pc ≥ _; rw [hs.pc]; exact Int.le_refl _)
  have hmain' : gs'.fns.getD mainFn {} = fnOf s mainFn := hk.fns mainFn hs.main
  have hmlt : mainFn < gs'.fns.length := Nat.lt_of_lt_of_le hs.main hk.len
  have hfmain : fnOf (loadedF s gs' code) mainFn = { fnOf s mainFn with code := (fnOf s mainFn).code ++ code } := by
    rw [fnOf_loadedF, hpre, hmain']
    simp only [List.getElem?_set_self hmlt, Option.getD_some, List.append_nil]
  have hfother : ∀ id, id ≠ mainFn → fnOf (loadedF s gs' code) id = gs'.fns.getD id {} := fun id hid => by
    rw [fnOf_loadedF, List.getElem?_set_ne (fun e => hid e.symm), List.getD_eq_getElem?_getD]
  have hseg : Seg (loadedF s gs' code) (fnOf s mainFn).code code [] :=
    ⟨by show (fnOf (loadedF s gs' code) mainFn).user = false; rw [hfmain]; exact hs.user,
     by show (fnOf (loadedF s gs' code) mainFn).code = _; rw [hfmain]; simp, hs.pc⟩
  have hlenL : (loadedF s gs' code).fns.length = gs'.fns.length := by
    show (List.set gs'.fns mainFn _).length = _; simp
  have hkeep : FnsKeep s (loadedF s gs' code) :=
    ⟨by rw [hlenL]; exact hk.len, fun id hid hne' => by rw [hfother id hne']; exact hk.fns id hid,
     by rw [hfmain], by rw [hfmain], ⟨hk.loopsLen, hk.loopsGet⟩⟩
  have hrelL : RelF m (loadedF s gs' code) { rs with trace := [] } 0 :=
    hrel.load rfl rfl hs.cur.symm rfl rfl hkeep
  have hgen : GenOk { fns := s.fns, loops := s.loops, loopstack := s.loopstack, live := s.linear } gs' (loadedF s gs' code) :=
    ⟨hlin, hs.main, by rw [hlenL]; exact Nat.le_refl _,
     fun t' h1 _ => hfother t' (by have := hs.main; simp only at h1; omega), ⟨Nat.le_refl _, fun _ _ _ => rfl⟩⟩
  have hloops : (loadedF s gs' code).loops = gs'.loops := rfl
  have hsim := segment_Fx_begin [] "" p hne hp _ {} (Or.inl rfl) _ ((code, t), gs') hc [] rfl hg0 m (loadedF s gs' code)
    { rs with trace := [] } 0 (fnOf s mainFn).code [] hrelL hgen (fun _ h => by cases h)
    ⟨by rw [hloops]; exact Nat.le_refl _, fun id _ _ => by rw [hloops]⟩
    (fun l hl => Or.inl (hold l hl)) hseg n
  cases hres : Ref.evalBegin n p 0 { rs with trace := [] } with
  | ok v' rs' =>
    rw [hres] at hsim
    obtain ⟨s1, m1, v, r, l, hv, rel1, -, -, -, -⟩ := hsim
    obtain ⟨N, hN⟩ := run_of_landsE hseg r l
    refine ⟨N, fun fuel hf => ?_⟩
    refine ⟨s1.jmp s1.pc (loadedF s gs' code).data, depths (s1.jmp s1.pc (loadedF s gs' code).data), ?_⟩
    have e : loadState (clearTrace s) (withGen (clearTrace s) gs') code = loadedF s gs' code := rfl
    rw [runText_eq]
    simp only [hload, e, hN fuel hf]
    have hpr : pr (s1.jmp s1.pc (loadedF s gs' code).data).heap v = pr rs'.heap v' := by
      rw [hv, rel1.heap]; exact (pr_tr m1 id id s1.heap v).symm
    rw [hpr, show (s1.jmp s1.pc (loadedF s gs' code).data).trace = rs'.trace from rel1.trace]
  | err rs' =>
    rw [hres] at hsim
    obtain ⟨N, hN⟩ := run_of_failsE hsim
    refine ⟨N, fun fuel hf => ?_⟩
    obtain ⟨sf, hrun, htr⟩ := hN fuel hf
    refine ⟨sf, depths sf, ?_⟩
    have e : loadState (clearTrace s) (withGen (clearTrace s) gs') code = loadedF s gs' code := rfl
    rw [runText_eq]
    simp only [hload, e, hrun, htr]
  | timeout => exact ⟨0, fun _ _ => trivial⟩
  | brk l rs' =>
    rw [hres] at hsim
    obtain ⟨γ, hγ, _⟩ := hsim
    cases l <;> simp [findCtx] at hγ
  | cont l rs' =>
    rw [hres] at hsim
    obtain ⟨γ, hγ, _⟩ := hsim
    cases l <;> simp [findCtx] at hγ

end ZygoVerif.Sim
