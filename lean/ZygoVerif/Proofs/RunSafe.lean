/-
Proofs/RunSafe.lean — no host panic, and no nil cell where code continues.

A third pass over the VM's mutual block, by induction on the fuel (`sSpec`), next to the calling
contract for normal returns (`allSpec'`) and for errors (`errSpec`): from a state that satisfies
the table invariant, whose stacks hold no nil cell and whose scope stack is not empty (`NoNil`), no
function of the mutual block ends in a host panic, and when it returns normally the state is `NoNil`
again. Nil cells only come from `restoreControlState` growing a stack; on the way of a normal
return every restore is exact (`restoreSt_same`), and after an error nothing runs any more
(every evaluator re-raises), so the padding `Run`'s restore may leave never meets an instruction.
The host panics of the model are: a nil cell under a typed pop, a nil return address, a bind on
an empty scope stack.
-/
import ZygoVerif.Proofs.RunErr
import ZygoVerif.Proofs.C01VM
set_option linter.unusedSimpArgs false
set_option linter.unusedVariables false
namespace ZygoVerif.RunInv
open ZygoVerif.Core ZygoVerif.VM ZygoVerif.Bal ZygoVerif.Refine ZygoVerif.TailVM ZygoVerif.Sim ZygoVerif.Contain

/-- no nil cell on any stack, a scope to bind in, and every lazy argument still to be forced
captured a non-empty scope stack -/
structure NoNil (s : St) : Prop where
  good : VMSafe.Good s
  lin : s.linear ≠ []
  lz : ∀ z ∈ s.lazies, z.value = none → z.stack ≠ []

theorem NoNil.lzok {s : St} (h : NoNil s) : LzOK s := ⟨h.good.lazies, h.lz⟩

/-- `m` does not end in a host panic from `s`, and if it returns normally the state is `NoNil` -/
def Safe {α} (m : M α) (s : St) : Prop :=
  ∀ r s', m.run s = (r, s') → r ≠ .error .panic ∧ (∀ a, r = .ok a → NoNil s')

theorem simple_isCall (i : Instr) (h : simple i = true) : VMSafe.isCall i = false := by
  cases i <;> first | rfl | cases h

/-! ## The lazy-argument table under a non-call instruction -/

def Lz (s s' : St) : Prop := s'.lazies = s.lazies

theorem lz_bind {α β} {m : M α} {k : α → M β} {s : St} (hm : Lz s (m.run s).2)
    (hk : ∀ a s1, m.run s = (.ok a, s1) → Lz s1 ((k a).run s1).2) : Lz s ((m >>= k).run s).2 := by
  rw [run_bind]
  rcases hr : m.run s with ⟨r, s1⟩
  rw [hr] at hm
  cases r with
  | ok a => exact (hk a s1 hr).trans hm
  | error e => exact hm

theorem lz_popData (s : St) : Lz s (popData.run s).2 := by rw [run_popData]; split <;> rfl
theorem lz_pushData (v : Val) (s : St) : Lz s ((pushData v).run s).2 := rfl
theorem lz_incPc (s : St) : Lz s (incPc.run s).2 := rfl
theorem lz_jumpTo (n : Int) (s : St) : Lz s ((jumpTo n).run s).2 := by
  unfold jumpTo
  simp only [run_bind, run_get, run_ite]
  split <;> rfl
theorem lz_popScope (s : St) : Lz s (popScope.run s).2 := by rw [run_popScope]; split <;> rfl
theorem lz_popScopes : ∀ (n : Nat) (s : St), Lz s ((popScopes n).run s).2
  | 0, s => rfl
  | n + 1, s => by
    rw [popScopes]
    exact lz_bind (lz_popScope s) (fun _ s1 _ => lz_popScopes n s1)
theorem lz_popN (n : Nat) (s : St) : Lz s ((popN n).run s).2 := by
  rw [Contain.run_popN]
  split
  · rfl
  · split <;> rfl
theorem lz_popToMark (l : Nat) (keep : Bool) : ∀ (fuel : Nat) (s : St), Lz s ((popToMark l keep fuel).run s).2
  | 0, s => by rw [popToMark]; rfl
  | fuel + 1, s => by
    rw [popToMark]
    refine lz_bind (lz_popData s) (fun v s1 _ => ?_)
    split
    · split
      · split
        · exact lz_pushData _ _
        · rfl
      · exact lz_popToMark l keep fuel s1
    · exact lz_popToMark l keep fuel s1
theorem lz_wrangle (a b : Nat) (s : St) : Lz s ((wrangleOptargs a b).run s).2 := by
  unfold wrangleOptargs
  split
  · rfl
  · split
    · exact lz_bind (lz_popN _ s) (fun _ s1 _ => lz_pushData _ s1)
    · exact lz_pushData _ s
theorem lz_bindTop (x : String) (v : Val) (s : St) : Lz s ((bindTop x v).run s).2 := by
  unfold bindTop
  simp only [run_bind, run_get]
  split
  · split
    · split
      · rfl
      · rfl
    · rfl
  · rfl

/-- every non-call instruction but `PushLazyArg` leaves the table of lazy arguments alone -/
theorem exec_simple_lz (n : Nat) (i : Instr) (s : St) (hs : simple i = true) (hp : ∀ e, i ≠ .pushLazy e) :
    Lz s ((exec (n + 1) i).run s).2 := by
  cases i with
  | callArr k => cases hs
  | callExpr c a => cases hs
  | pushLazy e => exact absurd rfl (hp e)
  | push v => rw [exec_push]; rfl
  | pop => rw [exec_pop]; split <;> rfl
  | dup => rw [exec_dup]; split <;> rfl
  | jump o => rw [exec]; exact lz_bind (show Lz s _ from rfl) (fun a s1 _ => lz_jumpTo _ s1)
  | goto l => rw [exec]; exact lz_jumpTo _ s
  | branch d o =>
    rw [exec]
    refine lz_bind (lz_popData s) (fun v s1 _ => lz_bind (show Lz s1 _ from rfl) (fun a s2 _ => ?_))
    split
    · exact lz_jumpTo _ _
    · exact lz_incPc _
  | envToStack x =>
    rw [exec]
    simp only [run_bind, run_get]
    split
    · exact lz_bind (lz_pushData _ s) (fun _ s1 _ => lz_incPc s1)
    · rfl
  | popStackPutEnv x =>
    rw [exec]
    exact lz_bind (lz_popData s) (fun v s1 _ => lz_bind (lz_incPc s1) (fun _ s2 _ => lz_bindTop x v s2))
  | update x =>
    rw [exec]
    refine lz_bind (lz_popData s) (fun v s1 _ => lz_bind (lz_incPc s1) (fun _ s2 _ => ?_))
    simp only [run_bind, run_get]
    split
    · rfl
    · exact lz_bindTop x v s2
  | ret =>
    rw [exec]
    simp only [run_bind, run_get]
    rcases ha : s.addr with _ | ⟨_ | ⟨fn, pc⟩, rest⟩ <;> rfl
  | addScope => rw [exec]; rfl
  | addFuncScope t => rw [exec]; rfl
  | removeScope => rw [exec]; exact lz_bind (lz_incPc s) (fun _ s1 _ => lz_popScope s1)
  | createClosure t =>
    rw [exec]
    simp only [run_bind, run_incPc, run_get, run_set, run_pushData]
    rfl
  | prepareCall x k =>
    rw [exec]
    simp only [run_bind, run_get]
    by_cases hv : (!(fnOf s s.curfunc).user && (fnOf s s.curfunc).varargs) = true
    · simp only [hv, if_true]
      exact lz_bind (lz_wrangle _ _ s) (fun _ s1 _ => lz_incPc s1)
    · simp only [hv, if_false, Bool.false_eq_true]
      first
        | exact lz_incPc s
        | exact lz_bind (show Lz s _ from rfl) (fun _ s1 _ => lz_incPc s1)
  | tailGuard x skip =>
    rw [exec]
    simp only [run_bind, run_get]
    split
    · split
      · exact lz_incPc s
      · rfl
    · rfl
  | loopStart l => rw [exec]; exact lz_incPc s
  | label => rw [exec]; exact lz_incPc s
  | pushMark l => rw [exec]; exact lz_bind (lz_pushData _ s) (fun _ s1 _ => lz_incPc s1)
  | popUntilMark l =>
    rw [exec]
    exact lz_bind (lz_incPc s) (fun _ s1 _ => lz_bind (show Lz s1 _ from rfl) (fun a s2 _ => lz_popToMark l true _ s2))
  | clearMark l =>
    rw [exec]
    exact lz_bind (show Lz s _ from rfl) (fun a s1 _ => lz_bind (lz_popToMark l false _ s1) (fun _ s2 _ => lz_incPc s2))
  | brk l k =>
    rw [exec]
    refine lz_bind (show Lz s _ from rfl) (fun a s1 _ => ?_)
    split
    · rfl
    · exact lz_bind (lz_popScopes k s1) (fun _ s2 _ => rfl)
  | cont l k =>
    rw [exec]
    refine lz_bind (show Lz s _ from rfl) (fun a s1 _ => ?_)
    split
    · rfl
    · exact lz_bind (lz_popScopes k s1) (fun _ s2 _ => rfl)
  | assign =>
    rw [exec]
    refine lz_bind (lz_incPc s) (fun _ s1 _ => lz_bind (lz_popData s1) (fun rhs s2 _ =>
      lz_bind (lz_popData s2) (fun lhs s3 _ => lz_bind (show Lz s3 _ from rfl) (fun a s4 _ => ?_))))
    split
    · split
      · exact lz_pushData _ _
      · rfl
    · rfl

/-- **A non-call instruction of a `Running` loop over a non-empty base scope stack does not
panic, and leaves a `NoNil` state** (whatever its outcome). -/
theorem exec_simple_safe {b : Base} {s : St} {top : Act} {rest : List Act} (hg : NoNil s) (hr : Running b s top rest)
    (hb : b.linear ≠ []) {i : Instr} (hf : (fnOf s s.curfunc).code[s.pc.toNat]? = some i) (hs : simple i = true) (n : Nat) :
    ((exec (n + 1) i).run s).1 ≠ .error .panic ∧ NoNil ((exec (n + 1) i).run s).2 := by
  obtain ⟨hgood, hpan⟩ := VMSafe.exec_step_safe n i (simple_isCall i hs) s hg.good
  obtain ⟨hl, _⟩ := exec_simple_above_la hr hf hs n
  have hne : ((exec (n + 1) i).run s).2.linear ≠ [] := by
    intro h0
    rw [h0] at hl
    exact hb (List.eq_nil_of_suffix_nil hl)
  refine ⟨fun hp => hne (hpan hp), hgood, hne, ?_⟩
  by_cases hp : ∃ e, i = .pushLazy e
  · obtain ⟨e, rfl⟩ := hp
    rw [exec]
    simp only [run_bind, run_get, run_set, run_pushData, run_incPc]
    intro z hz hv
    rcases List.mem_append.mp hz with hm | hm
    · exact hg.lz z hm hv
    · simp only [List.mem_cons, List.mem_nil_iff, or_false] at hm
      subst hm
      exact hg.lin
  · have := exec_simple_lz n i s hs (fun e he => hp ⟨e, he⟩)
    unfold Lz at this
    rw [this]
    exact hg.lz

/-! ## Small facts about `NoNil` -/

theorem NoNil.same {s s' : St} (h : NoNil s) (h1 : s'.data = s.data) (h2 : s'.linear = s.linear) (h3 : s'.addr = s.addr)
    (h4 : s'.suspended = s.suspended) (h5 : s'.lazies = s.lazies) : NoNil s' :=
  ⟨⟨by rw [h1]; exact h.good.data, by rw [h2]; exact h.good.linear, by rw [h3]; exact h.good.addr,
    by rw [h4]; exact h.good.susp, by rw [h5]; exact h.good.lazies⟩, by rw [h2]; exact h.lin, by rw [h5]; exact h.lz⟩

theorem NoNil.setData {s : St} (h : NoNil s) (d : List (Option Val)) (hd : VMSafe.allSome d) : NoNil { s with data := d } :=
  ⟨⟨hd, h.good.linear, h.good.addr, h.good.susp, h.good.lazies⟩, h.lin, h.lz⟩

theorem NoNil.push {s : St} (h : NoNil s) (v : Val) : NoNil { s with data := some v :: s.data } :=
  h.setData _ (VMSafe.allSome_cons h.good.data)

theorem res_err {α} {s' : St} : (Except.error Fault.err : Except Fault α) ≠ .error .panic ∧
    (∀ a, (Except.error Fault.err : Except Fault α) = .ok a → NoNil s') := ⟨(by intro h; cases h), fun a ha => (by cases ha)⟩
theorem res_timeout {α} {s' : St} : (Except.error Fault.timeout : Except Fault α) ≠ .error .panic ∧
    (∀ a, (Except.error Fault.timeout : Except Fault α) = .ok a → NoNil s') := ⟨(by intro h; cases h), fun a ha => (by cases ha)⟩
theorem res_ok {α} {s' : St} (a : α) (h : NoNil s') : (Except.ok a : Except Fault α) ≠ .error .panic ∧
    (∀ a', (Except.ok a : Except Fault α) = .ok a' → NoNil s') := ⟨(by intro h; cases h), fun _ _ => h⟩

theorem Safe.bind {α β} {m : M α} {k : α → M β} {s : St} (hm : Safe m s)
    (hk : ∀ a s1, m.run s = (.ok a, s1) → NoNil s1 → Safe (k a) s1) : Safe (m >>= k) s := by
  intro r s' h
  rw [run_bind] at h
  rcases hr : m.run s with ⟨r1, s1⟩
  rw [hr] at h
  obtain ⟨hn, hg⟩ := hm r1 s1 hr
  cases r1 with
  | ok a => exact hk a s1 hr (hg a rfl) r s' h
  | error e =>
    cases h
    cases e with
    | err => exact res_err
    | panic => exact absurd rfl hn
    | timeout => exact res_timeout

theorem Safe.pure {α} (a : α) {s : St} (h : NoNil s) : Safe (pure a : M α) s := by
  intro r s' hr; rw [run_pure] at hr; cases hr; exact res_ok a h

theorem Safe.err {α} (s : St) : Safe (VM.err : M α) s := by
  intro r s' hr; rw [Sim.run_err] at hr; cases hr; exact res_err

theorem wrangle_frame (a b : Nat) (s : St) :
    ((wrangleOptargs a b).run s).2.linear = s.linear ∧ ((wrangleOptargs a b).run s).2.suspended = s.suspended ∧
      ((wrangleOptargs a b).run s).2.loopstack = s.loopstack := by
  unfold wrangleOptargs
  split
  · exact ⟨rfl, rfl, rfl⟩
  · split
    · rw [run_bind]
      have hp : ((popN (b - a)).run s).2.linear = s.linear ∧ ((popN (b - a)).run s).2.suspended = s.suspended ∧
          ((popN (b - a)).run s).2.loopstack = s.loopstack := by
        rw [Contain.run_popN]
        split
        · exact ⟨rfl, rfl, rfl⟩
        · split <;> exact ⟨rfl, rfl, rfl⟩
      rcases hr : (popN (b - a)).run s with ⟨r, s1⟩
      rw [hr] at hp
      cases r with
      | ok xs => exact hp
      | error e => exact hp
    · exact ⟨rfl, rfl, rfl⟩

theorem callFunction_frame (f k : Nat) (s s' : St) (r : Except Fault Unit) (h : (callFunction f k).run s = (r, s')) :
    s'.linear = s.linear ∧ s'.lazies = s.lazies := by
  unfold callFunction at h
  by_cases h0 : s.data.length < k
  · vmsimp_at h [h0]; cases h; exact ⟨rfl, rfl⟩
  · by_cases h00 : (s.data.take k).any Option.isNone = true
    · vmsimp_at h [h0, h00]; cases h; exact ⟨rfl, rfl⟩
    · cases hv : (fnOf s f).varargs with
      | false =>
        by_cases hk : k ≠ (fnOf s f).nargs
        · vmsimp_at h [h0, h00, hv, hk]; cases h; exact ⟨rfl, rfl⟩
        · vmsimp_at h [h0, h00, hv, hk]; cases h; exact ⟨rfl, rfl⟩
      | true =>
        rw [run_bind, run_get] at h
        dsimp only at h
        simp only [h0, if_false, h00, Bool.false_eq_true, hv, if_true, run_bind, run_pure] at h
        have h1 := wrangle_frame (fnOf s f).nargs k s
        have h2 := lz_wrangle (fnOf s f).nargs k s
        rcases hwo : (wrangleOptargs (fnOf s f).nargs k).run s with ⟨r1, s1⟩
        rw [hwo] at h h1 h2
        cases r1 with
        | ok u => simp only [run_modify] at h; cases h; exact ⟨h1.1, h2⟩
        | error e => cases h; exact ⟨h1.1, h2⟩

theorem callFunction_safe' (f k : Nat) (s : St) (hg : NoNil s) : Safe (callFunction f k) s := by
  intro r s' hr
  obtain ⟨hgood, hpan⟩ := VMSafe.callFunction_safe f k s hg.good
  obtain ⟨hl, hz⟩ := callFunction_frame f k s s' r hr
  rw [hr] at hgood hpan
  have hne : s'.linear ≠ [] := by rw [hl]; exact hg.lin
  exact ⟨fun hp => hne (hpan (by rw [hp])), fun a _ => ⟨hgood, hne, by rw [hz]; exact hg.lz⟩⟩

theorem runTail_safe (s : St) (hg : NoNil s) : Safe runTail s := by
  intro r s' hr
  unfold runTail at hr
  simp only [run_bind, run_get] at hr
  rcases hd : s.data with _ | ⟨c, rest⟩
  · simp only [hd, List.isEmpty_nil, if_true, run_bind, run_pushData, run_popData] at hr
    cases hr
    exact res_ok _ (hg.same (by rw [hd]) rfl rfl rfl rfl)
  · cases c with
    | none => exact absurd rfl (hg.good.data none (by rw [hd]; exact List.mem_cons_self))
    | some w =>
      simp only [hd, List.isEmpty_cons, Bool.false_eq_true, if_false, run_pure, run_popData] at hr
      cases hr
      refine res_ok _ (hg.setData rest ?_)
      have := hg.good.data; rw [hd] at this; exact VMSafe.allSome_tail this

/-- the specifications "no host panic, `NoNil` on a normal return" of the mutual block, at one fuel -/
structure SSpec (n : Nat) : Prop where
  exec : ∀ (b : Base) (s : St) (top : Act) (rest : List Act) (i : Instr), NoNil s → WF s → Running b s top rest → b.linear ≠ [] →
    (fnOf s s.curfunc).code[s.pc.toNat]? = some i → Safe (exec n i) s
  resolved : ∀ (s : St) (f : Val) (args : List Expr), NoNil s → WF s → vok s.fns.length f = true → okLs args = true →
    Safe (callResolved n f args) s
  loop : ∀ (b : Base) (st : CtlState) (s : St), NoNil s → WF s → Live b s → b.linear ≠ [] → b.pc = -2 → b.main = false →
    Safe (runLoop n st) s
  run : ∀ (b : Base) (s : St) (top : Act), NoNil s → WF s → Running b s top [] → b.linear ≠ [] → b.pc = -2 → b.main = false →
    Safe (run n) s
  nested : ∀ (f : Nat) (st : CtlState) (s : St), NoNil s → WF s → 2 ≤ f → f < s.fns.length →
    (fnOf s f).params.length = 0 → s.pc = -2 → ∀ r s', (nested n f st).run s = (r, s') →
    r ≠ .error .panic ∧ (∀ v, r = .ok v → ∃ s2, s' = restoreSt st s2 ∧ NoNil s2 ∧ s2.data.length = s.data.length ∧
      s2.linear = s.linear ∧ s2.addr = s.addr ∧ s2.suspended = s.suspended ∧ TExt s s2)
  eval : ∀ (e : Expr) (s : St), NoNil s → WF s → okL e = true → Safe (evalCallExpr n e) s
  prep : ∀ (f : Option FnObj) (i : Nat) (args : List Expr) (s : St), NoNil s → WF s → okLs args = true → Safe (prepareArgs n f i args) s
  user : ∀ (name : String) (k : Nat) (s : St) (tail : List Cell), NoNil s → WF s →
    s.data.map cellOf = List.replicate k .val ++ tail → Safe (callUser n name k) s
  builtin : ∀ (name : String) (args : List Val) (s : St), NoNil s → WF s → s.pc = -1 → (∀ a ∈ args, vok s.fns.length a = true) →
    Safe (builtin n name args) s
  apply : ∀ (f : Val) (args : List Val) (s : St), NoNil s → WF s → s.pc = -1 → vok s.fns.length f = true →
    (∀ a ∈ args, vok s.fns.length a = true) → Safe (applyFn n f args) s
  mapArr : ∀ (f : Val) (r i k : Nat) (s : St), NoNil s → WF s → s.pc = -1 → vok s.fns.length f = true → Safe (mapArr n f r i k) s
  mapList : ∀ (f l : Val) (s : St), NoNil s → WF s → s.pc = -1 → vok s.fns.length f = true → vok s.fns.length l = true →
    Safe (mapList n f l) s
  force : ∀ (id : Nat) (s : St), NoNil s → WF s → Safe (forceLazy n id) s

/-! ## `runLoop`, `run`, `nested` -/

theorem loop_safe (n : Nat) (ih : AllSpec n) (ihs : SSpec n) (b : Base) (st : CtlState) (s : St) (hg : NoNil s) (hw : WF s)
    (hl : Live b s) (hbl : b.linear ≠ []) (hb : b.pc = -2) (hm : b.main = false) : Safe (runLoop (n + 1) st) s := by
  intro r s' hex
  rcases hl with ⟨top, rest, hr⟩ | hf
  · obtain ⟨hns, i, hi⟩ := hr.fetch (hr.A_pos hm)
    rw [runLoop] at hex
    simp only [run_bind, run_get, run_ite, hns, if_false, hi] at hex
    rcases hx : (exec n i).run s with ⟨r1, s1⟩
    simp only [hx, run_set] at hex
    obtain ⟨hnp, hg1⟩ := ihs.exec b s top rest i hg hw hr hbl hi r1 s1 hx
    cases r1 with
    | error e =>
      cases e with
      | err =>
        simp only [run_bind, run_restore, run_modify, run_throw] at hex
        cases hex
        exact res_err
      | panic => exact absurd rfl hnp
      | timeout =>
        simp only [run_throw] at hex; cases hex
        exact res_timeout
    | ok u =>
      obtain ⟨hw1, he1, hl1, hs1⟩ := ih.exec b s s1 top rest i hw hr hi hx
      exact ihs.loop b st s1 (hg1 u rfl) hw1 hl1.live hbl hb hm r s' hex
  · have hpc : s.pc = -1 := by rw [hf.pc, hb]; rfl
    rw [runLoop_finished n st s hpc] at hex
    cases hex
    exact res_ok _ hg

theorem run_safe (n : Nat) (ih : AllSpec n) (ihs : SSpec n) (b : Base) (s : St) (top : Act) (hg : NoNil s) (hw : WF s)
    (hr : Running b s top []) (hbl : b.linear ≠ []) (hb : b.pc = -2) (hm : b.main = false) : Safe (run (n + 1)) s := by
  rw [run_succ_eq]
  refine Safe.bind (fun r s' h => by rw [run_capture] at h; cases h; exact res_ok _ hg) (fun st s1 h1 _ => ?_)
  rw [run_capture] at h1
  cases h1
  exact Safe.bind (ihs.loop b _ s hg hw (Or.inl ⟨top, [], hr⟩) hbl hb hm) (fun _ s2 _ hg2 => runTail_safe s2 hg2)

theorem nested_safe (n : Nat) (ih : AllSpec n) (ihs : SSpec n) (f : Nat) (st : CtlState) (s : St) (hg : NoNil s) (hw : WF s) (h2 : 2 ≤ f)
    (hlt : f < s.fns.length) (hp0 : (fnOf s f).params.length = 0) (hpc : s.pc = -2) :
    ∀ r s', (nested (n + 1) f st).run s = (r, s') →
    r ≠ .error .panic ∧ (∀ v, r = .ok v → ∃ s2, s' = restoreSt st s2 ∧ NoNil s2 ∧ s2.data.length = s.data.length ∧
      s2.linear = s.linear ∧ s2.addr = s.addr ∧ s2.suspended = s.suspended ∧ TExt s s2) := by
  intro r s' hex
  simp only [VM.nested] at hex
  rw [run_bind, run_get] at hex
  dsimp only at hex
  rw [run_bind, run_set] at hex
  rcases hm : (do callFunction f 0; run n : M Val).run s with ⟨r0, s2⟩
  rw [hm] at hex
  -- the inner computation
  have hinner : r0 ≠ .error .panic ∧ (∀ w, r0 = .ok w → NoNil s2 ∧ s2.data.length = s.data.length ∧
      s2.linear = s.linear ∧ s2.addr = s.addr ∧ s2.suspended = s.suspended ∧ TExt s s2) := by
    rw [run_bind] at hm
    rcases hc : (callFunction f 0).run s with ⟨r1, s1⟩
    rw [hc] at hm
    obtain ⟨hn1, hg1⟩ := callFunction_safe' f 0 s hg r1 s1 hc
    cases r1 with
    | error e =>
      cases hm
      cases e with
      | err => exact ⟨(by intro h; cases h), fun w hw' => (by cases hw')⟩
      | panic => exact absurd rfl hn1
      | timeout => exact ⟨(by intro h; cases h), fun w hw' => (by cases hw')⟩
    | ok u =>
      simp only at hm
      have hgd := hw.fns f h2 hlt
      obtain ⟨c1, c2, c3, c4, c5, c6, c7, hw1, c9⟩ := callFunction_ok f 0 s s1 (s.data.map cellOf) hw hgd rfl hc
      rw [hp0] at c9
      simp only [List.replicate_zero, List.nil_append] at c9
      have hid1 : f < s1.fns.length := by rw [c6]; exact hlt
      obtain ⟨ann, hV, hact⟩ := actOK_of_good (hw1.fns f h2 hid1) hid1
      have hfo : fnOf s1 f = fnOf s f := by simp only [VM.fnOf, c6]
      let b : Base := ⟨s.data, s.linear, s.addr, s.curfunc, -2, false⟩
      have hrun : Running b s1 ⟨f, ann, s.data.map cellOf, s.linear.length, s.addr.length + 1⟩ [] := by
        refine ⟨c1, by rw [c2]; exact Int.le_refl 0, ?_, hact _ _ _, ⟨rfl, rfl, by rw [c3, hpc]; exact (if_neg Bool.false_ne_true).mpr rfl⟩, by rw [c4]; exact List.suffix_refl _⟩
        apply inv_entry _ _ hV
        · show s1.pc.toNat = 0; rw [c2]; rfl
        · show s1.data.map cellOf = List.replicate (fnOf s1 f).params.length Cell.val ++ _
          rw [c9, hfo, hp0]; rfl
        · show s1.linear.length = _; rw [c4]
        · show s1.addr.length = _; rw [c3]; simp
      obtain ⟨hn2, hg2⟩ := ihs.run b s1 _ (hg1 u rfl) hw1 hrun hg.lin rfl rfl r0 s2 hm
      refine ⟨hn2, fun w hw' => ?_⟩
      subst hw'
      obtain ⟨hw2, he2, hv2, d2, l2, a2, cu2, p2, su2⟩ := ih.run b s1 s2 _ w hw1 hrun rfl rfl hm
      exact ⟨hg2 w rfl, by have := congrArg List.length d2; simpa using this, l2, a2, su2.trans c5, (TExt.same c6 c7).trans he2⟩
  obtain ⟨hn, hok⟩ := hinner
  cases r0 with
  | ok w =>
    simp only [run_bind, run_restore, run_pure] at hex
    cases hex
    refine ⟨(by intro h; cases h), fun v hv => ?_⟩
    cases hv
    obtain ⟨q1, q2, q3, q4, q5, q6⟩ := hok w rfl
    exact ⟨s2, rfl, q1, q2, q3, q4, q5, q6⟩
  | error e =>
    cases e with
    | err =>
      simp only [run_bind, run_restore, run_throw] at hex
      cases hex
      exact ⟨(by intro h; cases h), fun v hv => (by cases hv)⟩
    | panic => exact absurd rfl hn
    | timeout =>
      simp only [run_throw] at hex; cases hex
      exact ⟨(by intro h; cases h), fun v hv => (by cases hv)⟩

/-! ## `evalCallExpr`, `prepareArgs` -/

theorem runGen_res {α} (g : ZygoVerif.VM.G α) (s s' : St) (r : Except Fault α) (h : (runGen g).run s = (r, s')) :
    r ≠ .error .panic := by
  rw [run_runGen] at h
  split at h
  · cases h; intro h'; cases h'
  · cases h; intro h'; cases h'

theorem thunk_safe (n : Nat) (ihs : SSpec n) (name : String) (s1 : St) (code : List Instr) (cl : List (Option Nat))
    (par : Option Nat) (hw1 : WF s1) (hc : AllOK (szS s1) code)
    (hv : ∃ ann, verify { kind := .fn, nformals := 0, varargs := false, nfixed := 0, code := B s1.loops (code ++ [Instr.ret]) } ann = true)
    (st : CtlState) (lin : List (Option Nat)) (susp : List (List (Option Nat)))
    (hgt : NoNil (thunkSt s1 (thunkObj name code cl par) lin susp)) (r : Except Fault Val) (s' : St)
    (hex : (nested n s1.fns.length st).run (thunkSt s1 (thunkObj name code cl par) lin susp) = (r, s')) :
    r ≠ .error .panic ∧ (∀ v, r = .ok v → ∃ s2, s' = restoreSt st s2 ∧ NoNil s2 ∧ s2.data.length = s1.data.length ∧
      s2.linear = lin ∧ s2.addr = s1.addr ∧ s2.suspended = susp ∧ TExt s1 s2) := by
  obtain ⟨hw2, hg2⟩ := wf_mkThunk name code cl par hw1 hc hv
  have hw3 : WF (thunkSt s1 (thunkObj name code cl par) lin susp) :=
    hw2.mk' (TExt.same rfl rfl) (fun j h1 h2 => absurd h2 (Nat.not_lt.mpr h1)) hw2.loopstack hw2.scopes hw2.heap hw2.lazies hw2.data
  have hfo : fnOf (thunkSt s1 (thunkObj name code cl par) lin susp) s1.fns.length = thunkObj name code cl par := by
    show (s1.fns ++ [_]).getD s1.fns.length {} = _
    rw [List.getD_eq_getElem?_getD, List.getElem?_append_right (Nat.le_refl _), Nat.sub_self]
    rfl
  obtain ⟨hn, hok⟩ := ihs.nested s1.fns.length st _ hgt hw3 hw1.two (by simp [thunkSt]) (by rw [hfo]; rfl) rfl r s' hex
  refine ⟨hn, fun v hv' => ?_⟩
  obtain ⟨s2, q1, q2, q3, q4, q5, q6, q7⟩ := hok v hv'
  exact ⟨s2, q1, q2, q3, q4, q5, q6,
    (show TExt s1 (thunkSt s1 (thunkObj name code cl par) lin susp) from ⟨⟨_, rfl⟩, ⟨[], by simp [thunkSt]⟩⟩).trans q7⟩

theorem eval_safe (n : Nat) (ih : AllSpec n) (ihs : SSpec n) (e : Expr) (s : St) (hg : NoNil s) (hw : WF s) (hok : okL e = true) :
    Safe (evalCallExpr (n + 1) e) s := by
  intro r s' hex
  unfold VM.evalCallExpr at hex
  split at hex
  · rename_i x
    rw [run_bind, run_get] at hex
    dsimp only at hex
    split at hex
    · simp only [run_pure] at hex; cases hex; exact res_ok _ hg
    · rw [Sim.run_err] at hex; cases hex; exact res_err
  · rw [run_bind, run_get] at hex
    dsimp only at hex
    rw [run_bind] at hex
    rcases hgn : (runGen (compile (isFnScope s) {} e)).run s with ⟨r1, s1⟩
    rw [hgn] at hex
    have hnp1 := runGen_res _ s s1 r1 hgn
    cases r1 with
    | error er =>
      cases hex
      cases er with
      | err => exact res_err
      | panic => exact absurd rfl hnp1
      | timeout => exact res_timeout
    | ok ct =>
      obtain ⟨code, t⟩ := ct
      obtain ⟨hw1, he1, g1, g2, g3, g4, g5, g6, g7, g8, g9, hcode, hver⟩ := wf_runGen (isFnScope s) e code t hw hok hgn
      have hg1 : NoNil s1 := hg.same g1 g2 g3 g6 g9
      dsimp only at hex
      split at hex
      · simp only [run_pure] at hex; cases hex; exact res_ok _ hg1
      · rw [run_bind, run_capture] at hex
        dsimp only at hex
        rw [run_bind, run_get] at hex
        dsimp only at hex
        rw [run_bind, run_mkFunction] at hex
        dsimp only at hex
        rw [run_bind, run_modify] at hex
        dsimp only at hex
        have hgt : NoNil (thunkSt s1 (thunkObj "callExprEval" code (closingNow s1) (some (captureOf s1).curfunc)) s1.linear s1.suspended) :=
          hg1.same rfl rfl rfl rfl rfl
        obtain ⟨hn, hok'⟩ := thunk_safe n ihs "callExprEval" s1 code _ _ hw1 hcode hver (captureOf s1) s1.linear s1.suspended hgt r s' hex
        refine ⟨hn, fun v hv => ?_⟩
        obtain ⟨s2, h1, hg2, d2, l2, a2, su2, _⟩ := hok' v hv
        have hrs : s' = { s2 with curfunc := s1.curfunc, pc := s1.pc } := by
          rw [h1]
          exact restoreSt_same _ _ d2 (by rw [l2]; rfl) (by rw [a2]; rfl) (by rw [su2]; rfl)
        rw [hrs]
        exact hg2.same rfl rfl rfl rfl rfl

def prepLazySt (s : St) (e : Expr) : St :=
  { s with lazies := s.lazies ++ [({ e, stack := s.linear, curfunc := s.curfunc, value := none } : LazyObj)],
           data := some (.lazy s.lazies.length) :: s.data }

theorem prep_safe (n : Nat) (ih : AllSpec n) (ihs : SSpec n) (args : List Expr) (f : Option FnObj) (i : Nat) (s : St) (hg : NoNil s)
    (hw : WF s) (hok : okLs args = true) : Safe (prepareArgs (n + 1) f i args) s := by
  cases args with
  | nil =>
    intro r s' hex
    simp only [VM.prepareArgs, run_pure] at hex
    cases hex
    exact res_ok _ hg
  | cons e es =>
    simp only [okLs, Bool.and_eq_true] at hok
    -- one operand, then the rest
    have lazyStep : Safe (do
        let t ← get
        set { t with lazies := t.lazies ++ [({ e, stack := t.linear, curfunc := t.curfunc, value := none } : LazyObj)] }
        pushData (.lazy t.lazies.length)
        prepareArgs n f (i + 1) es : M Unit) s := by
      intro r s' hex
      -- the state after the push, explicitly
      rw [run_bind, run_get] at hex
      dsimp only at hex
      rw [run_bind, run_set] at hex
      dsimp only at hex
      rw [run_bind, run_pushData] at hex
      dsimp only at hex
      have hg1 : NoNil (prepLazySt s e) := by
        refine ⟨⟨VMSafe.allSome_cons hg.good.data, hg.good.linear, hg.good.addr, hg.good.susp, ?_⟩, hg.lin, ?_⟩
        · intro z hz
          rcases List.mem_append.mp hz with hm | hm
          · exact hg.good.lazies z hm
          · simp only [List.mem_cons, List.mem_nil_iff, or_false] at hm; subst hm; exact hg.good.linear
        · intro z hz hv
          rcases List.mem_append.mp hz with hm | hm
          · exact hg.lz z hm hv
          · simp only [List.mem_cons, List.mem_nil_iff, or_false] at hm; subst hm; exact hg.lin
      have hw1' : WF (prepLazySt s e) := by
        refine hw.grow (TExt.same rfl rfl) (fun j h1 h2 => absurd h2 (Nat.not_lt.mpr h1)) rfl rfl rfl ?_ ?_
        · intro lz hlz
          rcases List.mem_append.mp hlz with hm | hm
          · left; exact hm
          · right
            simp at hm; subst hm
            exact ⟨hok.1, fun v hv => by cases hv⟩
        · intro c hcm
          rcases List.mem_cons.mp hcm with rfl | hcm
          · right; trivial
          · left; exact hcm
      exact ihs.prep f (i + 1) es (prepLazySt s e) hg1 hw1' hok.2 r s' hex
    have evalStep : Safe (do
        let v ← evalCallExpr n e
        pushData v
        prepareArgs n f (i + 1) es : M Unit) s := by
      refine Safe.bind (ihs.eval e s hg hw hok.1) (fun v s0 hev hg0 => ?_)
      obtain ⟨hk, hv⟩ := ih.eval e s s0 v hw hok.1 hev
      refine Safe.bind (fun r s' h => by rw [run_pushData] at h; cases h; exact res_ok _ (hg0.push v)) (fun _ s1 h1 hg1 => ?_)
      rw [run_pushData] at h1
      cases h1
      refine ihs.prep f (i + 1) es _ hg1 ?_ hok.2
      refine hk.wf.setData _ _ ?_
      intro c hcm
      rcases List.mem_cons.mp hcm with rfl | hcm
      · exact cellOK_of_vok hv
      · exact hk.wf.data c hcm
    intro r s' hex
    unfold VM.prepareArgs at hex
    cases f with
    | none =>
      dsimp only at hex
      simp only [Bool.false_eq_true, if_false] at hex
      exact evalStep r s' hex
    | some fo =>
      dsimp only at hex
      by_cases hl : (!fo.user && fo.hasLazyFormals && fo.isLazyCallArg i) = true
      · simp only [hl, if_true] at hex
        exact lazyStep r s' hex
      · simp only [hl, if_false] at hex
        exact evalStep r s' hex

/-! ## `callUser`, `callResolved`, `exec` -/

theorem user_safe (n : Nat) (ih : AllSpec n) (ihs : SSpec n) (name : String) (k : Nat) (s : St) (tail : List Cell) (hg : NoNil s)
    (hw : WF s) (hd : s.data.map cellOf = List.replicate k .val ++ tail) : Safe (callUser (n + 1) name k) s := by
  intro r s' hex
  unfold VM.callUser at hex
  rw [run_bind, run_get] at hex
  dsimp only at hex
  by_cases h0 : s.data.length < k
  · simp only [h0, if_true, run_bind, Sim.run_err] at hex; cases hex; exact res_err
  · have h00 : ¬ (s.data.take k).any Option.isNone = true := by
      rw [VMSafe.any_isNone_false (VMSafe.allSome_take hg.good.data k)]; simp
    simp only [h0, h00, if_false, run_bind, run_pure, Bool.false_eq_true] at hex
    rw [run_popN] at hex
    simp only [h0, if_false] at hex
    cases hm : (s.data.take k).mapM id with
    | none =>
      exfalso
      obtain ⟨vs, hvs⟩ := VMSafe.mapM_id_some _ (VMSafe.allSome_take hg.good.data k)
      rw [hvs] at hm; cases hm
    | some vs =>
      rw [hm] at hex
      simp only [run_capture, run_modify, run_get, run_set] at hex
      have htake : (s.data.take k).map cellOf = List.replicate k Cell.val := by
        rw [List.map_take, hd, List.take_left' (by simp)]
      have hvs : ∀ v ∈ vs, vok s.fns.length v = true := by
        apply vals_vok _ vs hm (fun c hcm => hw.data c (List.mem_of_mem_take hcm))
        intro c hcm
        rw [htake] at hcm
        exact List.eq_of_mem_replicate hcm
      let s2 : St := { s with data := s.data.drop k, addr := some (s.curfunc, s.pc + 1) :: s.addr, curfunc := builtinFn, pc := -1 }
      have hw2 : WF s2 :=
        hw.mk' (TExt.same rfl rfl) (fun j h1 h2 => absurd h2 (Nat.not_lt.mpr h1)) hw.loopstack hw.scopes hw.heap hw.lazies
          (fun c hcm => hw.data c (List.mem_of_mem_drop hcm))
      have hg2 : NoNil s2 :=
        ⟨⟨VMSafe.allSome_drop hg.good.data k, hg.good.linear, VMSafe.allSome_cons hg.good.addr, hg.good.susp, hg.good.lazies⟩, hg.lin, hg.lz⟩
      rcases hb : (builtin n name vs.reverse).run s2 with ⟨r1, s3⟩
      have hb' : (builtin n name vs.reverse).run
          { s with data := s.data.drop k, addr := some (s.curfunc, s.pc + 1) :: s.addr, curfunc := builtinFn, pc := -1 } = (r1, s3) := hb
      rw [hb'] at hex
      obtain ⟨hnp, hg3⟩ := ihs.builtin name vs.reverse s2 hg2 hw2 rfl (fun a ha => hvs a (List.mem_reverse.mp ha)) r1 s3 hb
      cases r1 with
      | error e =>
        cases e with
        | err => simp only [run_bind, run_restore, run_throw] at hex; cases hex; exact res_err
        | panic => exact absurd rfl hnp
        | timeout => simp only [run_throw] at hex; cases hex; exact res_timeout
      | ok v =>
        obtain ⟨hk, hv⟩ := ih.builtin name vs.reverse s2 s3 v hw2 rfl (fun a ha => hvs a (List.mem_reverse.mp ha)) hb
        simp only [run_bind, run_pushData, run_get] at hex
        have ha3 : s3.addr = some (s.curfunc, s.pc + 1) :: s.addr := hk.same.addr
        have hgt : (captureOf { s with data := s.data.drop k }).addrSize < (some (s.curfunc, s.pc + 1) :: s.addr).length := by
          show s.addr.length < (some (s.curfunc, s.pc + 1) :: s.addr).length; simp
        simp only [ha3] at hex
        rw [if_pos hgt] at hex
        simp only [run_set] at hex
        cases hex
        have h3 := hg3 v rfl
        refine res_ok _ ⟨⟨VMSafe.allSome_cons h3.good.data, h3.good.linear, ?_, h3.good.susp, h3.good.lazies⟩, h3.lin, h3.lz⟩
        show VMSafe.allSome s.addr
        exact hg.good.addr

theorem guarded_safe (start : Nat) (m : M Unit) (s : St) (hm : Safe m s) :
    Safe (do
      let s ← get
      let r : Except Fault Unit × St := m.run s
      set r.2
      match r.1 with
      | .ok _ => pure ()
      | .error .err => do modify (fun s => { s with data := truncate s.data start }); throw .err
      | .error flt => throw flt : M Unit) s := by
  intro r s' h
  simp only [run_bind, run_get, run_set] at h
  rcases hr : m.run s with ⟨r1, s1⟩
  rw [hr] at h
  obtain ⟨hn, hg⟩ := hm r1 s1 hr
  cases r1 with
  | ok u => simp only [run_pure] at h; cases h; exact res_ok _ (hg u rfl)
  | error e =>
    cases e with
    | err => simp only [run_bind, run_modify, run_throw] at h; cases h; exact res_err
    | panic => exact absurd rfl hn
    | timeout => simp only [run_throw] at h; cases h; exact res_timeout

theorem resolved_safe (n : Nat) (ih : AllSpec n) (ihs : SSpec n) (s : St) (f : Val) (args : List Expr) (hg : NoNil s) (hw : WF s)
    (hvf : vok s.fns.length f = true) (hoa : okLs args = true) : Safe (callResolved (n + 1) f args) s := by
  intro r s' hex
  unfold VM.callResolved at hex
  rw [run_bind, run_get] at hex
  dsimp only at hex
  split at hex
  · rename_i fid
    refine guarded_safe _ _ s (Safe.bind (ihs.prep _ _ _ s hg hw hoa) (fun _ s1 _ hg1 => callFunction_safe' _ _ s1 hg1)) r s' hex
  · rename_i name
    refine guarded_safe _ _ s (Safe.bind (ihs.prep _ _ _ s hg hw hoa) (fun _ s1 hp hg1 => ?_)) r s' hex
    obtain ⟨hw1, he1, hd1, _⟩ := ih.prep _ _ _ s s1 hw hoa hp
    exact ihs.user name args.length s1 (s.data.map cellOf) hg1 hw1 hd1
  · refine guarded_safe _ _ s (Safe.bind (ihs.prep _ _ _ s hg hw hoa) (fun _ s1 _ _ => Safe.err s1)) r s' hex
  · split at hex
    · simp only [run_bind, run_pushData, run_incPc] at hex
      cases hex
      exact res_ok _ ((hg.push f).same rfl rfl rfl rfl rfl)
    · rw [Sim.run_err] at hex; cases hex; exact res_err

theorem exec_safe (n : Nat) (ih : AllSpec n) (ihs : SSpec n) (b : Base) (s : St) (top : Act) (rest : List Act) (i : Instr)
    (hg : NoNil s) (hw : WF s) (hr : Running b s top rest) (hbl : b.linear ≠ [])
    (hf : (fnOf s s.curfunc).code[s.pc.toNat]? = some i) : Safe (exec (n + 1) i) s := by
  by_cases hs : simple i = true
  · intro r s' hex
    obtain ⟨h1, h2⟩ := exec_simple_safe hg hr hbl hf hs n
    rw [hex] at h1 h2
    exact ⟨h1, fun _ _ => h2⟩
  · cases i with
    | callArr k =>
      intro r s' hex
      simp only [exec] at hex
      obtain ⟨tail, ht⟩ := hr.top_vals hf (p := k) (m := 1) rfl
      exact ihs.user "array" k s tail hg hw ht r s' hex
    | callExpr c args =>
      have hio := hr.instrOK hf
      simp only [instrOK, Bool.and_eq_true] at hio
      intro r s' hex
      simp only [exec] at hex
      refine Safe.bind (ihs.eval c s hg hw hio.1) (fun f s1 hev hg1 => ?_) r s' hex
      obtain ⟨hk, hv⟩ := ih.eval c s s1 f hw hio.1 hev
      exact ihs.resolved s1 f args hg1 hk.wf hv hio.2
    | _ => exact absurd rfl hs

/-! ## The Go builtins -/

theorem NoNil.table {s s' : St} (h : NoNil s) (h1 : s'.data = s.data) (h2 : s'.linear = s.linear) (h3 : s'.addr = s.addr)
    (h4 : s'.suspended = s.suspended) (h5 : s'.lazies = s.lazies) : NoNil s' := h.same h1 h2 h3 h4 h5

theorem builtin_safe (n : Nat) (ih : AllSpec n) (ihs : SSpec n) (name : String) (args : List Val) (s : St) (hg : NoNil s)
    (hw : WF s) (hpc : s.pc = -1) (ha : ∀ a ∈ args, vok s.fns.length a = true) : Safe (builtin (n + 1) name args) s := by
  intro r s' hex
  unfold VM.builtin at hex
  split at hex
  · simp only [run_bind, run_modify, run_pure] at hex; cases hex; exact res_ok _ (hg.same rfl rfl rfl rfl rfl)
  split at hex
  · simp only [run_bind, run_modify, run_pure] at hex; cases hex; exact res_ok _ (hg.same rfl rfl rfl rfl rfl)
  split at hex
  · split at hex
    · exact ihs.force _ s hg hw r s' hex
    · simp only [run_pure] at hex; cases hex; exact res_ok _ hg
    · rw [Sim.run_err] at hex; cases hex; exact res_err
  split at hex
  · split at hex
    · rename_i id
      rw [run_bind, run_get] at hex
      dsimp only at hex
      split at hex
      · rw [Sim.run_err] at hex; cases hex; exact res_err
      · rename_i lz hlz
        split at hex
        · simp only [run_pure] at hex; cases hex; exact res_ok _ hg
        · rcases hq : quoteE lz.e s.heap with ⟨w, h'⟩
          simp only [hq, run_bind, run_set, run_pure] at hex
          cases hex
          exact res_ok _ (hg.same rfl rfl rfl rfl rfl)
    · simp only [run_pure] at hex; cases hex; exact res_ok _ hg
    · rw [Sim.run_err] at hex; cases hex; exact res_err
  split at hex
  · split at hex
    · rename_i f coll
      split at hex
      · rw [Sim.run_err] at hex; cases hex; exact res_err
      · rw [run_bind, run_get] at hex
        dsimp only at hex
        have hf := ha f (by simp)
        have hc := ha coll (by simp)
        split at hex
        · rename_i rr
          exact ihs.apply f _ s hg hw hpc hf (heap_get_vok hw rr) r s' hex
        · rename_i a b
          split at hex
          · rename_i xs hxs
            exact ihs.apply f xs s hg hw hpc hf (listToArray_vok _ xs hxs hc) r s' hex
          · rw [Sim.run_err] at hex; cases hex; exact res_err
        · rw [Sim.run_err] at hex; cases hex; exact res_err
    · rw [Sim.run_err] at hex; cases hex; exact res_err
  split at hex
  · split at hex
    · rename_i f coll
      split at hex
      · rw [Sim.run_err] at hex; cases hex; exact res_err
      · have hf := ha f (by simp)
        have hc := ha coll (by simp)
        split at hex
        · rename_i rr
          rw [run_bind, run_get] at hex
          dsimp only at hex
          refine Safe.bind (ihs.mapArr f rr 0 _ s hg hw hpc hf) (fun vs s1 _ hg1 => ?_) r s' hex
          intro r2 s2 h2
          rw [run_bind, run_get] at h2
          dsimp only at h2
          simp only [run_bind, run_set, run_pure] at h2
          cases h2
          exact res_ok _ (hg1.same rfl rfl rfl rfl rfl)
        · rename_i a b
          exact ihs.mapList f _ s hg hw hpc hf hc r s' hex
        · rw [Sim.run_err] at hex; cases hex; exact res_err
    · rw [Sim.run_err] at hex; cases hex; exact res_err
  · rw [run_bind, run_get] at hex
    dsimp only at hex
    split at hex
    · simp only [run_bind, run_set, run_pure] at hex
      cases hex
      exact res_ok _ (hg.same rfl rfl rfl rfl rfl)
    · rw [Sim.run_err] at hex; cases hex; exact res_err

/-! ## `applyFn`, `mapArr`, `mapList` -/

theorem applyWrap_nonil (fo : FnObj) : ∀ (args : List Val) (s : St) (i : Nat), NoNil s →
    NoNil (args.foldl (fun (p : St × Nat) v =>
      if fo.isLazyCallArg p.2 then
        ({ p.1 with lazies := p.1.lazies ++ [({ e := .nilLit, stack := [], curfunc := 0, value := some v, isValue := true } : LazyObj)],
                    data := some (.lazy p.1.lazies.length) :: p.1.data }, p.2 + 1)
      else ({ p.1 with data := some v :: p.1.data }, p.2 + 1)) (s, i)).1
  | [], s, i, hg => hg
  | v :: rest, s, i, hg => by
    simp only [List.foldl_cons]
    split
    · refine applyWrap_nonil fo rest _ (i + 1) ?_
      refine ⟨⟨VMSafe.allSome_cons hg.good.data, hg.good.linear, hg.good.addr, hg.good.susp, ?_⟩, hg.lin, ?_⟩
      · intro z hz
        rcases List.mem_append.mp hz with hm | hm
        · exact hg.good.lazies z hm
        · simp only [List.mem_cons, List.mem_nil_iff, or_false] at hm; subst hm; exact VMSafe.allSome_nil
      · intro z hz hv
        rcases List.mem_append.mp hz with hm | hm
        · exact hg.lz z hm hv
        · simp only [List.mem_cons, List.mem_nil_iff, or_false] at hm; subst hm; cases hv
    · exact applyWrap_nonil fo rest _ (i + 1) (hg.push v)

theorem apply_safe (n : Nat) (ih : AllSpec n) (ihs : SSpec n) (f : Val) (args : List Val) (s : St) (hg : NoNil s) (hw : WF s)
    (hpc : s.pc = -1) (hvf : vok s.fns.length f = true) (ha : ∀ a ∈ args, vok s.fns.length a = true) :
    Safe (applyFn (n + 1) f args) s := by
  intro r s' hex
  unfold VM.applyFn at hex
  split at hex
  · rename_i name
    exact ihs.builtin name args s hg hw hpc ha r s' hex
  · rename_i fid
    simp only [vok, decide_eq_true_eq] at hvf
    rw [run_bind, run_capture] at hex
    dsimp only at hex
    rw [run_bind, run_modify] at hex
    dsimp only at hex
    rw [run_bind, run_get] at hex
    dsimp only at hex
    rw [run_bind, run_set] at hex
    dsimp only at hex
    rw [run_bind, run_get] at hex
    dsimp only at hex
    have hw1 : WF { s with pc := -2 } := hw.setPc _
    have hg1 : NoNil { s with pc := -2 } := hg.same rfl rfl rfl rfl rfl
    obtain ⟨hw2, d2, f2, l2, li2, a2, c2, p2, su2⟩ := applyWrap_spec (fnOf { s with pc := -2 } fid) args { s with pc := -2 } 0 hw1 ha
    have hg2 := applyWrap_nonil (fnOf { s with pc := -2 } fid) args { s with pc := -2 } 0 hg1
    generalize hs2 : (args.foldl (fun (p : St × Nat) v =>
      if (fnOf { s with pc := -2 } fid).isLazyCallArg p.2 then
        ({ p.1 with lazies := p.1.lazies ++ [({ e := .nilLit, stack := [], curfunc := 0, value := some v, isValue := true } : LazyObj)],
                    data := some (.lazy p.1.lazies.length) :: p.1.data }, p.2 + 1)
      else ({ p.1 with data := some v :: p.1.data }, p.2 + 1)) ({ s with pc := -2 }, 0)).1 = s2 at hex hw2 d2 f2 l2 li2 a2 c2 p2 su2 hg2
    rw [run_bind, run_set] at hex
    rcases hm : (do callFunction fid args.length; run n : M Val).run s2 with ⟨r0, s4⟩
    rw [hm] at hex
    have hinner : r0 ≠ .error .panic ∧ (∀ w, r0 = .ok w → NoNil s4) := by
      rw [run_bind] at hm
      rcases hc : (callFunction fid args.length).run s2 with ⟨r1, s3⟩
      rw [hc] at hm
      obtain ⟨hn1, hg3⟩ := callFunction_safe' fid args.length s2 hg2 r1 s3 hc
      cases r1 with
      | error e =>
        cases hm
        cases e with
        | err => exact ⟨(by intro h; cases h), fun w hw' => (by cases hw')⟩
        | panic => exact absurd rfl hn1
        | timeout => exact ⟨(by intro h; cases h), fun w hw' => (by cases hw')⟩
      | ok u =>
        simp only at hm
        have hid2 : fid < s2.fns.length := by rw [f2]; exact hvf.2
        have hgd := hw2.fns fid hvf.1 hid2
        obtain ⟨c1, c2', c3, c4, c5, c6, c7, hw3, c9⟩ := callFunction_ok fid args.length s2 s3 (s.data.map cellOf) hw2 hgd d2 hc
        have hid3 : fid < s3.fns.length := by rw [c6]; exact hid2
        obtain ⟨ann, hV, hact⟩ := actOK_of_good (hw3.fns fid hvf.1 hid3) hid3
        have hfo : fnOf s3 fid = fnOf s2 fid := by simp only [VM.fnOf, c6]
        let b : Base := ⟨s.data, s.linear, s.addr, s.curfunc, -2, false⟩
        have hrun : Running b s3 ⟨fid, ann, s.data.map cellOf, s.linear.length, s.addr.length + 1⟩ [] := by
          refine ⟨c1, by rw [c2']; exact Int.le_refl 0, ?_, hact _ _ _, ⟨rfl, rfl, by rw [c3, c2, p2, a2]; exact (if_neg Bool.false_ne_true).mpr rfl⟩,
            by rw [c4, li2]; exact List.suffix_refl _⟩
          apply inv_entry _ _ hV
          · show s3.pc.toNat = 0; rw [c2']; rfl
          · show s3.data.map cellOf = List.replicate (fnOf s3 fid).params.length Cell.val ++ _
            rw [c9, hfo]
          · show s3.linear.length = _; rw [c4, li2]
          · show s3.addr.length = _; rw [c3, a2]; simp
        exact ihs.run b s3 _ (hg3 u rfl) hw3 hrun hg.lin rfl rfl r0 s4 hm
    obtain ⟨hn, hok⟩ := hinner
    cases r0 with
    | ok w => simp only [run_pure] at hex; cases hex; exact res_ok _ (hok w rfl)
    | error e =>
      cases e with
      | err => simp only [run_bind, run_restore, run_throw] at hex; cases hex; exact res_err
      | panic => exact absurd rfl hn
      | timeout => simp only [run_throw] at hex; cases hex; exact res_timeout
  · rw [Sim.run_err] at hex; cases hex; exact res_err

theorem mapArr_safe (n : Nat) (ih : AllSpec n) (ihs : SSpec n) (f : Val) (r i k : Nat) (s : St) (hg : NoNil s) (hw : WF s)
    (hpc : s.pc = -1) (hvf : vok s.fns.length f = true) : Safe (mapArr (n + 1) f r i k) s := by
  intro r0 s' hex
  unfold VM.mapArr at hex
  split at hex
  · simp only [run_pure] at hex; cases hex; exact res_ok _ hg
  · rw [run_bind, run_get] at hex
    dsimp only at hex
    have harg : ∀ a ∈ [(s.heap.get r).getD i Val.nil], vok s.fns.length a = true := by
      intro a hav
      simp only [List.mem_cons, List.mem_nil_iff, or_false] at hav
      subst hav
      rw [List.getD_eq_getElem?_getD]
      cases hgt : (s.heap.get r)[i]? with
      | none => rfl
      | some x => exact heap_get_vok hw r x (List.mem_of_getElem? hgt)
    refine Safe.bind (ihs.apply f _ s hg hw hpc hvf harg) (fun v s1 ha hg1 => ?_) r0 s' hex
    obtain ⟨hk1, hv1⟩ := ih.apply f _ s s1 v hw hpc hvf harg ha
    refine Safe.bind (ihs.mapArr f r (i + 1) k s1 hg1 hk1.wf (hk1.same.pc.trans hpc) (kept_vok_mono hk1 hvf)) (fun ws s2 _ hg2 => ?_)
    exact Safe.pure _ hg2

theorem mapList_safe (n : Nat) (ih : AllSpec n) (ihs : SSpec n) (f l : Val) (s : St) (hg : NoNil s) (hw : WF s) (hpc : s.pc = -1)
    (hvf : vok s.fns.length f = true) (hvl : vok s.fns.length l = true) : Safe (mapList (n + 1) f l) s := by
  intro r0 s' hex
  unfold VM.mapList at hex
  split at hex
  · simp only [run_pure] at hex; cases hex; exact res_ok _ hg
  · rename_i a b
    simp only [vok, Bool.and_eq_true] at hvl
    have harg : ∀ x ∈ [a], vok s.fns.length x = true := fun x hx => by simp at hx; subst hx; exact hvl.1
    refine Safe.bind (ihs.apply f [a] s hg hw hpc hvf harg) (fun w s1 ha hg1 => ?_) r0 s' hex
    obtain ⟨hk1, hv1⟩ := ih.apply f [a] s s1 w hw hpc hvf harg ha
    refine Safe.bind (ihs.mapList f b s1 hg1 hk1.wf (hk1.same.pc.trans hpc) (kept_vok_mono hk1 hvf) (kept_vok_mono hk1 hvl.2))
      (fun t s2 _ hg2 => ?_)
    exact Safe.pure _ hg2
  · rw [Sim.run_err] at hex; cases hex; exact res_err

/-! ## `forceLazy` -/

theorem bind_any_inv {α β} (m : M α) (k : α → M β) (s s' : St) (r : Except Fault β) (h : (m >>= k).run s = (r, s')) :
    (∃ e, m.run s = (.error e, s') ∧ r = .error e) ∨ ∃ a s1, m.run s = (.ok a, s1) ∧ (k a).run s1 = (r, s') := by
  rw [run_bind] at h
  rcases hm : m.run s with ⟨r1, s1⟩
  rw [hm] at h
  cases r1 with
  | error e => cases h; exact Or.inl ⟨e, rfl, rfl⟩
  | ok a => exact Or.inr ⟨a, s1, rfl, h⟩

theorem finish_safe (id : Nat) (lz : LazyObj) (w : Val) (t0 : St) (hg0 : NoNil t0) (hst : VMSafe.allSome lz.stack) :
    Safe (do modify (fun s => { s with lazies := s.lazies.set id ({ lz with value := some w } : LazyObj) })
             pure w : M Val) t0 := by
  intro r s' h
  simp only [run_bind, run_modify, run_pure] at h
  cases h
  refine res_ok _ ⟨⟨hg0.good.data, hg0.good.linear, hg0.good.addr, hg0.good.susp, ?_⟩, hg0.lin, ?_⟩
  · intro z hz
    rcases List.mem_or_eq_of_mem_set hz with hm | rfl
    · exact hg0.good.lazies z hm
    · exact hst
  · intro z hz hv
    rcases List.mem_or_eq_of_mem_set hz with hm | rfl
    · exact hg0.lz z hm hv
    · cases hv

theorem force_safe (n : Nat) (ih : AllSpec n) (ihs : SSpec n) (id : Nat) (s : St) (hg : NoNil s) (hw : WF s) :
    Safe (forceLazy (n + 1) id) s := by
  intro r s' hex
  unfold VM.forceLazy at hex
  rw [run_bind, run_get] at hex
  dsimp only at hex
  split at hex
  · rw [Sim.run_err] at hex; cases hex; exact res_err
  · rename_i lz hlz
    have hmem : lz ∈ s.lazies := List.mem_of_getElem? hlz
    have hlzm := hw.lazies lz hmem
    have hst : VMSafe.allSome lz.stack := hg.good.lazies lz hmem
    cases hval : lz.value with
    | some v0 =>
      simp only [hval, run_pure] at hex
      cases hex
      exact res_ok _ hg
    | none =>
      simp only [hval] at hex
      rw [run_bind] at hex
      rcases hgn : (runGen (compile (isFnScope s) {} lz.e)).run s with ⟨r1, s1⟩
      rw [hgn] at hex
      have hnp1 := runGen_res _ s s1 r1 hgn
      cases r1 with
      | error er =>
        cases hex
        cases er with
        | err => exact res_err
        | panic => exact absurd rfl hnp1
        | timeout => exact res_timeout
      | ok ct =>
        obtain ⟨code, t⟩ := ct
        obtain ⟨hw1, he1, g1, g2, g3, g4, g5, g6, g7, g8, g9, hcode, hver⟩ := wf_runGen (isFnScope s) lz.e code t hw hlzm.1 hgn
        have hg1 : NoNil s1 := hg.same g1 g2 g3 g6 g9
        dsimp only at hex
        split at hex
        · exact finish_safe id lz .nil s1 hg1 hst r s' hex
        · rw [run_bind, run_mkFunction] at hex
          dsimp only at hex
          rw [run_bind, run_capture] at hex
          dsimp only at hex
          rw [run_bind, run_modify] at hex
          dsimp only at hex
          have hgt : NoNil (thunkSt s1 (thunkObj "lazyArgForce" code lz.stack (some lz.curfunc)) lz.stack (s1.linear :: s1.suspended)) := by
            refine ⟨⟨hg1.good.data, hst, hg1.good.addr, ?_, hg1.good.lazies⟩, hg.lz lz hmem hval, hg1.lz⟩
            intro l hl
            rcases List.mem_cons.mp hl with rfl | hl
            · exact hg1.good.linear
            · exact hg1.good.susp l hl
          rcases bind_any_inv _ _ _ _ _ hex with ⟨e, hn, rfl⟩ | ⟨w, s4, hn, hfin⟩
          · obtain ⟨hnp, _⟩ := thunk_safe n ihs "lazyArgForce" s1 code lz.stack (some lz.curfunc) hw1 hcode hver
              (captureOf s1) lz.stack (s1.linear :: s1.suspended) hgt _ s' hn
            cases e with
            | err => exact res_err
            | panic => exact absurd rfl hnp
            | timeout => exact res_timeout
          · obtain ⟨hnp, hok'⟩ := thunk_safe n ihs "lazyArgForce" s1 code lz.stack (some lz.curfunc) hw1 hcode hver
              (captureOf s1) lz.stack (s1.linear :: s1.suspended) hgt _ s4 hn
            obtain ⟨s3, h1, hg3, d3, l3, a3, su3, _⟩ := hok' w rfl
            have hrs : s4 = { s3 with linear := s1.linear, suspended := s1.suspended, curfunc := s1.curfunc, pc := s1.pc } := by
              rw [h1]; exact restoreSt_force s1 s3 d3 a3 su3
            have hg4 : NoNil s4 := by
              rw [hrs]
              exact ⟨⟨hg3.good.data, hg1.good.linear, hg3.good.addr, hg1.good.susp, hg3.good.lazies⟩, hg1.lin, hg3.lz⟩
            exact finish_safe id lz w s4 hg4 hst r s' hfin

/-! ## The induction on the fuel -/

theorem safe_timeout {α} (s : St) : Safe (throw Fault.timeout : M α) s := by
  intro r s' h; rw [run_throw] at h; cases h; exact res_timeout

theorem sSpec_zero : SSpec 0 where
  exec := fun b s top rest i _ _ _ _ _ => by simp only [VM.exec]; exact safe_timeout s
  resolved := fun s f args _ _ _ _ => by simp only [VM.callResolved]; exact safe_timeout s
  loop := fun b st s _ _ _ _ _ _ => by
    intro r s' h; rw [runLoop_zero] at h; cases h; exact res_timeout
  run := fun b s top _ _ _ _ _ _ => by simp only [VM.run]; exact safe_timeout s
  nested := fun f st s _ _ _ _ _ _ r s' h => by
    simp only [VM.nested, run_throw] at h; cases h
    exact ⟨(by intro h; cases h), fun v hv => (by cases hv)⟩
  eval := fun e s _ _ _ => by simp only [VM.evalCallExpr]; exact safe_timeout s
  prep := fun f i args s _ _ _ => by
    cases args with
    | nil => simp only [VM.prepareArgs]; exact safe_timeout s
    | cons e es => simp only [VM.prepareArgs]; exact safe_timeout s
  user := fun name k s tail _ _ _ => by simp only [VM.callUser]; exact safe_timeout s
  builtin := fun name args s _ _ _ _ => by simp only [VM.builtin]; exact safe_timeout s
  apply := fun f args s _ _ _ _ _ => by simp only [VM.applyFn]; exact safe_timeout s
  mapArr := fun f r i k s _ _ _ _ => by simp only [VM.mapArr]; exact safe_timeout s
  mapList := fun f l s _ _ _ _ _ => by simp only [VM.mapList]; exact safe_timeout s
  force := fun id s _ _ => by simp only [VM.forceLazy]; exact safe_timeout s

/-- **No host panic, no nil cell where code continues** — all thirteen functions of the mutual
block, every fuel. -/
theorem sSpec : ∀ n, SSpec n
  | 0 => sSpec_zero
  | n + 1 =>
    have ih := allSpec' n
    have ihs := sSpec n
    { exec := fun b s top rest i hg hw hr hbl hf => exec_safe n ih ihs b s top rest i hg hw hr hbl hf
      resolved := fun s f args hg hw hv ho => resolved_safe n ih ihs s f args hg hw hv ho
      loop := fun b st s hg hw hl hbl hb hm => loop_safe n ih ihs b st s hg hw hl hbl hb hm
      run := fun b s top hg hw hr hbl hb hm => run_safe n ih ihs b s top hg hw hr hbl hb hm
      nested := fun f st s hg hw h2 hlt hp hpc => nested_safe n ih ihs f st s hg hw h2 hlt hp hpc
      eval := fun e s hg hw hok => eval_safe n ih ihs e s hg hw hok
      prep := fun f i args s hg hw hok => prep_safe n ih ihs args f i s hg hw hok
      user := fun name k s tail hg hw hd => user_safe n ih ihs name k s tail hg hw hd
      builtin := fun name args s hg hw hpc ha => builtin_safe n ih ihs name args s hg hw hpc ha
      apply := fun f args s hg hw hpc hf ha => apply_safe n ih ihs f args s hg hw hpc hf ha
      mapArr := fun f r i k s hg hw hpc hf => mapArr_safe n ih ihs f r i k s hg hw hpc hf
      mapList := fun f l s hg hw hpc hf hl => mapList_safe n ih ihs f l s hg hw hpc hf hl
      force := fun id s hg hw => force_safe n ih ihs id s hg hw }

end ZygoVerif.RunInv
