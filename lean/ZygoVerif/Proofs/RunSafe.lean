/-
Proofs/RunSafe.lean — no host panic, and no nil cell where code continues.

A third pass over the VM's mutual block, by induction on the fuel (`sSpec`), next to the calling
contract for normal returns (`allSpec'`) and for errors (`errSpec`): from a state that satisfies
the table invariant, whose stacks hold no nil cell and whose scope stack is not empty (`G`), no
function of the mutual block ends in a host panic, and when it returns normally the state is `G`
again. Nil cells only come from `restoreControlState` growing a stack; on the way of a normal
return every restore is exact (`restoreSt_same`), and after an error nothing runs any more
(every evaluator re-raises), so the padding `Run`'s restore may leave never meets an instruction.
The host panics of the model are: a nil cell under a typed pop, a nil return address, a bind on
an empty scope stack.
-/
import ZygoVerif.Proofs.RunErr2
import ZygoVerif.Proofs.C01VM
set_option linter.unusedSimpArgs false
set_option linter.unusedVariables false
namespace ZygoVerif.RunInv
open ZygoVerif.Core ZygoVerif.VM ZygoVerif.Bal ZygoVerif.Refine ZygoVerif.TailVM ZygoVerif.Sim ZygoVerif.Contain

/-- no nil cell on any stack, a scope to bind in, and every lazy argument still to be forced
captured a non-empty scope stack -/
structure G (s : St) : Prop where
  good : VMSafe.Good s
  lin : s.linear ≠ []
  lz : ∀ z ∈ s.lazies, z.value = none → z.stack ≠ []

/-- `m` does not end in a host panic from `s`, and if it returns normally the state is `G` -/
def Safe {α} (m : M α) (s : St) : Prop :=
  ∀ r s', m.run s = (r, s') → r ≠ .error .panic ∧ (∀ a, r = .ok a → G s')

theorem simple_isCall (i : Instr) (h : simple i = true) : VMSafe.isCall i = false := by
  cases i <;> first | rfl | cases h

/-! ## The lazy-argument table under a non-call instruction -/

def Lz (s s' : St) : Prop := s'.lazies = s.lazies

theorem lz_bind {α β} {m : M α} {k : α → M β} {s : St} (hm : Lz s (m.run s).2)
    (hk : ∀ a s1, m.run s = (.ok a, s1) → Lz s1 ((k a).run s1).2) : Lz s ((m >>= k).run s).2 := by
  rw [run_bind]
  rcases hr : m.run s with ⟨r, s1⟩
  rw [hr] at hm
  cases r with
  | ok a => exact (hk a s1 hr).trans hm
  | error e => exact hm

theorem lz_popData (s : St) : Lz s (popData.run s).2 := by rw [run_popData]; split <;> rfl
theorem lz_pushData (v : Val) (s : St) : Lz s ((pushData v).run s).2 := rfl
theorem lz_incPc (s : St) : Lz s (incPc.run s).2 := rfl
theorem lz_jumpTo (n : Int) (s : St) : Lz s ((jumpTo n).run s).2 := by
  unfold jumpTo
  simp only [run_bind, run_get, run_ite]
  split <;> rfl
theorem lz_popScope (s : St) : Lz s (popScope.run s).2 := by rw [run_popScope]; split <;> rfl
theorem lz_popScopes : ∀ (n : Nat) (s : St), Lz s ((popScopes n).run s).2
  | 0, s => rfl
  | n + 1, s => by
    rw [popScopes]
    exact lz_bind (lz_popScope s) (fun _ s1 _ => lz_popScopes n s1)
theorem lz_popN (n : Nat) (s : St) : Lz s ((popN n).run s).2 := by
  rw [Contain.run_popN]
  split
  · rfl
  · split <;> rfl
theorem lz_popToMark (l : Nat) (keep : Bool) : ∀ (fuel : Nat) (s : St), Lz s ((popToMark l keep fuel).run s).2
  | 0, s => by rw [popToMark]; rfl
  | fuel + 1, s => by
    rw [popToMark]
    refine lz_bind (lz_popData s) (fun v s1 _ => ?_)
    split
    · split
      · split
        · exact lz_pushData _ _
        · rfl
      · exact lz_popToMark l keep fuel s1
    · exact lz_popToMark l keep fuel s1
theorem lz_wrangle (a b : Nat) (s : St) : Lz s ((wrangleOptargs a b).run s).2 := by
  unfold wrangleOptargs
  split
  · rfl
  · split
    · exact lz_bind (lz_popN _ s) (fun _ s1 _ => lz_pushData _ s1)
    · exact lz_pushData _ s
theorem lz_bindTop (x : String) (v : Val) (s : St) : Lz s ((bindTop x v).run s).2 := by
  unfold bindTop
  simp only [run_bind, run_get]
  split
  · split
    · split
      · rfl
      · rfl
    · rfl
  · rfl

/-- every non-call instruction but `PushLazyArg` leaves the table of lazy arguments alone -/
theorem exec_simple_lz (n : Nat) (i : Instr) (s : St) (hs : simple i = true) (hp : ∀ e, i ≠ .pushLazy e) :
    Lz s ((exec (n + 1) i).run s).2 := by
  cases i with
  | callArr k => cases hs
  | callExpr c a => cases hs
  | pushLazy e => exact absurd rfl (hp e)
  | push v => rw [exec_push]; rfl
  | pop => rw [exec_pop]; split <;> rfl
  | dup => rw [exec_dup]; split <;> rfl
  | jump o => rw [exec]; exact lz_bind (show Lz s _ from rfl) (fun a s1 _ => lz_jumpTo _ s1)
  | goto l => rw [exec]; exact lz_jumpTo _ s
  | branch d o =>
    rw [exec]
    refine lz_bind (lz_popData s) (fun v s1 _ => lz_bind (show Lz s1 _ from rfl) (fun a s2 _ => ?_))
    split
    · exact lz_jumpTo _ _
    · exact lz_incPc _
  | envToStack x =>
    rw [exec]
    simp only [run_bind, run_get]
    split
    · exact lz_bind (lz_pushData _ s) (fun _ s1 _ => lz_incPc s1)
    · rfl
  | popStackPutEnv x =>
    rw [exec]
    exact lz_bind (lz_popData s) (fun v s1 _ => lz_bind (lz_incPc s1) (fun _ s2 _ => lz_bindTop x v s2))
  | update x =>
    rw [exec]
    refine lz_bind (lz_popData s) (fun v s1 _ => lz_bind (lz_incPc s1) (fun _ s2 _ => ?_))
    simp only [run_bind, run_get]
    split
    · rfl
    · exact lz_bindTop x v s2
  | ret =>
    rw [exec]
    simp only [run_bind, run_get]
    rcases ha : s.addr with _ | ⟨_ | ⟨fn, pc⟩, rest⟩ <;> rfl
  | addScope => rw [exec]; rfl
  | addFuncScope t => rw [exec]; rfl
  | removeScope => rw [exec]; exact lz_bind (lz_incPc s) (fun _ s1 _ => lz_popScope s1)
  | createClosure t =>
    rw [exec]
    simp only [run_bind, run_incPc, run_get, run_set, run_pushData]
    rfl
  | prepareCall x k =>
    rw [exec]
    simp only [run_bind, run_get]
    by_cases hv : (!(fnOf s s.curfunc).user && (fnOf s s.curfunc).varargs) = true
    · simp only [hv, if_true]
      exact lz_bind (lz_wrangle _ _ s) (fun _ s1 _ => lz_incPc s1)
    · simp only [hv, if_false, Bool.false_eq_true]
      first
        | exact lz_incPc s
        | exact lz_bind (show Lz s _ from rfl) (fun _ s1 _ => lz_incPc s1)
  | tailGuard x skip =>
    rw [exec]
    simp only [run_bind, run_get]
    split
    · split
      · exact lz_incPc s
      · rfl
    · rfl
  | loopStart l => rw [exec]; exact lz_incPc s
  | label => rw [exec]; exact lz_incPc s
  | pushMark l => rw [exec]; exact lz_bind (lz_pushData _ s) (fun _ s1 _ => lz_incPc s1)
  | popUntilMark l =>
    rw [exec]
    exact lz_bind (lz_incPc s) (fun _ s1 _ => lz_bind (show Lz s1 _ from rfl) (fun a s2 _ => lz_popToMark l true _ s2))
  | clearMark l =>
    rw [exec]
    exact lz_bind (show Lz s _ from rfl) (fun a s1 _ => lz_bind (lz_popToMark l false _ s1) (fun _ s2 _ => lz_incPc s2))
  | brk l k =>
    rw [exec]
    refine lz_bind (show Lz s _ from rfl) (fun a s1 _ => ?_)
    split
    · rfl
    · exact lz_bind (lz_popScopes k s1) (fun _ s2 _ => rfl)
  | cont l k =>
    rw [exec]
    refine lz_bind (show Lz s _ from rfl) (fun a s1 _ => ?_)
    split
    · rfl
    · exact lz_bind (lz_popScopes k s1) (fun _ s2 _ => rfl)
  | assign =>
    rw [exec]
    refine lz_bind (lz_incPc s) (fun _ s1 _ => lz_bind (lz_popData s1) (fun rhs s2 _ =>
      lz_bind (lz_popData s2) (fun lhs s3 _ => lz_bind (show Lz s3 _ from rfl) (fun a s4 _ => ?_))))
    split
    · split
      · exact lz_pushData _ _
      · rfl
    · rfl

/-- **A non-call instruction of a `Running` loop over a non-empty base scope stack does not
panic, and leaves a `G` state** (whatever its outcome). -/
theorem exec_simple_safe {b : Base} {s : St} {top : Act} {rest : List Act} (hg : G s) (hr : Running b s top rest)
    (hb : b.linear ≠ []) {i : Instr} (hf : (fnOf s s.curfunc).code[s.pc.toNat]? = some i) (hs : simple i = true) (n : Nat) :
    ((exec (n + 1) i).run s).1 ≠ .error .panic ∧ G ((exec (n + 1) i).run s).2 := by
  obtain ⟨hgood, hpan⟩ := VMSafe.exec_step_safe n i (simple_isCall i hs) s hg.good
  obtain ⟨hl, _⟩ := exec_simple_above_la hr hf hs n
  have hne : ((exec (n + 1) i).run s).2.linear ≠ [] := by
    intro h0
    rw [h0] at hl
    exact hb (List.eq_nil_of_suffix_nil hl)
  refine ⟨fun hp => hne (hpan hp), hgood, hne, ?_⟩
  by_cases hp : ∃ e, i = .pushLazy e
  · obtain ⟨e, rfl⟩ := hp
    rw [exec]
    simp only [run_bind, run_get, run_set, run_pushData, run_incPc]
    intro z hz hv
    rcases List.mem_append.mp hz with hm | hm
    · exact hg.lz z hm hv
    · simp only [List.mem_cons, List.mem_nil_iff, or_false] at hm
      subst hm
      exact hg.lin
  · have := exec_simple_lz n i s hs (fun e he => hp ⟨e, he⟩)
    unfold Lz at this
    rw [this]
    exact hg.lz

end ZygoVerif.RunInv
