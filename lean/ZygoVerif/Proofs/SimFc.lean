/-
C02, execution half — Stage D, second half: calls of first-order builtins.

Fc = literals, symbol reference, `def`, `set`, non-empty `begin`, `cond`, `and`, `or`, non-empty
`newScope`, `letseq`, `let` with pairwise distinct names — as Fv — plus calls `(h a₁ … aₙ)` whose
head is the name of a first-order builtin (`+ - * mod < > <= >= == != not cons first rest second
list array len append concat aget aset hash hget hset`, and the host function `trace`) and whose
operands are in Fc; the names bound by `def`/`set`/`let`/`letseq` are not such names. Operands
are compiled at run time and evaluated in nested `Run`s (`EvalCallExpression`).
-/
import ZygoVerif.Proofs.SimCallVM
import ZygoVerif.Proofs.SimFv
set_option linter.unusedSimpArgs false
namespace ZygoVerif.Sim
open ZygoVerif.Core ZygoVerif.VM

/-! ## The fragment -/

mutual
def Fc : Expr → Bool
  | .int _ | .bool _ | .str _ | .nilLit | .sym _ => true
  | .begin_ es => FcList es
  | .def_ x e => okBinder x && Fc e
  | .set_ x e => okBinder x && Fc e
  | .cond arms d => FcArms arms && Fc d
  | .and_ es => FcList es
  | .or_ es => FcList es
  | .newScope es => !es.isEmpty && FcList es
  | .let_ seq bs body =>
    (seq || decide ((bs.map (·.1)).Nodup)) && !body.isEmpty && FcBinds bs && FcList body
  | .call (.sym h) args => foBuiltins.contains h && FcList args
  | .arr es => FcList es
  | .for_ _ init test incr body => Fc init && Fc test && Fc incr && FcList body
  | _ => false
def FcList : List Expr → Bool
  | [] => true
  | e :: es => Fc e && FcList es
def FcArms : List (Expr × Expr) → Bool
  | [] => true
  | (p, b) :: r => Fc p && Fc b && FcArms r
def FcBinds : List (String × Expr) → Bool
  | [] => true
  | (x, e) :: r => okBinder x && Fc e && FcBinds r
end

/-! ## The simulation statement -/

def SimC (code : List Instr) (s : St) (rs : Ref.St) (env : Nat) (res : Ref.R Val) : Prop :=
  match res with
  | .ok v rs' => ∃ s', ReachX s s' ∧ Lands code.length v s s' ∧ RelC s' rs' env ∧ FramesExt rs rs'
      ∧ Frame s s' ∧ Clean v
  | .err rs' => FailsX s rs'.trace
  | .timeout => True
  | .brk _ _ => False
  | .cont _ _ => False

/-- code that leaves no value (the bindings of `letseq`) -/
def SimCU (code : List Instr) (s : St) (rs : Ref.St) (env : Nat) (res : Ref.R Unit) : Prop :=
  match res with
  | .ok _ rs' => ∃ s', ReachX s s' ∧ Moved code.length s s' ∧ RelC s' rs' env ∧ FramesExt rs rs'
      ∧ Frame s s'
  | .err rs' => FailsX s rs'.trace
  | .timeout => True
  | .brk _ _ => False
  | .cont _ _ => False

/-- code that pushes a list of values, first value deepest (the initialisers of `let`) -/
def SimCL (code : List Instr) (s : St) (rs : Ref.St) (env : Nat) (res : Ref.R (List Val)) : Prop :=
  match res with
  | .ok vs rs' => ∃ s', ReachX s s' ∧ fnOf s' s'.curfunc = fnOf s s.curfunc
      ∧ s'.pc = s.pc + (code.length : Int) ∧ s'.data = vs.reverse.map some ++ s.data
      ∧ RelC s' rs' env ∧ FramesExt rs rs' ∧ Frame s s' ∧ ∀ v ∈ vs, Clean v
  | .err rs' => FailsX s rs'.trace
  | .timeout => True
  | .brk _ _ => False
  | .cont _ _ => False

def CClaimE (n : Nat) : Prop :=
  ∀ e, Fc e = true → ∀ isFn c gs r, (compile isFn c e).run gs = .ok r → c.funcname = "" →
    ∀ s rs env pre post, RelC s rs env → Seg s pre r.1.1 post → SimC r.1.1 s rs env (Ref.eval n e env rs)

def CClaimB (n : Nat) : Prop :=
  ∀ es, es ≠ [] → FcList es = true → ∀ isFn c gs r, (compileBegin isFn c es).run gs = .ok r → c.funcname = "" →
    ∀ s rs env pre post, RelC s rs env → Seg s pre r.1.1 post → SimC r.1.1 s rs env (Ref.evalBegin n es env rs)

def CClaimC (n : Nat) : Prop :=
  ∀ arms d, FcArms arms = true → Fc d = true → ∀ isFn c gs r gs0 rd,
    (compileArms isFn c arms).run gs = .ok r → (compile isFn c d).run gs0 = .ok rd → c.funcname = "" →
    ∀ s rs env pre post, RelC s rs env → Seg s pre (asmCond r.1 rd.1.1) post →
      SimC (asmCond r.1 rd.1.1) s rs env (Ref.evalCond n arms d env rs)

def CClaimS (n : Nat) : Prop :=
  ∀ isOr es, FcList es = true → ∀ isFn c gs r, (compileSC isFn c es).run gs = .ok r → c.funcname = "" →
    ∀ s rs env pre post, RelC s rs env → Seg s pre (asmSC isOr r.1) post →
      SimC (asmSC isOr r.1) s rs env (Ref.evalAndOr n isOr es env rs)

def CClaimN (n : Nat) : Prop :=
  ∀ es, es ≠ [] → FcList es = true → ∀ isFn c oldtail gs r,
    (compileNewScope isFn c oldtail es).run gs = .ok r → c.funcname = "" →
    ∀ s rs env pre post, RelC s rs env → Seg s pre r.1.1 post → SimC r.1.1 s rs env (Ref.evalBegin n es env rs)

def CClaimL (n : Nat) : Prop :=
  ∀ bs, FcBinds bs = true → ∀ isFn c gs r, (compileBinds isFn c true bs).run gs = .ok r → c.funcname = "" →
    ∀ s rs env pre post, RelC s rs env → Seg s pre r.1.1 post → SimCU r.1.1 s rs env (Ref.evalLetSeq n bs env rs)

def CClaimP (n : Nat) : Prop :=
  ∀ bs, FcBinds bs = true → ∀ isFn c gs r, (compileBinds isFn c false bs).run gs = .ok r → c.funcname = "" →
    ∀ s rs env pre post, RelC s rs env → Seg s pre r.1.1 post →
      SimCL r.1.1 s rs env (Ref.evalList n (bs.map (·.2)) env rs)

/-- the elements of an array literal (`GenerateAll`) -/
def CClaimV (n : Nat) : Prop :=
  ∀ es, FcList es = true → ∀ isFn c gs r, (compileAll isFn c es).run gs = .ok r → c.funcname = "" →
    ∀ s rs env pre post, RelC s rs env → Seg s pre r.1.1 post →
      SimCL r.1.1 s rs env (Ref.evalList n es env rs)

/-- operands of a call: `PrepareCallExprArgs` against `evalArgs` (no lazy positions) -/
def CClaimA (n : Nat) : Prop :=
  ∀ args, FcList args = true → ∀ (i : Nat) s rs env, RelC s rs env →
    match Ref.evalArgs n args i (fun _ => false) env rs with
    | .ok vs rs' => ∃ M s', (∀ fuel, M ≤ fuel → (prepareArgs fuel none i args).run s = (.ok (), s'))
        ∧ s'.data = vs.reverse.map some ++ s.data ∧ s'.pc = s.pc ∧ RelC s' rs' env ∧ FramesExt rs rs' ∧ Frame s s'
        ∧ ∀ v ∈ vs, Clean v
    | .err rs' => ∃ M, ∀ fuel, M ≤ fuel → ∃ se, (prepareArgs fuel none i args).run s = (.error .err, se)
        ∧ se.trace = rs'.trace
    | .timeout => True
    | .brk _ _ => False
    | .cont _ _ => False

/-! ## `compile` on Fc: total, generator state untouched, code never empty -/

theorem foBuiltins_ne_empty : ∀ h ∈ foBuiltins, h ≠ "" := by decide

/-- what compiling leaves of the generator state: function table, live stack and compile-time loop
stack as before; loop records only appended -/
structure GExt (gs gs' : GS) : Prop where
  fns : gs'.fns = gs.fns
  stack : gs'.loopstack = gs.loopstack
  len : gs.loops.length ≤ gs'.loops.length
  loops : ∀ id, id < gs.loops.length → gs'.loops.getD id {} = gs.loops.getD id {}

theorem GExt.refl (gs : GS) : GExt gs gs := ⟨rfl, rfl, Nat.le_refl _, fun _ _ => rfl⟩

theorem GExt.trans {a b c : GS} (h₁ : GExt a b) (h₂ : GExt b c) : GExt a c :=
  ⟨h₂.fns.trans h₁.fns, h₂.stack.trans h₁.stack, Nat.le_trans h₁.len h₂.len,
   fun id hid => (h₂.loops id (Nat.lt_of_lt_of_le hid h₁.len)).trans (h₁.loops id hid)⟩

/-- the generator state inside a `for`: a fresh loop record, pushed on the compile-time loop stack -/
def forGs (gs : GS) (c : Ctx) (label : Option String) : GS :=
  { gs with loops := gs.loops ++ [({ label, scopeDepth := c.scopes } : LoopRec)], loopstack := gs.loops.length :: gs.loopstack }

/-- the generator state after a `for`: offsets stored, loop stack popped -/
def forDone (g5 : GS) (loop : Nat) (brk cont : Int) : GS :=
  { g5 with loopstack := g5.loopstack.drop 1,
            loops := g5.loops.set loop ({ (g5.loops.getD loop {}) with breakOff := brk, contOff := cont } : LoopRec) }

/-- a whole `for`: the record is pushed, the parts only append, the record is completed and popped -/
theorem GExt.for_ {gs g5 : GS} {c : Ctx} {label : Option String} {brk cont : Int} (h : GExt (forGs gs c label) g5) :
    GExt gs (forDone g5 gs.loops.length brk cont) := by
  refine ⟨h.fns, ?_, ?_, fun id hid => ?_⟩
  · show g5.loopstack.drop 1 = gs.loopstack
    rw [h.stack]; rfl
  · show gs.loops.length ≤ (g5.loops.set _ _).length
    have := h.len
    simp only [forGs, List.length_append, List.length_cons, List.length_nil, List.length_set] at this ⊢
    omega
  · show (g5.loops.set gs.loops.length _).getD id {} = _
    have hne : gs.loops.length ≠ id := by omega
    rw [List.getD_eq_getElem?_getD, List.getElem?_set_ne hne, ← List.getD_eq_getElem?_getD,
      h.loops id (by simp [forGs]; omega)]
    simp only [forGs, List.getD_eq_getElem?_getD, List.getElem?_append_left hid]

/-- the code of a `for` loop, from the code of its four parts -/
def forCode (loop : Nat) (i t s b : List Instr) : List Instr :=
  (asmFor loop (i ++ [.popUntilMark loop]) t (s ++ [.popUntilMark loop]) (b ++ [.popUntilMark loop])).1

/-- `GenerateForLoop`, with the state threading spelled out: body, init, test, increment are compiled
in this order with the loop on the compile-time loop stack; then the offsets are stored. -/
theorem compile_for_eq (isFn : Nat → Bool) (c : Ctx) (label : Option String) (init test incr : Expr) (body : List Expr) (gs : GS) :
    (compile isFn c (.for_ label init test incr body)).run gs =
      match (compileBegin isFn { c with tail := false, scopes := c.scopes + 1 } body).run (forGs gs c label) with
      | .error _ => .error ()
      | .ok (rb, g2) => match (compile isFn { c with tail := false, scopes := c.scopes + 1 } init).run g2 with
        | .error _ => .error ()
        | .ok (ri, g3) => match (compile isFn { c with tail := false, scopes := c.scopes + 1 } test).run g3 with
          | .error _ => .error ()
          | .ok (rt, g4) => match (compile isFn { c with tail := false, scopes := c.scopes + 1 } incr).run g4 with
            | .error _ => .error ()
            | .ok (rs, g5) =>
              .ok ((forCode gs.loops.length ri.1 rt.1 rs.1 rb.1, c.tail),
                   forDone g5 gs.loops.length
                     (asmFor gs.loops.length (ri.1 ++ [.popUntilMark gs.loops.length]) rt.1
                      (rs.1 ++ [.popUntilMark gs.loops.length]) (rb.1 ++ [.popUntilMark gs.loops.length])).2.1
                     (asmFor gs.loops.length (ri.1 ++ [.popUntilMark gs.loops.length]) rt.1
                      (rs.1 ++ [.popUntilMark gs.loops.length]) (rb.1 ++ [.popUntilMark gs.loops.length])).2.2) := by
  rw [compile]
  simp only [bind, StateT.bind, StateT.run, get, getThe, MonadStateOf.get, StateT.get, pure, Except.pure, Except.bind,
    set, StateT.set, StateT.pure]
  unfold forGs forDone forCode
  cases compileBegin isFn { scopes := c.scopes + 1, funcname := c.funcname, known := c.known } body
      { fns := gs.fns, loops := gs.loops ++ [{ label := label, scopeDepth := c.scopes }],
        loopstack := gs.loops.length :: gs.loopstack, live := gs.live } with
  | error e => rfl
  | ok vb =>
    obtain ⟨rb, g2⟩ := vb
    simp only
    cases compile isFn { scopes := c.scopes + 1, funcname := c.funcname, known := c.known } init g2 with
    | error e => rfl
    | ok vi =>
      obtain ⟨ri, g3⟩ := vi
      simp only
      cases compile isFn { scopes := c.scopes + 1, funcname := c.funcname, known := c.known } test g3 with
      | error e => rfl
      | ok vt =>
        obtain ⟨rt, g4⟩ := vt
        simp only
        cases compile isFn { scopes := c.scopes + 1, funcname := c.funcname, known := c.known } incr g4 with
        | error e => rfl
        | ok vs =>
          obtain ⟨rs, g5⟩ := vs
          rfl

mutual
theorem compile_total_Fc : ∀ (e : Expr), Fc e = true → ∀ isFn c gs, c.funcname = "" →
    ∃ code t gs', (compile isFn c e).run gs = .ok ((code, t), gs') ∧ code ≠ [] ∧ GExt gs gs'
  | .int v, _, isFn, c, gs, hfn => ⟨_, _, gs, by rw [compile]; rfl, by simp, GExt.refl _⟩
  | .bool v, _, isFn, c, gs, hfn => ⟨_, _, gs, by rw [compile]; rfl, by simp, GExt.refl _⟩
  | .str v, _, isFn, c, gs, hfn => ⟨_, _, gs, by rw [compile]; rfl, by simp, GExt.refl _⟩
  | .nilLit, _, isFn, c, gs, hfn => ⟨_, _, gs, by rw [compile]; rfl, by simp, GExt.refl _⟩
  | .sym x, _, isFn, c, gs, hfn => ⟨_, _, gs, by rw [compile]; rfl, by simp, GExt.refl _⟩
  | .begin_ es, he, isFn, c, gs, hfn => by
    rw [Fc] at he
    cases es with
    | nil => exact ⟨[.push .nil], c.tail, gs, by rw [compile]; rfl, by simp, GExt.refl _⟩   -- (begin) yields nil (fix C04-02)
    | cons e0 es0 =>
      rw [compile]
      · exact compileBegin_total_Fc (e0 :: es0) (by simp) he isFn c gs hfn
      · intro hh; cases hh
  | .def_ x e, he, isFn, c, gs, hfn => by
    rw [Fc] at he
    simp only [Bool.and_eq_true] at he
    obtain ⟨ce, t, g1, h1, _, hf1⟩ := compile_total_Fc e he.2 isFn { c with tail := false } gs hfn
    refine ⟨ce ++ [.dup, .popStackPutEnv x], false, g1, ?_, by simp, hf1⟩
    rw [compile]
    simp only [g_bind_ok, g_pure_ok]
    exact ⟨_, _, h1, rfl⟩
  | .set_ x e, he, isFn, c, gs, hfn => by
    rw [Fc] at he
    simp only [Bool.and_eq_true] at he
    obtain ⟨ce, t, g1, h1, _, hf1⟩ := compile_total_Fc e he.2 isFn { c with tail := false } gs hfn
    refine ⟨ce ++ [.dup, .update x], false, g1, ?_, by simp, hf1⟩
    rw [compile]
    simp only [g_bind_ok, g_pure_ok]
    exact ⟨_, _, h1, rfl⟩
  | .cond arms d, he, isFn, c, gs, hfn => by
    rw [Fc] at he
    simp only [Bool.and_eq_true] at he
    obtain ⟨dc, t, g1, hd, hdne, hf1⟩ := compile_total_Fc d he.2 isFn c gs hfn
    obtain ⟨as, g2, has, hf2⟩ := compileArms_total_Fc arms he.1 isFn c g1 hfn
    refine ⟨asmCond as dc, c.tail, g2, ?_, asmCond_ne_nil as dc hdne, hf1.trans hf2⟩
    rw [compile]
    simp only [g_bind_ok, g_pure_ok]
    exact ⟨_, _, hd, _, _, has, rfl⟩
  | .and_ es, he, isFn, c, gs, hfn => by
    rw [Fc] at he
    obtain ⟨cs, g1, hcs, hne, hf1⟩ := compileSC_total_Fc es he isFn c gs hfn
    refine ⟨asmSC false cs, c.tail, g1, ?_, asmSC_ne_nil false cs hne, hf1⟩
    rw [compile]
    simp only [g_bind_ok, g_pure_ok]
    exact ⟨_, _, hcs, rfl⟩
  | .or_ es, he, isFn, c, gs, hfn => by
    rw [Fc] at he
    obtain ⟨cs, g1, hcs, hne, hf1⟩ := compileSC_total_Fc es he isFn c gs hfn
    refine ⟨asmSC true cs, c.tail, g1, ?_, asmSC_ne_nil true cs hne, hf1⟩
    rw [compile]
    simp only [g_bind_ok, g_pure_ok]
    exact ⟨_, _, hcs, rfl⟩
  | .newScope es, he, isFn, c, gs, hfn => by
    rw [Fc] at he
    simp only [Bool.and_eq_true, Bool.not_eq_true', List.isEmpty_eq_false_iff] at he
    obtain ⟨code, t, g1, h1, _, hf1⟩ := compileNewScope_total_Fc es he.1 he.2 isFn { c with scopes := c.scopes + 1 } c.tail gs hfn
    refine ⟨[.addScope] ++ code ++ [.removeScope], t, g1, ?_, by simp, hf1⟩
    cases es with
    | nil => exact absurd rfl he.1
    | cons e es =>
      rw [compile]
      · simp only [g_bind_ok, g_pure_ok]
        exact ⟨_, _, h1, rfl⟩
      · intro hh; cases hh
  | .let_ seq bs body, he, isFn, c, gs, hfn => by
    rw [Fc] at he
    simp only [Bool.and_eq_true, Bool.not_eq_true', List.isEmpty_eq_false_iff] at he
    obtain ⟨⟨⟨_, hbody⟩, hbs⟩, hbl⟩ := he
    -- since fix C04-08 the initialisers are compiled with the tail flag off, the body with the form's own flag
    obtain ⟨rhs, t1, g1, h1, hf1⟩ := compileBinds_total_Fc bs hbs isFn { c with scopes := c.scopes + 1, tail := false } seq gs hfn
    obtain ⟨b, t2, g2, h2, _, hf2⟩ := compileBegin_total_Fc body hbody hbl isFn { c with scopes := c.scopes + 1 } g1 hfn
    refine ⟨[.addScope] ++ rhs ++ (if seq then [] else (bs.map (fun p => Instr.popStackPutEnv p.1)).reverse)
      ++ b ++ [.removeScope], t2, g2, ?_, by simp, hf1.trans hf2⟩
    rw [compile]
    simp only [g_bind_ok, g_pure_ok]
    exact ⟨_, _, h1, _, _, h2, rfl⟩
  | .call f args, he, isFn, c, gs, hfn => by
    cases f with
    | sym h =>
      rw [Fc] at he
      simp only [Bool.and_eq_true, List.contains_iff_mem] at he
      refine ⟨[.callExpr (.sym h) args], c.tail, gs, ?_, by simp, GExt.refl _⟩
      rw [compile]
      have hne : (h == c.funcname) = false := by
        rw [hfn]; have := foBuiltins_ne_empty h he.1; simpa using this
      simp only [hne, Bool.and_false, Bool.false_eq_true, if_false]
      rfl
    | _ => simp [Fc] at he
  | .arr es, he, isFn, c, gs, hfn => by
    rw [Fc] at he
    obtain ⟨code, t, g1, h1, hf1⟩ := compileAll_total_Fc es he isFn { c with tail := false } gs hfn
    refine ⟨code ++ [.callArr es.length], c.tail, g1, ?_, by simp, hf1⟩
    rw [compile]
    simp only [g_bind_ok, g_pure_ok]
    exact ⟨_, _, h1, rfl⟩
  | .for_ label init test incr body, he, isFn, c, gs, hfn => by
    rw [Fc] at he
    simp only [Bool.and_eq_true] at he
    obtain ⟨⟨⟨hi, ht⟩, hs⟩, hb⟩ := he
    obtain ⟨b, tb, g2, h2, hf2⟩ := compileBeginAny_total_Fc body hb isFn { c with tail := false, scopes := c.scopes + 1 }
      (forGs gs c label) hfn
    obtain ⟨i, ti, g3, h3, _, hf3⟩ := compile_total_Fc init hi isFn { c with tail := false, scopes := c.scopes + 1 } g2 hfn
    obtain ⟨t, tt, g4, h4, _, hf4⟩ := compile_total_Fc test ht isFn { c with tail := false, scopes := c.scopes + 1 } g3 hfn
    obtain ⟨s, ts, g5, h5, _, hf5⟩ := compile_total_Fc incr hs isFn { c with tail := false, scopes := c.scopes + 1 } g4 hfn
    refine ⟨forCode gs.loops.length i t s b, c.tail,
      forDone g5 gs.loops.length
        (asmFor gs.loops.length (i ++ [.popUntilMark gs.loops.length]) t
          (s ++ [.popUntilMark gs.loops.length]) (b ++ [.popUntilMark gs.loops.length])).2.1
        (asmFor gs.loops.length (i ++ [.popUntilMark gs.loops.length]) t
          (s ++ [.popUntilMark gs.loops.length]) (b ++ [.popUntilMark gs.loops.length])).2.2,
      ?_, by simp [forCode, asmFor], ?_⟩
    · rw [compile_for_eq, h2]
      simp only
      rw [h3]
      simp only
      rw [h4]
      simp only
      rw [h5]
    · exact GExt.for_ (((hf2.trans hf3).trans hf4).trans hf5)
  | .break_ _, he, _, _, _, _ | .continue_ _, he, _, _, _, _
  | .fn _ _ _, he, _, _, _, _ | .defn _ _ _ _, he, _, _, _, _ | .assign _ _, he, _, _, _, _ | .bad _, he, _, _, _, _ => by
    simp [Fc] at he
theorem compileBegin_total_Fc : ∀ (es : List Expr), es ≠ [] → FcList es = true → ∀ isFn c gs, c.funcname = "" →
    ∃ code t gs', (compileBegin isFn c es).run gs = .ok ((code, t), gs') ∧ code ≠ [] ∧ GExt gs gs'
  | [], hne, _, _, _, _, _ => absurd rfl hne
  | [e], _, he, isFn, c, gs, hfn => by
    rw [FcList] at he
    simp only [Bool.and_eq_true] at he
    rw [compileBegin]
    exact compile_total_Fc e he.1 isFn c gs hfn
  | e :: e' :: es, _, he, isFn, c, gs, hfn => by
    rw [FcList] at he
    simp only [Bool.and_eq_true] at he
    obtain ⟨a, ta, g1, ha, hane, hf1⟩ := compile_total_Fc e he.1 isFn { c with tail := false } gs hfn
    obtain ⟨b, tb, g2, hb, _, hf2⟩ := compileBegin_total_Fc (e' :: es) (by simp) he.2 isFn c g1 hfn
    refine ⟨a ++ (if a.isEmpty then [] else [.pop]) ++ b, tb, g2, ?_, by simp [hane], hf1.trans hf2⟩
    rw [compileBegin]
    · simp only [g_bind_ok, g_pure_ok]
      exact ⟨_, _, ha, _, _, hb, rfl⟩
    · intro hh; cases hh
/-- a statement list that may be empty (the body of a `for`) -/
theorem compileBeginAny_total_Fc : ∀ (es : List Expr), FcList es = true → ∀ isFn c gs, c.funcname = "" →
    ∃ code t gs', (compileBegin isFn c es).run gs = .ok ((code, t), gs') ∧ GExt gs gs'
  | [], _, isFn, c, gs, _ => ⟨[], false, gs, by rw [compileBegin]; rfl, GExt.refl _⟩
  | e :: es, he, isFn, c, gs, hfn => by
    obtain ⟨code, t, g1, h1, _, hf1⟩ := compileBegin_total_Fc (e :: es) (by simp) he isFn c gs hfn
    exact ⟨code, t, g1, h1, hf1⟩
theorem compileSC_total_Fc : ∀ (es : List Expr), FcList es = true → ∀ isFn c gs, c.funcname = "" →
    ∃ cs gs', (compileSC isFn c es).run gs = .ok (cs, gs') ∧ (∀ c ∈ cs, c ≠ []) ∧ GExt gs gs'
  | [], _, isFn, c, gs, hfn => ⟨[], gs, by rw [compileSC]; rfl, by simp, GExt.refl _⟩
  | [e], he, isFn, c, gs, hfn => by
    rw [FcList] at he
    simp only [Bool.and_eq_true] at he
    obtain ⟨a, t, g1, ha, hane, hf1⟩ := compile_total_Fc e he.1 isFn c gs hfn
    refine ⟨[a], g1, ?_, by simpa using hane, hf1⟩
    rw [compileSC]
    simp only [g_bind_ok, g_pure_ok]
    exact ⟨_, _, ha, rfl⟩
  | e :: e' :: es, he, isFn, c, gs, hfn => by
    rw [FcList] at he
    simp only [Bool.and_eq_true] at he
    obtain ⟨b, g1, hb, hbne, hf1⟩ := compileSC_total_Fc (e' :: es) he.2 isFn c gs hfn
    obtain ⟨a, t, g2, ha, hane, hf2⟩ := compile_total_Fc e he.1 isFn { c with tail := false } g1 hfn
    refine ⟨a :: b, g2, ?_, ?_, hf1.trans hf2⟩
    · rw [compileSC]
      · simp only [g_bind_ok, g_pure_ok]
        exact ⟨_, _, hb, _, _, ha, rfl⟩
      · intro hh; cases hh
    · intro x hx
      rcases List.mem_cons.mp hx with rfl | hx
      · exact hane
      · exact hbne x hx
theorem compileNewScope_total_Fc : ∀ (es : List Expr), es ≠ [] → FcList es = true → ∀ isFn c oldtail gs, c.funcname = "" →
    ∃ code t gs', (compileNewScope isFn c oldtail es).run gs = .ok ((code, t), gs') ∧ code ≠ [] ∧ GExt gs gs'
  | [], hne, _, _, _, _, _, _ => absurd rfl hne
  | [e], _, he, isFn, c, oldtail, gs, hfn => by
    rw [FcList] at he
    simp only [Bool.and_eq_true] at he
    rw [compileNewScope]
    exact compile_total_Fc e he.1 isFn _ gs hfn
  | e :: e' :: es, _, he, isFn, c, oldtail, gs, hfn => by
    rw [FcList] at he
    simp only [Bool.and_eq_true] at he
    obtain ⟨a, ta, g1, ha, hane, hf1⟩ := compile_total_Fc e he.1 isFn { c with tail := false } gs hfn
    obtain ⟨b, tb, g2, hb, _, hf2⟩ := compileNewScope_total_Fc (e' :: es) (by simp) he.2 isFn c oldtail g1 hfn
    refine ⟨a ++ [.pop] ++ b, tb, g2, ?_, by simp, hf1.trans hf2⟩
    rw [compileNewScope]
    · simp only [g_bind_ok, g_pure_ok]
      exact ⟨_, _, ha, _, _, hb, rfl⟩
    · intro hh; cases hh
theorem compileBinds_total_Fc : ∀ (bs : List (String × Expr)), FcBinds bs = true → ∀ isFn c seq gs, c.funcname = "" →
    ∃ code t gs', (compileBinds isFn c seq bs).run gs = .ok ((code, t), gs') ∧ GExt gs gs'
  | [], _, isFn, c, seq, gs, hfn => ⟨[], c.tail, gs, by rw [compileBinds]; rfl, GExt.refl _⟩
  | (x, e) :: bs, he, isFn, c, seq, gs, hfn => by
    rw [FcBinds] at he
    simp only [Bool.and_eq_true] at he
    obtain ⟨a, ta, g1, ha, _, hf1⟩ := compile_total_Fc e he.1.2 isFn c gs hfn
    obtain ⟨b, tb, g2, hb, hf2⟩ := compileBinds_total_Fc bs he.2 isFn { c with tail := ta } seq g1 hfn
    refine ⟨a ++ (if seq then [.popStackPutEnv x] else []) ++ b, tb, g2, ?_, hf1.trans hf2⟩
    rw [compileBinds]
    simp only [g_bind_ok, g_pure_ok]
    exact ⟨_, _, ha, _, _, hb, rfl⟩
theorem compileAll_total_Fc : ∀ (es : List Expr), FcList es = true → ∀ isFn c gs, c.funcname = "" →
    ∃ code t gs', (compileAll isFn c es).run gs = .ok ((code, t), gs') ∧ GExt gs gs'
  | [], _, isFn, c, gs, hfn => ⟨[], c.tail, gs, by rw [compileAll]; rfl, GExt.refl _⟩
  | e :: es, he, isFn, c, gs, hfn => by
    rw [FcList] at he
    simp only [Bool.and_eq_true] at he
    obtain ⟨a, ta, g1, ha, _, hf1⟩ := compile_total_Fc e he.1 isFn c gs hfn
    obtain ⟨b, tb, g2, hb, hf2⟩ := compileAll_total_Fc es he.2 isFn { c with tail := ta } g1 hfn
    refine ⟨a ++ b, tb, g2, ?_, hf1.trans hf2⟩
    rw [compileAll]
    simp only [g_bind_ok, g_pure_ok]
    exact ⟨_, _, ha, _, _, hb, rfl⟩
theorem compileArms_total_Fc : ∀ (arms : List (Expr × Expr)), FcArms arms = true → ∀ isFn c gs, c.funcname = "" →
    ∃ as gs', (compileArms isFn c arms).run gs = .ok (as, gs') ∧ GExt gs gs'
  | [], _, isFn, c, gs, hfn => ⟨[], gs, by rw [compileArms]; rfl, GExt.refl _⟩
  | (p, b) :: arms, he, isFn, c, gs, hfn => by
    rw [FcArms] at he
    simp only [Bool.and_eq_true] at he
    obtain ⟨r, g1, hr, hf1⟩ := compileArms_total_Fc arms he.2 isFn c gs hfn
    obtain ⟨pc, _, g2, hp, _, hf2⟩ := compile_total_Fc p he.1.1 isFn { c with tail := false } g1 hfn
    obtain ⟨bc, _, g3, hb, _, hf3⟩ := compile_total_Fc b he.1.2 isFn c g2 hfn
    refine ⟨(pc, bc) :: r, g3, ?_, (hf1.trans hf2).trans hf3⟩
    rw [compileArms]
    simp only [g_bind_ok, g_pure_ok]
    exact ⟨_, _, hr, _, _, hp, _, _, hb, rfl⟩
end

/-- whatever `compile` returns for an Fc expression is non-empty code -/
theorem compile_ne_nil_Fc {e : Expr} (he : Fc e = true) {isFn c gs r}
    (h : (compile isFn c e).run gs = .ok r) (hfn : c.funcname = "") : r.1.1 ≠ [] := by
  obtain ⟨code, t, g1, h1, hne, _⟩ := compile_total_Fc e he isFn c gs hfn
  rw [h1] at h
  injection h with h
  subst h
  exact hne

/-! ## Atoms, `def`, `set` -/

theorem simC_push {s : St} {rs : Ref.St} {env : Nat} {pre post : List Instr} (v : Val) (hv : Clean v)
    (hrel : RelC s rs env) (h : Seg s pre [.push v] post) : SimC [.push v] s rs env (.ok v rs) :=
  ⟨s.jmp (s.pc + 1) (some v :: s.data), (reach_push h.head).toX, ⟨rfl, by simp, rfl⟩, hrel.jmp _ _,
    FramesExt.refl rs, Frame.jmp _ _ _, hv⟩

/-- what a lookup finds is a binding of the frame it names -/
theorem ref_lookupIn_sound (frames : List Ref.Frame) (x : String) : ∀ fuel env id w,
    Ref.lookupIn frames fuel env x = some (id, w) → (frames.getD id {}).vars.lookup x = some w
  | 0, _, _, _, h => by simp [Ref.lookupIn] at h
  | fuel + 1, env, id, w, h => by
    rw [Ref.lookupIn] at h
    cases hf : frames[env]? with
    | none => rw [hf] at h; cases h
    | some fr =>
      rw [hf] at h
      simp only at h
      cases hl : fr.vars.lookup x with
      | some v =>
        rw [hl] at h
        simp only [Option.some.injEq, Prod.mk.injEq] at h
        obtain ⟨rfl, rfl⟩ := h
        rw [List.getD_eq_getElem?_getD, hf]; exact hl
      | none =>
        rw [hl] at h
        simp only at h
        cases hp : fr.parent with
        | none => rw [hp] at h; cases h
        | some p => rw [hp] at h; exact ref_lookupIn_sound frames x fuel p id w h

theorem simC_sym {s : St} {rs : Ref.St} {env : Nat} {pre post : List Instr} (x : String) (n : Nat)
    (hrel : RelC s rs env) (h : Seg s pre [.envToStack x] post) :
    SimC [.envToStack x] s rs env (Ref.eval (n + 1) (.sym x) env rs) := by
  rw [Ref.eval]
  have hl := hrel.lexLookup x
  cases hr : Ref.lookup rs env x with
  | none =>
    rw [hr] at hl
    simp only [SimC]
    have : Fails 1 s s.trace := Fails.step h.head (fun f => by rw [exec_envToStack, hl])
    rw [hrel.trace] at this
    exact this.toX
  | some r =>
    obtain ⟨id, v⟩ := r
    rw [hr] at hl
    simp only [SimC]
    exact ⟨s.jmp (s.pc + 1) (some v :: s.data),
      (Reach.step h.head (fun f => by rw [exec_envToStack, hl])).toX,
      ⟨rfl, by simp, rfl⟩, hrel.jmp _ _, FramesExt.refl rs, Frame.jmp _ _ _,
      hrel.clean.1 id x v (ref_lookupIn_sound _ x _ _ id v hr)⟩

/-- `popStackPutEnv x` with `v` on top of the data stack, in related states -/
theorem psp_stepC {s₁ : St} {rs₁ : Ref.St} {env : Nat} {P Q : List Instr} {x : String} {v : Val}
    {D : List (Option Val)} (a : At s₁ P (.popStackPutEnv x) Q) (hd : s₁.data = some v :: D) (rel1 : RelC s₁ rs₁ env)
    (hx : okBinder x = true) (hcv : Clean v) :
    match Ref.define rs₁ env x v with
    | some rs₂ => Reach 1 1 s₁ ((s₁.jmp (s₁.pc + 1) D).bind env x v)
        ∧ RelC ((s₁.jmp (s₁.pc + 1) D).bind env x v) rs₂ env ∧ FramesExt rs₁ rs₂
    | none => Fails 1 s₁ rs₁.trace := by
  obtain ⟨rest, hlin⟩ := rel1.chain.head
  have hlt := rel1.chain.lt
  obtain ⟨fr, hfr⟩ : ∃ fr, rs₁.frames[env]? = some fr := ⟨rs₁.frames[env], by simp [hlt]⟩
  have hv := rel1.vars env x
  rw [List.getD_eq_getElem?_getD, hfr, Option.getD_some] at hv
  have hx' : ∀ f, (exec (f + 1) (.popStackPutEnv x)).run s₁ = (bindTop x v).run (s₁.jmp (s₁.pc + 1) D) :=
    fun f => exec_popStackPutEnv f x _ v D hd
  have hb := run_bindTop x v (s₁.jmp (s₁.pc + 1) D)
  rw [show (s₁.jmp (s₁.pc + 1) D).linear = some env :: rest from hlin] at hb
  simp only at hb
  rw [show scopeOf (s₁.jmp (s₁.pc + 1) D) env = scopeOf s₁ env from rfl, hv,
    show (s₁.jmp (s₁.pc + 1) D).heap = rs₁.heap from rel1.heap] at hb
  rw [ref_define_eq rs₁ env x v fr hfr]
  have hok : (bindTop x v).run (s₁.jmp (s₁.pc + 1) D) = (.ok (), (s₁.jmp (s₁.pc + 1) D).bind env x v) →
      Reach 1 1 s₁ ((s₁.jmp (s₁.pc + 1) D).bind env x v)
        ∧ RelC ((s₁.jmp (s₁.pc + 1) D).bind env x v) (Ref.setVar rs₁ env x v) env
        ∧ FramesExt rs₁ (Ref.setVar rs₁ env x v) := fun hb' =>
    ⟨Reach.step a (fun f => (hx' f).trans hb'), (rel1.jmp _ _).bind env hlt hx hcv, FramesExt.setVar _ _ _ _⟩
  have herr : (bindTop x v).run (s₁.jmp (s₁.pc + 1) D) = (.error .err, s₁.jmp (s₁.pc + 1) D) →
      Fails 1 s₁ rs₁.trace := fun hb' => by
    have hf := Fails.step a (fun f => (hx' f).trans hb')
    rw [show (s₁.jmp (s₁.pc + 1) D).trace = rs₁.trace from rel1.trace] at hf
    exact hf
  cases hl : fr.vars.lookup x with
  | none =>
    rw [hl] at hb
    exact hok hb
  | some cur =>
    rw [hl] at hb
    simp only at hb ⊢
    by_cases hrb : rebindOk rs₁.heap cur v = true
    · rw [if_pos hrb] at hb ⊢
      exact hok hb
    · rw [if_neg hrb] at hb ⊢
      exact herr hb

/-- `def x e`, after `e` has produced `v` -/
theorem simC_def_tail {s s₁ : St} {rs rs₁ : Ref.St} {env : Nat} {pre post ce : List Instr} {x : String} {v : Val}
    (h : Seg s pre (ce ++ [.dup, .popStackPutEnv x]) post) (hx : okBinder x = true)
    (r1 : ReachX s s₁) (l1 : Lands ce.length v s s₁) (rel1 : RelC s₁ rs₁ env) (ext1 : FramesExt rs rs₁)
    (fr1 : Frame s s₁) (hcv : Clean v) :
    SimC (ce ++ [.dup, .popStackPutEnv x]) s rs env
      (match Ref.define rs₁ env x v with | some s' => .ok v s' | none => .err rs₁) := by
  obtain ⟨r2, a3⟩ := glue_dup h l1
  have hlen : (ce ++ [Instr.dup, Instr.popStackPutEnv x]).length = ce.length + 1 + 1 := by simp
  have hp := psp_stepC a3 (D := some v :: s.data) rfl (rel1.jmp _ _) hx hcv
  cases hdef : Ref.define rs₁ env x v with
  | none =>
    rw [hdef] at hp
    simp only
    exact (FailsX.of_reach (r1.trans r2.toX) hp.toX)
  | some rs₂ =>
    rw [hdef] at hp
    obtain ⟨r3, rel3, ext3⟩ := hp
    simp only
    refine ⟨_, ((r1.trans r2.toX).trans r3.toX), ⟨l1.fn, ?_, rfl⟩, rel3,
      ext1.trans ext3, fr1.trans ((Frame.jmp _ _ _).trans ((Frame.jmp _ _ _).trans (Frame.bind _ _ _ _))), hcv⟩
    show s₁.pc + 1 + 1 = _
    rw [l1.pc, hlen]; push_cast; omega

/-- `set x e`, after `e` has produced `v` -/
theorem simC_set_tail {s s₁ : St} {rs rs₁ : Ref.St} {env : Nat} {pre post ce : List Instr} {x : String} {v : Val}
    (h : Seg s pre (ce ++ [.dup, .update x]) post) (hxb : okBinder x = true)
    (r1 : ReachX s s₁) (l1 : Lands ce.length v s s₁) (rel1 : RelC s₁ rs₁ env) (ext1 : FramesExt rs rs₁)
    (fr1 : Frame s s₁) (hcv : Clean v) :
    SimC (ce ++ [.dup, .update x]) s rs env
      (match Ref.lookup rs₁ env x with
       | some (fr, _) => .ok v (Ref.setVar rs₁ fr x v)
       | none => .ok v (Ref.setVar rs₁ env x v)) := by
  obtain ⟨r2, a3⟩ := glue_dup h l1
  obtain ⟨rest, hlin⟩ := rel1.chain.head
  have hlt := rel1.chain.lt
  obtain ⟨fr, hfr⟩ : ∃ fr, rs₁.frames[env]? = some fr := ⟨rs₁.frames[env], by simp [hlt]⟩
  have hv := rel1.vars env x
  rw [List.getD_eq_getElem?_getD, hfr, Option.getD_some] at hv
  have hlen : (ce ++ [Instr.dup, Instr.update x]).length = ce.length + 1 + 1 := by simp
  have hll : lexLookup (s₁.jmp (s₁.pc + 1 + 1) (some v :: s.data)) x = Ref.lookup rs₁ env x := by
    rw [lexLookup_jmp]; exact rel1.lexLookup x
  have hx : ∀ f, (exec (f + 1) (.update x)).run (s₁.jmp (s₁.pc + 1) (some v :: some v :: s.data))
      = match Ref.lookup rs₁ env x with
        | some (id, _) => (.ok (), (s₁.jmp (s₁.pc + 1 + 1) (some v :: s.data)).bind id x v)
        | none => (bindTop x v).run (s₁.jmp (s₁.pc + 1 + 1) (some v :: s.data)) := fun f => by
    rw [exec_update f x _ v (some v :: s.data) rfl]
    show (match lexLookup (s₁.jmp (s₁.pc + 1 + 1) (some v :: s.data)) x with
      | some (id, _) => _ | none => _) = _
    rw [hll]
    rfl
  have hok : ∀ id, id < rs₁.frames.length →
      (∀ f, (exec (f + 1) (.update x)).run (s₁.jmp (s₁.pc + 1) (some v :: some v :: s.data))
        = (.ok (), (s₁.jmp (s₁.pc + 1 + 1) (some v :: s.data)).bind id x v)) →
      SimC (ce ++ [.dup, .update x]) s rs env (.ok v (Ref.setVar rs₁ id x v)) := by
    intro id hid hx'
    refine ⟨(s₁.jmp (s₁.pc + 1 + 1) (some v :: s.data)).bind id x v, ?_, ⟨l1.fn, ?_, rfl⟩,
      (rel1.jmp _ _).bind id hid hxb hcv, ext1.trans (FramesExt.setVar _ _ _ _),
      fr1.trans ((Frame.jmp _ _ _).trans (Frame.bind _ _ _ _)), hcv⟩
    · exact ((r1.trans r2.toX).trans (Reach.step a3 hx').toX)
    · show s₁.pc + 1 + 1 = _
      rw [l1.pc, hlen]; push_cast; omega
  cases hl : Ref.lookup rs₁ env x with
  | some r =>
    obtain ⟨id, w⟩ := r
    simp only
    refine hok id (ref_lookupIn_lt _ x _ _ id w hl) (fun f => ?_)
    rw [hx f, hl]
  | none =>
    simp only
    refine hok env hlt (fun f => ?_)
    rw [hx f, hl]
    simp only
    have hb := run_bindTop x v (s₁.jmp (s₁.pc + 1 + 1) (some v :: s.data))
    rw [show (s₁.jmp (s₁.pc + 1 + 1) (some v :: s.data)).linear = some env :: rest from hlin] at hb
    simp only at hb
    rw [show scopeOf (s₁.jmp (s₁.pc + 1 + 1) (some v :: s.data)) env = scopeOf s₁ env from rfl, hv,
      ref_lookup_none_top rs₁ env x fr hfr hl] at hb
    exact hb

/-! ## Sequencing -/

theorem SimC.seq {code c₂ : List Instr} {s s₁' : St} {rs rs₁ : Ref.St} {env k : Nat} {res : Ref.R Val}
    (hreach : ReachX s s₁') (hmoved : Moved k s s₁') (hext : FramesExt rs rs₁) (hframe : Frame s s₁')
    (h₂ : SimC c₂ s₁' rs₁ env res) (hk : k + c₂.length = code.length) : SimC code s rs env res := by
  cases res with
  | ok v rs' =>
    obtain ⟨s₂, r, l, rel, ext, fr, hcl⟩ := h₂
    exact ⟨s₂, (hreach.trans r), hk ▸ hmoved.lands l, rel, hext.trans ext, hframe.trans fr, hcl⟩
  | err rs' => exact (FailsX.of_reach hreach h₂)
  | timeout => trivial
  | brk l rs' => exact h₂
  | cont l rs' => exact h₂

theorem SimC.prefix {code c₁ : List Instr} {s : St} {rs : Ref.St} {env : Nat} {res : Ref.R Val}
    (h₁ : SimC c₁ s rs env res) (hnot : ∀ v rs', res ≠ .ok v rs') :
    SimC code s rs env res := by
  cases res with
  | ok v rs' => exact absurd rfl (hnot v rs')
  | err rs' => exact h₁
  | timeout => trivial
  | brk l rs' => exact h₁
  | cont l rs' => exact h₁

theorem SimC.cond_exit {p b rest pre post : List Instr} {s s₁' : St} {rs rs₁ : Ref.St} {env : Nat} {res : Ref.R Val}
    (h : Seg s pre (p ++ [.branch false (b.length + 2)] ++ b ++ [.jump (rest.length + 1)] ++ rest) post)
    (hreach : ReachX s s₁') (hmoved : Moved (p.length + 1) s s₁') (hext : FramesExt rs rs₁) (hframe : Frame s s₁')
    (h₂ : SimC b s₁' rs₁ env res) :
    SimC (p ++ [.branch false (b.length + 2)] ++ b ++ [.jump (rest.length + 1)] ++ rest) s rs env res := by
  have hlen : (p ++ [Instr.branch false (b.length + 2)] ++ b ++ [Instr.jump (rest.length + 1)] ++ rest).length
      = p.length + 1 + b.length + 1 + rest.length := by simp; omega
  cases res with
  | ok v rs' =>
    obtain ⟨s₂, r, l, rel, ext, fr, hcl⟩ := h₂
    have l2 : Lands (p.length + 1 + b.length) v s s₂ := hmoved.lands l
    obtain ⟨r3, l3⟩ := glue_cond_exit h l2
    exact ⟨_, ((hreach.trans r).trans r3.toX), l3, rel.jmp _ _, hext.trans ext,
      (hframe.trans fr).trans (Frame.jmp _ _ _), hcl⟩
  | err rs' => exact (FailsX.of_reach hreach h₂)
  | timeout => trivial
  | brk l rs' => exact h₂
  | cont l rs' => exact h₂

theorem Frame.pushScope_inner {s s₃ : St} (h : Frame s.pushScope s₃) :
    s₃.popScope.linear = s.linear ∧ s₃.popScope.curfunc = s.curfunc ∧ s₃.popScope.addr = s.addr
      ∧ s₃.popScope.suspended = s.suspended :=
  ⟨by show s₃.linear.tail = _; rw [h.linear]; rfl, h.curfunc, h.addr, h.susp⟩

/-- `let`/`letseq`/`newScope`: `addScope`, the inner code in the fresh scope, `removeScope` -/
theorem SimC.scoped {inner pre post : List Instr} {s : St} {rs : Ref.St} {env : Nat} {res : Ref.R Val}
    (h : Seg s pre ([.addScope] ++ inner ++ [.removeScope]) post) (hrel : RelC s rs env)
    (hin : SimC inner s.pushScope (Ref.newFrame rs env).2 rs.frames.length res) :
    SimC ([.addScope] ++ inner ++ [.removeScope]) s rs env res := by
  obtain ⟨r1, m1⟩ := glue_addScope h
  have hlen : ([Instr.addScope] ++ inner ++ [Instr.removeScope]).length = 1 + inner.length + 1 := by simp; omega
  cases res with
  | ok v rs3 =>
    obtain ⟨s3, r, l, rel3, ext3, fr3, hcl⟩ := hin
    have l' : Lands (1 + inner.length) v s s3 := m1.lands l
    obtain ⟨rest, hlin⟩ := rel3.chain.head
    obtain ⟨f, hf, hp⟩ := ext3 rs.frames.length { parent := some env }
      (by show (rs.frames ++ [_])[rs.frames.length]? = _; simp)
    obtain ⟨r4, l4⟩ := glue_removeScope h l' hlin
    obtain ⟨hl, hc, ha, hs⟩ := fr3.pushScope_inner
    have hframe : Frame s s3.popScope :=
      ⟨hl, hc, ha, hs, fr3.fnsLen, fr3.fns, fr3.loopsLen, fr3.loops⟩
    refine ⟨_, ((r1.toX.trans r).trans r4.toX), l4,
      ⟨rel3.toRelCore.popScope f hf hp, ?_, rel3.globals, rel3.clean⟩, (FramesExt.newFrame rs env).trans ext3, hframe,
      hcl⟩
    rw [hc]
    exact hrel.fnchain.transfer ⟨[], by rw [hl]; rfl⟩ hframe.fnsLen hframe.fns
  | err rs3 => exact (FailsX.of_reach r1.toX hin)
  | timeout => trivial
  | brk l rs3 => exact hin
  | cont l rs3 => exact hin

/-- the relation only reads scopes, linear stack, function table, `curfunc`, frames, heaps and traces -/
theorem RelC.of_same {s s' : St} {rs rs' : Ref.St} {env : Nat} (h : RelC s rs env)
    (hsc : s'.scopes = s.scopes) (hlin : s'.linear = s.linear) (hfns : s'.fns = s.fns) (hcur : s'.curfunc = s.curfunc)
    (hfr : rs'.frames = rs.frames) (hheap : s'.heap = rs'.heap) (htr : s'.trace = rs'.trace) (hclean : CleanSt rs') :
    RelC s' rs' env := by
  have hso : ∀ i, scopeOf s' i = scopeOf s i := fun i => by unfold scopeOf; rw [hsc]
  have hfo : ∀ i, fnOf s' i = fnOf s i := fun i => by unfold fnOf; rw [hfns]
  refine ⟨⟨by rw [hsc, hfr]; exact h.len, fun i x => by rw [hso, hfr]; exact h.vars i x,
    fun i => by rw [hso]; exact h.nofn i, by rw [hfr, hlin]; exact h.chain, hheap, htr⟩, ?_, ?_, hclean⟩
  · rw [hcur]
    exact h.fnchain.transfer ⟨[], by rw [hlin]; rfl⟩ (by rw [hfns]; exact Nat.le_refl _) (fun id _ => hfo id)
  · intro name hn
    have := h.globals name hn
    rw [hfr]; exact this

/-! ## Operands: `EvalCallExpression` and its nested `Run` -/

/-- `Run` inside a helper function whose code is `code ++ [ret]`: the code lands with `v`, `ret`
returns to `pc = -1` of the caller, the loop stops there, `Run` pops `v`. -/
theorem run_helper_ok {s₃ s₄ : St} {code : List Instr} {v : Val} {cf : Nat} {A : List (Option (Nat × Int))}
    (hseg : Seg s₃ [] code [.ret]) (hr : ReachX s₃ s₄) (hl : Lands code.length v s₃ s₄)
    (ha : s₄.addr = some (cf, -1) :: A) :
    ∃ M, ∀ fuel, M ≤ fuel →
      (run fuel).run s₃ = (.ok v, { s₄ with addr := A, curfunc := cf, pc := -1, data := s₃.data }) := by
  obtain ⟨K, m, k, hk, H⟩ := hr
  refine ⟨m + k + 4, fun fuel hf => ?_⟩
  obtain ⟨F, rfl⟩ : ∃ F, fuel = ((F + 2) + k) + 1 := ⟨fuel - k - 3, by omega⟩
  have a4 : At s₄ code .ret [] := hseg.landed hl (c₁ := code) (by simp) rfl
  have hstep : (runLoop (F + 2) (capOf s₃)).run s₄
      = (runLoop (F + 1) (capOf s₃)).run { s₄ with addr := A, curfunc := cf, pc := -1 } :=
    runLoop_step a4 (F + 1) _ (by rw [exec_ret, ha])
  have hhalt : (runLoop (F + 1) (capOf s₃)).run { s₄ with addr := A, curfunc := cf, pc := -1 }
      = (.ok (), { s₄ with addr := A, curfunc := cf, pc := -1 }) :=
    runLoop_halt _ F _ (Or.inl rfl)
  have hloop : (runLoop ((F + 2) + k) (capOf s₃)).run s₃ = (.ok (), { s₄ with addr := A, curfunc := cf, pc := -1 }) := by
    rw [H (F + 2) (by omega) _, hstep, hhalt]
  rw [run]
  simp only [run_bind, run_capture, hloop, run_get, hl.data, List.isEmpty_cons, Bool.false_eq_true, if_false,
    run_pure, run_popData]

/-- `Run` over code that ends in a script error -/
theorem run_of_failsE {s : St} {tr : List String} (h : FailsX s tr) :
    ∃ M, ∀ fuel, M ≤ fuel → ∃ sf, (run fuel).run s = (.error .err, sf) ∧ sf.trace = tr := by
  obtain ⟨K, k, hk, m, H⟩ := h
  refine ⟨m + k + 1, fun fuel hf => ?_⟩
  obtain ⟨f, rfl⟩ : ∃ f, fuel = (f + k) + 1 := ⟨fuel - k - 1, by omega⟩
  obtain ⟨sf, hrun, htr⟩ := H f (by omega) (capOf s)
  refine ⟨sf, ?_, htr⟩
  rw [run]
  simp only [run_bind, run_capture, hrun]

/-- the helper function `EvalCallExpression` makes for an operand -/
def helperFn (s : St) (code : List Instr) : FnObj :=
  { name := "callExprEval", code := code ++ [.ret], closing := closingNow s, parent := some s.curfunc }

/-- the state in which the helper starts: function registered, `pc := -2`, then `CallFunction` -/
def inHelper (s : St) (code : List Instr) : St :=
  { s with fns := s.fns ++ [helperFn s code], addr := some (s.curfunc, -1) :: s.addr,
           curfunc := s.fns.length, pc := 0 }

theorem fnOf_inHelper_self (s : St) (code : List Instr) :
    fnOf (inHelper s code) (inHelper s code).curfunc = helperFn s code := by
  show (s.fns ++ [helperFn s code]).getD s.fns.length {} = _
  simp

theorem fnOf_inHelper_old (s : St) (code : List Instr) (id : Nat) (hid : id < s.fns.length) :
    fnOf (inHelper s code) id = fnOf s id := by
  show (s.fns ++ [helperFn s code]).getD id {} = s.fns.getD id {}
  simp only [List.getD_eq_getElem?_getD, List.getElem?_append_left hid]

theorem seg_inHelper (s : St) (code : List Instr) : Seg (inHelper s code) [] code [.ret] :=
  ⟨by rw [fnOf_inHelper_self]; rfl, by rw [fnOf_inHelper_self]; rfl, rfl⟩

/-- the helper sees the same scopes; its closing list is the whole linear stack -/
theorem relC_inHelper {s : St} {rs : Ref.St} {env : Nat} (h : RelC s rs env) (code : List Instr) :
    RelC (inHelper s code) rs env := by
  refine ⟨⟨h.len, h.vars, h.nofn, h.chain, h.heap, h.trace⟩, ?_, h.globals, h.clean⟩
  have hold : FnChainOk (inHelper s code) s.curfunc :=
    h.fnchain.transfer (s' := inHelper s code) ⟨[], rfl⟩ (by show s.fns.length ≤ (s.fns ++ [_]).length; simp)
      (fun id hid => fnOf_inHelper_old s code id hid)
  refine FnChainOk.step _ s.curfunc (by show s.fns.length < (s.fns ++ [_]).length; simp) ?_ ?_ hold
  · rw [fnOf_inHelper_self]; rfl
  · rw [fnOf_inHelper_self]
    exact ⟨[], by show s.linear = [] ++ closingNow s; rw [closingNow_nofn s h.nofn]; rfl⟩

/-- `EvalCallExpression` on an operand that is not a symbol: compile, register the helper, run it
in a nested `Run`, restore the control state. -/
theorem evalCallExpr_nonsym (fuel : Nat) (e : Expr) (hns : ∀ x, e ≠ .sym x) (s0 s : St) (code : List Instr) (t : Bool)
    (hgen : (runGen (compile (isFnScope s0) {} e)).run s0 = (.ok (code, t), s)) (hne : code ≠ []) :
    (evalCallExpr (fuel + 2) e).run s0 =
      match (run fuel).run (inHelper s code) with
      | (.ok v, s') => (.ok v, ((restore (capOf s)).run s').2)
      | (.error .err, s') => (.error .err, ((restore (capOf s)).run s').2)
      | (.error flt, s') => (.error flt, s') := by
  rw [evalCallExpr]
  · have hemp : code.isEmpty = false := by simpa [List.isEmpty_eq_false_iff] using hne
    have hfo : ({ name := "callExprEval", code := code ++ [Instr.ret], closing := closingNow s, parent := some (capOf s).curfunc } : FnObj) = helperFn s code := rfl
    simp only [run_bind, run_get, hgen, hemp, Bool.false_eq_true, if_false, run_capture, run_mkFunction, run_modify,
      hfo]
    rw [nested]
    simp only [run_bind, run_get]
    have hcf : (callFunction s.fns.length 0).run
        { s with fns := s.fns ++ [helperFn s code], pc := -2 } = (.ok (), inHelper s code) := by
      rw [run_callFunction0]
      · rfl
      · show ((s.fns ++ [helperFn s code]).getD s.fns.length {}).varargs = false
        simp [helperFn]
      · show ((s.fns ++ [helperFn s code]).getD s.fns.length {}).nargs = 0
        simp [helperFn]
    simp only [run_bind, hcf]
    rcases hrun : (run fuel).run (inHelper s code) with ⟨r, s'⟩
    cases r with
    | ok v =>
      simp only [run_set, run_bind, run_pure]
      have : (restore (capOf s)).run s' = (.ok (), ((restore (capOf s)).run s').2) := by
        unfold restore; rw [run_modify]
      rw [this]
    | error flt =>
      cases flt with
      | err =>
        simp only [run_set, run_bind, run_throw]
        have : (restore (capOf s)).run s' = (.ok (), ((restore (capOf s)).run s').2) := by
          unfold restore; rw [run_modify]
        rw [this]
      | panic => simp only [run_set, run_bind, run_throw]
      | timeout => simp only [run_set, run_bind, run_throw]
  · intro x hx; exact hns x hx

/-- `EvalCallExpression` against `Ref.eval`: the value, control state as before, related states -/
def EvalOk (e : Expr) (s : St) (rs : Ref.St) (env : Nat) (res : Ref.R Val) : Prop :=
  match res with
  | .ok v rs' => ∃ M s', (∀ fuel, M ≤ fuel → (evalCallExpr fuel e).run s = (.ok v, s'))
      ∧ s'.data = s.data ∧ s'.pc = s.pc ∧ RelC s' rs' env ∧ FramesExt rs rs' ∧ Frame s s' ∧ Clean v
  | .err rs' => ∃ M, ∀ fuel, M ≤ fuel → ∃ se, (evalCallExpr fuel e).run s = (.error .err, se) ∧ se.trace = rs'.trace
  | .timeout => True
  | .brk _ _ => False
  | .cont _ _ => False

theorem evalCallExpr_sym_sim (x : String) (n : Nat) {s : St} {rs : Ref.St} {env : Nat} (hrel : RelC s rs env) :
    EvalOk (.sym x) s rs env (Ref.eval n (.sym x) env rs) := by
  cases n with
  | zero => rw [Ref.eval]; trivial
  | succ n =>
    rw [Ref.eval]
    have hl := hrel.lexLookup x
    have hrun : ∀ fuel, (evalCallExpr (fuel + 1) (.sym x)).run s = match lexLookup s x with
        | some (_, v) => (.ok v, s) | none => (.error .err, s) := by
      intro fuel
      rw [evalCallExpr]
      simp only [run_bind, run_get]
      cases lexLookup s x with
      | none => simp only [run_err]
      | some r => obtain ⟨i, v⟩ := r; simp only [run_pure]
    cases hr : Ref.lookup rs env x with
    | none =>
      rw [hr] at hl
      refine ⟨1, fun fuel hf => ?_⟩
      obtain ⟨f, rfl⟩ : ∃ f, fuel = f + 1 := ⟨fuel - 1, by omega⟩
      exact ⟨s, by rw [hrun, hl], hrel.trace⟩
    | some r =>
      obtain ⟨i, v⟩ := r
      rw [hr] at hl
      refine ⟨1, s, fun fuel hf => ?_, rfl, rfl, hrel, FramesExt.refl rs, Frame.refl s,
        hrel.clean.1 i x v (ref_lookupIn_sound _ x _ _ i v hr)⟩
      obtain ⟨f, rfl⟩ : ∃ f, fuel = f + 1 := ⟨fuel - 1, by omega⟩
      rw [hrun, hl]

/-- the VM state with the loop table and compile-time loop stack the generator left -/
def withLoops (s : St) (gs' : GS) : St := { s with loops := gs'.loops, loopstack := gs'.loopstack }

/-- the generator succeeded without touching the function table: `runGen` returns its result and
stores the loop records -/
theorem run_runGen_any {α} (g : G α) (s : St) (a : α) (gs' : GS)
    (h : g.run { fns := s.fns, loops := s.loops, loopstack := s.loopstack, live := s.linear } = .ok (a, gs'))
    (hf : gs'.fns = s.fns) : (runGen g).run s = (.ok a, withLoops s gs') := by
  unfold runGen
  simp only [run_bind, run_get, h, run_set, run_pure, hf]
  rfl

/-- an operand that is not a symbol, given the segment lemma for it at the same reference fuel -/
theorem evalCallExpr_nonsym_sim {n : Nat} (hE : CClaimE n) (e : Expr) (he : Fc e = true) (hns : ∀ x, e ≠ .sym x)
    {s0 : St} {rs : Ref.St} {env : Nat} (hrel0 : RelC s0 rs env) :
    EvalOk e s0 rs env (Ref.eval n e env rs) := by
  obtain ⟨code, t, gs', hc, hne, hfns⟩ := compile_total_Fc e he (isFnScope s0) {}
    { fns := s0.fns, loops := s0.loops, loopstack := s0.loopstack, live := s0.linear } rfl
  -- the generator may have registered loop records (a `for` inside the operand): `s` is `s0` with them
  have hgen : (runGen (compile (isFnScope s0) {} e)).run s0 = (.ok (code, t), withLoops s0 gs') :=
    run_runGen_any _ s0 _ gs' hc hfns.fns
  generalize hs : withLoops s0 gs' = s at hgen
  have hrel : RelC s rs env := by
    subst hs; exact hrel0.of_same rfl rfl rfl rfl rfl hrel0.heap hrel0.trace hrel0.clean
  have hs0 : Frame s0 s ∧ s.data = s0.data ∧ s.pc = s0.pc := by
    subst hs; exact ⟨⟨rfl, rfl, rfl, rfl, Nat.le_refl _, fun _ _ => rfl, hfns.len, hfns.loops⟩, rfl, rfl⟩
  have hseg := seg_inHelper s code
  have hsim := hE e he (isFnScope s0) {} _ ((code, t), _) hc rfl (inHelper s code) rs env [] [.ret]
    (relC_inHelper hrel code) hseg
  have hunf := fun fuel => evalCallExpr_nonsym fuel e hns s0 s code t hgen hne
  cases hres : Ref.eval n e env rs with
  | ok v rs' =>
    rw [hres] at hsim
    obtain ⟨s4, r, l, rel4, ext4, fr4, hcl4⟩ := hsim
    have ha4 : s4.addr = some (s.curfunc, -1) :: s.addr := fr4.addr
    obtain ⟨M, hM⟩ := run_helper_ok hseg r l ha4
    -- the state after `Run`, and after restoring the control state
    have hbal := run_restore_balanced (capOf s)
      { s4 with addr := s.addr, curfunc := s.curfunc, pc := -1, data := (inHelper s code).data }
      (by show s4.suspended.length = s.suspended.length; rw [fr4.susp]; rfl) rfl
      (by show s4.linear.length = s.linear.length; rw [fr4.linear]; rfl) rfl
    refine ⟨M + 2, { s4 with addr := s.addr, curfunc := s.curfunc, pc := s.pc, data := s.data }, fun fuel hf => ?_,
      hs0.2.1, hs0.2.2, ?_, ext4, ?_, hcl4⟩
    · obtain ⟨f, rfl⟩ : ∃ f, fuel = f + 2 := ⟨fuel - 2, by omega⟩
      rw [hunf f, hM f (by omega)]
      simp only [hbal]
      rfl
    · refine ⟨⟨rel4.len, rel4.vars, rel4.nofn, ?_, rel4.heap, rel4.trace⟩, ?_, rel4.globals, rel4.clean⟩
      · have := rel4.chain; rw [fr4.linear] at this ⊢; exact this
      · exact hrel.fnchain.transfer (s' := { s4 with addr := s.addr, curfunc := s.curfunc, pc := s.pc, data := s.data })
          ⟨[], by show s4.linear = _; rw [fr4.linear]; rfl⟩
          (Nat.le_trans (by show s.fns.length ≤ (s.fns ++ [_]).length; simp) fr4.fnsLen)
          (fun id hid => (fr4.fns id (by show id < (s.fns ++ [_]).length; simp; omega)).trans
            (fnOf_inHelper_old s code id hid))
    · exact hs0.1.trans ⟨fr4.linear, rfl, rfl, fr4.susp,
        Nat.le_trans (by show s.fns.length ≤ (s.fns ++ [_]).length; simp) fr4.fnsLen,
        fun id hid => (fr4.fns id (by show id < (s.fns ++ [_]).length; simp; omega)).trans
          (fnOf_inHelper_old s code id hid), fr4.loopsLen, fr4.loops⟩
  | err rs' =>
    rw [hres] at hsim
    obtain ⟨M, hM⟩ := run_of_failsE hsim
    refine ⟨M + 2, fun fuel hf => ?_⟩
    obtain ⟨f, rfl⟩ : ∃ f, fuel = f + 2 := ⟨fuel - 2, by omega⟩
    obtain ⟨sf, hrun, htr⟩ := hM f (by omega)
    refine ⟨_, by rw [hunf f, hrun], ?_⟩
    rw [restore_trace]; exact htr
  | timeout => trivial
  | brk l rs' => rw [hres] at hsim; exact hsim
  | cont l rs' => rw [hres] at hsim; exact hsim

theorem evalCallExpr_sim {n : Nat} (hE : CClaimE n) (e : Expr) (he : Fc e = true)
    {s : St} {rs : Ref.St} {env : Nat} (hrel : RelC s rs env) :
    EvalOk e s rs env (Ref.eval n e env rs) := by
  cases e with
  | sym x => exact evalCallExpr_sym_sim x n hrel
  | _ => exact evalCallExpr_nonsym_sim hE _ he (fun x hx => by cases hx) hrel

/-! ## The operands of a call -/

theorem ref_evalArgs_length : ∀ (n : Nat) (es : List Expr) (i : Nat) (env : Nat) (rs : Ref.St) (vs : List Val)
    (rs' : Ref.St), Ref.evalArgs n es i (fun _ => false) env rs = .ok vs rs' → vs.length = es.length
  | 0, es, i, env, rs, vs, rs', h => by rw [Ref.evalArgs] at h; cases h
  | n + 1, [], i, env, rs, vs, rs', h => by
    rw [Ref.evalArgs] at h
    · injection h with h1 _; subst h1; rfl
    · omega
  | n + 1, e :: es, i, env, rs, vs, rs', h => by
    rw [Ref.evalArgs] at h
    simp only [Bool.false_eq_true, if_false] at h
    cases h1 : Ref.eval n e env rs with
    | ok v rs1 =>
      rw [h1] at h
      simp only at h
      cases h2 : Ref.evalArgs n es (i + 1) (fun _ => false) env rs1 with
      | ok vs2 rs2 =>
        rw [h2] at h
        simp only at h
        injection h with h3 _
        subst h3
        simp [ref_evalArgs_length n es (i + 1) env rs1 vs2 rs2 h2]
      | err _ => rw [h2] at h; cases h
      | timeout => rw [h2] at h; cases h
      | brk _ _ => rw [h2] at h; cases h
      | cont _ _ => rw [h2] at h; cases h
    | err _ => rw [h1] at h; cases h
    | timeout => rw [h1] at h; cases h
    | brk _ _ => rw [h1] at h; cases h
    | cont _ _ => rw [h1] at h; cases h

theorem cclaimA_succ {n : Nat} (hE : CClaimE n) (hA : CClaimA n) : CClaimA (n + 1) := by
  intro args hargs i s rs env hrel
  match args with
  | [] =>
    rw [Ref.evalArgs]
    · refine ⟨1, s, fun fuel hf => ?_, by simp, rfl, hrel, FramesExt.refl rs, Frame.refl s, fun v hv => by cases hv⟩
      obtain ⟨f, rfl⟩ : ∃ f, fuel = f + 1 := ⟨fuel - 1, by omega⟩
      rw [prepareArgs]
      · rfl
      · omega
    · omega
  | e :: es =>
    rw [FcList] at hargs
    simp only [Bool.and_eq_true] at hargs
    rw [Ref.evalArgs]
    simp only [Bool.false_eq_true, if_false]
    have hunf : ∀ fuel, (prepareArgs (fuel + 1) none i (e :: es)).run s
        = match (evalCallExpr fuel e).run s with
          | (.ok v, s1) => (prepareArgs fuel none (i + 1) es).run (s1.jmp s1.pc (some v :: s1.data))
          | (.error flt, s1) => (.error flt, s1) := by
      intro fuel
      rw [prepareArgs]
      simp only [Bool.false_eq_true, if_false, run_bind]
      rcases (evalCallExpr fuel e).run s with ⟨r, s1⟩
      cases r with
      | ok v => simp only [run_pushData]; rfl
      | error flt => rfl
    have he := evalCallExpr_sim hE e hargs.1 hrel
    cases h1 : Ref.eval n e env rs with
    | ok v rs1 =>
      rw [h1] at he
      obtain ⟨M1, s1, hM1, hd1, hp1, rel1, ext1, fr1, hcl1⟩ := he
      simp only
      have ih := hA es hargs.2 (i + 1) (s1.jmp s1.pc (some v :: s1.data)) rs1 env (rel1.jmp _ _)
      cases h2 : Ref.evalArgs n es (i + 1) (fun _ => false) env rs1 with
      | ok vs rs2 =>
        rw [h2] at ih
        obtain ⟨M2, s2, hM2, hd2, hp2, rel2, ext2, fr2, hcl2⟩ := ih
        refine ⟨max M1 M2 + 1, s2, fun fuel hf => ?_, ?_, by rw [hp2]; exact hp1, rel2, ext1.trans ext2,
          fr1.trans ((Frame.jmp _ _ _).trans fr2), fun w hw => ?_⟩
        rotate_left 2
        · rcases List.mem_cons.mp hw with rfl | hw
          · exact hcl1
          · exact hcl2 w hw
        · obtain ⟨f, rfl⟩ : ∃ f, fuel = f + 1 := ⟨fuel - 1, by omega⟩
          rw [hunf f, hM1 f (by omega)]
          exact hM2 f (by omega)
        · rw [hd2]; show _ ++ (some v :: s1.data) = _; rw [hd1]; simp
      | err rs2 =>
        rw [h2] at ih
        obtain ⟨M2, hM2⟩ := ih
        refine ⟨max M1 M2 + 1, fun fuel hf => ?_⟩
        obtain ⟨f, rfl⟩ : ∃ f, fuel = f + 1 := ⟨fuel - 1, by omega⟩
        obtain ⟨se, hse, htr⟩ := hM2 f (by omega)
        exact ⟨se, by rw [hunf f, hM1 f (by omega)]; exact hse, htr⟩
      | timeout => trivial
      | brk l rs2 => rw [h2] at ih; exact ih
      | cont l rs2 => rw [h2] at ih; exact ih
    | err rs1 =>
      rw [h1] at he
      obtain ⟨M1, hM1⟩ := he
      refine ⟨M1 + 1, fun fuel hf => ?_⟩
      obtain ⟨f, rfl⟩ : ∃ f, fuel = f + 1 := ⟨fuel - 1, by omega⟩
      obtain ⟨se, hse, htr⟩ := hM1 f (by omega)
      exact ⟨se, by rw [hunf f, hse], htr⟩
    | timeout => trivial
    | brk l rs1 => rw [h1] at he; exact he
    | cont l rs1 => rw [h1] at he; exact he

/-! ## The call instruction -/

/-- `CallExprInstr` whose callee symbol denotes a builtin: `CallResolved`'s guarded
`PrepareCallExprArgs; CallUserFunction` -/
theorem exec_callExpr_builtin (F : Nat) (h : String) (args : List Expr) (s : St) (i : Nat)
    (hl : lexLookup s h = some (i, .builtin h)) :
    (exec (F + 3) (.callExpr (.sym h) args)).run s =
      match ((prepareArgs (F + 1) none 0 args >>= fun _ => callUser (F + 1) h args.length : M Unit).run s) with
      | (.ok _, s') => (.ok (), s')
      | (.error .err, s') => (.error .err, { s' with data := truncate s'.data s.data.length })
      | (.error flt, s') => (.error flt, s') := by
  rw [exec]
  have he : (evalCallExpr (F + 2) (.sym h)).run s = (.ok (.builtin h), s) := by
    rw [evalCallExpr]
    simp only [run_bind, run_get, hl, run_pure]
  simp only [run_bind, he]
  rw [callResolved]
  rcases hp : (prepareArgs (F + 1) none 0 args).run s with ⟨rp, s1⟩
  cases rp with
  | error flt =>
    cases flt <;> simp only [run_bind, hp, run_get, run_set, run_throw, run_modify, run_pure]
  | ok u =>
    rcases hcu : (callUser (F + 1) h args.length).run s1 with ⟨rc, s2⟩
    cases rc with
    | ok u2 => simp only [run_bind, hp, hcu, run_get, run_set, run_throw, run_modify, run_pure]
    | error flt =>
      cases flt <;> simp only [run_bind, hp, hcu, run_get, run_set, run_throw, run_modify, run_pure]

theorem foBuiltins_prim {h : String} (hh : h ∈ foBuiltins) (ht : h ≠ "trace") : h ∈ primNames := by
  have : foBuiltins = primNames ++ ["trace"] := rfl
  rw [this] at hh
  rcases List.mem_append.mp hh with hh | hh
  · exact hh
  · simp at hh; exact absurd hh ht

/-- **A call of a first-order builtin**: callee by lookup, operands by nested runs, the builtin
under `CallUserFunction` — against `eval f`, `evalArgs`, `applyFn` of the reference evaluator. -/
theorem simC_call {m : Nat} (hA : CClaimA (m + 1)) (h : String) (hh : h ∈ foBuiltins) (args : List Expr)
    (hargs : FcList args = true) {s : St} {rs : Ref.St} {env : Nat} {pre post : List Instr}
    (hrel : RelC s rs env) (hseg : Seg s pre [.callExpr (.sym h) args] post) :
    SimC [.callExpr (.sym h) args] s rs env (Ref.eval (m + 2) (.call (.sym h) args) env rs) := by
  have hlook := hrel.lookup_fo hh
  have hlex : lexLookup s h = some (0, .builtin h) := by rw [hrel.lexLookup]; exact hlook
  rw [Ref.eval, Ref.eval]
  simp only [hlook, isFunction, Bool.false_eq_true, if_false, Bool.not_true]
  have hprep := hA args hargs 0 s rs env hrel
  have hexec := fun F => exec_callExpr_builtin F h args s 0 hlex
  cases h1 : Ref.evalArgs (m + 1) args 0 (fun _ => false) env rs with
  | ok vs rs1 =>
    rw [h1] at hprep
    obtain ⟨M, s1, hM, hd1, hp1, rel1, ext1, fr1, hclvs⟩ := hprep
    simp only
    have hlen : args.length = vs.length := (ref_evalArgs_length _ _ _ _ _ _ _ h1).symm
    have hcu := fun f => run_callUser_fo f h hh vs s.data s1 hd1
    rw [ref_applyFn_fo m h hh vs rs1]
    have hcurlt := hrel.fnchain.lt
    have hheapb : (inBuiltin s1 s.data).heap = rs1.heap := rel1.heap
    have htrb : (inBuiltin s1 s.data).trace = rs1.trace := rel1.trace
    -- the successful case, uniformly in the new heap and trace
    have hok : ∀ (v : Val) (s3 : St) (rsF : Ref.St), foResult h vs (inBuiltin s1 s.data) = (.ok v, s3) →
        s3.scopes = s1.scopes → s3.linear = s1.linear → s3.fns = s1.fns → s3.suspended = s1.suspended →
        s3.loops = s1.loops →
        rsF.frames = rs1.frames → s3.heap = rsF.heap → s3.trace = rsF.trace → CleanSt rsF → Clean v →
        SimC [.callExpr (.sym h) args] s rs env (.ok v rsF) := by
      intro v s3 rsF hres hsc hlin hfns hsus hlps hfr hheap htr hclF hclv
      let sF : St := { s3 with data := some v :: s.data, addr := s1.addr, curfunc := s1.curfunc, pc := s1.pc + 1 }
      have hx : ∀ f, M + 3 ≤ f → (exec (f + 1) (.callExpr (.sym h) args)).run s = (.ok (), sF) := by
        intro f hf
        obtain ⟨G, rfl⟩ : ∃ G, f = G + 3 := ⟨f - 3, by omega⟩
        rw [hexec (G + 1), run_bind, hM (G + 1 + 1) (by omega)]
        simp only
        rw [hlen, hcu G, hres]
      have hrelF : RelC sF rsF env := rel1.of_same hsc hlin hfns rfl hfr hheap htr hclF
      have hfnF : fnOf sF sF.curfunc = fnOf s s.curfunc := by
        show s3.fns.getD s1.curfunc {} = _
        rw [hfns, fr1.curfunc]; exact fr1.fns _ hcurlt
      refine ⟨sF, ReachX.step hseg.head (M + 3) hx, ⟨hfnF, by show s1.pc + 1 = _; rw [hp1]; simp, rfl⟩, hrelF,
        ext1.trans (fun i fr hf => ⟨fr, by rw [hfr]; exact hf, rfl⟩),
        ⟨hlin.trans fr1.linear, fr1.curfunc, fr1.addr, hsus.trans fr1.susp,
          by show s.fns.length ≤ s3.fns.length; rw [hfns]; exact fr1.fnsLen,
          fun id hid => by show s3.fns.getD id {} = _; rw [hfns]; exact fr1.fns id hid,
          by show s.loops.length ≤ s3.loops.length; rw [hlps]; exact fr1.loopsLen,
          fun id hid => by show s3.loops.getD id {} = _; rw [hlps]; exact fr1.loops id hid⟩, hclv⟩
    by_cases ht : h = "trace"
    · simp only [ht, if_true]
      rw [ht] at hok
      have hfo : foResult "trace" vs (inBuiltin s1 s.data) = (.ok (vs.headD .nil),
          { inBuiltin s1 s.data with trace := (inBuiltin s1 s.data).trace ++ [pr (inBuiltin s1 s.data).heap (vs.headD .nil)] }) := by
        unfold foResult; rw [if_pos rfl]
      exact hok _ _ { rs1 with trace := rs1.trace ++ [pr rs1.heap (vs.headD .nil)] } hfo rfl rfl rfl rfl rfl rfl
        rel1.heap (by show (inBuiltin s1 s.data).trace ++ [pr (inBuiltin s1 s.data).heap _] = _; rw [hheapb, htrb])
        rel1.clean (by cases vs with | nil => trivial | cons v0 _ => exact hclvs v0 List.mem_cons_self)
    · simp only [ht, if_false]
      cases hp : prim h vs rs1.heap with
      | some r =>
        obtain ⟨v, hp'⟩ := r
        have hfo : foResult h vs (inBuiltin s1 s.data) = (.ok v, { inBuiltin s1 s.data with heap := hp' }) := by
          unfold foResult; rw [if_neg ht, hheapb, hp]
        simp only
        have hpc := prim_clean h (foBuiltins_prim hh ht) vs rs1.heap v hp' hp hclvs rel1.clean.2
        exact hok v _ { rs1 with heap := hp' } hfo rfl rfl rfl rfl rfl rfl rfl rel1.trace ⟨rel1.clean.1, hpc.2⟩ hpc.1
      | none =>
        have hfo : foResult h vs (inBuiltin s1 s.data) = (.error .err, inBuiltin s1 s.data) := by
          unfold foResult; rw [if_neg ht, hheapb, hp]
        simp only
        refine FailsX.step hseg.head (M + 3) (fun f hf => ?_)
        obtain ⟨G, rfl⟩ : ∃ G, f = G + 3 := ⟨f - 3, by omega⟩
        refine ⟨_, by rw [hexec (G + 1), run_bind, hM (G + 1 + 1) (by omega)]; simp only; rw [hlen, hcu G, hfo], ?_⟩
        show ((restore (capPopped s1 s.data)).run (inBuiltin s1 s.data)).2.trace = _
        rw [restore_trace]; exact rel1.trace
  | err rs1 =>
    rw [h1] at hprep
    obtain ⟨M, hM⟩ := hprep
    simp only
    refine FailsX.step hseg.head (M + 2) (fun f hf => ?_)
    obtain ⟨F, rfl⟩ : ∃ F, f = F + 2 := ⟨f - 2, by omega⟩
    obtain ⟨se, hse, htr⟩ := hM (F + 1) (by omega)
    exact ⟨{ se with data := truncate se.data s.data.length }, by rw [hexec F, run_bind, hse], htr⟩
  | timeout => trivial
  | brk l rs1 => rw [h1] at hprep; exact hprep.elim
  | cont l rs1 => rw [h1] at hprep; exact hprep.elim

/-! ## The parallel bindings of `let` -/

theorem vm_defineAllC : ∀ (ps : List (String × Val)) (s : St) (rs : Ref.St) (fr : Nat) (P Q : List Instr)
    (D : List (Option Val)), (∀ p ∈ ps, okBinder p.1 = true) → (∀ p ∈ ps, Clean p.2) →
    Seg s P (ps.map (fun p => Instr.popStackPutEnv p.1)) Q → s.data = ps.map (fun p => some p.2) ++ D → RelC s rs fr →
    match defineAll rs fr ps with
    | some rs' => ∃ s', Reach ps.length 1 s s' ∧ fnOf s' s'.curfunc = fnOf s s.curfunc
        ∧ s'.pc = s.pc + (ps.length : Int) ∧ s'.data = D ∧ RelC s' rs' fr ∧ FramesExt rs rs' ∧ Frame s s'
    | none => Fails ps.length s rs.trace
  | [], s, rs, fr, P, Q, D, _, _, _, hd, hrel => by
    simp only [defineAll]
    exact ⟨s, Reach.refl s |>.mono (Nat.le_refl _) (by simp), rfl, by simp, by simpa using hd, hrel, FramesExt.refl rs,
      Frame.refl s⟩
  | (x, v) :: ps, s, rs, fr, P, Q, D, hok, hcl, hseg, hd, hrel => by
    simp only [List.map_cons] at hseg hd
    have a1 : At s P (.popStackPutEnv x) (ps.map (fun p => Instr.popStackPutEnv p.1) ++ Q) := hseg.head
    have hp := psp_stepC a1 hd hrel (hok (x, v) List.mem_cons_self) (hcl (x, v) List.mem_cons_self)
    simp only [defineAll]
    cases hdef : Ref.define rs fr x v with
    | none =>
      rw [hdef] at hp
      exact Fails.mono hp (by simp)
    | some rs1 =>
      rw [hdef] at hp
      obtain ⟨r1, rel1, ext1⟩ := hp
      simp only
      have hseg1 : Seg ((s.jmp (s.pc + 1) (ps.map (fun p => some p.2) ++ D)).bind fr x v) (P ++ [.popStackPutEnv x])
          (ps.map (fun p => Instr.popStackPutEnv p.1)) Q :=
        hseg.move (s' := (s.jmp (s.pc + 1) (ps.map (fun p => some p.2) ++ D)).bind fr x v) rfl (by simp)
          (by show s.pc + 1 = _; rw [hseg.pc]; simp)
      have ih := vm_defineAllC ps _ rs1 fr _ Q D (fun p hp => hok p (List.mem_cons_of_mem _ hp))
        (fun p hp => hcl p (List.mem_cons_of_mem _ hp)) hseg1 rfl rel1
      cases hda : defineAll rs1 fr ps with
      | none =>
        rw [hda] at ih
        rw [ref_define_trace hdef] at ih
        exact (Fails.of_reach r1 ih).mono (by simp; omega)
      | some rs' =>
        rw [hda] at ih
        obtain ⟨s', r2, hfn, hpc, hdata, rel', ext', fr'⟩ := ih
        refine ⟨s', (r1.trans r2).mono (by simp; omega) (by simp), hfn, ?_, hdata, rel', ext1.trans ext',
          ((Frame.jmp _ _ _).trans (Frame.bind _ _ _ _)).trans fr'⟩
        rw [hpc]
        show s.pc + 1 + (ps.length : Int) = s.pc + (((x, v) :: ps).length : Int)
        simp only [List.length_cons]; push_cast; omega

/-! ## The inductive steps for the list forms -/

theorem cclaimN_succ {n : Nat} (hE : CClaimE n) (hN : CClaimN n) : CClaimN (n + 1) := by
  intro es hne hes isFn c oldtail gs r hc hfn s rs env pre post hrel hseg
  match es, hne with
  | [e], _ =>
    rw [FcList] at hes
    simp only [Bool.and_eq_true] at hes
    rw [compileNewScope] at hc
    rw [Ref.evalBegin]
    exact hE e hes.1 isFn _ gs r hc hfn s rs env pre post hrel hseg
  | e :: e' :: es', _ =>
    rw [FcList] at hes
    simp only [Bool.and_eq_true] at hes
    rw [compileNewScope] at hc
    · simp only [g_bind_ok, g_pure_ok] at hc
      obtain ⟨ra, gs1, ha, rb, gs2, hb, rfl⟩ := hc
      rw [Ref.evalBegin]
      · have ih := hE e hes.1 isFn _ gs (ra, gs1) ha hfn s rs env pre ([.pop] ++ rb.1 ++ post) hrel
          (hseg.refocus (by simp))
        cases h1 : Ref.eval n e env rs with
        | ok v1 rs1 =>
          rw [h1] at ih
          obtain ⟨s1, r1, l1, rel1, ext1, fr1, hcl1⟩ := ih
          obtain ⟨r2, m2⟩ := glue_pop hseg l1
          have ih2 := hN (e' :: es') (by simp) hes.2 isFn c oldtail gs1 (rb, gs2) hb hfn _ rs1 env _ post (rel1.jmp _ _)
            (hseg.moved m2 (c₁ := ra.1 ++ [.pop]) (c₂ := rb.1) (post' := post) rfl (by simp))
          exact SimC.seq (r1.trans r2.toX) m2 ext1 (fr1.trans (Frame.jmp _ _ _)) ih2 (by lenarith)
        | err rs1 => rw [h1] at ih; exact SimC.prefix ih (fun _ _ hh => by cases hh)
        | timeout => trivial
        | brk l rs1 => rw [h1] at ih; exact ih.elim
        | cont l rs1 => rw [h1] at ih; exact ih.elim
      · intro hh; cases hh
    · intro hh; cases hh

theorem cclaimL_succ {n : Nat} (hE : CClaimE n) (hL : CClaimL n) : CClaimL (n + 1) := by
  intro bs hbs isFn c gs r hc hfn s rs env pre post hrel hseg
  match bs with
  | [] =>
    rw [compileBinds] at hc; simp only [g_pure_ok] at hc; subst hc
    rw [Ref.evalLetSeq]
    · exact ⟨s, ReachX.refl s, Moved.refl s, hrel, FramesExt.refl rs, Frame.refl s⟩
    · omega
  | (x, e) :: bs' =>
    rw [FcBinds] at hbs
    simp only [Bool.and_eq_true] at hbs
    rw [compileBinds] at hc
    simp only [g_bind_ok, g_pure_ok] at hc
    obtain ⟨ra, gs1, ha, rb, gs2, hb, rfl⟩ := hc
    have hcode : (ra.1 ++ (if True then [Instr.popStackPutEnv x] else []) ++ rb.1)
        = ra.1 ++ [Instr.popStackPutEnv x] ++ rb.1 := by simp
    simp only [hcode] at hseg ⊢
    rw [Ref.evalLetSeq]
    have ih := hE e hbs.1.2 isFn _ gs (ra, gs1) ha hfn s rs env pre ([.popStackPutEnv x] ++ rb.1 ++ post) hrel
      (hseg.refocus (by simp))
    cases h1 : Ref.eval n e env rs with
    | ok v1 rs1 =>
      rw [h1] at ih
      obtain ⟨s1, r1, l1, rel1, ext1, fr1, hcl1⟩ := ih
      simp only
      have a2 : At s1 (pre ++ ra.1) (.popStackPutEnv x) (rb.1 ++ post) :=
        hseg.landed l1 (c₁ := ra.1) (by simp) rfl
      have hp := psp_stepC a2 l1.data rel1 hbs.1.1 hcl1
      cases hdef : Ref.define rs1 env x v1 with
      | none =>
        rw [hdef] at hp
        simp only
        exact (FailsX.of_reach r1 hp.toX)
      | some rs2 =>
        rw [hdef] at hp
        obtain ⟨r2, rel2, ext2⟩ := hp
        simp only
        have m2 : Moved (ra.1.length + 1) s ((s1.jmp (s1.pc + 1) s.data).bind env x v1) :=
          ⟨l1.fn, by show s1.pc + 1 = _; rw [l1.pc]; push_cast; omega, rfl⟩
        have ih2 := hL bs' hbs.2 isFn _ gs1 (rb, gs2) hb hfn _ rs2 env _ post rel2
          (hseg.moved m2 (c₁ := ra.1 ++ [.popStackPutEnv x]) (c₂ := rb.1) (post' := post) rfl (by simp))
        cases h2 : Ref.evalLetSeq n bs' env rs2 with
        | ok u rs3 =>
          rw [h2] at ih2
          obtain ⟨s3, r3, m3, rel3, ext3, fr3⟩ := ih2
          exact ⟨s3, ((r1.trans r2.toX).trans r3),
            ⟨m3.fn.trans m2.fn, by rw [m3.pc, m2.pc]; simp only [List.length_append, List.length_cons, List.length_nil]; push_cast; omega,
              m3.data.trans m2.data⟩, rel3, (ext1.trans ext2).trans ext3,
            (fr1.trans ((Frame.jmp _ _ _).trans (Frame.bind _ _ _ _))).trans fr3⟩
        | err rs3 => rw [h2] at ih2; exact (FailsX.of_reach (r1.trans r2.toX) ih2)
        | timeout => trivial
        | brk l rs3 => rw [h2] at ih2; exact ih2.elim
        | cont l rs3 => rw [h2] at ih2; exact ih2.elim
    | err rs1 => rw [h1] at ih; exact ih
    | timeout => trivial
    | brk l rs1 => rw [h1] at ih; exact ih.elim
    | cont l rs1 => rw [h1] at ih; exact ih.elim

theorem cclaimP_succ {n : Nat} (hE : CClaimE n) (hP : CClaimP n) : CClaimP (n + 1) := by
  intro bs hbs isFn c gs r hc hfn s rs env pre post hrel hseg
  match bs with
  | [] =>
    rw [compileBinds] at hc; simp only [g_pure_ok] at hc; subst hc
    simp only [List.map_nil]
    rw [Ref.evalList]
    · exact ⟨s, ReachX.refl s, rfl, by simp, by simp, hrel, FramesExt.refl rs, Frame.refl s, fun v hv => by cases hv⟩
    · omega
  | (x, e) :: bs' =>
    rw [FcBinds] at hbs
    simp only [Bool.and_eq_true] at hbs
    rw [compileBinds] at hc
    simp only [g_bind_ok, g_pure_ok] at hc
    obtain ⟨ra, gs1, ha, rb, gs2, hb, rfl⟩ := hc
    have hcode : (ra.1 ++ (if False then [Instr.popStackPutEnv x] else []) ++ rb.1) = ra.1 ++ rb.1 := by simp
    simp only [Bool.false_eq_true, hcode] at hseg ⊢
    simp only [List.map_cons]
    rw [Ref.evalList]
    have ih := hE e hbs.1.2 isFn _ gs (ra, gs1) ha hfn s rs env pre (rb.1 ++ post) hrel (hseg.refocus (by simp))
    cases h1 : Ref.eval n e env rs with
    | ok v1 rs1 =>
      rw [h1] at ih
      obtain ⟨s1, r1, l1, rel1, ext1, fr1, hcl1⟩ := ih
      simp only
      have ih2 := hP bs' hbs.2 isFn _ gs1 (rb, gs2) hb hfn s1 rs1 env (pre ++ ra.1) post rel1
        (hseg.move l1.fn (by simp) (by rw [l1.pc, hseg.pc]; simp))
      cases h2 : Ref.evalList n (bs'.map (·.2)) env rs1 with
      | ok vs rs2 =>
        rw [h2] at ih2
        obtain ⟨s2, r2, hfn2, hpc2, hdata2, rel2, ext2, fr2, hcl2⟩ := ih2
        refine ⟨s2, (r1.trans r2), hfn2.trans l1.fn, ?_, ?_, rel2, ext1.trans ext2, fr1.trans fr2,
          fun w hw => ?_⟩
        · rw [hpc2, l1.pc]; simp only [List.length_append]; push_cast; omega
        · rw [hdata2, l1.data]; simp
        · rcases List.mem_cons.mp hw with rfl | hw
          · exact hcl1
          · exact hcl2 w hw
      | err rs2 => rw [h2] at ih2; exact (FailsX.of_reach r1 ih2)
      | timeout => trivial
      | brk l rs2 => rw [h2] at ih2; exact ih2.elim
      | cont l rs2 => rw [h2] at ih2; exact ih2.elim
    | err rs1 => rw [h1] at ih; exact ih
    | timeout => trivial
    | brk l rs1 => rw [h1] at ih; exact ih.elim
    | cont l rs1 => rw [h1] at ih; exact ih.elim

theorem cclaimV_succ {n : Nat} (hE : CClaimE n) (hV : CClaimV n) : CClaimV (n + 1) := by
  intro es hes isFn c gs r hc hfn s rs env pre post hrel hseg
  match es with
  | [] =>
    rw [compileAll] at hc; simp only [g_pure_ok] at hc; subst hc
    rw [Ref.evalList]
    · exact ⟨s, ReachX.refl s, rfl, by simp, by simp, hrel, FramesExt.refl rs, Frame.refl s, fun v hv => by cases hv⟩
    · omega
  | e :: es' =>
    rw [FcList] at hes
    simp only [Bool.and_eq_true] at hes
    rw [compileAll] at hc
    simp only [g_bind_ok, g_pure_ok] at hc
    obtain ⟨ra, gs1, ha, rb, gs2, hb, rfl⟩ := hc
    rw [Ref.evalList]
    have ih := hE e hes.1 isFn _ gs (ra, gs1) ha hfn s rs env pre (rb.1 ++ post) hrel (hseg.refocus (by simp))
    cases h1 : Ref.eval n e env rs with
    | ok v1 rs1 =>
      rw [h1] at ih
      obtain ⟨s1, r1, l1, rel1, ext1, fr1, hcl1⟩ := ih
      simp only
      have ih2 := hV es' hes.2 isFn _ gs1 (rb, gs2) hb hfn s1 rs1 env (pre ++ ra.1) post rel1
        (hseg.move l1.fn (by simp) (by rw [l1.pc, hseg.pc]; simp))
      cases h2 : Ref.evalList n es' env rs1 with
      | ok vs rs2 =>
        rw [h2] at ih2
        obtain ⟨s2, r2, hfn2, hpc2, hdata2, rel2, ext2, fr2, hcl2⟩ := ih2
        refine ⟨s2, (r1.trans r2), hfn2.trans l1.fn, ?_, ?_, rel2, ext1.trans ext2, fr1.trans fr2,
          fun w hw => ?_⟩
        · rw [hpc2, l1.pc]; simp only [List.length_append]; push_cast; omega
        · rw [hdata2, l1.data]; simp
        · rcases List.mem_cons.mp hw with rfl | hw
          · exact hcl1
          · exact hcl2 w hw
      | err rs2 => rw [h2] at ih2; exact (FailsX.of_reach r1 ih2)
      | timeout => trivial
      | brk l rs2 => rw [h2] at ih2; exact ih2.elim
      | cont l rs2 => rw [h2] at ih2; exact ih2.elim
    | err rs1 => rw [h1] at ih; exact ih
    | timeout => trivial
    | brk l rs1 => rw [h1] at ih; exact ih.elim
    | cont l rs1 => rw [h1] at ih; exact ih.elim

theorem cclaimB_succ {n : Nat} (hE : CClaimE n) (hB : CClaimB n) : CClaimB (n + 1) := by
  intro es hne hes isFn c gs r hc hfn s rs env pre post hrel hseg
  match es, hne with
  | [e], _ =>
    rw [FcList] at hes
    simp only [Bool.and_eq_true] at hes
    rw [compileBegin] at hc
    rw [Ref.evalBegin]
    exact hE e hes.1 isFn c gs r hc hfn s rs env pre post hrel hseg
  | e :: e' :: es', _ =>
    rw [FcList] at hes
    simp only [Bool.and_eq_true] at hes
    rw [compileBegin] at hc
    · simp only [g_bind_ok, g_pure_ok] at hc
      obtain ⟨ra, gs1, ha, rb, gs2, hb, rfl⟩ := hc
      have hane : ra.1.isEmpty = false := by
        simpa [List.isEmpty_eq_false_iff] using compile_ne_nil_Fc hes.1 ha hfn
      simp only [hane, Bool.false_eq_true, if_false] at hseg ⊢
      rw [Ref.evalBegin]
      · have ih := hE e hes.1 isFn _ gs (ra, gs1) ha hfn s rs env pre ([.pop] ++ rb.1 ++ post) hrel
          (hseg.refocus (by simp))
        cases h1 : Ref.eval n e env rs with
        | ok v1 rs1 =>
          rw [h1] at ih
          obtain ⟨s1, r1, l1, rel1, ext1, fr1, hcl1⟩ := ih
          obtain ⟨r2, m2⟩ := glue_pop hseg l1
          have ih2 := hB (e' :: es') (by simp) hes.2 isFn c gs1 (rb, gs2) hb hfn _ rs1 env _ post (rel1.jmp _ _)
            (hseg.moved m2 (c₁ := ra.1 ++ [.pop]) (c₂ := rb.1) (post' := post) rfl (by simp))
          exact SimC.seq (r1.trans r2.toX) m2 ext1 (fr1.trans (Frame.jmp _ _ _)) ih2 (by lenarith)
        | err rs1 => rw [h1] at ih; exact SimC.prefix ih (fun _ _ hh => by cases hh)
        | timeout => trivial
        | brk l rs1 => rw [h1] at ih; exact ih.elim
        | cont l rs1 => rw [h1] at ih; exact ih.elim
      · intro hh; cases hh
    · intro hh; cases hh

theorem cclaimC_succ {n : Nat} (hE : CClaimE n) (hC : CClaimC n) : CClaimC (n + 1) := by
  intro arms d harms hd isFn c gs r gs0 rd hc hcd hfn s rs env pre post hrel hseg
  match arms with
  | [] =>
    rw [compileArms] at hc; simp only [g_pure_ok] at hc; subst hc
    rw [Ref.evalCond]
    simp only [asmCond] at hseg ⊢
    exact hE d hd isFn c gs0 rd hcd hfn s rs env pre post hrel hseg
  | (p, b) :: arms' =>
    rw [FcArms] at harms
    simp only [Bool.and_eq_true] at harms
    rw [compileArms] at hc
    simp only [g_bind_ok, g_pure_ok] at hc
    obtain ⟨rest, gs1, hrest, rp, gs2, hp, rb, gs3, hb, rfl⟩ := hc
    rw [Ref.evalCond]
    simp only [asmCond] at hseg ⊢
    have ih := hE p harms.1.1 isFn _ gs1 (rp, gs2) hp hfn s rs env pre _ hrel (hseg.refocus (c' := rp.1)
      (post' := [.branch false (rb.1.length + 2)] ++ rb.1 ++ [.jump ((asmCond rest rd.1.1).length + 1)]
        ++ asmCond rest rd.1.1 ++ post) (by simp))
    cases h1 : Ref.eval n p env rs with
    | ok v1 rs1 =>
      rw [h1] at ih
      obtain ⟨s1, r1, l1, rel1, ext1, fr1, hcl1⟩ := ih
      simp only
      by_cases ht : truthy v1 = true
      · rw [if_pos ht]
        obtain ⟨r2, m2⟩ := glue_brn_fall hseg l1 ht
        have ih2 := hE b harms.1.2 isFn c gs2 (rb, gs3) hb hfn _ rs1 env _ _ (rel1.jmp _ _)
          (hseg.moved m2 (c₁ := rp.1 ++ [.branch false (rb.1.length + 2)]) (c₂ := rb.1)
            (post' := [.jump ((asmCond rest rd.1.1).length + 1)] ++ asmCond rest rd.1.1 ++ post)
            (by simp) (by simp))
        exact SimC.cond_exit hseg (r1.trans r2.toX) m2 ext1 (fr1.trans (Frame.jmp _ _ _)) ih2
      · rw [if_neg ht]
        obtain ⟨r2, m2⟩ := glue_brn_taken hseg l1 (by simpa using ht)
        have ih2 := hC arms' d harms.2 hd isFn c gs (rest, gs1) gs0 rd hrest hcd hfn _ rs1 env _ post (rel1.jmp _ _)
          (hseg.moved m2 (c₁ := rp.1 ++ [.branch false (rb.1.length + 2)] ++ rb.1
              ++ [.jump ((asmCond rest rd.1.1).length + 1)]) (c₂ := asmCond rest rd.1.1) (post' := post)
            (by simp) (by lenarith))
        exact SimC.seq (r1.trans r2.toX) m2 ext1 (fr1.trans (Frame.jmp _ _ _)) ih2 (by lenarith)
    | err rs1 => rw [h1] at ih; exact SimC.prefix ih (fun _ _ hh => by cases hh)
    | timeout => trivial
    | brk l rs1 => rw [h1] at ih; exact ih.elim
    | cont l rs1 => rw [h1] at ih; exact ih.elim

theorem cclaimS_succ {n : Nat} (hE : CClaimE n) (hS : CClaimS n) : CClaimS (n + 1) := by
  intro isOr es hes isFn c gs r hc hfn s rs env pre post hrel hseg
  match es with
  | [] =>
    rw [compileSC] at hc; simp only [g_pure_ok] at hc; subst hc
    rw [Ref.evalAndOr]
    · simp only [asmSC] at hseg ⊢
      exact simC_push _ trivial hrel hseg
    · omega
  | [e] =>
    rw [FcList] at hes
    simp only [Bool.and_eq_true] at hes
    rw [compileSC] at hc
    simp only [g_bind_ok, g_pure_ok] at hc
    obtain ⟨ra, gs1, ha, rfl⟩ := hc
    rw [Ref.evalAndOr]
    simp only [asmSC] at hseg ⊢
    exact hE e hes.1 isFn c gs (ra, gs1) ha hfn s rs env pre post hrel hseg
  | e :: e' :: es' =>
    rw [FcList] at hes
    simp only [Bool.and_eq_true] at hes
    rw [compileSC] at hc
    · simp only [g_bind_ok, g_pure_ok] at hc
      obtain ⟨rest, gs1, hrest, ra, gs2, ha, rfl⟩ := hc
      have hlen := compileSC_length hrest
      obtain ⟨r0, rs0, hr0⟩ : ∃ r0 rs0, rest = r0 :: rs0 := by
        cases rest with
        | nil => simp at hlen
        | cons r0 rs0 => exact ⟨r0, rs0, rfl⟩
      have hasm : asmSC isOr (ra.1 :: rest)
          = ra.1 ++ [.dup, .branch isOr ((asmSC isOr rest).length + 2), .pop] ++ asmSC isOr rest := by
        rw [hr0]; simp only [asmSC]
      simp only [hasm] at hseg ⊢
      rw [Ref.evalAndOr]
      · have ih := hE e hes.1 isFn _ gs1 (ra, gs2) ha hfn s rs env pre _ hrel (hseg.refocus (c' := ra.1)
          (post' := [.dup, .branch isOr ((asmSC isOr rest).length + 2), .pop] ++ asmSC isOr rest ++ post) (by simp))
        cases h1 : Ref.eval n e env rs with
        | ok v1 rs1 =>
          rw [h1] at ih
          obtain ⟨s1, r1, l1, rel1, ext1, fr1, hcl1⟩ := ih
          simp only
          by_cases ht : (truthy v1 == isOr) = true
          · rw [if_pos ht]
            obtain ⟨r2, l2⟩ := glue_sc_stop hseg l1 (by simpa using ht)
            exact ⟨_, (r1.trans r2.toX), l2, rel1.jmp _ _, ext1, fr1.trans (Frame.jmp _ _ _), hcl1⟩
          · rw [if_neg ht]
            obtain ⟨r2, m2⟩ := glue_sc_go hseg l1 (by simpa using ht)
            have ih2 := hS isOr (e' :: es') hes.2 isFn c gs (rest, gs1) hrest hfn _ rs1 env _ post (rel1.jmp _ _)
              (hseg.moved m2 (c₁ := ra.1 ++ [.dup, .branch isOr ((asmSC isOr rest).length + 2), .pop])
                (c₂ := asmSC isOr rest) (post' := post) (by simp) (by simp))
            exact SimC.seq (r1.trans r2.toX) m2 ext1 (fr1.trans (Frame.jmp _ _ _)) ih2 (by lenarith)
        | err rs1 => rw [h1] at ih; exact SimC.prefix ih (fun _ _ hh => by cases hh)
        | timeout => trivial
        | brk l rs1 => rw [h1] at ih; exact ih.elim
        | cont l rs1 => rw [h1] at ih; exact ih.elim
      · intro hh; cases hh
    · intro hh; cases hh


/-! ## Array literals -/

theorem prim_array (args : List Val) (h : DataHeap) : prim "array" args h = some (h.alloc args) := by
  unfold prim
  simp [isCmp]

/-- the state after a builtin returned `v` with heap `hp`: result pushed over `D`, next instruction -/
def afterBuiltin (s₁ : St) (D : List (Option Val)) (v : Val) (hp : DataHeap) : St :=
  { s₁ with heap := hp, data := some v :: D, pc := s₁.pc + 1 }

/-- `[e₁ … eₙ]`, after the elements have been pushed: `CallInstr{array, n}` allocates the array -/
theorem simC_arr_tail {s s₁ : St} {rs rs₁ : Ref.St} {env : Nat} {pre post ca : List Instr} {vs : List Val} {k : Nat}
    (h : Seg s pre (ca ++ [.callArr k]) post) (hk : k = vs.length)
    (r1 : ReachX s s₁) (hfn1 : fnOf s₁ s₁.curfunc = fnOf s s.curfunc)
    (hpc1 : s₁.pc = s.pc + (ca.length : Int)) (hd1 : s₁.data = vs.reverse.map some ++ s.data)
    (rel1 : RelC s₁ rs₁ env) (ext1 : FramesExt rs rs₁) (fr1 : Frame s s₁) (hclvs : ∀ v ∈ vs, Clean v) :
    SimC (ca ++ [.callArr k]) s rs env
      (match rs₁.heap.alloc vs with | (a, hp) => .ok a { rs₁ with heap := hp }) := by
  have a2 : At s₁ (pre ++ ca) (.callArr k) post :=
    At.move h hfn1 (by simp) (by rw [hpc1, h.pc]; simp)
  have hheapb : (inBuiltin s₁ s.data).heap = rs₁.heap := rel1.heap
  have hfo : foResult "array" vs (inBuiltin s₁ s.data)
      = (.ok (rs₁.heap.alloc vs).1, { inBuiltin s₁ s.data with heap := (rs₁.heap.alloc vs).2 }) := by
    unfold foResult
    rw [if_neg (by decide), hheapb, prim_array]
  have hx : ∀ f, 2 ≤ f → (exec (f + 1) (.callArr k)).run s₁
      = (.ok (), afterBuiltin s₁ s.data (rs₁.heap.alloc vs).1 (rs₁.heap.alloc vs).2) := by
    intro f hf
    obtain ⟨g, rfl⟩ : ∃ g, f = g + 2 := ⟨f - 2, by omega⟩
    rw [exec, hk, run_callUser_fo g "array" (by decide) vs s.data s₁ hd1, hfo]
    rfl
  have hlen : (ca ++ [Instr.callArr k]).length = ca.length + 1 := by simp
  show SimC _ s rs env (.ok (rs₁.heap.alloc vs).1 { rs₁ with heap := (rs₁.heap.alloc vs).2 })
  refine ⟨_, (r1.trans (ReachX.step a2 2 hx)), ⟨?_, ?_, rfl⟩,
    rel1.of_same rfl rfl rfl rfl rfl rfl rel1.trace ⟨rel1.clean.1, cleanHeap_alloc rel1.clean.2 vs hclvs⟩,
    ext1.trans (fun i fr hf => ⟨fr, hf, rfl⟩),
    fr1.trans ⟨rfl, rfl, rfl, rfl, Nat.le_refl _, fun _ _ => rfl, Nat.le_refl _, fun _ _ => rfl⟩, trivial⟩
  · exact hfn1
  · show s₁.pc + 1 = _
    rw [hpc1, hlen]; push_cast; omega

/-! ## `for` loops (without `break`/`continue`) -/

/-- the layout `GenerateForLoop` produces, with the offsets computed -/
theorem forCode_eq (L : Nat) (i t s b : List Instr) : forCode L i t s b =
    [.loopStart L, .addScope, .pushMark L, .label] ++ i ++ [.popUntilMark L, .jump ((s.length : Int) + 3), .label]
      ++ s ++ [.popUntilMark L, .label] ++ t ++ [.branch false ((b.length : Int) + 4), .label] ++ b
      ++ [.popUntilMark L, .jump (-((s.length : Int) + t.length + b.length + 6)), .label,
          .clearMark L, .removeScope, .push .nil] := by
  unfold forCode
  simp only [asmFor, List.length_append, List.length_cons, List.length_nil, List.append_assoc, List.cons_append,
    List.nil_append]
  have h1 : ((s.length + (0 + 1) : Nat) : Int) + 2 = (s.length : Int) + 3 := by push_cast; omega
  have h2 : ((b.length + (0 + 1) : Nat) : Int) + 3 = (b.length : Int) + 4 := by push_cast; omega
  have h3 : ((i.length + (0 + 1 + 1) + 1 + 1 + 1 + 1 : Nat) : Int)
      - ((i.length + (s.length + (t.length + (b.length + (0 + 1) + 1 + 1) + 1 + 1) + 1 + 1 + 1) + 1 + 1 + 1 + 1 : Nat) : Int)
      = -((s.length : Int) + t.length + b.length + 6) := by push_cast; omega
  rw [h1, h2, h3]

/-- `σ` runs inside the compiled function whose code is `full` -/
structure InFn (σ : St) (full : List Instr) : Prop where
  user : (fnOf σ σ.curfunc).user = false
  code : (fnOf σ σ.curfunc).code = full

theorem InFn.of_fn {σ σ' : St} {full} (h : InFn σ full) (hf : fnOf σ' σ'.curfunc = fnOf σ σ.curfunc) : InFn σ' full :=
  ⟨by rw [hf]; exact h.user, by rw [hf]; exact h.code⟩

theorem InFn.at {σ : St} {full P Q : List Instr} {i : Instr} (h : InFn σ full) (hc : full = P ++ i :: Q)
    (hp : σ.pc = (P.length : Int)) : At σ P i Q := ⟨h.user, by rw [h.code, hc], hp⟩

theorem InFn.seg {σ : St} {full P c Q : List Instr} (h : InFn σ full) (hc : full = P ++ c ++ Q)
    (hp : σ.pc = (P.length : Int)) : Seg σ P c Q := ⟨h.user, by rw [h.code, hc], hp⟩

theorem Seg.inFn {σ : St} {P c Q : List Instr} (h : Seg σ P c Q) : InFn σ (P ++ c ++ Q) := ⟨h.user, h.code⟩

/-- a `label` / `loopStart` is a no-op -/
theorem reachX_label {σ : St} {P Q : List Instr} (a : At σ P .label Q) : ReachX σ (σ.jmp (σ.pc + 1) σ.data) :=
  (Reach.step a (fun f => exec_label f σ)).toX

/-- the outcome of a piece of loop code that ends in `popUntilMark`: back on the mark -/
def OnMark {α : Type} (σ : St) (rs : Ref.St) (fr L : Nat) (D : List (Option Val)) (target : Int) (res : Ref.R α) : Prop :=
  match res with
  | .ok _ rs' => ∃ σ', ReachX σ σ' ∧ σ'.pc = target ∧ σ'.data = some (.mark L) :: D
      ∧ fnOf σ' σ'.curfunc = fnOf σ σ.curfunc ∧ RelC σ' rs' fr ∧ FramesExt rs rs' ∧ Frame σ σ'
  | .err rs' => FailsX σ rs'.trace
  | .timeout => True
  | .brk _ _ => False
  | .cont _ _ => False

/-- code `c` (simulating `res`) followed by `popUntilMark L`, started on the mark -/
theorem seg_pum {σ : St} {rs : Ref.St} {fr L : Nat} {D : List (Option Val)} {full P c Q : List Instr}
    {res : Ref.R Val} (hin : InFn σ full) (hc : full = P ++ c ++ (.popUntilMark L :: Q)) (hp : σ.pc = (P.length : Int))
    (hd : σ.data = some (.mark L) :: D) (hsim : SimC c σ rs fr res) :
    OnMark σ rs fr L D (σ.pc + (c.length : Int) + 1) res := by
  cases res with
  | ok v rs' =>
    obtain ⟨σ1, r1, l1, rel1, ext1, fr1, hcl⟩ := hsim
    have a1 : At σ1 (P ++ c) (.popUntilMark L) Q :=
      (hin.of_fn l1.fn).at (by rw [hc]) (by rw [l1.pc, hp]; simp)
    have hv : v ≠ .mark L := fun e => by subst e; exact hcl
    have hx : ∀ f, (exec (f + 1) (.popUntilMark L)).run σ1 = (.ok (), σ1.jmp (σ1.pc + 1) (some (.mark L) :: D)) :=
      fun f => exec_popUntilMark f L σ1 [some v] D (by rw [l1.data, hd]; rfl) (Or.inr ⟨v, rfl, hv⟩)
    exact ⟨_, r1.trans (Reach.step a1 hx).toX, by rw [St.jmp_pc, l1.pc], rfl, l1.fn, rel1.jmp _ _, ext1,
      fr1.trans (Frame.jmp _ _ _)⟩
  | err rs' => exact hsim
  | timeout => trivial
  | brk l rs' => exact hsim
  | cont l rs' => exact hsim

theorem OnMark.of_reach {α : Type} {σ σ₁ : St} {rs rs₁ : Ref.St} {fr L : Nat} {D : List (Option Val)} {tgt : Int}
    {res : Ref.R α} (hr : ReachX σ σ₁) (hfn : fnOf σ₁ σ₁.curfunc = fnOf σ σ.curfunc) (hext : FramesExt rs rs₁)
    (hfr : Frame σ σ₁) (h : OnMark σ₁ rs₁ fr L D tgt res) : OnMark σ rs fr L D tgt res := by
  cases res with
  | ok a rs' =>
    obtain ⟨σ', r, hp, hd, hf, rel, ext, fr'⟩ := h
    exact ⟨σ', hr.trans r, hp, hd, hf.trans hfn, rel, hext.trans ext, hfr.trans fr'⟩
  | err rs' => exact FailsX.of_reach hr h
  | timeout => trivial
  | brk l rs' => exact h
  | cont l rs' => exact h

/-- the fixed pieces of the loop layout -/
abbrev fHd (L : Nat) : List Instr := [.loopStart L, .addScope, .pushMark L, .label]
abbrev fMid (L : Nat) (cs : List Instr) : List Instr := [.popUntilMark L, .jump ((cs.length : Int) + 3), .label]
abbrev fBr (cb : List Instr) : List Instr := [.branch false ((cb.length : Int) + 4), .label]
abbrev fTl (L : Nat) (cs ct cb : List Instr) : List Instr :=
  [.popUntilMark L, .jump (-((cs.length : Int) + ct.length + cb.length + 6)), .label, .clearMark L, .removeScope, .push .nil]

/-- the whole function around a `for` loop, laid out -/
def forFull (pre post : List Instr) (L : Nat) (ci ct cs cb : List Instr) : List Instr :=
  pre ++ (fHd L ++ ci ++ fMid L cs ++ cs ++ [.popUntilMark L, .label] ++ ct ++ fBr cb ++ cb ++ fTl L cs ct cb) ++ post

theorem forFull_eq (pre post : List Instr) (L : Nat) (ci ct cs cb : List Instr) :
    pre ++ forCode L ci ct cs cb ++ post = forFull pre post L ci ct cs cb := by
  rw [forCode_eq]; rfl

/-- **One `for` loop from its test label on** (after the initialiser): test, exit branch or body,
back jump, increment, again — against `Ref.loop`. The VM stands on the test label with the loop's
stack mark on top of the data stack; it arrives on the end label with the mark on top again. -/
def CClaimF (n : Nat) : Prop :=
  ∀ (label : Option String) (test incr : Expr) (body : List Expr), Fc test = true → Fc incr = true → FcList body = true →
  ∀ (isFn : Nat → Bool) (c : Ctx),
  ∀ gb rb g2 gt rt g4 gi ri g5, (compileBegin isFn c body).run gb = .ok (rb, g2) →
    (compile isFn c test).run gt = .ok (rt, g4) → (compile isFn c incr).run gi = .ok (ri, g5) → c.funcname = "" →
  ∀ (L : Nat) (ci pre post : List Instr) (σ : St) (rs : Ref.St) (fr : Nat) (D : List (Option Val)),
    InFn σ (forFull pre post L ci rt.1 ri.1 rb.1) →
    σ.pc = ((pre.length + ci.length + ri.1.length + 8 : Nat) : Int) →
    σ.data = some (.mark L) :: D → RelC σ rs fr →
    OnMark σ rs fr L D ((pre.length + ci.length + ri.1.length + rt.1.length + rb.1.length + 13 : Nat) : Int)
      (Ref.loop n label test incr body fr rs)

/-- the body of a loop followed by `popUntilMark`; the body may be empty -/
theorem body_pum {n : Nat} (hB : CClaimB n) {body : List Expr} (hbody : FcList body = true) {isFn : Nat → Bool} {c : Ctx}
    (hfn : c.funcname = "") {gb rb g2} (hcb : (compileBegin isFn c body).run gb = .ok (rb, g2))
    {σ : St} {rs : Ref.St} {fr L : Nat} {D : List (Option Val)} {full P Q : List Instr}
    (hin : InFn σ full) (hc : full = P ++ rb.1 ++ (.popUntilMark L :: Q)) (hp : σ.pc = (P.length : Int))
    (hd : σ.data = some (.mark L) :: D) (hrel : RelC σ rs fr) :
    OnMark σ rs fr L D (σ.pc + (rb.1.length : Int) + 1) (Ref.evalBegin n body fr rs) := by
  cases body with
  | nil =>
    rw [compileBegin] at hcb; simp only [g_pure_ok] at hcb
    have hrb : rb.1 = [] := by rw [(Prod.mk.inj hcb).1]
    cases n with
    | zero => rw [Ref.evalBegin]; trivial
    | succ m =>
      rw [Ref.evalBegin]
      · have a1 : At σ P (.popUntilMark L) Q := hin.at (by rw [hc, hrb]; simp) hp
        have hx : ∀ f, (exec (f + 1) (.popUntilMark L)).run σ = (.ok (), σ.jmp (σ.pc + 1) (some (.mark L) :: D)) :=
          fun f => exec_popUntilMark f L σ [] D (by rw [hd]; rfl) (Or.inl rfl)
        exact ⟨_, (Reach.step a1 hx).toX, by rw [St.jmp_pc, hrb]; simp, rfl, rfl, hrel.jmp _ _, FramesExt.refl rs,
          Frame.jmp _ _ _⟩
      · omega
  | cons e0 es0 =>
    exact seg_pum hin hc hp hd
      (hB (e0 :: es0) (by simp) hbody isFn c gb (rb, g2) hcb hfn σ rs fr P _ hrel (hin.seg (by rw [hc]) hp))

theorem cclaimF_succ {n : Nat} (hE : CClaimE n) (hB : CClaimB n) (hF : CClaimF n) : CClaimF (n + 1) := by
  intro label test incr body htest hincr hbody isFn c gb rb g2 gt rt g4 gi ri g5 hcb hct hci hfn
    L ci pre post σ rs fr D hin hpc hd hrel
  rw [Ref.loop]
  -- the test label
  have a0 : At σ (pre ++ fHd L ++ ci ++ fMid L ri.1 ++ ri.1 ++ [.popUntilMark L]) .label
      (rt.1 ++ fBr rb.1 ++ rb.1 ++ fTl L ri.1 rt.1 rb.1 ++ post) :=
    hin.at (by simp [forFull]) (by rw [hpc]; simp; omega)
  have r0 := reachX_label a0
  -- the test
  have hseg1 : Seg (σ.jmp (σ.pc + 1) σ.data) (pre ++ fHd L ++ ci ++ fMid L ri.1 ++ ri.1 ++ [.popUntilMark L, .label]) rt.1
      (fBr rb.1 ++ rb.1 ++ fTl L ri.1 rt.1 rb.1 ++ post) :=
    (hin.of_fn (σ' := σ.jmp (σ.pc + 1) σ.data) rfl).seg (by simp [forFull]) (by rw [St.jmp_pc, hpc]; simp; omega)
  have ih1 := hE test htest isFn c gt (rt, g4) hct hfn _ rs fr _ _ (hrel.jmp _ _) hseg1
  cases h1 : Ref.eval n test fr rs with
  | ok tv rs1 =>
    rw [h1] at ih1
    obtain ⟨σ2, r2, l2, rel2, ext2, fr2, _⟩ := ih1
    simp only
    have hin2 : InFn σ2 (forFull pre post L ci rt.1 ri.1 rb.1) := hin.of_fn (l2.fn.trans rfl)
    have hpc2 : σ2.pc = ((pre.length + ci.length + ri.1.length + rt.1.length + 9 : Nat) : Int) := by
      rw [l2.pc, St.jmp_pc, hpc]; push_cast; omega
    have hd2 : σ2.data = some tv :: some (.mark L) :: D := by rw [l2.data, St.jmp_data, hd]
    have a2 : At σ2 (pre ++ fHd L ++ ci ++ fMid L ri.1 ++ ri.1 ++ [.popUntilMark L, .label] ++ rt.1)
        (.branch false ((rb.1.length : Int) + 4)) ([.label] ++ rb.1 ++ fTl L ri.1 rt.1 rb.1 ++ post) :=
      hin2.at (by simp [forFull]) (by rw [hpc2]; simp; omega)
    have hfr02 : Frame σ σ2 := (Frame.jmp _ _ _).trans fr2
    by_cases htv : truthy tv = true
    · -- the body
      have hnt : (!truthy tv) = false := by rw [htv]; rfl
      rw [if_neg (by rw [hnt]; decide)]
      have r3 := (reach_branch_fall a2 hd2 (by rw [htv]; decide)).toX
      have a3 : At (σ2.jmp (σ2.pc + 1) (some (.mark L) :: D))
          (pre ++ fHd L ++ ci ++ fMid L ri.1 ++ ri.1 ++ [.popUntilMark L, .label] ++ rt.1
            ++ [.branch false ((rb.1.length : Int) + 4)]) .label (rb.1 ++ fTl L ri.1 rt.1 rb.1 ++ post) :=
        (hin2.of_fn (σ' := σ2.jmp (σ2.pc + 1) (some (.mark L) :: D)) rfl).at (by simp [forFull])
          (by rw [St.jmp_pc, hpc2]; simp; omega)
      have r4 := reachX_label a3
      -- σ4: before the body
      have hin4 : InFn ((σ2.jmp (σ2.pc + 1) (some (.mark L) :: D)).jmp ((σ2.jmp (σ2.pc + 1) (some (.mark L) :: D)).pc + 1)
          (σ2.jmp (σ2.pc + 1) (some (.mark L) :: D)).data) (forFull pre post L ci rt.1 ri.1 rb.1) := hin2.of_fn rfl
      have hb := body_pum hB hbody hfn hcb hin4
        (P := pre ++ fHd L ++ ci ++ fMid L ri.1 ++ ri.1 ++ [.popUntilMark L, .label] ++ rt.1 ++ fBr rb.1)
        (Q := [.jump (-((ri.1.length : Int) + rt.1.length + rb.1.length + 6)), .label, .clearMark L, .removeScope,
          .push .nil] ++ post) (D := D) (by simp [forFull]) (by simp only [St.jmp_pc, hpc2]; simp; omega) rfl
        ((rel2.jmp _ _).jmp _ _)
      have hreach4 := ((r0.trans r2).trans r3).trans r4
      have hfr4 : Frame σ ((σ2.jmp (σ2.pc + 1) (some (.mark L) :: D)).jmp ((σ2.jmp (σ2.pc + 1) (some (.mark L) :: D)).pc + 1)
          (σ2.jmp (σ2.pc + 1) (some (.mark L) :: D)).data) := hfr02.trans ((Frame.jmp _ _ _).trans (Frame.jmp _ _ _))
      refine OnMark.of_reach hreach4 (l2.fn.trans rfl) ext2 hfr4 ?_
      cases h2 : Ref.evalBegin n body fr rs1 with
      | ok vb rs2 =>
        rw [h2] at hb
        obtain ⟨σ6, r6, hpc6, hd6, hfn6, rel6, ext6, fr6⟩ := hb
        simp only
        have hin6 : InFn σ6 (forFull pre post L ci rt.1 ri.1 rb.1) := hin4.of_fn hfn6
        have hpc6' : σ6.pc = ((pre.length + ci.length + ri.1.length + rt.1.length + rb.1.length + 12 : Nat) : Int) := by
          rw [hpc6]; simp only [St.jmp_pc, hpc2]; push_cast; omega
        -- the back jump
        have a6 : At σ6 (pre ++ fHd L ++ ci ++ fMid L ri.1 ++ ri.1 ++ [.popUntilMark L, .label] ++ rt.1 ++ fBr rb.1 ++ rb.1
            ++ [.popUntilMark L]) (.jump (-((ri.1.length : Int) + rt.1.length + rb.1.length + 6)))
            ([.label, .clearMark L, .removeScope, .push .nil] ++ post) :=
          hin6.at (by simp [forFull]) (by rw [hpc6']; simp; omega)
        have r7 := (reach_jump a6 (by rw [hpc6']; push_cast; omega)
          (by rw [hpc6']; simp only [List.length_append, List.length_cons, List.length_nil]; push_cast; omega)).toX
        have hpc7 : (σ6.jmp (σ6.pc + -((ri.1.length : Int) + rt.1.length + rb.1.length + 6)) σ6.data).pc
            = ((pre.length + ci.length + 6 : Nat) : Int) := by rw [St.jmp_pc, hpc6']; push_cast; omega
        have a7 : At (σ6.jmp (σ6.pc + -((ri.1.length : Int) + rt.1.length + rb.1.length + 6)) σ6.data)
            (pre ++ fHd L ++ ci ++ [.popUntilMark L, .jump ((ri.1.length : Int) + 3)]) .label
            (ri.1 ++ [.popUntilMark L, .label] ++ rt.1 ++ fBr rb.1 ++ rb.1 ++ fTl L ri.1 rt.1 rb.1 ++ post) :=
          (hin6.of_fn (σ' := σ6.jmp (σ6.pc + -((ri.1.length : Int) + rt.1.length + rb.1.length + 6)) σ6.data) rfl).at
            (by simp [forFull]) (by rw [hpc7]; simp; omega)
        have r8 := reachX_label a7
        -- the increment
        generalize hσ8 : ((σ6.jmp (σ6.pc + -((ri.1.length : Int) + rt.1.length + rb.1.length + 6)) σ6.data).jmp
          ((σ6.jmp (σ6.pc + -((ri.1.length : Int) + rt.1.length + rb.1.length + 6)) σ6.data).pc + 1)
          (σ6.jmp (σ6.pc + -((ri.1.length : Int) + rt.1.length + rb.1.length + 6)) σ6.data).data) = σ8 at r8
        have hin8 : InFn σ8 (forFull pre post L ci rt.1 ri.1 rb.1) := by subst hσ8; exact hin6.of_fn rfl
        have hpc8 : σ8.pc = ((pre.length + ci.length + 7 : Nat) : Int) := by
          subst hσ8; rw [St.jmp_pc, hpc7]; push_cast; omega
        have hd8 : σ8.data = some (.mark L) :: D := by subst hσ8; exact hd6
        have rel8 : RelC σ8 rs2 fr := by subst hσ8; exact (rel6.jmp _ _).jmp _ _
        have hfr68 : Frame σ6 σ8 := by subst hσ8; exact (Frame.jmp _ _ _).trans (Frame.jmp _ _ _)
        have hfn68 : fnOf σ8 σ8.curfunc = fnOf σ6 σ6.curfunc := by subst hσ8; rfl
        have hseg8 : Seg σ8 (pre ++ fHd L ++ ci ++ fMid L ri.1) ri.1
            ([.popUntilMark L, .label] ++ rt.1 ++ fBr rb.1 ++ rb.1 ++ fTl L ri.1 rt.1 rb.1 ++ post) :=
          hin8.seg (by simp [forFull]) (by rw [hpc8]; simp; omega)
        have ih8 := hE incr hincr isFn c gi (ri, g5) hci hfn σ8 rs2 fr _ _ rel8 hseg8
        have hs := seg_pum hin8 (P := pre ++ fHd L ++ ci ++ fMid L ri.1) (c := ri.1)
          (Q := [.label] ++ rt.1 ++ fBr rb.1 ++ rb.1 ++ fTl L ri.1 rt.1 rb.1 ++ post) (by simp [forFull])
          (by rw [hpc8]; simp; omega) hd8 ih8
        refine OnMark.of_reach ((r6.trans r7).trans r8) (hfn68.trans hfn6) ext6 (fr6.trans hfr68) ?_
        cases h3 : Ref.eval n incr fr rs2 with
        | ok vs rs3 =>
          rw [h3] at hs
          obtain ⟨σ10, r10, hpc10, hd10, hfn10, rel10, ext10, fr10⟩ := hs
          simp only
          refine OnMark.of_reach r10 hfn10 ext10 fr10 ?_
          exact hF label test incr body htest hincr hbody isFn c gb rb g2 gt rt g4 gi ri g5 hcb hct hci hfn
            L ci pre post σ10 rs3 fr D (hin8.of_fn hfn10) (by rw [hpc10, hpc8]; push_cast; omega) hd10 rel10
        | err rs3 => rw [h3] at hs; exact hs
        | timeout => trivial
        | brk l rs3 => rw [h3] at hs; exact hs.elim
        | cont l rs3 => rw [h3] at hs; exact hs.elim
      | err rs2 => rw [h2] at hb; exact hb
      | timeout => trivial
      | brk l rs2 => rw [h2] at hb; exact hb.elim
      | cont l rs2 => rw [h2] at hb; exact hb.elim
    · -- the exit branch
      have hft : truthy tv = false := by simpa using htv
      rw [if_pos (by rw [hft]; rfl)]
      have r3 := (reach_branch_taken a2 hd2 (by rw [hft])
        (by rw [hpc2]; push_cast; omega)
        (by rw [hpc2]; simp only [List.length_append, List.length_cons, List.length_nil]; push_cast; omega)).toX
      exact ⟨_, (r0.trans r2).trans r3, by rw [St.jmp_pc, hpc2]; push_cast; omega, rfl, l2.fn.trans rfl, rel2.jmp _ _, ext2,
        hfr02.trans (Frame.jmp _ _ _)⟩
  | err rs1 =>
    rw [h1] at ih1
    exact FailsX.of_reach r0 ih1
  | timeout => trivial
  | brk l rs1 => rw [h1] at ih1; exact ih1.elim
  | cont l rs1 => rw [h1] at ih1; exact ih1.elim

theorem ref_loop_nil : ∀ (n : Nat) (label : Option String) (test step : Expr) (body : List Expr) (fr : Nat) (rs : Ref.St)
    (v : Val) (rs' : Ref.St), Ref.loop n label test step body fr rs = .ok v rs' → v = .nil
  | 0, _, _, _, _, _, _, _, _, h => by rw [Ref.loop] at h; cases h
  | n + 1, label, test, step, body, fr, rs, v, rs', h => by
    rw [Ref.loop] at h
    simp only at h
    repeat' split at h
    all_goals first
      | (injection h with h1 _; exact h1.symm)
      | exact ref_loop_nil n _ _ _ _ _ _ _ _ h
      | cases h
      | (exfalso; rename_i h1 h2 h3; exact h1 _ _ h)
      | (exfalso; rename_i h1 h2; exact h1 _ _ h)
      | skip

/-- **A `for` loop** (no `break`/`continue` inside): `loopStart`, `addScope`, `pushMark`, the
initialiser, the jump to the test, the iterations (`CClaimF`), the end label, `clearMark`,
`removeScope`, `push nil` — against `newFrame`, `eval init`, `Ref.loop`. -/
theorem cclaimE_for {n : Nat} (hE : CClaimE n) (hF : CClaimF n) {label : Option String} {init test incr : Expr}
    {body : List Expr} (hinit : Fc init = true) (htest : Fc test = true) (hincr : Fc incr = true)
    (hbody : FcList body = true) (isFn : Nat → Bool) (c : Ctx) (gs : GS) (r : (List Instr × Bool) × GS)
    (hc : (compile isFn c (.for_ label init test incr body)).run gs = .ok r) (hfn : c.funcname = "")
    (s : St) (rs : Ref.St) (env : Nat) (pre post : List Instr) (hrel : RelC s rs env) (hseg : Seg s pre r.1.1 post) :
    SimC r.1.1 s rs env (Ref.eval (n + 1) (.for_ label init test incr body) env rs) := by
  rw [compile_for_eq] at hc
  cases hb : (compileBegin isFn { c with tail := false, scopes := c.scopes + 1 } body).run (forGs gs c label) with
  | error e => rw [hb] at hc; cases hc
  | ok vb =>
  obtain ⟨rb, g2⟩ := vb
  rw [hb] at hc; simp only at hc
  cases hi : (compile isFn { c with tail := false, scopes := c.scopes + 1 } init).run g2 with
  | error e => rw [hi] at hc; cases hc
  | ok vi =>
  obtain ⟨ri, g3⟩ := vi
  rw [hi] at hc; simp only at hc
  cases ht : (compile isFn { c with tail := false, scopes := c.scopes + 1 } test).run g3 with
  | error e => rw [ht] at hc; cases hc
  | ok vt =>
  obtain ⟨rt, g4⟩ := vt
  rw [ht] at hc; simp only at hc
  cases hs : (compile isFn { c with tail := false, scopes := c.scopes + 1 } incr).run g4 with
  | error e => rw [hs] at hc; cases hc
  | ok vs =>
  obtain ⟨rsn, g5⟩ := vs
  rw [hs] at hc; simp only at hc
  injection hc with hc
  subst hc
  simp only at hseg ⊢
  -- the function laid out
  have hin : InFn s (forFull pre post gs.loops.length ri.1 rt.1 rsn.1 rb.1) := by
    have := hseg.inFn; rw [forFull_eq] at this; exact this
  have hpc : s.pc = (pre.length : Int) := hseg.pc
  rw [Ref.eval]
  show SimC _ s rs env
    (match Ref.eval n init rs.frames.length (Ref.newFrame rs env).2 with
     | .ok _ s' => Ref.loop n label test incr body rs.frames.length s'
     | .brk l s' => if l.isNone ∨ l = label then .ok .nil s' else .brk l s'
     | r => r)
  -- loopStart, addScope, pushMark, label
  have a0 : At s pre (.loopStart gs.loops.length) ([.addScope, .pushMark gs.loops.length, .label] ++ ri.1
      ++ fMid gs.loops.length rsn.1 ++ rsn.1 ++ [.popUntilMark gs.loops.length, .label] ++ rt.1 ++ fBr rb.1 ++ rb.1
      ++ fTl gs.loops.length rsn.1 rt.1 rb.1 ++ post) := hin.at (by simp [forFull]) hpc
  have r0 : ReachX s (s.jmp (s.pc + 1) s.data) := (Reach.step a0 (fun f => exec_loopStart f _ s)).toX
  have a1 : At (s.jmp (s.pc + 1) s.data) (pre ++ [.loopStart gs.loops.length]) .addScope
      ([.pushMark gs.loops.length, .label] ++ ri.1
      ++ fMid gs.loops.length rsn.1 ++ rsn.1 ++ [.popUntilMark gs.loops.length, .label] ++ rt.1 ++ fBr rb.1 ++ rb.1
      ++ fTl gs.loops.length rsn.1 rt.1 rb.1 ++ post) :=
    (hin.of_fn (σ' := s.jmp (s.pc + 1) s.data) rfl).at (by simp [forFull]) (by rw [St.jmp_pc, hpc]; simp)
  have r1 : ReachX (s.jmp (s.pc + 1) s.data) (s.jmp (s.pc + 1) s.data).pushScope :=
    (Reach.step a1 (fun f => exec_addScope f _)).toX
  generalize hs2 : (s.jmp (s.pc + 1) s.data).pushScope = s2 at r1
  have hin2 : InFn s2 (forFull pre post gs.loops.length ri.1 rt.1 rsn.1 rb.1) := by subst hs2; exact hin.of_fn rfl
  have hpc2 : s2.pc = ((pre.length + 2 : Nat) : Int) := by
    subst hs2; show s.pc + 1 + 1 = _; rw [hpc]; push_cast; omega
  have hd2 : s2.data = s.data := by subst hs2; rfl
  have rel2 : RelC s2 (Ref.newFrame rs env).2 rs.frames.length := by subst hs2; exact (hrel.jmp _ _).pushScope
  have hfr2 : Frame s.pushScope s2 := by subst hs2; exact ⟨rfl, rfl, rfl, rfl, Nat.le_refl _, fun _ _ => rfl, Nat.le_refl _, fun _ _ => rfl⟩
  have hfn2 : fnOf s2 s2.curfunc = fnOf s s.curfunc := by subst hs2; rfl
  have a2 : At s2 (pre ++ [.loopStart gs.loops.length, .addScope]) (.pushMark gs.loops.length) ([.label] ++ ri.1
      ++ fMid gs.loops.length rsn.1 ++ rsn.1 ++ [.popUntilMark gs.loops.length, .label] ++ rt.1 ++ fBr rb.1 ++ rb.1
      ++ fTl gs.loops.length rsn.1 rt.1 rb.1 ++ post) := hin2.at (by simp [forFull]) (by rw [hpc2]; simp)
  have r2 := (Reach.step a2 (fun f => exec_pushMark f gs.loops.length s2)).toX
  have a3 : At (s2.jmp (s2.pc + 1) (some (.mark gs.loops.length) :: s2.data))
      (pre ++ [.loopStart gs.loops.length, .addScope, .pushMark gs.loops.length]) .label (ri.1
      ++ fMid gs.loops.length rsn.1 ++ rsn.1 ++ [.popUntilMark gs.loops.length, .label] ++ rt.1 ++ fBr rb.1 ++ rb.1
      ++ fTl gs.loops.length rsn.1 rt.1 rb.1 ++ post) :=
    (hin2.of_fn (σ' := s2.jmp (s2.pc + 1) (some (.mark gs.loops.length) :: s2.data)) rfl).at (by simp [forFull])
      (by rw [St.jmp_pc, hpc2]; simp; omega)
  have r3 := reachX_label a3
  generalize hs4 : ((s2.jmp (s2.pc + 1) (some (.mark gs.loops.length) :: s2.data)).jmp
    ((s2.jmp (s2.pc + 1) (some (.mark gs.loops.length) :: s2.data)).pc + 1)
    (s2.jmp (s2.pc + 1) (some (.mark gs.loops.length) :: s2.data)).data) = s4 at r3
  have hin4 : InFn s4 (forFull pre post gs.loops.length ri.1 rt.1 rsn.1 rb.1) := by subst hs4; exact hin2.of_fn rfl
  have hpc4 : s4.pc = ((pre.length + 4 : Nat) : Int) := by
    subst hs4; simp only [St.jmp_pc, hpc2]; push_cast; omega
  have hd4 : s4.data = some (.mark gs.loops.length) :: s.data := by subst hs4; rw [St.jmp_data, St.jmp_data, hd2]
  have rel4 : RelC s4 (Ref.newFrame rs env).2 rs.frames.length := by subst hs4; exact (rel2.jmp _ _).jmp _ _
  have hfr24 : Frame s2 s4 := by subst hs4; exact (Frame.jmp _ _ _).trans (Frame.jmp _ _ _)
  have hfn4 : fnOf s4 s4.curfunc = fnOf s s.curfunc := by subst hs4; exact hfn2
  have hreach4 : ReachX s s4 := ((r0.trans r1).trans r2).trans r3
  -- the initialiser
  have hseg4 : Seg s4 (pre ++ fHd gs.loops.length) ri.1 (fMid gs.loops.length rsn.1 ++ rsn.1
      ++ [.popUntilMark gs.loops.length, .label] ++ rt.1 ++ fBr rb.1 ++ rb.1
      ++ fTl gs.loops.length rsn.1 rt.1 rb.1 ++ post) := hin4.seg (by simp [forFull]) (by rw [hpc4]; simp)
  have ih4 := hE init hinit isFn _ g2 (ri, g3) hi hfn s4 _ _ _ _ rel4 hseg4
  have hs4' := seg_pum hin4 (P := pre ++ fHd gs.loops.length) (c := ri.1)
    (Q := [.jump ((rsn.1.length : Int) + 3), .label] ++ rsn.1 ++ [.popUntilMark gs.loops.length, .label] ++ rt.1
      ++ fBr rb.1 ++ rb.1 ++ fTl gs.loops.length rsn.1 rt.1 rb.1 ++ post) (by simp [forFull]) (by rw [hpc4]; simp) hd4 ih4
  have hlen : (forCode gs.loops.length ri.1 rt.1 rsn.1 rb.1).length
      = ri.1.length + rt.1.length + rsn.1.length + rb.1.length + 17 := by
    rw [forCode_eq]; simp only [List.length_append, List.length_cons, List.length_nil]; omega
  cases h1 : Ref.eval n init rs.frames.length (Ref.newFrame rs env).2 with
  | ok vi rs2 =>
    rw [h1] at hs4'
    obtain ⟨s6, r6, hpc6, hd6, hfn6, rel6, ext6, fr6⟩ := hs4'
    simp only
    have hin6 : InFn s6 (forFull pre post gs.loops.length ri.1 rt.1 rsn.1 rb.1) := hin4.of_fn hfn6
    have hpc6' : s6.pc = ((pre.length + ri.1.length + 5 : Nat) : Int) := by rw [hpc6, hpc4]; push_cast; omega
    have a6 : At s6 (pre ++ fHd gs.loops.length ++ ri.1 ++ [.popUntilMark gs.loops.length])
        (.jump ((rsn.1.length : Int) + 3)) ([.label] ++ rsn.1 ++ [.popUntilMark gs.loops.length, .label] ++ rt.1
        ++ fBr rb.1 ++ rb.1 ++ fTl gs.loops.length rsn.1 rt.1 rb.1 ++ post) :=
      hin6.at (by simp [forFull]) (by rw [hpc6']; simp; omega)
    have r7 := (reach_jump a6 (by rw [hpc6']; push_cast; omega)
      (by rw [hpc6']; simp only [List.length_append, List.length_cons, List.length_nil]; push_cast; omega)).toX
    have hloop := hF label test incr body htest hincr hbody isFn _ _ rb g2 _ rt g4 _ rsn g5 hb ht hs hfn
      gs.loops.length ri.1 pre post (s6.jmp (s6.pc + ((rsn.1.length : Int) + 3)) s6.data) rs2 rs.frames.length s.data
      (hin6.of_fn rfl) (by rw [St.jmp_pc, hpc6']; push_cast; omega) hd6 (rel6.jmp _ _)
    have hreach7 : ReachX s (s6.jmp (s6.pc + ((rsn.1.length : Int) + 3)) s6.data) := (hreach4.trans r6).trans r7
    cases h2 : Ref.loop n label test incr body rs.frames.length rs2 with
    | ok v rs3 =>
      rw [h2] at hloop
      obtain ⟨s8, r8, hpc8, hd8, hfn8, rel8, ext8, fr8⟩ := hloop
      have hv : v = .nil := ref_loop_nil _ _ _ _ _ _ _ _ _ h2
      subst hv
      have hin8 : InFn s8 (forFull pre post gs.loops.length ri.1 rt.1 rsn.1 rb.1) := (hin6.of_fn rfl).of_fn hfn8
      -- end label, clearMark, removeScope, push nil
      have a8 : At s8 (pre ++ fHd gs.loops.length ++ ri.1 ++ fMid gs.loops.length rsn.1 ++ rsn.1
          ++ [.popUntilMark gs.loops.length, .label] ++ rt.1 ++ fBr rb.1 ++ rb.1
          ++ [.popUntilMark gs.loops.length, .jump (-((rsn.1.length : Int) + rt.1.length + rb.1.length + 6))]) .label
          ([.clearMark gs.loops.length, .removeScope, .push .nil] ++ post) :=
        hin8.at (by simp [forFull]) (by rw [hpc8]; simp; omega)
      have r9 := reachX_label a8
      have a9 : At (s8.jmp (s8.pc + 1) s8.data) (pre ++ fHd gs.loops.length ++ ri.1 ++ fMid gs.loops.length rsn.1 ++ rsn.1
          ++ [.popUntilMark gs.loops.length, .label] ++ rt.1 ++ fBr rb.1 ++ rb.1
          ++ [.popUntilMark gs.loops.length, .jump (-((rsn.1.length : Int) + rt.1.length + rb.1.length + 6)), .label])
          (.clearMark gs.loops.length) ([.removeScope, .push .nil] ++ post) :=
        (hin8.of_fn (σ' := s8.jmp (s8.pc + 1) s8.data) rfl).at (by simp [forFull]) (by rw [St.jmp_pc, hpc8]; simp; omega)
      have r10 := (Reach.step a9 (fun f => exec_clearMark f gs.loops.length _ s.data hd8)).toX
      generalize hs10 : (s8.jmp (s8.pc + 1) s8.data).jmp ((s8.jmp (s8.pc + 1) s8.data).pc + 1) s.data = s10 at r10
      have hin10 : InFn s10 (forFull pre post gs.loops.length ri.1 rt.1 rsn.1 rb.1) := by subst hs10; exact hin8.of_fn rfl
      have hpc10 : s10.pc = ((pre.length + ri.1.length + rsn.1.length + rt.1.length + rb.1.length + 15 : Nat) : Int) := by
        subst hs10; simp only [St.jmp_pc, hpc8]; push_cast; omega
      have rel10 : RelC s10 rs3 rs.frames.length := by subst hs10; exact (rel8.jmp _ _).jmp _ _
      have hfr8_10 : Frame s8 s10 := by subst hs10; exact (Frame.jmp _ _ _).trans (Frame.jmp _ _ _)
      have hd10 : s10.data = s.data := by subst hs10; rfl
      have hfn10 : fnOf s10 s10.curfunc = fnOf s s.curfunc := by
        subst hs10; exact (hfn8.trans (hfn6.trans hfn4))
      -- everything between `addScope` and here left the control stacks alone
      have hfr_in : Frame s.pushScope s10 :=
        (((hfr2.trans hfr24).trans fr6).trans ((Frame.jmp _ _ _).trans fr8)).trans hfr8_10
      obtain ⟨rest, hlin⟩ := rel10.chain.head
      have a10 : At s10 (pre ++ fHd gs.loops.length ++ ri.1 ++ fMid gs.loops.length rsn.1 ++ rsn.1
          ++ [.popUntilMark gs.loops.length, .label] ++ rt.1 ++ fBr rb.1 ++ rb.1
          ++ [.popUntilMark gs.loops.length, .jump (-((rsn.1.length : Int) + rt.1.length + rb.1.length + 6)), .label,
              .clearMark gs.loops.length]) .removeScope ([.push .nil] ++ post) :=
        hin10.at (by simp [forFull]) (by rw [hpc10]; simp; omega)
      have r11 : ReachX s10 s10.popScope := (Reach.step a10 (fun f => by
        rw [exec_removeScope, hlin]
        show _ = (Except.ok (), { s10 with pc := s10.pc + 1, linear := s10.linear.tail })
        rw [hlin]; rfl)).toX
      have a11 : At s10.popScope (pre ++ fHd gs.loops.length ++ ri.1 ++ fMid gs.loops.length rsn.1 ++ rsn.1
          ++ [.popUntilMark gs.loops.length, .label] ++ rt.1 ++ fBr rb.1 ++ rb.1
          ++ [.popUntilMark gs.loops.length, .jump (-((rsn.1.length : Int) + rt.1.length + rb.1.length + 6)), .label,
              .clearMark gs.loops.length, .removeScope]) (.push .nil) post :=
        (hin10.of_fn (σ' := s10.popScope) rfl).at (by simp [forFull])
          (by show s10.pc + 1 = _; rw [hpc10]; simp; omega)
      have r12 := reach_push a11 |>.toX
      -- the relation after the loop
      obtain ⟨f0, hf0, hp0⟩ := (ext6.trans ext8) rs.frames.length { parent := some env }
        (by show (rs.frames ++ [_])[rs.frames.length]? = _; simp)
      obtain ⟨hl, hcur, haddr, hsus⟩ := hfr_in.pushScope_inner
      have hframe : Frame s s10.popScope := ⟨hl, hcur, haddr, hsus, hfr_in.fnsLen, hfr_in.fns, hfr_in.loopsLen, hfr_in.loops⟩
      refine ⟨_, (((((hreach7.trans r8).trans r9).trans r10).trans r11).trans r12), ⟨hfn10, ?_, ?_⟩,
        (⟨rel10.toRelCore.popScope f0 hf0 hp0, ?_, rel10.globals, rel10.clean⟩ : RelC s10.popScope rs3 env).jmp _ _,
        (FramesExt.newFrame rs env).trans (ext6.trans ext8), hframe.trans (Frame.jmp _ _ _), trivial⟩
      · show s10.pc + 1 + 1 = _
        rw [hpc10, hpc, hlen]; push_cast; omega
      · show some Val.nil :: s10.data = _
        rw [hd10]
      · rw [hcur]
        exact hrel.fnchain.transfer ⟨[], by rw [hl]; rfl⟩ hframe.fnsLen hframe.fns
    | err rs3 => rw [h2] at hloop; exact FailsX.of_reach hreach7 hloop
    | timeout => trivial
    | brk l rs3 => rw [h2] at hloop; exact hloop.elim
    | cont l rs3 => rw [h2] at hloop; exact hloop.elim
  | err rs2 => rw [h1] at hs4'; exact FailsX.of_reach hreach4 hs4'
  | timeout => trivial
  | brk l rs2 => rw [h1] at hs4'; exact hs4'.elim
  | cont l rs2 => rw [h1] at hs4'; exact hs4'.elim

/-! ## `let` with distinct names, and the expression step -/

theorem fcBinds_names : ∀ (bs : List (String × Expr)), FcBinds bs = true → ∀ x ∈ bs.map (·.1), okBinder x = true
  | [], _, x, hx => by cases hx
  | (y, e) :: bs, h, x, hx => by
    rw [FcBinds] at h
    simp only [Bool.and_eq_true] at h
    rcases List.mem_cons.mp hx with rfl | hx
    · exact h.1.1
    · exact fcBinds_names bs h.2 x hx

theorem Globals.withVars_congr {rs : Ref.St} {fr : Nat} {fr0 : Ref.Frame} {va vb : List (String × Val)}
    (h : Globals (withVars rs fr fr0 vb)) (hl : ∀ y, va.lookup y = vb.lookup y) : Globals (withVars rs fr fr0 va) := by
  have key : ∀ i y, ((withVars rs fr fr0 va).frames.getD i {}).vars.lookup y
      = ((withVars rs fr fr0 vb).frames.getD i {}).vars.lookup y := by
    intro i y
    simp only [withVars, List.getD_eq_getElem?_getD, List.getElem?_set]
    by_cases hi : fr = i
    · subst hi
      by_cases hlt : fr < rs.frames.length
      · simp only [hlt, if_true, Option.getD_some, hl y]
      · simp only [hlt, if_false, if_true]
    · simp only [hi, if_false]
  intro name hn
  exact ⟨by rw [key]; exact (h name hn).1, fun i hi => by rw [key]; exact (h name hn).2 i hi⟩

theorem CleanSt.withVars_congr {rs : Ref.St} {fr : Nat} {fr0 : Ref.Frame} {va vb : List (String × Val)}
    (h : CleanSt (withVars rs fr fr0 vb)) (hl : ∀ y, va.lookup y = vb.lookup y) : CleanSt (withVars rs fr fr0 va) := by
  refine ⟨fun i y w hw => ?_, h.2⟩
  refine h.1 i y w ?_
  simp only [withVars, List.getD_eq_getElem?_getD, List.getElem?_set] at hw ⊢
  by_cases hi : fr = i
  · subst hi
    by_cases hlt : fr < rs.frames.length
    · simp only [hlt, if_true, Option.getD_some] at hw ⊢; rw [← hl y]; exact hw
    · simp only [hlt, if_false, if_true] at hw ⊢; exact hw
  · simp only [hi, if_false] at hw ⊢; exact hw

theorem RelC.withVars_congr {s : St} {rs : Ref.St} {fr : Nat} {fr0 : Ref.Frame} {va vb : List (String × Val)} {env : Nat}
    (h : RelC s (withVars rs fr fr0 vb) env) (hfr : rs.frames[fr]? = some fr0)
    (hl : ∀ y, va.lookup y = vb.lookup y) : RelC s (withVars rs fr fr0 va) env :=
  ⟨h.toRelCore.withVars_congr hfr hl, h.fnchain, h.globals.withVars_congr hl, h.clean.withVars_congr hl⟩

/-- `let` with pairwise distinct names: the initialisers in the fresh scope, the bindings
(popped in reverse order), the body, `removeScope`. -/
theorem cclaimE_letpar {n : Nat} (hB : CClaimB n) (hP : CClaimP n) {bs : List (String × Expr)} {body : List Expr}
    (isFn : Nat → Bool) (c : Ctx) (gs : GS) (r : (List Instr × Bool) × GS)
    (hc : (compile isFn c (.let_ false bs body)).run gs = .ok r)
    (s : St) (rs : Ref.St) (env : Nat) (pre post : List Instr) (hrel : RelC s rs env) (hseg : Seg s pre r.1.1 post) (hfn : c.funcname = "")
    (hnd : (bs.map (·.1)).Nodup) (hbody : body ≠ []) (hbs : FcBinds bs = true) (hbl : FcList body = true) :
    SimC r.1.1 s rs env (Ref.eval (n + 1) (.let_ false bs body) env rs) := by
  rw [compile] at hc
  simp only [g_bind_ok, g_pure_ok] at hc
  obtain ⟨ra, gs1, ha, rb, gs2, hb, rfl⟩ := hc
  have hcode : ([Instr.addScope] ++ ra.1 ++ (if False then [] else (List.map (fun p => Instr.popStackPutEnv p.fst) bs).reverse)
      ++ rb.1 ++ [Instr.removeScope])
      = [Instr.addScope] ++ (ra.1 ++ (bs.map (fun p => Instr.popStackPutEnv p.1)).reverse ++ rb.1) ++ [Instr.removeScope] := by
    simp
  simp only [Bool.false_eq_true, hcode] at hseg ⊢
  rw [Ref.eval]
  show SimC _ s rs env (if false = true then _ else
      (match Ref.evalList n (bs.map (·.2)) rs.frames.length (Ref.newFrame rs env).2 with
       | .ok vs s => (match Ref.bindAll s rs.frames.length (bs.map (·.1)) vs with
          | some s => Ref.evalBegin n body rs.frames.length s
          | none => .err s)
       | .err s => .err s | .brk l s => .brk l s | .cont l s => .cont l s | .timeout => .timeout))
  rw [if_neg (by decide)]
  refine SimC.scoped hseg hrel ?_
  have hseg1 := hseg.inner
  have hL := hP bs hbs isFn _ gs (ra, gs1) ha hfn _ _ _ _ _ hrel.pushScope
    (hseg1.refocus (c' := ra.1)
      (post' := (bs.map (fun p => Instr.popStackPutEnv p.1)).reverse ++ rb.1 ++ ([.removeScope] ++ post)) (by simp))
  cases h1 : Ref.evalList n (bs.map (·.2)) rs.frames.length (Ref.newFrame rs env).2 with
  | ok vs rs2 =>
    rw [h1] at hL
    obtain ⟨s2, r2, hfn2, hpc2, hdata2, rel2, ext2, fr2, hcl2⟩ := hL
    simp only
    have hlen : vs.length = bs.length := by
      have := ref_evalList_length _ _ _ _ _ _ h1
      simpa using this
    -- the pairs in the order the VM binds them
    have hmapI : ((bs.map (·.1)).zip vs).reverse.map (fun p => Instr.popStackPutEnv p.1)
        = (bs.map (fun p => Instr.popStackPutEnv p.1)).reverse := by
      rw [List.map_reverse]
      congr 1
      have : ((bs.map (·.1)).zip vs).map (fun p => Instr.popStackPutEnv p.1)
          = (((bs.map (·.1)).zip vs).map (·.1)).map Instr.popStackPutEnv := by rw [List.map_map]; rfl
      rw [this, List.map_fst_zip (by simp [hlen]), List.map_map]; rfl
    have hmapD : ((bs.map (·.1)).zip vs).reverse.map (fun p => some p.2) = vs.reverse.map some := by
      have : ((bs.map (·.1)).zip vs).map (fun p => some p.2)
          = (((bs.map (·.1)).zip vs).map (·.2)).map some := by rw [List.map_map]; rfl
      rw [List.map_reverse, List.map_reverse, this, List.map_snd_zip (by simp [hlen])]
    have hndz : (((bs.map (·.1)).zip vs).map (·.1)).Nodup := by
      rw [List.map_fst_zip (by simp [hlen])]; exact hnd
    have hsegB : Seg s2 (pre ++ [Instr.addScope] ++ ra.1)
        (((bs.map (·.1)).zip vs).reverse.map (fun p => Instr.popStackPutEnv p.1)) (rb.1 ++ ([.removeScope] ++ post)) := by
      rw [hmapI]
      exact hseg1.move hfn2 (by simp) (by rw [hpc2, hseg1.pc]; simp; omega)
    have hokp : ∀ p ∈ ((bs.map (·.1)).zip vs).reverse, okBinder p.1 = true := by
      intro p hp
      have hmem : p.1 ∈ bs.map (·.1) := (List.of_mem_zip (show (p.1, p.2) ∈ _ from List.mem_reverse.mp hp)).1
      exact fcBinds_names bs hbs p.1 hmem
    have hclp : ∀ p ∈ ((bs.map (·.1)).zip vs).reverse, Clean p.2 := by
      intro p hp
      exact hcl2 p.2 (List.of_mem_zip (show (p.1, p.2) ∈ _ from List.mem_reverse.mp hp)).2
    have hvm := vm_defineAllC ((bs.map (·.1)).zip vs).reverse s2 rs2 rs.frames.length _ _ s.pushScope.data hokp hclp hsegB
      (by rw [hmapD]; exact hdata2) rel2
    have hlt2 := rel2.chain.lt
    obtain ⟨fr0, hfr0⟩ : ∃ fr0, rs2.frames[rs.frames.length]? = some fr0 := ⟨rs2.frames[rs.frames.length], by simp [hlt2]⟩
    have hrev := defineAll_reverse rs2 rs.frames.length fr0 hfr0 ((bs.map (·.1)).zip vs) hndz
    rw [bindAll_eq_defineAll]
    cases hfwd : defineAll rs2 rs.frames.length ((bs.map (·.1)).zip vs) with
    | some a =>
      cases hbwd : defineAll rs2 rs.frames.length ((bs.map (·.1)).zip vs).reverse with
      | some b =>
        rw [hfwd, hbwd] at hrev
        rw [hbwd] at hvm
        obtain ⟨va, vb, hva, hvb, hlook⟩ := hrev
        obtain ⟨s3, r3, hfn3, hpc3, hdata3, rel3, ext3, fr3⟩ := hvm
        simp only
        rw [hvb] at rel3 ext3
        have rel3a : RelC s3 a rs.frames.length := by rw [hva]; exact rel3.withVars_congr hfr0 hlook
        have ext3a : FramesExt rs2 a := by rw [hva]; exact ext3.withVars_congr
        have m3 : Moved (ra.1.length + (bs.map (fun p => Instr.popStackPutEnv p.1)).reverse.length) s.pushScope s3 :=
          ⟨hfn3.trans hfn2, by
            rw [hpc3, hpc2]; simp only [List.length_reverse, List.length_map, List.length_zip, hlen, Nat.min_self]
            push_cast; omega, hdata3⟩
        have ihb := hB body hbody hbl isFn _ gs1 (rb, gs2) hb hfn s3 a _ _ _ rel3a
          (hseg1.moved m3 (c₁ := ra.1 ++ (bs.map (fun p => Instr.popStackPutEnv p.1)).reverse) (c₂ := rb.1)
            (post' := [.removeScope] ++ post) (by simp) (by simp))
        refine SimC.seq (r2.trans r3.toX) m3 (ext2.trans ext3a) (fr2.trans fr3) ihb ?_
        simp only [List.length_append, List.length_reverse, List.length_map]
      | none =>
        rw [hfwd, hbwd] at hrev
        exact hrev.elim
    | none =>
      cases hbwd : defineAll rs2 rs.frames.length ((bs.map (·.1)).zip vs).reverse with
      | some b =>
        rw [hfwd, hbwd] at hrev
        exact hrev.elim
      | none =>
        rw [hbwd] at hvm
        simp only
        exact FailsX.of_reach r2 hvm.toX
  | err rs2 => rw [h1] at hL; exact hL
  | timeout => trivial
  | brk l rs2 => rw [h1] at hL; exact hL.elim
  | cont l rs2 => rw [h1] at hL; exact hL.elim


theorem cclaimE_succ {n : Nat} (hE : CClaimE n) (hB : CClaimB n) (hC : CClaimC n) (hS : CClaimS n)
    (hN : CClaimN n) (hL : CClaimL n) (hP : CClaimP n) (hA : CClaimA n) (hV : CClaimV n) (hF : CClaimF n) :
    CClaimE (n + 1) := by
  intro e he isFn c gs r hc hfn s rs env pre post hrel hseg
  cases e with
  | int x =>
    rw [compile] at hc; simp only [g_pure_ok] at hc; subst hc
    rw [Ref.eval]; exact simC_push _ trivial hrel hseg
  | bool x =>
    rw [compile] at hc; simp only [g_pure_ok] at hc; subst hc
    rw [Ref.eval]; exact simC_push _ trivial hrel hseg
  | str x =>
    rw [compile] at hc; simp only [g_pure_ok] at hc; subst hc
    rw [Ref.eval]; exact simC_push _ trivial hrel hseg
  | nilLit =>
    rw [compile] at hc; simp only [g_pure_ok] at hc; subst hc
    rw [Ref.eval]; exact simC_push _ trivial hrel hseg
  | sym x =>
    rw [compile] at hc; simp only [g_pure_ok] at hc; subst hc
    exact simC_sym x n hrel hseg
  | begin_ es =>
    rw [Fc] at he
    cases es with
    | nil =>
      rw [compile] at hc; simp only [g_pure_ok] at hc; subst hc
      rw [Ref.eval]
      cases n with
      | zero => rw [Ref.evalBegin]; trivial
      | succ m =>
        rw [Ref.evalBegin]
        · exact simC_push _ trivial hrel hseg
        · omega
    | cons e0 es0 =>
      rw [compile] at hc
      · rw [Ref.eval]
        exact hB (e0 :: es0) (by simp) he isFn c gs r hc hfn s rs env pre post hrel hseg
      · intro hh; cases hh
  | def_ x e1 =>
    rw [Fc] at he
    simp only [Bool.and_eq_true] at he
    rw [compile] at hc
    simp only [g_bind_ok, g_pure_ok] at hc
    obtain ⟨ra, gs1, ha, rfl⟩ := hc
    rw [Ref.eval]
    have ih := hE e1 he.2 isFn _ gs (ra, gs1) ha hfn s rs env pre ([.dup, .popStackPutEnv x] ++ post) hrel
      (hseg.refocus (by simp))
    cases h1 : Ref.eval n e1 env rs with
    | ok v rs1 =>
      rw [h1] at ih
      obtain ⟨s1, r1, l1, rel1, ext1, fr1, hcl1⟩ := ih
      exact simC_def_tail hseg he.1 r1 l1 rel1 ext1 fr1 hcl1
    | err rs1 => rw [h1] at ih; exact SimC.prefix ih (fun _ _ hh => by cases hh)
    | timeout => trivial
    | brk l rs1 => rw [h1] at ih; exact ih.elim
    | cont l rs1 => rw [h1] at ih; exact ih.elim
  | set_ x e1 =>
    rw [Fc] at he
    simp only [Bool.and_eq_true] at he
    rw [compile] at hc
    simp only [g_bind_ok, g_pure_ok] at hc
    obtain ⟨ra, gs1, ha, rfl⟩ := hc
    rw [Ref.eval]
    have ih := hE e1 he.2 isFn _ gs (ra, gs1) ha hfn s rs env pre ([.dup, .update x] ++ post) hrel
      (hseg.refocus (by simp))
    cases h1 : Ref.eval n e1 env rs with
    | ok v rs1 =>
      rw [h1] at ih
      obtain ⟨s1, r1, l1, rel1, ext1, fr1, hcl1⟩ := ih
      exact simC_set_tail hseg he.1 r1 l1 rel1 ext1 fr1 hcl1
    | err rs1 => rw [h1] at ih; exact SimC.prefix ih (fun _ _ hh => by cases hh)
    | timeout => trivial
    | brk l rs1 => rw [h1] at ih; exact ih.elim
    | cont l rs1 => rw [h1] at ih; exact ih.elim
  | cond arms d =>
    rw [Fc] at he
    simp only [Bool.and_eq_true] at he
    rw [compile] at hc
    simp only [g_bind_ok, g_pure_ok] at hc
    obtain ⟨rd, gs1, hd, as, gs2, has, rfl⟩ := hc
    rw [Ref.eval]
    exact hC arms d he.1 he.2 isFn c gs1 (as, gs2) gs (rd, gs1) has hd hfn s rs env pre post hrel hseg
  | and_ es =>
    rw [Fc] at he
    rw [compile] at hc
    simp only [g_bind_ok, g_pure_ok] at hc
    obtain ⟨cs, gs1, hcs, rfl⟩ := hc
    rw [Ref.eval]
    exact hS false es he isFn c gs (cs, gs1) hcs hfn s rs env pre post hrel hseg
  | or_ es =>
    rw [Fc] at he
    rw [compile] at hc
    simp only [g_bind_ok, g_pure_ok] at hc
    obtain ⟨cs, gs1, hcs, rfl⟩ := hc
    rw [Ref.eval]
    exact hS true es he isFn c gs (cs, gs1) hcs hfn s rs env pre post hrel hseg
  | newScope es =>
    rw [Fc] at he
    simp only [Bool.and_eq_true, Bool.not_eq_true', List.isEmpty_eq_false_iff] at he
    cases es with
    | nil => exact absurd rfl he.1
    | cons e0 es0 =>
      rw [compile] at hc
      · simp only [g_bind_ok, g_pure_ok] at hc
        obtain ⟨ra, gs1, ha, rfl⟩ := hc
        rw [Ref.eval]
        show SimC _ s rs env (Ref.evalBegin n (e0 :: es0) rs.frames.length (Ref.newFrame rs env).2)
        exact SimC.scoped hseg hrel (hN (e0 :: es0) he.1 he.2 isFn _ _ gs (ra, gs1) ha hfn _ _ _ _ _ hrel.pushScope hseg.inner)
      · intro hh; cases hh
  | let_ seq bs body =>
    rw [Fc] at he
    simp only [Bool.and_eq_true, Bool.not_eq_true', List.isEmpty_eq_false_iff] at he
    obtain ⟨⟨⟨hseq, hbody⟩, hbs⟩, hbl⟩ := he
    cases seq
    · exact cclaimE_letpar hB hP isFn c gs r hc s rs env pre post hrel hseg hfn
        (by simpa using hseq) hbody hbs hbl
    rw [compile] at hc
    simp only [g_bind_ok, g_pure_ok] at hc
    obtain ⟨ra, gs1, ha, rb, gs2, hb, rfl⟩ := hc
    have hcode : ([Instr.addScope] ++ ra.1 ++ (if True then [] else (List.map (fun p => Instr.popStackPutEnv p.fst) bs).reverse)
        ++ rb.1 ++ [Instr.removeScope]) = [Instr.addScope] ++ (ra.1 ++ rb.1) ++ [Instr.removeScope] := by simp
    simp only [hcode] at hseg ⊢
    rw [Ref.eval]
    show SimC _ s rs env (if true = true then
        (match Ref.evalLetSeq n bs rs.frames.length (Ref.newFrame rs env).2 with
         | .ok _ s => Ref.evalBegin n body rs.frames.length s
         | .err s => .err s | .brk l s => .brk l s | .cont l s => .cont l s | .timeout => .timeout)
      else _)
    rw [if_pos rfl]
    refine SimC.scoped hseg hrel ?_
    have hseg1 := hseg.inner
    have hU := hL bs hbs isFn _ gs (ra, gs1) ha hfn _ _ _ _ _ hrel.pushScope
      (hseg1.refocus (c' := ra.1) (post' := rb.1 ++ ([.removeScope] ++ post)) (by simp))
    cases h1 : Ref.evalLetSeq n bs rs.frames.length (Ref.newFrame rs env).2 with
    | ok u rs2 =>
      rw [h1] at hU
      obtain ⟨s2, r2, m2, rel2, ext2, fr2⟩ := hU
      have ihb := hB body hbody hbl isFn _ gs1 (rb, gs2) hb hfn s2 rs2 _ _ _ rel2
        (hseg1.moved m2 (c₁ := ra.1) (c₂ := rb.1) (post' := [.removeScope] ++ post) (by simp) rfl)
      exact SimC.seq r2 m2 ext2 fr2 ihb (by lenarith)
    | err rs2 => rw [h1] at hU; exact hU
    | timeout => trivial
    | brk l rs2 => rw [h1] at hU; exact hU.elim
    | cont l rs2 => rw [h1] at hU; exact hU.elim
  | arr es =>
    rw [Fc] at he
    rw [compile] at hc
    simp only [g_bind_ok, g_pure_ok] at hc
    obtain ⟨ra, gs1, ha, rfl⟩ := hc
    rw [Ref.eval]
    have ih := hV es he isFn _ gs (ra, gs1) ha hfn s rs env pre ([.callArr es.length] ++ post) hrel
      (hseg.refocus (by simp))
    cases h1 : Ref.evalList n es env rs with
    | ok vs rs1 =>
      rw [h1] at ih
      obtain ⟨s1, r1, hfn1, hpc1, hd1, rel1, ext1, fr1, hclvs⟩ := ih
      exact simC_arr_tail hseg (ref_evalList_length _ _ _ _ _ _ h1).symm r1 hfn1 hpc1 hd1 rel1 ext1 fr1 hclvs
    | err rs1 => rw [h1] at ih; exact ih
    | timeout => trivial
    | brk l rs1 => rw [h1] at ih; exact ih.elim
    | cont l rs1 => rw [h1] at ih; exact ih.elim
  | for_ label init test incr body =>
    rw [Fc] at he
    simp only [Bool.and_eq_true] at he
    exact cclaimE_for hE hF he.1.1.1 he.1.1.2 he.1.2 he.2 isFn c gs r hc hfn s rs env pre post hrel hseg
  | call f args =>
    cases f with
    | sym h =>
      rw [Fc] at he
      simp only [Bool.and_eq_true, List.contains_iff_mem] at he
      rw [compile] at hc
      have hne : (h == c.funcname) = false := by
        rw [hfn]; have := foBuiltins_ne_empty h he.1; simpa using this
      simp only [hne, Bool.and_false, Bool.false_eq_true, if_false, g_pure_ok] at hc
      subst hc
      cases n with
      | zero =>
        rw [Ref.eval, Ref.eval]
        trivial
      | succ m => exact simC_call hA h he.1 args he.2 hrel hseg
    | _ => simp [Fc] at he
  | _ => simp [Fc] at he


/-! ## The induction -/

theorem cclaims_zero : CClaimE 0 ∧ CClaimB 0 ∧ CClaimC 0 ∧ CClaimS 0 ∧ CClaimN 0 ∧ CClaimL 0 ∧ CClaimP 0 ∧ CClaimA 0
    ∧ CClaimV 0 ∧ CClaimF 0 := by
  refine ⟨?_, ?_, ?_, ?_, ?_, ?_, ?_, ?_, ?_, ?_⟩
  · intro e _ isFn c gs r _ _ s rs env pre post _ _
    rw [Ref.eval]; trivial
  · intro es _ _ isFn c gs r _ _ s rs env pre post _ _
    rw [Ref.evalBegin]; trivial
  · intro arms d _ _ isFn c gs r gs0 rd _ _ _ s rs env pre post _ _
    rw [Ref.evalCond]; trivial
  · intro isOr es _ isFn c gs r _ _ s rs env pre post _ _
    rw [Ref.evalAndOr]; trivial
  · intro es _ _ isFn c ot gs r _ _ s rs env pre post _ _
    rw [Ref.evalBegin]; trivial
  · intro bs _ isFn c gs r _ _ s rs env pre post _ _
    rw [Ref.evalLetSeq]; trivial
  · intro bs _ isFn c gs r _ _ s rs env pre post _ _
    rw [Ref.evalList]; trivial
  · intro args _ i s rs env _
    rw [Ref.evalArgs]; trivial
  · intro es _ isFn c gs r _ _ s rs env pre post _ _
    rw [Ref.evalList]; trivial
  · intro label test incr body _ _ _ isFn c gb rb g2 gt rt g4 gi ri g5 _ _ _ _ L ci pre post σ rs fr D _ _ _ _
    rw [Ref.loop]; trivial

theorem cclaims : ∀ n, CClaimE n ∧ CClaimB n ∧ CClaimC n ∧ CClaimS n ∧ CClaimN n ∧ CClaimL n ∧ CClaimP n ∧ CClaimA n
    ∧ CClaimV n ∧ CClaimF n
  | 0 => cclaims_zero
  | n + 1 => by
    obtain ⟨hE, hB, hC, hS, hN, hL, hP, hA, hV, hF⟩ := cclaims n
    exact ⟨cclaimE_succ hE hB hC hS hN hL hP hA hV hF, cclaimB_succ hE hB, cclaimC_succ hE hC, cclaimS_succ hE hS,
      cclaimN_succ hE hN, cclaimL_succ hE hL, cclaimP_succ hE hP, cclaimA_succ hE hA, cclaimV_succ hE hV,
      cclaimF_succ hE hB hF⟩

/-- **Segment lemma for Fc** (Fv with binder names that are not builtin names, plus calls of
first-order builtins with operands in Fc). From related states (`RelC`), the VM on the first
instruction of the code of `e` (compiled in a context without an enclosing function name), embedded
anywhere: a reference value ⇒ the code runs to its end, pushes that value, related states again,
control stacks and old function objects untouched; a reference error ⇒ a script error with the same
trace; never `break`/`continue`. The fuel the VM needs is bounded (existentially: operands are
evaluated in nested runs). -/
theorem segment_Fc (e : Expr) (he : Fc e = true) (isFn : Nat → Bool) (c : Ctx) (hfn : c.funcname = "") (gs : GS)
    (code : List Instr) (t : Bool) (gs' : GS) (hc : (compile isFn c e).run gs = .ok ((code, t), gs'))
    (s : St) (rs : Ref.St) (env : Nat) (pre post : List Instr) (hrel : RelC s rs env) (hseg : Seg s pre code post)
    (n : Nat) : SimC code s rs env (Ref.eval n e env rs) :=
  (cclaims n).1 e he isFn c gs ((code, t), gs') hc hfn s rs env pre post hrel hseg

theorem segment_Fc_begin (es : List Expr) (hne : es ≠ []) (he : FcList es = true) (isFn : Nat → Bool) (c : Ctx)
    (hfn : c.funcname = "") (gs : GS)
    (code : List Instr) (t : Bool) (gs' : GS) (hc : (compileBegin isFn c es).run gs = .ok ((code, t), gs'))
    (s : St) (rs : Ref.St) (env : Nat) (pre post : List Instr) (hrel : RelC s rs env) (hseg : Seg s pre code post)
    (n : Nat) : SimC code s rs env (Ref.evalBegin n es env rs) :=
  (cclaims n).2.1 es hne he isFn c gs ((code, t), gs') hc hfn s rs env pre post hrel hseg

end ZygoVerif.Sim
