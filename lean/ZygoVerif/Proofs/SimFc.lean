/-
C02, execution half — Stage D, second half: calls of first-order builtins.

Fc = literals, symbol reference, `def`, `set`, non-empty `begin`, `cond`, `and`, `or`, non-empty
`newScope`, `letseq`, `let` with pairwise distinct names — as Fv — plus calls `(h a₁ … aₙ)` whose
head is the name of a first-order builtin (`+ - * mod < > <= >= == != not cons first rest second
list array len append concat aget aset hash hget hset`, and the host function `trace`) and whose
operands are in Fc; the names bound by `def`/`set`/`let`/`letseq` are not such names. Operands
are compiled at run time and evaluated in nested `Run`s (`EvalCallExpression`).
-/
import ZygoVerif.Proofs.SimCallVM
import ZygoVerif.Proofs.SimFv
set_option linter.unusedSimpArgs false
namespace ZygoVerif.Sim
open ZygoVerif.Core ZygoVerif.VM

/-! ## The fragment -/

mutual
def Fc : Expr → Bool
  | .int _ | .bool _ | .str _ | .nilLit | .sym _ => true
  | .begin_ es => !es.isEmpty && FcList es
  | .def_ x e => okBinder x && Fc e
  | .set_ x e => okBinder x && Fc e
  | .cond arms d => FcArms arms && Fc d
  | .and_ es => FcList es
  | .or_ es => FcList es
  | .newScope es => !es.isEmpty && FcList es
  | .let_ seq bs body =>
    (seq || decide ((bs.map (·.1)).Nodup)) && !body.isEmpty && FcBinds bs && FcList body
  | .call (.sym h) args => foBuiltins.contains h && FcList args
  | _ => false
def FcList : List Expr → Bool
  | [] => true
  | e :: es => Fc e && FcList es
def FcArms : List (Expr × Expr) → Bool
  | [] => true
  | (p, b) :: r => Fc p && Fc b && FcArms r
def FcBinds : List (String × Expr) → Bool
  | [] => true
  | (x, e) :: r => okBinder x && Fc e && FcBinds r
end

/-! ## The simulation statement -/

def SimC (code : List Instr) (s : St) (rs : Ref.St) (env : Nat) (res : Ref.R Val) : Prop :=
  match res with
  | .ok v rs' => ∃ s', ReachE code.length s s' ∧ Lands code.length v s s' ∧ RelC s' rs' env ∧ FramesExt rs rs'
      ∧ Frame s s'
  | .err rs' => FailsE code.length s rs'.trace
  | .timeout => True
  | .brk _ _ => False
  | .cont _ _ => False

/-- code that leaves no value (the bindings of `letseq`) -/
def SimCU (code : List Instr) (s : St) (rs : Ref.St) (env : Nat) (res : Ref.R Unit) : Prop :=
  match res with
  | .ok _ rs' => ∃ s', ReachE code.length s s' ∧ Moved code.length s s' ∧ RelC s' rs' env ∧ FramesExt rs rs'
      ∧ Frame s s'
  | .err rs' => FailsE code.length s rs'.trace
  | .timeout => True
  | .brk _ _ => False
  | .cont _ _ => False

/-- code that pushes a list of values, first value deepest (the initialisers of `let`) -/
def SimCL (code : List Instr) (s : St) (rs : Ref.St) (env : Nat) (res : Ref.R (List Val)) : Prop :=
  match res with
  | .ok vs rs' => ∃ s', ReachE code.length s s' ∧ fnOf s' s'.curfunc = fnOf s s.curfunc
      ∧ s'.pc = s.pc + (code.length : Int) ∧ s'.data = vs.reverse.map some ++ s.data
      ∧ RelC s' rs' env ∧ FramesExt rs rs' ∧ Frame s s'
  | .err rs' => FailsE code.length s rs'.trace
  | .timeout => True
  | .brk _ _ => False
  | .cont _ _ => False

def CClaimE (n : Nat) : Prop :=
  ∀ e, Fc e = true → ∀ isFn c gs r, c.funcname = "" → (compile isFn c e).run gs = .ok r →
    ∀ s rs env pre post, RelC s rs env → Seg s pre r.1.1 post → SimC r.1.1 s rs env (Ref.eval n e env rs)

def CClaimB (n : Nat) : Prop :=
  ∀ es, es ≠ [] → FcList es = true → ∀ isFn c gs r, c.funcname = "" → (compileBegin isFn c es).run gs = .ok r →
    ∀ s rs env pre post, RelC s rs env → Seg s pre r.1.1 post → SimC r.1.1 s rs env (Ref.evalBegin n es env rs)

def CClaimC (n : Nat) : Prop :=
  ∀ arms d, FcArms arms = true → Fc d = true → ∀ isFn c gs r gs0 rd, c.funcname = "" →
    (compileArms isFn c arms).run gs = .ok r → (compile isFn c d).run gs0 = .ok rd →
    ∀ s rs env pre post, RelC s rs env → Seg s pre (asmCond r.1 rd.1.1) post →
      SimC (asmCond r.1 rd.1.1) s rs env (Ref.evalCond n arms d env rs)

def CClaimS (n : Nat) : Prop :=
  ∀ isOr es, FcList es = true → ∀ isFn c gs r, c.funcname = "" → (compileSC isFn c es).run gs = .ok r →
    ∀ s rs env pre post, RelC s rs env → Seg s pre (asmSC isOr r.1) post →
      SimC (asmSC isOr r.1) s rs env (Ref.evalAndOr n isOr es env rs)

def CClaimN (n : Nat) : Prop :=
  ∀ es, es ≠ [] → FcList es = true → ∀ isFn c oldtail gs r, c.funcname = "" →
    (compileNewScope isFn c oldtail es).run gs = .ok r →
    ∀ s rs env pre post, RelC s rs env → Seg s pre r.1.1 post → SimC r.1.1 s rs env (Ref.evalBegin n es env rs)

def CClaimL (n : Nat) : Prop :=
  ∀ bs, FcBinds bs = true → ∀ isFn c gs r, c.funcname = "" → (compileBinds isFn c true bs).run gs = .ok r →
    ∀ s rs env pre post, RelC s rs env → Seg s pre r.1.1 post → SimCU r.1.1 s rs env (Ref.evalLetSeq n bs env rs)

def CClaimP (n : Nat) : Prop :=
  ∀ bs, FcBinds bs = true → ∀ isFn c gs r, c.funcname = "" → (compileBinds isFn c false bs).run gs = .ok r →
    ∀ s rs env pre post, RelC s rs env → Seg s pre r.1.1 post →
      SimCL r.1.1 s rs env (Ref.evalList n (bs.map (·.2)) env rs)

/-- operands of a call: `PrepareCallExprArgs` against `evalArgs` (no lazy positions) -/
def CClaimA (n : Nat) : Prop :=
  ∀ args, FcList args = true → ∀ (i : Nat) s rs env, RelC s rs env →
    match Ref.evalArgs n args i (fun _ => false) env rs with
    | .ok vs rs' => ∃ M s', (∀ fuel, M ≤ fuel → (prepareArgs fuel none i args).run s = (.ok (), s'))
        ∧ s'.data = vs.reverse.map some ++ s.data ∧ s'.pc = s.pc ∧ RelC s' rs' env ∧ FramesExt rs rs' ∧ Frame s s'
    | .err rs' => ∃ M, ∀ fuel, M ≤ fuel → ∃ se, (prepareArgs fuel none i args).run s = (.error .err, se)
        ∧ se.trace = rs'.trace
    | .timeout => True
    | .brk _ _ => False
    | .cont _ _ => False

/-! ## `compile` on Fc: total, generator state untouched, code never empty -/

theorem foBuiltins_ne_empty : ∀ h ∈ foBuiltins, h ≠ "" := by decide

mutual
theorem compile_total_Fc : ∀ (e : Expr), Fc e = true → ∀ isFn c gs, c.funcname = "" →
    ∃ code t, (compile isFn c e).run gs = .ok ((code, t), gs) ∧ code ≠ []
  | .int v, _, isFn, c, gs, hfn => ⟨_, _, by rw [compile]; rfl, by simp⟩
  | .bool v, _, isFn, c, gs, hfn => ⟨_, _, by rw [compile]; rfl, by simp⟩
  | .str v, _, isFn, c, gs, hfn => ⟨_, _, by rw [compile]; rfl, by simp⟩
  | .nilLit, _, isFn, c, gs, hfn => ⟨_, _, by rw [compile]; rfl, by simp⟩
  | .sym x, _, isFn, c, gs, hfn => ⟨_, _, by rw [compile]; rfl, by simp⟩
  | .begin_ es, he, isFn, c, gs, hfn => by
    rw [Fc] at he
    simp only [Bool.and_eq_true, Bool.not_eq_true', List.isEmpty_eq_false_iff] at he
    rw [compile]
    exact compileBegin_total_Fc es he.1 he.2 isFn c gs hfn
  | .def_ x e, he, isFn, c, gs, hfn => by
    rw [Fc] at he
    simp only [Bool.and_eq_true] at he
    obtain ⟨ce, t, h1, _⟩ := compile_total_Fc e he.2 isFn { c with tail := false } gs hfn
    refine ⟨ce ++ [.dup, .popStackPutEnv x], false, ?_, by simp⟩
    rw [compile]
    simp only [g_bind_ok, g_pure_ok]
    exact ⟨_, _, h1, rfl⟩
  | .set_ x e, he, isFn, c, gs, hfn => by
    rw [Fc] at he
    simp only [Bool.and_eq_true] at he
    obtain ⟨ce, t, h1, _⟩ := compile_total_Fc e he.2 isFn { c with tail := false } gs hfn
    refine ⟨ce ++ [.dup, .update x], false, ?_, by simp⟩
    rw [compile]
    simp only [g_bind_ok, g_pure_ok]
    exact ⟨_, _, h1, rfl⟩
  | .cond arms d, he, isFn, c, gs, hfn => by
    rw [Fc] at he
    simp only [Bool.and_eq_true] at he
    obtain ⟨dc, t, hd, hdne⟩ := compile_total_Fc d he.2 isFn c gs hfn
    obtain ⟨as, has⟩ := compileArms_total_Fc arms he.1 isFn c gs hfn
    refine ⟨asmCond as dc, c.tail, ?_, asmCond_ne_nil as dc hdne⟩
    rw [compile]
    simp only [g_bind_ok, g_pure_ok]
    exact ⟨_, _, hd, _, _, has, rfl⟩
  | .and_ es, he, isFn, c, gs, hfn => by
    rw [Fc] at he
    obtain ⟨cs, hcs, hne⟩ := compileSC_total_Fc es he isFn c gs hfn
    refine ⟨asmSC false cs, c.tail, ?_, asmSC_ne_nil false cs hne⟩
    rw [compile]
    simp only [g_bind_ok, g_pure_ok]
    exact ⟨_, _, hcs, rfl⟩
  | .or_ es, he, isFn, c, gs, hfn => by
    rw [Fc] at he
    obtain ⟨cs, hcs, hne⟩ := compileSC_total_Fc es he isFn c gs hfn
    refine ⟨asmSC true cs, c.tail, ?_, asmSC_ne_nil true cs hne⟩
    rw [compile]
    simp only [g_bind_ok, g_pure_ok]
    exact ⟨_, _, hcs, rfl⟩
  | .newScope es, he, isFn, c, gs, hfn => by
    rw [Fc] at he
    simp only [Bool.and_eq_true, Bool.not_eq_true', List.isEmpty_eq_false_iff] at he
    obtain ⟨code, t, h1, _⟩ := compileNewScope_total_Fc es he.1 he.2 isFn { c with scopes := c.scopes + 1 } c.tail gs hfn
    refine ⟨[.addScope] ++ code ++ [.removeScope], t, ?_, by simp⟩
    cases es with
    | nil => exact absurd rfl he.1
    | cons e es =>
      rw [compile]
      · simp only [g_bind_ok, g_pure_ok]
        exact ⟨_, _, h1, rfl⟩
      · intro hh; cases hh
  | .let_ seq bs body, he, isFn, c, gs, hfn => by
    rw [Fc] at he
    simp only [Bool.and_eq_true, Bool.not_eq_true', List.isEmpty_eq_false_iff] at he
    obtain ⟨⟨⟨_, hbody⟩, hbs⟩, hbl⟩ := he
    obtain ⟨rhs, t1, h1⟩ := compileBinds_total_Fc bs hbs isFn { c with scopes := c.scopes + 1 } seq gs hfn
    obtain ⟨b, t2, h2, _⟩ := compileBegin_total_Fc body hbody hbl isFn
      { tail := t1, scopes := c.scopes + 1, funcname := c.funcname, known := c.known } gs hfn
    refine ⟨[.addScope] ++ rhs ++ (if seq then [] else (bs.map (fun p => Instr.popStackPutEnv p.1)).reverse)
      ++ b ++ [.removeScope], t2, ?_, by simp⟩
    rw [compile]
    simp only [g_bind_ok, g_pure_ok]
    exact ⟨_, _, h1, _, _, h2, rfl⟩
  | .call f args, he, isFn, c, gs, hfn => by
    cases f with
    | sym h =>
      rw [Fc] at he
      simp only [Bool.and_eq_true, List.contains_iff_mem] at he
      refine ⟨[.callExpr (.sym h) args], c.tail, ?_, by simp⟩
      rw [compile]
      have hne : (h == c.funcname) = false := by
        rw [hfn]; have := foBuiltins_ne_empty h he.1; simpa using this
      simp only [hne, Bool.and_false, Bool.false_eq_true, if_false]
      rfl
    | _ => simp [Fc] at he
  | .arr _, he, _, _, _, _
  | .for_ _ _ _ _ _, he, _, _, _, _ | .break_ _, he, _, _, _, _ | .continue_ _, he, _, _, _, _
  | .fn _ _ _, he, _, _, _, _ | .defn _ _ _ _, he, _, _, _, _ | .assign _ _, he, _, _, _, _ | .bad _, he, _, _, _, _ => by
    simp [Fc] at he
theorem compileBegin_total_Fc : ∀ (es : List Expr), es ≠ [] → FcList es = true → ∀ isFn c gs, c.funcname = "" →
    ∃ code t, (compileBegin isFn c es).run gs = .ok ((code, t), gs) ∧ code ≠ []
  | [], hne, _, _, _, _, _ => absurd rfl hne
  | [e], _, he, isFn, c, gs, hfn => by
    rw [FcList] at he
    simp only [Bool.and_eq_true] at he
    rw [compileBegin]
    exact compile_total_Fc e he.1 isFn c gs hfn
  | e :: e' :: es, _, he, isFn, c, gs, hfn => by
    rw [FcList] at he
    simp only [Bool.and_eq_true] at he
    obtain ⟨a, ta, ha, hane⟩ := compile_total_Fc e he.1 isFn { c with tail := false } gs hfn
    obtain ⟨b, tb, hb, _⟩ := compileBegin_total_Fc (e' :: es) (by simp) he.2 isFn c gs hfn
    refine ⟨a ++ (if a.isEmpty then [] else [.pop]) ++ b, tb, ?_, by simp [hane]⟩
    rw [compileBegin]
    · simp only [g_bind_ok, g_pure_ok]
      exact ⟨_, _, ha, _, _, hb, rfl⟩
    · intro hh; cases hh
theorem compileSC_total_Fc : ∀ (es : List Expr), FcList es = true → ∀ isFn c gs, c.funcname = "" →
    ∃ cs, (compileSC isFn c es).run gs = .ok (cs, gs) ∧ ∀ c ∈ cs, c ≠ []
  | [], _, isFn, c, gs, hfn => ⟨[], by rw [compileSC]; rfl, by simp⟩
  | [e], he, isFn, c, gs, hfn => by
    rw [FcList] at he
    simp only [Bool.and_eq_true] at he
    obtain ⟨a, t, ha, hane⟩ := compile_total_Fc e he.1 isFn c gs hfn
    refine ⟨[a], ?_, by simpa using hane⟩
    rw [compileSC]
    simp only [g_bind_ok, g_pure_ok]
    exact ⟨_, _, ha, rfl⟩
  | e :: e' :: es, he, isFn, c, gs, hfn => by
    rw [FcList] at he
    simp only [Bool.and_eq_true] at he
    obtain ⟨a, t, ha, hane⟩ := compile_total_Fc e he.1 isFn { c with tail := false } gs hfn
    obtain ⟨b, hb, hbne⟩ := compileSC_total_Fc (e' :: es) he.2 isFn c gs hfn
    refine ⟨a :: b, ?_, ?_⟩
    · rw [compileSC]
      · simp only [g_bind_ok, g_pure_ok]
        exact ⟨_, _, hb, _, _, ha, rfl⟩
      · intro hh; cases hh
    · intro x hx
      rcases List.mem_cons.mp hx with rfl | hx
      · exact hane
      · exact hbne x hx
theorem compileNewScope_total_Fc : ∀ (es : List Expr), es ≠ [] → FcList es = true → ∀ isFn c oldtail gs, c.funcname = "" →
    ∃ code t, (compileNewScope isFn c oldtail es).run gs = .ok ((code, t), gs) ∧ code ≠ []
  | [], hne, _, _, _, _, _, _ => absurd rfl hne
  | [e], _, he, isFn, c, oldtail, gs, hfn => by
    rw [FcList] at he
    simp only [Bool.and_eq_true] at he
    rw [compileNewScope]
    exact compile_total_Fc e he.1 isFn _ gs hfn
  | e :: e' :: es, _, he, isFn, c, oldtail, gs, hfn => by
    rw [FcList] at he
    simp only [Bool.and_eq_true] at he
    obtain ⟨a, ta, ha, hane⟩ := compile_total_Fc e he.1 isFn { c with tail := false } gs hfn
    obtain ⟨b, tb, hb, _⟩ := compileNewScope_total_Fc (e' :: es) (by simp) he.2 isFn c oldtail gs hfn
    refine ⟨a ++ [.pop] ++ b, tb, ?_, by simp⟩
    rw [compileNewScope]
    · simp only [g_bind_ok, g_pure_ok]
      exact ⟨_, _, ha, _, _, hb, rfl⟩
    · intro hh; cases hh
theorem compileBinds_total_Fc : ∀ (bs : List (String × Expr)), FcBinds bs = true → ∀ isFn c seq gs, c.funcname = "" →
    ∃ code t, (compileBinds isFn c seq bs).run gs = .ok ((code, t), gs)
  | [], _, isFn, c, seq, gs, hfn => ⟨[], c.tail, by rw [compileBinds]; rfl⟩
  | (x, e) :: bs, he, isFn, c, seq, gs, hfn => by
    rw [FcBinds] at he
    simp only [Bool.and_eq_true] at he
    obtain ⟨a, ta, ha, _⟩ := compile_total_Fc e he.1.2 isFn c gs hfn
    obtain ⟨b, tb, hb⟩ := compileBinds_total_Fc bs he.2 isFn { c with tail := ta } seq gs hfn
    refine ⟨a ++ (if seq then [.popStackPutEnv x] else []) ++ b, tb, ?_⟩
    rw [compileBinds]
    simp only [g_bind_ok, g_pure_ok]
    exact ⟨_, _, ha, _, _, hb, rfl⟩
theorem compileArms_total_Fc : ∀ (arms : List (Expr × Expr)), FcArms arms = true → ∀ isFn c gs, c.funcname = "" →
    ∃ as, (compileArms isFn c arms).run gs = .ok (as, gs)
  | [], _, isFn, c, gs, hfn => ⟨[], by rw [compileArms]; rfl⟩
  | (p, b) :: arms, he, isFn, c, gs, hfn => by
    rw [FcArms] at he
    simp only [Bool.and_eq_true] at he
    obtain ⟨pc, _, hp, _⟩ := compile_total_Fc p he.1.1 isFn { c with tail := false, scopes := 0 } gs hfn
    obtain ⟨bc, _, hb, _⟩ := compile_total_Fc b he.1.2 isFn c gs hfn
    obtain ⟨r, hr⟩ := compileArms_total_Fc arms he.2 isFn c gs hfn
    refine ⟨(pc, bc) :: r, ?_⟩
    rw [compileArms]
    simp only [g_bind_ok, g_pure_ok]
    exact ⟨_, _, hr, _, _, hp, _, _, hb, rfl⟩
end

/-- whatever `compile` returns for an Fc expression is non-empty code -/
theorem compile_ne_nil_Fc {e : Expr} (he : Fc e = true) {isFn c gs r} (hfn : c.funcname = "")
    (h : (compile isFn c e).run gs = .ok r) : r.1.1 ≠ [] := by
  obtain ⟨code, t, h1, hne⟩ := compile_total_Fc e he isFn c gs hfn
  rw [h1] at h
  injection h with h
  subst h
  exact hne


/-! ## Atoms, `def`, `set` -/

theorem simC_push {s : St} {rs : Ref.St} {env : Nat} {pre post : List Instr} (v : Val)
    (hrel : RelC s rs env) (h : Seg s pre [.push v] post) : SimC [.push v] s rs env (.ok v rs) :=
  ⟨s.jmp (s.pc + 1) (some v :: s.data), (reach_push h.head).toE, ⟨rfl, by simp, rfl⟩, hrel.jmp _ _,
    FramesExt.refl rs, Frame.jmp _ _ _⟩

theorem simC_sym {s : St} {rs : Ref.St} {env : Nat} {pre post : List Instr} (x : String) (n : Nat)
    (hrel : RelC s rs env) (h : Seg s pre [.envToStack x] post) :
    SimC [.envToStack x] s rs env (Ref.eval (n + 1) (.sym x) env rs) := by
  rw [Ref.eval]
  have hl := hrel.lexLookup x
  cases hr : Ref.lookup rs env x with
  | none =>
    rw [hr] at hl
    simp only [SimC]
    have : Fails 1 s s.trace := Fails.step h.head (fun f => by rw [exec_envToStack, hl])
    rw [hrel.trace] at this
    exact this.toE
  | some r =>
    obtain ⟨id, v⟩ := r
    rw [hr] at hl
    simp only [SimC]
    exact ⟨s.jmp (s.pc + 1) (some v :: s.data),
      (Reach.step h.head (fun f => by rw [exec_envToStack, hl])).toE,
      ⟨rfl, by simp, rfl⟩, hrel.jmp _ _, FramesExt.refl rs, Frame.jmp _ _ _⟩

/-- `popStackPutEnv x` with `v` on top of the data stack, in related states -/
theorem psp_stepC {s₁ : St} {rs₁ : Ref.St} {env : Nat} {P Q : List Instr} {x : String} {v : Val}
    {D : List (Option Val)} (a : At s₁ P (.popStackPutEnv x) Q) (hd : s₁.data = some v :: D) (rel1 : RelC s₁ rs₁ env)
    (hx : okBinder x = true) :
    match Ref.define rs₁ env x v with
    | some rs₂ => Reach 1 1 s₁ ((s₁.jmp (s₁.pc + 1) D).bind env x v)
        ∧ RelC ((s₁.jmp (s₁.pc + 1) D).bind env x v) rs₂ env ∧ FramesExt rs₁ rs₂
    | none => Fails 1 s₁ rs₁.trace := by
  obtain ⟨rest, hlin⟩ := rel1.chain.head
  have hlt := rel1.chain.lt
  obtain ⟨fr, hfr⟩ : ∃ fr, rs₁.frames[env]? = some fr := ⟨rs₁.frames[env], by simp [hlt]⟩
  have hv := rel1.vars env x
  rw [List.getD_eq_getElem?_getD, hfr, Option.getD_some] at hv
  have hx' : ∀ f, (exec (f + 1) (.popStackPutEnv x)).run s₁ = (bindTop x v).run (s₁.jmp (s₁.pc + 1) D) :=
    fun f => exec_popStackPutEnv f x _ v D hd
  have hb := run_bindTop x v (s₁.jmp (s₁.pc + 1) D)
  rw [show (s₁.jmp (s₁.pc + 1) D).linear = some env :: rest from hlin] at hb
  simp only at hb
  rw [show scopeOf (s₁.jmp (s₁.pc + 1) D) env = scopeOf s₁ env from rfl, hv,
    show (s₁.jmp (s₁.pc + 1) D).heap = rs₁.heap from rel1.heap] at hb
  rw [ref_define_eq rs₁ env x v fr hfr]
  have hok : (bindTop x v).run (s₁.jmp (s₁.pc + 1) D) = (.ok (), (s₁.jmp (s₁.pc + 1) D).bind env x v) →
      Reach 1 1 s₁ ((s₁.jmp (s₁.pc + 1) D).bind env x v)
        ∧ RelC ((s₁.jmp (s₁.pc + 1) D).bind env x v) (Ref.setVar rs₁ env x v) env
        ∧ FramesExt rs₁ (Ref.setVar rs₁ env x v) := fun hb' =>
    ⟨Reach.step a (fun f => (hx' f).trans hb'), (rel1.jmp _ _).bind env hlt hx v, FramesExt.setVar _ _ _ _⟩
  have herr : (bindTop x v).run (s₁.jmp (s₁.pc + 1) D) = (.error .err, s₁.jmp (s₁.pc + 1) D) →
      Fails 1 s₁ rs₁.trace := fun hb' => by
    have hf := Fails.step a (fun f => (hx' f).trans hb')
    rw [show (s₁.jmp (s₁.pc + 1) D).trace = rs₁.trace from rel1.trace] at hf
    exact hf
  cases hl : fr.vars.lookup x with
  | none =>
    rw [hl] at hb
    exact hok hb
  | some cur =>
    rw [hl] at hb
    simp only at hb ⊢
    by_cases hrb : rebindOk rs₁.heap cur v = true
    · rw [if_pos hrb] at hb ⊢
      exact hok hb
    · rw [if_neg hrb] at hb ⊢
      exact herr hb

/-- `def x e`, after `e` has produced `v` -/
theorem simC_def_tail {s s₁ : St} {rs rs₁ : Ref.St} {env : Nat} {pre post ce : List Instr} {x : String} {v : Val}
    (h : Seg s pre (ce ++ [.dup, .popStackPutEnv x]) post) (hx : okBinder x = true)
    (r1 : ReachE ce.length s s₁) (l1 : Lands ce.length v s s₁) (rel1 : RelC s₁ rs₁ env) (ext1 : FramesExt rs rs₁)
    (fr1 : Frame s s₁) :
    SimC (ce ++ [.dup, .popStackPutEnv x]) s rs env
      (match Ref.define rs₁ env x v with | some s' => .ok v s' | none => .err rs₁) := by
  obtain ⟨r2, a3⟩ := glue_dup h l1
  have hlen : (ce ++ [Instr.dup, Instr.popStackPutEnv x]).length = ce.length + 1 + 1 := by simp
  have hp := psp_stepC a3 (D := some v :: s.data) rfl (rel1.jmp _ _) hx
  cases hdef : Ref.define rs₁ env x v with
  | none =>
    rw [hdef] at hp
    simp only
    exact (FailsE.of_reach (r1.trans r2.toE) hp.toE).mono (by rw [hlen]; exact Nat.le_refl _)
  | some rs₂ =>
    rw [hdef] at hp
    obtain ⟨r3, rel3, ext3⟩ := hp
    simp only
    refine ⟨_, ((r1.trans r2.toE).trans r3.toE).mono (by rw [hlen]; exact Nat.le_refl _), ⟨l1.fn, ?_, rfl⟩, rel3,
      ext1.trans ext3, fr1.trans ((Frame.jmp _ _ _).trans ((Frame.jmp _ _ _).trans (Frame.bind _ _ _ _)))⟩
    show s₁.pc + 1 + 1 = _
    rw [l1.pc, hlen]; push_cast; omega

/-- `set x e`, after `e` has produced `v` -/
theorem simC_set_tail {s s₁ : St} {rs rs₁ : Ref.St} {env : Nat} {pre post ce : List Instr} {x : String} {v : Val}
    (h : Seg s pre (ce ++ [.dup, .update x]) post) (hxb : okBinder x = true)
    (r1 : ReachE ce.length s s₁) (l1 : Lands ce.length v s s₁) (rel1 : RelC s₁ rs₁ env) (ext1 : FramesExt rs rs₁)
    (fr1 : Frame s s₁) :
    SimC (ce ++ [.dup, .update x]) s rs env
      (match Ref.lookup rs₁ env x with
       | some (fr, _) => .ok v (Ref.setVar rs₁ fr x v)
       | none => .ok v (Ref.setVar rs₁ env x v)) := by
  obtain ⟨r2, a3⟩ := glue_dup h l1
  obtain ⟨rest, hlin⟩ := rel1.chain.head
  have hlt := rel1.chain.lt
  obtain ⟨fr, hfr⟩ : ∃ fr, rs₁.frames[env]? = some fr := ⟨rs₁.frames[env], by simp [hlt]⟩
  have hv := rel1.vars env x
  rw [List.getD_eq_getElem?_getD, hfr, Option.getD_some] at hv
  have hlen : (ce ++ [Instr.dup, Instr.update x]).length = ce.length + 1 + 1 := by simp
  have hll : lexLookup (s₁.jmp (s₁.pc + 1 + 1) (some v :: s.data)) x = Ref.lookup rs₁ env x := by
    rw [lexLookup_jmp]; exact rel1.lexLookup x
  have hx : ∀ f, (exec (f + 1) (.update x)).run (s₁.jmp (s₁.pc + 1) (some v :: some v :: s.data))
      = match Ref.lookup rs₁ env x with
        | some (id, _) => (.ok (), (s₁.jmp (s₁.pc + 1 + 1) (some v :: s.data)).bind id x v)
        | none => (bindTop x v).run (s₁.jmp (s₁.pc + 1 + 1) (some v :: s.data)) := fun f => by
    rw [exec_update f x _ v (some v :: s.data) rfl]
    show (match lexLookup (s₁.jmp (s₁.pc + 1 + 1) (some v :: s.data)) x with
      | some (id, _) => _ | none => _) = _
    rw [hll]
    rfl
  have hok : ∀ id, id < rs₁.frames.length →
      (∀ f, (exec (f + 1) (.update x)).run (s₁.jmp (s₁.pc + 1) (some v :: some v :: s.data))
        = (.ok (), (s₁.jmp (s₁.pc + 1 + 1) (some v :: s.data)).bind id x v)) →
      SimC (ce ++ [.dup, .update x]) s rs env (.ok v (Ref.setVar rs₁ id x v)) := by
    intro id hid hx'
    refine ⟨(s₁.jmp (s₁.pc + 1 + 1) (some v :: s.data)).bind id x v, ?_, ⟨l1.fn, ?_, rfl⟩,
      (rel1.jmp _ _).bind id hid hxb v, ext1.trans (FramesExt.setVar _ _ _ _),
      fr1.trans ((Frame.jmp _ _ _).trans (Frame.bind _ _ _ _))⟩
    · exact ((r1.trans r2.toE).trans (Reach.step a3 hx').toE).mono (by rw [hlen]; exact Nat.le_refl _)
    · show s₁.pc + 1 + 1 = _
      rw [l1.pc, hlen]; push_cast; omega
  cases hl : Ref.lookup rs₁ env x with
  | some r =>
    obtain ⟨id, w⟩ := r
    simp only
    refine hok id (ref_lookupIn_lt _ x _ _ id w hl) (fun f => ?_)
    rw [hx f, hl]
  | none =>
    simp only
    refine hok env hlt (fun f => ?_)
    rw [hx f, hl]
    simp only
    have hb := run_bindTop x v (s₁.jmp (s₁.pc + 1 + 1) (some v :: s.data))
    rw [show (s₁.jmp (s₁.pc + 1 + 1) (some v :: s.data)).linear = some env :: rest from hlin] at hb
    simp only at hb
    rw [show scopeOf (s₁.jmp (s₁.pc + 1 + 1) (some v :: s.data)) env = scopeOf s₁ env from rfl, hv,
      ref_lookup_none_top rs₁ env x fr hfr hl] at hb
    exact hb

/-! ## Sequencing -/

theorem SimC.seq {code c₂ : List Instr} {s s₁' : St} {rs rs₁ : Ref.St} {env K₁ k : Nat} {res : Ref.R Val}
    (hreach : ReachE K₁ s s₁') (hmoved : Moved k s s₁') (hext : FramesExt rs rs₁) (hframe : Frame s s₁')
    (h₂ : SimC c₂ s₁' rs₁ env res)
    (hK : K₁ + c₂.length ≤ code.length) (hk : k + c₂.length = code.length) : SimC code s rs env res := by
  cases res with
  | ok v rs' =>
    obtain ⟨s₂, r, l, rel, ext, fr⟩ := h₂
    exact ⟨s₂, (hreach.trans r).mono hK, hk ▸ hmoved.lands l, rel, hext.trans ext, hframe.trans fr⟩
  | err rs' => exact (FailsE.of_reach hreach h₂).mono hK
  | timeout => trivial
  | brk l rs' => exact h₂
  | cont l rs' => exact h₂

theorem SimC.prefix {code c₁ : List Instr} {s : St} {rs : Ref.St} {env : Nat} {res : Ref.R Val}
    (h₁ : SimC c₁ s rs env res) (hnot : ∀ v rs', res ≠ .ok v rs') (hK : c₁.length ≤ code.length) :
    SimC code s rs env res := by
  cases res with
  | ok v rs' => exact absurd rfl (hnot v rs')
  | err rs' => exact FailsE.mono h₁ hK
  | timeout => trivial
  | brk l rs' => exact h₁
  | cont l rs' => exact h₁

theorem SimC.cond_exit {p b rest pre post : List Instr} {s s₁' : St} {rs rs₁ : Ref.St} {env K₁ : Nat} {res : Ref.R Val}
    (h : Seg s pre (p ++ [.branch false (b.length + 2)] ++ b ++ [.jump (rest.length + 1)] ++ rest) post)
    (hreach : ReachE K₁ s s₁') (hmoved : Moved (p.length + 1) s s₁') (hext : FramesExt rs rs₁) (hframe : Frame s s₁')
    (h₂ : SimC b s₁' rs₁ env res) (hK : K₁ ≤ p.length + 1) :
    SimC (p ++ [.branch false (b.length + 2)] ++ b ++ [.jump (rest.length + 1)] ++ rest) s rs env res := by
  have hlen : (p ++ [Instr.branch false (b.length + 2)] ++ b ++ [Instr.jump (rest.length + 1)] ++ rest).length
      = p.length + 1 + b.length + 1 + rest.length := by simp; omega
  cases res with
  | ok v rs' =>
    obtain ⟨s₂, r, l, rel, ext, fr⟩ := h₂
    have l2 : Lands (p.length + 1 + b.length) v s s₂ := hmoved.lands l
    obtain ⟨r3, l3⟩ := glue_cond_exit h l2
    exact ⟨_, ((hreach.trans r).trans r3.toE).mono (by rw [hlen]; omega), l3, rel.jmp _ _, hext.trans ext,
      (hframe.trans fr).trans (Frame.jmp _ _ _)⟩
  | err rs' => exact (FailsE.of_reach hreach h₂).mono (by rw [hlen]; omega)
  | timeout => trivial
  | brk l rs' => exact h₂
  | cont l rs' => exact h₂

theorem Frame.pushScope_inner {s s₃ : St} (h : Frame s.pushScope s₃) :
    s₃.popScope.linear = s.linear ∧ s₃.popScope.curfunc = s.curfunc ∧ s₃.popScope.addr = s.addr
      ∧ s₃.popScope.suspended = s.suspended :=
  ⟨by show s₃.linear.tail = _; rw [h.linear]; rfl, h.curfunc, h.addr, h.susp⟩

/-- `let`/`letseq`/`newScope`: `addScope`, the inner code in the fresh scope, `removeScope` -/
theorem SimC.scoped {inner pre post : List Instr} {s : St} {rs : Ref.St} {env : Nat} {res : Ref.R Val}
    (h : Seg s pre ([.addScope] ++ inner ++ [.removeScope]) post) (hrel : RelC s rs env)
    (hin : SimC inner s.pushScope (Ref.newFrame rs env).2 rs.frames.length res) :
    SimC ([.addScope] ++ inner ++ [.removeScope]) s rs env res := by
  obtain ⟨r1, m1⟩ := glue_addScope h
  have hlen : ([Instr.addScope] ++ inner ++ [Instr.removeScope]).length = 1 + inner.length + 1 := by simp; omega
  cases res with
  | ok v rs3 =>
    obtain ⟨s3, r, l, rel3, ext3, fr3⟩ := hin
    have l' : Lands (1 + inner.length) v s s3 := m1.lands l
    obtain ⟨rest, hlin⟩ := rel3.chain.head
    obtain ⟨f, hf, hp⟩ := ext3 rs.frames.length { parent := some env }
      (by show (rs.frames ++ [_])[rs.frames.length]? = _; simp)
    obtain ⟨r4, l4⟩ := glue_removeScope h l' hlin
    obtain ⟨hl, hc, ha, hs⟩ := fr3.pushScope_inner
    have hframe : Frame s s3.popScope :=
      ⟨hl, hc, ha, hs, fr3.fnsLen, fr3.fns⟩
    refine ⟨_, ((r1.toE.trans r).trans r4.toE).mono (by rw [hlen]; omega), l4,
      ⟨rel3.toRelCore.popScope f hf hp, ?_, rel3.globals⟩, (FramesExt.newFrame rs env).trans ext3, hframe⟩
    rw [hc]
    exact hrel.fnchain.transfer ⟨[], by rw [hl]; rfl⟩ hframe.fnsLen hframe.fns
  | err rs3 => exact (FailsE.of_reach r1.toE hin).mono (by rw [hlen]; omega)
  | timeout => trivial
  | brk l rs3 => exact hin
  | cont l rs3 => exact hin

/-! ## Operands: `EvalCallExpression` and its nested `Run` -/

/-- `Run` inside a helper function whose code is `code ++ [ret]`: the code lands with `v`, `ret`
returns to `pc = -1` of the caller, the loop stops there, `Run` pops `v`. -/
theorem run_helper_ok {s₃ s₄ : St} {code : List Instr} {v : Val} {cf : Nat} {A : List (Option (Nat × Int))}
    (hseg : Seg s₃ [] code [.ret]) (hr : ReachE code.length s₃ s₄) (hl : Lands code.length v s₃ s₄)
    (ha : s₄.addr = some (cf, -1) :: A) :
    ∃ M, ∀ fuel, M ≤ fuel →
      (run fuel).run s₃ = (.ok v, { s₄ with addr := A, curfunc := cf, pc := -1, data := s₃.data }) := by
  obtain ⟨m, k, hk, H⟩ := hr
  refine ⟨m + k + 4, fun fuel hf => ?_⟩
  obtain ⟨F, rfl⟩ : ∃ F, fuel = ((F + 2) + k) + 1 := ⟨fuel - k - 3, by omega⟩
  have a4 : At s₄ code .ret [] := hseg.landed hl (c₁ := code) (by simp) rfl
  have hstep : (runLoop (F + 2) (capOf s₃)).run s₄
      = (runLoop (F + 1) (capOf s₃)).run { s₄ with addr := A, curfunc := cf, pc := -1 } :=
    runLoop_step a4 (F + 1) _ (by rw [exec_ret, ha])
  have hhalt : (runLoop (F + 1) (capOf s₃)).run { s₄ with addr := A, curfunc := cf, pc := -1 }
      = (.ok (), { s₄ with addr := A, curfunc := cf, pc := -1 }) :=
    runLoop_halt _ F _ (Or.inl rfl)
  have hloop : (runLoop ((F + 2) + k) (capOf s₃)).run s₃ = (.ok (), { s₄ with addr := A, curfunc := cf, pc := -1 }) := by
    rw [H (F + 2) (by omega) _, hstep, hhalt]
  rw [run]
  simp only [run_bind, run_capture, hloop, run_get, hl.data, List.isEmpty_cons, Bool.false_eq_true, if_false,
    run_pure, run_popData]

/-- `Run` over code that ends in a script error -/
theorem run_of_failsE {s : St} {K : Nat} {tr : List String} (h : FailsE K s tr) :
    ∃ M, ∀ fuel, M ≤ fuel → ∃ sf, (run fuel).run s = (.error .err, sf) ∧ sf.trace = tr := by
  obtain ⟨k, hk, m, H⟩ := h
  refine ⟨m + k + 1, fun fuel hf => ?_⟩
  obtain ⟨f, rfl⟩ : ∃ f, fuel = (f + k) + 1 := ⟨fuel - k - 1, by omega⟩
  obtain ⟨sf, hrun, htr⟩ := H f (by omega) (capOf s)
  refine ⟨sf, ?_, htr⟩
  rw [run]
  simp only [run_bind, run_capture, hrun]

/-- the helper function `EvalCallExpression` makes for an operand -/
def helperFn (s : St) (code : List Instr) : FnObj :=
  { name := "callExprEval", code := code ++ [.ret], closing := closingNow s, parent := some s.curfunc }

/-- the state in which the helper starts: function registered, `pc := -2`, then `CallFunction` -/
def inHelper (s : St) (code : List Instr) : St :=
  { s with fns := s.fns ++ [helperFn s code], addr := some (s.curfunc, -1) :: s.addr,
           curfunc := s.fns.length, pc := 0 }

theorem fnOf_inHelper_self (s : St) (code : List Instr) :
    fnOf (inHelper s code) (inHelper s code).curfunc = helperFn s code := by
  show (s.fns ++ [helperFn s code]).getD s.fns.length {} = _
  simp

theorem fnOf_inHelper_old (s : St) (code : List Instr) (id : Nat) (hid : id < s.fns.length) :
    fnOf (inHelper s code) id = fnOf s id := by
  show (s.fns ++ [helperFn s code]).getD id {} = s.fns.getD id {}
  simp only [List.getD_eq_getElem?_getD, List.getElem?_append_left hid]

theorem seg_inHelper (s : St) (code : List Instr) : Seg (inHelper s code) [] code [.ret] :=
  ⟨by rw [fnOf_inHelper_self]; rfl, by rw [fnOf_inHelper_self]; rfl, rfl⟩

/-- the helper sees the same scopes; its closing list is the whole linear stack -/
theorem relC_inHelper {s : St} {rs : Ref.St} {env : Nat} (h : RelC s rs env) (code : List Instr) :
    RelC (inHelper s code) rs env := by
  refine ⟨⟨h.len, h.vars, h.nofn, h.chain, h.heap, h.trace⟩, ?_, h.globals⟩
  have hold : FnChainOk (inHelper s code) s.curfunc :=
    h.fnchain.transfer (s' := inHelper s code) ⟨[], rfl⟩ (by show s.fns.length ≤ (s.fns ++ [_]).length; simp)
      (fun id hid => fnOf_inHelper_old s code id hid)
  refine FnChainOk.step _ s.curfunc (by show s.fns.length < (s.fns ++ [_]).length; simp) ?_ ?_ hold
  · rw [fnOf_inHelper_self]; rfl
  · rw [fnOf_inHelper_self]
    exact ⟨[], by show s.linear = [] ++ closingNow s; rw [closingNow_nofn s h.nofn]; rfl⟩

/-- `EvalCallExpression` on an operand that is not a symbol: compile, register the helper, run it
in a nested `Run`, restore the control state. -/
theorem evalCallExpr_nonsym (fuel : Nat) (e : Expr) (hns : ∀ x, e ≠ .sym x) (s : St) (code : List Instr) (t : Bool)
    (hgen : (runGen (compile (isFnScope s) {} e)).run s = (.ok (code, t), s)) (hne : code ≠ []) :
    (evalCallExpr (fuel + 2) e).run s =
      match (run fuel).run (inHelper s code) with
      | (.ok v, s') => (.ok v, ((restore (capOf s)).run s').2)
      | (.error .err, s') => (.error .err, ((restore (capOf s)).run s').2)
      | (.error flt, s') => (.error flt, s') := by
  rw [evalCallExpr]
  · have hemp : code.isEmpty = false := by simpa [List.isEmpty_eq_false_iff] using hne
    have hfo : ({ name := "callExprEval", code := code ++ [Instr.ret], closing := closingNow s, parent := some (capOf s).curfunc } : FnObj) = helperFn s code := rfl
    simp only [run_bind, run_get, hgen, hemp, Bool.false_eq_true, if_false, run_capture, run_mkFunction, run_modify,
      hfo]
    rw [nested]
    simp only [run_bind, run_get]
    have hcf : (callFunction s.fns.length 0).run
        { s with fns := s.fns ++ [helperFn s code], pc := -2 } = (.ok (), inHelper s code) := by
      rw [run_callFunction0]
      · rfl
      · show ((s.fns ++ [helperFn s code]).getD s.fns.length {}).varargs = false
        simp [helperFn]
      · show ((s.fns ++ [helperFn s code]).getD s.fns.length {}).nargs = 0
        simp [helperFn]
    simp only [run_bind, hcf]
    rcases hrun : (run fuel).run (inHelper s code) with ⟨r, s'⟩
    cases r with
    | ok v =>
      simp only [run_set, run_bind, run_pure]
      have : (restore (capOf s)).run s' = (.ok (), ((restore (capOf s)).run s').2) := by
        unfold restore; rw [run_modify]
      rw [this]
    | error flt =>
      cases flt with
      | err =>
        simp only [run_set, run_bind, run_throw]
        have : (restore (capOf s)).run s' = (.ok (), ((restore (capOf s)).run s').2) := by
          unfold restore; rw [run_modify]
        rw [this]
      | panic => simp only [run_set, run_bind, run_throw]
      | timeout => simp only [run_set, run_bind, run_throw]
  · intro x hx; exact hns x hx

/-- `EvalCallExpression` against `Ref.eval`: the value, control state as before, related states -/
def EvalOk (e : Expr) (s : St) (rs : Ref.St) (env : Nat) (res : Ref.R Val) : Prop :=
  match res with
  | .ok v rs' => ∃ M s', (∀ fuel, M ≤ fuel → (evalCallExpr fuel e).run s = (.ok v, s'))
      ∧ s'.data = s.data ∧ s'.pc = s.pc ∧ RelC s' rs' env ∧ FramesExt rs rs' ∧ Frame s s'
  | .err rs' => ∃ M, ∀ fuel, M ≤ fuel → ∃ se, (evalCallExpr fuel e).run s = (.error .err, se) ∧ se.trace = rs'.trace
  | .timeout => True
  | .brk _ _ => False
  | .cont _ _ => False

theorem evalCallExpr_sym_sim (x : String) (n : Nat) {s : St} {rs : Ref.St} {env : Nat} (hrel : RelC s rs env) :
    EvalOk (.sym x) s rs env (Ref.eval n (.sym x) env rs) := by
  cases n with
  | zero => rw [Ref.eval]; trivial
  | succ n =>
    rw [Ref.eval]
    have hl := hrel.lexLookup x
    have hrun : ∀ fuel, (evalCallExpr (fuel + 1) (.sym x)).run s = match lexLookup s x with
        | some (_, v) => (.ok v, s) | none => (.error .err, s) := by
      intro fuel
      rw [evalCallExpr]
      simp only [run_bind, run_get]
      cases lexLookup s x with
      | none => simp only [run_err]
      | some r => obtain ⟨i, v⟩ := r; simp only [run_pure]
    cases hr : Ref.lookup rs env x with
    | none =>
      rw [hr] at hl
      refine ⟨1, fun fuel hf => ?_⟩
      obtain ⟨f, rfl⟩ : ∃ f, fuel = f + 1 := ⟨fuel - 1, by omega⟩
      exact ⟨s, by rw [hrun, hl], hrel.trace⟩
    | some r =>
      obtain ⟨i, v⟩ := r
      rw [hr] at hl
      refine ⟨1, s, fun fuel hf => ?_, rfl, rfl, hrel, FramesExt.refl rs, Frame.refl s⟩
      obtain ⟨f, rfl⟩ : ∃ f, fuel = f + 1 := ⟨fuel - 1, by omega⟩
      rw [hrun, hl]

/-- an operand that is not a symbol, given the segment lemma for it at the same reference fuel -/
theorem evalCallExpr_nonsym_sim {n : Nat} (hE : CClaimE n) (e : Expr) (he : Fc e = true) (hns : ∀ x, e ≠ .sym x)
    {s : St} {rs : Ref.St} {env : Nat} (hrel : RelC s rs env) :
    EvalOk e s rs env (Ref.eval n e env rs) := by
  obtain ⟨code, t, hc, hne⟩ := compile_total_Fc e he (isFnScope s) {}
    { fns := s.fns, loops := s.loops, loopstack := s.loopstack, live := s.linear } rfl
  have hgen : (runGen (compile (isFnScope s) {} e)).run s = (.ok (code, t), s) := run_runGen_ok _ s _ hc
  have hseg := seg_inHelper s code
  have hsim := hE e he (isFnScope s) {} _ ((code, t), _) rfl hc (inHelper s code) rs env [] [.ret]
    (relC_inHelper hrel code) hseg
  have hunf := fun fuel => evalCallExpr_nonsym fuel e hns s code t hgen hne
  cases hres : Ref.eval n e env rs with
  | ok v rs' =>
    rw [hres] at hsim
    obtain ⟨s4, r, l, rel4, ext4, fr4⟩ := hsim
    have ha4 : s4.addr = some (s.curfunc, -1) :: s.addr := fr4.addr
    obtain ⟨M, hM⟩ := run_helper_ok hseg r l ha4
    -- the state after `Run`, and after restoring the control state
    have hbal := run_restore_balanced (capOf s)
      { s4 with addr := s.addr, curfunc := s.curfunc, pc := -1, data := (inHelper s code).data }
      (by show s4.suspended.length = s.suspended.length; rw [fr4.susp]; rfl) rfl
      (by show s4.linear.length = s.linear.length; rw [fr4.linear]; rfl) rfl
    refine ⟨M + 2, { s4 with addr := s.addr, curfunc := s.curfunc, pc := s.pc, data := s.data }, fun fuel hf => ?_,
      rfl, rfl, ?_, ext4, ?_⟩
    · obtain ⟨f, rfl⟩ : ∃ f, fuel = f + 2 := ⟨fuel - 2, by omega⟩
      rw [hunf f, hM f (by omega)]
      simp only [hbal]
      rfl
    · refine ⟨⟨rel4.len, rel4.vars, rel4.nofn, ?_, rel4.heap, rel4.trace⟩, ?_, rel4.globals⟩
      · have := rel4.chain; rw [fr4.linear] at this ⊢; exact this
      · exact hrel.fnchain.transfer (s' := { s4 with addr := s.addr, curfunc := s.curfunc, pc := s.pc, data := s.data })
          ⟨[], by show s4.linear = _; rw [fr4.linear]; rfl⟩
          (Nat.le_trans (by show s.fns.length ≤ (s.fns ++ [_]).length; simp) fr4.fnsLen)
          (fun id hid => (fr4.fns id (by show id < (s.fns ++ [_]).length; simp; omega)).trans
            (fnOf_inHelper_old s code id hid))
    · exact ⟨fr4.linear, rfl, rfl, fr4.susp,
        Nat.le_trans (by show s.fns.length ≤ (s.fns ++ [_]).length; simp) fr4.fnsLen,
        fun id hid => (fr4.fns id (by show id < (s.fns ++ [_]).length; simp; omega)).trans
          (fnOf_inHelper_old s code id hid)⟩
  | err rs' =>
    rw [hres] at hsim
    obtain ⟨M, hM⟩ := run_of_failsE hsim
    refine ⟨M + 2, fun fuel hf => ?_⟩
    obtain ⟨f, rfl⟩ : ∃ f, fuel = f + 2 := ⟨fuel - 2, by omega⟩
    obtain ⟨sf, hrun, htr⟩ := hM f (by omega)
    refine ⟨_, by rw [hunf f, hrun], ?_⟩
    rw [restore_trace]; exact htr
  | timeout => trivial
  | brk l rs' => rw [hres] at hsim; exact hsim
  | cont l rs' => rw [hres] at hsim; exact hsim

theorem evalCallExpr_sim {n : Nat} (hE : CClaimE n) (e : Expr) (he : Fc e = true)
    {s : St} {rs : Ref.St} {env : Nat} (hrel : RelC s rs env) :
    EvalOk e s rs env (Ref.eval n e env rs) := by
  cases e with
  | sym x => exact evalCallExpr_sym_sim x n hrel
  | _ => exact evalCallExpr_nonsym_sim hE _ he (fun x hx => by cases hx) hrel

/-! ## The operands of a call -/

theorem ref_evalArgs_length : ∀ (n : Nat) (es : List Expr) (i : Nat) (env : Nat) (rs : Ref.St) (vs : List Val)
    (rs' : Ref.St), Ref.evalArgs n es i (fun _ => false) env rs = .ok vs rs' → vs.length = es.length
  | 0, es, i, env, rs, vs, rs', h => by rw [Ref.evalArgs] at h; cases h
  | n + 1, [], i, env, rs, vs, rs', h => by
    rw [Ref.evalArgs] at h
    · injection h with h1 _; subst h1; rfl
    · omega
  | n + 1, e :: es, i, env, rs, vs, rs', h => by
    rw [Ref.evalArgs] at h
    simp only [Bool.false_eq_true, if_false] at h
    cases h1 : Ref.eval n e env rs with
    | ok v rs1 =>
      rw [h1] at h
      simp only at h
      cases h2 : Ref.evalArgs n es (i + 1) (fun _ => false) env rs1 with
      | ok vs2 rs2 =>
        rw [h2] at h
        simp only at h
        injection h with h3 _
        subst h3
        simp [ref_evalArgs_length n es (i + 1) env rs1 vs2 rs2 h2]
      | err _ => rw [h2] at h; cases h
      | timeout => rw [h2] at h; cases h
      | brk _ _ => rw [h2] at h; cases h
      | cont _ _ => rw [h2] at h; cases h
    | err _ => rw [h1] at h; cases h
    | timeout => rw [h1] at h; cases h
    | brk _ _ => rw [h1] at h; cases h
    | cont _ _ => rw [h1] at h; cases h

theorem cclaimA_succ {n : Nat} (hE : CClaimE n) (hA : CClaimA n) : CClaimA (n + 1) := by
  intro args hargs i s rs env hrel
  match args with
  | [] =>
    rw [Ref.evalArgs]
    · refine ⟨1, s, fun fuel hf => ?_, by simp, rfl, hrel, FramesExt.refl rs, Frame.refl s⟩
      obtain ⟨f, rfl⟩ : ∃ f, fuel = f + 1 := ⟨fuel - 1, by omega⟩
      rw [prepareArgs]
      · rfl
      · omega
    · omega
  | e :: es =>
    rw [FcList] at hargs
    simp only [Bool.and_eq_true] at hargs
    rw [Ref.evalArgs]
    simp only [Bool.false_eq_true, if_false]
    have hunf : ∀ fuel, (prepareArgs (fuel + 1) none i (e :: es)).run s
        = match (evalCallExpr fuel e).run s with
          | (.ok v, s1) => (prepareArgs fuel none (i + 1) es).run (s1.jmp s1.pc (some v :: s1.data))
          | (.error flt, s1) => (.error flt, s1) := by
      intro fuel
      rw [prepareArgs]
      simp only [Bool.false_eq_true, if_false, run_bind]
      rcases (evalCallExpr fuel e).run s with ⟨r, s1⟩
      cases r with
      | ok v => simp only [run_pushData]; rfl
      | error flt => rfl
    have he := evalCallExpr_sim hE e hargs.1 hrel
    cases h1 : Ref.eval n e env rs with
    | ok v rs1 =>
      rw [h1] at he
      obtain ⟨M1, s1, hM1, hd1, hp1, rel1, ext1, fr1⟩ := he
      simp only
      have ih := hA es hargs.2 (i + 1) (s1.jmp s1.pc (some v :: s1.data)) rs1 env (rel1.jmp _ _)
      cases h2 : Ref.evalArgs n es (i + 1) (fun _ => false) env rs1 with
      | ok vs rs2 =>
        rw [h2] at ih
        obtain ⟨M2, s2, hM2, hd2, hp2, rel2, ext2, fr2⟩ := ih
        refine ⟨max M1 M2 + 1, s2, fun fuel hf => ?_, ?_, by rw [hp2]; exact hp1, rel2, ext1.trans ext2,
          fr1.trans ((Frame.jmp _ _ _).trans fr2)⟩
        · obtain ⟨f, rfl⟩ : ∃ f, fuel = f + 1 := ⟨fuel - 1, by omega⟩
          rw [hunf f, hM1 f (by omega)]
          exact hM2 f (by omega)
        · rw [hd2]; show _ ++ (some v :: s1.data) = _; rw [hd1]; simp
      | err rs2 =>
        rw [h2] at ih
        obtain ⟨M2, hM2⟩ := ih
        refine ⟨max M1 M2 + 1, fun fuel hf => ?_⟩
        obtain ⟨f, rfl⟩ : ∃ f, fuel = f + 1 := ⟨fuel - 1, by omega⟩
        obtain ⟨se, hse, htr⟩ := hM2 f (by omega)
        exact ⟨se, by rw [hunf f, hM1 f (by omega)]; exact hse, htr⟩
      | timeout => trivial
      | brk l rs2 => rw [h2] at ih; exact ih
      | cont l rs2 => rw [h2] at ih; exact ih
    | err rs1 =>
      rw [h1] at he
      obtain ⟨M1, hM1⟩ := he
      refine ⟨M1 + 1, fun fuel hf => ?_⟩
      obtain ⟨f, rfl⟩ : ∃ f, fuel = f + 1 := ⟨fuel - 1, by omega⟩
      obtain ⟨se, hse, htr⟩ := hM1 f (by omega)
      exact ⟨se, by rw [hunf f, hse], htr⟩
    | timeout => trivial
    | brk l rs1 => rw [h1] at he; exact he
    | cont l rs1 => rw [h1] at he; exact he

/-! ## The call instruction -/

/-- `CallExprInstr` whose callee symbol denotes a builtin: `CallResolved`'s guarded
`PrepareCallExprArgs; CallUserFunction` -/
theorem exec_callExpr_builtin (F : Nat) (h : String) (args : List Expr) (s : St) (i : Nat)
    (hl : lexLookup s h = some (i, .builtin h)) :
    (exec (F + 3) (.callExpr (.sym h) args)).run s =
      match ((prepareArgs (F + 1) none 0 args >>= fun _ => callUser (F + 1) h args.length : M Unit).run s) with
      | (.ok _, s') => (.ok (), s')
      | (.error .err, s') => (.error .err, { s' with data := truncate s'.data s.data.length })
      | (.error flt, s') => (.error flt, s') := by
  rw [exec]
  have he : (evalCallExpr (F + 2) (.sym h)).run s = (.ok (.builtin h), s) := by
    rw [evalCallExpr]
    simp only [run_bind, run_get, hl, run_pure]
  simp only [run_bind, he]
  rw [callResolved]
  rcases hp : (prepareArgs (F + 1) none 0 args).run s with ⟨rp, s1⟩
  cases rp with
  | error flt =>
    cases flt <;> simp only [run_bind, hp, run_get, run_set, run_throw, run_modify, run_pure]
  | ok u =>
    rcases hcu : (callUser (F + 1) h args.length).run s1 with ⟨rc, s2⟩
    cases rc with
    | ok u2 => simp only [run_bind, hp, hcu, run_get, run_set, run_throw, run_modify, run_pure]
    | error flt =>
      cases flt <;> simp only [run_bind, hp, hcu, run_get, run_set, run_throw, run_modify, run_pure]

/-- the relation only reads scopes, linear stack, function table, `curfunc`, frames, heaps and traces -/
theorem RelC.of_same {s s' : St} {rs rs' : Ref.St} {env : Nat} (h : RelC s rs env)
    (hsc : s'.scopes = s.scopes) (hlin : s'.linear = s.linear) (hfns : s'.fns = s.fns) (hcur : s'.curfunc = s.curfunc)
    (hfr : rs'.frames = rs.frames) (hheap : s'.heap = rs'.heap) (htr : s'.trace = rs'.trace) : RelC s' rs' env := by
  have hso : ∀ i, scopeOf s' i = scopeOf s i := fun i => by unfold scopeOf; rw [hsc]
  have hfo : ∀ i, fnOf s' i = fnOf s i := fun i => by unfold fnOf; rw [hfns]
  refine ⟨⟨by rw [hsc, hfr]; exact h.len, fun i x => by rw [hso, hfr]; exact h.vars i x,
    fun i => by rw [hso]; exact h.nofn i, by rw [hfr, hlin]; exact h.chain, hheap, htr⟩, ?_, ?_⟩
  · rw [hcur]
    exact h.fnchain.transfer ⟨[], by rw [hlin]; rfl⟩ (by rw [hfns]; exact Nat.le_refl _) (fun id _ => hfo id)
  · intro name hn
    have := h.globals name hn
    rw [hfr]; exact this

/-- **A call of a first-order builtin**: callee by lookup, operands by nested runs, the builtin
under `CallUserFunction` — against `eval f`, `evalArgs`, `applyFn` of the reference evaluator. -/
theorem simC_call {m : Nat} (hA : CClaimA (m + 1)) (h : String) (hh : h ∈ foBuiltins) (args : List Expr)
    (hargs : FcList args = true) {s : St} {rs : Ref.St} {env : Nat} {pre post : List Instr}
    (hrel : RelC s rs env) (hseg : Seg s pre [.callExpr (.sym h) args] post) :
    SimC [.callExpr (.sym h) args] s rs env (Ref.eval (m + 2) (.call (.sym h) args) env rs) := by
  have hlook := hrel.lookup_fo hh
  have hlex : lexLookup s h = some (0, .builtin h) := by rw [hrel.lexLookup]; exact hlook
  rw [Ref.eval, Ref.eval]
  simp only [hlook, isFunction, Bool.false_eq_true, if_false, Bool.not_true]
  have hprep := hA args hargs 0 s rs env hrel
  have hexec := fun F => exec_callExpr_builtin F h args s 0 hlex
  cases h1 : Ref.evalArgs (m + 1) args 0 (fun _ => false) env rs with
  | ok vs rs1 =>
    rw [h1] at hprep
    obtain ⟨M, s1, hM, hd1, hp1, rel1, ext1, fr1⟩ := hprep
    simp only
    have hlen : args.length = vs.length := (ref_evalArgs_length _ _ _ _ _ _ _ h1).symm
    have hcu := fun f => run_callUser_fo f h hh vs s.data s1 hd1
    rw [ref_applyFn_fo m h hh vs rs1]
    have hcurlt := hrel.fnchain.lt
    have hheapb : (inBuiltin s1 s.data).heap = rs1.heap := rel1.heap
    have htrb : (inBuiltin s1 s.data).trace = rs1.trace := rel1.trace
    -- the successful case, uniformly in the new heap and trace
    have hok : ∀ (v : Val) (s3 : St) (rsF : Ref.St), foResult h vs (inBuiltin s1 s.data) = (.ok v, s3) →
        s3.scopes = s1.scopes → s3.linear = s1.linear → s3.fns = s1.fns → s3.suspended = s1.suspended →
        rsF.frames = rs1.frames → s3.heap = rsF.heap → s3.trace = rsF.trace →
        SimC [.callExpr (.sym h) args] s rs env (.ok v rsF) := by
      intro v s3 rsF hres hsc hlin hfns hsus hfr hheap htr
      let sF : St := { s3 with data := some v :: s.data, addr := s1.addr, curfunc := s1.curfunc, pc := s1.pc + 1 }
      have hx : ∀ f, M + 3 ≤ f → (exec (f + 1) (.callExpr (.sym h) args)).run s = (.ok (), sF) := by
        intro f hf
        obtain ⟨G, rfl⟩ : ∃ G, f = G + 3 := ⟨f - 3, by omega⟩
        rw [hexec (G + 1), run_bind, hM (G + 1 + 1) (by omega)]
        simp only
        rw [hlen, hcu G, hres]
      have hrelF : RelC sF rsF env := rel1.of_same hsc hlin hfns rfl hfr hheap htr
      have hfnF : fnOf sF sF.curfunc = fnOf s s.curfunc := by
        show s3.fns.getD s1.curfunc {} = _
        rw [hfns, fr1.curfunc]; exact fr1.fns _ hcurlt
      refine ⟨sF, ReachE.step hseg.head (M + 3) hx, ⟨hfnF, by show s1.pc + 1 = _; rw [hp1]; simp, rfl⟩, hrelF,
        ext1.trans (fun i fr hf => ⟨fr, by rw [hfr]; exact hf, rfl⟩),
        ⟨hlin.trans fr1.linear, fr1.curfunc, fr1.addr, hsus.trans fr1.susp,
          by show s.fns.length ≤ s3.fns.length; rw [hfns]; exact fr1.fnsLen,
          fun id hid => by show s3.fns.getD id {} = _; rw [hfns]; exact fr1.fns id hid⟩⟩
    by_cases ht : h = "trace"
    · simp only [ht, if_true]
      rw [ht] at hok
      have hfo : foResult "trace" vs (inBuiltin s1 s.data) = (.ok (vs.headD .nil),
          { inBuiltin s1 s.data with trace := (inBuiltin s1 s.data).trace ++ [pr (inBuiltin s1 s.data).heap (vs.headD .nil)] }) := by
        unfold foResult; rw [if_pos rfl]
      exact hok _ _ { rs1 with trace := rs1.trace ++ [pr rs1.heap (vs.headD .nil)] } hfo rfl rfl rfl rfl rfl
        rel1.heap (by show (inBuiltin s1 s.data).trace ++ [pr (inBuiltin s1 s.data).heap _] = _; rw [hheapb, htrb])
    · simp only [ht, if_false]
      cases hp : prim h vs rs1.heap with
      | some r =>
        obtain ⟨v, hp'⟩ := r
        have hfo : foResult h vs (inBuiltin s1 s.data) = (.ok v, { inBuiltin s1 s.data with heap := hp' }) := by
          unfold foResult; rw [if_neg ht, hheapb, hp]
        simp only
        exact hok v _ { rs1 with heap := hp' } hfo rfl rfl rfl rfl rfl rfl rel1.trace
      | none =>
        have hfo : foResult h vs (inBuiltin s1 s.data) = (.error .err, inBuiltin s1 s.data) := by
          unfold foResult; rw [if_neg ht, hheapb, hp]
        simp only
        refine FailsE.step hseg.head (M + 3) (fun f hf => ?_)
        obtain ⟨G, rfl⟩ : ∃ G, f = G + 3 := ⟨f - 3, by omega⟩
        refine ⟨_, by rw [hexec (G + 1), run_bind, hM (G + 1 + 1) (by omega)]; simp only; rw [hlen, hcu G, hfo], ?_⟩
        show ((restore (capPopped s1 s.data)).run (inBuiltin s1 s.data)).2.trace = _
        rw [restore_trace]; exact rel1.trace
  | err rs1 =>
    rw [h1] at hprep
    obtain ⟨M, hM⟩ := hprep
    simp only
    refine FailsE.step hseg.head (M + 2) (fun f hf => ?_)
    obtain ⟨F, rfl⟩ : ∃ F, f = F + 2 := ⟨f - 2, by omega⟩
    obtain ⟨se, hse, htr⟩ := hM (F + 1) (by omega)
    exact ⟨{ se with data := truncate se.data s.data.length }, by rw [hexec F, run_bind, hse], htr⟩
  | timeout => trivial
  | brk l rs1 => rw [h1] at hprep; exact hprep.elim
  | cont l rs1 => rw [h1] at hprep; exact hprep.elim

end ZygoVerif.Sim
