/-
Lemmas for C14, part 1: the Go-map association list, buckets, `get?` under `set` / `del`.
-/
import ZygoVerif.Model.Hash
namespace ZygoVerif.Hash
variable {K V : Type}

/-- What the proofs need of the language's key equality and of the hash-code function:
`Compare == 0` is an equivalence relation on keys, and equal keys hash alike. Nothing else
is assumed about `code` — collisions between different keys are arbitrary. -/
structure KeyLaws (o : KeyOps K) : Prop where
  refl : ∀ a, o.keq a a = true
  symm : ∀ a b, o.keq a b = true → o.keq b a = true
  trans : ∀ a b c, o.keq a b = true → o.keq b c = true → o.keq a c = true
  code_congr : ∀ a b, o.keq a b = true → o.code a = o.code b

/-! ### the Go map -/

theorem mget_mdel (m : GoMap K V) (c c' : Int) :
    mget (mdel m c) c' = if c' = c then none else mget m c' := by
  induction m with
  | nil => simp [mdel, mget]
  | cons e r ih =>
    obtain ⟨ce, be⟩ := e
    simp only [mdel, mget]
    split <;> split <;> simp_all [mget] <;> grind

theorem mget_mput (m : GoMap K V) (c c' : Int) (b : Bucket K V) :
    mget (mput m c b) c' = if c' = c then some b else mget m c' := by
  by_cases h : c' = c
  · subst h; simp [mput, mget]
  · have : ¬ c = c' := fun h' => h h'.symm
    simp [mput, mget, mget_mdel, h, this]

def mcodes (m : GoMap K V) : List Int := m.map (·.1)

theorem mcodes_mdel_sublist (m : GoMap K V) (c : Int) : (mcodes (mdel m c)).Sublist (mcodes m) := by
  induction m with
  | nil => simp [mdel, mcodes]
  | cons e r ih =>
    obtain ⟨ce, be⟩ := e
    simp only [mdel, mcodes, List.map_cons] at ih ⊢
    split
    · exact List.Sublist.cons _ ih
    · exact List.Sublist.cons_cons _ ih

theorem mcodes_mdel_nodup (m : GoMap K V) (c : Int) (h : (mcodes m).Nodup) :
    (mcodes (mdel m c)).Nodup := h.sublist (mcodes_mdel_sublist m c)

theorem not_mem_mcodes_mdel (m : GoMap K V) (c : Int) : c ∉ mcodes (mdel m c) := by
  induction m with
  | nil => simp [mdel, mcodes]
  | cons e r ih =>
    obtain ⟨ce, be⟩ := e
    simp only [mdel, mcodes] at ih ⊢
    split
    · exact ih
    · simp only [List.map_cons, List.mem_cons, not_or]; exact ⟨fun h => by simp_all, ih⟩

theorem mcodes_mput_nodup (m : GoMap K V) (c : Int) (b : Bucket K V) (h : (mcodes m).Nodup) :
    (mcodes (mput m c b)).Nodup := by
  have h1 := mcodes_mdel_nodup m c h
  have h2 := not_mem_mcodes_mdel m c
  simp only [mcodes, mput, List.map_cons, List.nodup_cons] at *
  exact ⟨h2, h1⟩

def blen (ob : Option (Bucket K V)) : Int :=
  match ob with
  | some b => b.length
  | none => 0

theorem mget_none_of_not_mem (m : GoMap K V) (c : Int) (h : c ∉ mcodes m) : mget m c = none := by
  induction m with
  | nil => rfl
  | cons e r ih =>
    obtain ⟨ce, be⟩ := e
    simp only [mcodes, List.map_cons, List.mem_cons, not_or] at h
    have : ¬ ce = c := fun h' => h.1 h'.symm
    simp only [mget, this, if_false]
    exact ih h.2

theorem msum_mdel (m : GoMap K V) (c : Int) (h : (mcodes m).Nodup) :
    msum (mdel m c) = msum m - blen (mget m c) := by
  induction m with
  | nil => simp [mdel, msum, mget, blen]
  | cons e r ih =>
    obtain ⟨ce, be⟩ := e
    simp only [mcodes, List.map_cons, List.nodup_cons] at h
    have ih' := ih h.2
    by_cases h1 : ce = c
    · subst h1
      have hn : mget r ce = none := mget_none_of_not_mem r ce h.1
      rw [hn] at ih'
      simp only [mdel, mget, msum, blen, if_true] at ih' ⊢
      rw [ih']; omega
    · simp only [mdel, mget, msum, h1, if_false]
      rw [ih']; omega

theorem msum_mput (m : GoMap K V) (c : Int) (b : Bucket K V) (h : (mcodes m).Nodup) :
    msum (mput m c b) = msum m - blen (mget m c) + b.length := by
  simp only [mput, msum, msum_mdel m c h]; omega

theorem mget_some_length_pos (m : GoMap K V) (c : Int) (b : Bucket K V) (h : mget m c = some b) :
    m.length > 0 := by
  cases m with
  | nil => simp [mget] at h
  | cons e r => simp

theorem exists_mget_of_length_pos (m : GoMap K V) (h : m.length > 0) :
    ∃ c b, mget m c = some b := by
  cases m with
  | nil => simp at h
  | cons e r => exact ⟨e.1, e.2, by simp [mget]⟩

end ZygoVerif.Hash
