/-
Lemmas for C14, part 1: the Go-map association list, buckets, `get?` under `set` / `del`.
-/
import ZygoVerif.Model.Hash
namespace ZygoVerif.Hash
variable {K V : Type}

/-- What the proofs need of the language's key equality and of the hash-code function:
`Compare == 0` is an equivalence relation on keys, and equal keys hash alike. Nothing else
is assumed about `code` — collisions between different keys are arbitrary. -/
structure KeyLaws (o : KeyOps K) : Prop where
  refl : ∀ a, o.keq a a = true
  symm : ∀ a b, o.keq a b = true → o.keq b a = true
  trans : ∀ a b c, o.keq a b = true → o.keq b c = true → o.keq a c = true
  code_congr : ∀ a b, o.keq a b = true → o.code a = o.code b

/-! ### the Go map -/

theorem mget_mdel (m : GoMap K V) (c c' : Int) :
    mget (mdel m c) c' = if c' = c then none else mget m c' := by
  induction m with
  | nil => simp [mdel, mget]
  | cons e r ih =>
    obtain ⟨ce, be⟩ := e
    simp only [mdel, mget]
    split <;> split <;> simp_all [mget] <;> grind

theorem mget_mput (m : GoMap K V) (c c' : Int) (b : Bucket K V) :
    mget (mput m c b) c' = if c' = c then some b else mget m c' := by
  by_cases h : c' = c
  · subst h; simp [mput, mget]
  · have : ¬ c = c' := fun h' => h h'.symm
    simp [mput, mget, mget_mdel, h, this]

def mcodes (m : GoMap K V) : List Int := m.map (·.1)

theorem mcodes_mdel_sublist (m : GoMap K V) (c : Int) : (mcodes (mdel m c)).Sublist (mcodes m) := by
  induction m with
  | nil => simp [mdel, mcodes]
  | cons e r ih =>
    obtain ⟨ce, be⟩ := e
    simp only [mdel, mcodes, List.map_cons] at ih ⊢
    split
    · exact List.Sublist.cons _ ih
    · exact List.Sublist.cons_cons _ ih

theorem mcodes_mdel_nodup (m : GoMap K V) (c : Int) (h : (mcodes m).Nodup) :
    (mcodes (mdel m c)).Nodup := h.sublist (mcodes_mdel_sublist m c)

theorem not_mem_mcodes_mdel (m : GoMap K V) (c : Int) : c ∉ mcodes (mdel m c) := by
  induction m with
  | nil => simp [mdel, mcodes]
  | cons e r ih =>
    obtain ⟨ce, be⟩ := e
    simp only [mdel, mcodes] at ih ⊢
    split
    · exact ih
    · simp only [List.map_cons, List.mem_cons, not_or]; exact ⟨fun h => by simp_all, ih⟩

theorem mcodes_mput_nodup (m : GoMap K V) (c : Int) (b : Bucket K V) (h : (mcodes m).Nodup) :
    (mcodes (mput m c b)).Nodup := by
  have h1 := mcodes_mdel_nodup m c h
  have h2 := not_mem_mcodes_mdel m c
  simp only [mcodes, mput, List.map_cons, List.nodup_cons] at *
  exact ⟨h2, h1⟩

def blen (ob : Option (Bucket K V)) : Int :=
  match ob with
  | some b => b.length
  | none => 0

theorem mget_none_of_not_mem (m : GoMap K V) (c : Int) (h : c ∉ mcodes m) : mget m c = none := by
  induction m with
  | nil => rfl
  | cons e r ih =>
    obtain ⟨ce, be⟩ := e
    simp only [mcodes, List.map_cons, List.mem_cons, not_or] at h
    have : ¬ ce = c := fun h' => h.1 h'.symm
    simp only [mget, this, if_false]
    exact ih h.2

theorem msum_mdel (m : GoMap K V) (c : Int) (h : (mcodes m).Nodup) :
    msum (mdel m c) = msum m - blen (mget m c) := by
  induction m with
  | nil => simp [mdel, msum, mget, blen]
  | cons e r ih =>
    obtain ⟨ce, be⟩ := e
    simp only [mcodes, List.map_cons, List.nodup_cons] at h
    have ih' := ih h.2
    by_cases h1 : ce = c
    · subst h1
      have hn : mget r ce = none := mget_none_of_not_mem r ce h.1
      rw [hn] at ih'
      simp only [mdel, mget, msum, blen, if_true] at ih' ⊢
      rw [ih']; omega
    · simp only [mdel, mget, msum, h1, if_false]
      rw [ih']; omega

theorem msum_mput (m : GoMap K V) (c : Int) (b : Bucket K V) (h : (mcodes m).Nodup) :
    msum (mput m c b) = msum m - blen (mget m c) + b.length := by
  simp only [mput, msum, msum_mdel m c h]; omega

theorem mget_some_length_pos (m : GoMap K V) (c : Int) (b : Bucket K V) (h : mget m c = some b) :
    m.length > 0 := by
  cases m with
  | nil => simp [mget] at h
  | cons e r => simp

theorem exists_mget_of_length_pos (m : GoMap K V) (h : m.length > 0) :
    ∃ c b, mget m c = some b := by
  cases m with
  | nil => simp at h
  | cons e r => exact ⟨e.1, e.2, by simp [mget]⟩

/-! ### buckets -/

section bucket
variable {o : KeyOps K} (L : KeyLaws o)
include L

theorem keq_left_congr {k k' : K} (h : o.keq k k' = true) (e : K) : o.keq e k = o.keq e k' := by
  cases h1 : o.keq e k <;> cases h2 : o.keq e k' <;> try rfl
  · have := L.trans e k' k h2 (L.symm _ _ h); simp_all
  · have := L.trans e k k' h1 h; simp_all

theorem keq_comm (a b : K) : o.keq a b = o.keq b a := by
  cases h1 : o.keq a b <;> cases h2 : o.keq b a <;> try rfl
  · have := L.symm _ _ h2; simp_all
  · have := L.symm _ _ h1; simp_all

theorem bfind_congr (b : Bucket K V) {k k' : K} (h : o.keq k k' = true) :
    bfind o b k = bfind o b k' := by
  induction b with
  | nil => rfl
  | cons e r ih => obtain ⟨ke, ve⟩ := e; simp only [bfind, keq_left_congr L h ke, ih]

omit L in
theorem bfind_none_iff (b : Bucket K V) (k : K) :
    bfind o b k = none ↔ ∀ e ∈ b, o.keq e.1 k = false := by
  induction b with
  | nil => simp [bfind]
  | cons e r ih =>
    obtain ⟨ke, ve⟩ := e
    simp only [bfind, List.mem_cons, forall_eq_or_imp]
    cases h : o.keq ke k <;> simp [ih]

omit L in
theorem any_eq_bfind_isSome (b : Bucket K V) (k : K) :
    b.any (fun e => o.keq e.1 k) = (bfind o b k).isSome := by
  induction b with
  | nil => rfl
  | cons e r ih =>
    obtain ⟨ke, ve⟩ := e
    simp only [List.any_cons, bfind, ih]
    cases h : o.keq ke k <;> simp

omit L in
theorem bfind_some_mem (b : Bucket K V) (k : K) (v : V) (h : bfind o b k = some v) :
    ∃ e ∈ b, o.keq e.1 k = true := by
  induction b with
  | nil => simp [bfind] at h
  | cons e r ih =>
    obtain ⟨ke, ve⟩ := e
    simp only [bfind] at h
    cases hk : o.keq ke k
    · simp only [hk] at h
      obtain ⟨e', he', hq⟩ := ih (by simpa using h)
      exact ⟨e', List.mem_cons_of_mem _ he', hq⟩
    · exact ⟨(ke, ve), List.mem_cons_self, hk⟩

/-- the replace loop of HashSet, seen from a key equal to the one being set -/
theorem bfind_replace_eq (b : Bucket K V) (k k' : K) (v : V) (h : o.keq k k' = true) :
    bfind o (b.map (fun e => if o.keq e.1 k then (k, v) else e)) k' =
      if b.any (fun e => o.keq e.1 k) then some v else none := by
  induction b with
  | nil => rfl
  | cons e r ih =>
    obtain ⟨ke, ve⟩ := e
    simp only [List.map_cons, List.any_cons]
    by_cases hk : o.keq ke k = true
    · simp [bfind, h, hk]
    · have hk' : o.keq ke k = false := by simpa using hk
      have : o.keq ke k' = false := by rw [← keq_left_congr L h ke]; exact hk'
      simp only [hk', Bool.false_eq_true, if_false, bfind, this, ih, Bool.false_or]

/-- … and from any other key -/
theorem bfind_replace_ne (b : Bucket K V) (k k' : K) (v : V) (h : o.keq k k' = false) :
    bfind o (b.map (fun e => if o.keq e.1 k then (k, v) else e)) k' = bfind o b k' := by
  induction b with
  | nil => rfl
  | cons e r ih =>
    obtain ⟨ke, ve⟩ := e
    simp only [List.map_cons]
    by_cases hk : o.keq ke k = true
    · have : o.keq ke k' = false := by
        cases h2 : o.keq ke k'
        · rfl
        · have := L.trans k ke k' (L.symm _ _ hk) h2; simp_all
      simp [bfind, h, this, ih, hk]
    · have hk' : o.keq ke k = false := by simpa using hk
      simp [bfind, ih, hk']

omit L in
theorem bfind_append (b : Bucket K V) (k k' : K) (v : V) :
    bfind o (b ++ [(k, v)]) k' =
      match bfind o b k' with
      | some x => some x
      | none => if o.keq k k' then some v else none := by
  induction b with
  | nil => simp [bfind]
  | cons e r ih =>
    obtain ⟨ke, ve⟩ := e
    simp only [List.cons_append, bfind]
    cases hk : o.keq ke k' <;> simp [ih]

omit L in
theorem bremove_none_iff (b : Bucket K V) (k : K) :
    bremove o b k = none ↔ bfind o b k = none := by
  induction b with
  | nil => simp [bremove, bfind]
  | cons e r ih =>
    obtain ⟨ke, ve⟩ := e
    simp only [bremove, bfind]
    cases hk : o.keq ke k <;> simp [ih]

omit L in
theorem bremove_length (b b' : Bucket K V) (k : K) (h : bremove o b k = some b') :
    b'.length + 1 = b.length := by
  induction b generalizing b' with
  | nil => simp [bremove] at h
  | cons e r ih =>
    obtain ⟨ke, ve⟩ := e
    simp only [bremove] at h
    cases hk : o.keq ke k
    · simp only [hk, Bool.false_eq_true, if_false, Option.map_eq_some_iff] at h
      obtain ⟨r', hr', rfl⟩ := h
      simp [ih r' hr']
    · simp only [hk, if_true, Option.some.injEq] at h
      subst h; rfl

omit L in
theorem bremove_sublist (b b' : Bucket K V) (k : K) (h : bremove o b k = some b') :
    b'.Sublist b := by
  induction b generalizing b' with
  | nil => simp [bremove] at h
  | cons e r ih =>
    obtain ⟨ke, ve⟩ := e
    simp only [bremove] at h
    cases hk : o.keq ke k
    · simp only [hk, Bool.false_eq_true, if_false, Option.map_eq_some_iff] at h
      obtain ⟨r', hr', rfl⟩ := h
      exact List.Sublist.cons_cons _ (ih r' hr')
    · simp only [hk, if_true, Option.some.injEq] at h
      subst h; exact List.sublist_cons_self _ _

/-- after the removal: the deleted key (in any spelling) is gone, every other key is untouched.
Needs the bucket's keys to be pairwise different. -/
theorem bfind_bremove (b b' : Bucket K V) (k k' : K) (h : bremove o b k = some b')
    (pw : b.Pairwise (fun e f => o.keq e.1 f.1 = false)) :
    bfind o b' k' = if o.keq k k' then none else bfind o b k' := by
  induction b generalizing b' with
  | nil => simp [bremove] at h
  | cons e r ih =>
    obtain ⟨ke, ve⟩ := e
    simp only [bremove] at h
    rw [List.pairwise_cons] at pw
    cases hk : o.keq ke k
    · simp only [hk, Bool.false_eq_true, if_false, Option.map_eq_some_iff] at h
      obtain ⟨r', hr', rfl⟩ := h
      have ih' := ih r' hr' pw.2
      simp only [bfind, ih']
      cases hkk : o.keq k k'
      · simp
      · have : o.keq ke k' = false := by rw [← keq_left_congr L hkk ke]; exact hk
        simp [this]
    · simp only [hk, if_true, Option.some.injEq] at h
      subst h
      cases hkk : o.keq k k'
      · have : o.keq ke k' = false := by
          cases h2 : o.keq ke k'
          · rfl
          · have := L.trans k ke k' (L.symm _ _ hk) h2; simp_all
        simp [bfind, this]
      · simp only [if_true]
        rw [bfind_none_iff]
        intro f hf
        have h1 := pw.1 f hf
        cases h2 : o.keq f.1 k'
        · rfl
        · -- ke ~ k ~ k' ~ f.1 contradicts pairwise
          have h3 : o.keq ke k' = true := L.trans ke k k' hk hkk
          have h4 : o.keq ke f.1 = true := L.trans ke k' f.1 h3 (L.symm _ _ h2)
          simp_all

end bucket

end ZygoVerif.Hash
