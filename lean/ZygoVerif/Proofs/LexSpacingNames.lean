/-
C06 `lex_spacing`, part 3: `DecodeAtom` on the names of `Spec/Spacing.lean`. An identifier
(letter or `_`, then letters and digits; not one of the literal words; not ending in `ULL`) is
classified as a SYMBOL token with that name; a dotted path of identifiers (`h.a.b`, `.f`) as a
DOT-SYMBOL token. All their runes are plain (no meaning of their own in LexerNormal).
-/
import ZygoVerif.Proofs.DecodeAtom
import ZygoVerif.Proofs.LexNormal
import ZygoVerif.Spec.Spacing
namespace ZygoVerif.Lexer
open ZygoVerif.Spacing (isLetter isDigit isIdent)

/-- letter, `_` or digit -/
def idc (c : Char) : Bool := isLetter c || isDigit c

/-- everything the cascade asks about one rune of a name -/
def idcGood (c : Char) : Bool :=
  !isSpecial c && symRest c && dotRest c && c != ':' && c != '.' && c != '#' && c != '?' && c != '&' && c != '\\' &&
  c != '\'' && !(['+', '-', '=', ':', '*', '<', '>', '/', '!', '&', '|'].contains c)

def letterGood (c : Char) : Bool :=
  idcGood c && symFirst c && dotFirst c && !isDig c && c != '0'

theorem idc_table : ∀ n, n < 128 → idc (Char.ofNat n) = true → idcGood (Char.ofNat n) = true := by decide +kernel
theorem letter_table : ∀ n, n < 128 → isLetter (Char.ofNat n) = true → letterGood (Char.ofNat n) = true := by decide +kernel

theorem idc_lt (c : Char) (h : idc c = true) : c.toNat < 128 := by
  simp only [idc, isLetter, isDigit, Bool.or_eq_true, Bool.and_eq_true, decide_eq_true_eq, beq_iff_eq] at h
  have ez : 'z'.toNat = 122 := by decide
  have eZ : 'Z'.toNat = 90 := by decide
  have e9 : '9'.toNat = 57 := by decide
  rcases h with ((h | h) | h) | h
  · have : c.toNat ≤ 'z'.toNat := h.2
    omega
  · have : c.toNat ≤ 'Z'.toNat := h.2
    omega
  · subst h; decide
  · have : c.toNat ≤ '9'.toNat := h.2
    omega

theorem idc_good (c : Char) (h : idc c = true) : idcGood c = true := by
  have := idc_table c.toNat (idc_lt c h)
  rw [Char.ofNat_toNat] at this
  exact this h

theorem letter_good (c : Char) (h : isLetter c = true) : letterGood c = true := by
  have hl : idc c = true := by simp [idc, h]
  have := letter_table c.toNat (idc_lt c hl)
  rw [Char.ofNat_toNat] at this
  exact this h

/-- the facts about a rune of a name, unpacked -/
theorem idc_facts (c : Char) (h : idc c = true) :
    isSpecial c = false ∧ symRest c = true ∧ dotRest c = true ∧ c ≠ ':' ∧ c ≠ '.' ∧ c ≠ '&' ∧ c ≠ '\\' ∧
    c ∉ ['+', '-', '=', ':', '*', '<', '>', '/', '!', '&', '|'] := by
  have := idc_good c h
  simp only [idcGood, Bool.and_eq_true, Bool.not_eq_true', bne_iff_ne, ne_eq] at this
  obtain ⟨⟨⟨⟨⟨⟨⟨⟨⟨⟨h1, h2⟩, h3⟩, h4⟩, h5⟩, _⟩, _⟩, h8⟩, h9⟩, _⟩, h11⟩ := this
  refine ⟨h1, h2, h3, h4, h5, h8, h9, ?_⟩
  intro hm
  have : (['+', '-', '=', ':', '*', '<', '>', '/', '!', '&', '|'].contains c) = true := by
    rw [List.contains_iff_mem]; exact hm
  rw [this] at h11; cases h11

theorem letter_facts (c : Char) (h : isLetter c = true) :
    symFirst c = true ∧ dotFirst c = true ∧ isDig c = false ∧ c ≠ '0' ∧ c ≠ '#' ∧ c ≠ '?' ∧ c ≠ '-' := by
  have := letter_good c h
  simp only [letterGood, idcGood, Bool.and_eq_true, Bool.not_eq_true', bne_iff_ne, ne_eq] at this
  obtain ⟨⟨⟨⟨hg, h1⟩, h2⟩, h3⟩, h4⟩ := this
  obtain ⟨⟨⟨⟨⟨⟨⟨⟨⟨⟨_, _⟩, _⟩, _⟩, _⟩, h6⟩, h7⟩, _⟩, _⟩, _⟩, h11⟩ := hg
  refine ⟨h1, h2, h3, h4, h6, h7, ?_⟩
  intro hm; subst hm; revert h11; decide

/-! ## the cascade -/

/-- the cascade down to `DotSymbolRegex` -/
theorem decodeAtom_dotsym (a : List Char) (h0 : a.getLast? ≠ some ':') (h1 : a ≠ ['&']) (h2 : a ≠ ['\\'])
    (h3 : boolRe a = false) (h4 : uint64Re a = false) (h5 : decimalRe a = false) (h6 : hexRe a = false)
    (h7 : octRe a = false) (h8 : binaryRe a = false) (h9 : floatRe a = false)
    (h10 : (a == "NaN".toList || a == "nan".toList) = false) (h11 : infRe a = false) (h12 : dotSymbolRe a = true) :
    decodeAtom a = .ok ⟨.dotSymbol, a⟩ := by
  unfold decodeAtom
  have hc : (a.getLast? == some ':') = false := by simpa using h0
  simp only [hc, Bool.false_eq_true, ↓reduceIte]
  have e1 : (a == ['&']) = false := by simpa using h1
  have e2 : (a == ['\\']) = false := by simpa using h2
  simp only [e1, e2, h3, h4, h5, h6, h7, h8, h9, h10, h11, h12, Bool.false_eq_true, ↓reduceIte]

/-- the cascade down to `SymbolRegex` -/
theorem decodeAtom_sym (a : List Char) (h0 : a.getLast? ≠ some ':') (h1 : a ≠ ['&']) (h2 : a ≠ ['\\'])
    (h3 : boolRe a = false) (h4 : uint64Re a = false) (h5 : decimalRe a = false) (h6 : hexRe a = false)
    (h7 : octRe a = false) (h8 : binaryRe a = false) (h9 : floatRe a = false)
    (h10 : (a == "NaN".toList || a == "nan".toList) = false) (h11 : infRe a = false) (h12 : dotSymbolRe a = false)
    (h13 : builtinOpRe a = false) (h14 : a ≠ [':']) (h15 : symbolRe a = true) :
    decodeAtom a = .ok ⟨.symbol, a⟩ := by
  unfold decodeAtom
  have hc : (a.getLast? == some ':') = false := by simpa using h0
  simp only [hc, Bool.false_eq_true, ↓reduceIte]
  have e1 : (a == ['&']) = false := by simpa using h1
  have e2 : (a == ['\\']) = false := by simpa using h2
  have e3 : (a == [':']) = false := by simpa using h14
  simp only [e1, e2, e3, h3, h4, h5, h6, h7, h8, h9, h10, h11, h12, h13, h15, Bool.false_eq_true, ↓reduceIte]

/-- `Uint64Regex` needs the suffix `ULL` -/
theorem uint64Re_no_suffix (a : List Char) (h : (a.drop (a.length - 3) == "ULL".toList) = false) : uint64Re a = false := by
  unfold uint64Re
  have : stripSuffix? "ULL".toList a = none := by
    unfold stripSuffix?
    have h3 : "ULL".toList.length = 3 := by decide
    rw [h3]
    have hne : a.drop (a.length - 3) ≠ "ULL".toList := by
      intro he; rw [he] at h; simp at h
    rw [if_neg (fun hc => hne hc.2)]
  rw [this]

theorem getLast?_mem {α : Type} (l : List α) (x : α) (h : l.getLast? = some x) : x ∈ l := by
  cases l with
  | nil => cases h
  | cons a b =>
    rw [List.getLast?_eq_some_getLast (by simp)] at h
    rw [← Option.some.inj h]; exact List.getLast_mem _

/-- facts shared by every name text: a first rune that is a letter or `.`, all runes letters,
digits or `.` -/
structure NameText (a : List Char) : Prop where
  ne : a ≠ []
  runes : ∀ c ∈ a, idc c = true ∨ c = '.'

theorem NameText.plain {a : List Char} (h : NameText a) : ∀ c ∈ a, isSpecial c = false := by
  intro c hc
  rcases h.runes c hc with h1 | rfl
  · exact (idc_facts c h1).1
  · decide

theorem NameText.last_ne_colon {a : List Char} (h : NameText a) : a.getLast? ≠ some ':' := by
  intro hl
  rcases h.runes ':' (getLast?_mem a ':' hl) with h1 | h1
  · exact (idc_facts ':' h1).2.2.2.1 rfl
  · cases h1

/-- the numeric recognisers and the operator recogniser reject a text that starts with a letter -/
theorem head_letter_rejects (c : Char) (r : List Char) (hc : isLetter c = true) :
    (c :: r) ≠ ['&'] ∧ (c :: r) ≠ ['\\'] ∧ decimalRe (c :: r) = false ∧ hexRe (c :: r) = false ∧ octRe (c :: r) = false ∧
    binaryRe (c :: r) = false ∧ floatRe (c :: r) = false ∧ builtinOpRe (c :: r) = false ∧ (c :: r) ≠ [':'] := by
  obtain ⟨_, _, g3, g4, _, _, g7⟩ := letter_facts c hc
  have hi : idc c = true := by simp [idc, hc]
  obtain ⟨_, _, _, f4, f5, f6, f7, f8⟩ := idc_facts c hi
  obtain ⟨b1, b2, b3⟩ := based_head c r g4
  refine ⟨?_, ?_, decimalRe_head c r g3 g7, b1, b2, b3, floatRe_head c r g3 g7 f5, builtinOpRe_head c r f8, ?_⟩
  · intro h; simp only [List.cons.injEq] at h; exact f6 h.1
  · intro h; simp only [List.cons.injEq] at h; exact f7 h.1
  · intro h; simp only [List.cons.injEq] at h; exact f4 h.1

theorem infRe_head (c : Char) (r : List Char) (h1 : c ≠ '-') (h2 : c ≠ '+') :
    infRe (c :: r) = ((c :: r) == "Inf".toList || (c :: r) == "inf".toList) := by
  unfold infRe
  split
  · rename_i heq; simp only [List.cons.injEq] at heq; exact absurd heq.1 h1
  · rename_i heq; simp only [List.cons.injEq] at heq; exact absurd heq.1 h2
  · rfl

/-! ## identifiers -/

theorem isIdent_cons (c : Char) (r : List Char) (h : isIdent (c :: r) = true) :
    isLetter c = true ∧ ∀ x ∈ r, idc x = true := by
  simp only [isIdent, Bool.and_eq_true, List.all_eq_true] at h
  exact ⟨h.1, fun x hx => by simpa [idc] using h.2 x hx⟩

theorem isIdent_nameText (w : List Char) (h : isIdent w = true) : NameText w := by
  cases w with
  | nil => simp [isIdent] at h
  | cons c r =>
    obtain ⟨h1, h2⟩ := isIdent_cons c r h
    refine ⟨by simp, ?_⟩
    intro x hx
    rw [List.mem_cons] at hx
    rcases hx with rfl | hx
    · left; simp [idc, h1]
    · exact Or.inl (h2 x hx)

theorem splitDots_no_dot (a : List Char) (h : ∀ c ∈ a, c ≠ '.') : splitDots a = [a] := by
  induction a with
  | nil => rfl
  | cons c r ih =>
    have hr := ih (fun x hx => h x (by simp [hx]))
    have hc : (c == '.') = false := by simpa using h c (by simp)
    simp [splitDots, hr, hc]

theorem ident_no_dot (w : List Char) (h : isIdent w = true) : ∀ c ∈ w, c ≠ '.' := by
  cases w with
  | nil => simp [isIdent] at h
  | cons c r =>
    obtain ⟨h1, h2⟩ := isIdent_cons c r h
    intro x hx
    rw [List.mem_cons] at hx
    rcases hx with rfl | hx
    · exact (idc_facts x (by simp [idc, h1])).2.2.2.2.1
    · exact (idc_facts x (h2 x hx)).2.2.2.2.1

theorem symbolRe_ident (w : List Char) (h : isIdent w = true) : symbolRe w = true := by
  cases w with
  | nil => simp [isIdent] at h
  | cons c r =>
    obtain ⟨h1, h2⟩ := isIdent_cons c r h
    obtain ⟨g1, _, _, _, g5, g6, _⟩ := letter_facts c h1
    have hlast : (r.getLast? == some ':') = false := by
      rw [beq_eq_false_iff_ne]
      intro hl
      exact (idc_facts ':' (h2 ':' (getLast?_mem r ':' hl))).2.2.2.1 rfl
    unfold symbolRe
    dsimp only
    split
    · rename_i heq
      split at heq
      · rename_i heq2; simp only [List.cons.injEq] at heq2; exact absurd heq2.1 g5
      · rename_i heq2; simp only [List.cons.injEq] at heq2; exact absurd heq2.1 g6
      · cases heq
    · rename_i c' r' heq
      split at heq
      · rename_i heq2; simp only [List.cons.injEq] at heq2; exact absurd heq2.1 g5
      · rename_i heq2; simp only [List.cons.injEq] at heq2; exact absurd heq2.1 g6
      · simp only [List.cons.injEq] at heq
        obtain ⟨rfl, rfl⟩ := heq
        simp only [g1, hlast, Bool.false_eq_true, ↓reduceIte, Bool.true_and, List.all_eq_true]
        intro x hx
        exact (idc_facts x (h2 x hx)).2.1

/-- **identifiers are symbols** -/
theorem decodeAtom_ident (w : List Char) (h : isIdent w = true)
    (hr : Spacing.reservedWords.contains w = false) (hu : (w.drop (w.length - 3) == "ULL".toList) = false) :
    decodeAtom w = .ok ⟨.symbol, w⟩ := by
  have hn := isIdent_nameText w h
  have hsym := symbolRe_ident w h
  have hdots := splitDots_no_dot w (ident_no_dot w h)
  have hres : w ≠ "true".toList ∧ w ≠ "false".toList ∧ w ≠ "NaN".toList ∧ w ≠ "nan".toList ∧ w ≠ "Inf".toList ∧ w ≠ "inf".toList := by
    have : ¬ w ∈ Spacing.reservedWords := by
      intro hm
      have := List.contains_iff_mem.2 hm
      rw [hr] at this; cases this
    simp only [Spacing.reservedWords, List.mem_cons, List.not_mem_nil, or_false, not_or] at this
    exact ⟨this.1, this.2.1, this.2.2.1, this.2.2.2.1, this.2.2.2.2.1, this.2.2.2.2.2⟩
  cases w with
  | nil => simp [isIdent] at h
  | cons c r =>
    obtain ⟨h1, h2⟩ := isIdent_cons c r h
    obtain ⟨_, _, _, _, _, _, g7⟩ := letter_facts c h1
    have hplus : c ≠ '+' := fun he => (idc_facts c (by simp [idc, h1])).2.2.2.2.2.2.2 (by rw [he]; simp)
    obtain ⟨r1, r2, r3, r4, r5, r6, r7, r8, r9⟩ := head_letter_rejects c r h1
    apply decodeAtom_sym _ hn.last_ne_colon r1 r2 _ (uint64Re_no_suffix _ hu) r3 r4 r5 r6 r7 _ _ _ r8 r9 hsym
    · simp only [boolRe, beq_eq_false_iff_ne.2 hres.1, beq_eq_false_iff_ne.2 hres.2.1, Bool.or_self]
    · simp only [beq_eq_false_iff_ne.2 hres.2.2.1, beq_eq_false_iff_ne.2 hres.2.2.2.1, Bool.or_self]
    · rw [infRe_head c r g7 hplus]
      simp only [beq_eq_false_iff_ne.2 hres.2.2.2.2.1, beq_eq_false_iff_ne.2 hres.2.2.2.2.2, Bool.or_self]
    · unfold dotSymbolRe
      have hne : ((c :: r) == ['.']) = false := by
        rw [beq_eq_false_iff_ne]; intro he
        simp only [List.cons.injEq] at he
        exact (idc_facts c (by simp [idc, h1])).2.2.2.2.1 he.1
      simp [hne, hdots]

/-! ## dotted paths -/

open ZygoVerif.Spacing.Tok (dotted)

theorem splitDots_append_dot (s : List Char) (hs : ∀ c ∈ s, c ≠ '.') (rest : List Char) :
    splitDots (s ++ '.' :: rest) = s :: splitDots rest := by
  induction s with
  | nil =>
    cases hr : splitDots rest with
    | nil => exact absurd hr (splitDots_ne_nil rest)
    | cons seg segs => simp [splitDots, hr]
  | cons c r ih =>
    have hr := ih (fun x hx => hs x (by simp [hx]))
    have hc : (c == '.') = false := by simpa using hs c (by simp)
    simp [splitDots, hr, hc]

theorem splitDots_dotted (segs : List (List Char)) (hne : segs ≠ []) (hs : ∀ s ∈ segs, isIdent s = true) :
    splitDots (dotted segs) = segs := by
  induction segs with
  | nil => exact absurd rfl hne
  | cons s rest ih =>
    cases rest with
    | nil => simpa [dotted] using splitDots_no_dot s (ident_no_dot s (hs s (by simp)))
    | cons s2 rest2 =>
      have := ih (by simp) (fun x hx => hs x (by simp [hx]))
      simp only [dotted]
      rw [splitDots_append_dot s (ident_no_dot s (hs s (by simp))), this]

theorem dotSeg_ident (s : List Char) (h : isIdent s = true) : dotSeg s = true := by
  cases s with
  | nil => simp [isIdent] at h
  | cons c r =>
    obtain ⟨h1, h2⟩ := isIdent_cons c r h
    simp only [dotSeg, (letter_facts c h1).2.1, Bool.true_and, List.all_eq_true]
    intro x hx
    exact (idc_facts x (h2 x hx)).2.2.1

theorem dotted_nameText (segs : List (List Char)) (hne : segs ≠ []) (hs : ∀ s ∈ segs, isIdent s = true) :
    NameText (dotted segs) := by
  induction segs with
  | nil => exact absurd rfl hne
  | cons s rest ih =>
    have h1 := isIdent_nameText s (hs s (by simp))
    cases rest with
    | nil => simpa [dotted] using h1
    | cons s2 rest2 =>
      have h2 := ih (by simp) (fun x hx => hs x (by simp [hx]))
      refine ⟨by simp only [dotted]; intro h; exact h1.ne (List.append_eq_nil_iff.1 h).1, ?_⟩
      intro c hc
      simp only [dotted, List.mem_append, List.mem_cons] at hc
      rcases hc with hc | rfl | hc
      · exact h1.runes c hc
      · exact Or.inr rfl
      · exact h2.runes c hc

theorem dotted_head (segs : List (List Char)) (hne : segs ≠ []) (hs : ∀ s ∈ segs, isIdent s = true) :
    ∃ c r, dotted segs = c :: r ∧ isLetter c = true := by
  cases segs with
  | nil => exact absurd rfl hne
  | cons s rest =>
    have hi := hs s (by simp)
    cases s with
    | nil => simp [isIdent] at hi
    | cons c r =>
      obtain ⟨h1, _⟩ := isIdent_cons c r hi
      cases rest with
      | nil => exact ⟨c, r, rfl, h1⟩
      | cons s2 rest2 => exact ⟨c, r ++ '.' :: dotted (s2 :: rest2), rfl, h1⟩

theorem mem_dot_ne (a b : List Char) (h : '.' ∈ a) (hb : '.' ∉ b) : a ≠ b := by
  intro he; subst he; exact hb h

theorem dot_mem_dotted (s s2 : List Char) (rest : List (List Char)) : '.' ∈ dotted (s :: s2 :: rest) := by
  simp [dotted]

/-- **a dotted path of two or more identifiers is a dot-symbol** -/
theorem decodeAtom_path (segs : List (List Char)) (hlen : segs.length ≥ 2) (hs : ∀ s ∈ segs, isIdent s = true)
    (hu : ((dotted segs).drop ((dotted segs).length - 3) == "ULL".toList) = false) :
    decodeAtom (dotted segs) = .ok ⟨.dotSymbol, dotted segs⟩ := by
  have hne : segs ≠ [] := by intro h; rw [h] at hlen; simp at hlen
  have hn := dotted_nameText segs hne hs
  have hsplit := splitDots_dotted segs hne hs
  have hdot : '.' ∈ dotted segs := by
    match segs, hlen with
    | s :: s2 :: rest, _ => exact dot_mem_dotted s s2 rest
  obtain ⟨c, r, hcr, hc⟩ := dotted_head segs hne hs
  obtain ⟨_, _, _, _, _, _, g7⟩ := letter_facts c hc
  have hplus : c ≠ '+' := fun he => (idc_facts c (by simp [idc, hc])).2.2.2.2.2.2.2 (by rw [he]; simp)
  obtain ⟨r1, r2, r3, r4, r5, r6, r7, r8, r9⟩ := head_letter_rejects c r hc
  rw [← hcr] at r1 r2 r3 r4 r5 r6 r7
  apply decodeAtom_dotsym _ hn.last_ne_colon r1 r2 _ (uint64Re_no_suffix _ hu) r3 r4 r5 r6 r7
  · have h1 := mem_dot_ne _ "NaN".toList hdot (by decide)
    have h2 := mem_dot_ne _ "nan".toList hdot (by decide)
    simp only [beq_eq_false_iff_ne.2 h1, beq_eq_false_iff_ne.2 h2, Bool.or_self]
  · rw [hcr, infRe_head c r g7 hplus, ← hcr]
    have h1 := mem_dot_ne _ "Inf".toList hdot (by decide)
    have h2 := mem_dot_ne _ "inf".toList hdot (by decide)
    simp only [beq_eq_false_iff_ne.2 h1, beq_eq_false_iff_ne.2 h2, Bool.or_self]
  · unfold dotSymbolRe
    have h1 : (dotted segs == ['.']) = false := by
      rw [beq_eq_false_iff_ne, hcr]; intro he
      simp only [List.cons.injEq] at he
      exact (idc_facts c (by simp [idc, hc])).2.2.2.2.1 he.1
    rw [hsplit]
    simp only [h1, Bool.false_eq_true, ↓reduceIte]
    match segs, hlen with
    | (c' :: r') :: s2 :: rest, _ =>
      simp only [List.length_cons, ge_iff_le, Nat.le_add_left, decide_true, Bool.true_and, List.all_eq_true]
      intro s hsm; exact dotSeg_ident s (hs s hsm)
    | [] :: s2 :: rest, _ => have := hs [] (by simp); simp [isIdent] at this
  · have h1 := mem_dot_ne _ "true".toList hdot (by decide)
    have h2 := mem_dot_ne _ "false".toList hdot (by decide)
    simp only [boolRe, beq_eq_false_iff_ne.2 h1, beq_eq_false_iff_ne.2 h2, Bool.or_self]

/-- **a path with a leading dot (`.f`, `.a.b`) is a dot-symbol** -/
theorem decodeAtom_leadpath (segs : List (List Char)) (hne : segs ≠ []) (hs : ∀ s ∈ segs, isIdent s = true)
    (hu : ((dotted segs).drop ((dotted segs).length - 3) == "ULL".toList) = false) :
    decodeAtom ('.' :: dotted segs) = .ok ⟨.dotSymbol, '.' :: dotted segs⟩ := by
  have hn := dotted_nameText segs hne hs
  have hsplit := splitDots_dotted segs hne hs
  obtain ⟨c, r, hcr, hc⟩ := dotted_head segs hne hs
  obtain ⟨_, _, g3, _, _, _, _⟩ := letter_facts c hc
  have hn' : NameText ('.' :: dotted segs) := ⟨by simp, fun x hx => by
    rw [List.mem_cons] at hx
    rcases hx with rfl | hx
    · exact Or.inr rfl
    · exact hn.runes x hx⟩
  obtain ⟨b1, b2, b3⟩ := based_head '.' (dotted segs) (by decide)
  have hu' : (('.' :: dotted segs).drop (('.' :: dotted segs).length - 3) == "ULL".toList) = false := by
    by_cases hl : (dotted segs).length ≥ 3
    · have : ('.' :: dotted segs).length - 3 = ((dotted segs).length - 3) + 1 := by simp; omega
      rw [this, List.drop_succ_cons]; exact hu
    · have hl' : (dotted segs).length < 3 := by omega
      have : ('.' :: dotted segs).length - 3 = 0 := by simp; omega
      rw [this, List.drop_zero, beq_eq_false_iff_ne]
      intro he
      have h3 : "ULL".toList = ['U', 'L', 'L'] := by decide
      rw [h3] at he
      simp only [List.cons.injEq] at he
      exact absurd he.1 (by decide)
  apply decodeAtom_dotsym _ hn'.last_ne_colon (by simp) (by simp) _ (uint64Re_no_suffix _ hu')
    (decimalRe_head '.' _ (by decide) (by decide)) b1 b2 b3
  · -- floatRe
    rw [hcr]
    simp [floatRe, dropMinus, floatBody, digThenDigU, g3]
  · have a1 : "NaN".toList = ['N', 'a', 'N'] := by decide
    have a2 : "nan".toList = ['n', 'a', 'n'] := by decide
    simp [a1, a2]
  · rw [infRe_head '.' _ (by decide) (by decide)]
    have a1 : "Inf".toList = ['I', 'n', 'f'] := by decide
    have a2 : "inf".toList = ['i', 'n', 'f'] := by decide
    simp [a1, a2]
  · unfold dotSymbolRe
    have h1 : (('.' :: dotted segs) == ['.']) = false := by
      rw [beq_eq_false_iff_ne]; intro he
      simp only [List.cons.injEq] at he
      exact hn.ne he.2
    have h2 : splitDots ('.' :: dotted segs) = [] :: segs := by
      have := splitDots_append_dot [] (by simp) (dotted segs)
      simpa [hsplit] using this
    rw [h2]
    simp only [h1, Bool.false_eq_true, ↓reduceIte, List.all_eq_true]
    have : segs.isEmpty = false := by cases segs <;> simp_all
    simp only [this, Bool.not_false, Bool.true_and]
    rw [List.all_eq_true]
    intro s hsm; exact dotSeg_ident s (hs s hsm)
  · simp [boolRe, Lexer.true_toList, Lexer.false_toList]

end ZygoVerif.Lexer
