/-
Lemmas for C14, part 3: the invariant and its preservation by HashSet / HashDelete.
-/
import ZygoVerif.Proofs.HashGet
namespace ZygoVerif.Hash
variable {K V : Type} {o : KeyOps K}

/-- The three pieces of bookkeeping agree:
* the Go map has one entry per code; a bucket holds only keys of its code, pairwise different
  under the language's equality, and is never empty;
* KeyOrder lists exactly the keys that resolve, once each (`koPw`, `koLive`, `rep`);
* NumKeys = total bucket length = length of KeyOrder.
(That the order is first-insertion order is the refinement theorem, not part of `Inv`.) -/
structure Inv (o : KeyOps K) (h : Hash K V) : Prop where
  codesNodup : (mcodes h.map).Nodup
  bucketCode : ∀ c b, mget h.map c = some b → ∀ e ∈ b, o.code e.1 = c
  bucketPw : ∀ c b, mget h.map c = some b → b.Pairwise (fun e f => o.keq e.1 f.1 = false)
  bucketNe : ∀ c b, mget h.map c = some b → b ≠ []
  koPw : h.keyOrder.Pairwise (fun a b => o.keq a b = false)
  koLive : ∀ k ∈ h.keyOrder, (get? o h k).isSome = true
  rep : ∀ k, (get? o h k).isSome = true → ∃ k0 ∈ h.keyOrder, o.keq k0 k = true
  numKeys_eq : h.numKeys = msum h.map
  count : msum h.map = h.keyOrder.length

theorem found_iff_get? (h : Hash K V) (k : K) (b : Bucket K V) (hm : mget h.map (o.code k) = some b) :
    b.any (fun e => o.keq e.1 k) = (get? o h k).isSome := by
  simp only [get?, hm, any_eq_bfind_isSome]

/-! ### KeyOrder and NumKeys after `set` / `del` -/

theorem set_keyOrder (h : Hash K V) (k : K) (v : V) :
    (set o h k v).keyOrder = if (get? o h k).isSome then h.keyOrder else h.keyOrder ++ [k] := by
  rcases set_cases (o := o) h k with hm | ⟨b, hm, ha⟩ | ⟨b, hm, ha⟩
  · rw [set_fresh h k v hm]; simp [get?, hm]
  · rw [set_found h k v b hm ha]; rw [found_iff_get? h k b hm] at ha; simp [ha]
  · rw [set_new h k v b hm ha]; rw [found_iff_get? h k b hm] at ha; simp [ha]

theorem set_numKeys (h : Hash K V) (k : K) (v : V) :
    (set o h k v).numKeys = if (get? o h k).isSome then h.numKeys else h.numKeys + 1 := by
  rcases set_cases (o := o) h k with hm | ⟨b, hm, ha⟩ | ⟨b, hm, ha⟩
  · rw [set_fresh h k v hm]; simp [get?, hm]
  · rw [set_found h k v b hm ha]; rw [found_iff_get? h k b hm] at ha; simp [ha]
  · rw [set_new h k v b hm ha]; rw [found_iff_get? h k b hm] at ha; simp [ha]

theorem bremove_isSome_iff (h : Hash K V) (k : K) (b : Bucket K V) (hm : mget h.map (o.code k) = some b) :
    (bremove o b k).isSome = (get? o h k).isSome := by
  simp only [get?, hm]
  cases hr : bremove o b k with
  | none => simp [(bremove_none_iff b k).1 hr]
  | some b' =>
    cases hb : bfind o b k with
    | none => rw [(bremove_none_iff b k).2 hb] at hr; cases hr
    | some x => rfl

theorem del_keyOrder (h : Hash K V) (k : K) :
    (del o h k).keyOrder = if (get? o h k).isSome then koRemove o h.keyOrder k else h.keyOrder := by
  rcases del_cases (o := o) h k with hm | ⟨b, hm, hr⟩ | ⟨b, b', hm, hr⟩
  · rw [del_nobucket h k hm]; simp [get?, hm]
  · have := bremove_isSome_iff h k b hm; rw [hr] at this
    rw [del_notfound h k b hm hr, ← this]; simp
  · have := bremove_isSome_iff h k b hm; rw [hr] at this
    rw [del_found h k b b' hm hr, ← this]; simp

theorem del_numKeys (h : Hash K V) (k : K) :
    (del o h k).numKeys = if (get? o h k).isSome then h.numKeys - 1 else h.numKeys := by
  rcases del_cases (o := o) h k with hm | ⟨b, hm, hr⟩ | ⟨b, b', hm, hr⟩
  · rw [del_nobucket h k hm]; simp [get?, hm]
  · have := bremove_isSome_iff h k b hm; rw [hr] at this
    rw [del_notfound h k b hm hr, ← this]; simp
  · have := bremove_isSome_iff h k b hm; rw [hr] at this
    rw [del_found h k b b' hm hr, ← this]; simp

/-! ### koRemove -/

theorem koRemove_sublist (ko : List K) (k : K) : (koRemove o ko k).Sublist ko := by
  induction ko with
  | nil => simp [koRemove]
  | cons a r ih =>
    simp only [koRemove]
    split
    · exact List.sublist_cons_self _ _
    · exact List.Sublist.cons_cons _ ih

theorem koRemove_length (ko : List K) (k : K) (h : ∃ k0 ∈ ko, o.keq k0 k = true) :
    (koRemove o ko k).length + 1 = ko.length := by
  induction ko with
  | nil => obtain ⟨k0, hk0, _⟩ := h; cases hk0
  | cons a r ih =>
    simp only [koRemove]
    by_cases ha : o.keq a k = true
    · simp [ha]
    · obtain ⟨k0, hk0, hq⟩ := h
      have : k0 ∈ r := by
        rcases List.mem_cons.1 hk0 with rfl | h'
        · exact absurd hq ha
        · exact h'
      simp [ha, ih ⟨k0, this, hq⟩]

theorem mem_koRemove (ko : List K) (k k0 : K) (hm : k0 ∈ ko) (hq : o.keq k0 k = false) :
    k0 ∈ koRemove o ko k := by
  induction ko with
  | nil => cases hm
  | cons a r ih =>
    simp only [koRemove]
    by_cases ha : o.keq a k = true
    · rcases List.mem_cons.1 hm with rfl | h'
      · simp_all
      · simp [ha, h']
    · rcases List.mem_cons.1 hm with rfl | h'
      · simp [ha]
      · simp [ha, ih h']

theorem koRemove_keq_false (L : KeyLaws o) (ko : List K) (k : K)
    (pw : ko.Pairwise (fun a b => o.keq a b = false)) :
    ∀ k1 ∈ koRemove o ko k, o.keq k1 k = false := by
  induction ko with
  | nil => intro k1 h1; cases h1
  | cons a r ih =>
    rw [List.pairwise_cons] at pw
    intro k1 h1
    simp only [koRemove] at h1
    by_cases ha : o.keq a k = true
    · simp only [ha, if_true] at h1
      cases h2 : o.keq k1 k
      · rfl
      · have h3 : o.keq a k1 = true := L.trans a k k1 ha (L.symm _ _ h2)
        have := pw.1 k1 h1
        simp_all
    · simp only [ha, Bool.false_eq_true, if_false] at h1
      rcases List.mem_cons.1 h1 with rfl | h'
      · simpa using ha
      · exact ih pw.2 k1 h'

/-! ### preservation -/

theorem inv_empty : Inv o (Hash.empty : Hash K V) where
  codesNodup := by simp [Hash.empty, mcodes]
  bucketCode := by intro c b h; simp [Hash.empty, mget] at h
  bucketPw := by intro c b h; simp [Hash.empty, mget] at h
  bucketNe := by intro c b h; simp [Hash.empty, mget] at h
  koPw := by simp [Hash.empty]
  koLive := by intro k h; simp [Hash.empty] at h
  rep := by intro k h; simp [Hash.empty, get?, mget] at h
  numKeys_eq := by simp [Hash.empty, msum]
  count := by simp [Hash.empty, msum]

/-- a property of every bucket survives a `mput` of a bucket that has it -/
theorem buckets_mput {P : Int → Bucket K V → Prop} (m : GoMap K V) (c : Int) (b : Bucket K V)
    (hP : ∀ c' b', mget m c' = some b' → P c' b') (hb : P c b) :
    ∀ c' b', mget (mput m c b) c' = some b' → P c' b' := by
  intro c' b' h
  rw [mget_mput] at h
  by_cases hc : c' = c
  · subst hc; simp only [if_true, Option.some.injEq] at h; subst h; exact hb
  · simp only [hc, if_false] at h; exact hP _ _ h

theorem buckets_mdel {P : Int → Bucket K V → Prop} (m : GoMap K V) (c : Int)
    (hP : ∀ c' b', mget m c' = some b' → P c' b') :
    ∀ c' b', mget (mdel m c) c' = some b' → P c' b' := by
  intro c' b' h
  rw [mget_mdel] at h
  by_cases hc : c' = c
  · simp [hc] at h
  · simp only [hc, if_false] at h; exact hP _ _ h

theorem inv_set (L : KeyLaws o) (h : Hash K V) (k : K) (v : V) (I : Inv o h) : Inv o (set o h k v) := by
  have hget := get?_set L h k (v := v)
  -- the part that only talks about get? / keyOrder / numKeys, uniformly
  have hko := set_keyOrder (o := o) h k v
  have hnk := set_numKeys (o := o) h k v
  have hfresh : (get? o h k).isSome = false → ∀ k' ∈ h.keyOrder, o.keq k' k = false := by
    intro hn k' hk'
    cases hq : o.keq k' k
    · rfl
    · have := I.koLive k' hk'
      rw [get?_congr L h hq] at this
      simp_all
  have koPw' : (set o h k v).keyOrder.Pairwise (fun a b => o.keq a b = false) := by
    rw [hko]
    cases hs : (get? o h k).isSome
    · simp only [Bool.false_eq_true, if_false, List.pairwise_append, List.pairwise_cons,
        List.mem_singleton]
      refine ⟨I.koPw, ⟨by simp, List.Pairwise.nil⟩, ?_⟩
      intro a ha b hb; subst hb; exact hfresh hs a ha
    · simpa using I.koPw
  have koLive' : ∀ k' ∈ (set o h k v).keyOrder, (get? o (set o h k v) k').isSome = true := by
    intro k' hk'
    rw [hget]
    cases hq : o.keq k k'
    · simp only [Bool.false_eq_true, if_false]
      rw [hko] at hk'
      cases hs : (get? o h k).isSome
      · simp only [hs, Bool.false_eq_true, if_false, List.mem_append, List.mem_singleton] at hk'
        rcases hk' with h1 | rfl
        · exact I.koLive k' h1
        · rw [L.refl] at hq; cases hq
      · simp only [hs, if_true] at hk'; exact I.koLive k' hk'
    · simp
  have rep' : ∀ k', (get? o (set o h k v) k').isSome = true →
      ∃ k0 ∈ (set o h k v).keyOrder, o.keq k0 k' = true := by
    intro k' hk'
    rw [hget] at hk'
    rw [hko]
    cases hq : o.keq k k'
    · simp only [hq, Bool.false_eq_true, if_false] at hk'
      obtain ⟨k0, h0, hq0⟩ := I.rep k' hk'
      refine ⟨k0, ?_, hq0⟩
      split
      · exact h0
      · exact List.mem_append_left _ h0
    · cases hs : (get? o h k).isSome
      · exact ⟨k, by simp, hq⟩
      · obtain ⟨k0, h0, hq0⟩ := I.rep k hs
        exact ⟨k0, by simpa using h0, L.trans _ _ _ hq0 hq⟩
  -- the part that talks about the map, arm by arm
  rcases set_cases (o := o) h k with hm | ⟨b, hm, ha⟩ | ⟨b, hm, ha⟩
  · have hs : (get? o h k).isSome = false := by simp [get?, hm]
    have e := set_fresh h k v hm
    refine ⟨?_, ?_, ?_, ?_, koPw', koLive', rep', ?_, ?_⟩
    · rw [e]; exact mcodes_mput_nodup _ _ _ I.codesNodup
    · rw [e]; exact buckets_mput (P := fun c b => ∀ e ∈ b, o.code e.1 = c) _ _ _ I.bucketCode (by simp)
    · rw [e]; exact buckets_mput (P := fun _ b => b.Pairwise (fun e f => o.keq e.1 f.1 = false)) _ _ _ I.bucketPw (List.pairwise_singleton _ _)
    · rw [e]; exact buckets_mput (P := fun _ b => b ≠ []) _ _ _ I.bucketNe (by simp)
    · rw [hnk, hs]; rw [e]; simp only [Bool.false_eq_true, if_false]
      rw [msum_mput _ _ _ I.codesNodup, hm, I.numKeys_eq]; simp [blen]
    · rw [hko, hs]; rw [e]; simp only [Bool.false_eq_true, if_false]
      rw [msum_mput _ _ _ I.codesNodup, hm, I.count]; simp [blen]
  · have hs : (get? o h k).isSome = true := by rw [← found_iff_get? h k b hm]; exact ha
    have e := set_found h k v b hm ha
    refine ⟨?_, ?_, ?_, ?_, koPw', koLive', rep', ?_, ?_⟩
    · rw [e]; exact mcodes_mput_nodup _ _ _ I.codesNodup
    · rw [e]; refine buckets_mput (P := fun c b => ∀ e ∈ b, o.code e.1 = c) _ _ _ I.bucketCode ?_
      intro e he
      obtain ⟨e0, he0, rfl⟩ := List.mem_map.1 he
      split
      · rfl
      · exact I.bucketCode _ _ hm e0 he0
    · rw [e]; refine buckets_mput (P := fun _ b => b.Pairwise (fun e f => o.keq e.1 f.1 = false)) _ _ _ I.bucketPw ?_
      rw [List.pairwise_map]
      refine (I.bucketPw _ _ hm).imp ?_
      intro e f hef
      by_cases h1 : o.keq e.1 k = true <;> by_cases h2 : o.keq f.1 k = true
      · have := L.trans _ _ _ h1 (L.symm _ _ h2); simp_all
      · simp only [h1, h2, if_true, Bool.false_eq_true, if_false]
        cases h3 : o.keq k f.1
        · rfl
        · have := L.symm _ _ h3; simp_all
      · have h1' : o.keq e.1 k = false := by simpa using h1
        simp only [h1', h2, if_true, Bool.false_eq_true, if_false]
      · simp only [h1, h2, Bool.false_eq_true, if_false]; exact hef
    · rw [e]; refine buckets_mput (P := fun _ b => b ≠ []) _ _ _ I.bucketNe ?_
      have := I.bucketNe _ _ hm
      simpa using this
    · rw [hnk, hs]; rw [e]; simp only [if_true]
      rw [msum_mput _ _ _ I.codesNodup, hm, I.numKeys_eq]; simp [blen]
    · rw [hko, hs]; rw [e]; simp only [if_true]
      rw [msum_mput _ _ _ I.codesNodup, hm, I.count]; simp [blen]
  · have hs : (get? o h k).isSome = false := by rw [← found_iff_get? h k b hm]; exact ha
    have e := set_new h k v b hm ha
    have hall : ∀ e ∈ b, o.keq e.1 k = false := by
      have := List.any_eq_false.1 ha
      intro e he; simpa using this e he
    refine ⟨?_, ?_, ?_, ?_, koPw', koLive', rep', ?_, ?_⟩
    · rw [e]; exact mcodes_mput_nodup _ _ _ I.codesNodup
    · rw [e]; refine buckets_mput (P := fun c b => ∀ e ∈ b, o.code e.1 = c) _ _ _ I.bucketCode ?_
      intro e he
      rcases List.mem_append.1 he with h1 | h1
      · exact I.bucketCode _ _ hm e h1
      · simp only [List.mem_singleton] at h1; subst h1; rfl
    · rw [e]; refine buckets_mput (P := fun _ b => b.Pairwise (fun e f => o.keq e.1 f.1 = false)) _ _ _ I.bucketPw ?_
      rw [List.pairwise_append]
      refine ⟨I.bucketPw _ _ hm, by simp, ?_⟩
      intro a ha' f hf
      simp only [List.mem_singleton] at hf; subst hf
      exact hall a ha'
    · rw [e]; exact buckets_mput (P := fun _ b => b ≠ []) _ _ _ I.bucketNe (by simp)
    · rw [hnk, hs]; rw [e]; simp only [Bool.false_eq_true, if_false]
      rw [msum_mput _ _ _ I.codesNodup, hm, I.numKeys_eq]; simp [blen]; omega
    · rw [hko, hs]; rw [e]; simp only [Bool.false_eq_true, if_false]
      rw [msum_mput _ _ _ I.codesNodup, hm, I.count]; simp [blen]; omega

theorem inv_del (L : KeyLaws o) (h : Hash K V) (k : K) (I : Inv o h) : Inv o (del o h k) := by
  cases hs : (get? o h k).isSome
  · -- nothing to delete: the state is untouched
    have : get? o h k = none := by cases hg : get? o h k <;> simp_all
    rw [del_missing h k this]; exact I
  · have hget := fun k' => get?_del L h k k' I.bucketPw
    have hko := del_keyOrder (o := o) h k
    have hnk := del_numKeys (o := o) h k
    rw [hs] at hko hnk
    simp only [if_true] at hko hnk
    have hnot := koRemove_keq_false L h.keyOrder k I.koPw
    have koPw' : (del o h k).keyOrder.Pairwise (fun a b => o.keq a b = false) := by
      rw [hko]; exact I.koPw.sublist (koRemove_sublist _ _)
    have koLive' : ∀ k' ∈ (del o h k).keyOrder, (get? o (del o h k) k').isSome = true := by
      intro k' hk'
      rw [hko] at hk'
      have h1 := hnot k' hk'
      rw [keq_comm L] at h1
      rw [hget, h1]
      exact I.koLive k' ((koRemove_sublist _ _).subset hk')
    have rep' : ∀ k', (get? o (del o h k) k').isSome = true →
        ∃ k0 ∈ (del o h k).keyOrder, o.keq k0 k' = true := by
      intro k' hk'
      rw [hget] at hk'
      cases hq : o.keq k k'
      · simp only [hq, Bool.false_eq_true, if_false] at hk'
        obtain ⟨k0, h0, hq0⟩ := I.rep k' hk'
        refine ⟨k0, ?_, hq0⟩
        rw [hko]
        apply mem_koRemove _ _ _ h0
        cases h2 : o.keq k0 k
        · rfl
        · have := L.trans _ _ _ (L.symm _ _ h2) hq0; simp_all
      · simp [hq] at hk'
    have hlen : (koRemove o h.keyOrder k).length + 1 = h.keyOrder.length :=
      koRemove_length _ _ (I.rep k hs)
    rcases del_cases (o := o) h k with hm | ⟨b, hm, hr⟩ | ⟨b, b', hm, hr⟩
    · simp [get?, hm] at hs
    · have := bremove_isSome_iff h k b hm; rw [hr, hs] at this; cases this
    · have e := del_found h k b b' hm hr
      have hbl := bremove_length b b' k hr
      have hsub := bremove_sublist b b' k hr
      by_cases he : b'.isEmpty = true
      · have e' : (del o h k).map = mdel h.map (o.code k) := by rw [e]; simp [he]
        have hb'0 : b'.length = 0 := by simpa using he
        refine ⟨?_, ?_, ?_, ?_, koPw', koLive', rep', ?_, ?_⟩
        · rw [e']; exact mcodes_mdel_nodup _ _ I.codesNodup
        · rw [e']; exact buckets_mdel (P := fun c b => ∀ e ∈ b, o.code e.1 = c) _ _ I.bucketCode
        · rw [e']; exact buckets_mdel (P := fun _ b => b.Pairwise (fun e f => o.keq e.1 f.1 = false)) _ _ I.bucketPw
        · rw [e']; exact buckets_mdel (P := fun _ b => b ≠ []) _ _ I.bucketNe
        · rw [hnk, e', msum_mdel _ _ I.codesNodup, hm, I.numKeys_eq]; simp only [blen]; omega
        · rw [hko, e', msum_mdel _ _ I.codesNodup, hm, I.count]; simp only [blen]; omega
      · have e' : (del o h k).map = mput h.map (o.code k) b' := by rw [e]; simp [he]
        refine ⟨?_, ?_, ?_, ?_, koPw', koLive', rep', ?_, ?_⟩
        · rw [e']; exact mcodes_mput_nodup _ _ _ I.codesNodup
        · rw [e']; exact buckets_mput (P := fun c b => ∀ e ∈ b, o.code e.1 = c) _ _ _ I.bucketCode
            (fun e he => I.bucketCode _ _ hm e (hsub.subset he))
        · rw [e']; exact buckets_mput (P := fun _ b => b.Pairwise (fun e f => o.keq e.1 f.1 = false)) _ _ _
            I.bucketPw ((I.bucketPw _ _ hm).sublist hsub)
        · rw [e']; exact buckets_mput (P := fun _ b => b ≠ []) _ _ _ I.bucketNe (by simpa using he)
        · rw [hnk, e', msum_mput _ _ _ I.codesNodup, hm, I.numKeys_eq]; simp only [blen]; omega
        · rw [hko, e', msum_mput _ _ _ I.codesNodup, hm, I.count]; simp only [blen]; omega

end ZygoVerif.Hash
