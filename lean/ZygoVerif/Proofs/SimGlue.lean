/-
C02, execution half — Stage C: the glue instructions the generator puts between the code of
sub-expressions (`pop`, `brn`/`jump` of `cond`, `dup; br; pop` of `and`/`or`, `dup` before a
`def`/`set`), executed from an arbitrary state that has just run the preceding sub-expression
(`Lands`). Unlike `Pushes` (Stage B) nothing is assumed about the rest of the state, so the
sub-expressions may have effects (on scopes).
-/
import ZygoVerif.Proofs.SimEnv
set_option linter.unusedSimpArgs false
namespace ZygoVerif.Sim
open ZygoVerif.Core ZygoVerif.VM

/-- `s'` is `s` moved `k` instructions forward in the same function, same data stack. -/
structure Moved (k : Nat) (s s' : St) : Prop where
  fn : fnOf s' s'.curfunc = fnOf s s.curfunc
  pc : s'.pc = s.pc + (k : Int)
  data : s'.data = s.data

theorem Moved.refl (s : St) : Moved 0 s s := ⟨rfl, by simp, rfl⟩

theorem Moved.lands {k m : Nat} {s s₁ s₂ : St} {w : Val} (h₁ : Moved k s s₁) (h₂ : Lands m w s₁ s₂) :
    Lands (k + m) w s s₂ :=
  ⟨h₂.fn.trans h₁.fn, by rw [h₂.pc, h₁.pc]; push_cast; omega, by rw [h₂.data, h₁.data]⟩

theorem Lands.jmp {n : Nat} {v : Val} {s s₁ : St} (h : Lands n v s s₁) (k : Nat) (p : Int)
    (hp : p = s₁.pc + ((k : Nat) : Int) - n) :
    Lands k v s (s₁.jmp p s₁.data) :=
  ⟨h.fn, by rw [St.jmp_pc, hp, h.pc]; omega, h.data⟩

/-- the segment that starts where a `Moved` state stands -/
theorem Seg.moved {s s' : St} {pre c post c₁ c₂ post' : List Instr} {k : Nat} (h : Seg s pre c post) (m : Moved k s s')
    (hc : c ++ post = c₁ ++ c₂ ++ post') (hk : c₁.length = k) : Seg s' (pre ++ c₁) c₂ post' :=
  h.move m.fn (by rw [List.append_assoc, hc]; simp) (by rw [m.pc, h.pc]; simp [hk])

/-- the instruction where a `Lands` state stands -/
theorem Seg.landed {s s' : St} {pre c post c₁ post' : List Instr} {i : Instr} {n : Nat} {v : Val}
    (h : Seg s pre c post) (l : Lands n v s s') (hc : c ++ post = c₁ ++ i :: post') (hk : c₁.length = n) :
    At s' (pre ++ c₁) i post' :=
  At.move h l.fn (by rw [List.append_assoc, hc]; simp) (by rw [l.pc, h.pc]; simp [hk])

/-- total size of the current function, seen from a `Lands`/`Moved` state -/
theorem Seg.total' {s s' : St} {pre c post} (h : Seg s pre c post) (hf : fnOf s' s'.curfunc = fnOf s s.curfunc) :
    curSize s' = ((pre.length + c.length + post.length : Nat) : Int) := by
  have := h.total
  unfold VM.curSize at this ⊢
  rw [hf]; exact this

/-! ## `begin`: the `pop` between statements -/

theorem glue_pop {s s₁ : St} {pre post a b : List Instr} {v : Val}
    (h : Seg s pre (a ++ [.pop] ++ b) post) (l : Lands a.length v s s₁) :
    Reach 1 1 s₁ (s₁.jmp (s₁.pc + 1) s.data) ∧ Moved (a.length + 1) s (s₁.jmp (s₁.pc + 1) s.data) :=
  ⟨reach_pop (h.landed l (c₁ := a) (i := Instr.pop) (post' := b ++ post) (by simp) rfl) l.data,
   ⟨l.fn, by rw [St.jmp_pc, l.pc]; push_cast; omega, rfl⟩⟩

/-! ## `cond` -/

theorem glue_brn_fall {s s₁ : St} {pre post p b rest : List Instr} {v : Val}
    (h : Seg s pre (p ++ [.branch false (b.length + 2)] ++ b ++ [.jump (rest.length + 1)] ++ rest) post)
    (l : Lands p.length v s s₁) (hv : truthy v = true) :
    Reach 1 1 s₁ (s₁.jmp (s₁.pc + 1) s.data) ∧ Moved (p.length + 1) s (s₁.jmp (s₁.pc + 1) s.data) :=
  ⟨reach_branch_fall (h.landed l (c₁ := p) (i := Instr.branch false (b.length + 2))
      (post' := b ++ [Instr.jump (rest.length + 1)] ++ rest ++ post) (by simp) rfl) l.data (by rw [hv]; decide),
   ⟨l.fn, by rw [St.jmp_pc, l.pc]; push_cast; omega, rfl⟩⟩

theorem glue_brn_taken {s s₁ : St} {pre post p b rest : List Instr} {v : Val}
    (h : Seg s pre (p ++ [.branch false (b.length + 2)] ++ b ++ [.jump (rest.length + 1)] ++ rest) post)
    (l : Lands p.length v s s₁) (hv : truthy v = false) :
    Reach 1 1 s₁ (s₁.jmp (s₁.pc + ((b.length : Int) + 2)) s.data)
    ∧ Moved (p.length + 1 + b.length + 1) s (s₁.jmp (s₁.pc + ((b.length : Int) + 2)) s.data) := by
  have a := h.landed l (c₁ := p) (i := Instr.branch false (b.length + 2))
    (post' := b ++ [Instr.jump (rest.length + 1)] ++ rest ++ post) (by simp) rfl
  refine ⟨reach_branch_taken a l.data (by rw [hv]) ?_ ?_, ⟨l.fn, ?_, rfl⟩⟩
  · rw [l.pc, h.pc]; omega
  · rw [l.pc, h.pc]; simp only [List.length_append, List.length_cons, List.length_nil]; omega
  · rw [St.jmp_pc, l.pc]; push_cast; omega

/-- the `jump` behind the body of the chosen arm lands behind the whole `cond` -/
theorem glue_cond_exit {s s₂ : St} {pre post p b rest : List Instr} {w : Val}
    (h : Seg s pre (p ++ [.branch false (b.length + 2)] ++ b ++ [.jump (rest.length + 1)] ++ rest) post)
    (l : Lands (p.length + 1 + b.length) w s s₂) :
    Reach 1 1 s₂ (s₂.jmp (s₂.pc + ((rest.length : Int) + 1)) s₂.data)
    ∧ Lands (p ++ [Instr.branch false (b.length + 2)] ++ b ++ [Instr.jump (rest.length + 1)] ++ rest).length w s
        (s₂.jmp (s₂.pc + ((rest.length : Int) + 1)) s₂.data) := by
  have a := h.landed l (c₁ := p ++ [Instr.branch false (b.length + 2)] ++ b) (i := Instr.jump (rest.length + 1))
    (post' := rest ++ post) (by simp) (by simp; omega)
  refine ⟨reach_jump a ?_ ?_, ⟨l.fn, ?_, l.data⟩⟩
  · rw [l.pc, h.pc]; omega
  · rw [l.pc, h.pc]; simp only [List.length_append, List.length_cons, List.length_nil]; omega
  · rw [St.jmp_pc, l.pc]; simp only [List.length_append, List.length_cons, List.length_nil]; push_cast; omega

/-! ## `and` / `or` -/

theorem glue_sc_stop {s s₁ : St} {pre post c rest : List Instr} {isOr : Bool} {v : Val}
    (h : Seg s pre (c ++ [.dup, .branch isOr (rest.length + 2), .pop] ++ rest) post)
    (l : Lands c.length v s s₁) (hv : truthy v = isOr) :
    Reach 2 1 s₁ (s₁.jmp (s₁.pc + 1 + ((rest.length : Int) + 2)) (some v :: s.data))
    ∧ Lands (c ++ [Instr.dup, Instr.branch isOr (rest.length + 2), Instr.pop] ++ rest).length v s
        (s₁.jmp (s₁.pc + 1 + ((rest.length : Int) + 2)) (some v :: s.data)) := by
  have a1 := h.landed l (c₁ := c) (i := Instr.dup)
    (post' := [Instr.branch isOr (rest.length + 2), Instr.pop] ++ rest ++ post) (by simp) rfl
  have r1 := reach_dup a1 l.data
  have a2 : At (s₁.jmp (s₁.pc + 1) (some v :: s₁.data)) (pre ++ c ++ [.dup]) (.branch isOr (rest.length + 2))
      ([.pop] ++ rest ++ post) :=
    At.move h l.fn (by simp) (by rw [St.jmp_pc, l.pc, h.pc]; simp; omega)
  have r2 := reach_branch_taken a2 (v := v) (rest := s₁.data) rfl hv.symm
    (by rw [St.jmp_pc, l.pc, h.pc]; omega)
    (by rw [St.jmp_pc, l.pc, h.pc]; simp only [List.length_append, List.length_cons, List.length_nil]; omega)
  refine ⟨((r1.trans r2).mono (by omega) (by simp)).cast ?_, ⟨l.fn, ?_, rfl⟩⟩
  · rw [St.jmp_jmp, St.jmp_pc, l.data]
  · rw [St.jmp_pc, l.pc]; simp only [List.length_append, List.length_cons, List.length_nil]; push_cast; omega

theorem glue_sc_go {s s₁ : St} {pre post c rest : List Instr} {isOr : Bool} {v : Val}
    (h : Seg s pre (c ++ [.dup, .branch isOr (rest.length + 2), .pop] ++ rest) post)
    (l : Lands c.length v s s₁) (hv : truthy v ≠ isOr) :
    Reach 3 1 s₁ (s₁.jmp (s₁.pc + 3) s.data) ∧ Moved (c.length + 3) s (s₁.jmp (s₁.pc + 3) s.data) := by
  have a1 := h.landed l (c₁ := c) (i := Instr.dup)
    (post' := [Instr.branch isOr (rest.length + 2), Instr.pop] ++ rest ++ post) (by simp) rfl
  have r1 := reach_dup a1 l.data
  have a2 : At (s₁.jmp (s₁.pc + 1) (some v :: s₁.data)) (pre ++ c ++ [.dup]) (.branch isOr (rest.length + 2))
      ([.pop] ++ rest ++ post) :=
    At.move h l.fn (by simp) (by rw [St.jmp_pc, l.pc, h.pc]; simp; omega)
  have r2 := reach_branch_fall a2 (v := v) (rest := s₁.data) rfl (fun e => hv e.symm)
  have a3 : At ((s₁.jmp (s₁.pc + 1) (some v :: s₁.data)).jmp ((s₁.jmp (s₁.pc + 1) (some v :: s₁.data)).pc + 1) s₁.data)
      (pre ++ c ++ [.dup, .branch isOr (rest.length + 2)]) .pop (rest ++ post) :=
    At.move h l.fn (by simp) (by simp only [St.jmp_pc, l.pc, h.pc]; simp; omega)
  have r3 := reach_pop a3 (v := v) (rest := s.data) (by rw [St.jmp_data, l.data])
  refine ⟨(((r1.trans r2).trans r3).mono (by omega) (by simp)).cast ?_, ⟨l.fn, ?_, rfl⟩⟩
  · simp only [St.jmp_jmp, St.jmp_pc]
    exact St.jmp_congr _ (by omega) rfl
  · rw [St.jmp_pc, l.pc]; push_cast; omega

/-! ## `def` / `set`: the `dup` before the store -/

theorem glue_dup {s s₁ : St} {pre post c : List Instr} {i : Instr} {v : Val}
    (h : Seg s pre (c ++ [.dup, i]) post) (l : Lands c.length v s s₁) :
    Reach 1 1 s₁ (s₁.jmp (s₁.pc + 1) (some v :: some v :: s.data))
    ∧ At (s₁.jmp (s₁.pc + 1) (some v :: some v :: s.data)) (pre ++ c ++ [.dup]) i post := by
  have a1 := h.landed l (c₁ := c) (i := Instr.dup) (post' := [i] ++ post) (by simp) rfl
  refine ⟨(reach_dup a1 l.data).cast (by rw [l.data]), ?_⟩
  exact At.move h l.fn (by simp) (by rw [St.jmp_pc, l.pc, h.pc]; simp; omega)

/-! ## `let` / `letseq` / `newScope`: the scope around the body -/

theorem glue_addScope {s : St} {pre post inner : List Instr}
    (h : Seg s pre ([.addScope] ++ inner ++ [.removeScope]) post) :
    Reach 1 1 s s.pushScope ∧ Moved 1 s s.pushScope :=
  ⟨Reach.step (i := .addScope) (post := inner ++ [.removeScope] ++ post) ⟨h.user, by rw [h.code]; simp, h.pc⟩
      (fun f => exec_addScope f s),
   ⟨rfl, rfl, rfl⟩⟩

theorem glue_removeScope {s s₃ : St} {pre post inner : List Instr} {v : Val} {a : Option Nat} {rest : List (Option Nat)}
    (h : Seg s pre ([.addScope] ++ inner ++ [.removeScope]) post) (l : Lands (1 + inner.length) v s s₃)
    (hlin : s₃.linear = a :: rest) :
    Reach 1 1 s₃ s₃.popScope ∧ Lands ([Instr.addScope] ++ inner ++ [Instr.removeScope]).length v s s₃.popScope := by
  have a3 : At s₃ (pre ++ [.addScope] ++ inner) .removeScope post :=
    At.move h l.fn (by simp) (by rw [l.pc, h.pc]; simp; omega)
  refine ⟨Reach.step a3 (fun f => ?_), ⟨l.fn, ?_, l.data⟩⟩
  · rw [exec_removeScope, hlin]
    show _ = (Except.ok (), { s₃ with pc := s₃.pc + 1, linear := s₃.linear.tail })
    rw [hlin]; rfl
  · show s₃.pc + 1 = _
    rw [l.pc]; simp only [List.length_append, List.length_cons, List.length_nil]; push_cast; omega

end ZygoVerif.Sim
