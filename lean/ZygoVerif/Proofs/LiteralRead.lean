/-
From "the spelling is one atom that `DecodeAtom` classifies as token `t`" to "the reader (lexer +
parser model, `readAll`) answers what the parser's conversion of `t` answers": the glue between
the cascade lemmas (Proofs/DecodeAtom, LexNumbers), the conversion lemmas (Proofs/LiteralValue)
and the reader as a whole (lazy = eager lexing, the top-level loop).
-/
import ZygoVerif.Proofs.ReadPrintMain
import ZygoVerif.Proofs.LiteralValue
import ZygoVerif.Model.EvalData
namespace ZygoVerif.ReadPrint
open ZygoVerif ZygoVerif.Lexer ZygoVerif.Parser ZygoVerif.PrintData ZygoVerif.EvalData

/-- a token whose conversion fails is a parse error of the top-level loop -/
theorem topLoop_fail (f : Nat) (c : LexCore) (t : Token) (ts : List Token)
    (hc : c.tokens = t :: ts) (hp : parseExprTok (f + 1) t = Prog.fail) :
    (runA (topLoop (f + 2)) (tv c [])).1 = .stop .err := by
  rw [topLoop_succ, runA_topGet_tok _ c [] t ts hc]
  simp only [hp]
  rfl

/-- **one token, whole reader**: a text that the lexer (from the fresh state, followed by the end of
input) turns into the single token `t` is read as what `ParseExpression`'s switch makes of `t`. -/
theorem read_one_token (text : List Char) (t : Token)
    (hlex : Lex ⟨.normal, [], [], '\x00'⟩ (text ++ ['\n']) ⟨.normal, [], [t], '\n'⟩) :
    (∀ e, (∀ f, parseExprTok (f + 1) t = Prog.pure e) → readAll text = some [e]) ∧
    ((∀ f, parseExprTok (f + 1) t = Prog.fail) → readAll text = none) := by
  obtain ⟨hst, hex⟩ := Props.C13.parseChunksFrom_eq_abstract LexState.init [text]
  obtain ⟨cf, hfeed, hcf⟩ := hlex LexCore.init ⟨rfl, rfl, rfl, ringOK_init, lastRune_init⟩
  have htoks : cf.tokens = [t] := hcf.tokens
  have hrunes : [text].flatten ++ eofPiece = text ++ ['\n'] := by simp [eofPiece]
  rw [hrunes] at hst hex
  have hahead := runA_ahead (topLoop (fuelFor [text])) ⟨LexCore.init, text ++ ['\n'], [], true⟩ ⟨cf, [], [], true⟩
    ⟨hfeed, rfl, rfl, rfl⟩
  have hfuel : fuelFor [text] = (4 * text.length + 14) + 2 := by simp [fuelFor]
  have hlit : inLiteral cf = false := by simp [inLiteral, hcf.state]
  constructor
  · intro e he
    have hcons : Consumes (parseExprTok (4 * text.length + 14 + 1) t) [] e := by
      rw [he]; exact consumes_pure e
    have hrun := topLoop_one (4 * text.length + 14) cf t [] e htoks hlit hcons
    rw [← hfuel] at hrun
    simp only [tv] at hrun
    rw [hrun] at hahead
    obtain ⟨h1, h2⟩ := hahead
    rw [h1] at hst
    rw [h2] at hex
    have hst' : (parseChunks [text]).status = .done := hst
    have hex' : (parseChunks [text]).exprs = [e] := hex
    simp [readAll, hst', hex']
  · intro he
    have hrun := topLoop_fail (4 * text.length + 14) cf t [] htoks (he _)
    rw [← hfuel] at hrun
    simp only [tv] at hrun
    rw [hrun] at hahead
    rw [hahead.1] at hst
    have hst' : (parseChunks [text]).status = .err := hst
    simp [readAll, hst']

/-- the literal tokens go through `atomOfTok` -/
def isLitTyp (t : TokType) : Bool :=
  t == .decimal || t == .hex || t == .oct || t == .binary || t == .uint64 || t == .float

theorem parseExprTok_lit (typ : TokType) (str : List Char) (h : isLitTyp typ = true) (f : Nat) :
    (∀ e, atomOfTok ⟨typ, str⟩ = some (some e) → parseExprTok (f + 1) ⟨typ, str⟩ = Prog.pure e) ∧
    (atomOfTok ⟨typ, str⟩ = some none → parseExprTok (f + 1) ⟨typ, str⟩ = Prog.fail) := by
  cases typ <;> simp [isLitTyp] at h <;>
    (constructor
     · intro e he; unfold parseExprTok; simp only [he]; rfl
     · intro he; unfold parseExprTok; simp only [he]; rfl)

/-- **one atom, whole reader**: a spelling that reaches the buffer as one pending atom and that
`DecodeAtom` classifies as the literal token `tok` is read as the conversion of `tok`: the number
when the conversion succeeds, a refusal when it fails. -/
theorem read_atom (text : List Char) (tok : Token) (hne : text ≠ []) (hdec : decodeAtom text = .ok tok)
    (hlex : Lex ⟨.normal, [], [], '\x00'⟩ text ⟨.normal, text, [], lastOf '\x00' text⟩)
    (htyp : isLitTyp tok.typ = true) :
    (∀ e, atomOfTok tok = some (some e) → readAll text = some [e]) ∧
    (atomOfTok tok = some none → readAll text = none) := by
  have h1 := lex_pending_then_delim text tok [] '\x00' '\n' hne hdec hlex (by decide)
  have h2 : Lex ⟨.normal, [], [], '\x00'⟩ (text ++ ['\n']) ⟨.normal, [], [tok], '\n'⟩ := by
    simpa [delimTok] using h1
  obtain ⟨r1, r2⟩ := read_one_token text tok h2
  obtain ⟨typ, str⟩ := tok
  exact ⟨fun e he => r1 e (fun f => (parseExprTok_lit typ str htyp f).1 e he),
         fun he => r2 (fun f => (parseExprTok_lit typ str htyp f).2 he)⟩

/-- a spelling made of runes the normal mode just collects -/
theorem read_plain_atom (text : List Char) (tok : Token) (hne : text ≠ []) (hdec : decodeAtom text = .ok tok)
    (hpl : ∀ c ∈ text, isSpecial c = false) (htyp : isLitTyp tok.typ = true) :
    (∀ e, atomOfTok tok = some (some e) → readAll text = some [e]) ∧
    (atomOfTok tok = some none → readAll text = none) := by
  have := lex_plain_run text hpl [] [] '\x00'
  exact read_atom text tok hne hdec (by simpa [lastOf] using this) htyp

end ZygoVerif.ReadPrint
