/-
Proofs/RunStep.lean — one instruction of the top activation, other than a call or `ret`:
executed successfully from a state that satisfies the run-time invariant (`WF`, `Running`), it
leaves a state that satisfies it (`exec_simple_ok`). The step of the stack-effect machine comes
from Proofs/VMRefine.lean; the side conditions of those lemmas (no mark is bound to a name, the
guard's target lies in the function, `break` lands at a non-negative pc, …) are discharged here
from the checker's annotation and the table invariant.
-/
import ZygoVerif.Proofs.RunInv
set_option linter.unusedSimpArgs false
set_option linter.unusedVariables false
namespace ZygoVerif.RunInv
open ZygoVerif.Core ZygoVerif.VM ZygoVerif.Bal ZygoVerif.Refine ZygoVerif.TailVM

/-! ## Lookups return stored values -/

def StoredIn (s : St) (v : Val) : Prop := ∃ sc ∈ s.scopes, ∃ p ∈ sc.vars, p.2 = v

theorem lookup_mem : ∀ (l : List (String × Val)) (x : String) (v : Val), l.lookup x = some v → ∃ p ∈ l, p.2 = v
  | [], _, _, h => by simp [List.lookup] at h
  | (y, w) :: l, x, v, h => by
    simp only [List.lookup] at h
    split at h
    · cases h; exact ⟨(y, w), by simp, rfl⟩
    · obtain ⟨p, hp, hv⟩ := lookup_mem l x v h
      exact ⟨p, by simp [hp], hv⟩

theorem scopeOf_stored {s : St} {id : Nat} {x : String} {v : Val} (h : (scopeOf s id).vars.lookup x = some v) :
    StoredIn s v := by
  unfold scopeOf at h
  rw [List.getD_eq_getElem?_getD] at h
  cases hs : s.scopes[id]? with
  | none => rw [hs] at h; simp [List.lookup] at h
  | some sc =>
    rw [hs] at h
    obtain ⟨p, hp, hv⟩ := lookup_mem _ _ _ h
    exact ⟨sc, List.mem_of_getElem? hs, p, hp, hv⟩

theorem lookupWhole_stored (s : St) (x : String) : ∀ (l : List (Option Nat)) (id : Nat) (v : Val),
    lookupWhole s x l = some (id, v) → StoredIn s v
  | [], _, _, h => by simp [lookupWhole] at h
  | none :: rest, id, v, h => by
    simp only [lookupWhole] at h
    exact lookupWhole_stored s x rest id v h
  | some i :: rest, id, v, h => by
    simp only [lookupWhole] at h
    split at h
    · rename_i w hw
      cases h
      exact scopeOf_stored hw
    · exact lookupWhole_stored s x rest id v h

theorem lookupUntilFn_stored (s : St) (x : String) (cc : Bool) : ∀ (l : List (Option Nat)) (id : Nat) (v : Val),
    lookupUntilFn s x cc l = some (id, v) → StoredIn s v
  | [], _, _, h => by simp [lookupUntilFn] at h
  | none :: rest, id, v, h => by
    simp only [lookupUntilFn] at h
    exact lookupUntilFn_stored s x cc rest id v h
  | some i :: rest, id, v, h => by
    simp only [lookupUntilFn] at h
    split at h
    · rename_i w hw
      cases h
      exact scopeOf_stored hw
    · split at h
      · split at h
        · split at h
          · exact lookupWhole_stored s x _ id v h
          · cases h
        · cases h
      · exact lookupUntilFn_stored s x cc rest id v h

theorem lookupChain_stored (s : St) (x : String) : ∀ (fuel cur id : Nat) (v : Val),
    lookupChain s x fuel cur = some (id, v) → StoredIn s v
  | 0, _, _, _, h => by simp [lookupChain] at h
  | fuel + 1, cur, id, v, h => by
    simp only [lookupChain] at h
    split at h
    · cases h
    · split at h
      · rename_i r hr
        cases h
        exact lookupUntilFn_stored s x false _ id v hr
      · exact lookupChain_stored s x fuel _ id v h

theorem lexLookup_stored {s : St} {x : String} {id : Nat} {v : Val} (h : lexLookup s x = some (id, v)) : StoredIn s v := by
  unfold lexLookup at h
  split at h
  · rename_i r hr
    cases h
    exact lookupUntilFn_stored s x false _ id v hr
  · dsimp only at h
    split at h
    · rename_i r hr
      cases h
      split at hr
      · exact lookupChain_stored s x _ _ id v hr
      · exact lookupUntilFn_stored s x false _ id v hr
    · exact lookupUntilFn_stored s x true _ id v h

theorem WF.stored {s : St} (h : WF s) {v : Val} (hv : StoredIn s v) : vok s.fns.length v = true := by
  obtain ⟨sc, hsc, p, hp, rfl⟩ := hv
  exact h.scopes sc hsc p hp

/-! ## What the annotation says about the instruction at the pc -/

theorem Running.fetchB {b : Base} {s : St} {top : Act} {rest : List Act} (h : Running b s top rest) {i : Instr}
    (hf : (fnOf s s.curfunc).code[s.pc.toNat]? = some i) :
    (fnB s top.f).code[(absC s).pc]? = some (toB s.loops i) := by
  rw [← h.cur]; exact Refine.fetchB hf

theorem Running.astep {b : Base} {s : St} {top : Act} {rest : List Act} (h : Running b s top rest) {i : Instr}
    (hf : (fnOf s s.curfunc).code[s.pc.toNat]? = some i) :
    ∃ a own succs, s.data.map cellOf = own ++ top.D ∧ Conc a.frames a.base own ∧ s.linear.length = top.S + a.k ∧
      astep (fnB s top.f) s.pc.toNat (toB s.loops i) a = .ok succs := by
  obtain ⟨a, own, hann, hd, hconc, hsc, _⟩ := h.inv
  obtain ⟨_, succs, hs, _⟩ := h.ok.step.step _ a _ hann (h.fetchB hf)
  exact ⟨a, own, succs, hd, hconc, hsc, hs⟩

/-- an instruction that pops `p` operands finds `p` ordinary values on top -/
theorem Running.top_vals {b : Base} {s : St} {top : Act} {rest : List Act} (h : Running b s top rest) {i : Instr}
    (hf : (fnOf s s.curfunc).code[s.pc.toNat]? = some i) {p m : Nat} (he : eff (toB s.loops i) = .simple p m) :
    ∃ tail, s.data.map cellOf = List.replicate p .val ++ tail := by
  obtain ⟨a, own, succs, hd, hconc, _, hs⟩ := h.astep hf
  simp only [Bal.astep, he] at hs
  split at hs
  · rename_i a' hp
    obtain ⟨_, tail, ht, _⟩ := popPush_sound a a' p m own hp hconc
    exact ⟨tail ++ top.D, by rw [hd, ht, List.append_assoc]⟩
  · cases hs

theorem Running.instrOK {b : Base} {s : St} {top : Act} {rest : List Act} (h : Running b s top rest) {i : Instr}
    (hf : (fnOf s s.curfunc).code[s.pc.toNat]? = some i) : instrOK (szS s) i = true := by
  have := h.ok.code
  rw [← h.cur] at this
  exact this i (List.mem_of_getElem? hf)

/-! ## Table invariant under the updates instructions make -/

/-- the table invariant of a state whose tables extend those of a state that has it -/
theorem WF.mk' {s s' : St} (h : WF s) (he : TExt s s')
    (hnew : ∀ id, s.fns.length ≤ id → id < s'.fns.length → FnGood s' id)
    (hls : s'.loopstack = [])
    (hsc : ∀ sc ∈ s'.scopes, ∀ p ∈ sc.vars, vok s'.fns.length p.2 = true)
    (hh : ∀ a ∈ s'.heap.arrs, ∀ v ∈ a, vok s'.fns.length v = true)
    (hlz : ∀ lz ∈ s'.lazies, okL lz.e = true ∧ ∀ v, lz.value = some v → vok s'.fns.length v = true)
    (hd : ∀ c ∈ s'.data, cellOK s'.fns.length c) : WF s' := by
  refine ⟨?_, Nat.le_trans h.two he.fns_len, hls, hsc, hh, hlz, hd⟩
  intro id h2 hlt
  rcases Nat.lt_or_ge id s.fns.length with hid | hid
  · exact (h.fns id h2 hid).ext he hid
  · exact hnew id hid hlt

theorem WF.setData {s : St} (h : WF s) (d : List (Option Val)) (pc : Int) (hd : ∀ c ∈ d, cellOK s.fns.length c) :
    WF { s with data := d, pc := pc } :=
  h.mk' (TExt.same rfl rfl) (fun id h1 h2 => absurd h2 (Nat.not_lt.mpr h1)) h.loopstack h.scopes h.heap h.lazies hd

theorem WF.setPc {s : St} (h : WF s) (pc : Int) : WF { s with pc := pc } :=
  h.mk' (TExt.same rfl rfl) (fun id h1 h2 => absurd h2 (Nat.not_lt.mpr h1)) h.loopstack h.scopes h.heap h.lazies h.data

theorem WF.data_tail {s : St} (h : WF s) {c : Option Val} {rest : List (Option Val)} (hd : s.data = c :: rest) :
    ∀ x ∈ rest, cellOK s.fns.length x := fun x hx => h.data x (by rw [hd]; exact List.mem_cons_of_mem _ hx)

theorem WF.data_head {s : St} (h : WF s) {c : Option Val} {rest : List (Option Val)} (hd : s.data = c :: rest) :
    cellOK s.fns.length c := h.data c (by rw [hd]; exact List.mem_cons_self)

theorem assocSet_mem (l : List (String × Val)) (x : String) (v : Val) : ∀ p ∈ assocSet l x v, p ∈ l ∨ p = (x, v) := by
  intro p hp
  unfold assocSet at hp
  split at hp
  · simp only [List.mem_map] at hp
    obtain ⟨q, hq, rfl⟩ := hp
    split
    · right; rfl
    · left; exact hq
  · simp only [List.mem_cons] at hp
    rcases hp with rfl | hp
    · right; rfl
    · left; exact hp

/-- binding a storable value in a scope -/
theorem WF.setScope {s : St} (h : WF s) (id : Nat) (x : String) (v : Val) (hv : vok s.fns.length v = true) (s' : St)
    (hf : s'.fns = s.fns) (hl : s'.loops = s.loops) (hls : s'.loopstack = s.loopstack)
    (hsc : s'.scopes = s.scopes.set id { scopeOf s id with vars := assocSet (scopeOf s id).vars x v })
    (hh : s'.heap = s.heap) (hlz : s'.lazies = s.lazies) (hd : s'.data = s.data) : WF s' := by
  refine h.mk' (TExt.same hf hl) (fun id h1 h2 => absurd h2 (by rw [hf]; exact Nat.not_lt.mpr h1))
    (by rw [hls]; exact h.loopstack) ?_ (by rw [hh, hf]; exact h.heap) (by rw [hlz, hf]; exact h.lazies)
    (by rw [hd, hf]; exact h.data)
  rw [hsc, hf]
  intro sc hsc' p hp
  rcases List.mem_or_eq_of_mem_set hsc' with hm | rfl
  · exact h.scopes sc hm p hp
  · simp only at hp
    rcases assocSet_mem _ x v p hp with hm | rfl
    · unfold scopeOf at hm
      rw [List.getD_eq_getElem?_getD] at hm
      cases hs : s.scopes[id]? with
      | none => rw [hs] at hm; simp at hm
      | some sc0 =>
        rw [hs] at hm
        exact h.scopes sc0 (List.mem_of_getElem? hs) p hm
    · exact hv

theorem WF.setInScope_run {s s' : St} (h : WF s) (id : Nat) (x : String) (v : Val) (hv : vok s.fns.length v = true)
    (hr : (setInScope id x v).run s = (.ok (), s')) :
    WF s' ∧ s'.fns = s.fns ∧ s'.loops = s.loops ∧ s'.suspended = s.suspended ∧ s'.curfunc = s.curfunc ∧
      s'.addr = s.addr ∧ s'.linear = s.linear ∧ s'.pc = s.pc ∧ s'.data = s.data := by
  vmsimp_at hr [setInScope]
  cases hr
  exact ⟨h.setScope id x v hv _ rfl rfl rfl rfl rfl rfl rfl, rfl, rfl, rfl, rfl, rfl, rfl, rfl, rfl⟩

theorem WF.bindTop_run {s s' : St} (h : WF s) (x : String) (v : Val) (hv : vok s.fns.length v = true)
    (hr : (bindTop x v).run s = (.ok (), s')) :
    WF s' ∧ s'.fns = s.fns ∧ s'.loops = s.loops ∧ s'.suspended = s.suspended ∧ s'.curfunc = s.curfunc ∧
      s'.addr = s.addr ∧ s'.linear = s.linear ∧ s'.pc = s.pc ∧ s'.data = s.data := by
  cases hl : s.linear with
  | nil => vmsimp_at hr [bindTop, hl]; cases hr
  | cons top rest =>
    cases top with
    | none => vmsimp_at hr [bindTop, hl]; cases hr
    | some top =>
      cases hx : (scopeOf s top).vars.lookup x with
      | none =>
        vmsimp_at hr [bindTop, setInScope, hl, hx]
        cases hr
        exact ⟨h.setScope top x v hv _ rfl rfl rfl rfl rfl rfl rfl, rfl, rfl, rfl, rfl, rfl, rfl, rfl, rfl⟩
      | some cur =>
        by_cases hrb : rebindOk s.heap cur v = true
        · vmsimp_at hr [bindTop, setInScope, hl, hx, hrb]
          cases hr
          exact ⟨h.setScope top x v hv _ rfl rfl rfl rfl rfl rfl rfl, rfl, rfl, rfl, rfl, rfl, rfl, rfl, rfl⟩
        · vmsimp_at hr [bindTop, setInScope, hl, hx, hrb]
          cases hr

/-! ## The result of a step -/

structure StepRes (b : Base) (s s' : St) (top : Act) (rest : List Act) : Prop where
  wf : WF s'
  ext : TExt s s'
  run : Running b s' top rest
  susp : s'.suspended = s.suspended

/-- from the step of the stack-effect machine and the shape of the new state -/
theorem finish_step {b : Base} {s s' : St} {top : Act} {rest : List Act} (hr : Running b s top rest)
    (hw' : WF s') (he : TExt s s') (hc : CStep (fnB s s.curfunc) (absC s) (absC s'))
    (hcur : s'.curfunc = s.curfunc) (haddr : s'.addr = s.addr) (hpc : 0 ≤ s'.pc)
    (hlin : s'.linear = s.linear ∨ (∃ x, s'.linear = x :: s.linear) ∨ (∃ k, s'.linear = s.linear.drop k))
    (hsusp : s'.suspended = s.suspended) : StepRes b s s' top rest := by
  rw [hr.cur] at hc
  have hinv' := inv_step_s _ _ hr.ok.step _ _ _ _ _ hr.inv hc
  have hdepth : b.linear.length ≤ s'.linear.length := by
    obtain ⟨a', _, _, _, _, hsc, _⟩ := hinv'
    have := Chain.depth _ _ _ _ hr.chain
    have hsc' : s'.linear.length = top.S + a'.k := hsc
    omega
  have hsuf : b.linear <:+ s'.linear := by
    rcases hlin with h | ⟨x, h⟩ | ⟨k, h⟩
    · rw [h]; exact hr.lin
    · rw [h]; exact List.IsSuffix.trans hr.lin (List.suffix_cons _ _)
    · rw [h] at hdepth ⊢
      exact suffix_of_drop k hr.lin hdepth
  exact ⟨hw', he, hr.step hc hcur haddr hpc he hsuf, hsusp⟩

/-- a step that changes the data stack and the pc only -/
theorem step_data {b : Base} {s s' : St} {top : Act} {rest : List Act} (hw : WF s) (hr : Running b s top rest)
    (hc : CStep (fnB s s.curfunc) (absC s) (absC s')) (d : List (Option Val)) (pc : Int)
    (hs' : s' = { s with data := d, pc := pc }) (hd : ∀ c ∈ d, cellOK s.fns.length c) (hpc : 0 ≤ pc) :
    StepRes b s s' top rest := by
  subst hs'
  exact finish_step hr (hw.setData d pc hd) (TExt.same rfl rfl) hc rfl rfl hpc (Or.inl rfl) rfl

theorem litVal_vok {n : Nat} {v : Val} (h : litVal v = true) : vok n v = true := by
  cases v <;> first | rfl | simp [litVal] at h

theorem vok_mkList {n : Nat} : ∀ (vs : List Val), (∀ v ∈ vs, vok n v = true) → vok n (mkList vs) = true
  | [], _ => rfl
  | v :: vs, h => by
    simp only [mkList, vok, Bool.and_eq_true]
    exact ⟨h v (by simp), vok_mkList vs (fun x hx => h x (by simp [hx]))⟩

theorem pc1 {s : St} (h : 0 ≤ s.pc) : 0 ≤ s.pc + 1 := by omega

/-- the cells of `d` that the checker sees as values, read as values, are storable -/
theorem vals_vok {n : Nat} : ∀ (d : List (Option Val)) (vs : List Val), d.mapM id = some vs →
    (∀ c ∈ d, cellOK n c) → (∀ c ∈ d.map cellOf, c = Cell.val) → ∀ v ∈ vs, vok n v = true
  | [], vs, h, _, _ => by simp at h; subst h; intro v hv; cases hv
  | c :: d, vs, h, hc, hv => by
    cases c with
    | none => simp [List.mapM_cons] at h
    | some w =>
      simp only [List.mapM_cons, id, Option.bind_eq_bind, Option.bind_some] at h
      cases hm : d.mapM id with
      | none => rw [hm] at h; simp at h
      | some ws =>
        rw [hm] at h
        simp only [Option.bind_some, Option.pure_def, Option.some.injEq] at h
        subst h
        intro v hvm
        rcases List.mem_cons.mp hvm with rfl | hvm
        · exact vok_of_cell (hc _ (by simp)) (hv _ (by simp))
        · exact vals_vok d ws hm (fun x hx => hc x (by simp [hx])) (fun x hx => hv x (by simp [hx])) v hvm


/-- the table invariant when function objects are appended and stored values stay or are storable -/
theorem WF.grow {s s' : St} (h : WF s) (he : TExt s s')
    (hnew : ∀ id, s.fns.length ≤ id → id < s'.fns.length → FnGood s' id)
    (hls : s'.loopstack = s.loopstack) (hsc : s'.scopes = s.scopes) (hh : s'.heap = s.heap)
    (hlz : ∀ lz ∈ s'.lazies, lz ∈ s.lazies ∨ (okL lz.e = true ∧ ∀ v, lz.value = some v → vok s'.fns.length v = true))
    (hd : ∀ c ∈ s'.data, c ∈ s.data ∨ cellOK s'.fns.length c) : WF s' := by
  have hle := he.fns_len
  refine h.mk' he hnew (by rw [hls]; exact h.loopstack) ?_ ?_ ?_ ?_
  · rw [hsc]; intro sc hsc' p hp; exact vok_mono hle _ (h.scopes sc hsc' p hp)
  · rw [hh]; intro a ha v hv; exact vok_mono hle _ (h.heap a ha v hv)
  · intro lz hlzm
    rcases hlz lz hlzm with hm | hn
    · exact ⟨(h.lazies lz hm).1, fun v hv => vok_mono hle _ ((h.lazies lz hm).2 v hv)⟩
    · exact hn
  · intro c hcm
    rcases hd c hcm with hm | hn
    · exact cellOK_mono hle c (h.data c hm)
    · exact hn

/-- a closure is a copy of its template -/
theorem fnGood_copy {s s' : St} {t id : Nat} (hg : FnGood s t) (hl : s'.loops = s.loops) (hsz : (szS s).le (szS s'))
    {cl : List (Option Nat)} {pr : Option Nat}
    (hfo : fnOf s' id = ({ fnOf s t with closing := cl, parent := pr } : FnObj)) : FnGood s' id := by
  refine ⟨by rw [hfo]; exact hg.user, by rw [hfo]; exact hg.sig, by rw [hfo]; exact hg.code.mono hsz, ?_⟩
  obtain ⟨ann, hv⟩ := hg.verified
  refine ⟨ann, ?_⟩
  have : fnB s' id = fnB s t := by simp only [fnB, hfo, hl]
  rw [this]; exact hv

/-- `prepareCall` of a variadic function finds the surplus operands, ordinary values, on top -/
theorem Running.top_vals_prep {b : Base} {s : St} {top : Act} {rest : List Act} (h : Running b s top rest) {x : String} {k : Nat}
    (hf : (fnOf s s.curfunc).code[s.pc.toNat]? = some (.prepareCall x k)) (hv : (fnOf s s.curfunc).varargs = true) :
    ∃ tail, s.data.map cellOf = List.replicate (k - (fnOf s s.curfunc).nargs) .val ++ tail := by
  obtain ⟨a, own, succs, hd, hconc, _, hs⟩ := h.astep hf
  have hva : (fnB s top.f).varargs = true := by rw [← h.cur]; exact hv
  have hnf : (fnB s top.f).nfixed = (fnOf s s.curfunc).nargs := by rw [← h.cur]; rfl
  simp only [Bal.astep, toB, eff, hva, if_true] at hs
  split at hs
  · split at hs
    · rename_i a' hp
      obtain ⟨_, tail, ht, _⟩ := popPush_sound a a' _ 1 own hp hconc
      refine ⟨tail ++ top.D, ?_⟩
      rw [hd, ht, hnf, List.append_assoc]
    · cases hs
  · cases hs

/-- `break`/`continue` land at a non-negative pc -/
theorem Running.exit_pc {b : Base} {s : St} {top : Act} {rest : List Act} (h : Running b s top rest) {i : Instr}
    (hf : (fnOf s s.curfunc).code[s.pc.toNat]? = some i) {l : Nat} {off : Int} {k pos : Nat}
    (he : eff (toB s.loops i) = .exitLoop l off k) (hp : findLoopStart (fnOf s s.curfunc).code l = some pos) :
    0 ≤ (pos : Int) + off := by
  obtain ⟨a, own, succs, _, _, _, hs⟩ := h.astep hf
  have hlp : loopPos (fnB s top.f).code l = some pos := by
    rw [← h.cur]; show loopPos (B s.loops (fnOf s s.curfunc).code) l = _
    rw [loopPos_B]; exact hp
  simp only [Bal.astep, he, hlp] at hs
  split at hs
  · split at hs
    · split at hs
      · rename_i t ht
        have := target_bound ht
        omega
      · cases hs
    · cases hs
  · cases hs

/-- the instructions that enter or leave an activation -/
def isCall : Instr → Bool
  | .callArr _ => true
  | .callExpr _ _ => true
  | .ret => true
  | _ => false

/-- **One instruction other than a call or `ret`.** -/
theorem exec_simple_ok (n : Nat) (b : Base) (s s' : St) (top : Act) (rest : List Act) (i : Instr)
    (hw : WF s) (hr : Running b s top rest) (hf : (fnOf s s.curfunc).code[s.pc.toNat]? = some i)
    (hs : isCall i = false)
    (hex : (exec (n + 1) i).run s = (.ok (), s')) : StepRes b s s' top rest := by
  have hio := hr.instrOK hf
  have hpc := hr.pc
  cases i with
  | callArr k => cases hs
  | callExpr c a => cases hs
  | ret => cases hs
  | label =>
    have hc := refines_label n s s' hpc hf hex
    simp only [exec] at hex; vmsimp_at hex; cases hex
    exact step_data hw hr hc s.data (s.pc + 1) rfl hw.data (pc1 hpc)
  | loopStart l =>
    have hc := refines_loopStart l n s s' hpc hf hex
    simp only [exec] at hex; vmsimp_at hex; cases hex
    exact step_data hw hr hc s.data (s.pc + 1) rfl hw.data (pc1 hpc)
  | push v =>
    simp only [instrOK] at hio
    have hc := refines_push v (vok_plain (litVal_vok (n := 0) hio)) n s s' hpc hf hex
    simp only [exec] at hex; vmsimp_at hex; cases hex
    refine step_data hw hr hc (some v :: s.data) (s.pc + 1) rfl ?_ (pc1 hpc)
    intro c hcm
    rcases List.mem_cons.mp hcm with rfl | hcm
    · exact cellOK_of_vok (litVal_vok hio)
    · exact hw.data c hcm
  | pushMark l =>
    have hc := refines_pushMark l n s s' hpc hf hex
    simp only [exec] at hex; vmsimp_at hex; cases hex
    refine step_data hw hr hc (some (.mark l) :: s.data) (s.pc + 1) rfl ?_ (pc1 hpc)
    intro c hcm
    rcases List.mem_cons.mp hcm with rfl | hcm
    · trivial
    · exact hw.data c hcm
  | pop =>
    have hc := refines_pop n s s' hpc hf hex
    simp only [exec] at hex
    cases hd : s.data with
    | nil =>
      vmsimp_at hex [hd]; cases hex
      exact step_data hw hr hc s.data (s.pc + 1) (by simp [hd]) hw.data (pc1 hpc)
    | cons v rest =>
      cases v with
      | none => vmsimp_at hex [hd]; cases hex
      | some v =>
        vmsimp_at hex [hd]; cases hex
        exact step_data hw hr hc rest (s.pc + 1) rfl (hw.data_tail hd) (pc1 hpc)
  | dup =>
    have hc := refines_dup n s s' hpc hf hex
    simp only [exec] at hex
    cases hd : s.data with
    | nil => vmsimp_at hex [hd]; cases hex
    | cons v rest =>
      cases v with
      | none => vmsimp_at hex [hd]; cases hex
      | some v =>
        vmsimp_at hex [hd]; cases hex
        refine step_data hw hr hc (some v :: s.data) (s.pc + 1) (by rw [hd]) ?_ (pc1 hpc)
        intro c hcm
        rcases List.mem_cons.mp hcm with rfl | hcm
        · exact hw.data_head hd
        · exact hw.data c hcm
  | envToStack x =>
    have hplain : ∀ id v, lexLookup s x = some (id, v) → plain v = true :=
      fun id v h => vok_plain (hw.stored (lexLookup_stored h))
    have hc := refines_envToStack x n s s' hpc hf hplain hex
    simp only [exec] at hex
    cases hl : lexLookup s x with
    | none => vmsimp_at hex [hl]; cases hex
    | some r =>
      obtain ⟨id, v⟩ := r
      vmsimp_at hex [hl]; cases hex
      refine step_data hw hr hc (some v :: s.data) (s.pc + 1) rfl ?_ (pc1 hpc)
      intro c hcm
      rcases List.mem_cons.mp hcm with rfl | hcm
      · exact cellOK_of_vok (hw.stored (lexLookup_stored hl))
      · exact hw.data c hcm
  | jump off =>
    have hc := refines_jump off n s s' hpc hf hex
    simp only [exec] at hex
    by_cases hb : s.pc + off < 0 ∨ s.pc + off > curSize s
    · vmsimp_at hex [hb]; cases hex
    · vmsimp_at hex [hb]; cases hex
      exact step_data hw hr hc s.data (s.pc + off) rfl hw.data (by omega)
  | goto loc =>
    have hc := refines_goto loc n s s' hpc hf hex
    simp only [exec] at hex
    by_cases hb : (loc : Int) < 0 ∨ (loc : Int) > curSize s
    · vmsimp_at hex [hb]; cases hex
    · vmsimp_at hex [hb]; cases hex
      exact step_data hw hr hc s.data (loc : Int) rfl hw.data (by omega)
  | branch dir off =>
    have hc := refines_branch dir off n s s' hpc hf hex
    simp only [exec] at hex
    cases hd : s.data with
    | nil => vmsimp_at hex [hd]; cases hex
    | cons v rest =>
      cases v with
      | none => vmsimp_at hex [hd]; cases hex
      | some v =>
        by_cases hdir : dir = truthy v
        · by_cases hb : s.pc + off < 0 ∨ s.pc + off > curSize s
          · vmsimp_at hex [hd, hdir, hb, curSize, fnOf]
            simp [curSize, fnOf] at hb
            rcases hb with hb | hb <;> (simp [hb, StateT.pure] at hex; exact absurd hex (by intro h; cases h))
          · have hb' : ¬ (s.pc + off < 0 ∨ curSize { s with data := rest } < s.pc + off) := by
              simpa [curSize, fnOf] using hb
            vmsimp_at hex [hd, hdir, hb']; cases hex
            exact step_data hw hr hc rest (s.pc + off) rfl (hw.data_tail hd) (by omega)
        · vmsimp_at hex [hd, hdir]; cases hex
          exact step_data hw hr hc rest (s.pc + 1) rfl (hw.data_tail hd) (pc1 hpc)
  | tailGuard x skip =>
    have hin : s.pc.toNat + skip ≤ (fnOf s s.curfunc).code.length := by
      obtain ⟨a, own, succs, _, _, _, hs⟩ := hr.astep hf
      simp only [Bal.astep, toB, eff] at hs
      split at hs
      · rename_i t ht
        have := target_bound ht
        have hlen : (fnB s top.f).code.length = (fnOf s s.curfunc).code.length := by
          rw [hr.cur]; show (B s.loops (fnOf s top.f).code).length = _; rw [B_length]
        unfold target at ht
        simp only at ht
        split at ht
        · rename_i hb
          rw [hlen] at hb
          omega
        · cases ht
      · cases hs
    have hc := refines_tailGuard x skip n s s' hpc hf hin hex
    simp only [exec] at hex
    have hres : s' = { s with pc := s.pc + 1 } ∨ s' = { s with pc := s.pc + skip } := by
      cases hl : lexLookup s x with
      | none => vmsimp_at hex [hl]; cases hex; exact Or.inr rfl
      | some r =>
        obtain ⟨id, v⟩ := r
        cases v <;> try (vmsimp_at hex [hl]; cases hex; exact Or.inr rfl)
        rename_i f
        by_cases hfe : f = s.curfunc
        · vmsimp_at hex [hl, hfe]; cases hex; exact Or.inl rfl
        · vmsimp_at hex [hl, hfe]; cases hex; exact Or.inr rfl
    rcases hres with rfl | rfl
    · exact step_data hw hr hc s.data (s.pc + 1) rfl hw.data (pc1 hpc)
    · exact step_data hw hr hc s.data (s.pc + skip) rfl hw.data (by omega)
  | popUntilMark l =>
    have hc := refines_popUntilMark l n s s' hpc hf hex
    simp only [exec] at hex
    have hrun : (popToMark l true (s.data.length + 1)).run { s with pc := s.pc + 1 } = (.ok (), s') := by
      vmsimp_at hex; vmsimp; exact hex
    obtain ⟨above, below, h1, _, h3⟩ := popToMark_ok l true _ _ s' hrun
    simp only at h1
    refine step_data hw hr hc (some (.mark l) :: below) (s.pc + 1) (by rw [h3]; rfl) ?_ (pc1 hpc)
    intro c hcm
    rcases List.mem_cons.mp hcm with rfl | hcm
    · trivial
    · exact hw.data c (by rw [h1]; simp [hcm])
  | clearMark l =>
    have hc := refines_clearMark l n s s' hpc hf hex
    simp only [exec] at hex
    rw [run_get_bind, run_then_incPc] at hex
    cases hrun : (popToMark l false (s.data.length + 1)).run s with
    | mk r s1 =>
      rw [hrun] at hex
      cases r with
      | error e => cases hex
      | ok u =>
        cases hex
        obtain ⟨above, below, h1, _, h3⟩ := popToMark_ok l false _ _ s1 hrun
        refine step_data hw hr hc below (s.pc + 1) (by rw [h3]; rfl) ?_ (pc1 hpc)
        intro c hcm
        exact hw.data c (by rw [h1]; simp [hcm])
  | addScope =>
    have hc := refines_addScope n s s' hpc hf hex
    simp only [exec] at hex; vmsimp_at hex; cases hex
    refine finish_step hr ?_ (TExt.same rfl rfl) hc rfl rfl (pc1 hpc) (Or.inr (Or.inl ⟨_, rfl⟩)) rfl
    refine hw.mk' (TExt.same rfl rfl) (fun id h1 h2 => absurd h2 (Nat.not_lt.mpr h1)) hw.loopstack ?_ hw.heap hw.lazies hw.data
    intro sc hsc p hp
    rcases List.mem_append.mp hsc with hm | hm
    · exact hw.scopes sc hm p hp
    · simp at hm; subst hm; cases hp
  | addFuncScope t =>
    have hc := refines_addFuncScope t n s s' hpc hf hex
    simp only [exec] at hex; vmsimp_at hex; cases hex
    refine finish_step hr ?_ (TExt.same rfl rfl) hc rfl rfl (pc1 hpc) (Or.inr (Or.inl ⟨_, rfl⟩)) rfl
    refine hw.mk' (TExt.same rfl rfl) (fun id h1 h2 => absurd h2 (Nat.not_lt.mpr h1)) hw.loopstack ?_ hw.heap hw.lazies hw.data
    intro sc hsc p hp
    rcases List.mem_append.mp hsc with hm | hm
    · exact hw.scopes sc hm p hp
    · simp at hm; subst hm; cases hp
  | removeScope =>
    have hc := refines_removeScope n s s' hpc hf hex
    simp only [exec] at hex
    cases hl : s.linear with
    | nil => vmsimp_at hex [hl]; cases hex
    | cons t rest' =>
      vmsimp_at hex [hl]; cases hex
      refine finish_step hr ?_ (TExt.same rfl rfl) hc rfl rfl (pc1 hpc) (Or.inr (Or.inr ⟨1, by simp [hl]⟩)) rfl
      exact hw.mk' (TExt.same rfl rfl) (fun id h1 h2 => absurd h2 (Nat.not_lt.mpr h1)) hw.loopstack hw.scopes hw.heap hw.lazies hw.data
  | createClosure t =>
    have hc := refines_createClosure t n s s' hpc hf hex
    simp only [exec] at hex; vmsimp_at hex; cases hex
    have hio' := of_decide_eq_true hio
    have hg := hw.fns t hio'.1 hio'.2
    refine finish_step hr ?_ ⟨⟨_, rfl⟩, ⟨[], by simp⟩⟩ hc rfl rfl (pc1 hpc) (Or.inl rfl) rfl
    refine hw.grow ⟨⟨_, rfl⟩, ⟨[], by simp⟩⟩ ?_ rfl rfl rfl (fun lz h => Or.inl h) ?_
    · intro id h1 h2
      simp only [List.length_append, List.length_cons, List.length_nil] at h2
      have hid : id = s.fns.length := by omega
      subst hid
      refine fnGood_copy hg rfl ⟨Nat.le_refl _, by simp [szS]⟩ (cl := closingNow { s with pc := s.pc + 1 }) (pr := some s.curfunc) ?_
      show (s.fns ++ [_]).getD s.fns.length {} = _
      rw [List.getD_eq_getElem?_getD, List.getElem?_append_right (Nat.le_refl _), Nat.sub_self]
      rfl
    · intro c hcm
      rcases List.mem_cons.mp hcm with rfl | hcm
      · right
        show vok _ (Val.fn s.fns.length) = true
        simp only [vok, decide_eq_true_eq, List.length_append, List.length_cons, List.length_nil]
        have := hw.two
        omega
      · left; exact hcm
  | pushLazy e =>
    have hc := refines_pushLazy e n s s' hpc hf hex
    simp only [exec] at hex; vmsimp_at hex; cases hex
    simp only [instrOK] at hio
    refine finish_step hr ?_ (TExt.same rfl rfl) hc rfl rfl (pc1 hpc) (Or.inl rfl) rfl
    refine hw.grow (TExt.same rfl rfl) (fun id h1 h2 => absurd h2 (Nat.not_lt.mpr h1)) rfl rfl rfl ?_ ?_
    · intro lz hlz
      rcases List.mem_append.mp hlz with hm | hm
      · left; exact hm
      · right
        simp at hm; subst hm
        exact ⟨hio, fun v hv => by cases hv⟩
    · intro c hcm
      rcases List.mem_cons.mp hcm with rfl | hcm
      · right; trivial
      · left; exact hcm
  | popStackPutEnv x =>
    have hc := refines_popStackPutEnv x n s s' hpc hf hex
    obtain ⟨tail, htv⟩ := hr.top_vals hf (p := 1) (m := 0) rfl
    simp only [exec] at hex
    cases hd : s.data with
    | nil => vmsimp_at hex [hd]; cases hex
    | cons v rest' =>
      cases v with
      | none => vmsimp_at hex [hd]; cases hex
      | some v =>
        have hb : (bindTop x v).run { s with data := rest', pc := s.pc + 1 } = (.ok (), s') := by
          vmsimp_at hex [hd]; vmsimp; exact hex
        have hv : vok s.fns.length v = true := by
          rw [hd] at htv
          simp only [List.map_cons, List.replicate_one, List.cons_append, List.nil_append, List.cons.injEq] at htv
          exact vok_of_cell (hw.data_head hd) htv.1
        obtain ⟨hw', h1, h2, h3, h4, h5, h6, h7, h8⟩ :=
          (hw.setData rest' (s.pc + 1) (hw.data_tail hd)).bindTop_run x v hv hb
        exact finish_step hr hw' (TExt.same h1 h2) hc h4 h5 (by rw [h7]; exact pc1 hpc) (Or.inl h6) h3
  | update x =>
    have hc := refines_update x n s s' hpc hf hex
    obtain ⟨tail, htv⟩ := hr.top_vals hf (p := 1) (m := 0) rfl
    simp only [exec] at hex
    cases hd : s.data with
    | nil => vmsimp_at hex [hd]; cases hex
    | cons v rest' =>
      cases v with
      | none => vmsimp_at hex [hd]; cases hex
      | some v =>
        have hb : (do let t ← get
                      match lexLookup t x with
                      | some (id, _) => setInScope id x v
                      | none => bindTop x v : M Unit).run { s with data := rest', pc := s.pc + 1 } = (.ok (), s') := by
          vmsimp_at hex [hd]; vmsimp; exact hex
        rw [run_get_bind] at hb
        have hv : vok s.fns.length v = true := by
          rw [hd] at htv
          simp only [List.map_cons, List.replicate_one, List.cons_append, List.nil_append, List.cons.injEq] at htv
          exact vok_of_cell (hw.data_head hd) htv.1
        have hw1 := hw.setData rest' (s.pc + 1) (hw.data_tail hd)
        have hall : WF s' ∧ s'.fns = s.fns ∧ s'.loops = s.loops ∧ s'.suspended = s.suspended ∧ s'.curfunc = s.curfunc ∧
            s'.addr = s.addr ∧ s'.linear = s.linear ∧ s'.pc = s.pc + 1 ∧ s'.data = rest' := by
          cases hl : lexLookup { s with data := rest', pc := s.pc + 1 } x with
          | none => rw [hl] at hb; exact hw1.bindTop_run x v hv hb
          | some r =>
            obtain ⟨id, w⟩ := r
            rw [hl] at hb
            exact hw1.setInScope_run id x v hv hb
        obtain ⟨hw', h1, h2, h3, h4, h5, h6, h7, h8⟩ := hall
        exact finish_step hr hw' (TExt.same h1 h2) hc h4 h5 (by rw [h7]; exact pc1 hpc) (Or.inl h6) h3
  | assign =>
    have hc := refines_assign n s s' hpc hf hex
    simp only [exec] at hex
    cases hd : s.data with
    | nil => vmsimp_at hex [hd]; cases hex
    | cons r rest1 =>
      cases r with
      | none => vmsimp_at hex [hd]; cases hex
      | some r =>
        cases rest1 with
        | nil => vmsimp_at hex [hd]; cases hex
        | cons l rest' =>
          cases l with
          | none => vmsimp_at hex [hd]; cases hex
          | some l =>
            have hb : (do let t ← get
                          match l, r with
                          | .arr a, .arr b => if (t.heap.get a).isEmpty ∧ (t.heap.get b).isEmpty then pushData r else err
                          | _, _ => err : M Unit).run { s with data := rest', pc := s.pc + 1 } = (.ok (), s') := by
              vmsimp_at hex [hd]; vmsimp; exact hex
            rw [run_get_bind] at hb
            have hres : (∃ b, r = .arr b) ∧ s' = { s with data := some r :: rest', pc := s.pc + 1 } := by
              split at hb
              · rename_i a b
                split at hb
                · vmsimp_at hb; cases hb; exact ⟨⟨_, rfl⟩, rfl⟩
                · vmsimp_at hb; cases hb
              · vmsimp_at hb; cases hb
            obtain ⟨⟨bb, rfl⟩, rfl⟩ := hres
            refine step_data hw hr hc _ (s.pc + 1) rfl ?_ (pc1 hpc)
            intro c hcm
            rcases List.mem_cons.mp hcm with rfl | hcm
            · exact cellOK_of_vok rfl
            · exact hw.data c (by rw [hd]; simp [hcm])
  | prepareCall x k =>
    have hu : (fnOf s s.curfunc).user = false := by rw [hr.cur]; exact hr.ok.user
    have hc := refines_prepareCall x k n s s' hpc hf hu hex
    simp only [exec] at hex
    cases hv : (fnOf s s.curfunc).varargs with
    | false =>
      vmsimp_at hex [hu, hv]; cases hex
      exact step_data hw hr hc s.data (s.pc + 1) rfl hw.data (pc1 hpc)
    | true =>
      obtain ⟨tail, htv⟩ := hr.top_vals_prep hf hv
      by_cases h1 : k < (fnOf s s.curfunc).nargs
      · vmsimp_at hex [hu, hv, wrangleOptargs, h1]; cases hex
      · by_cases h2 : (fnOf s s.curfunc).nargs < k
        · by_cases h3 : s.data.length < k - (fnOf s s.curfunc).nargs
          · vmsimp_at hex [hu, hv, wrangleOptargs, popN, h1, h2, h3]; cases hex
          · cases hm : (s.data.take (k - (fnOf s s.curfunc).nargs)).mapM id with
            | none => vmsimp_at hex [hu, hv, wrangleOptargs, popN, h1, h2, h3, hm]; cases hex
            | some vs =>
              vmsimp_at hex [hu, hv, wrangleOptargs, popN, h1, h2, h3, hm]; cases hex
              refine step_data hw hr hc _ (s.pc + 1) rfl ?_ (pc1 hpc)
              have hvs : ∀ v ∈ vs, vok s.fns.length v = true := by
                apply vals_vok _ vs hm (fun c hcm => hw.data c (List.mem_of_mem_take hcm))
                intro c hcm
                have : (s.data.take (k - (fnOf s s.curfunc).nargs)).map cellOf
                    = List.replicate (k - (fnOf s s.curfunc).nargs) Cell.val := by
                  rw [List.map_take, htv, List.take_left' (by simp)]
                rw [this] at hcm
                exact List.eq_of_mem_replicate hcm
              intro c hcm
              rcases List.mem_cons.mp hcm with rfl | hcm
              · exact cellOK_of_vok (vok_mkList _ (fun v hv' => hvs v (List.mem_reverse.mp hv')))
              · exact hw.data c (List.mem_of_mem_drop hcm)
        · vmsimp_at hex [hu, hv, wrangleOptargs, h1, h2]; cases hex
          refine step_data hw hr hc (some Val.nil :: s.data) (s.pc + 1) rfl ?_ (pc1 hpc)
          intro c hcm
          rcases List.mem_cons.mp hcm with rfl | hcm
          · exact cellOK_of_vok rfl
          · exact hw.data c hcm
  | brk l k =>
    simp only [exec] at hex
    have hex0 : (exec (n + 1) (.brk l k)).run s = (.ok (), s') := by simp only [exec]; exact hex
    rw [run_get_bind] at hex
    cases hfl : findLoopStart (fnOf s s.curfunc).code l with
    | none => rw [hfl] at hex; vmsimp_at hex; cases hex
    | some pos =>
      rw [hfl] at hex
      have hnn := hr.exit_pc hf (l := l) (off := (s.loops.getD l {}).breakOff) (k := k) rfl hfl
      cases hrun : (popScopes k).run s with
      | mk r s1 =>
        cases r with
        | error e =>
          vmsimp_at hex
          rw [show popScopes k s = (Except.error e, s1) from hrun] at hex
          cases hex
        | ok u =>
          vmsimp_at hex
          rw [show popScopes k s = (Except.ok u, s1) from hrun] at hex
          cases hex
          obtain ⟨h1, h2⟩ := popScopes_ok k s s1 hrun
          subst h2
          have hc := refines_brk l k n s _ hpc hf hex0 (by simpa using hnn)
          refine finish_step hr ?_ (TExt.same rfl rfl) hc rfl rfl (by simpa using hnn) (Or.inr (Or.inr ⟨k, rfl⟩)) rfl
          exact hw.mk' (TExt.same rfl rfl) (fun id h1 h2 => absurd h2 (Nat.not_lt.mpr h1)) hw.loopstack hw.scopes hw.heap hw.lazies hw.data
  | cont l k =>
    simp only [exec] at hex
    have hex0 : (exec (n + 1) (.cont l k)).run s = (.ok (), s') := by simp only [exec]; exact hex
    rw [run_get_bind] at hex
    cases hfl : findLoopStart (fnOf s s.curfunc).code l with
    | none => rw [hfl] at hex; vmsimp_at hex; cases hex
    | some pos =>
      rw [hfl] at hex
      have hnn := hr.exit_pc hf (l := l) (off := (s.loops.getD l {}).contOff) (k := k) rfl hfl
      cases hrun : (popScopes k).run s with
      | mk r s1 =>
        cases r with
        | error e =>
          vmsimp_at hex
          rw [show popScopes k s = (Except.error e, s1) from hrun] at hex
          cases hex
        | ok u =>
          vmsimp_at hex
          rw [show popScopes k s = (Except.ok u, s1) from hrun] at hex
          cases hex
          obtain ⟨h1, h2⟩ := popScopes_ok k s s1 hrun
          subst h2
          have hc := refines_cont l k n s _ hpc hf hex0 (by simpa using hnn)
          refine finish_step hr ?_ (TExt.same rfl rfl) hc rfl rfl (by simpa using hnn) (Or.inr (Or.inr ⟨k, rfl⟩)) rfl
          exact hw.mk' (TExt.same rfl rfl) (fun id h1 h2 => absurd h2 (Nat.not_lt.mpr h1)) hw.loopstack hw.scopes hw.heap hw.lazies hw.data

end ZygoVerif.RunInv
