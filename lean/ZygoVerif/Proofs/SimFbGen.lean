/-
C02, execution half — generator-side facts for `break`/`continue`.

* `LsIn code a b`: every `loopStart` in `code` carries an id in `[a, b)`. Compiling from a
  generator state with `a` loop records to one with `b` gives such code (`compile_ls_Fc`): loop ids
  are allocated by appending to the loop table. `BreakInstr`/`ContinueInstr` search the function for
  the FIRST `loopStart` with their id; this is what makes that search find the right one.
-/
import ZygoVerif.Proofs.SimFc
set_option linter.unusedSimpArgs false
namespace ZygoVerif.Sim
open ZygoVerif.Core ZygoVerif.VM

def LsIn (code : List Instr) (a b : Nat) : Prop := ∀ l, Instr.loopStart l ∈ code → a ≤ l ∧ l < b

theorem LsIn.nil (a b : Nat) : LsIn [] a b := fun _ h => by cases h

theorem LsIn.app {x y : List Instr} {a b : Nat} (h₁ : LsIn x a b) (h₂ : LsIn y a b) : LsIn (x ++ y) a b :=
  fun l hl => (List.mem_append.mp hl).elim (h₁ l) (h₂ l)

theorem LsIn.cons_ne {i : Instr} {x : List Instr} {a b : Nat} (hi : ∀ l, Instr.loopStart l ≠ i) (h : LsIn x a b) :
    LsIn (i :: x) a b :=
  fun l hl => (List.mem_cons.mp hl).elim (fun e => absurd e (hi l)) (h l)

theorem LsIn.mono {x : List Instr} {a b a' b' : Nat} (h : LsIn x a b) (ha : a' ≤ a) (hb : b ≤ b') : LsIn x a' b' :=
  fun l hl => ⟨Nat.le_trans ha (h l hl).1, Nat.lt_of_lt_of_le (h l hl).2 hb⟩

/-- close `LsIn` goals about concatenations of sub-codes and fixed instructions -/
macro "lsin" : tactic =>
  `(tactic| repeat (first
    | exact LsIn.nil _ _
    | assumption
    | apply LsIn.app
    | apply LsIn.cons_ne (by intro _ h; cases h)
    | (split <;> skip)))

theorem lsIn_asmCond {a b : Nat} : ∀ (as : List (List Instr × List Instr)) (d : List Instr),
    (∀ p ∈ as, LsIn p.1 a b ∧ LsIn p.2 a b) → LsIn d a b → LsIn (asmCond as d) a b
  | [], d, _, hd => by rw [asmCond]; exact hd
  | (p, bd) :: as, d, h, hd => by
    rw [asmCond]
    have h1 := (h (p, bd) (List.mem_cons_self ..)).1
    have h2 := (h (p, bd) (List.mem_cons_self ..)).2
    have h3 := lsIn_asmCond as d (fun q hq => h q (List.mem_cons_of_mem _ hq)) hd
    simp only at h1 h2 ⊢
    lsin

theorem lsIn_asmSC {a b : Nat} (isOr : Bool) : ∀ (cs : List (List Instr)),
    (∀ c ∈ cs, LsIn c a b) → LsIn (asmSC isOr cs) a b
  | [], _ => by rw [asmSC]; lsin
  | [c], h => by rw [asmSC]; exact h c (List.mem_cons_self ..)
  | c :: c' :: cs, h => by
    rw [asmSC]
    · have h1 := h c (List.mem_cons_self ..)
      have h3 := lsIn_asmSC isOr (c' :: cs) (fun q hq => h q (List.mem_cons_of_mem _ hq))
      skip
      lsin
    · intro hh; cases hh

theorem lsIn_forCode {a b L : Nat} {i t s bd : List Instr} (hi : LsIn i a b) (ht : LsIn t a b) (hs : LsIn s a b)
    (hb : LsIn bd a b) (hL : a ≤ L ∧ L < b) : LsIn (forCode L i t s bd) a b := by
  rw [forCode_eq]
  have h0 : LsIn [Instr.loopStart L] a b := fun l hl => by
    simp only [List.mem_singleton, Instr.loopStart.injEq] at hl; subst hl; exact hL
  show LsIn ([Instr.loopStart L] ++ ([.addScope, .pushMark L, .label] ++ i ++ _ ++ s ++ _ ++ t ++ _ ++ bd ++ _)) a b
  apply LsIn.app h0
  simp only [List.append_assoc, List.cons_append, List.nil_append]
  lsin

/-! ## The ids in compiled code -/

/-- the statement for one compile function: the loop table only grows, the code's ids are the new ones -/
abbrev LsRes (gs gs' : GS) (code : List Instr) : Prop :=
  gs.loops.length ≤ gs'.loops.length ∧ LsIn code gs.loops.length gs'.loops.length

theorem forDone_len (g5 : GS) (L : Nat) (x y : Int) : (forDone g5 L x y).loops.length = g5.loops.length := by
  simp [forDone]

theorem forGs_len (gs : GS) (c : Ctx) (label : Option String) : (forGs gs c label).loops.length = gs.loops.length + 1 := by
  simp [forGs]

mutual
theorem compile_ls_Fc : ∀ (e : Expr), Fc e = true → ∀ isFn c gs r, (compile isFn c e).run gs = .ok r → c.funcname = "" →
    LsRes gs r.2 r.1.1
  | .int v, _, isFn, c, gs, r, hc, hfn => by
    rw [compile] at hc; simp only [g_pure_ok] at hc; subst hc; exact ⟨Nat.le_refl _, by lsin⟩
  | .bool v, _, isFn, c, gs, r, hc, hfn => by
    rw [compile] at hc; simp only [g_pure_ok] at hc; subst hc; exact ⟨Nat.le_refl _, by lsin⟩
  | .str v, _, isFn, c, gs, r, hc, hfn => by
    rw [compile] at hc; simp only [g_pure_ok] at hc; subst hc; exact ⟨Nat.le_refl _, by lsin⟩
  | .nilLit, _, isFn, c, gs, r, hc, hfn => by
    rw [compile] at hc; simp only [g_pure_ok] at hc; subst hc; exact ⟨Nat.le_refl _, by lsin⟩
  | .sym x, _, isFn, c, gs, r, hc, hfn => by
    rw [compile] at hc; simp only [g_pure_ok] at hc; subst hc; exact ⟨Nat.le_refl _, by lsin⟩
  | .begin_ es, he, isFn, c, gs, r, hc, hfn => by
    rw [Fc] at he
    cases es with
    | nil => rw [compile] at hc; simp only [g_pure_ok] at hc; subst hc; exact ⟨Nat.le_refl _, by lsin⟩
    | cons e0 es0 =>
      rw [compile] at hc
      · exact compileBegin_ls_Fc (e0 :: es0) he isFn c gs r hc hfn
      · intro hh; cases hh
  | .def_ x e, he, isFn, c, gs, r, hc, hfn => by
    rw [Fc] at he
    simp only [Bool.and_eq_true] at he
    rw [compile] at hc
    simp only [g_bind_ok, g_pure_ok] at hc
    obtain ⟨ra, gs1, ha, rfl⟩ := hc
    obtain ⟨h1, h2⟩ := compile_ls_Fc e he.2 isFn _ gs _ ha hfn
    exact ⟨h1, by simp only; lsin⟩
  | .set_ x e, he, isFn, c, gs, r, hc, hfn => by
    rw [Fc] at he
    simp only [Bool.and_eq_true] at he
    rw [compile] at hc
    simp only [g_bind_ok, g_pure_ok] at hc
    obtain ⟨ra, gs1, ha, rfl⟩ := hc
    obtain ⟨h1, h2⟩ := compile_ls_Fc e he.2 isFn _ gs _ ha hfn
    exact ⟨h1, by simp only; lsin⟩
  | .cond arms d, he, isFn, c, gs, r, hc, hfn => by
    rw [Fc] at he
    simp only [Bool.and_eq_true] at he
    rw [compile] at hc
    simp only [g_bind_ok, g_pure_ok] at hc
    obtain ⟨rd, gs1, hd, as, gs2, has, rfl⟩ := hc
    obtain ⟨h1, h2⟩ := compile_ls_Fc d he.2 isFn _ gs _ hd hfn
    obtain ⟨h3, h4⟩ := compileArms_ls_Fc arms he.1 isFn c gs1 _ has hfn
    exact ⟨Nat.le_trans h1 h3, lsIn_asmCond _ _ (fun p hp => ⟨(h4 p hp).1.mono h1 (Nat.le_refl _),
      (h4 p hp).2.mono h1 (Nat.le_refl _)⟩) (h2.mono (Nat.le_refl _) h3)⟩
  | .and_ es, he, isFn, c, gs, r, hc, hfn => by
    rw [Fc] at he
    rw [compile] at hc
    simp only [g_bind_ok, g_pure_ok] at hc
    obtain ⟨cs, gs1, hcs, rfl⟩ := hc
    obtain ⟨h1, h2⟩ := compileSC_ls_Fc es he isFn c gs _ hcs hfn
    exact ⟨h1, lsIn_asmSC _ _ h2⟩
  | .or_ es, he, isFn, c, gs, r, hc, hfn => by
    rw [Fc] at he
    rw [compile] at hc
    simp only [g_bind_ok, g_pure_ok] at hc
    obtain ⟨cs, gs1, hcs, rfl⟩ := hc
    obtain ⟨h1, h2⟩ := compileSC_ls_Fc es he isFn c gs _ hcs hfn
    exact ⟨h1, lsIn_asmSC _ _ h2⟩
  | .newScope es, he, isFn, c, gs, r, hc, hfn => by
    rw [Fc] at he
    simp only [Bool.and_eq_true, Bool.not_eq_true', List.isEmpty_eq_false_iff] at he
    cases es with
    | nil => exact absurd rfl he.1
    | cons e0 es0 =>
      rw [compile] at hc
      · simp only [g_bind_ok, g_pure_ok] at hc
        obtain ⟨rn, gs1, hn, rfl⟩ := hc
        obtain ⟨h1, h2⟩ := compileNewScope_ls_Fc (e0 :: es0) he.2 isFn _ _ gs _ hn hfn
        exact ⟨h1, by simp only; lsin⟩
      · intro hh; cases hh
  | .let_ seq bs body, he, isFn, c, gs, r, hc, hfn => by
    rw [Fc] at he
    simp only [Bool.and_eq_true, Bool.not_eq_true', List.isEmpty_eq_false_iff] at he
    obtain ⟨⟨⟨_, hbody⟩, hbs⟩, hbl⟩ := he
    rw [compile] at hc
    simp only [g_bind_ok, g_pure_ok] at hc
    obtain ⟨rr, gs1, hr, rb, gs2, hb, rfl⟩ := hc
    obtain ⟨h1, h2⟩ := compileBinds_ls_Fc bs hbs isFn _ seq gs _ hr hfn
    obtain ⟨h3, h4⟩ := compileBegin_ls_Fc body hbl isFn _ gs1 _ hb hfn
    have h2' := h2.mono (Nat.le_refl _) h3
    have h4' := h4.mono h1 (Nat.le_refl _)
    have h5 : LsIn (bs.map (fun p => Instr.popStackPutEnv p.1)).reverse gs.loops.length gs2.loops.length := by
      intro l hl
      simp only [List.mem_reverse, List.mem_map] at hl
      obtain ⟨_, _, hh⟩ := hl; cases hh
    refine ⟨Nat.le_trans h1 h3, ?_⟩
    simp only
    lsin
  | .call f args, he, isFn, c, gs, r, hc, hfn => by
    cases f with
    | sym h =>
      rw [Fc] at he
      simp only [Bool.and_eq_true, List.contains_iff_mem] at he
      rw [compile] at hc
      have hne : (h == c.funcname) = false := by
        rw [hfn]; have := foBuiltins_ne_empty h he.1; simpa using this
      simp only [hne, Bool.and_false, Bool.false_eq_true, if_false, g_pure_ok] at hc
      subst hc
      exact ⟨Nat.le_refl _, by lsin⟩
    | _ => simp [Fc] at he
  | .arr es, he, isFn, c, gs, r, hc, hfn => by
    rw [Fc] at he
    rw [compile] at hc
    simp only [g_bind_ok, g_pure_ok] at hc
    obtain ⟨ra, gs1, ha, rfl⟩ := hc
    obtain ⟨h1, h2⟩ := compileAll_ls_Fc es he isFn _ gs _ ha hfn
    exact ⟨h1, by simp only; lsin⟩
  | .for_ label init test incr body, he, isFn, c, gs, r, hc, hfn => by
    rw [Fc] at he
    simp only [Bool.and_eq_true] at he
    obtain ⟨⟨⟨hi, ht⟩, hs⟩, hb⟩ := he
    rw [compile_for_eq] at hc
    cases hb' : (compileBegin isFn { c with tail := false, scopes := c.scopes + 1 } body).run (forGs gs c label) with
    | error e => rw [hb'] at hc; cases hc
    | ok vb =>
    obtain ⟨rb, g2⟩ := vb
    rw [hb'] at hc; simp only at hc
    cases hi' : (compile isFn { c with tail := false, scopes := c.scopes + 1 } init).run g2 with
    | error e => rw [hi'] at hc; cases hc
    | ok vi =>
    obtain ⟨ri, g3⟩ := vi
    rw [hi'] at hc; simp only at hc
    cases ht' : (compile isFn { c with tail := false, scopes := c.scopes + 1 } test).run g3 with
    | error e => rw [ht'] at hc; cases hc
    | ok vt =>
    obtain ⟨rt, g4⟩ := vt
    rw [ht'] at hc; simp only at hc
    cases hs' : (compile isFn { c with tail := false, scopes := c.scopes + 1 } incr).run g4 with
    | error e => rw [hs'] at hc; cases hc
    | ok vs =>
    obtain ⟨rsn, g5⟩ := vs
    rw [hs'] at hc; simp only at hc
    injection hc with hc
    subst hc
    obtain ⟨b1, b2⟩ := compileBegin_ls_Fc body hb isFn _ _ _ hb' hfn
    obtain ⟨i1, i2⟩ := compile_ls_Fc init hi isFn _ _ _ hi' hfn
    obtain ⟨t1, t2⟩ := compile_ls_Fc test ht isFn _ _ _ ht' hfn
    obtain ⟨s1, s2⟩ := compile_ls_Fc incr hs isFn _ _ _ hs' hfn
    rw [forGs_len] at b1 b2
    simp only at b1 b2 i1 i2 t1 t2 s1 s2
    refine ⟨by simp only [forDone_len]; omega, ?_⟩
    simp only [forDone_len]
    exact lsIn_forCode (i2.mono (by omega) (by omega)) (t2.mono (by omega) (by omega)) (s2.mono (by omega) (by omega))
      (b2.mono (by omega) (by omega)) ⟨Nat.le_refl _, by omega⟩
  | .break_ _, he, _, _, _, _, _, _ | .continue_ _, he, _, _, _, _, _, _
  | .fn _ _ _, he, _, _, _, _, _, _ | .defn _ _ _ _, he, _, _, _, _, _, _ | .assign _ _, he, _, _, _, _, _, _
  | .bad _, he, _, _, _, _, _, _ => by
    simp [Fc] at he
theorem compileBegin_ls_Fc : ∀ (es : List Expr), FcList es = true → ∀ isFn c gs r, (compileBegin isFn c es).run gs = .ok r → c.funcname = "" →
    LsRes gs r.2 r.1.1
  | [], _, isFn, c, gs, r, hc, hfn => by
    rw [compileBegin] at hc; simp only [g_pure_ok] at hc; subst hc; exact ⟨Nat.le_refl _, by lsin⟩
  | [e], he, isFn, c, gs, r, hc, hfn => by
    rw [FcList] at he
    simp only [Bool.and_eq_true] at he
    rw [compileBegin] at hc
    exact compile_ls_Fc e he.1 isFn c gs r hc hfn
  | e :: e' :: es, he, isFn, c, gs, r, hc, hfn => by
    rw [FcList] at he
    simp only [Bool.and_eq_true] at he
    rw [compileBegin] at hc
    · simp only [g_bind_ok, g_pure_ok] at hc
      obtain ⟨ra, gs1, ha, rb, gs2, hb, rfl⟩ := hc
      obtain ⟨h1, h2⟩ := compile_ls_Fc e he.1 isFn _ gs _ ha hfn
      obtain ⟨h3, h4⟩ := compileBegin_ls_Fc (e' :: es) he.2 isFn c gs1 _ hb hfn
      have h2' := h2.mono (Nat.le_refl _) h3
      have h4' := h4.mono h1 (Nat.le_refl _)
      refine ⟨Nat.le_trans h1 h3, ?_⟩
      simp only
      lsin
    · intro hh; cases hh
theorem compileSC_ls_Fc : ∀ (es : List Expr), FcList es = true → ∀ isFn c gs r, (compileSC isFn c es).run gs = .ok r → c.funcname = "" →
    gs.loops.length ≤ r.2.loops.length ∧ ∀ x ∈ r.1, LsIn x gs.loops.length r.2.loops.length
  | [], _, isFn, c, gs, r, hc, hfn => by
    rw [compileSC] at hc; simp only [g_pure_ok] at hc; subst hc; exact ⟨Nat.le_refl _, fun x hx => by cases hx⟩
  | [e], he, isFn, c, gs, r, hc, hfn => by
    rw [FcList] at he
    simp only [Bool.and_eq_true] at he
    rw [compileSC] at hc
    simp only [g_bind_ok, g_pure_ok] at hc
    obtain ⟨ra, gs1, ha, rfl⟩ := hc
    obtain ⟨h1, h2⟩ := compile_ls_Fc e he.1 isFn _ gs _ ha hfn
    exact ⟨h1, fun x hx => by simp only [List.mem_singleton] at hx; subst hx; exact h2⟩
  | e :: e' :: es, he, isFn, c, gs, r, hc, hfn => by
    rw [FcList] at he
    simp only [Bool.and_eq_true] at he
    rw [compileSC] at hc
    · simp only [g_bind_ok, g_pure_ok] at hc
      obtain ⟨rb, gs1, hb, ra, gs2, ha, rfl⟩ := hc
      obtain ⟨h1, h2⟩ := compileSC_ls_Fc (e' :: es) he.2 isFn c gs _ hb hfn
      obtain ⟨h3, h4⟩ := compile_ls_Fc e he.1 isFn _ gs1 _ ha hfn
      refine ⟨Nat.le_trans h1 h3, fun x hx => ?_⟩
      rcases List.mem_cons.mp hx with rfl | hx
      · exact h4.mono h1 (Nat.le_refl _)
      · exact (h2 x hx).mono (Nat.le_refl _) h3
    · intro hh; cases hh
theorem compileNewScope_ls_Fc : ∀ (es : List Expr), FcList es = true → ∀ isFn c oldtail gs r,
    (compileNewScope isFn c oldtail es).run gs = .ok r → c.funcname = "" → LsRes gs r.2 r.1.1
  | [], _, isFn, c, oldtail, gs, r, hc, hfn => by
    rw [compileNewScope] at hc; simp only [g_pure_ok] at hc; subst hc; exact ⟨Nat.le_refl _, by lsin⟩
  | [e], he, isFn, c, oldtail, gs, r, hc, hfn => by
    rw [FcList] at he
    simp only [Bool.and_eq_true] at he
    rw [compileNewScope] at hc
    exact compile_ls_Fc e he.1 isFn _ gs r hc hfn
  | e :: e' :: es, he, isFn, c, oldtail, gs, r, hc, hfn => by
    rw [FcList] at he
    simp only [Bool.and_eq_true] at he
    rw [compileNewScope] at hc
    · simp only [g_bind_ok, g_pure_ok] at hc
      obtain ⟨ra, gs1, ha, rb, gs2, hb, rfl⟩ := hc
      obtain ⟨h1, h2⟩ := compile_ls_Fc e he.1 isFn _ gs _ ha hfn
      obtain ⟨h3, h4⟩ := compileNewScope_ls_Fc (e' :: es) he.2 isFn c oldtail gs1 _ hb hfn
      have h2' := h2.mono (Nat.le_refl _) h3
      have h4' := h4.mono h1 (Nat.le_refl _)
      refine ⟨Nat.le_trans h1 h3, ?_⟩
      simp only
      lsin
    · intro hh; cases hh
theorem compileBinds_ls_Fc : ∀ (bs : List (String × Expr)), FcBinds bs = true → ∀ isFn c seq gs r,
    (compileBinds isFn c seq bs).run gs = .ok r → c.funcname = "" → LsRes gs r.2 r.1.1
  | [], _, isFn, c, seq, gs, r, hc, hfn => by
    rw [compileBinds] at hc; simp only [g_pure_ok] at hc; subst hc; exact ⟨Nat.le_refl _, by lsin⟩
  | (x, e) :: bs, he, isFn, c, seq, gs, r, hc, hfn => by
    rw [FcBinds] at he
    simp only [Bool.and_eq_true] at he
    rw [compileBinds] at hc
    simp only [g_bind_ok, g_pure_ok] at hc
    obtain ⟨ra, gs1, ha, rb, gs2, hb, rfl⟩ := hc
    obtain ⟨h1, h2⟩ := compile_ls_Fc e he.1.2 isFn _ gs _ ha hfn
    obtain ⟨h3, h4⟩ := compileBinds_ls_Fc bs he.2 isFn _ seq gs1 _ hb hfn
    have h2' := h2.mono (Nat.le_refl _) h3
    have h4' := h4.mono h1 (Nat.le_refl _)
    refine ⟨Nat.le_trans h1 h3, ?_⟩
    simp only
    lsin
theorem compileAll_ls_Fc : ∀ (es : List Expr), FcList es = true → ∀ isFn c gs r, (compileAll isFn c es).run gs = .ok r → c.funcname = "" →
    LsRes gs r.2 r.1.1
  | [], _, isFn, c, gs, r, hc, hfn => by
    rw [compileAll] at hc; simp only [g_pure_ok] at hc; subst hc; exact ⟨Nat.le_refl _, by lsin⟩
  | e :: es, he, isFn, c, gs, r, hc, hfn => by
    rw [FcList] at he
    simp only [Bool.and_eq_true] at he
    rw [compileAll] at hc
    simp only [g_bind_ok, g_pure_ok] at hc
    obtain ⟨ra, gs1, ha, rb, gs2, hb, rfl⟩ := hc
    obtain ⟨h1, h2⟩ := compile_ls_Fc e he.1 isFn _ gs _ ha hfn
    obtain ⟨h3, h4⟩ := compileAll_ls_Fc es he.2 isFn _ gs1 _ hb hfn
    have h2' := h2.mono (Nat.le_refl _) h3
    have h4' := h4.mono h1 (Nat.le_refl _)
    refine ⟨Nat.le_trans h1 h3, ?_⟩
    simp only
    lsin
theorem compileArms_ls_Fc : ∀ (arms : List (Expr × Expr)), FcArms arms = true → ∀ isFn c gs r,
    (compileArms isFn c arms).run gs = .ok r → c.funcname = "" →
    gs.loops.length ≤ r.2.loops.length ∧ ∀ p ∈ r.1, LsIn p.1 gs.loops.length r.2.loops.length ∧ LsIn p.2 gs.loops.length r.2.loops.length
  | [], _, isFn, c, gs, r, hc, hfn => by
    rw [compileArms] at hc; simp only [g_pure_ok] at hc; subst hc; exact ⟨Nat.le_refl _, fun x hx => by cases hx⟩
  | (p, b) :: arms, he, isFn, c, gs, r, hc, hfn => by
    rw [FcArms] at he
    simp only [Bool.and_eq_true] at he
    rw [compileArms] at hc
    simp only [g_bind_ok, g_pure_ok] at hc
    obtain ⟨rr, gs1, hr, rp, gs2, hp, rb, gs3, hb, rfl⟩ := hc
    obtain ⟨h1, h2⟩ := compileArms_ls_Fc arms he.2 isFn c gs _ hr hfn
    obtain ⟨h3, h4⟩ := compile_ls_Fc p he.1.1 isFn _ gs1 _ hp hfn
    obtain ⟨h5, h6⟩ := compile_ls_Fc b he.1.2 isFn c gs2 _ hb hfn
    refine ⟨by simp only at h1 h3 h5 ⊢; omega, fun x hx => ?_⟩
    simp only at h1 h3 h5
    rcases List.mem_cons.mp hx with rfl | hx
    · exact ⟨h4.mono h1 h5, h6.mono (by omega) (Nat.le_refl _)⟩
    · exact ⟨(h2 x hx).1.mono (Nat.le_refl _) (Nat.le_trans h3 h5), (h2 x hx).2.mono (Nat.le_refl _) (Nat.le_trans h3 h5)⟩
end

/-! ## The enclosing loops -/

/-- one enclosing loop of the code being run -/
structure LCtx where
  id : Nat
  label : Option String
  depth : Nat                      -- `gen.scopes` at the `for` (the stored `scopeDepth`)
  start : Nat                      -- index of its `loopStart` in the current function
  brkPos : Int                     -- where `break` lands (`clearMark`)
  contPos : Int                    -- where `continue` lands (the label before the increment)
  lin : List (Option Nat)          -- the linear stack inside the loop's own scope
  fr : Nat                         -- the reference frame of the loop's scope
  D : List (Option Val)            -- the data stack below the loop's mark

/-- the loop a `break`/`continue` with this label operand means -/
def findCtx (Γ : List LCtx) : Option String → Option LCtx
  | none => Γ.head?
  | some x => Γ.find? (fun γ => γ.label == some x)

/-- the compile-time facts: the generator's loop stack is the list of enclosing loops -/
structure GsOk (Γ : List LCtx) (gs : GS) : Prop where
  stack : gs.loopstack = Γ.map (·.id)
  recs : ∀ γ ∈ Γ, γ.id < gs.loops.length ∧ (gs.loops.getD γ.id {}).label = γ.label
    ∧ (gs.loops.getD γ.id {}).scopeDepth = γ.depth

theorem GsOk.ext {Γ : List LCtx} {gs gs' : GS} (h : GsOk Γ gs) (he : GExt gs gs') : GsOk Γ gs' :=
  ⟨he.stack.trans h.stack, fun γ hγ => by
    obtain ⟨h1, h2, h3⟩ := h.recs γ hγ
    exact ⟨Nat.lt_of_lt_of_le h1 he.len, by rw [he.loops γ.id h1]; exact h2, by rw [he.loops γ.id h1]; exact h3⟩⟩

/-! ## The fragment with `break` and `continue` -/

/-- a `break`/`continue` label operand names one of the enclosing loops (`ls`: their labels, innermost first) -/
def lblOk (ls : List (Option String)) : Option String → Bool
  | none => !ls.isEmpty
  | some x => ls.contains (some x)

mutual
def Fb : List (Option String) → Expr → Bool
  | ls, .break_ l => lblOk ls l
  | ls, .continue_ l => lblOk ls l
  | ls, .begin_ es => FbList ls es
  | ls, .cond arms d => FbArms ls arms && Fb ls d
  | ls, .let_ seq bs body =>
    (seq || decide ((bs.map (·.1)).Nodup)) && !body.isEmpty && FcBinds bs && FbList ls body
  | ls, .newScope es => !es.isEmpty && FbList ls es
  | ls, .for_ label init test incr body => Fc init && Fc test && Fc incr && FbList (label :: ls) body
  | _, .int v => Fc (.int v)
  | _, .bool v => Fc (.bool v)
  | _, .str v => Fc (.str v)
  | _, .nilLit => Fc .nilLit
  | _, .sym x => Fc (.sym x)
  | _, .arr es => Fc (.arr es)
  | _, .call f args => Fc (.call f args)
  | _, .def_ x e => Fc (.def_ x e)
  | _, .set_ x e => Fc (.set_ x e)
  | _, .and_ es => Fc (.and_ es)
  | _, .or_ es => Fc (.or_ es)
  | _, .fn _ _ _ => false
  | _, .defn _ _ _ _ => false
  | _, .assign _ _ => false
  | _, .bad _ => false
def FbList : List (Option String) → List Expr → Bool
  | _, [] => true
  | ls, e :: es => Fb ls e && FbList ls es
def FbArms : List (Option String) → List (Expr × Expr) → Bool
  | _, [] => true
  | ls, (p, b) :: r => Fc p && Fb ls b && FbArms ls r
end

mutual
theorem fb_of_fc : ∀ (ls : List (Option String)) (e : Expr), Fc e = true → Fb ls e = true
  | ls, .begin_ es, h => by rw [Fc] at h; rw [Fb]; exact fbList_of_fc ls es h
  | ls, .cond arms d, h => by
    rw [Fc] at h; rw [Fb]; simp only [Bool.and_eq_true] at h ⊢
    exact ⟨fbArms_of_fc ls arms h.1, fb_of_fc ls d h.2⟩
  | ls, .let_ seq bs body, h => by
    rw [Fc] at h; rw [Fb]; simp only [Bool.and_eq_true] at h ⊢
    exact ⟨h.1, fbList_of_fc ls body h.2⟩
  | ls, .newScope es, h => by
    rw [Fc] at h; rw [Fb]; simp only [Bool.and_eq_true] at h ⊢
    exact ⟨h.1, fbList_of_fc ls es h.2⟩
  | ls, .for_ label init test incr body, h => by
    rw [Fc] at h; rw [Fb]; simp only [Bool.and_eq_true] at h ⊢
    exact ⟨h.1, fbList_of_fc _ body h.2⟩
  | ls, .int v, h | ls, .bool v, h | ls, .str v, h | ls, .nilLit, h | ls, .sym x, h | ls, .arr es, h
  | ls, .call f args, h | ls, .def_ x e, h | ls, .set_ x e, h | ls, .and_ es, h | ls, .or_ es, h => by rw [Fb]; exact h
  | ls, .break_ _, h | ls, .continue_ _, h | ls, .fn _ _ _, h | ls, .defn _ _ _ _, h | ls, .assign _ _, h
  | ls, .bad _, h => by simp [Fc] at h
theorem fbList_of_fc : ∀ (ls : List (Option String)) (es : List Expr), FcList es = true → FbList ls es = true
  | _, [], _ => by rw [FbList]
  | ls, e :: es, h => by
    rw [FcList] at h; rw [FbList]; simp only [Bool.and_eq_true] at h ⊢
    exact ⟨fb_of_fc ls e h.1, fbList_of_fc ls es h.2⟩
theorem fbArms_of_fc : ∀ (ls : List (Option String)) (arms : List (Expr × Expr)), FcArms arms = true → FbArms ls arms = true
  | _, [], _ => by rw [FbArms]
  | ls, (p, b) :: r, h => by
    rw [FcArms] at h; rw [FbArms]; simp only [Bool.and_eq_true] at h ⊢
    exact ⟨⟨h.1.1, fb_of_fc ls b h.1.2⟩, fbArms_of_fc ls r h.2⟩
end

/-! ## `compile` on Fb -/

/-- `findLoop` on the generator's loop stack is `findCtx` on the list of enclosing loops -/
theorem findLoop_ctx {Γ : List LCtx} {gs : GS} (h : GsOk Γ gs) (l : Option String) :
    findLoop gs l = (findCtx Γ l).map (·.id) := by
  cases l with
  | none => simp only [findLoop, findCtx, h.stack, List.head?_map]
  | some x =>
    simp only [findLoop, findCtx, h.stack]
    have : ∀ (Δ : List LCtx), (∀ γ ∈ Δ, (gs.loops.getD γ.id {}).label = γ.label) →
        (Δ.map (·.id)).find? (fun id => (gs.loops.getD id {}).label == some x)
          = (Δ.find? (fun γ => γ.label == some x)).map (·.id) := by
      intro Δ
      induction Δ with
      | nil => intro _; rfl
      | cons γ Δ ih =>
        intro hΔ
        simp only [List.map_cons, List.find?_cons, hΔ γ (List.mem_cons_self ..)]
        cases γ.label == some x with
        | true => rfl
        | false => exact ih (fun γ' hγ' => hΔ γ' (List.mem_cons_of_mem _ hγ'))
    exact this Γ (fun γ hγ => (h.recs γ hγ).2.1)

/-- a label operand the fragment admits finds its loop -/
theorem findCtx_ok {Γ : List LCtx} {ls : List (Option String)} (hls : Γ.map (·.label) = ls) {l : Option String}
    (h : lblOk ls l = true) : ∃ γ, findCtx Γ l = some γ ∧ γ ∈ Γ := by
  subst hls
  cases l with
  | none =>
    cases Γ with
    | nil => simp [lblOk] at h
    | cons γ Γ => exact ⟨γ, rfl, List.mem_cons_self ..⟩
  | some x =>
    simp only [lblOk, List.contains_iff_mem, List.mem_map] at h
    obtain ⟨γ0, hγ0, hl⟩ := h
    cases hf : Γ.find? (fun γ => γ.label == some x) with
    | none =>
      have := List.find?_eq_none.mp hf γ0 hγ0
      simp [hl] at this
    | some γ => exact ⟨γ, hf, List.mem_of_find?_eq_some hf⟩

/-- the generator state inside a `for`, seen from the list of enclosing loops -/
theorem GsOk.for_ {Γ : List LCtx} {gs : GS} (h : GsOk Γ gs) (c : Ctx) (label : Option String) (γ₀ : LCtx)
    (hid : γ₀.id = gs.loops.length) (hl : γ₀.label = label) (hd : γ₀.depth = c.scopes) :
    GsOk (γ₀ :: Γ) (forGs gs c label) := by
  refine ⟨by simp [forGs, h.stack, hid], fun γ hγ => ?_⟩
  rcases List.mem_cons.mp hγ with rfl | hγ
  · rw [hid]
    refine ⟨by simp [forGs], ?_, ?_⟩ <;> simp [forGs, hl, hd]
  · obtain ⟨h1, h2, h3⟩ := h.recs γ hγ
    refine ⟨by simp [forGs]; omega, ?_, ?_⟩
    · simpa [forGs, List.getD_eq_getElem?_getD, List.getElem?_append_left h1] using h2
    · simpa [forGs, List.getD_eq_getElem?_getD, List.getElem?_append_left h1] using h3

/-- a loop context with only its compile-time part filled in -/
def ctx0 (id : Nat) (label : Option String) (depth : Nat) : LCtx :=
  { id := id, label := label, depth := depth, start := 0, brkPos := 0, contPos := 0, lin := [], fr := 0, D := [] }

/-- what the four totality statements give -/
abbrev TotRes (gs gs' : GS) (code : List Instr) : Prop := GExt gs gs' ∧ LsRes gs gs' code

theorem total_of_Fc {e : Expr} (he : Fc e = true) (isFn : Nat → Bool) (c : Ctx) (gs : GS) (hfn : c.funcname = "") :
    ∃ code t gs', (compile isFn c e).run gs = .ok ((code, t), gs') ∧ code ≠ [] ∧ TotRes gs gs' code := by
  obtain ⟨code, t, g1, h1, hne, hf⟩ := compile_total_Fc e he isFn c gs hfn
  exact ⟨code, t, g1, h1, hne, hf, compile_ls_Fc e he isFn c gs _ h1 hfn⟩

theorem TotRes.seq {gs g1 g2 : GS} {a b code : List Instr} (h₁ : TotRes gs g1 a) (h₂ : TotRes g1 g2 b)
    (h : ∀ x y, LsIn a x y → LsIn b x y → LsIn code x y) : TotRes gs g2 code :=
  ⟨h₁.1.trans h₂.1, Nat.le_trans h₁.2.1 h₂.2.1,
    h _ _ (h₁.2.2.mono (Nat.le_refl _) h₂.2.1) (h₂.2.2.mono h₁.2.1 (Nat.le_refl _))⟩

mutual
theorem compile_total_Fb : ∀ (ls : List (Option String)) (e : Expr), Fb ls e = true → ∀ isFn c gs Γ, c.funcname = "" →
    GsOk Γ gs → Γ.map (·.label) = ls →
    ∃ code t gs', (compile isFn c e).run gs = .ok ((code, t), gs') ∧ code ≠ [] ∧ TotRes gs gs' code
  | ls, .break_ l, he, isFn, c, gs, Γ, hfn, hg, hls => by
    rw [Fb] at he
    obtain ⟨γ, hγ, _⟩ := findCtx_ok hls he
    refine ⟨[.brk γ.id (c.scopes - ((gs.loops.getD γ.id {}).scopeDepth + 1))], c.tail, gs, ?_, by simp, GExt.refl _,
      Nat.le_refl _, by lsin⟩
    rw [compile]
    simp only [bind, StateT.bind, StateT.run, get, getThe, MonadStateOf.get, StateT.get, pure, Except.pure, Except.bind,
      StateT.pure, findLoop_ctx hg, hγ, Option.map_some]
  | ls, .continue_ l, he, isFn, c, gs, Γ, hfn, hg, hls => by
    rw [Fb] at he
    obtain ⟨γ, hγ, _⟩ := findCtx_ok hls he
    refine ⟨[.cont γ.id (c.scopes - ((gs.loops.getD γ.id {}).scopeDepth + 1))], c.tail, gs, ?_, by simp, GExt.refl _,
      Nat.le_refl _, by lsin⟩
    rw [compile]
    simp only [bind, StateT.bind, StateT.run, get, getThe, MonadStateOf.get, StateT.get, pure, Except.pure, Except.bind,
      StateT.pure, findLoop_ctx hg, hγ, Option.map_some]
  | ls, .begin_ es, he, isFn, c, gs, Γ, hfn, hg, hls => by
    rw [Fb] at he
    cases es with
    | nil => exact ⟨[.push .nil], c.tail, gs, by rw [compile]; rfl, by simp, GExt.refl _, Nat.le_refl _, by lsin⟩
    | cons e0 es0 =>
      rw [compile]
      · exact compileBegin_total_Fb ls (e0 :: es0) (by simp) he isFn c gs Γ hfn hg hls
      · intro hh; cases hh
  | ls, .cond arms d, he, isFn, c, gs, Γ, hfn, hg, hls => by
    rw [Fb] at he
    simp only [Bool.and_eq_true] at he
    obtain ⟨dc, t, g1, hd, hdne, hf1⟩ := compile_total_Fb ls d he.2 isFn c gs Γ hfn hg hls
    obtain ⟨as, g2, has, hf2, hl2, hin2⟩ := compileArms_total_Fb ls arms he.1 isFn c g1 Γ hfn (hg.ext hf1.1) hls
    refine ⟨asmCond as dc, c.tail, g2, ?_, asmCond_ne_nil as dc hdne, hf1.1.trans hf2, Nat.le_trans hf1.2.1 hl2, ?_⟩
    · rw [compile]
      simp only [g_bind_ok, g_pure_ok]
      exact ⟨_, _, hd, _, _, has, rfl⟩
    · exact lsIn_asmCond _ _ (fun p hp => ⟨(hin2 p hp).1.mono hf1.2.1 (Nat.le_refl _),
        (hin2 p hp).2.mono hf1.2.1 (Nat.le_refl _)⟩) (hf1.2.2.mono (Nat.le_refl _) hl2)
  | ls, .let_ seq bs body, he, isFn, c, gs, Γ, hfn, hg, hls => by
    rw [Fb] at he
    simp only [Bool.and_eq_true, Bool.not_eq_true', List.isEmpty_eq_false_iff] at he
    obtain ⟨⟨⟨_, hbody⟩, hbs⟩, hbl⟩ := he
    obtain ⟨rhs, t1, g1, h1, hf1⟩ := compileBinds_total_Fc bs hbs isFn { c with scopes := c.scopes + 1, tail := false } seq gs hfn
    have hl1 := compileBinds_ls_Fc bs hbs isFn _ seq gs _ h1 hfn
    obtain ⟨b, t2, g2, h2, _, hf2⟩ := compileBegin_total_Fb ls body hbody hbl isFn { c with scopes := c.scopes + 1 } g1 Γ hfn
      (hg.ext hf1) hls
    refine ⟨[.addScope] ++ rhs ++ (if seq then [] else (bs.map (fun p => Instr.popStackPutEnv p.1)).reverse)
      ++ b ++ [.removeScope], t2, g2, ?_, by simp, TotRes.seq ⟨hf1, hl1⟩ hf2 (fun x y hx hy => ?_)⟩
    · rw [compile]
      simp only [g_bind_ok, g_pure_ok]
      exact ⟨_, _, h1, _, _, h2, rfl⟩
    · have h5 : LsIn (bs.map (fun p => Instr.popStackPutEnv p.1)).reverse x y := by
        intro l hl
        simp only [List.mem_reverse, List.mem_map] at hl
        obtain ⟨_, _, hh⟩ := hl; cases hh
      lsin
  | ls, .newScope es, he, isFn, c, gs, Γ, hfn, hg, hls => by
    rw [Fb] at he
    simp only [Bool.and_eq_true, Bool.not_eq_true', List.isEmpty_eq_false_iff] at he
    obtain ⟨code, t, g1, h1, _, hf1⟩ := compileNewScope_total_Fb ls es he.1 he.2 isFn { c with scopes := c.scopes + 1 }
      c.tail gs Γ hfn hg hls
    refine ⟨[.addScope] ++ code ++ [.removeScope], t, g1, ?_, by simp, hf1.1, hf1.2.1, ?_⟩
    · cases es with
      | nil => exact absurd rfl he.1
      | cons e es =>
        rw [compile]
        · simp only [g_bind_ok, g_pure_ok]
          exact ⟨_, _, h1, rfl⟩
        · intro hh; cases hh
    · have := hf1.2.2
      lsin
  | ls, .for_ label init test incr body, he, isFn, c, gs, Γ, hfn, hg, hls => by
    rw [Fb] at he
    simp only [Bool.and_eq_true] at he
    obtain ⟨⟨⟨hi, ht⟩, hs⟩, hb⟩ := he
    obtain ⟨b, tb, g2, h2, hf2⟩ := compileBeginAny_total_Fb (label :: ls) body hb isFn { c with tail := false, scopes := c.scopes + 1 }
      (forGs gs c label) (ctx0 gs.loops.length label c.scopes :: Γ) hfn (hg.for_ c label _ rfl rfl rfl) (by simp [hls, ctx0])
    obtain ⟨i, ti, g3, h3, _, hf3⟩ := total_of_Fc hi isFn { c with tail := false, scopes := c.scopes + 1 } g2 hfn
    obtain ⟨t, tt, g4, h4, _, hf4⟩ := total_of_Fc ht isFn { c with tail := false, scopes := c.scopes + 1 } g3 hfn
    obtain ⟨s, ts, g5, h5, _, hf5⟩ := total_of_Fc hs isFn { c with tail := false, scopes := c.scopes + 1 } g4 hfn
    refine ⟨forCode gs.loops.length i t s b, c.tail,
      forDone g5 gs.loops.length
        (asmFor gs.loops.length (i ++ [.popUntilMark gs.loops.length]) t
          (s ++ [.popUntilMark gs.loops.length]) (b ++ [.popUntilMark gs.loops.length])).2.1
        (asmFor gs.loops.length (i ++ [.popUntilMark gs.loops.length]) t
          (s ++ [.popUntilMark gs.loops.length]) (b ++ [.popUntilMark gs.loops.length])).2.2,
      ?_, by simp [forCode, asmFor], ?_, ?_, ?_⟩
    · rw [compile_for_eq, h2]
      simp only
      rw [h3]
      simp only
      rw [h4]
      simp only
      rw [h5]
    · exact GExt.for_ (((hf2.1.trans hf3.1).trans hf4.1).trans hf5.1)
    · have b1 := hf2.2.1; have i1 := hf3.2.1; have t1 := hf4.2.1; have s1 := hf5.2.1
      rw [forGs_len] at b1
      simp only [forDone_len]; omega
    · have b1 := hf2.2.1; have i1 := hf3.2.1; have t1 := hf4.2.1; have s1 := hf5.2.1
      have b2 := hf2.2.2
      rw [forGs_len] at b1 b2
      simp only [forDone_len]
      exact lsIn_forCode (hf3.2.2.mono (by omega) (by omega)) (hf4.2.2.mono (by omega) (by omega))
        (hf5.2.2.mono (by omega) (by omega)) (b2.mono (by omega) (by omega)) ⟨Nat.le_refl _, by omega⟩
  | ls, .int v, he, isFn, c, gs, Γ, hfn, hg, hls | ls, .bool v, he, isFn, c, gs, Γ, hfn, hg, hls
  | ls, .str v, he, isFn, c, gs, Γ, hfn, hg, hls | ls, .nilLit, he, isFn, c, gs, Γ, hfn, hg, hls
  | ls, .sym x, he, isFn, c, gs, Γ, hfn, hg, hls | ls, .arr es, he, isFn, c, gs, Γ, hfn, hg, hls
  | ls, .call f args, he, isFn, c, gs, Γ, hfn, hg, hls | ls, .def_ x e, he, isFn, c, gs, Γ, hfn, hg, hls
  | ls, .set_ x e, he, isFn, c, gs, Γ, hfn, hg, hls | ls, .and_ es, he, isFn, c, gs, Γ, hfn, hg, hls
  | ls, .or_ es, he, isFn, c, gs, Γ, hfn, hg, hls => by
    rw [Fb] at he; exact total_of_Fc he isFn c gs hfn
  | ls, .fn _ _ _, he, _, _, _, _, _, _, _ | ls, .defn _ _ _ _, he, _, _, _, _, _, _, _
  | ls, .assign _ _, he, _, _, _, _, _, _, _ | ls, .bad _, he, _, _, _, _, _, _, _ => by
    simp [Fb] at he
theorem compileBegin_total_Fb : ∀ (ls : List (Option String)) (es : List Expr), es ≠ [] → FbList ls es = true →
    ∀ isFn c gs Γ, c.funcname = "" → GsOk Γ gs → Γ.map (·.label) = ls →
    ∃ code t gs', (compileBegin isFn c es).run gs = .ok ((code, t), gs') ∧ code ≠ [] ∧ TotRes gs gs' code
  | _, [], hne, _, _, _, _, _, _, _, _ => absurd rfl hne
  | ls, [e], _, he, isFn, c, gs, Γ, hfn, hg, hls => by
    rw [FbList] at he
    simp only [Bool.and_eq_true] at he
    rw [compileBegin]
    exact compile_total_Fb ls e he.1 isFn c gs Γ hfn hg hls
  | ls, e :: e' :: es, _, he, isFn, c, gs, Γ, hfn, hg, hls => by
    rw [FbList] at he
    simp only [Bool.and_eq_true] at he
    obtain ⟨a, ta, g1, ha, hane, hf1⟩ := compile_total_Fb ls e he.1 isFn { c with tail := false } gs Γ hfn hg hls
    obtain ⟨b, tb, g2, hb, _, hf2⟩ := compileBegin_total_Fb ls (e' :: es) (by simp) he.2 isFn c g1 Γ hfn (hg.ext hf1.1) hls
    refine ⟨a ++ (if a.isEmpty then [] else [.pop]) ++ b, tb, g2, ?_, by simp [hane],
      TotRes.seq hf1 hf2 (fun x y hx hy => by lsin)⟩
    rw [compileBegin]
    · simp only [g_bind_ok, g_pure_ok]
      exact ⟨_, _, ha, _, _, hb, rfl⟩
    · intro hh; cases hh
theorem compileBeginAny_total_Fb : ∀ (ls : List (Option String)) (es : List Expr), FbList ls es = true →
    ∀ isFn c gs Γ, c.funcname = "" → GsOk Γ gs → Γ.map (·.label) = ls →
    ∃ code t gs', (compileBegin isFn c es).run gs = .ok ((code, t), gs') ∧ TotRes gs gs' code
  | _, [], _, isFn, c, gs, _, _, _, _ => ⟨[], false, gs, by rw [compileBegin]; rfl, GExt.refl _, Nat.le_refl _, by lsin⟩
  | ls, e :: es, he, isFn, c, gs, Γ, hfn, hg, hls => by
    obtain ⟨code, t, g1, h1, _, hf1⟩ := compileBegin_total_Fb ls (e :: es) (by simp) he isFn c gs Γ hfn hg hls
    exact ⟨code, t, g1, h1, hf1⟩
theorem compileNewScope_total_Fb : ∀ (ls : List (Option String)) (es : List Expr), es ≠ [] → FbList ls es = true →
    ∀ isFn c oldtail gs Γ, c.funcname = "" → GsOk Γ gs → Γ.map (·.label) = ls →
    ∃ code t gs', (compileNewScope isFn c oldtail es).run gs = .ok ((code, t), gs') ∧ code ≠ [] ∧ TotRes gs gs' code
  | _, [], hne, _, _, _, _, _, _, _, _, _ => absurd rfl hne
  | ls, [e], _, he, isFn, c, oldtail, gs, Γ, hfn, hg, hls => by
    rw [FbList] at he
    simp only [Bool.and_eq_true] at he
    rw [compileNewScope]
    exact compile_total_Fb ls e he.1 isFn _ gs Γ hfn hg hls
  | ls, e :: e' :: es, _, he, isFn, c, oldtail, gs, Γ, hfn, hg, hls => by
    rw [FbList] at he
    simp only [Bool.and_eq_true] at he
    obtain ⟨a, ta, g1, ha, hane, hf1⟩ := compile_total_Fb ls e he.1 isFn { c with tail := false } gs Γ hfn hg hls
    obtain ⟨b, tb, g2, hb, _, hf2⟩ := compileNewScope_total_Fb ls (e' :: es) (by simp) he.2 isFn c oldtail g1 Γ hfn
      (hg.ext hf1.1) hls
    refine ⟨a ++ [.pop] ++ b, tb, g2, ?_, by simp, TotRes.seq hf1 hf2 (fun x y hx hy => by lsin)⟩
    rw [compileNewScope]
    · simp only [g_bind_ok, g_pure_ok]
      exact ⟨_, _, ha, _, _, hb, rfl⟩
    · intro hh; cases hh
theorem compileArms_total_Fb : ∀ (ls : List (Option String)) (arms : List (Expr × Expr)), FbArms ls arms = true →
    ∀ isFn c gs Γ, c.funcname = "" → GsOk Γ gs → Γ.map (·.label) = ls →
    ∃ as gs', (compileArms isFn c arms).run gs = .ok (as, gs') ∧ GExt gs gs' ∧ gs.loops.length ≤ gs'.loops.length
      ∧ ∀ p ∈ as, LsIn p.1 gs.loops.length gs'.loops.length ∧ LsIn p.2 gs.loops.length gs'.loops.length
  | _, [], _, isFn, c, gs, _, _, _, _ =>
    ⟨[], gs, by rw [compileArms]; rfl, GExt.refl _, Nat.le_refl _, fun _ h => by cases h⟩
  | ls, (p, b) :: arms, he, isFn, c, gs, Γ, hfn, hg, hls => by
    rw [FbArms] at he
    simp only [Bool.and_eq_true] at he
    obtain ⟨r, g1, hr, hf1, hl1, hin1⟩ := compileArms_total_Fb ls arms he.2 isFn c gs Γ hfn hg hls
    obtain ⟨pc, _, g2, hp, _, hf2⟩ := total_of_Fc he.1.1 isFn { c with tail := false } g1 hfn
    obtain ⟨bc, _, g3, hb, _, hf3⟩ := compile_total_Fb ls b he.1.2 isFn c g2 Γ hfn (hg.ext (hf1.trans hf2.1)) hls
    refine ⟨(pc, bc) :: r, g3, ?_, (hf1.trans hf2.1).trans hf3.1, Nat.le_trans hl1 (Nat.le_trans hf2.2.1 hf3.2.1), fun x hx => ?_⟩
    · rw [compileArms]
      simp only [g_bind_ok, g_pure_ok]
      exact ⟨_, _, hr, _, _, hp, _, _, hb, rfl⟩
    · rcases List.mem_cons.mp hx with rfl | hx
      · exact ⟨hf2.2.2.mono hl1 hf3.2.1, hf3.2.2.mono (Nat.le_trans hl1 hf2.2.1) (Nat.le_refl _)⟩
      · exact ⟨(hin1 x hx).1.mono (Nat.le_refl _) (Nat.le_trans hf2.2.1 hf3.2.1),
          (hin1 x hx).2.mono (Nat.le_refl _) (Nat.le_trans hf2.2.1 hf3.2.1)⟩
end

end ZygoVerif.Sim
