/-
C06 `lex_spacing`, part 2: a sequence of tokens written with blanks only where the lexer needs
them is lexed to exactly those tokens (induction over the token list).

`Piece` is one token as it is written; `Item = (gap, piece)` is a piece with the blanks before
it. `Sit` is what the lexer knows after the pieces read so far (`Pend`ing situation, queue, last
rune); `afterPiece` is the situation after the next item, `stepOK` the condition under which the
lexer model really gets there, and `LegalFrom` asks for it at every item. The side conditions of
`stepOK` in the tight case (`g = []`) are the content:
  * two words need a blank (`startOK`: a word must start on an empty buffer);
  * a signed numeral must follow a rune after which a sign may start a number;
  * a one-rune operator directly followed by a rune that completes a two-rune operator
    (`opMerges`) or, for `-` after such a rune, by a digit (`signGlues`) — the sign look-back;
  * `/` directly followed by `/`, `*` or `=`;
  * `+`/`-` directly after a pending `…e` whose front is a numeral (`sciGlues`).
`Spec/Spacing.lean` states these conditions on the characters alone; `Proofs/LexSpacingSpec.lean`
shows that they imply `LegalFrom`.
-/
import ZygoVerif.Proofs.LexSpacingSteps
namespace ZygoVerif.Lexer
open ZygoVerif.PrintData

/-- one token of an infix block as it is written -/
inductive Piece where
  | word (w : List Char)       -- name, dotted path, numeral
  | op1 (o : Char)             -- one-rune operator + - * < > = ! & |
  | op2 (o c : Char)           -- two-rune operator of BuiltinOpRegex
  | slash                      -- /
  | assign                     -- :=
  | brace (c : Char)           -- ( ) [ ] { }
  | sep (c : Char)             -- , ;
  | str (cs : List Char)       -- "…" as strconv.Quote writes it
  | chr (v : Nat)              -- '…' as strconv.QuoteRune writes it
  deriving Repr, DecidableEq

namespace Piece

def text : Piece → List Char
  | word w => w
  | op1 o => [o]
  | op2 o c => [o, c]
  | slash => ['/']
  | assign => [':', '=']
  | brace c => [c]
  | sep c => [c]
  | str cs => quoteStr cs
  | chr v => quoteRune v

/-- the tokens the piece stands for -/
def toks : Piece → List Token
  | word w => flush w
  | op1 o => [⟨.symbol, [o]⟩]
  | op2 o c => [op2Tok o c]
  | slash => [⟨.symbol, ['/']⟩]
  | assign => [⟨.freshAssign, ":=".toList⟩]
  | brace c => [braceTok c]
  | sep c => [sepTok c]
  | str cs => [⟨.string, cs⟩]
  | chr v => [⟨.char, [Char.ofNat v]⟩]

/-- well-formed pieces -/
def OK : Piece → Prop
  | word w => WordText w
  | op1 o => isOpRune o = true
  | op2 o c => isOpRune o = true ∧ opMerges o c = true
  | slash => True
  | assign => True
  | brace c => isBrace c = true
  | sep c => c = ',' ∨ c = ';'
  | str _ => True
  | chr v => v.isValidChar

/-- first rune of the text (`'\x00'` never occurs: every text is non-empty) -/
def first (R : Piece) : Char := R.text.headD '\x00'

end Piece

/-- what the lexer knows between two pieces -/
structure Sit where
  q : Pend
  T : List Token
  l : Char

/-- invariants of a situation: the pending buffer is a well-formed atom; in the look-ahead
states the last rune is the operator rune -/
def Sit.Good (σ : Sit) : Prop :=
  match σ.q with
  | .norm b => Flushable b
  | .op1 o _ => σ.l = o ∧ isOpRune o = true
  | .slash b => σ.l = '/' ∧ Flushable b

/-- tokens read so far, the owed ones included -/
def Sit.all (σ : Sit) : List Token := σ.T ++ σ.q.owes

/-- condition on the piece that starts on a normal situation with buffer `b` after rune `l` -/
def startOK (b : List Char) (l : Char) : Piece → Prop
  | .word w => b = [] ∧ (negStart w = true → canStartSignedNumberAfter l = true)
  | .str _ => b = []
  | .chr _ => b = []
  | .op1 o => sciGlues b l o = false
  | .op2 o _ => sciGlues b l o = false
  | _ => True

/-- the situation after piece `R` read from the normal situation (buffer `b`, queue `T`, last rune `l`) -/
def afterFrom (b : List Char) (T : List Token) (l : Char) (R : Piece) : Sit :=
  match R with
  | .word w => ⟨.norm w, T ++ flush b, lastOf l w⟩
  | .op1 o => ⟨.op1 o l, T ++ flush b, o⟩
  | .slash => ⟨.slash b, T, '/'⟩
  | R => ⟨.norm [], T ++ flush b ++ R.toks, lastOf l R.text⟩

theorem afterFrom_all (b : List Char) (T : List Token) (l : Char) (R : Piece) :
    (afterFrom b T l R).all = T ++ flush b ++ R.toks := by
  cases R <;> simp [afterFrom, Sit.all, Pend.owes, Piece.toks, flush]

theorem afterFrom_good (b : List Char) (T : List Token) (l : Char) (R : Piece) (hR : R.OK) (hf : Flushable b) :
    (afterFrom b T l R).Good := by
  cases R with
  | word w => exact hR.flushable
  | op1 o => exact ⟨rfl, hR⟩
  | slash => exact ⟨rfl, hf⟩
  | _ => exact Or.inl rfl

theorem afterFrom_l (b : List Char) (T : List Token) (l : Char) (R : Piece) :
    (afterFrom b T l R).l = lastOf l R.text := by
  cases R <;> simp [afterFrom, Piece.text]

theorem opMerges_second : ∀ o c, opMerges o c = true → c ∈ ['+', '-', '=', '>', '*', '!', '&', '|'] := by
  intro o c hm
  simp only [opMerges, builtinOpRe, List.any_eq_true] at hm
  obtain ⟨x, hx, he⟩ := hm
  have he' : x.toList = [o, c] := by simpa using he
  have : builtinOps.all (fun x => match x.toList with
      | [_, c] => ['+', '-', '=', '>', '*', '!', '&', '|'].contains c | _ => true) = true := by decide
  have h := List.all_eq_true.1 this x hx
  rw [he'] at h
  simpa using h

/-- **one piece from a normal situation** -/
theorem lexP_piece (R : Piece) (hR : R.OK) (b : List Char) (T : List Token) (l : Char) (hf : Flushable b)
    (hs : startOK b l R) :
    LexP (.norm b) T l R.text (afterFrom b T l R).q (afterFrom b T l R).T (afterFrom b T l R).l := by
  cases R with
  | word w =>
    obtain ⟨rfl, hl⟩ := hs
    have := lex_word hR T l hl
    simpa [afterFrom, flush, Piece.text] using this
  | op1 o => exact lexP_opRune b T l o hR hf hs
  | op2 o c =>
    have h1 := lexP_opRune b T l o hR.1 hf hs
    have hd : isDig c = false := by
      have ho : o ∈ ['+', '-', '*', '<', '>', '=', '!', '&', '|', '/'] := by
        have := hR.1
        simp only [isOpRune, Bool.or_eq_true, beq_iff_eq] at this
        rcases this with (((((((rfl | rfl) | rfl) | rfl) | rfl) | rfl) | rfl) | rfl) | rfl <;> simp
      exact opMerges_not_digit o ho c hR.2
    have hdot : c ≠ '.' := by
      have := opMerges_second o c hR.2
      intro he; subst he; simp at this
    have h2 := lexP_op2 o l c (T ++ flush b) hR.2 hd hdot
    have := LexP.trans h1 h2
    simpa [afterFrom, Piece.text, Piece.toks, lastOf] using this
  | slash => exact lexP_slash b T l
  | assign =>
    have := lexP_freshAssign b T l hf
    simpa [afterFrom, Piece.text, Piece.toks, lastOf] using this
  | brace c =>
    have := lexP_brace b T l c hR hf
    simpa [afterFrom, Piece.text, Piece.toks, lastOf] using this
  | sep c =>
    have := lexP_sep b T l c hR hf
    simpa [afterFrom, Piece.text, Piece.toks, lastOf] using this
  | str cs =>
    have hb : b = [] := hs
    subst hb
    have h := LexP.of_Lex (lex_string cs T l)
    have hl : lastOf l (quoteStr cs) = '"' := by simp [quoteStr, lastOf_append]
    simpa [afterFrom, Piece.text, Piece.toks, flush, hl] using h
  | chr v =>
    have hb : b = [] := hs
    subst hb
    have h := LexP.of_Lex (lex_char v hR T l)
    have hl : lastOf l (quoteRune v) = '\'' := by
      have hv : v.isValidChar := hR
      have : quoteRune v = '\'' :: (escapedRune (Char.ofNat v) '\'' ++ ['\'']) := by simp [quoteRune, hv]
      rw [this]; simp [lastOf_append]
    simpa [afterFrom, Piece.text, Piece.toks, flush, hl] using h

/-! ## items -/

abbrev Item := List Char × Piece

def renderItems : List Item → List Char
  | [] => []
  | (g, R) :: rest => g ++ R.text ++ renderItems rest

/-- buffer and queue the next piece starts on -/
def baseOf (σ : Sit) (g : List Char) : List Char × List Token :=
  match g, σ.q with
  | [], .norm b => (b, σ.T)
  | _, _ => ([], σ.all)

def afterPiece (σ : Sit) (g : List Char) (R : Piece) : Sit :=
  afterFrom (baseOf σ g).1 (baseOf σ g).2 (lastOf σ.l g) R

/-- the text of the next piece does not interact with the pending situation (`c` its first rune);
`-.` where a signed number may start is followed by a rune that is no digit -/
def noGlue (q : Pend) (text : List Char) : Prop :=
  let c := text.headD '\x00'
  match q with
  | .norm _ => True
  | .op1 o p => opMerges o c = false ∧ signGlues o p c = false ∧
      (dotGlues o p c = true → ∃ x rest, text = '.' :: x :: rest ∧ isDig x = false)
  | .slash _ => c ≠ '/' ∧ c ≠ '*' ∧ opMerges '/' c = false

def stepOK (σ : Sit) (g : List Char) (R : Piece) : Prop :=
  (∀ c ∈ g, isBlank c = true) ∧ R.OK ∧ startOK (baseOf σ g).1 (lastOf σ.l g) R ∧ (g = [] → noGlue σ.q R.text)

def LegalFrom (σ : Sit) : List Item → Prop
  | [] => True
  | (g, R) :: rest => stepOK σ g R ∧ LegalFrom (afterPiece σ g R) rest

def runSit (σ : Sit) : List Item → Sit
  | [] => σ
  | (g, R) :: rest => runSit (afterPiece σ g R) rest

theorem LexP.settle_minusDot {p x : Char} {rest : List Char} {T T' : List Token} {q' : Pend} {l' : Char}
    (hp : canStartSignedNumberAfter p = true) (hx : isDig x = false)
    (h : LexP (.norm []) (T ++ [⟨.symbol, ['-']⟩]) '-' ('.' :: x :: rest) q' T' l') :
    LexP (.op1 '-' p) T '-' ('.' :: x :: rest) q' T' l' := by
  intro s hs
  obtain ⟨s0, h0, he⟩ := feed_settle_minusDot s p x T hs hp hx
  obtain ⟨s', hf, hs'⟩ := h s0 h0
  refine ⟨s', ?_, hs'⟩
  have e : ('.' :: x :: rest) = ['.', x] ++ rest := rfl
  rw [e, feed_append, he, ← feed_append, ← e]
  exact hf

theorem LexP.settle_op1 {o p c : Char} {rest : List Char} {T T' : List Token} {q' : Pend} {l' : Char}
    (hm : opMerges o c = false) (hg : signGlues o p c = false) (hd : dotGlues o p c = false)
    (h : LexP (.norm []) (T ++ [⟨.symbol, [o]⟩]) o (c :: rest) q' T' l') : LexP (.op1 o p) T o (c :: rest) q' T' l' := by
  intro s hs
  obtain ⟨s0, h0, he⟩ := step_settle_op1 s o p c T hs hm hg hd
  obtain ⟨s', hf, hs'⟩ := h s0 h0
  exact ⟨s', by rw [feed_ok_cons, he, ← feed_ok_cons]; exact hf, hs'⟩

theorem LexP.settle_slash {b : List Char} {c : Char} {rest : List Char} {T T' : List Token} {q' : Pend} {l' : Char}
    (hf : Flushable b) (h1 : c ≠ '/') (h2 : c ≠ '*') (hm : opMerges '/' c = false)
    (h : LexP (.norm []) (T ++ flush b ++ [⟨.symbol, ['/']⟩]) '/' (c :: rest) q' T' l') :
    LexP (.slash b) T '/' (c :: rest) q' T' l' := by
  intro s hs
  obtain ⟨s0, h0, he⟩ := step_settle_slash s b c T hs hf h1 h2 hm
  obtain ⟨s', hf', hs'⟩ := h s0 h0
  exact ⟨s', by rw [feed_ok_cons, he, ← feed_ok_cons]; exact hf', hs'⟩

theorem opMerges_blank (o c : Char) (hc : isBlank c = true) : opMerges o c = false := by
  rw [Bool.eq_false_iff]
  intro hm
  have := opMerges_second o c hm
  simp only [isBlank, Bool.or_eq_true, beq_iff_eq] at hc
  simp only [List.mem_cons, List.not_mem_nil, or_false] at this
  rcases hc with ((rfl | rfl) | rfl) | rfl <;> simp at this

theorem isDig_blank (c : Char) (hc : isBlank c = true) : isDig c = false := by
  simp only [isBlank, Bool.or_eq_true, beq_iff_eq] at hc
  rcases hc with ((rfl | rfl) | rfl) | rfl <;> decide

theorem blank_ne (c : Char) (hc : isBlank c = true) : c ≠ '/' ∧ c ≠ '*' := by
  simp only [isBlank, Bool.or_eq_true, beq_iff_eq] at hc
  rcases hc with ((rfl | rfl) | rfl) | rfl <;> decide

/-- **a blank settles every pending situation** -/
theorem lexP_blank_any (σ : Sit) (hg : σ.Good) (c : Char) (hc : isBlank c = true) :
    LexP σ.q σ.T σ.l [c] (.norm []) σ.all c := by
  obtain ⟨q, T, l⟩ := σ
  cases q with
  | norm b => exact lexP_blank b T l c hc hg
  | op1 o p =>
    have hl : l = o := hg.1
    subst hl
    have h := lexP_blank [] (T ++ [⟨.symbol, [l]⟩]) l c hc (Or.inl rfl)
    have hcd : c ≠ '.' := by
      simp only [isBlank, Bool.or_eq_true, beq_iff_eq] at hc
      rcases hc with ((rfl | rfl) | rfl) | rfl <;> decide
    have := LexP.settle_op1 (p := p) (opMerges_blank l c hc) (by simp [signGlues, isDig_blank c hc]) (by simp [dotGlues, hcd]) h
    simpa [Sit.all, Pend.owes, flush] using this
  | slash b =>
    have hl : l = '/' := hg.1
    have hf : Flushable b := hg.2
    subst hl
    have h := lexP_blank [] (T ++ flush b ++ [⟨.symbol, ['/']⟩]) '/' c hc (Or.inl rfl)
    have := LexP.settle_slash hf (blank_ne c hc).1 (blank_ne c hc).2 (opMerges_blank '/' c hc) h
    simpa [Sit.all, Pend.owes, flush] using this

/-- a non-empty gap: the first blank settles, the others are skipped -/
theorem lexP_gap (σ : Sit) (hg : σ.Good) (c : Char) (g : List Char) (hc : ∀ x ∈ c :: g, isBlank x = true) :
    LexP σ.q σ.T σ.l (c :: g) (.norm []) σ.all (lastOf σ.l (c :: g)) := by
  have h1 := lexP_blank_any σ hg c (hc c (by simp))
  have h2 := lexP_blanks g (fun x hx => hc x (by simp [hx])) σ.all c
  have := LexP.trans h1 h2
  simpa using this

theorem Piece.text_ne_nil (R : Piece) (hR : R.OK) : R.text ≠ [] := by
  cases R with
  | word w => exact hR.ne_nil
  | str cs => simp [Piece.text, quoteStr]
  | chr v => simp [Piece.text, quoteRune]
  | _ => simp [Piece.text]

/-- **one item** -/
theorem lexP_item (σ : Sit) (hg : σ.Good) (g : List Char) (R : Piece) (h : stepOK σ g R) :
    LexP σ.q σ.T σ.l (g ++ R.text) (afterPiece σ g R).q (afterPiece σ g R).T (afterPiece σ g R).l := by
  obtain ⟨hblank, hR, hstart, hglue⟩ := h
  cases g with
  | cons c g =>
    have h1 := lexP_gap σ hg c g hblank
    have hb : baseOf σ (c :: g) = ([], σ.all) := by simp [baseOf]
    rw [hb] at hstart
    have h2 := lexP_piece R hR [] σ.all (lastOf σ.l (c :: g)) (Or.inl rfl) hstart
    have := LexP.trans h1 h2
    simpa [afterPiece, hb] using this
  | nil =>
    obtain ⟨q, T, l⟩ := σ
    have hne := R.text_ne_nil hR
    cases q with
    | norm b =>
      have h2 := lexP_piece R hR b T l hg (by simpa [baseOf] using hstart)
      simpa [afterPiece, baseOf] using h2
    | op1 o p =>
      have hl : l = o := hg.1
      subst hl
      have hb : baseOf ⟨.op1 l p, T, l⟩ [] = ([], T ++ [⟨.symbol, [l]⟩]) := by simp [baseOf, Sit.all, Pend.owes]
      rw [hb] at hstart
      have h2 := lexP_piece R hR [] (T ++ [⟨.symbol, [l]⟩]) l (Or.inl rfl) (by simpa using hstart)
      obtain ⟨hm, hsg, hdg⟩ := hglue rfl
      cases ht : R.text with
      | nil => exact absurd ht hne
      | cons c rest =>
        simp only [ht, List.headD_cons] at hm hsg hdg
        by_cases hd : dotGlues l p c = true
        · obtain ⟨x, rest', htx, hx⟩ := hdg hd
          simp only [dotGlues, Bool.and_eq_true, beq_iff_eq] at hd
          obtain ⟨⟨hl, hp⟩, _⟩ := hd
          subst hl
          rw [ht, htx] at h2
          have := LexP.settle_minusDot hp hx h2
          rw [htx]
          simpa [afterPiece, hb, ht, htx] using this
        · rw [ht] at h2
          have := LexP.settle_op1 hm hsg (by simpa using hd) h2
          simpa [afterPiece, hb] using this
    | slash b =>
      have hl : l = '/' := hg.1
      have hf : Flushable b := hg.2
      subst hl
      have hb : baseOf ⟨.slash b, T, '/'⟩ [] = ([], T ++ flush b ++ [⟨.symbol, ['/']⟩]) := by
        simp [baseOf, Sit.all, Pend.owes]
      rw [hb] at hstart
      have h2 := lexP_piece R hR [] (T ++ flush b ++ [⟨.symbol, ['/']⟩]) '/' (Or.inl rfl) (by simpa using hstart)
      obtain ⟨hc1, hc2, hm⟩ := hglue rfl
      cases ht : R.text with
      | nil => exact absurd ht hne
      | cons c rest =>
        simp only [ht, List.headD_cons] at hc1 hc2 hm
        rw [ht] at h2
        have := LexP.settle_slash hf hc1 hc2 hm h2
        simpa [afterPiece, hb] using this

theorem baseOf_flushable (σ : Sit) (hg : σ.Good) (g : List Char) : Flushable (baseOf σ g).1 := by
  obtain ⟨q, T, l⟩ := σ
  cases g with
  | cons c g => exact Or.inl (by simp [baseOf])
  | nil =>
    cases q with
    | norm b => exact hg
    | op1 o p => exact Or.inl (by simp [baseOf])
    | slash b => exact Or.inl (by simp [baseOf])

theorem baseOf_all (σ : Sit) (g : List Char) : (baseOf σ g).2 ++ flush (baseOf σ g).1 = σ.all := by
  obtain ⟨q, T, l⟩ := σ
  cases g with
  | cons c g => simp [baseOf, flush]
  | nil => cases q <;> simp [baseOf, flush, Sit.all, Pend.owes]

theorem afterPiece_good (σ : Sit) (hg : σ.Good) (g : List Char) (R : Piece) (hR : R.OK) : (afterPiece σ g R).Good :=
  afterFrom_good _ _ _ R hR (baseOf_flushable σ hg g)

theorem afterPiece_all (σ : Sit) (g : List Char) (R : Piece) : (afterPiece σ g R).all = σ.all ++ R.toks := by
  rw [afterPiece, afterFrom_all, baseOf_all]

/-- **all items** (induction over the token list) -/
theorem lexP_items (items : List Item) (σ : Sit) (hg : σ.Good) (h : LegalFrom σ items) :
    LexP σ.q σ.T σ.l (renderItems items) (runSit σ items).q (runSit σ items).T (runSit σ items).l ∧
    (runSit σ items).Good ∧ (runSit σ items).all = σ.all ++ items.flatMap (fun it => it.2.toks) := by
  induction items generalizing σ with
  | nil => exact ⟨LexP.nil _ _ _, hg, by simp [runSit]⟩
  | cons it rest ih =>
    obtain ⟨g, R⟩ := it
    obtain ⟨h1, h2⟩ := h
    have hgood := afterPiece_good σ hg g R h1.2.1
    obtain ⟨i1, i2, i3⟩ := ih (afterPiece σ g R) hgood h2
    refine ⟨?_, i2, ?_⟩
    · have := LexP.trans (lexP_item σ hg g R h1) i1
      simpa [renderItems, runSit, List.append_assoc] using this
    · simp only [runSit, i3, afterPiece_all, List.flatMap_cons, List.append_assoc]

/-- the tokens of a piece sequence -/
def itemToks (items : List Item) : List Token := items.flatMap (fun it => it.2.toks)

/-- **lex_spacing (lexer model)**: from the normal state with an empty buffer, a legal spacing of
the pieces followed by a blank is lexed to exactly their tokens; nothing is left pending. -/
theorem lex_spacing_blank (items : List Item) (T : List Token) (l0 c : Char) (hc : isBlank c = true)
    (h : LegalFrom ⟨.norm [], T, l0⟩ items) :
    Lex ⟨.normal, [], T, l0⟩ (renderItems items ++ [c]) ⟨.normal, [], T ++ itemToks items, c⟩ := by
  obtain ⟨h1, h2, h3⟩ := lexP_items items ⟨.norm [], T, l0⟩ (Or.inl rfl) h
  have h4 := lexP_blank_any _ h2 c hc
  have := LexP.trans h1 h4
  rw [h3] at this
  intro s hs
  obtain ⟨s', hf, hs'⟩ := this s ((inPend_norm_iff s [] T l0).2 hs)
  refine ⟨s', hf, (inPend_norm_iff s' [] _ c).1 ?_⟩
  simpa [Sit.all, Pend.owes, flush, itemToks] using hs'

end ZygoVerif.Lexer
