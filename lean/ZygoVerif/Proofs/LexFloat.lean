/-
Floats and uint64 as the printer writes them.

`strconv.FormatFloat`/`ParseFloat` are not modelled: they enter through `FloatLaw ff`, an
explicit hypothesis about the formatting function `ff` (DESIGN §5) — the SHAPE of the text of a
finite float (`[-]digits[.digits][e(+|-)digits]`, with a fraction or an exponent once
`SexpFloat.SexpString` has appended `.0` to a whole number: fix C12-03), and the PARSE-BACK law
(`ParseFloat` of that text is the float). From the shape alone it is proved here that the text is
lexed as ONE atom, classified as a FLOAT token (not an integer), and converted by the
`TokenFloat` case to the same float with the same `Scientific` flag.
-/
import ZygoVerif.Proofs.LexNumbers
namespace ZygoVerif.Lexer
open ZygoVerif.PrintData ZygoVerif.NumLit

/-! ## the shape of a printed finite float -/

structure FloatParts where
  neg : Bool
  ip : List Char                      -- integer digits
  fp : Option (List Char)             -- fraction digits
  ex : Option (Char × List Char)      -- exponent sign and digits
  deriving Repr

def fracText : Option (List Char) → List Char
  | none => []
  | some f => '.' :: f

def expText : Option (Char × List Char) → List Char
  | none => []
  | some (s, ds) => 'e' :: s :: ds

def FloatParts.mant (p : FloatParts) : List Char :=
  (if p.neg then ['-'] else []) ++ p.ip ++ fracText p.fp

def FloatParts.render (p : FloatParts) : List Char :=
  p.mant ++ expText p.ex

def digitsOK (ds : List Char) : Prop := ds ≠ [] ∧ ∀ c ∈ ds, isDig c = true

structure FloatParts.Valid (p : FloatParts) : Prop where
  ip : digitsOK p.ip
  fp : ∀ f, p.fp = some f → digitsOK f
  ex : ∀ s ds, p.ex = some (s, ds) → (s = '+' ∨ s = '-') ∧ digitsOK ds
  isFloat : p.fp.isSome = true ∨ p.ex.isSome = true

def isFiniteBits (b : Nat) : Bool := decide (b < 2 ^ 64) && (b / 2 ^ 52) % 2048 != 2047

/-- **The law assumed of `strconv.FormatFloat` / `ParseFloat`** (sampled on every run by the `rt`
channel over all binades): what `SexpFloat.SexpString` prints for a finite float has the shape
above, carries an exponent exactly when the `'e'` format was asked for, and `ParseFloat` of it is
the float. -/
def FloatLaw (ff : FloatFmt) : Prop :=
  ∀ b sci, isFiniteBits b = true →
    ∃ p : FloatParts, p.Valid ∧ printFloat ff b sci = p.render ∧ (p.ex.isSome = sci) ∧ parseFloat p.render = some b

/-! ## the classification of such a text -/

theorem dropWhile_digits (ds : List Char) (hd : ∀ c ∈ ds, isDig c = true) (x : Char) (rest : List Char)
    (hx : isDigU x = false) : (ds ++ x :: rest).dropWhile isDigU = x :: rest := by
  induction ds with
  | nil => simp [List.dropWhile, hx]
  | cons d r ih =>
    have : isDigU d = true := by simp [isDigU, hd d (by simp)]
    simp only [List.cons_append, List.dropWhile_cons, this, ↓reduceIte]
    exact ih (fun c hc => hd c (by simp [hc]))

theorem dropWhile_digits_nil (ds : List Char) (hd : ∀ c ∈ ds, isDig c = true) : ds.dropWhile isDigU = [] := by
  induction ds with
  | nil => rfl
  | cons d r ih =>
    have : isDigU d = true := by simp [isDigU, hd d (by simp)]
    simp only [List.dropWhile_cons, this, ↓reduceIte]
    exact ih (fun c hc => hd c (by simp [hc]))

theorem digThenDigU_digits (ds : List Char) (h : digitsOK ds) : digThenDigU ds = true := by
  obtain ⟨hne, hd⟩ := h
  cases ds with
  | nil => exact absurd rfl hne
  | cons d r =>
    simp only [digThenDigU, hd d (by simp), Bool.true_and, List.all_eq_true]
    intro c hc; simp [isDigU, hd c (by simp [hc])]

/-- the exponent `e(+|-)digits` -/
theorem exp_ok (s : Char) (ds : List Char) (hs : s = '+' ∨ s = '-') (hd : digitsOK ds) :
    isE 'e' = true ∧ expPart (s :: ds) = true := by
  refine ⟨by decide, ?_⟩
  rcases hs with rfl | rfl <;> simp [expPart, digThenDigU_digits ds hd]

theorem isDig_ne_dot (d : Char) (h : isDig d = true) : d ≠ '.' := by
  intro hd; subst hd; revert h; decide

theorem floatBody_dot_end (d : Char) (r r2 : List Char) (hdd : isDig d = true)
    (h1 : r.dropWhile isDigU = '.' :: r2) (h2 : r2.dropWhile isDigU = []) : floatBody (d :: r) = true := by
  unfold floatBody
  split
  · rename_i heq; simp only [List.cons.injEq] at heq; exact absurd heq.1 (isDig_ne_dot d hdd)
  · rename_i _ c r' _ heq
    simp only [List.cons.injEq] at heq; obtain ⟨rfl, rfl⟩ := heq
    simp [hdd, h1, h2]
  · rename_i heq; simp at heq

theorem floatBody_dot_exp (d : Char) (r r2 : List Char) (e : Char) (ex : List Char) (hdd : isDig d = true)
    (h1 : r.dropWhile isDigU = '.' :: r2) (h2 : r2.dropWhile isDigU = e :: ex) (he : isE e = true)
    (hx : expPart ex = true) : floatBody (d :: r) = true := by
  unfold floatBody
  split
  · rename_i heq; simp only [List.cons.injEq] at heq; exact absurd heq.1 (isDig_ne_dot d hdd)
  · rename_i _ c r' _ heq
    simp only [List.cons.injEq] at heq; obtain ⟨rfl, rfl⟩ := heq
    simp [hdd, h1, h2, he, hx]
  · rename_i heq; simp at heq

theorem floatBody_exp (d : Char) (r : List Char) (e : Char) (ex : List Char) (hdd : isDig d = true)
    (h1 : r.dropWhile isDigU = e :: ex) (hne : e ≠ '.') (he : isE e = true) (hx : expPart ex = true) :
    floatBody (d :: r) = true := by
  unfold floatBody
  split
  · rename_i heq; simp only [List.cons.injEq] at heq; exact absurd heq.1 (isDig_ne_dot d hdd)
  · rename_i _ c r' _ heq
    simp only [List.cons.injEq] at heq; obtain ⟨rfl, rfl⟩ := heq
    simp only [hdd, ↓reduceIte, h1]
    first
      | (simp [he, hx]; done)
      | (split
         · rename_i heq2; simp only [List.cons.injEq] at heq2; exact absurd heq2.1 hne
         · rename_i heq2; simp only [List.cons.injEq] at heq2; obtain ⟨rfl, rfl⟩ := heq2; simp [he, hx]
         · rename_i heq2; simp at heq2)
  · rename_i heq; simp at heq

/-- `floatBody` accepts `digits[.digits][e±digits]` with a fraction or an exponent -/
theorem floatBody_parts (ip : List Char) (fp : Option (List Char)) (ex : Option (Char × List Char))
    (hip : digitsOK ip) (hfp : ∀ f, fp = some f → digitsOK f)
    (hex : ∀ s ds, ex = some (s, ds) → (s = '+' ∨ s = '-') ∧ digitsOK ds)
    (hfl : fp.isSome = true ∨ ex.isSome = true) :
    floatBody (ip ++ fracText fp ++ expText ex) = true := by
  obtain ⟨hne, hd⟩ := hip
  cases ip with
  | nil => exact absurd rfl hne
  | cons d r =>
    have hdd : isDig d = true := hd d (by simp)
    have hr : ∀ c ∈ r, isDig c = true := fun c hc => hd c (by simp [hc])
    have hdotU : isDigU '.' = false := by decide
    have heU : isDigU 'e' = false := by decide
    cases fp with
    | some f =>
      obtain ⟨hfne, hfd⟩ := hfp f rfl
      cases ex with
      | none =>
        have h1 : (r ++ '.' :: f).dropWhile isDigU = '.' :: f := dropWhile_digits r hr '.' f hdotU
        have := floatBody_dot_end d (r ++ '.' :: f) f hdd h1 (dropWhile_digits_nil f hfd)
        simpa [fracText, expText] using this
      | some sd =>
        obtain ⟨s, ds⟩ := sd
        obtain ⟨hs, hds⟩ := hex s ds rfl
        obtain ⟨he1, he2⟩ := exp_ok s ds hs hds
        have h1 : (r ++ '.' :: (f ++ 'e' :: s :: ds)).dropWhile isDigU = '.' :: (f ++ 'e' :: s :: ds) :=
          dropWhile_digits r hr '.' _ hdotU
        have h2 : (f ++ 'e' :: s :: ds).dropWhile isDigU = 'e' :: s :: ds := dropWhile_digits f hfd 'e' _ heU
        have := floatBody_dot_exp d _ _ 'e' (s :: ds) hdd h1 h2 he1 he2
        simpa [fracText, expText] using this
    | none =>
      cases ex with
      | none => simp at hfl
      | some sd =>
        obtain ⟨s, ds⟩ := sd
        obtain ⟨hs, hds⟩ := hex s ds rfl
        obtain ⟨he1, he2⟩ := exp_ok s ds hs hds
        have h1 : (r ++ 'e' :: s :: ds).dropWhile isDigU = 'e' :: s :: ds := dropWhile_digits r hr 'e' _ heU
        have := floatBody_exp d _ 'e' (s :: ds) hdd h1 (by decide) he1 he2
        simpa [fracText, expText] using this

end ZygoVerif.Lexer

namespace ZygoVerif.Lexer
open ZygoVerif.PrintData ZygoVerif.NumLit

/-- the cascade up to `FloatRegex` -/
theorem decodeAtom_float_of (a : List Char) (h0 : a.getLast? ≠ some ':') (h1 : a ≠ ['&']) (h2 : a ≠ ['\\'])
    (h3 : boolRe a = false) (h4 : uint64Re a = false) (h5 : decimalRe a = false) (h6 : hexRe a = false)
    (h7 : octRe a = false) (h8 : binaryRe a = false) (h9 : floatRe a = true) :
    decodeAtom a = .ok ⟨.float, a⟩ := by
  unfold decodeAtom
  have hc : (a.getLast? == some ':') = false := by simpa using h0
  simp only [hc, Bool.false_eq_true, ↓reduceIte]
  have e1 : (a == ['&']) = false := by simpa using h1
  have e2 : (a == ['\\']) = false := by simpa using h2
  simp only [e1, e2, h3, h4, h5, h6, h7, h8, h9, Bool.false_eq_true, ↓reduceIte]

/-- the part of the text after the sign -/
def FloatParts.body (p : FloatParts) : List Char := p.ip ++ fracText p.fp ++ expText p.ex

theorem FloatParts.render_eq (p : FloatParts) : p.render = (if p.neg then ['-'] else []) ++ p.body := by
  simp [FloatParts.render, FloatParts.mant, FloatParts.body, List.append_assoc]

/-- the runes after the integer digits: not empty, starting with `.` or `e` -/
def FloatParts.tail (p : FloatParts) : List Char := fracText p.fp ++ expText p.ex

theorem FloatParts.body_eq (p : FloatParts) : p.body = p.ip ++ p.tail := by
  simp [FloatParts.body, FloatParts.tail, List.append_assoc]

theorem FloatParts.tail_head (p : FloatParts) (hv : p.Valid) : ∃ x r, p.tail = x :: r ∧ (x = '.' ∨ x = 'e') := by
  unfold FloatParts.tail
  cases hfp : p.fp with
  | some f => exact ⟨'.', _, rfl, Or.inl rfl⟩
  | none =>
    cases hex : p.ex with
    | some sd => obtain ⟨s, ds⟩ := sd; exact ⟨'e', s :: ds, by simp [fracText, expText], Or.inr rfl⟩
    | none => have := hv.isFloat; simp [hfp, hex] at this

theorem FloatParts.last_digit (p : FloatParts) (hv : p.Valid) : ∃ c, p.render.getLast? = some c ∧ isDig c = true := by
  have key : ∀ (pre ds : List Char), digitsOK ds → ∃ c, (pre ++ ds).getLast? = some c ∧ isDig c = true := by
    intro pre ds hds
    obtain ⟨hne, hd⟩ := hds
    refine ⟨ds.getLast hne, ?_, hd _ (List.getLast_mem hne)⟩
    rw [List.getLast?_append, List.getLast?_eq_some_getLast hne]; rfl
  unfold FloatParts.render
  cases hex : p.ex with
  | some sd =>
    obtain ⟨s, ds⟩ := sd
    have := key (p.mant ++ ['e', s]) ds (hv.ex s ds hex).2
    simpa [expText, List.append_assoc] using this
  | none =>
    cases hfp : p.fp with
    | some f =>
      have := key ((if p.neg then ['-'] else []) ++ p.ip ++ ['.']) f (hv.fp f hfp)
      simpa [FloatParts.mant, hfp, fracText, expText, List.append_assoc] using this
    | none => have := hv.isFloat; simp [hfp, hex] at this

theorem digThenDigU_false_of_mem (d : Char) (r : List Char) (x : Char) (hx : x ∈ r) (hnx : isDigU x = false) :
    digThenDigU (d :: r) = false := by
  simp only [digThenDigU, Bool.and_eq_false_iff]
  right
  rw [Bool.eq_false_iff]
  intro hall
  rw [List.all_eq_true] at hall
  have := hall x hx
  rw [hnx] at this; cases this

theorem based_second (c1 c2 : Char) (r : List Char) (h : c2 ≠ 'x' ∧ c2 ≠ 'o' ∧ c2 ≠ 'b') :
    hexRe (c1 :: c2 :: r) = false ∧ octRe (c1 :: c2 :: r) = false ∧ binaryRe (c1 :: c2 :: r) = false := by
  refine ⟨?_, ?_, ?_⟩
  · unfold hexRe; split
    · rename_i heq; simp only [List.cons.injEq] at heq; exact absurd heq.2.1 h.1
    · rfl
  · unfold octRe; split
    · rename_i heq; simp only [List.cons.injEq] at heq; exact absurd heq.2.1 h.2.1
    · rfl
  · unfold binaryRe; split
    · rename_i heq; simp only [List.cons.injEq] at heq; exact absurd heq.2.1 h.2.2
    · rfl

theorem isDig_not_xob (c : Char) (h : isDig c = true) : c ≠ 'x' ∧ c ≠ 'o' ∧ c ≠ 'b' := by
  refine ⟨?_, ?_, ?_⟩ <;> (intro hc; subst hc; revert h; decide)

/-- **classification**: a text of the float shape is a FLOAT token (never an integer token) -/
theorem decodeAtom_floatParts (p : FloatParts) (hv : p.Valid) : decodeAtom p.render = .ok ⟨.float, p.render⟩ := by
  obtain ⟨lc, hlast, hld⟩ := p.last_digit hv
  obtain ⟨f1, f2, _, _, _, _, _, _⟩ := isDig_facts lc hld
  obtain ⟨x, tr, htail, hx⟩ := p.tail_head hv
  obtain ⟨hipne, hipd⟩ := hv.ip
  have hxU : isDigU x = false := by rcases hx with rfl | rfl <;> decide
  have hxn : x ≠ 'x' ∧ x ≠ 'o' ∧ x ≠ 'b' := by rcases hx with rfl | rfl <;> decide
  cases hip : p.ip with
  | nil => exact absurd hip hipne
  | cons d r =>
    have hdd : isDig d = true := hipd d (by rw [hip]; simp)
    obtain ⟨_, _, g3, g4, g5, g6, g7, _⟩ := isDig_facts d hdd
    have hbody : p.body = d :: (r ++ x :: tr) := by rw [p.body_eq, hip, htail]; rfl
    have hfb : floatBody p.body = true := by
      exact floatBody_parts p.ip p.fp p.ex hv.ip hv.fp hv.ex hv.isFloat
    have hdec : digThenDigU p.body = false := by
      rw [hbody]; exact digThenDigU_false_of_mem d _ x (by simp) hxU
    have hsecond : ∃ c2 r2, r ++ x :: tr = c2 :: r2 ∧ (c2 ≠ 'x' ∧ c2 ≠ 'o' ∧ c2 ≠ 'b') := by
      cases r with
      | nil => exact ⟨x, tr, rfl, hxn⟩
      | cons c2 r2 => exact ⟨c2, r2 ++ x :: tr, rfl, isDig_not_xob c2 (hipd c2 (by rw [hip]; simp))⟩
    obtain ⟨c2, r2, hr2, hc2⟩ := hsecond
    have hdm : dropMinus p.body = p.body := by
      rw [hbody]; unfold dropMinus; split
      · rename_i heq; simp only [List.cons.injEq] at heq; exact absurd heq.1.symm (Ne.symm g7)
      · rfl
    cases hneg : p.neg with
    | true =>
      have hr : p.render = '-' :: p.body := by rw [p.render_eq, hneg]; rfl
      rw [hr] at hlast ⊢
      have hdm2 : dropMinus ('-' :: p.body) = p.body := rfl
      obtain ⟨b6, b7, b8⟩ := based_head '-' p.body (by decide)
      apply decodeAtom_float_of
      · rw [hlast]; intro h; exact f1 (Option.some.inj h)
      · intro h; rw [hbody] at h; simp at h
      · intro h; rw [hbody] at h; simp at h
      · exact boolRe_head '-' _ (by decide) (by decide)
      · exact uint64Re_last _ lc hlast f2
      · simp only [decimalRe, hdm2, hdec]
      · exact b6
      · exact b7
      · exact b8
      · simp only [floatRe, hdm2, hfb]
    | false =>
      have hr : p.render = p.body := by rw [p.render_eq, hneg]; rfl
      rw [hr] at hlast ⊢
      obtain ⟨b6, b7, b8⟩ : hexRe p.body = false ∧ octRe p.body = false ∧ binaryRe p.body = false := by
        rw [hbody, hr2]; exact based_second d c2 r2 hc2
      apply decodeAtom_float_of
      · rw [hlast]; intro h; exact f1 (Option.some.inj h)
      · intro h; rw [hbody] at h; simp at h
      · intro h; rw [hbody] at h; simp at h
      · rw [hbody]; exact boolRe_head d _ g3 g4
      · exact uint64Re_last _ lc hlast f2
      · simp only [decimalRe, hdm, hdec]
      · exact b6
      · exact b7
      · exact b8
      · simp only [floatRe, hdm, hfb]

end ZygoVerif.Lexer

namespace ZygoVerif.Lexer
open ZygoVerif.PrintData ZygoVerif.NumLit

/-! ## lexing the text as one atom -/

theorem utf8Len_foldl (l : List Char) (n : Nat) : l.foldl (fun n c => n + c.utf8Size) n ≥ n + l.length := by
  induction l generalizing n with
  | nil => simp
  | cons c r ih =>
    have := ih (n + c.utf8Size)
    have hp : 1 ≤ c.utf8Size := Char.utf8Size_pos c
    simp only [List.foldl_cons, List.length_cons]
    omega

theorem utf8Len_ge (l : List Char) : utf8Len l ≥ l.length := by
  have := utf8Len_foldl l 0
  simpa [utf8Len] using this

theorem decimalRe_signed_digits (neg : Bool) (ds : List Char) (h : digitsOK ds) :
    decimalRe ((if neg then ['-'] else []) ++ ds) = true := by
  obtain ⟨hne, hd⟩ := h
  cases ds with
  | nil => exact absurd rfl hne
  | cons d r =>
    have hdd := hd d (by simp)
    have g7 := (isDig_facts d hdd).2.2.2.2.2.2.1
    cases neg with
    | true => simpa [decimalRe, dropMinus] using digThenDigU_digits (d :: r) ⟨by simp, hd⟩
    | false =>
      have : dropMinus (d :: r) = d :: r := by
        unfold dropMinus; split
        · rename_i heq; simp only [List.cons.injEq] at heq; exact absurd heq.1.symm (Ne.symm g7)
        · rfl
      simp only [Bool.false_eq_true, ↓reduceIte, List.nil_append, decimalRe, this]
      exact digThenDigU_digits (d :: r) ⟨by simp, hd⟩

/-- the mantissa (text before the exponent) is a decimal or a float on its own: the test the
lexer makes before it lets `e+`/`e-` continue a number -/
theorem mant_is_number (p : FloatParts) (hv : p.Valid) : (decimalRe p.mant || floatRe p.mant) = true := by
  cases hfp : p.fp with
  | none =>
    have : p.mant = (if p.neg then ['-'] else []) ++ p.ip := by simp [FloatParts.mant, hfp, fracText]
    rw [this, decimalRe_signed_digits p.neg p.ip hv.ip]; rfl
  | some f =>
    have hfb : floatBody (p.ip ++ fracText (some f) ++ expText none) = true :=
      floatBody_parts p.ip (some f) none hv.ip (fun f' hf' => hv.fp f' (by rw [hfp]; exact hf')) (by intro s ds h; cases h) (Or.inl rfl)
    have hb : p.ip ++ '.' :: f = p.ip ++ fracText (some f) ++ expText none := by simp [fracText, expText]
    obtain ⟨hipne, hipd⟩ := hv.ip
    cases hip : p.ip with
    | nil => exact absurd hip hipne
    | cons d r =>
      have g7 := (isDig_facts d (hipd d (by rw [hip]; simp))).2.2.2.2.2.2.1
      have hm : dropMinus p.mant = p.ip ++ '.' :: f := by
        cases hneg : p.neg with
        | true => simp [FloatParts.mant, hneg, hfp, fracText, dropMinus]
        | false =>
          simp only [FloatParts.mant, hneg, hfp, fracText, Bool.false_eq_true, ↓reduceIte, List.nil_append, hip, List.cons_append]
          unfold dropMinus; split
          · rename_i heq; simp only [List.cons.injEq] at heq; exact absurd heq.1.symm (Ne.symm g7)
          · rfl
      simp only [floatRe, hm, hb, hfb, Bool.or_true]

theorem stepNormal_exp_sign (s : LexCore) (r : Char) (hr : r = '+' ∨ r = '-') (he : isE (twoback s) = true)
    (hsp : sciPrefix s.buffer = true) : stepNormal s r = writeRune s r := by
  rcases hr with rfl | rfl <;> simp [stepNormal, he, hsp]

theorem lex_exp_sign (b : List Char) (T : List Token) (r : Char) (hr : r = '+' ∨ r = '-') (hsp : sciPrefix b = true) :
    Lex ⟨.normal, b, T, 'e'⟩ [r] ⟨.normal, b ++ [r], T, r⟩ := by
  apply Lex.of_feed
  · intro s hs
    have hst : (pushRing s r).state = .normal := hs.state
    have htb : twoback (pushRing s r) = 'e' := by rw [twoback_pushRing s r hs.ring, hs.last]
    refine ⟨{ pushRing s r with buffer := (pushRing s r).buffer ++ [r] }, ?_, hst, ?_, hs.tokens⟩
    · rw [feed_ok_cons, step_def, stepMode_normal _ _ hst,
        stepNormal_exp_sign _ r hr (by rw [htb]; decide) (by show sciPrefix s.buffer = true; rw [hs.buffer]; exact hsp)]
      rfl
    · show s.buffer ++ [r] = b ++ [r]; rw [hs.buffer]
  · simp

theorem digits_plain (ds : List Char) (hd : ∀ c ∈ ds, isDig c = true) : ∀ c ∈ ds, isSpecial c = false := by
  intro c hc
  have h := hd c hc
  simp only [isDig, Bool.and_eq_true, decide_eq_true_eq] at h
  have h1 : '0'.toNat ≤ c.toNat := h.1
  have h2 : c.toNat ≤ '9'.toNat := h.2
  have e0 : '0'.toNat = 48 := by decide
  have e9 : '9'.toNat = 57 := by decide
  rw [e0] at h1; rw [e9] at h2
  have hcn := isSpecial_digitChar (c.toNat - 48) (by omega)
  have : 48 + (c.toNat - 48) = c.toNat := by omega
  rwa [this, Char.ofNat_toNat] at hcn

theorem fracText_plain (fp : Option (List Char)) (h : ∀ f, fp = some f → digitsOK f) : ∀ c ∈ fracText fp, isSpecial c = false := by
  cases fp with
  | none => simp [fracText]
  | some f =>
    intro c hc
    simp only [fracText, List.mem_cons] at hc
    rcases hc with rfl | hc
    · decide
    · exact digits_plain f (h f rfl).2 c hc

/-- the unsigned text `digits[.digits][e±digits]` continues a pending numeral `b0` (a sign and a
first digit, or nothing) -/
theorem lex_float_rest (p : FloatParts) (hv : p.Valid) (T : List Token) (pre rest : List Char) (l : Char)
    (hm : p.mant = pre ++ rest) (hrest : ∀ c ∈ rest, isSpecial c = false) :
    Lex ⟨.normal, pre, T, l⟩ (rest ++ expText p.ex) ⟨.normal, p.render, T, lastOf l (rest ++ expText p.ex)⟩ := by
  have h1 := lex_plain_run rest hrest pre T l
  cases hex : p.ex with
  | none =>
    have : p.render = pre ++ rest := by simp [FloatParts.render, hex, expText, hm]
    rw [this]
    simpa [expText, lastOf] using h1
  | some sd =>
    obtain ⟨s, ds⟩ := sd
    obtain ⟨hs, hds⟩ := hv.ex s ds hex
    have hr : p.render = pre ++ rest ++ ['e'] ++ [s] ++ ds := by
      simp [FloatParts.render, hex, expText, hm, List.append_assoc]
    have h2 := lex_plain (pre ++ rest) T (lastOf l rest) 'e' (by decide)
    have hsp : sciPrefix (pre ++ rest ++ ['e']) = true := by
      have hlen : utf8Len (pre ++ rest ++ ['e']) > 1 := by
        have := utf8Len_ge (pre ++ rest ++ ['e'])
        have hml : 1 ≤ (pre ++ rest).length := by
          rw [← hm]
          obtain ⟨hipne, _⟩ := hv.ip
          cases hip : p.ip with
          | nil => exact absurd hip hipne
          | cons d r => simp [FloatParts.mant, hip]; omega
        simp only [List.length_append, List.length_cons, List.length_nil] at this hml ⊢
        omega
      have hmn := mant_is_number p hv
      rw [hm] at hmn
      simp only [sciPrefix, hlen, decide_true, Bool.true_and, List.getLast?_append, List.getLast?_singleton,
        Option.some_or, List.dropLast_concat, hmn, Bool.and_true]
      decide
    have h3 := lex_exp_sign (pre ++ rest ++ ['e']) T s hs hsp
    have h4 := lex_plain_run ds (digits_plain ds hds.2) (pre ++ rest ++ ['e'] ++ [s]) T s
    have hl1 : lastOf l rest = (l :: rest).getLast (by simp) := rfl
    have := Lex.trans (Lex.trans (Lex.trans h1 h2) h3) h4
    rw [hr]
    have e1 : rest ++ expText (some (s, ds)) = rest ++ ['e'] ++ [s] ++ ds := by simp [expText]
    have hl : lastOf l (rest ++ ['e'] ++ [s] ++ ds) = (s :: ds).getLast (by simp) := by
      have : lastOf l (rest ++ ['e'] ++ [s] ++ ds) = lastOf s ds := by
        rw [lastOf_append, lastOf_append, lastOf_append]; simp
      rw [this]; rfl
    rw [e1, hl]
    simpa [List.append_assoc] using this

/-- **lexing**: a text of the float shape is lexed as one pending atom -/
theorem lex_floatParts (p : FloatParts) (hv : p.Valid) (T : List Token) (l : Char)
    (hl : canStartSignedNumberAfter l = true) :
    Lex ⟨.normal, [], T, l⟩ p.render ⟨.normal, p.render, T, lastOf l p.render⟩ := by
  obtain ⟨hipne, hipd⟩ := hv.ip
  cases hip : p.ip with
  | nil => exact absurd hip hipne
  | cons d r =>
    have hdd : isDig d = true := hipd d (by rw [hip]; simp)
    have hrp : ∀ c ∈ r ++ fracText p.fp, isSpecial c = false := by
      intro c hc
      rw [List.mem_append] at hc
      rcases hc with hc | hc
      · exact digits_plain p.ip hipd c (by rw [hip]; simp [hc])
      · exact fracText_plain p.fp hv.fp c hc
    cases hneg : p.neg with
    | true =>
      have h1 := lex_minus_digit T l d hl hdd
      have hm : p.mant = ['-', d] ++ (r ++ fracText p.fp) := by simp [FloatParts.mant, hneg, hip]
      have h2 := lex_float_rest p hv T ['-', d] (r ++ fracText p.fp) d hm hrp
      have hr : p.render = ['-', d] ++ ((r ++ fracText p.fp) ++ expText p.ex) := by
        simp [FloatParts.render, hm, List.append_assoc]
      have := Lex.trans h1 h2
      rw [← hr] at this
      have hlast : lastOf l p.render = lastOf d (r ++ fracText p.fp ++ expText p.ex) := by
        rw [hr]; simp [lastOf_append]
      rw [hlast]; exact this
    | false =>
      have hm : p.mant = [] ++ (d :: (r ++ fracText p.fp)) := by simp [FloatParts.mant, hneg, hip]
      have hdp : ∀ c ∈ d :: (r ++ fracText p.fp), isSpecial c = false := by
        intro c hc
        rw [List.mem_cons] at hc
        rcases hc with rfl | hc
        · exact digits_plain p.ip hipd c (by rw [hip]; simp)
        · exact hrp c hc
      have h2 := lex_float_rest p hv T [] (d :: (r ++ fracText p.fp)) l hm hdp
      have hr : p.render = (d :: (r ++ fracText p.fp)) ++ expText p.ex := by
        simp [FloatParts.render, hm]
      rw [← hr] at h2
      exact h2

end ZygoVerif.Lexer

namespace ZygoVerif.Lexer
open ZygoVerif.PrintData ZygoVerif.NumLit

/-! ## conversion by the `TokenFloat` case -/

theorem digits_no_e (ds : List Char) (hd : ∀ c ∈ ds, isDig c = true) : ds.contains 'e' = false ∧ ds.contains 'E' = false := by
  constructor <;>
  · rw [Bool.eq_false_iff]
    intro h
    rw [List.contains_iff_mem] at h
    have := hd _ h
    revert this; decide

theorem contains_append (a b : List Char) (c : Char) : (a ++ b).contains c = (a.contains c || b.contains c) := by
  simp [List.contains_eq_any_beq, List.any_append]

theorem FloatParts.contains_e (p : FloatParts) (hv : p.Valid) :
    p.render.contains 'e' = p.ex.isSome ∧ p.render.contains 'E' = false := by
  obtain ⟨hi1, hi2⟩ := digits_no_e p.ip hv.ip.2
  have hsign : ((if p.neg then ['-'] else []) : List Char).contains 'e' = false ∧
      ((if p.neg then ['-'] else []) : List Char).contains 'E' = false := by
    cases p.neg <;> exact ⟨by decide, by decide⟩
  have hfrac : (fracText p.fp).contains 'e' = false ∧ (fracText p.fp).contains 'E' = false := by
    cases hfp : p.fp with
    | none => exact ⟨by decide, by decide⟩
    | some f =>
      obtain ⟨h1, h2⟩ := digits_no_e f (hv.fp f hfp).2
      constructor
      · simp only [fracText, List.contains_cons, h1, Bool.or_false]; decide
      · simp only [fracText, List.contains_cons, h2, Bool.or_false]; decide
  have hexp : (expText p.ex).contains 'e' = p.ex.isSome ∧ (expText p.ex).contains 'E' = false := by
    cases hex : p.ex with
    | none => exact ⟨by decide, by decide⟩
    | some sd =>
      obtain ⟨s, ds⟩ := sd
      obtain ⟨hs, hds⟩ := hv.ex s ds hex
      obtain ⟨h1, h2⟩ := digits_no_e ds hds.2
      constructor
      · simp [expText]
      · simp only [expText, List.contains_cons, h2, Bool.or_false]
        rcases hs with rfl | rfl <;> decide
  simp only [FloatParts.render, FloatParts.mant, contains_append, hsign.1, hsign.2, hi1, hi2, hfrac.1, hfrac.2, hexp.1,
    hexp.2, Bool.false_or, Bool.or_false]
  exact ⟨trivial, trivial⟩

/-- **conversion**: the float token converts to the float the law promises, with the
`Scientific` flag set exactly when the text has an exponent -/
theorem atomOfTok_floatParts (p : FloatParts) (hv : p.Valid) (b : Nat) (hb : parseFloat p.render = some b) :
    Parser.atomOfTok ⟨.float, p.render⟩ = some (some (.float b p.ex.isSome)) := by
  obtain ⟨he, hE⟩ := p.contains_e hv
  have hnan : (p.render == "NaN".toList) = false := by
    rw [beq_eq_false_iff_ne]
    intro h
    obtain ⟨hipne, hipd⟩ := hv.ip
    have a1 : "NaN".toList = ['N', 'a', 'N'] := by decide
    rw [p.render_eq, a1] at h
    cases hneg : p.neg with
    | true => rw [hneg] at h; simp at h
    | false =>
      rw [hneg] at h
      cases hip : p.ip with
      | nil => exact absurd hip hipne
      | cons d r =>
        have hd := hipd d (by rw [hip]; simp)
        simp only [FloatParts.body, hip, Bool.false_eq_true, ↓reduceIte, List.nil_append, List.cons_append,
          List.cons.injEq] at h
        rw [h.1] at hd; revert hd; decide
  simp only [Parser.atomOfTok, hnan, Bool.false_eq_true, ↓reduceIte, hb, Option.map_some, he, hE, Bool.or_false]

/-! ## uint64 -/

theorem natDec_ULL_plain (n : Nat) : ∀ c ∈ natDec n ++ "ULL".toList, isSpecial c = false := by
  intro c hc
  rw [List.mem_append] at hc
  rcases hc with hc | hc
  · exact natDec_not_special n c hc
  · have : ∀ c ∈ "ULL".toList, isSpecial c = false := by decide
    exact this c hc

theorem stripSuffix_append (ds suf : List Char) : stripSuffix? suf (ds ++ suf) = some ds := by
  unfold stripSuffix?
  have h1 : (ds ++ suf).length ≥ suf.length := by simp
  have h2 : (ds ++ suf).length - suf.length = ds.length := by simp
  simp [h2]

theorem isDig_isHex (c : Char) (h : isDig c = true) : isHexC c = true := by simp [isHexC, h]

theorem decodeAtom_uint (n : Nat) : decodeAtom (natDec n ++ "ULL".toList) = .ok ⟨.uint64, natDec n ++ "ULL".toList⟩ := by
  have hne := natDec_ne_nil n
  have hd := natDec_isDig n
  have hlast : (natDec n ++ "ULL".toList).getLast? = some 'L' := by
    have : "ULL".toList.getLast? = some 'L' := by decide
    rw [List.getLast?_append, this]; rfl
  cases hds : natDec n with
  | nil => exact absurd hds hne
  | cons d r =>
    have hdd := hd d (by rw [hds]; simp)
    obtain ⟨_, _, g3, g4, g5, g6, _, _⟩ := isDig_facts d hdd
    rw [← hds]
    apply decodeAtom_uint64
    · rw [hlast]; decide
    · intro h; rw [hds] at h; simp at h
    · intro h; rw [hds] at h; simp at h
    · rw [hds]; exact boolRe_head d _ g3 g4
    · simp only [uint64Re, stripSuffix_append, hexPlus]
      have : (natDec n).isEmpty = false := by rw [hds]; rfl
      simp only [this, Bool.not_false, Bool.true_and]
      have : (natDec n).all isHexC = true := by
        rw [List.all_eq_true]; intro c hc; exact isDig_isHex c (hd c hc)
      simp [this]

theorem atomOfTok_uint (n : Nat) (hn : n < 2 ^ 64) :
    Parser.atomOfTok ⟨.uint64, natDec n ++ "ULL".toList⟩ = some (some (.uint n)) := by
  have hne := natDec_ne_nil n
  have hd := natDec_isDig n
  have htake : (natDec n ++ "ULL".toList).take ((natDec n ++ "ULL".toList).length - 3) = natDec n := by
    have : (natDec n ++ "ULL".toList).length - 3 = (natDec n).length := by
      have : "ULL".toList.length = 3 := by decide
      simp [this]
    rw [this, List.take_left']
    rfl
  have hp : parseUint64 10 (natDec n) = some n := by simp [parseUint64, natOfDigits_natDec, hn]
  simp only [Parser.atomOfTok, htake]
  split
  · split
    · rename_i r heq; have := hd 'o' (by rw [heq]; simp); exact absurd this (by decide)
    · rename_i r heq; have := hd 'x' (by rw [heq]; simp); exact absurd this (by decide)
    · rw [hp]; rfl
  · rw [hp]; rfl

end ZygoVerif.Lexer
