/-
Proofs/VMRest.lean — C04 on the VM model (Model/VM.lean): an interpreter at rest that is
given the empty text answers nil and stays at rest.
-/
import ZygoVerif.Model.VM
namespace ZygoVerif.VM
open ZygoVerif.Core

/-- At rest: no operands, only the global scope, no return address, no loop record, pc at the
end of `mainfunc` (what `VerifDepths` / `VerifAtEnd` observe on the real interpreter). -/
def AtRest (s : St) : Prop :=
  s.data = [] ∧ s.linear = [some 0] ∧ s.addr = [] ∧ s.loopstack = [] ∧ s.curfunc = mainFn ∧ curSize s ≤ s.pc

/-- `Run` with the pc at the end and an empty data stack: nothing runs, `Run` supplies nil. -/
theorem run_at_end (s : St) (fuel : Nat) (hd : s.data = []) (hpc : curSize s ≤ s.pc) :
    (run (fuel + 2)).run s = (Except.ok Val.nil, s) := by
  have hcond : (s.pc = -1 ∨ s.pc ≥ curSize s) := Or.inr hpc
  unfold run
  unfold runLoop
  simp [capture, pushData, popData, hd, hcond, bind, ExceptT.bind, ExceptT.mk, ExceptT.bindCont, ExceptT.run,
    StateT.bind, get, getThe, MonadStateOf.get, StateT.get, liftM, monadLift, MonadLift.monadLift, ExceptT.lift,
    pure, ExceptT.pure, StateT.pure, modify, modifyGet, MonadStateOf.modifyGet, StateT.modifyGet, set, StateT.set,
    Functor.map, StateT.map, List.isEmpty]
  cases s
  simp at hd
  subst hd
  rfl

theorem runGen_pure {α : Type} (a : α) (s : St) : (runGen (pure a : G α)).run s = (Except.ok a, s) := by
  unfold runGen
  simp [pure, StateT.pure, StateT.run, ExceptT.run, bind, ExceptT.bind, ExceptT.mk, ExceptT.bindCont, StateT.bind,
    get, getThe, MonadStateOf.get, StateT.get, liftM, monadLift, MonadLift.monadLift, ExceptT.lift, set, StateT.set,
    Except.pure, ExceptT.pure, Functor.map, StateT.map]

theorem set_getD_self (l : List FnObj) : (l.set 0 (l.getD 0 {})).getD 0 {} = l.getD 0 {} := by
  cases l <;> simp

/-- how `runText` reports the result of its `Run` -/
def finishRun (r : Except Fault Val × St) : Outcome × St × Bool :=
  let s := r.2
  match r.1 with
  | .ok v => (.done "ok" (pr s.heap v) s.trace (depths s), s, true)
  | .error .err => (.done "err" "-" s.trace (depths s), s, true)
  | .error .panic => (.done "panic" "-" s.trace "-", s, false)
  | .error .timeout => (.done "timeout" "-" s.trace "-", s, false)

/-- `LoadExpressions` of no expressions appends no code (and no leading `pop`: the pc is at the end). -/
theorem runText_nil (fuel : Nat) (s : St) (hpc : curSize s ≤ s.pc) :
    runText fuel [] s = finishRun ((run fuel).run
      { s with fns := s.fns.set mainFn (fnOf s mainFn), curfunc := mainFn, trace := [] }) := by
  unfold runText
  simp only [compileBegin, runGen_pure]
  have hge : s.pc ≥ curSize { s with trace := [] } := hpc
  simp only [hge, if_true, List.append_nil]
  rfl

theorem pr_nil (h : DataHeap) : pr h .nil = "nil" := by
  simp [pr, showVal]

/-- The empty text, given to an interpreter at rest: class ok, value nil, depths unchanged, and
the interpreter is at rest afterwards. -/
theorem eval_empty (s : St) (fuel : Nat) (h : AtRest s) :
    ∃ s', runText (fuel + 2) [] s = (Outcome.done "ok" "nil" [] (depths s), s', true) ∧ AtRest s' := by
  obtain ⟨hd, hl, ha, hls, hcf, hpc⟩ := h
  let s3 : St := { s with fns := s.fns.set mainFn (fnOf s mainFn), curfunc := mainFn, trace := [] }
  have hpc3 : curSize s3 ≤ s3.pc := by
    have : fnOf s3 s3.curfunc = fnOf s s.curfunc := by
      show (s.fns.set 0 (s.fns.getD 0 {})).getD 0 {} = s.fns.getD s.curfunc {}
      rw [hcf]; exact set_getD_self s.fns
    show (let f := fnOf s3 s3.curfunc; if f.user then (0 : Int) else f.code.length) ≤ s.pc
    rw [this]; exact hpc
  have hrun := run_at_end s3 fuel hd hpc3
  refine ⟨s3, ?_, hd, hl, ha, hls, rfl, hpc3⟩
  rw [runText_nil (fuel + 2) s hpc, hrun, ← pr_nil s.heap]
  rfl

/-- `GenerateBegin` of two texts laid end to end is: the first, one `pop`, the second — the `pop`
plays the part of the `Run` that would have popped the first text's value. -/
theorem asmBegin_append : ∀ (cs ds : List (List Instr)), cs ≠ [] → ds ≠ [] → (∀ c ∈ cs, c ≠ []) →
    asmBegin (cs ++ ds) = asmBegin cs ++ [Instr.pop] ++ asmBegin ds
  | [], _, h, _, _ => absurd rfl h
  | [c], ds, _, hd, hc => by
    obtain ⟨d, ds', rfl⟩ := List.exists_cons_of_ne_nil hd
    have hne : c ≠ [] := hc c (by simp)
    simp [asmBegin, hne]
  | c :: c' :: cs, ds, _, hd, hc => by
    have ih := asmBegin_append (c' :: cs) ds (by simp) hd (fun x hx => hc x (by simp [hx]))
    have hne : c ≠ [] := hc c (by simp)
    have h1 : asmBegin (c :: c' :: cs ++ ds) = c ++ [Instr.pop] ++ asmBegin (c' :: cs ++ ds) := by
      simp [asmBegin, hne]
    have h2 : asmBegin (c :: c' :: cs) = c ++ [Instr.pop] ++ asmBegin (c' :: cs) := by
      simp [asmBegin, hne]
    rw [show c :: c' :: cs ++ ds = c :: (c' :: cs ++ ds) from rfl] at *
    rw [h1, h2, ih]
    simp [List.append_assoc]

end ZygoVerif.VM
