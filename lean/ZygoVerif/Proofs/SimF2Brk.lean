/-
C02, execution half — F2 with `break`/`continue`: generator-side facts.

`compile_ls_Ff`: the loop ids in the code compiled from an F2 expression are the ones its compile
allocated (what makes `BreakInstr`/`ContinueInstr` find the right `loopStart`).
-/
import ZygoVerif.Proofs.SimF2Ind
import ZygoVerif.Proofs.SimFbGen
set_option linter.unusedSimpArgs false
set_option linter.unusedVariables false
namespace ZygoVerif.Sim
open ZygoVerif.Core ZygoVerif.VM

mutual
theorem compile_ls_Ff : ∀ (fnOk : Bool) (self : String) (e : Expr), Ff fnOk self e = true → ∀ isFn c gs r, (compile isFn c e).run gs = .ok r → FnameOk self c →
    LsRes gs r.2 r.1.1
  | fnOk, self, .int v, _, isFn, c, gs, r, hc, hfn => by
    rw [compile] at hc; simp only [g_pure_ok] at hc; subst hc; exact ⟨Nat.le_refl _, by lsin⟩
  | fnOk, self, .bool v, _, isFn, c, gs, r, hc, hfn => by
    rw [compile] at hc; simp only [g_pure_ok] at hc; subst hc; exact ⟨Nat.le_refl _, by lsin⟩
  | fnOk, self, .str v, _, isFn, c, gs, r, hc, hfn => by
    rw [compile] at hc; simp only [g_pure_ok] at hc; subst hc; exact ⟨Nat.le_refl _, by lsin⟩
  | fnOk, self, .nilLit, _, isFn, c, gs, r, hc, hfn => by
    rw [compile] at hc; simp only [g_pure_ok] at hc; subst hc; exact ⟨Nat.le_refl _, by lsin⟩
  | fnOk, self, .sym x, _, isFn, c, gs, r, hc, hfn => by
    rw [compile] at hc; simp only [g_pure_ok] at hc; subst hc; exact ⟨Nat.le_refl _, by lsin⟩
  | fnOk, self, .begin_ es, he, isFn, c, gs, r, hc, hfn => by
    rw [Ff] at he
    cases es with
    | nil => rw [compile] at hc; simp only [g_pure_ok] at hc; subst hc; exact ⟨Nat.le_refl _, by lsin⟩
    | cons e0 es0 =>
      rw [compile] at hc
      · exact compileBegin_ls_Ff fnOk self (e0 :: es0) he isFn c gs r hc hfn
      · intro hh; cases hh
  | fnOk, self, .def_ x e, he, isFn, c, gs, r, hc, hfn => by
    rw [Ff] at he
    simp only [Bool.and_eq_true] at he
    rw [compile] at hc
    simp only [g_bind_ok, g_pure_ok] at hc
    obtain ⟨ra, gs1, ha, rfl⟩ := hc
    obtain ⟨h1, h2⟩ := compile_ls_Ff fnOk self e he.2 isFn _ gs _ ha hfn
    exact ⟨h1, by simp only; lsin⟩
  | fnOk, self, .set_ x e, he, isFn, c, gs, r, hc, hfn => by
    rw [Ff] at he
    simp only [Bool.and_eq_true] at he
    rw [compile] at hc
    simp only [g_bind_ok, g_pure_ok] at hc
    obtain ⟨ra, gs1, ha, rfl⟩ := hc
    obtain ⟨h1, h2⟩ := compile_ls_Ff fnOk self e he.2 isFn _ gs _ ha hfn
    exact ⟨h1, by simp only; lsin⟩
  | fnOk, self, .cond arms d, he, isFn, c, gs, r, hc, hfn => by
    rw [Ff] at he
    simp only [Bool.and_eq_true] at he
    rw [compile] at hc
    simp only [g_bind_ok, g_pure_ok] at hc
    obtain ⟨rd, gs1, hd, as, gs2, has, rfl⟩ := hc
    obtain ⟨h1, h2⟩ := compile_ls_Ff fnOk self d he.2 isFn _ gs _ hd hfn
    obtain ⟨h3, h4⟩ := compileArms_ls_Ff fnOk self arms he.1 isFn c gs1 _ has hfn
    exact ⟨Nat.le_trans h1 h3, lsIn_asmCond _ _ (fun p hp => ⟨(h4 p hp).1.mono h1 (Nat.le_refl _),
      (h4 p hp).2.mono h1 (Nat.le_refl _)⟩) (h2.mono (Nat.le_refl _) h3)⟩
  | fnOk, self, .and_ es, he, isFn, c, gs, r, hc, hfn => by
    rw [Ff] at he
    rw [compile] at hc
    simp only [g_bind_ok, g_pure_ok] at hc
    obtain ⟨cs, gs1, hcs, rfl⟩ := hc
    obtain ⟨h1, h2⟩ := compileSC_ls_Ff fnOk self es he isFn c gs _ hcs hfn
    exact ⟨h1, lsIn_asmSC _ _ h2⟩
  | fnOk, self, .or_ es, he, isFn, c, gs, r, hc, hfn => by
    rw [Ff] at he
    rw [compile] at hc
    simp only [g_bind_ok, g_pure_ok] at hc
    obtain ⟨cs, gs1, hcs, rfl⟩ := hc
    obtain ⟨h1, h2⟩ := compileSC_ls_Ff fnOk self es he isFn c gs _ hcs hfn
    exact ⟨h1, lsIn_asmSC _ _ h2⟩
  | fnOk, self, .newScope es, he, isFn, c, gs, r, hc, hfn => by
    rw [Ff] at he
    simp only [Bool.and_eq_true, Bool.not_eq_true', List.isEmpty_eq_false_iff] at he
    cases es with
    | nil => exact absurd rfl he.1
    | cons e0 es0 =>
      rw [compile] at hc
      · simp only [g_bind_ok, g_pure_ok] at hc
        obtain ⟨rn, gs1, hn, rfl⟩ := hc
        obtain ⟨h1, h2⟩ := compileNewScope_ls_Ff fnOk self (e0 :: es0) he.2 isFn _ _ gs _ hn hfn
        exact ⟨h1, by simp only; lsin⟩
      · intro hh; cases hh
  | fnOk, self, .let_ seq bs body, he, isFn, c, gs, r, hc, hfn => by
    rw [Ff] at he
    simp only [Bool.and_eq_true, Bool.not_eq_true', List.isEmpty_eq_false_iff] at he
    obtain ⟨⟨⟨_, hbody⟩, hbs⟩, hbl⟩ := he
    rw [compile] at hc
    simp only [g_bind_ok, g_pure_ok] at hc
    obtain ⟨rr, gs1, hr, rb, gs2, hb, rfl⟩ := hc
    obtain ⟨h1, h2⟩ := compileBinds_ls_Ff fnOk self bs hbs isFn _ seq gs _ hr hfn
    obtain ⟨h3, h4⟩ := compileBegin_ls_Ff fnOk self body hbl isFn _ gs1 _ hb hfn
    have h2' := h2.mono (Nat.le_refl _) h3
    have h4' := h4.mono h1 (Nat.le_refl _)
    have h5 : LsIn (bs.map (fun p => Instr.popStackPutEnv p.1)).reverse gs.loops.length gs2.loops.length := by
      intro l hl
      simp only [List.mem_reverse, List.mem_map] at hl
      obtain ⟨_, _, hh⟩ := hl; cases hh
    refine ⟨Nat.le_trans h1 h3, ?_⟩
    simp only
    lsin
  | fnOk, self, .call f args, he, isFn, c, gs, r, hc, hfn => by
    cases f with
    | sym h =>
      rw [Ff] at he
      simp only [Bool.and_eq_true] at he
      rw [compile] at hc
      have hne := ff_call_ne hfn he.1.1.1 he.1.1.2 he.1.2
      simp only [hne, Bool.and_false, Bool.false_eq_true, if_false, g_pure_ok] at hc
      subst hc
      exact ⟨Nat.le_refl _, by lsin⟩
    | _ => simp [Ff] at he
  | fnOk, self, .fn ps rest body, he, isFn, c, gs, r, hc, hfn => by
    have hk := compile_keep_Ff he hc hfn
    rw [Ff] at he
    simp only [Bool.and_eq_true, Option.isNone_iff_eq_none, decide_eq_true_eq, Bool.not_eq_true',
      List.isEmpty_eq_false_iff] at he
    obtain ⟨⟨⟨⟨⟨hfnok, hrest⟩, hnd⟩, hps⟩, hbody⟩, hff⟩ := he
    subst hrest
    obtain ⟨b, tl, g2, hb, _, hk2⟩ := compileBegin_total_Ff true "" body hbody hff isFn (anonCtx c gs)
      (gsAlloc isFn gs s!"__anon{gs.fns.length}" ps) (anonCtx_funcname c gs)
    rw [compile_fn_eq isFn c ps body gs g2 b tl hb] at hc
    injection hc with hc
    subst hc
    exact ⟨hk.1.loopsLen, by lsin⟩
  | fnOk, self, .defn name ps rest body, he, isFn, c, gs, r, hc, hfn => by
    have hk := compile_keep_Ff he hc hfn
    rw [Ff] at he
    simp only [Bool.and_eq_true, Option.isNone_iff_eq_none, bne_iff_ne, ne_eq, decide_eq_true_eq, Bool.not_eq_true',
      List.isEmpty_eq_false_iff] at he
    obtain ⟨⟨⟨⟨⟨⟨⟨hfnok, hrest⟩, hname⟩, hne⟩, hnd⟩, hps⟩, hbody⟩, hff⟩ := he
    subst hrest
    obtain ⟨b, tl, g2, hb, _, hk2⟩ := compileBegin_total_Ff true name body hbody hff isFn (bodyCtx c gs name ps body)
      (gsAlloc isFn gs name ps) (bodyCtx_funcname c gs name ps body)
    rw [compile_defn_eq isFn c name ps body gs g2 b tl hne hb] at hc
    injection hc with hc
    subst hc
    exact ⟨hk.1.loopsLen, by lsin⟩
  | fnOk, self, .arr es, he, isFn, c, gs, r, hc, hfn => by
    rw [Ff] at he
    rw [compile] at hc
    simp only [g_bind_ok, g_pure_ok] at hc
    obtain ⟨ra, gs1, ha, rfl⟩ := hc
    obtain ⟨h1, h2⟩ := compileAll_ls_Ff fnOk self es he isFn _ gs _ ha hfn
    exact ⟨h1, by simp only; lsin⟩
  | fnOk, self, .for_ label init test incr body, he, isFn, c, gs, r, hc, hfn => by
    rw [Ff] at he
    simp only [Bool.and_eq_true] at he
    obtain ⟨⟨⟨hi, ht⟩, hs⟩, hb⟩ := he
    rw [compile_for_eq] at hc
    cases hb' : (compileBegin isFn { c with tail := false, scopes := c.scopes + 1 } body).run (forGs gs c label) with
    | error e => rw [hb'] at hc; cases hc
    | ok vb =>
    obtain ⟨rb, g2⟩ := vb
    rw [hb'] at hc; simp only at hc
    cases hi' : (compile isFn { c with tail := false, scopes := c.scopes + 1 } init).run g2 with
    | error e => rw [hi'] at hc; cases hc
    | ok vi =>
    obtain ⟨ri, g3⟩ := vi
    rw [hi'] at hc; simp only at hc
    cases ht' : (compile isFn { c with tail := false, scopes := c.scopes + 1 } test).run g3 with
    | error e => rw [ht'] at hc; cases hc
    | ok vt =>
    obtain ⟨rt, g4⟩ := vt
    rw [ht'] at hc; simp only at hc
    cases hs' : (compile isFn { c with tail := false, scopes := c.scopes + 1 } incr).run g4 with
    | error e => rw [hs'] at hc; cases hc
    | ok vs =>
    obtain ⟨rsn, g5⟩ := vs
    rw [hs'] at hc; simp only at hc
    injection hc with hc
    subst hc
    obtain ⟨b1, b2⟩ := compileBegin_ls_Ff fnOk self body hb isFn _ _ _ hb' hfn
    obtain ⟨i1, i2⟩ := compile_ls_Ff fnOk self init hi isFn _ _ _ hi' hfn
    obtain ⟨t1, t2⟩ := compile_ls_Ff fnOk self test ht isFn _ _ _ ht' hfn
    obtain ⟨s1, s2⟩ := compile_ls_Ff fnOk self incr hs isFn _ _ _ hs' hfn
    rw [forGs_len] at b1 b2
    simp only at b1 b2 i1 i2 t1 t2 s1 s2
    refine ⟨by simp only [forDone_len]; omega, ?_⟩
    simp only [forDone_len]
    exact lsIn_forCode (i2.mono (by omega) (by omega)) (t2.mono (by omega) (by omega)) (s2.mono (by omega) (by omega))
      (b2.mono (by omega) (by omega)) ⟨Nat.le_refl _, by omega⟩
  | _, _, .break_ _, he, _, _, _, _, _, _ | _, _, .continue_ _, he, _, _, _, _, _, _
  | _, _, .assign _ _, he, _, _, _, _, _, _ | _, _, .bad _, he, _, _, _, _, _, _ => by
    simp [Ff] at he
theorem compileBegin_ls_Ff : ∀ (fnOk : Bool) (self : String) (es : List Expr), FfList fnOk self es = true → ∀ isFn c gs r, (compileBegin isFn c es).run gs = .ok r → FnameOk self c →
    LsRes gs r.2 r.1.1
  | fnOk, self, [], _, isFn, c, gs, r, hc, hfn => by
    rw [compileBegin] at hc; simp only [g_pure_ok] at hc; subst hc; exact ⟨Nat.le_refl _, by lsin⟩
  | fnOk, self, [e], he, isFn, c, gs, r, hc, hfn => by
    rw [FfList] at he
    simp only [Bool.and_eq_true] at he
    rw [compileBegin] at hc
    exact compile_ls_Ff fnOk self e he.1 isFn c gs r hc hfn
  | fnOk, self, e :: e' :: es, he, isFn, c, gs, r, hc, hfn => by
    rw [FfList] at he
    simp only [Bool.and_eq_true] at he
    rw [compileBegin] at hc
    · simp only [g_bind_ok, g_pure_ok] at hc
      obtain ⟨ra, gs1, ha, rb, gs2, hb, rfl⟩ := hc
      obtain ⟨h1, h2⟩ := compile_ls_Ff fnOk self e he.1 isFn _ gs _ ha hfn
      obtain ⟨h3, h4⟩ := compileBegin_ls_Ff fnOk self (e' :: es) he.2 isFn c gs1 _ hb hfn
      have h2' := h2.mono (Nat.le_refl _) h3
      have h4' := h4.mono h1 (Nat.le_refl _)
      refine ⟨Nat.le_trans h1 h3, ?_⟩
      simp only
      lsin
    · intro hh; cases hh
theorem compileSC_ls_Ff : ∀ (fnOk : Bool) (self : String) (es : List Expr), FfList fnOk self es = true → ∀ isFn c gs r, (compileSC isFn c es).run gs = .ok r → FnameOk self c →
    gs.loops.length ≤ r.2.loops.length ∧ ∀ x ∈ r.1, LsIn x gs.loops.length r.2.loops.length
  | fnOk, self, [], _, isFn, c, gs, r, hc, hfn => by
    rw [compileSC] at hc; simp only [g_pure_ok] at hc; subst hc; exact ⟨Nat.le_refl _, fun x hx => by cases hx⟩
  | fnOk, self, [e], he, isFn, c, gs, r, hc, hfn => by
    rw [FfList] at he
    simp only [Bool.and_eq_true] at he
    rw [compileSC] at hc
    simp only [g_bind_ok, g_pure_ok] at hc
    obtain ⟨ra, gs1, ha, rfl⟩ := hc
    obtain ⟨h1, h2⟩ := compile_ls_Ff fnOk self e he.1 isFn _ gs _ ha hfn
    exact ⟨h1, fun x hx => by simp only [List.mem_singleton] at hx; subst hx; exact h2⟩
  | fnOk, self, e :: e' :: es, he, isFn, c, gs, r, hc, hfn => by
    rw [FfList] at he
    simp only [Bool.and_eq_true] at he
    rw [compileSC] at hc
    · simp only [g_bind_ok, g_pure_ok] at hc
      obtain ⟨rb, gs1, hb, ra, gs2, ha, rfl⟩ := hc
      obtain ⟨h1, h2⟩ := compileSC_ls_Ff fnOk self (e' :: es) he.2 isFn c gs _ hb hfn
      obtain ⟨h3, h4⟩ := compile_ls_Ff fnOk self e he.1 isFn _ gs1 _ ha hfn
      refine ⟨Nat.le_trans h1 h3, fun x hx => ?_⟩
      rcases List.mem_cons.mp hx with rfl | hx
      · exact h4.mono h1 (Nat.le_refl _)
      · exact (h2 x hx).mono (Nat.le_refl _) h3
    · intro hh; cases hh
theorem compileNewScope_ls_Ff : ∀ (fnOk : Bool) (self : String) (es : List Expr), FfList fnOk self es = true → ∀ isFn c oldtail gs r,
    (compileNewScope isFn c oldtail es).run gs = .ok r → FnameOk self c → LsRes gs r.2 r.1.1
  | fnOk, self, [], _, isFn, c, oldtail, gs, r, hc, hfn => by
    rw [compileNewScope] at hc; simp only [g_pure_ok] at hc; subst hc; exact ⟨Nat.le_refl _, by lsin⟩
  | fnOk, self, [e], he, isFn, c, oldtail, gs, r, hc, hfn => by
    rw [FfList] at he
    simp only [Bool.and_eq_true] at he
    rw [compileNewScope] at hc
    exact compile_ls_Ff fnOk self e he.1 isFn _ gs r hc hfn
  | fnOk, self, e :: e' :: es, he, isFn, c, oldtail, gs, r, hc, hfn => by
    rw [FfList] at he
    simp only [Bool.and_eq_true] at he
    rw [compileNewScope] at hc
    · simp only [g_bind_ok, g_pure_ok] at hc
      obtain ⟨ra, gs1, ha, rb, gs2, hb, rfl⟩ := hc
      obtain ⟨h1, h2⟩ := compile_ls_Ff fnOk self e he.1 isFn _ gs _ ha hfn
      obtain ⟨h3, h4⟩ := compileNewScope_ls_Ff fnOk self (e' :: es) he.2 isFn c oldtail gs1 _ hb hfn
      have h2' := h2.mono (Nat.le_refl _) h3
      have h4' := h4.mono h1 (Nat.le_refl _)
      refine ⟨Nat.le_trans h1 h3, ?_⟩
      simp only
      lsin
    · intro hh; cases hh
theorem compileBinds_ls_Ff : ∀ (fnOk : Bool) (self : String) (bs : List (String × Expr)), FfBinds fnOk self bs = true → ∀ isFn c seq gs r,
    (compileBinds isFn c seq bs).run gs = .ok r → FnameOk self c → LsRes gs r.2 r.1.1
  | fnOk, self, [], _, isFn, c, seq, gs, r, hc, hfn => by
    rw [compileBinds] at hc; simp only [g_pure_ok] at hc; subst hc; exact ⟨Nat.le_refl _, by lsin⟩
  | fnOk, self, (x, e) :: bs, he, isFn, c, seq, gs, r, hc, hfn => by
    rw [FfBinds] at he
    simp only [Bool.and_eq_true] at he
    rw [compileBinds] at hc
    simp only [g_bind_ok, g_pure_ok] at hc
    obtain ⟨ra, gs1, ha, rb, gs2, hb, rfl⟩ := hc
    obtain ⟨h1, h2⟩ := compile_ls_Ff fnOk self e he.1.2 isFn _ gs _ ha hfn
    obtain ⟨h3, h4⟩ := compileBinds_ls_Ff fnOk self bs he.2 isFn _ seq gs1 _ hb hfn
    have h2' := h2.mono (Nat.le_refl _) h3
    have h4' := h4.mono h1 (Nat.le_refl _)
    refine ⟨Nat.le_trans h1 h3, ?_⟩
    simp only
    lsin
theorem compileAll_ls_Ff : ∀ (fnOk : Bool) (self : String) (es : List Expr), FfList fnOk self es = true → ∀ isFn c gs r, (compileAll isFn c es).run gs = .ok r → FnameOk self c →
    LsRes gs r.2 r.1.1
  | fnOk, self, [], _, isFn, c, gs, r, hc, hfn => by
    rw [compileAll] at hc; simp only [g_pure_ok] at hc; subst hc; exact ⟨Nat.le_refl _, by lsin⟩
  | fnOk, self, e :: es, he, isFn, c, gs, r, hc, hfn => by
    rw [FfList] at he
    simp only [Bool.and_eq_true] at he
    rw [compileAll] at hc
    simp only [g_bind_ok, g_pure_ok] at hc
    obtain ⟨ra, gs1, ha, rb, gs2, hb, rfl⟩ := hc
    obtain ⟨h1, h2⟩ := compile_ls_Ff fnOk self e he.1 isFn _ gs _ ha hfn
    obtain ⟨h3, h4⟩ := compileAll_ls_Ff fnOk self es he.2 isFn _ gs1 _ hb hfn
    have h2' := h2.mono (Nat.le_refl _) h3
    have h4' := h4.mono h1 (Nat.le_refl _)
    refine ⟨Nat.le_trans h1 h3, ?_⟩
    simp only
    lsin
theorem compileArms_ls_Ff : ∀ (fnOk : Bool) (self : String) (arms : List (Expr × Expr)), FfArms fnOk self arms = true → ∀ isFn c gs r,
    (compileArms isFn c arms).run gs = .ok r → FnameOk self c →
    gs.loops.length ≤ r.2.loops.length ∧ ∀ p ∈ r.1, LsIn p.1 gs.loops.length r.2.loops.length ∧ LsIn p.2 gs.loops.length r.2.loops.length
  | fnOk, self, [], _, isFn, c, gs, r, hc, hfn => by
    rw [compileArms] at hc; simp only [g_pure_ok] at hc; subst hc; exact ⟨Nat.le_refl _, fun x hx => by cases hx⟩
  | fnOk, self, (p, b) :: arms, he, isFn, c, gs, r, hc, hfn => by
    rw [FfArms] at he
    simp only [Bool.and_eq_true] at he
    rw [compileArms] at hc
    simp only [g_bind_ok, g_pure_ok] at hc
    obtain ⟨rr, gs1, hr, rp, gs2, hp, rb, gs3, hb, rfl⟩ := hc
    obtain ⟨h1, h2⟩ := compileArms_ls_Ff fnOk self arms he.2 isFn c gs _ hr hfn
    obtain ⟨h3, h4⟩ := compile_ls_Ff fnOk self p he.1.1 isFn _ gs1 _ hp hfn
    obtain ⟨h5, h6⟩ := compile_ls_Ff fnOk self b he.1.2 isFn c gs2 _ hb hfn
    refine ⟨by simp only at h1 h3 h5 ⊢; omega, fun x hx => ?_⟩
    simp only at h1 h3 h5
    rcases List.mem_cons.mp hx with rfl | hx
    · exact ⟨h4.mono h1 h5, h6.mono (by omega) (Nat.le_refl _)⟩
    · exact ⟨(h2 x hx).1.mono (Nat.le_refl _) (Nat.le_trans h3 h5), (h2 x hx).2.mono (Nat.le_refl _) (Nat.le_trans h3 h5)⟩
end

end ZygoVerif.Sim
