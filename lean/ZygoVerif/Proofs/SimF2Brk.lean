/-
C02, execution half — F2 with `break`/`continue`: generator-side facts.

`compile_ls_Ff`: the loop ids in the code compiled from an F2 expression are the ones its compile
allocated (what makes `BreakInstr`/`ContinueInstr` find the right `loopStart`).
-/
import ZygoVerif.Proofs.SimF2Forms
import ZygoVerif.Proofs.SimFb
set_option linter.unusedSimpArgs false
set_option linter.unusedVariables false
namespace ZygoVerif.Sim
open ZygoVerif.Core ZygoVerif.VM

mutual
theorem compile_ls_Ff : ∀ (fnOk : Bool) (self : String) (e : Expr), Ff fnOk self e = true → ∀ isFn c gs r, (compile isFn c e).run gs = .ok r → FnameOk self c →
    LsRes gs r.2 r.1.1
  | fnOk, self, .int v, _, isFn, c, gs, r, hc, hfn => by
    rw [compile] at hc; simp only [g_pure_ok] at hc; subst hc; exact ⟨Nat.le_refl _, by lsin⟩
  | fnOk, self, .bool v, _, isFn, c, gs, r, hc, hfn => by
    rw [compile] at hc; simp only [g_pure_ok] at hc; subst hc; exact ⟨Nat.le_refl _, by lsin⟩
  | fnOk, self, .str v, _, isFn, c, gs, r, hc, hfn => by
    rw [compile] at hc; simp only [g_pure_ok] at hc; subst hc; exact ⟨Nat.le_refl _, by lsin⟩
  | fnOk, self, .nilLit, _, isFn, c, gs, r, hc, hfn => by
    rw [compile] at hc; simp only [g_pure_ok] at hc; subst hc; exact ⟨Nat.le_refl _, by lsin⟩
  | fnOk, self, .sym x, _, isFn, c, gs, r, hc, hfn => by
    rw [compile] at hc; simp only [g_pure_ok] at hc; subst hc; exact ⟨Nat.le_refl _, by lsin⟩
  | fnOk, self, .begin_ es, he, isFn, c, gs, r, hc, hfn => by
    rw [Ff] at he
    cases es with
    | nil => rw [compile] at hc; simp only [g_pure_ok] at hc; subst hc; exact ⟨Nat.le_refl _, by lsin⟩
    | cons e0 es0 =>
      rw [compile] at hc
      · exact compileBegin_ls_Ff fnOk self (e0 :: es0) he isFn c gs r hc hfn
      · intro hh; cases hh
  | fnOk, self, .def_ x e, he, isFn, c, gs, r, hc, hfn => by
    rw [Ff] at he
    simp only [Bool.and_eq_true] at he
    rw [compile] at hc
    simp only [g_bind_ok, g_pure_ok] at hc
    obtain ⟨ra, gs1, ha, rfl⟩ := hc
    obtain ⟨h1, h2⟩ := compile_ls_Ff fnOk self e he.2 isFn _ gs _ ha hfn
    exact ⟨h1, by simp only; lsin⟩
  | fnOk, self, .set_ x e, he, isFn, c, gs, r, hc, hfn => by
    rw [Ff] at he
    simp only [Bool.and_eq_true] at he
    rw [compile] at hc
    simp only [g_bind_ok, g_pure_ok] at hc
    obtain ⟨ra, gs1, ha, rfl⟩ := hc
    obtain ⟨h1, h2⟩ := compile_ls_Ff fnOk self e he.2 isFn _ gs _ ha hfn
    exact ⟨h1, by simp only; lsin⟩
  | fnOk, self, .cond arms d, he, isFn, c, gs, r, hc, hfn => by
    rw [Ff] at he
    simp only [Bool.and_eq_true] at he
    rw [compile] at hc
    simp only [g_bind_ok, g_pure_ok] at hc
    obtain ⟨rd, gs1, hd, as, gs2, has, rfl⟩ := hc
    obtain ⟨h1, h2⟩ := compile_ls_Ff fnOk self d he.2 isFn _ gs _ hd hfn
    obtain ⟨h3, h4⟩ := compileArms_ls_Ff fnOk self arms he.1 isFn c gs1 _ has hfn
    exact ⟨Nat.le_trans h1 h3, lsIn_asmCond _ _ (fun p hp => ⟨(h4 p hp).1.mono h1 (Nat.le_refl _),
      (h4 p hp).2.mono h1 (Nat.le_refl _)⟩) (h2.mono (Nat.le_refl _) h3)⟩
  | fnOk, self, .and_ es, he, isFn, c, gs, r, hc, hfn => by
    rw [Ff] at he
    rw [compile] at hc
    simp only [g_bind_ok, g_pure_ok] at hc
    obtain ⟨cs, gs1, hcs, rfl⟩ := hc
    obtain ⟨h1, h2⟩ := compileSC_ls_Ff fnOk self es he isFn c gs _ hcs hfn
    exact ⟨h1, lsIn_asmSC _ _ h2⟩
  | fnOk, self, .or_ es, he, isFn, c, gs, r, hc, hfn => by
    rw [Ff] at he
    rw [compile] at hc
    simp only [g_bind_ok, g_pure_ok] at hc
    obtain ⟨cs, gs1, hcs, rfl⟩ := hc
    obtain ⟨h1, h2⟩ := compileSC_ls_Ff fnOk self es he isFn c gs _ hcs hfn
    exact ⟨h1, lsIn_asmSC _ _ h2⟩
  | fnOk, self, .newScope es, he, isFn, c, gs, r, hc, hfn => by
    rw [Ff] at he
    simp only [Bool.and_eq_true, Bool.not_eq_true', List.isEmpty_eq_false_iff] at he
    cases es with
    | nil => exact absurd rfl he.1
    | cons e0 es0 =>
      rw [compile] at hc
      · simp only [g_bind_ok, g_pure_ok] at hc
        obtain ⟨rn, gs1, hn, rfl⟩ := hc
        obtain ⟨h1, h2⟩ := compileNewScope_ls_Ff fnOk self (e0 :: es0) he.2 isFn _ _ gs _ hn hfn
        exact ⟨h1, by simp only; lsin⟩
      · intro hh; cases hh
  | fnOk, self, .let_ seq bs body, he, isFn, c, gs, r, hc, hfn => by
    rw [Ff] at he
    simp only [Bool.and_eq_true, Bool.not_eq_true', List.isEmpty_eq_false_iff] at he
    obtain ⟨⟨⟨_, hbody⟩, hbs⟩, hbl⟩ := he
    rw [compile] at hc
    simp only [g_bind_ok, g_pure_ok] at hc
    obtain ⟨rr, gs1, hr, rb, gs2, hb, rfl⟩ := hc
    obtain ⟨h1, h2⟩ := compileBinds_ls_Ff fnOk self bs hbs isFn _ seq gs _ hr hfn
    obtain ⟨h3, h4⟩ := compileBegin_ls_Ff fnOk self body hbl isFn _ gs1 _ hb hfn
    have h2' := h2.mono (Nat.le_refl _) h3
    have h4' := h4.mono h1 (Nat.le_refl _)
    have h5 : LsIn (bs.map (fun p => Instr.popStackPutEnv p.1)).reverse gs.loops.length gs2.loops.length := by
      intro l hl
      simp only [List.mem_reverse, List.mem_map] at hl
      obtain ⟨_, _, hh⟩ := hl; cases hh
    refine ⟨Nat.le_trans h1 h3, ?_⟩
    simp only
    lsin
  | fnOk, self, .call f args, he, isFn, c, gs, r, hc, hfn => by
    cases f with
    | sym h =>
      rw [Ff] at he
      simp only [Bool.and_eq_true] at he
      rw [compile] at hc
      have hne := ff_call_ne hfn he.1.1.1 he.1.1.2 he.1.2
      simp only [hne, Bool.and_false, Bool.false_eq_true, if_false, g_pure_ok] at hc
      subst hc
      exact ⟨Nat.le_refl _, by lsin⟩
    | _ =>
      rw [compile_call_nonsym isFn c args gs (fun _ hh => by cases hh)] at hc
      injection hc with hc; subst hc
      exact ⟨Nat.le_refl _, by lsin⟩
  | fnOk, self, .fn ps rest body, he, isFn, c, gs, r, hc, hfn => by
    have hk := compile_keep_Ff he hc hfn
    rw [Ff] at he
    simp only [Bool.and_eq_true, Option.isNone_iff_eq_none, decide_eq_true_eq, Bool.not_eq_true',
      List.isEmpty_eq_false_iff] at he
    obtain ⟨⟨⟨⟨⟨hfnok, hrest⟩, hnd⟩, hps⟩, hbody⟩, hff⟩ := he
    obtain ⟨b, tl, g2, hb, _, hk2⟩ := compileBegin_total_Ff true "" body hbody hff isFn (anonCtx c gs)
      (gsAlloc isFn gs s!"__anon{gs.fns.length}" ps rest) (anonCtx_funcname c gs)
    rw [compile_fn_eq isFn c ps rest body gs g2 b tl hb] at hc
    injection hc with hc
    subst hc
    exact ⟨hk.1.loopsLen, by lsin⟩
  | fnOk, self, .defn name ps rest body, he, isFn, c, gs, r, hc, hfn => by
    have hk := compile_keep_Ff he hc hfn
    rw [Ff] at he
    simp only [Bool.and_eq_true, Option.isNone_iff_eq_none, bne_iff_ne, ne_eq, decide_eq_true_eq, Bool.not_eq_true',
      List.isEmpty_eq_false_iff] at he
    obtain ⟨⟨⟨⟨⟨⟨⟨hfnok, hrest⟩, hname⟩, hne⟩, hnd⟩, hps⟩, hbody⟩, hff⟩ := he
    obtain ⟨b, tl, g2, hb, _, hk2⟩ := compileBegin_total_Ff true name body hbody hff isFn (bodyCtx c gs name ps rest body)
      (gsAlloc isFn gs name ps rest) (bodyCtx_funcname c gs name ps rest body)
    rw [compile_defn_eq isFn c name ps rest body gs g2 b tl hne hb] at hc
    injection hc with hc
    subst hc
    exact ⟨hk.1.loopsLen, by lsin⟩
  | fnOk, self, .arr es, he, isFn, c, gs, r, hc, hfn => by
    rw [Ff] at he
    rw [compile] at hc
    simp only [g_bind_ok, g_pure_ok] at hc
    obtain ⟨ra, gs1, ha, rfl⟩ := hc
    obtain ⟨h1, h2⟩ := compileAll_ls_Ff fnOk self es he isFn _ gs _ ha hfn
    exact ⟨h1, by simp only; lsin⟩
  | fnOk, self, .for_ label init test incr body, he, isFn, c, gs, r, hc, hfn => by
    rw [Ff] at he
    simp only [Bool.and_eq_true] at he
    obtain ⟨⟨⟨hi, ht⟩, hs⟩, hb⟩ := he
    rw [compile_for_eq] at hc
    cases hb' : (compileBegin isFn { c with tail := false, scopes := c.scopes + 1 } body).run (forGs gs c label) with
    | error e => rw [hb'] at hc; cases hc
    | ok vb =>
    obtain ⟨rb, g2⟩ := vb
    rw [hb'] at hc; simp only at hc
    cases hi' : (compile isFn { c with tail := false, scopes := c.scopes + 1 } init).run g2 with
    | error e => rw [hi'] at hc; cases hc
    | ok vi =>
    obtain ⟨ri, g3⟩ := vi
    rw [hi'] at hc; simp only at hc
    cases ht' : (compile isFn { c with tail := false, scopes := c.scopes + 1 } test).run g3 with
    | error e => rw [ht'] at hc; cases hc
    | ok vt =>
    obtain ⟨rt, g4⟩ := vt
    rw [ht'] at hc; simp only at hc
    cases hs' : (compile isFn { c with tail := false, scopes := c.scopes + 1 } incr).run g4 with
    | error e => rw [hs'] at hc; cases hc
    | ok vs =>
    obtain ⟨rsn, g5⟩ := vs
    rw [hs'] at hc; simp only at hc
    injection hc with hc
    subst hc
    obtain ⟨b1, b2⟩ := compileBegin_ls_Ff fnOk self body hb isFn _ _ _ hb' hfn
    obtain ⟨i1, i2⟩ := compile_ls_Ff fnOk self init hi isFn _ _ _ hi' hfn
    obtain ⟨t1, t2⟩ := compile_ls_Ff fnOk self test ht isFn _ _ _ ht' hfn
    obtain ⟨s1, s2⟩ := compile_ls_Ff fnOk self incr hs isFn _ _ _ hs' hfn
    rw [forGs_len] at b1 b2
    simp only at b1 b2 i1 i2 t1 t2 s1 s2
    refine ⟨by simp only [forDone_len]; omega, ?_⟩
    simp only [forDone_len]
    exact lsIn_forCode (i2.mono (by omega) (by omega)) (t2.mono (by omega) (by omega)) (s2.mono (by omega) (by omega))
      (b2.mono (by omega) (by omega)) ⟨Nat.le_refl _, by omega⟩
  | _, _, .break_ _, he, _, _, _, _, _, _ | _, _, .continue_ _, he, _, _, _, _, _, _
  | _, _, .assign _ _, he, _, _, _, _, _, _ | _, _, .bad _, he, _, _, _, _, _, _ => by
    simp [Ff] at he
theorem compileBegin_ls_Ff : ∀ (fnOk : Bool) (self : String) (es : List Expr), FfList fnOk self es = true → ∀ isFn c gs r, (compileBegin isFn c es).run gs = .ok r → FnameOk self c →
    LsRes gs r.2 r.1.1
  | fnOk, self, [], _, isFn, c, gs, r, hc, hfn => by
    rw [compileBegin] at hc; simp only [g_pure_ok] at hc; subst hc; exact ⟨Nat.le_refl _, by lsin⟩
  | fnOk, self, [e], he, isFn, c, gs, r, hc, hfn => by
    rw [FfList] at he
    simp only [Bool.and_eq_true] at he
    rw [compileBegin] at hc
    exact compile_ls_Ff fnOk self e he.1 isFn c gs r hc hfn
  | fnOk, self, e :: e' :: es, he, isFn, c, gs, r, hc, hfn => by
    rw [FfList] at he
    simp only [Bool.and_eq_true] at he
    rw [compileBegin] at hc
    · simp only [g_bind_ok, g_pure_ok] at hc
      obtain ⟨ra, gs1, ha, rb, gs2, hb, rfl⟩ := hc
      obtain ⟨h1, h2⟩ := compile_ls_Ff fnOk self e he.1 isFn _ gs _ ha hfn
      obtain ⟨h3, h4⟩ := compileBegin_ls_Ff fnOk self (e' :: es) he.2 isFn c gs1 _ hb hfn
      have h2' := h2.mono (Nat.le_refl _) h3
      have h4' := h4.mono h1 (Nat.le_refl _)
      refine ⟨Nat.le_trans h1 h3, ?_⟩
      simp only
      lsin
    · intro hh; cases hh
theorem compileSC_ls_Ff : ∀ (fnOk : Bool) (self : String) (es : List Expr), FfList fnOk self es = true → ∀ isFn c gs r, (compileSC isFn c es).run gs = .ok r → FnameOk self c →
    gs.loops.length ≤ r.2.loops.length ∧ ∀ x ∈ r.1, LsIn x gs.loops.length r.2.loops.length
  | fnOk, self, [], _, isFn, c, gs, r, hc, hfn => by
    rw [compileSC] at hc; simp only [g_pure_ok] at hc; subst hc; exact ⟨Nat.le_refl _, fun x hx => by cases hx⟩
  | fnOk, self, [e], he, isFn, c, gs, r, hc, hfn => by
    rw [FfList] at he
    simp only [Bool.and_eq_true] at he
    rw [compileSC] at hc
    simp only [g_bind_ok, g_pure_ok] at hc
    obtain ⟨ra, gs1, ha, rfl⟩ := hc
    obtain ⟨h1, h2⟩ := compile_ls_Ff fnOk self e he.1 isFn _ gs _ ha hfn
    exact ⟨h1, fun x hx => by simp only [List.mem_singleton] at hx; subst hx; exact h2⟩
  | fnOk, self, e :: e' :: es, he, isFn, c, gs, r, hc, hfn => by
    rw [FfList] at he
    simp only [Bool.and_eq_true] at he
    rw [compileSC] at hc
    · simp only [g_bind_ok, g_pure_ok] at hc
      obtain ⟨rb, gs1, hb, ra, gs2, ha, rfl⟩ := hc
      obtain ⟨h1, h2⟩ := compileSC_ls_Ff fnOk self (e' :: es) he.2 isFn c gs _ hb hfn
      obtain ⟨h3, h4⟩ := compile_ls_Ff fnOk self e he.1 isFn _ gs1 _ ha hfn
      refine ⟨Nat.le_trans h1 h3, fun x hx => ?_⟩
      rcases List.mem_cons.mp hx with rfl | hx
      · exact h4.mono h1 (Nat.le_refl _)
      · exact (h2 x hx).mono (Nat.le_refl _) h3
    · intro hh; cases hh
theorem compileNewScope_ls_Ff : ∀ (fnOk : Bool) (self : String) (es : List Expr), FfList fnOk self es = true → ∀ isFn c oldtail gs r,
    (compileNewScope isFn c oldtail es).run gs = .ok r → FnameOk self c → LsRes gs r.2 r.1.1
  | fnOk, self, [], _, isFn, c, oldtail, gs, r, hc, hfn => by
    rw [compileNewScope] at hc; simp only [g_pure_ok] at hc; subst hc; exact ⟨Nat.le_refl _, by lsin⟩
  | fnOk, self, [e], he, isFn, c, oldtail, gs, r, hc, hfn => by
    rw [FfList] at he
    simp only [Bool.and_eq_true] at he
    rw [compileNewScope] at hc
    exact compile_ls_Ff fnOk self e he.1 isFn _ gs r hc hfn
  | fnOk, self, e :: e' :: es, he, isFn, c, oldtail, gs, r, hc, hfn => by
    rw [FfList] at he
    simp only [Bool.and_eq_true] at he
    rw [compileNewScope] at hc
    · simp only [g_bind_ok, g_pure_ok] at hc
      obtain ⟨ra, gs1, ha, rb, gs2, hb, rfl⟩ := hc
      obtain ⟨h1, h2⟩ := compile_ls_Ff fnOk self e he.1 isFn _ gs _ ha hfn
      obtain ⟨h3, h4⟩ := compileNewScope_ls_Ff fnOk self (e' :: es) he.2 isFn c oldtail gs1 _ hb hfn
      have h2' := h2.mono (Nat.le_refl _) h3
      have h4' := h4.mono h1 (Nat.le_refl _)
      refine ⟨Nat.le_trans h1 h3, ?_⟩
      simp only
      lsin
    · intro hh; cases hh
theorem compileBinds_ls_Ff : ∀ (fnOk : Bool) (self : String) (bs : List (String × Expr)), FfBinds fnOk self bs = true → ∀ isFn c seq gs r,
    (compileBinds isFn c seq bs).run gs = .ok r → FnameOk self c → LsRes gs r.2 r.1.1
  | fnOk, self, [], _, isFn, c, seq, gs, r, hc, hfn => by
    rw [compileBinds] at hc; simp only [g_pure_ok] at hc; subst hc; exact ⟨Nat.le_refl _, by lsin⟩
  | fnOk, self, (x, e) :: bs, he, isFn, c, seq, gs, r, hc, hfn => by
    rw [FfBinds] at he
    simp only [Bool.and_eq_true] at he
    rw [compileBinds] at hc
    simp only [g_bind_ok, g_pure_ok] at hc
    obtain ⟨ra, gs1, ha, rb, gs2, hb, rfl⟩ := hc
    obtain ⟨h1, h2⟩ := compile_ls_Ff fnOk self e he.1.2 isFn _ gs _ ha hfn
    obtain ⟨h3, h4⟩ := compileBinds_ls_Ff fnOk self bs he.2 isFn _ seq gs1 _ hb hfn
    have h2' := h2.mono (Nat.le_refl _) h3
    have h4' := h4.mono h1 (Nat.le_refl _)
    refine ⟨Nat.le_trans h1 h3, ?_⟩
    simp only
    lsin
theorem compileAll_ls_Ff : ∀ (fnOk : Bool) (self : String) (es : List Expr), FfList fnOk self es = true → ∀ isFn c gs r, (compileAll isFn c es).run gs = .ok r → FnameOk self c →
    LsRes gs r.2 r.1.1
  | fnOk, self, [], _, isFn, c, gs, r, hc, hfn => by
    rw [compileAll] at hc; simp only [g_pure_ok] at hc; subst hc; exact ⟨Nat.le_refl _, by lsin⟩
  | fnOk, self, e :: es, he, isFn, c, gs, r, hc, hfn => by
    rw [FfList] at he
    simp only [Bool.and_eq_true] at he
    rw [compileAll] at hc
    simp only [g_bind_ok, g_pure_ok] at hc
    obtain ⟨ra, gs1, ha, rb, gs2, hb, rfl⟩ := hc
    obtain ⟨h1, h2⟩ := compile_ls_Ff fnOk self e he.1 isFn _ gs _ ha hfn
    obtain ⟨h3, h4⟩ := compileAll_ls_Ff fnOk self es he.2 isFn _ gs1 _ hb hfn
    have h2' := h2.mono (Nat.le_refl _) h3
    have h4' := h4.mono h1 (Nat.le_refl _)
    refine ⟨Nat.le_trans h1 h3, ?_⟩
    simp only
    lsin
theorem compileArms_ls_Ff : ∀ (fnOk : Bool) (self : String) (arms : List (Expr × Expr)), FfArms fnOk self arms = true → ∀ isFn c gs r,
    (compileArms isFn c arms).run gs = .ok r → FnameOk self c →
    gs.loops.length ≤ r.2.loops.length ∧ ∀ p ∈ r.1, LsIn p.1 gs.loops.length r.2.loops.length ∧ LsIn p.2 gs.loops.length r.2.loops.length
  | fnOk, self, [], _, isFn, c, gs, r, hc, hfn => by
    rw [compileArms] at hc; simp only [g_pure_ok] at hc; subst hc; exact ⟨Nat.le_refl _, fun x hx => by cases hx⟩
  | fnOk, self, (p, b) :: arms, he, isFn, c, gs, r, hc, hfn => by
    rw [FfArms] at he
    simp only [Bool.and_eq_true] at he
    rw [compileArms] at hc
    simp only [g_bind_ok, g_pure_ok] at hc
    obtain ⟨rr, gs1, hr, rp, gs2, hp, rb, gs3, hb, rfl⟩ := hc
    obtain ⟨h1, h2⟩ := compileArms_ls_Ff fnOk self arms he.2 isFn c gs _ hr hfn
    obtain ⟨h3, h4⟩ := compile_ls_Ff fnOk self p he.1.1 isFn _ gs1 _ hp hfn
    obtain ⟨h5, h6⟩ := compile_ls_Ff fnOk self b he.1.2 isFn c gs2 _ hb hfn
    refine ⟨by simp only at h1 h3 h5 ⊢; omega, fun x hx => ?_⟩
    simp only at h1 h3 h5
    rcases List.mem_cons.mp hx with rfl | hx
    · exact ⟨h4.mono h1 h5, h6.mono (by omega) (Nat.le_refl _)⟩
    · exact ⟨(h2 x hx).1.mono (Nat.le_refl _) (Nat.le_trans h3 h5), (h2 x hx).2.mono (Nat.le_refl _) (Nat.le_trans h3 h5)⟩
end

/-! ## The fragment with `break` and `continue` (top-level code) -/

/-- the compile-time loop facts survive a compile -/
theorem GsOk.keep {Γ : List LCtx} {gs gs' : GS} (h : GsOk Γ gs) (hk : KeepFns gs gs') : GsOk Γ gs' :=
  ⟨hk.loopstack.trans h.stack, fun γ hγ => by
    obtain ⟨h1, h2, h3⟩ := h.recs γ hγ
    exact ⟨Nat.lt_of_lt_of_le h1 hk.loopsLen, by rw [hk.loopsGet γ.id h1]; exact h2, by rw [hk.loopsGet γ.id h1]; exact h3⟩⟩

/-- what the totality statements on Fx give -/
abbrev TotX (gs gs' : GS) (code : List Instr) : Prop := KeepFns gs gs' ∧ LsRes gs gs' code

theorem total_of_Ff {e : Expr} (he : Ff true self e = true) (isFn : Nat → Bool) (c : Ctx) (gs : GS) (hfn : FnameOk self c) :
    ∃ code t gs', (compile isFn c e).run gs = .ok ((code, t), gs') ∧ code ≠ [] ∧ TotX gs gs' code := by
  obtain ⟨code, t, g1, h1, hne, hk⟩ := compile_total_Ff true self e he isFn c gs hfn
  exact ⟨code, t, g1, h1, hne, hk.1, compile_ls_Ff true self e he isFn c gs _ h1 hfn⟩

theorem TotX.seq {gs g1 g2 : GS} {a b code : List Instr} (h₁ : TotX gs g1 a) (h₂ : TotX g1 g2 b)
    (h : ∀ x y, LsIn a x y → LsIn b x y → LsIn code x y) : TotX gs g2 code :=
  ⟨h₁.1.trans h₂.1, Nat.le_trans h₁.2.1 h₂.2.1,
    h _ _ (h₁.2.2.mono (Nat.le_refl _) h₂.2.1) (h₂.2.2.mono h₁.2.1 (Nat.le_refl _))⟩

mutual
theorem compile_total_Fx : ∀ (ls : List (Option String)) (self : String) (e : Expr), Fx ls self e = true → ∀ isFn c gs Γ, FnameOk self c →
    GsOk Γ gs → Γ.map (·.label) = ls →
    ∃ code t gs', (compile isFn c e).run gs = .ok ((code, t), gs') ∧ code ≠ [] ∧ TotX gs gs' code
  | ls, self, .break_ l, he, isFn, c, gs, Γ, hfn, hg, hls => by
    rw [Fx] at he
    obtain ⟨γ, hγ, _⟩ := findCtx_ok hls he
    refine ⟨[.brk γ.id (c.scopes - ((gs.loops.getD γ.id {}).scopeDepth + 1))], c.tail, gs, ?_, by simp, KeepFns.refl _,
      Nat.le_refl _, by lsin⟩
    rw [compile]
    simp only [bind, StateT.bind, StateT.run, get, getThe, MonadStateOf.get, StateT.get, pure, Except.pure, Except.bind,
      StateT.pure, findLoop_ctx hg, hγ, Option.map_some]
  | ls, self, .continue_ l, he, isFn, c, gs, Γ, hfn, hg, hls => by
    rw [Fx] at he
    obtain ⟨γ, hγ, _⟩ := findCtx_ok hls he
    refine ⟨[.cont γ.id (c.scopes - ((gs.loops.getD γ.id {}).scopeDepth + 1))], c.tail, gs, ?_, by simp, KeepFns.refl _,
      Nat.le_refl _, by lsin⟩
    rw [compile]
    simp only [bind, StateT.bind, StateT.run, get, getThe, MonadStateOf.get, StateT.get, pure, Except.pure, Except.bind,
      StateT.pure, findLoop_ctx hg, hγ, Option.map_some]
  | ls, self, .begin_ es, he, isFn, c, gs, Γ, hfn, hg, hls => by
    rw [Fx] at he
    cases es with
    | nil => exact ⟨[.push .nil], c.tail, gs, by rw [compile]; rfl, by simp, KeepFns.refl _, Nat.le_refl _, by lsin⟩
    | cons e0 es0 =>
      rw [compile]
      · exact compileBegin_total_Fx ls self (e0 :: es0) (by simp) he isFn c gs Γ hfn hg hls
      · intro hh; cases hh
  | ls, self, .cond arms d, he, isFn, c, gs, Γ, hfn, hg, hls => by
    rw [Fx] at he
    simp only [Bool.and_eq_true] at he
    obtain ⟨dc, t, g1, hd, hdne, hf1⟩ := compile_total_Fx ls self d he.2 isFn c gs Γ hfn hg hls
    obtain ⟨as, g2, has, hf2, hl2, hin2⟩ := compileArms_total_Fx ls self arms he.1 isFn c g1 Γ hfn (hg.keep hf1.1) hls
    refine ⟨asmCond as dc, c.tail, g2, ?_, asmCond_ne_nil as dc hdne, hf1.1.trans hf2, Nat.le_trans hf1.2.1 hl2, ?_⟩
    · rw [compile]
      simp only [g_bind_ok, g_pure_ok]
      exact ⟨_, _, hd, _, _, has, rfl⟩
    · exact lsIn_asmCond _ _ (fun p hp => ⟨(hin2 p hp).1.mono hf1.2.1 (Nat.le_refl _),
        (hin2 p hp).2.mono hf1.2.1 (Nat.le_refl _)⟩) (hf1.2.2.mono (Nat.le_refl _) hl2)
  | ls, self, .let_ seq bs body, he, isFn, c, gs, Γ, hfn, hg, hls => by
    rw [Fx] at he
    simp only [Bool.and_eq_true, Bool.not_eq_true', List.isEmpty_eq_false_iff] at he
    obtain ⟨⟨⟨_, hbody⟩, hbs⟩, hbl⟩ := he
    have hfn' : FnameOk self { c with scopes := c.scopes + 1, tail := false } := hfn
    obtain ⟨rhs, t1, g1, h1, hf1⟩ := compileBinds_total_Ff true self bs hbs isFn { c with scopes := c.scopes + 1, tail := false } seq gs hfn'
    have hl1 := compileBinds_ls_Ff true self bs hbs isFn _ seq gs _ h1 hfn'
    obtain ⟨b, t2, g2, h2, _, hf2⟩ := compileBegin_total_Fx ls self body hbody hbl isFn { c with scopes := c.scopes + 1 } g1 Γ hfn
      (hg.keep hf1.1) hls
    refine ⟨[.addScope] ++ rhs ++ (if seq then [] else (bs.map (fun p => Instr.popStackPutEnv p.1)).reverse)
      ++ b ++ [.removeScope], t2, g2, ?_, by simp, TotX.seq ⟨hf1.1, hl1⟩ hf2 (fun x y hx hy => ?_)⟩
    · rw [compile]
      simp only [g_bind_ok, g_pure_ok]
      exact ⟨_, _, h1, _, _, h2, rfl⟩
    · have h5 : LsIn (bs.map (fun p => Instr.popStackPutEnv p.1)).reverse x y := by
        intro l hl
        simp only [List.mem_reverse, List.mem_map] at hl
        obtain ⟨_, _, hh⟩ := hl; cases hh
      lsin
  | ls, self, .newScope es, he, isFn, c, gs, Γ, hfn, hg, hls => by
    rw [Fx] at he
    simp only [Bool.and_eq_true, Bool.not_eq_true', List.isEmpty_eq_false_iff] at he
    obtain ⟨code, t, g1, h1, _, hf1⟩ := compileNewScope_total_Fx ls self es he.1 he.2 isFn { c with scopes := c.scopes + 1 }
      c.tail gs Γ hfn hg hls
    refine ⟨[.addScope] ++ code ++ [.removeScope], t, g1, ?_, by simp, hf1.1, hf1.2.1, ?_⟩
    · cases es with
      | nil => exact absurd rfl he.1
      | cons e es =>
        rw [compile]
        · simp only [g_bind_ok, g_pure_ok]
          exact ⟨_, _, h1, rfl⟩
        · intro hh; cases hh
    · have := hf1.2.2
      lsin
  | ls, self, .for_ label init test incr body, he, isFn, c, gs, Γ, hfn, hg, hls => by
    rw [Fx] at he
    simp only [Bool.and_eq_true] at he
    obtain ⟨⟨⟨hi, ht⟩, hs⟩, hb⟩ := he
    obtain ⟨b, tb, g2, h2, hf2⟩ := compileBeginAny_total_Fx (label :: ls) self body hb isFn { c with tail := false, scopes := c.scopes + 1 }
      (forGs gs c label) (ctx0 gs.loops.length label c.scopes :: Γ) hfn (hg.for_ c label _ rfl rfl rfl) (by simp [hls, ctx0])
    obtain ⟨i, ti, g3, h3, _, hf3⟩ := total_of_Ff hi isFn { c with tail := false, scopes := c.scopes + 1 } g2 hfn
    obtain ⟨t, tt, g4, h4, _, hf4⟩ := total_of_Ff ht isFn { c with tail := false, scopes := c.scopes + 1 } g3 hfn
    obtain ⟨s, ts, g5, h5, _, hf5⟩ := total_of_Ff hs isFn { c with tail := false, scopes := c.scopes + 1 } g4 hfn
    refine ⟨forCode gs.loops.length i t s b, c.tail,
      forDone g5 gs.loops.length
        (asmFor gs.loops.length (i ++ [.popUntilMark gs.loops.length]) t
          (s ++ [.popUntilMark gs.loops.length]) (b ++ [.popUntilMark gs.loops.length])).2.1
        (asmFor gs.loops.length (i ++ [.popUntilMark gs.loops.length]) t
          (s ++ [.popUntilMark gs.loops.length]) (b ++ [.popUntilMark gs.loops.length])).2.2,
      ?_, by simp [forCode, asmFor], ?_, ?_, ?_⟩
    · rw [compile_for_eq, h2]
      simp only
      rw [h3]
      simp only
      rw [h4]
      simp only
      rw [h5]
    · exact KeepFns.for_ (((hf2.1.trans hf3.1).trans hf4.1).trans hf5.1)
    · have b1 := hf2.2.1; have i1 := hf3.2.1; have t1 := hf4.2.1; have s1 := hf5.2.1
      rw [forGs_len] at b1
      simp only [forDone_len]; omega
    · have b1 := hf2.2.1; have i1 := hf3.2.1; have t1 := hf4.2.1; have s1 := hf5.2.1
      have b2 := hf2.2.2
      rw [forGs_len] at b1 b2
      simp only [forDone_len]
      exact lsIn_forCode (hf3.2.2.mono (by omega) (by omega)) (hf4.2.2.mono (by omega) (by omega))
        (hf5.2.2.mono (by omega) (by omega)) (b2.mono (by omega) (by omega)) ⟨Nat.le_refl _, by omega⟩
  | ls, self, .int v, he, isFn, c, gs, Γ, hfn, hg, hls | ls, self, .bool v, he, isFn, c, gs, Γ, hfn, hg, hls
  | ls, self, .str v, he, isFn, c, gs, Γ, hfn, hg, hls | ls, self, .nilLit, he, isFn, c, gs, Γ, hfn, hg, hls
  | ls, self, .sym x, he, isFn, c, gs, Γ, hfn, hg, hls | ls, self, .arr es, he, isFn, c, gs, Γ, hfn, hg, hls
  | ls, self, .call f args, he, isFn, c, gs, Γ, hfn, hg, hls | ls, self, .def_ x e, he, isFn, c, gs, Γ, hfn, hg, hls
  | ls, self, .set_ x e, he, isFn, c, gs, Γ, hfn, hg, hls | ls, self, .and_ es, he, isFn, c, gs, Γ, hfn, hg, hls
  | ls, self, .or_ es, he, isFn, c, gs, Γ, hfn, hg, hls | ls, self, .fn _ _ _, he, isFn, c, gs, Γ, hfn, hg, hls
  | ls, self, .defn _ _ _ _, he, isFn, c, gs, Γ, hfn, hg, hls => by
    rw [Fx] at he; exact total_of_Ff he isFn c gs hfn
  | ls, self, .assign _ _, he, _, _, _, _, _, _, _ | ls, self, .bad _, he, _, _, _, _, _, _, _ => by
    simp [Fx] at he
theorem compileBegin_total_Fx : ∀ (ls : List (Option String)) (self : String) (es : List Expr), es ≠ [] → FxList ls self es = true →
    ∀ isFn c gs Γ, FnameOk self c → GsOk Γ gs → Γ.map (·.label) = ls →
    ∃ code t gs', (compileBegin isFn c es).run gs = .ok ((code, t), gs') ∧ code ≠ [] ∧ TotX gs gs' code
  | _, _, [], hne, _, _, _, _, _, _, _, _ => absurd rfl hne
  | ls, self, [e], _, he, isFn, c, gs, Γ, hfn, hg, hls => by
    rw [FxList] at he
    simp only [Bool.and_eq_true] at he
    rw [compileBegin]
    exact compile_total_Fx ls self e he.1 isFn c gs Γ hfn hg hls
  | ls, self, e :: e' :: es, _, he, isFn, c, gs, Γ, hfn, hg, hls => by
    rw [FxList] at he
    simp only [Bool.and_eq_true] at he
    obtain ⟨a, ta, g1, ha, hane, hf1⟩ := compile_total_Fx ls self e he.1 isFn { c with tail := false } gs Γ hfn hg hls
    obtain ⟨b, tb, g2, hb, _, hf2⟩ := compileBegin_total_Fx ls self (e' :: es) (by simp) he.2 isFn c g1 Γ hfn (hg.keep hf1.1) hls
    refine ⟨a ++ (if a.isEmpty then [] else [.pop]) ++ b, tb, g2, ?_, by simp [hane],
      TotX.seq hf1 hf2 (fun x y hx hy => by lsin)⟩
    rw [compileBegin]
    · simp only [g_bind_ok, g_pure_ok]
      exact ⟨_, _, ha, _, _, hb, rfl⟩
    · intro hh; cases hh
theorem compileBeginAny_total_Fx : ∀ (ls : List (Option String)) (self : String) (es : List Expr), FxList ls self es = true →
    ∀ isFn c gs Γ, FnameOk self c → GsOk Γ gs → Γ.map (·.label) = ls →
    ∃ code t gs', (compileBegin isFn c es).run gs = .ok ((code, t), gs') ∧ TotX gs gs' code
  | _, _, [], _, isFn, c, gs, _, _, _, _ => ⟨[], false, gs, by rw [compileBegin]; rfl, KeepFns.refl _, Nat.le_refl _, by lsin⟩
  | ls, self, e :: es, he, isFn, c, gs, Γ, hfn, hg, hls => by
    obtain ⟨code, t, g1, h1, _, hf1⟩ := compileBegin_total_Fx ls self (e :: es) (by simp) he isFn c gs Γ hfn hg hls
    exact ⟨code, t, g1, h1, hf1⟩
theorem compileNewScope_total_Fx : ∀ (ls : List (Option String)) (self : String) (es : List Expr), es ≠ [] → FxList ls self es = true →
    ∀ isFn c oldtail gs Γ, FnameOk self c → GsOk Γ gs → Γ.map (·.label) = ls →
    ∃ code t gs', (compileNewScope isFn c oldtail es).run gs = .ok ((code, t), gs') ∧ code ≠ [] ∧ TotX gs gs' code
  | _, _, [], hne, _, _, _, _, _, _, _, _, _ => absurd rfl hne
  | ls, self, [e], _, he, isFn, c, oldtail, gs, Γ, hfn, hg, hls => by
    rw [FxList] at he
    simp only [Bool.and_eq_true] at he
    rw [compileNewScope]
    exact compile_total_Fx ls self e he.1 isFn _ gs Γ hfn hg hls
  | ls, self, e :: e' :: es, _, he, isFn, c, oldtail, gs, Γ, hfn, hg, hls => by
    rw [FxList] at he
    simp only [Bool.and_eq_true] at he
    obtain ⟨a, ta, g1, ha, hane, hf1⟩ := compile_total_Fx ls self e he.1 isFn { c with tail := false } gs Γ hfn hg hls
    obtain ⟨b, tb, g2, hb, _, hf2⟩ := compileNewScope_total_Fx ls self (e' :: es) (by simp) he.2 isFn c oldtail g1 Γ hfn
      (hg.keep hf1.1) hls
    refine ⟨a ++ [.pop] ++ b, tb, g2, ?_, by simp, TotX.seq hf1 hf2 (fun x y hx hy => by lsin)⟩
    rw [compileNewScope]
    · simp only [g_bind_ok, g_pure_ok]
      exact ⟨_, _, ha, _, _, hb, rfl⟩
    · intro hh; cases hh
theorem compileArms_total_Fx : ∀ (ls : List (Option String)) (self : String) (arms : List (Expr × Expr)), FxArms ls self arms = true →
    ∀ isFn c gs Γ, FnameOk self c → GsOk Γ gs → Γ.map (·.label) = ls →
    ∃ as gs', (compileArms isFn c arms).run gs = .ok (as, gs') ∧ KeepFns gs gs' ∧ gs.loops.length ≤ gs'.loops.length
      ∧ ∀ p ∈ as, LsIn p.1 gs.loops.length gs'.loops.length ∧ LsIn p.2 gs.loops.length gs'.loops.length
  | _, _, [], _, isFn, c, gs, _, _, _, _ =>
    ⟨[], gs, by rw [compileArms]; rfl, KeepFns.refl _, Nat.le_refl _, fun _ h => by cases h⟩
  | ls, self, (p, b) :: arms, he, isFn, c, gs, Γ, hfn, hg, hls => by
    rw [FxArms] at he
    simp only [Bool.and_eq_true] at he
    obtain ⟨r, g1, hr, hf1, hl1, hin1⟩ := compileArms_total_Fx ls self arms he.2 isFn c gs Γ hfn hg hls
    obtain ⟨pc, _, g2, hp, _, hf2⟩ := total_of_Ff he.1.1 isFn { c with tail := false } g1 hfn
    obtain ⟨bc, _, g3, hb, _, hf3⟩ := compile_total_Fx ls self b he.1.2 isFn c g2 Γ hfn (hg.keep (hf1.trans hf2.1)) hls
    refine ⟨(pc, bc) :: r, g3, ?_, (hf1.trans hf2.1).trans hf3.1, Nat.le_trans hl1 (Nat.le_trans hf2.2.1 hf3.2.1), fun x hx => ?_⟩
    · rw [compileArms]
      simp only [g_bind_ok, g_pure_ok]
      exact ⟨_, _, hr, _, _, hp, _, _, hb, rfl⟩
    · rcases List.mem_cons.mp hx with rfl | hx
      · exact ⟨hf2.2.2.mono hl1 hf3.2.1, hf3.2.2.mono (Nat.le_trans hl1 hf2.2.1) (Nat.le_refl _)⟩
      · exact ⟨(hin1 x hx).1.mono (Nat.le_refl _) (Nat.le_trans hf2.2.1 hf3.2.1),
          (hin1 x hx).2.mono (Nat.le_refl _) (Nat.le_trans hf2.2.1 hf3.2.1)⟩
end

/-! ## The enclosing loops at run time -/

/-- the run-time facts about one enclosing loop -/
structure CtxF1 (γ : LCtx) (sc : Nat) (s : St) (rs : Ref.St) : Prop where
  idlt : γ.id < s.loops.length
  start : findLoopStart (fnOf s s.curfunc).code γ.id = some γ.start
  brk : (γ.start : Int) + (s.loops.getD γ.id {}).breakOff = γ.brkPos
  cont : (γ.start : Int) + (s.loops.getD γ.id {}).contOff = γ.contPos
  lin : ∃ extra, s.linear = extra ++ γ.lin ∧ extra.length + γ.depth + 1 = sc
  frlt : γ.fr < s.scopes.length
  chain : ∃ k, ChainF (isFnScope s) rs.frames k γ.fr γ.lin ∧ FnChainF s rs.frames γ.lin k s.curfunc
  bottom : γ.lin.getLast? = some (some 0)
  data : ∃ G, s.data = G ++ some (.mark γ.id) :: γ.D ∧ GoodAbove γ.id G

def CtxF (Γ : List LCtx) (sc : Nat) (s : St) (rs : Ref.St) : Prop := ∀ γ ∈ Γ, CtxF1 γ sc s rs

/-- everything a balanced piece of code may do keeps the loop facts -/
theorem CtxF.after {Γ : List LCtx} {sc : Nat} {s s' : St} {rs rs' : Ref.St} (h : CtxF Γ sc s rs)
    (hfn : fnOf s' s'.curfunc = fnOf s s.curfunc) (hfr : FrameF s s') (hext : RExt rs rs')
    (hd : ∃ X, s'.data = X ++ s.data ∧ ∀ γ ∈ Γ, GoodAbove γ.id X) : CtxF Γ sc s' rs' := by
  intro γ hγ
  obtain ⟨h1, h2, h3, h4, h5, h6, ⟨k, hch, hfc⟩, h8, h9⟩ := h γ hγ
  obtain ⟨X, hX, hgood⟩ := hd
  obtain ⟨G, hG, hGg⟩ := h9
  have hflags : ∀ i, i ≤ γ.fr → isFnScope s' i = isFnScope s i := fun i hi => hfr.flags i (by omega)
  have hk : FnsKeep s s' := FnsKeep.of_frame hfr.toFrame (fns_ne_nil_of_lt hfc.lt)
  refine ⟨Nat.lt_of_lt_of_le h1 hfr.loopsLen, by rw [hfn]; exact h2, by rw [hfr.loops γ.id h1]; exact h3,
    by rw [hfr.loops γ.id h1]; exact h4, by rw [hfr.linear]; exact h5, Nat.lt_of_lt_of_le h6 hfr.scLen,
    ⟨k, hch.congr hext.1 hflags, ?_⟩, h8, ⟨X ++ G, by rw [hX, hG, List.append_assoc], (hgood γ hγ).append hGg⟩⟩
  rw [hfr.curfunc]
  exact hfc.transfer s.scopes.length hfr.flags hext.1 hk (Nat.le_refl _) hfr.scLen (fun e he => Nat.lt_trans (hch.k_lt e he) h6)
    (takeToBoundary_chain hch hflags)

/-- `Frame` without the linear stack (a `break`/`continue` pops scopes) -/
structure FrameNL (s s' : St) : Prop where
  curfunc : s'.curfunc = s.curfunc
  addr : s'.addr = s.addr
  susp : s'.suspended = s.suspended
  fnsLen : s.fns.length ≤ s'.fns.length
  fns : ∀ id, id < s.fns.length → fnOf s' id = fnOf s id
  loopsLen : s.loops.length ≤ s'.loops.length
  loops : ∀ id, id < s.loops.length → s'.loops.getD id {} = s.loops.getD id {}
  scLen : s.scopes.length ≤ s'.scopes.length
  flags : ∀ i, i < s.scopes.length → isFnScope s' i = isFnScope s i

theorem FrameF.toNL {s s' : St} (h : FrameF s s') : FrameNL s s' :=
  ⟨h.curfunc, h.addr, h.susp, h.fnsLen, h.fns, h.loopsLen, h.loops, h.scLen, h.flags⟩

theorem FrameNL.trans {a b c : St} (h₁ : FrameNL a b) (h₂ : FrameNL b c) : FrameNL a c :=
  ⟨h₂.curfunc.trans h₁.curfunc, h₂.addr.trans h₁.addr, h₂.susp.trans h₁.susp, Nat.le_trans h₁.fnsLen h₂.fnsLen,
   fun id hid => (h₂.fns id (Nat.lt_of_lt_of_le hid h₁.fnsLen)).trans (h₁.fns id hid),
   Nat.le_trans h₁.loopsLen h₂.loopsLen,
   fun id hid => (h₂.loops id (Nat.lt_of_lt_of_le hid h₁.loopsLen)).trans (h₁.loops id hid),
   Nat.le_trans h₁.scLen h₂.scLen,
   fun i hi => (h₂.flags i (Nat.lt_of_lt_of_le hi h₁.scLen)).trans (h₁.flags i hi)⟩

theorem FrameNL.toF {s s' : St} (h : FrameNL s s') (hl : s'.linear = s.linear) : FrameF s s' :=
  ⟨⟨hl, h.curfunc, h.addr, h.susp, h.fnsLen, h.fns, h.loopsLen, h.loops⟩, h.scLen, h.flags⟩

/-- the relation after the scopes opened inside a loop have been popped -/
theorem RelF.relin {m : Nat → Nat} {s s' : St} {rs : Ref.St} {env env' : Nat} (h : RelF m s rs env)
    (hsc : s'.scopes = s.scopes) (hfns : s'.fns = s.fns) (hcur : s'.curfunc = s.curfunc) (hheap : s'.heap = s.heap)
    (htr : s'.trace = s.trace) (hb : s'.linear.getLast? = some (some 0))
    (hch : ∃ k, ChainF (isFnScope s) rs.frames k env' s'.linear ∧ FnChainF s rs.frames s'.linear k s.curfunc)
    (hloops : s'.loops = s.loops := by rfl) (hlz : s'.lazies = s.lazies := by rfl) : RelF m s' rs env' := by
  have hso : ∀ i, scopeOf s' i = scopeOf s i := fun i => by unfold scopeOf; rw [hsc]
  have hfl : isFnScope s' = isFnScope s := by funext i; unfold isFnScope; rw [hso]
  have hk : FnsKeep s s' := FnsKeep.of_fns_eq hfns (LoopsExt.of_eq hloops)
  have hgood : ∀ id, GoodFn m s rs id → GoodFn m s' rs id := fun id hg =>
    hg.mono hk (by rw [hsc]; exact Nat.le_refl _) (fun i _ => by rw [hfl]) (RExt.refl rs) rfl
  obtain ⟨k, hc, hfc⟩ := hch
  obtain ⟨fr0, hf0, hp0, hfl0⟩ := h.root0
  refine ⟨by rw [hsc]; exact h.len, fun i x => by rw [hso]; exact h.vars i x, ⟨fr0, hf0, hp0, by rw [hfl]; exact hfl0⟩,
    h.par, hb, ⟨k, by rw [hfl]; exact hc, ?_⟩,
    fun i hi => by
      rw [hfl] at hi; obtain ⟨t, h1, h2⟩ := h.fscopes i hi
      exact ⟨t, by rw [hso]; exact h1, by unfold fnOf; rw [hfns]; exact h2⟩,
    by rw [hheap]; exact h.heap, by rw [htr]; exact h.trace, h.globals,
    fun i x v hv => ValIn.mono (h.vok i x v (by rw [← hso]; exact hv)) hgood, by rw [hheap]; exact HeapIn.mono h.hok hgood,
    h.lz.mono hk (by rw [hsc]; exact Nat.le_refl _) (fun i _ => by rw [hfl]) (RExt.refl rs) (fun _ _ => rfl) hlz rfl⟩
  rw [hcur]
  exact hfc.transfer (s := s) (s' := s') rs.frames.length (fun i _ => by rw [hfl]) (fun i fr hf => ⟨fr, hf, rfl⟩) hk
    (Nat.le_of_eq h.len) (by rw [hsc]; exact Nat.le_refl _)
    (fun e he => Nat.lt_trans (hc.k_lt e he) hc.lt) (by rw [hfl])

/-! ## The simulation statement with non-local exits -/

/-- a `break`/`continue` was executed: control is at `tgt` in the loop of `γ`, the scopes opened inside
the loop popped; above the data stack there is only garbage the loop's `clearMark`/`popUntilMark` removes -/
def JumpedB (B : List (Option Val)) (tgt : Int) (γ : LCtx) (Γ : List LCtx) (m : Nat → Nat) (s : St) (rs rs' : Ref.St) : Prop :=
  ∃ (s' : St) (m' : Nat → Nat) (X : List (Option Val)), ReachX s s' ∧ s'.pc = tgt ∧ s'.linear = γ.lin
    ∧ s'.data = X ++ B ∧ (∀ γ' ∈ Γ, GoodAbove γ'.id X) ∧ fnOf s' s'.curfunc = fnOf s s.curfunc
    ∧ RelF m' s' rs' γ.fr ∧ MExt s m m' ∧ RExt rs rs' ∧ FrameNL s s'

abbrev JumpedF (tgt : Int) (γ : LCtx) (Γ : List LCtx) (m : Nat → Nat) (s : St) (rs rs' : Ref.St) : Prop :=
  JumpedB s.data tgt γ Γ m s rs rs'

def SimX (code : List Instr) (Γ : List LCtx) (m : Nat → Nat) (s : St) (rs : Ref.St) (env : Nat) (res : Ref.R Val) : Prop :=
  match res with
  | .ok v' rs' => ∃ s' m' v, ReachX s s' ∧ Lands code.length v s s' ∧ v' = trf m' v ∧ RelF m' s' rs' env
      ∧ MExt s m m' ∧ RExt rs rs' ∧ FrameF s s' ∧ VOk m' s' rs' v
  | .err rs' => FailsX s rs'.trace
  | .timeout => True
  | .brk l rs' => ∃ γ, findCtx Γ l = some γ ∧ JumpedF γ.brkPos γ Γ m s rs rs'
  | .cont l rs' => ∃ γ, findCtx Γ l = some γ ∧ JumpedF γ.contPos γ Γ m s rs rs'

theorem SimF.toX {code : List Instr} {Γ : List LCtx} {m : Nat → Nat} {s : St} {rs : Ref.St} {env : Nat} {res : Ref.R Val}
    (h : SimF code m s rs env res) : SimX code Γ m s rs env res := by
  cases res with
  | ok v rs' => exact h
  | err rs' => exact h
  | timeout => trivial
  | brk l rs' => exact h.elim
  | cont l rs' => exact h.elim

theorem JumpedB.of_reach {B : List (Option Val)} {tgt : Int} {γ : LCtx} {Γ : List LCtx} {m m₁ : Nat → Nat} {s s₁ : St}
    {rs rs₁ rs' : Ref.St} (hreach : ReachX s s₁) (hfn : fnOf s₁ s₁.curfunc = fnOf s s.curfunc)
    (hm : MExt s m m₁) (hext : RExt rs rs₁) (hframe : FrameNL s s₁) (h : JumpedB B tgt γ Γ m₁ s₁ rs₁ rs') :
    JumpedB B tgt γ Γ m s rs rs' := by
  obtain ⟨s', m', X, r, hpc, hlin, hd, hg, hf, rel, hm', ext, fr⟩ := h
  exact ⟨s', m', X, hreach.trans r, hpc, hlin, hd, hg, hf.trans hfn, rel, hm.trans hm' hframe.fnsLen,
    hext.trans ext, hframe.trans fr⟩

theorem JumpedB.weaken {B : List (Option Val)} {tgt : Int} {γ : LCtx} {Γ Γ' : List LCtx} {m : Nat → Nat} {s : St}
    {rs rs' : Ref.St} (h : JumpedB B tgt γ Γ m s rs rs') (hsub : ∀ γ' ∈ Γ', γ' ∈ Γ) : JumpedB B tgt γ Γ' m s rs rs' := by
  obtain ⟨s', m', X, r, hpc, hlin, hd, hg, hf, rel, hm', ext, fr⟩ := h
  exact ⟨s', m', X, r, hpc, hlin, hd, fun γ' h' => hg γ' (hsub γ' h'), hf, rel, hm', ext, fr⟩

theorem JumpedF.of_moved {tgt : Int} {γ : LCtx} {Γ : List LCtx} {m m₁ : Nat → Nat} {s s₁ : St} {rs rs₁ rs' : Ref.St}
    (hreach : ReachX s s₁) (hfn : fnOf s₁ s₁.curfunc = fnOf s s.curfunc) (hdata : s₁.data = s.data)
    (hm : MExt s m m₁) (hext : RExt rs rs₁) (hframe : FrameNL s s₁) (h : JumpedF tgt γ Γ m₁ s₁ rs₁ rs') :
    JumpedF tgt γ Γ m s rs rs' := by
  have h' : JumpedB s.data tgt γ Γ m₁ s₁ rs₁ rs' := hdata ▸ h
  exact h'.of_reach hreach hfn hm hext hframe

theorem SimX.seq {code c₂ : List Instr} {Γ : List LCtx} {m m₁ : Nat → Nat} {s s₁' : St} {rs rs₁ : Ref.St} {env k : Nat}
    {res : Ref.R Val} (hreach : ReachX s s₁') (hmoved : Moved k s s₁') (hm : MExt s m m₁) (hext : RExt rs rs₁)
    (hframe : FrameF s s₁') (h₂ : SimX c₂ Γ m₁ s₁' rs₁ env res) (hk : k + c₂.length = code.length) :
    SimX code Γ m s rs env res := by
  cases res with
  | ok v rs' =>
    obtain ⟨s₂, m₂, w, r, l, hv, rel, hm2, ext, fr, hcl⟩ := h₂
    exact ⟨s₂, m₂, w, (hreach.trans r), hk ▸ hmoved.lands l, hv, rel, hm.trans hm2 hframe.fnsLen, hext.trans ext,
      hframe.trans fr, hcl⟩
  | err rs' => exact (FailsX.of_reach hreach h₂)
  | timeout => trivial
  | brk l rs' =>
    obtain ⟨γ, hγ, hj⟩ := h₂
    exact ⟨γ, hγ, hj.of_moved hreach hmoved.fn hmoved.data hm hext hframe.toNL⟩
  | cont l rs' =>
    obtain ⟨γ, hγ, hj⟩ := h₂
    exact ⟨γ, hγ, hj.of_moved hreach hmoved.fn hmoved.data hm hext hframe.toNL⟩

theorem SimX.cond_exit {p b rest pre post : List Instr} {Γ : List LCtx} {m m₁ : Nat → Nat} {s s₁' : St} {rs rs₁ : Ref.St}
    {env : Nat} {res : Ref.R Val}
    (h : Seg s pre (p ++ [.branch false (b.length + 2)] ++ b ++ [.jump (rest.length + 1)] ++ rest) post)
    (hreach : ReachX s s₁') (hmoved : Moved (p.length + 1) s s₁') (hm : MExt s m m₁) (hext : RExt rs rs₁)
    (hframe : FrameF s s₁') (h₂ : SimX b Γ m₁ s₁' rs₁ env res) :
    SimX (p ++ [.branch false (b.length + 2)] ++ b ++ [.jump (rest.length + 1)] ++ rest) Γ m s rs env res := by
  cases res with
  | ok v rs' =>
    obtain ⟨s₂, m₂, w, r, l, hv, rel, hm2, ext, fr, hcl⟩ := h₂
    have l2 : Lands (p.length + 1 + b.length) w s s₂ := hmoved.lands l
    obtain ⟨r3, l3⟩ := glue_cond_exit h l2
    exact ⟨_, m₂, w, ((hreach.trans r).trans r3.toX), l3, hv, rel.jmp _ _, hm.trans hm2 hframe.fnsLen, hext.trans ext,
      (hframe.trans fr).trans (FrameF.jmp _ _ _),
      VOk.ext hcl (FrameF.jmp _ _ _) (RExt.refl _) (MExt.refl _ _)⟩
  | err rs' => exact (FailsX.of_reach hreach h₂)
  | timeout => trivial
  | brk l rs' =>
    obtain ⟨γ, hγ, hj⟩ := h₂
    exact ⟨γ, hγ, hj.of_moved hreach hmoved.fn hmoved.data hm hext hframe.toNL⟩
  | cont l rs' =>
    obtain ⟨γ, hγ, hj⟩ := h₂
    exact ⟨γ, hγ, hj.of_moved hreach hmoved.fn hmoved.data hm hext hframe.toNL⟩

/-! ## Bookkeeping: the final loop table, the loop ids before the code -/

theorem LoopsFinal.frame {gs' : GS} {s s' : St} (h : LoopsFinal gs' s) (hf : Frame s s') : LoopsFinal gs' s' :=
  ⟨Nat.le_trans h.1 hf.loopsLen, fun id h1 h2 => by
    rw [hf.loops id (Nat.lt_of_lt_of_le h1 h.1)]; exact h.2 id h1 h2⟩

/-- no `loopStart` before the code carries an id the code's compile allocates -/
def LsOut (pre : List Instr) (a b : Nat) : Prop := ∀ l, Instr.loopStart l ∈ pre → l < a ∨ b ≤ l

theorem LsOut.mono {pre : List Instr} {a b a' b' : Nat} (h : LsOut pre a b) (ha : a ≤ a') (hb : b' ≤ b) : LsOut pre a' b' :=
  fun l hl => (h l hl).elim (fun h1 => Or.inl (Nat.lt_of_lt_of_le h1 ha)) (fun h2 => Or.inr (Nat.le_trans hb h2))

theorem LsOut.app {pre code : List Instr} {a b : Nat} (h : LsOut pre a b) (hc : LsOut code a b) : LsOut (pre ++ code) a b :=
  fun l hl => (List.mem_append.mp hl).elim (h l) (hc l)

theorem LsIn.below {code : List Instr} {x y a b : Nat} (h : LsIn code x y) (hy : y ≤ a) : LsOut code a b :=
  fun l hl => Or.inl (Nat.lt_of_lt_of_le (h l hl).2 hy)

theorem LsIn.above {code : List Instr} {x y a b : Nat} (h : LsIn code x y) (hx : b ≤ x) : LsOut code a b :=
  fun l hl => Or.inr (Nat.le_trans hx (h l hl).1)

theorem lsOut_single {i : Instr} (hi : ∀ l, Instr.loopStart l ≠ i) (a b : Nat) : LsOut [i] a b :=
  fun l hl => by simp only [List.mem_singleton] at hl; exact absurd hl (hi l)

/-- the loop's `loopStart` is the first one with its id -/
theorem findLoopStart_at {pre rest : List Instr} {L a b : Nat} (h : LsOut pre a b) (ha : a ≤ L) (hb : L < b) :
    findLoopStart (pre ++ Instr.loopStart L :: rest) L = some pre.length := by
  unfold findLoopStart
  induction pre with
  | nil => simp [List.findIdx?_cons]
  | cons i pre ih =>
    have ih' := ih (fun l hl => h l (List.mem_cons_of_mem _ hl))
    have key : ∀ l, i = Instr.loopStart l → l ≠ L := fun l e => by
      have := h l (e ▸ List.mem_cons_self ..); omega
    clear h ih
    have hi : (fun j : Instr => match j with | .loopStart l => l == L | _ => false) i = false := by
      cases i with
      | loopStart l => simpa using key l rfl
      | _ => rfl
    simp only [] at hi
    simp only [List.cons_append, List.findIdx?_cons, hi, Bool.false_eq_true, if_false, List.length_cons]
    rw [ih']; simp
    exact hi

/-- by determinism: what the compile of an Fx form leaves -/
theorem compile_tot_Fx {ls : List (Option String)} {e : Expr} (he : Fx ls self e = true) {isFn c gs Γ r} (hfn : FnameOk self c)
    (hg : GsOk Γ gs) (hls : Γ.map (·.label) = ls) (h : (compile isFn c e).run gs = .ok r) :
    r.1.1 ≠ [] ∧ TotX gs r.2 r.1.1 := by
  obtain ⟨code, t, g1, h1, hne, hk⟩ := compile_total_Fx ls self e he isFn c gs Γ hfn hg hls
  rw [h1] at h; injection h with h; subst h; exact ⟨hne, hk⟩

theorem compileBegin_tot_Fx {ls : List (Option String)} {es : List Expr} (hne : es ≠ []) (he : FxList ls self es = true)
    {isFn c gs Γ r} (hfn : FnameOk self c) (hg : GsOk Γ gs) (hls : Γ.map (·.label) = ls)
    (h : (compileBegin isFn c es).run gs = .ok r) : TotX gs r.2 r.1.1 := by
  obtain ⟨code, t, g1, h1, _, hk⟩ := compileBegin_total_Fx ls self es hne he isFn c gs Γ hfn hg hls
  rw [h1] at h; injection h with h; subst h; exact hk

theorem compileBeginAny_tot_Fx {ls : List (Option String)} {es : List Expr} (he : FxList ls self es = true)
    {isFn c gs Γ r} (hfn : FnameOk self c) (hg : GsOk Γ gs) (hls : Γ.map (·.label) = ls)
    (h : (compileBegin isFn c es).run gs = .ok r) : TotX gs r.2 r.1.1 := by
  obtain ⟨code, t, g1, h1, hk⟩ := compileBeginAny_total_Fx ls self es he isFn c gs Γ hfn hg hls
  rw [h1] at h; injection h with h; subst h; exact hk

theorem compileNewScope_tot_Fx {ls : List (Option String)} {es : List Expr} (hne : es ≠ []) (he : FxList ls self es = true)
    {isFn c oldtail gs Γ r} (hfn : FnameOk self c) (hg : GsOk Γ gs) (hls : Γ.map (·.label) = ls)
    (h : (compileNewScope isFn c oldtail es).run gs = .ok r) : TotX gs r.2 r.1.1 := by
  obtain ⟨code, t, g1, h1, _, hk⟩ := compileNewScope_total_Fx ls self es hne he isFn c oldtail gs Γ hfn hg hls
  rw [h1] at h; injection h with h; subst h; exact hk

theorem compileArms_tot_Fx {ls : List (Option String)} {arms : List (Expr × Expr)} (he : FxArms ls self arms = true)
    {isFn c gs Γ r} (hfn : FnameOk self c) (hg : GsOk Γ gs) (hls : Γ.map (·.label) = ls)
    (h : (compileArms isFn c arms).run gs = .ok r) :
    KeepFns gs r.2 ∧ gs.loops.length ≤ r.2.loops.length
      ∧ ∀ p ∈ r.1, LsIn p.1 gs.loops.length r.2.loops.length ∧ LsIn p.2 gs.loops.length r.2.loops.length := by
  obtain ⟨as, g1, h1, hk⟩ := compileArms_total_Fx ls self arms he isFn c gs Γ hfn hg hls
  rw [h1] at h; injection h with h; subst h; exact hk

theorem compile_tot_Ff {e : Expr} (he : Ff true self e = true) {isFn c gs r} (hfn : FnameOk self c)
    (h : (compile isFn c e).run gs = .ok r) : TotX gs r.2 r.1.1 := by
  obtain ⟨code, t, g1, h1, _, hk⟩ := total_of_Ff he isFn c gs hfn
  rw [h1] at h; injection h with h; subst h; exact hk

/-! ## Scopes opened inside a loop -/

theorem FrameNL.refl (s : St) : FrameNL s s :=
  ⟨rfl, rfl, rfl, Nat.le_refl _, fun _ _ => rfl, Nat.le_refl _, fun _ _ => rfl, Nat.le_refl _, fun _ _ => rfl⟩

theorem FrameNL.pushScope (s : St) : FrameNL s s.pushScope :=
  ⟨rfl, rfl, rfl, Nat.le_refl _, fun _ _ => rfl, Nat.le_refl _, fun _ _ => rfl,
    by show s.scopes.length ≤ (s.scopes ++ [_]).length; simp,
    fun i hi => by rw [isFnScope_pushScope, if_pos hi]⟩

theorem FnsKeep.of_nl {s s' : St} (hf : FrameNL s s') (hne : s.fns ≠ []) : FnsKeep s s' :=
  FnsKeep.of_eq hf.fnsLen hf.fns (by cases hs : s.fns with | nil => exact absurd hs hne | cons _ _ => simp [mainFn])
    ⟨hf.loopsLen, hf.loops⟩

/-- the loop facts after anything that keeps the scopes below and only pushes on the two stacks -/
theorem CtxF.after_nl {Γ : List LCtx} {sc sc' : Nat} {s s' : St} {rs rs' : Ref.St} (h : CtxF Γ sc s rs)
    (hfn : fnOf s' s'.curfunc = fnOf s s.curfunc) (hfr : FrameNL s s') (hext : RExt rs rs')
    (hlin : ∃ E, s'.linear = E ++ s.linear ∧ E.length + sc = sc')
    (hd : ∃ X, s'.data = X ++ s.data ∧ ∀ γ ∈ Γ, GoodAbove γ.id X) : CtxF Γ sc' s' rs' := by
  intro γ hγ
  obtain ⟨h1, h2, h3, h4, ⟨extra, h5, h5'⟩, h6, ⟨k, hch, hfc⟩, h8, h9⟩ := h γ hγ
  obtain ⟨X, hX, hgood⟩ := hd
  obtain ⟨G, hG, hGg⟩ := h9
  obtain ⟨E, hE, hEl⟩ := hlin
  have hflags : ∀ i, i ≤ γ.fr → isFnScope s' i = isFnScope s i := fun i hi => hfr.flags i (by omega)
  have hk : FnsKeep s s' := FnsKeep.of_nl hfr (fns_ne_nil_of_lt hfc.lt)
  refine ⟨Nat.lt_of_lt_of_le h1 hfr.loopsLen, by rw [hfn]; exact h2, by rw [hfr.loops γ.id h1]; exact h3,
    by rw [hfr.loops γ.id h1]; exact h4, ⟨E ++ extra, by rw [hE, h5, List.append_assoc], by rw [List.length_append]; omega⟩,
    Nat.lt_of_lt_of_le h6 hfr.scLen,
    ⟨k, hch.congr hext.1 hflags, ?_⟩, h8, ⟨X ++ G, by rw [hX, hG, List.append_assoc], (hgood γ hγ).append hGg⟩⟩
  rw [hfr.curfunc]
  exact hfc.transfer s.scopes.length hfr.flags hext.1 hk (Nat.le_refl _) hfr.scLen (fun e he => Nat.lt_trans (hch.k_lt e he) h6)
    (takeToBoundary_chain hch hflags)

theorem CtxF.pushScope {Γ : List LCtx} {sc : Nat} {s : St} {rs : Ref.St} {env : Nat} (h : CtxF Γ sc s rs) :
    CtxF Γ (sc + 1) s.pushScope (Ref.newFrame rs env).2 :=
  h.after_nl rfl (FrameNL.pushScope s) ⟨FramesExt.newFrame rs env, fun _ _ hc => hc⟩
    ⟨[some s.scopes.length], rfl, by simp; omega⟩ ⟨[], rfl, fun γ _ => GoodAbove.nil γ.id⟩

theorem SimX.scoped {inner pre post : List Instr} {Γ : List LCtx} {m : Nat → Nat} {s : St} {rs : Ref.St} {env : Nat}
    {res : Ref.R Val} (h : Seg s pre ([.addScope] ++ inner ++ [.removeScope]) post) (hrel : RelF m s rs env)
    (hin : SimX inner Γ m s.pushScope (Ref.newFrame rs env).2 rs.frames.length res) :
    SimX ([.addScope] ++ inner ++ [.removeScope]) Γ m s rs env res := by
  have hr1 := (glue_addScope h).1
  have hext0 : RExt rs (Ref.newFrame rs env).2 := ⟨FramesExt.newFrame rs env, fun _ _ hc => hc⟩
  cases res with
  | ok v rs3 => exact SimF.scoped (res := .ok v rs3) h hrel hin
  | err rs3 => exact SimF.scoped (res := .err rs3) h hrel hin
  | timeout => trivial
  | brk l rs3 =>
    obtain ⟨γ, hγ, hj⟩ := hin
    exact ⟨γ, hγ, JumpedB.of_reach hr1.toX rfl (MExt.refl _ _) hext0 (FrameNL.pushScope s) hj⟩
  | cont l rs3 =>
    obtain ⟨γ, hγ, hj⟩ := hin
    exact ⟨γ, hγ, JumpedB.of_reach hr1.toX rfl (MExt.refl _ _) hext0 (FrameNL.pushScope s) hj⟩

/-! ## `break` and `continue` -/

theorem compile_brk_eq {Γ : List LCtx} {gs : GS} (hg : GsOk Γ gs) {l : Option String} {γ : LCtx} (hγ : findCtx Γ l = some γ)
    (hmem : γ ∈ Γ) (isFn : Nat → Bool) (c : Ctx) :
    (compile isFn c (.break_ l)).run gs = .ok (([.brk γ.id (c.scopes - (γ.depth + 1))], c.tail), gs) := by
  rw [compile]
  simp only [bind, StateT.bind, StateT.run, get, getThe, MonadStateOf.get, StateT.get, pure, Except.pure, Except.bind,
    StateT.pure, findLoop_ctx hg, hγ, Option.map_some, (hg.recs γ hmem).2.2]

theorem compile_cont_eq {Γ : List LCtx} {gs : GS} (hg : GsOk Γ gs) {l : Option String} {γ : LCtx} (hγ : findCtx Γ l = some γ)
    (hmem : γ ∈ Γ) (isFn : Nat → Bool) (c : Ctx) :
    (compile isFn c (.continue_ l)).run gs = .ok (([.cont γ.id (c.scopes - (γ.depth + 1))], c.tail), gs) := by
  rw [compile]
  simp only [bind, StateT.bind, StateT.run, get, getThe, MonadStateOf.get, StateT.get, pure, Except.pure, Except.bind,
    StateT.pure, findLoop_ctx hg, hγ, Option.map_some, (hg.recs γ hmem).2.2]

theorem jumpedF_exit {Γ : List LCtx} {γ : LCtx} {sc : Nat} {m : Nat → Nat} {s : St} {rs : Ref.St} {env : Nat} {tgt : Int}
    (hc : CtxF1 γ sc s rs) (hrel : RelF m s rs env) (hr : ReachX s (jumpedTo s γ.lin tgt)) :
    JumpedF tgt γ Γ m s rs rs :=
  ⟨jumpedTo s γ.lin tgt, m, [], hr, rfl, rfl, rfl, fun γ' _ => GoodAbove.nil γ'.id, rfl,
    hrel.relin rfl rfl rfl rfl rfl hc.bottom hc.chain, MExt.refl _ _, RExt.refl _,
    ⟨rfl, rfl, rfl, Nat.le_refl _, fun _ _ => rfl, Nat.le_refl _, fun _ _ => rfl, Nat.le_refl _, fun _ _ => rfl⟩⟩

theorem simX_brk {Γ : List LCtx} {l : Option String} {γ : LCtx} {sc : Nat} {m : Nat → Nat} {s : St} {rs : Ref.St} {env : Nat}
    {pre post : List Instr} (hγ : findCtx Γ l = some γ) (hmem : γ ∈ Γ) (hctx : CtxF Γ sc s rs) (hrel : RelF m s rs env)
    (hseg : Seg s pre [.brk γ.id (sc - (γ.depth + 1))] post) :
    SimX [.brk γ.id (sc - (γ.depth + 1))] Γ m s rs env (.brk l rs) := by
  have hc := hctx γ hmem
  obtain ⟨extra, hlin, hlen⟩ := hc.lin
  refine ⟨γ, hγ, jumpedF_exit hc hrel ?_⟩
  rw [← hc.brk]
  exact (Reach.step hseg.head (fun f => exec_brk f γ.id _ s γ.start extra γ.lin hc.start hlin (by omega))).toX

theorem simX_cont {Γ : List LCtx} {l : Option String} {γ : LCtx} {sc : Nat} {m : Nat → Nat} {s : St} {rs : Ref.St} {env : Nat}
    {pre post : List Instr} (hγ : findCtx Γ l = some γ) (hmem : γ ∈ Γ) (hctx : CtxF Γ sc s rs) (hrel : RelF m s rs env)
    (hseg : Seg s pre [.cont γ.id (sc - (γ.depth + 1))] post) :
    SimX [.cont γ.id (sc - (γ.depth + 1))] Γ m s rs env (.cont l rs) := by
  have hc := hctx γ hmem
  obtain ⟨extra, hlin, hlen⟩ := hc.lin
  refine ⟨γ, hγ, jumpedF_exit hc hrel ?_⟩
  rw [← hc.cont]
  exact (Reach.step hseg.head (fun f => exec_cont f γ.id _ s γ.start extra γ.lin hc.start hlin (by omega))).toX

/-! ## The claims with non-local exits -/

theorem CtxF.moved {Γ : List LCtx} {sc k : Nat} {s s' : St} {rs rs' : Ref.St} (h : CtxF Γ sc s rs) (mv : Moved k s s')
    (fr : FrameF s s') (ext : RExt rs rs') : CtxF Γ sc s' rs' :=
  h.after mv.fn fr ext ⟨[], by rw [mv.data]; rfl, fun γ _ => GoodAbove.nil γ.id⟩

def XClaimE (n : Nat) : Prop :=
  ∀ ls self e, Fx ls self e = true → ∀ isFn c gs r, (compile isFn c e).run gs = .ok r → FnameOk self c →
  ∀ Γ, Γ.map (·.label) = ls → GsOk Γ gs →
  ∀ m s rs env pre post, RelF m s rs env → GenOk gs r.2 s → CtxF Γ c.scopes s rs → LoopsFinal r.2 s →
    LsOut pre gs.loops.length r.2.loops.length → Seg s pre r.1.1 post →
    SimX r.1.1 Γ m s rs env (Ref.eval n e env rs)

def XClaimB (n : Nat) : Prop :=
  ∀ ls self es, es ≠ [] → FxList ls self es = true → ∀ isFn c gs r, (compileBegin isFn c es).run gs = .ok r → FnameOk self c →
  ∀ Γ, Γ.map (·.label) = ls → GsOk Γ gs →
  ∀ m s rs env pre post, RelF m s rs env → GenOk gs r.2 s → CtxF Γ c.scopes s rs → LoopsFinal r.2 s →
    LsOut pre gs.loops.length r.2.loops.length → Seg s pre r.1.1 post →
    SimX r.1.1 Γ m s rs env (Ref.evalBegin n es env rs)

def XClaimN (n : Nat) : Prop :=
  ∀ ls self es, es ≠ [] → FxList ls self es = true → ∀ isFn c oldtail gs r, (compileNewScope isFn c oldtail es).run gs = .ok r →
  FnameOk self c →
  ∀ Γ, Γ.map (·.label) = ls → GsOk Γ gs →
  ∀ m s rs env pre post, RelF m s rs env → GenOk gs r.2 s → CtxF Γ c.scopes s rs → LoopsFinal r.2 s →
    LsOut pre gs.loops.length r.2.loops.length → Seg s pre r.1.1 post →
    SimX r.1.1 Γ m s rs env (Ref.evalBegin n es env rs)

def XClaimC (n : Nat) : Prop :=
  ∀ ls self arms d, FxArms ls self arms = true → Fx ls self d = true → ∀ isFn c gs r gs0 rd,
    (compileArms isFn c arms).run gs = .ok r → (compile isFn c d).run gs0 = .ok rd → FnameOk self c →
  ∀ Γ, Γ.map (·.label) = ls → GsOk Γ gs → GsOk Γ gs0 →
  ∀ m s rs env pre post, RelF m s rs env → GenOk gs r.2 s → GenOk gs0 rd.2 s → CtxF Γ c.scopes s rs →
    LoopsFinal r.2 s → LoopsFinal rd.2 s →
    LsOut pre gs.loops.length r.2.loops.length → LsOut pre gs0.loops.length rd.2.loops.length →
    rd.2.loops.length ≤ gs.loops.length →
    Seg s pre (asmCond r.1 rd.1.1) post →
    SimX (asmCond r.1 rd.1.1) Γ m s rs env (Ref.evalCond n arms d env rs)

theorem lsOut_pop (a b : Nat) : LsOut [Instr.pop] a b := lsOut_single (fun _ h => by cases h) a b

theorem xclaimB_succ {n : Nat} (hE : XClaimE n) (hB : XClaimB n) : XClaimB (n + 1) := by
  intro ls self es hne hes isFn c gs r hc hfn Γ hls hg m s rs env pre post hrel hgen hctx hlf hlo hseg
  match es, hne with
  | [e], _ =>
    rw [FxList] at hes
    simp only [Bool.and_eq_true] at hes
    rw [compileBegin] at hc
    rw [Ref.evalBegin]
    exact hE ls self e hes.1 isFn c gs r hc hfn Γ hls hg m s rs env pre post hrel hgen hctx hlf hlo hseg
  | e :: e' :: es', _ =>
    rw [FxList] at hes
    simp only [Bool.and_eq_true] at hes
    rw [compileBegin] at hc
    · simp only [g_bind_ok, g_pure_ok] at hc
      obtain ⟨ra, gs1, ha, rb, gs2, hb, rfl⟩ := hc
      have hfn' : FnameOk self { c with tail := false } := hfn
      obtain ⟨hane', tot1⟩ := compile_tot_Fx hes.1 hfn' hg hls ha
      have tot2 := compileBegin_tot_Fx (by simp) hes.2 hfn (hg.keep tot1.1) hls hb
      have hane : ra.1.isEmpty = false := by simpa [List.isEmpty_eq_false_iff] using hane'
      simp only [hane, Bool.false_eq_true, if_false] at hseg hgen hlf hlo ⊢
      rw [Ref.evalBegin]
      · have ih := hE ls self e hes.1 isFn _ gs (ra, gs1) ha hfn' Γ hls hg m s rs env pre ([.pop] ++ rb.1 ++ post) hrel
          (hgen.first tot2.1) hctx (hlf.first tot2.1) (hlo.mono (Nat.le_refl _) tot2.2.1) (hseg.refocus (by simp))
        cases h1 : Ref.eval n e env rs with
        | ok v1 rs1 =>
          rw [h1] at ih
          obtain ⟨s1, m1, w1, r1, l1, hv1, rel1, hm1, ext1, fr1, hcl1⟩ := ih
          obtain ⟨r2, m2⟩ := glue_pop hseg l1
          have hfr := fr1.trans (FrameF.jmp s1 (s1.pc + 1) s.data)
          have ih2 := hB ls self (e' :: es') (by simp) hes.2 isFn c gs1 (rb, gs2) hb hfn Γ hls (hg.keep tot1.1) m1
            (s1.jmp (s1.pc + 1) s.data) rs1 env _ post (rel1.jmp _ _)
            ((hgen.rest tot1.1).frame hfr.toFrame) (hctx.moved m2 hfr ext1) (hlf.frame hfr.toFrame)
            ((hlo.mono tot1.2.1 (Nat.le_refl _)).app ((tot1.2.2.below (Nat.le_refl _)).app (lsOut_pop _ _)))
            (hseg.moved m2 (c₁ := ra.1 ++ [.pop]) (c₂ := rb.1) (post' := post) rfl (by simp))
          exact SimX.seq (r1.trans r2.toX) m2 hm1 ext1 hfr ih2 (by lenarith)
        | err rs1 => rw [h1] at ih; exact ih
        | timeout => trivial
        | brk l rs1 => rw [h1] at ih; exact ih
        | cont l rs1 => rw [h1] at ih; exact ih
      · intro hh; cases hh
    · intro hh; cases hh

theorem xclaimN_succ {n : Nat} (hE : XClaimE n) (hN : XClaimN n) : XClaimN (n + 1) := by
  intro ls self es hne hes isFn c oldtail gs r hc hfn Γ hls hg m s rs env pre post hrel hgen hctx hlf hlo hseg
  match es, hne with
  | [e], _ =>
    rw [FxList] at hes
    simp only [Bool.and_eq_true] at hes
    rw [compileNewScope] at hc
    rw [Ref.evalBegin]
    exact hE ls self e hes.1 isFn _ gs r hc hfn Γ hls hg m s rs env pre post hrel hgen hctx hlf hlo hseg
  | e :: e' :: es', _ =>
    rw [FxList] at hes
    simp only [Bool.and_eq_true] at hes
    rw [compileNewScope] at hc
    · simp only [g_bind_ok, g_pure_ok] at hc
      obtain ⟨ra, gs1, ha, rb, gs2, hb, rfl⟩ := hc
      have hfn' : FnameOk self { c with tail := false } := hfn
      obtain ⟨hane', tot1⟩ := compile_tot_Fx hes.1 hfn' hg hls ha
      have tot2 := compileNewScope_tot_Fx (by simp) hes.2 hfn (hg.keep tot1.1) hls hb
      simp only at hgen hlf hlo
      rw [Ref.evalBegin]
      · have ih := hE ls self e hes.1 isFn _ gs (ra, gs1) ha hfn' Γ hls hg m s rs env pre ([.pop] ++ rb.1 ++ post) hrel
          (hgen.first tot2.1) hctx (hlf.first tot2.1) (hlo.mono (Nat.le_refl _) tot2.2.1) (hseg.refocus (by simp))
        cases h1 : Ref.eval n e env rs with
        | ok v1 rs1 =>
          rw [h1] at ih
          obtain ⟨s1, m1, w1, r1, l1, hv1, rel1, hm1, ext1, fr1, hcl1⟩ := ih
          obtain ⟨r2, m2⟩ := glue_pop hseg l1
          have hfr := fr1.trans (FrameF.jmp s1 (s1.pc + 1) s.data)
          have ih2 := hN ls self (e' :: es') (by simp) hes.2 isFn c oldtail gs1 (rb, gs2) hb hfn Γ hls (hg.keep tot1.1) m1
            (s1.jmp (s1.pc + 1) s.data) rs1 env _ post (rel1.jmp _ _)
            ((hgen.rest tot1.1).frame hfr.toFrame) (hctx.moved m2 hfr ext1) (hlf.frame hfr.toFrame)
            ((hlo.mono tot1.2.1 (Nat.le_refl _)).app ((tot1.2.2.below (Nat.le_refl _)).app (lsOut_pop _ _)))
            (hseg.moved m2 (c₁ := ra.1 ++ [.pop]) (c₂ := rb.1) (post' := post) rfl (by simp))
          exact SimX.seq (r1.trans r2.toX) m2 hm1 ext1 hfr ih2 (by lenarith)
        | err rs1 => rw [h1] at ih; exact ih
        | timeout => trivial
        | brk l rs1 => rw [h1] at ih; exact ih
        | cont l rs1 => rw [h1] at ih; exact ih
      · intro hh; cases hh
    · intro hh; cases hh

theorem lsOut_one (i : Instr) (a b : Nat) (hi : ∀ l, Instr.loopStart l ≠ i := by intro l h; cases h) : LsOut [i] a b :=
  lsOut_single hi a b

theorem xclaimC_succ {n : Nat} (hFE : FClaimE n) (hE : XClaimE n) (hC : XClaimC n) : XClaimC (n + 1) := by
  intro ls self arms d harms hd isFn c gs r gs0 rd hc hcd hfn Γ hls hg hg0 m s rs env pre post hrel hgen hgend hctx hlf hlfd
    hlo hlod hdl hseg
  match arms with
  | [] =>
    rw [compileArms] at hc; simp only [g_pure_ok] at hc; subst hc
    rw [Ref.evalCond]
    simp only [asmCond] at hseg ⊢
    exact hE ls self d hd isFn c gs0 rd hcd hfn Γ hls hg0 m s rs env pre post hrel hgend hctx hlfd hlod hseg
  | (p, b) :: arms' =>
    rw [FxArms] at harms
    simp only [Bool.and_eq_true] at harms
    rw [compileArms] at hc
    simp only [g_bind_ok, g_pure_ok] at hc
    obtain ⟨rest, gs1, hrest, rp, gs2, hp, rb, gs3, hb, rfl⟩ := hc
    have hfn' : FnameOk self { c with tail := false } := hfn
    have totr := compileArms_tot_Fx harms.2 hfn hg hls hrest
    have totp := compile_tot_Ff harms.1.1 hfn' hp
    obtain ⟨_, totb⟩ := compile_tot_Fx harms.1.2 hfn (hg.keep (totr.1.trans totp.1)) hls hb
    have l01 : gs.loops.length ≤ gs1.loops.length := totr.2.1
    have l12 : gs1.loops.length ≤ gs2.loops.length := totp.2.1
    have l23 : gs2.loops.length ≤ gs3.loops.length := totb.2.1
    rw [Ref.evalCond]
    simp only [asmCond] at hseg hgen hlf hlo ⊢
    have ih := hFE true self p harms.1.1 isFn _ gs1 (rp, gs2) hp hfn m s rs env pre _ hrel
      (fun _ => (hgen.rest totr.1).first totb.1) (hseg.refocus (c' := rp.1)
      (post' := [.branch false (rb.1.length + 2)] ++ rb.1 ++ [.jump ((asmCond rest rd.1.1).length + 1)]
        ++ asmCond rest rd.1.1 ++ post) (by simp))
    cases h1 : Ref.eval n p env rs with
    | ok v1 rs1 =>
      rw [h1] at ih
      obtain ⟨s1, m1, w1, r1, l1, hv1, rel1, hm1, ext1, fr1, hcl1⟩ := ih
      simp only
      have htr : truthy v1 = truthy w1 := by rw [hv1]; exact truthy_tr m1 id id w1
      by_cases ht : truthy w1 = true
      · rw [htr, if_pos ht]
        obtain ⟨r2, m2⟩ := glue_brn_fall hseg l1 ht
        have hfr := fr1.trans (FrameF.jmp s1 (s1.pc + 1) s.data)
        have ih2 := hE ls self b harms.1.2 isFn c gs2 (rb, gs3) hb hfn Γ hls (hg.keep (totr.1.trans totp.1)) m1
          (s1.jmp (s1.pc + 1) s.data) rs1 env _ _ (rel1.jmp _ _)
          ((hgen.rest (totr.1.trans totp.1)).frame hfr.toFrame) (hctx.moved m2 hfr ext1) (hlf.frame hfr.toFrame)
          ((hlo.mono (Nat.le_trans l01 l12) (Nat.le_refl _)).app
            ((totp.2.2.below (Nat.le_refl _)).app (lsOut_one (.branch false (rb.1.length + 2)) _ _)))
          (hseg.moved m2 (c₁ := rp.1 ++ [.branch false (rb.1.length + 2)]) (c₂ := rb.1)
            (post' := [.jump ((asmCond rest rd.1.1).length + 1)] ++ asmCond rest rd.1.1 ++ post)
            (by simp) (by simp))
        exact SimX.cond_exit hseg (r1.trans r2.toX) m2 hm1 ext1 hfr ih2
      · rw [htr, if_neg ht]
        obtain ⟨r2, m2⟩ := glue_brn_taken hseg l1 (by simpa using ht)
        have hfr := fr1.trans (FrameF.jmp s1 (s1.pc + ((rb.1.length : Int) + 2)) s.data)
        have hk13 := totp.1.trans totb.1
        have ih2 := hC ls self arms' d harms.2 hd isFn c gs (rest, gs1) gs0 rd hrest hcd hfn Γ hls hg hg0 m1
          (s1.jmp (s1.pc + ((rb.1.length : Int) + 2)) s.data) rs1 env _ post (rel1.jmp _ _)
          ((hgen.first hk13).frame hfr.toFrame) (hgend.frame hfr.toFrame) (hctx.moved m2 hfr ext1)
          ((hlf.first hk13).frame hfr.toFrame) (hlfd.frame hfr.toFrame)
          ((hlo.mono (Nat.le_refl _) (Nat.le_trans l12 l23)).app
            ((((totp.2.2.above (Nat.le_refl _)).app (lsOut_one (.branch false (rb.1.length + 2)) _ _)).app
              (totb.2.2.above l12)).app (lsOut_one (.jump ((asmCond rest rd.1.1).length + 1)) _ _)))
          (hlod.app
            ((((totp.2.2.above (Nat.le_trans hdl l01)).app (lsOut_one (.branch false (rb.1.length + 2)) _ _)).app
              (totb.2.2.above (Nat.le_trans hdl (Nat.le_trans l01 l12)))).app
              (lsOut_one (.jump ((asmCond rest rd.1.1).length + 1)) _ _)))
          hdl
          (hseg.moved m2 (c₁ := rp.1 ++ [.branch false (rb.1.length + 2)] ++ rb.1
              ++ [.jump ((asmCond rest rd.1.1).length + 1)]) (c₂ := asmCond rest rd.1.1) (post' := post)
            (by simp) (by lenarith))
        exact SimX.seq (r1.trans r2.toX) m2 hm1 ext1 hfr ih2 (by lenarith)
    | err rs1 => rw [h1] at ih; exact ih
    | timeout => trivial
    | brk l rs1 => rw [h1] at ih; exact ih.elim
    | cont l rs1 => rw [h1] at ih; exact ih.elim

/-! ## `for` loops with `break` and `continue` -/

/-- the outcome of a loop from its test label on: on the loop's `clearMark`, the mark under garbage -/
def LoopOut (Γ : List LCtx) (m : Nat → Nat) (σ : St) (rs : Ref.St) (fr L : Nat) (D : List (Option Val)) (tgt : Int)
    (res : Ref.R Val) : Prop :=
  match res with
  | .ok _ rs' => ∃ (σ' : St) (m' : Nat → Nat) (G : List (Option Val)), ReachX σ σ' ∧ σ'.pc = tgt
      ∧ σ'.data = G ++ some (.mark L) :: D ∧ GoodAbove L G
      ∧ fnOf σ' σ'.curfunc = fnOf σ σ.curfunc ∧ RelF m' σ' rs' fr ∧ MExt σ m m' ∧ RExt rs rs' ∧ FrameF σ σ'
  | .err rs' => FailsX σ rs'.trace
  | .timeout => True
  | .brk l rs' => ∃ γ, findCtx Γ l = some γ ∧ JumpedB (some (.mark L) :: D) γ.brkPos γ Γ m σ rs rs'
  | .cont l rs' => ∃ γ, findCtx Γ l = some γ ∧ JumpedB (some (.mark L) :: D) γ.contPos γ Γ m σ rs rs'

theorem LoopOut.of_reach {Γ : List LCtx} {m m₁ : Nat → Nat} {σ σ₁ : St} {rs rs₁ : Ref.St} {fr L : Nat}
    {D : List (Option Val)} {tgt : Int} {res : Ref.R Val} (hr : ReachX σ σ₁)
    (hfn : fnOf σ₁ σ₁.curfunc = fnOf σ σ.curfunc) (hm : MExt σ m m₁) (hext : RExt rs rs₁) (hfr : FrameF σ σ₁)
    (h : LoopOut Γ m₁ σ₁ rs₁ fr L D tgt res) : LoopOut Γ m σ rs fr L D tgt res := by
  cases res with
  | ok a rs' =>
    obtain ⟨σ', m', G, r, hp, hd, hG, hf, rel, hm', ext, fr'⟩ := h
    exact ⟨σ', m', G, hr.trans r, hp, hd, hG, hf.trans hfn, rel, hm.trans hm' hfr.fnsLen, hext.trans ext, hfr.trans fr'⟩
  | err rs' => exact FailsX.of_reach hr h
  | timeout => trivial
  | brk l rs' =>
    obtain ⟨γ, hγ, hj⟩ := h
    exact ⟨γ, hγ, hj.of_reach hr hfn hm hext hfr.toNL⟩
  | cont l rs' =>
    obtain ⟨γ, hγ, hj⟩ := h
    exact ⟨γ, hγ, hj.of_reach hr hfn hm hext hfr.toNL⟩

/-- the outcome of the loop body followed by `popUntilMark` -/
def OnMarkX (Γ : List LCtx) (m : Nat → Nat) (σ : St) (rs : Ref.St) (fr L : Nat) (D : List (Option Val)) (target : Int)
    (res : Ref.R Val) : Prop :=
  match res with
  | .ok _ rs' => ∃ (σ' : St) (m' : Nat → Nat), ReachX σ σ' ∧ σ'.pc = target ∧ σ'.data = some (.mark L) :: D
      ∧ fnOf σ' σ'.curfunc = fnOf σ σ.curfunc ∧ RelF m' σ' rs' fr ∧ MExt σ m m' ∧ RExt rs rs' ∧ FrameF σ σ'
  | .err rs' => FailsX σ rs'.trace
  | .timeout => True
  | .brk l rs' => ∃ γ, findCtx Γ l = some γ ∧ JumpedF γ.brkPos γ Γ m σ rs rs'
  | .cont l rs' => ∃ γ, findCtx Γ l = some γ ∧ JumpedF γ.contPos γ Γ m σ rs rs'

theorem seg_pumX {Γ : List LCtx} {m : Nat → Nat} {σ : St} {rs : Ref.St} {fr L : Nat} {D : List (Option Val)}
    {full P c Q : List Instr} {res : Ref.R Val} (hin : InFn σ full) (hc : full = P ++ c ++ (.popUntilMark L :: Q))
    (hp : σ.pc = (P.length : Int)) (hd : σ.data = some (.mark L) :: D) (hsim : SimX c Γ m σ rs fr res) :
    OnMarkX Γ m σ rs fr L D (σ.pc + (c.length : Int) + 1) res := by
  cases res with
  | ok v rs' => exact seg_pumF (res := .ok v rs') hin hc hp hd hsim
  | err rs' => exact hsim
  | timeout => trivial
  | brk l rs' => exact hsim
  | cont l rs' => exact hsim

theorem body_pumX {n : Nat} (hB : XClaimB n) {ls : List (Option String)} {body : List Expr}
    (hbody : FxList ls self body = true) {isFn : Nat → Bool} {c : Ctx} (hfn : FnameOk self c) {gb rb g2}
    (hcb : (compileBegin isFn c body).run gb = .ok (rb, g2)) {Γ : List LCtx} (hls : Γ.map (·.label) = ls) (hg : GsOk Γ gb)
    {m : Nat → Nat} {σ : St} {rs : Ref.St} {fr L : Nat} {D : List (Option Val)} {full P Q : List Instr}
    (hin : InFn σ full) (hc : full = P ++ rb.1 ++ (.popUntilMark L :: Q)) (hp : σ.pc = (P.length : Int))
    (hd : σ.data = some (.mark L) :: D) (hrel : RelF m σ rs fr) (hgen : GenOk gb g2 σ) (hctx : CtxF Γ c.scopes σ rs)
    (hlf : LoopsFinal g2 σ) (hlo : LsOut P gb.loops.length g2.loops.length) :
    OnMarkX Γ m σ rs fr L D (σ.pc + (rb.1.length : Int) + 1) (Ref.evalBegin n body fr rs) := by
  cases body with
  | nil =>
    rw [compileBegin] at hcb; simp only [g_pure_ok] at hcb
    have hrb : rb.1 = [] := by rw [(Prod.mk.inj hcb).1]
    cases n with
    | zero => rw [Ref.evalBegin]; trivial
    | succ k =>
      rw [Ref.evalBegin]
      · have a1 : At σ P (.popUntilMark L) Q := hin.at (by rw [hc, hrb]; simp) hp
        have hx : ∀ f, (exec (f + 1) (.popUntilMark L)).run σ = (.ok (), σ.jmp (σ.pc + 1) (some (.mark L) :: D)) :=
          fun f => exec_popUntilMark f L σ [] D (by rw [hd]; rfl) (Or.inl rfl)
        exact ⟨_, m, (Reach.step a1 hx).toX, by rw [St.jmp_pc, hrb]; simp, rfl, rfl, hrel.jmp _ _, MExt.refl _ _,
          RExt.refl rs, FrameF.jmp _ _ _⟩
      · omega
  | cons e0 es0 =>
    exact seg_pumX hin hc hp hd
      (hB ls self (e0 :: es0) (by simp) hbody isFn c gb (rb, g2) hcb hfn Γ hls hg m σ rs fr P _ hrel hgen hctx hlf hlo
        (hin.seg (by rw [hc]) hp))

/-- whose loop a `break`/`continue` inside the innermost loop means -/
theorem findCtx_cons {γ₀ : LCtx} {Γ : List LCtx} {l : Option String} {γ : LCtx} (h : findCtx (γ₀ :: Γ) l = some γ) :
    ((l.isNone || l == γ₀.label) = true ∧ γ = γ₀) ∨ ((l.isNone || l == γ₀.label) = false ∧ findCtx Γ l = some γ) := by
  cases l with
  | none =>
    simp only [findCtx, List.head?_cons, Option.some.injEq] at h
    exact Or.inl ⟨rfl, h.symm⟩
  | some x =>
    simp only [findCtx, List.find?_cons] at h
    by_cases hx : γ₀.label = some x
    · simp only [hx, beq_self_eq_true, Option.some.injEq] at h
      exact Or.inl ⟨by simp [hx], h.symm⟩
    · have hb : (γ₀.label == some x) = false := by simpa using hx
      rw [hb] at h
      refine Or.inr ⟨?_, h⟩
      have : (some x == γ₀.label) = false := by simpa using fun e => hx e.symm
      simp [this]

/-- **One `for` loop from its test label on**, `break`/`continue` allowed in the body. -/
def XClaimF (n : Nat) : Prop :=
  ∀ (ls : List (Option String)) (self : String) (label : Option String) (test incr : Expr) (body : List Expr),
  Ff true self test = true → Ff true self incr = true → FxList (label :: ls) self body = true →
  ∀ (isFn : Nat → Bool) (c : Ctx), FnameOk self c →
  ∀ gb rb g2 gt rt g4 gi ri g5, (compileBegin isFn c body).run gb = .ok (rb, g2) →
    (compile isFn c test).run gt = .ok (rt, g4) → (compile isFn c incr).run gi = .ok (ri, g5) →
  ∀ (Γ : List LCtx) (γ₀ : LCtx), Γ.map (·.label) = ls → γ₀.label = label → GsOk (γ₀ :: Γ) gb →
  ∀ (ci pre post : List Instr) (m : Nat → Nat) (σ : St) (rs : Ref.St),
    InFn σ (forFull pre post γ₀.id ci rt.1 ri.1 rb.1) →
    σ.pc = ((pre.length + ci.length + ri.1.length + 8 : Nat) : Int) →
    σ.data = some (.mark γ₀.id) :: γ₀.D → σ.linear = γ₀.lin → RelF m σ rs γ₀.fr →
    GenOk gb g2 σ ∧ GenOk gt g4 σ ∧ GenOk gi g5 σ →
    CtxF (γ₀ :: Γ) c.scopes σ rs → LoopsFinal g2 σ →
    LsOut (pre ++ fHd γ₀.id ++ ci ++ fMid γ₀.id ri.1 ++ ri.1 ++ [.popUntilMark γ₀.id, .label] ++ rt.1 ++ fBr rb.1)
      gb.loops.length g2.loops.length →
    γ₀.brkPos = ((pre.length + ci.length + ri.1.length + rt.1.length + rb.1.length + 14 : Nat) : Int) →
    γ₀.contPos = ((pre.length + ci.length + 6 : Nat) : Int) →
    LoopOut Γ m σ rs γ₀.fr γ₀.id γ₀.D γ₀.brkPos (Ref.loop n label test incr body γ₀.fr rs)

theorem GoodAbove.cons_vok {L : Nat} {w : Val} {G : List (Option Val)} {m s rs} (hw : VOk m s rs w) (hG : GoodAbove L G) :
    GoodAbove L (some w :: G) :=
  fun x hx => (List.mem_cons.mp hx).elim (fun e => ⟨w, e, vOk_not_mark hw L⟩) (hG x)

theorem xclaimF_succ {n : Nat} (hFE : FClaimE n) (hB : XClaimB n) (hF : XClaimF n) : XClaimF (n + 1) := by
  intro ls self label test incr body htest hincr hbody isFn c hfn gb rb g2 gt rt g4 gi ri g5 hcb hct hci Γ γ₀ hls hlab hg
    ci pre post m σ rs hin hpc hd hlin hrel hgen hctx hlf hlo hbrk hcont
  have hfnok : FnameOk self c := hfn
  have hls' : (γ₀ :: Γ).map (·.label) = label :: ls := by simp [hls, hlab]
  -- from the `continue` label on: the increment, back on the mark, the next iteration
  have hafter : ∀ (m6 : Nat → Nat) (σ6 : St) (rs2 : Ref.St) (G : List (Option Val)),
      InFn σ6 (forFull pre post γ₀.id ci rt.1 ri.1 rb.1) → σ6.pc = ((pre.length + ci.length + 6 : Nat) : Int) →
      σ6.data = G ++ some (.mark γ₀.id) :: γ₀.D → GoodAbove γ₀.id G → RelF m6 σ6 rs2 γ₀.fr → FrameF σ σ6 →
      RExt rs rs2 → fnOf σ6 σ6.curfunc = fnOf σ σ.curfunc →
      ∀ res, Ref.eval n incr γ₀.fr rs2 = res →
        match res with
        | .ok _ rs3 => LoopOut Γ m6 σ6 rs2 γ₀.fr γ₀.id γ₀.D γ₀.brkPos (Ref.loop n label test incr body γ₀.fr rs3)
        | .err rs3 => FailsX σ6 rs3.trace
        | .timeout => True
        | .brk _ _ => False
        | .cont _ _ => False := by
    intro m6 σ6 rs2 G hin6 hpc6 hd6 hG rel6 hfr6 hext6 hfn6 res h3
    subst h3
    have a7 : At σ6 (pre ++ fHd γ₀.id ++ ci ++ [.popUntilMark γ₀.id, .jump ((ri.1.length : Int) + 3)]) .label
        (ri.1 ++ [.popUntilMark γ₀.id, .label] ++ rt.1 ++ fBr rb.1 ++ rb.1 ++ fTl γ₀.id ri.1 rt.1 rb.1 ++ post) :=
      hin6.at (by simp [forFull]) (by rw [hpc6]; simp; omega)
    have r8 := reachX_label a7
    generalize hσ8 : σ6.jmp (σ6.pc + 1) σ6.data = σ8 at r8
    have hin8 : InFn σ8 (forFull pre post γ₀.id ci rt.1 ri.1 rb.1) := by subst hσ8; exact hin6.of_fn rfl
    have hpc8 : σ8.pc = ((pre.length + ci.length + 7 : Nat) : Int) := by subst hσ8; rw [St.jmp_pc, hpc6]; push_cast; omega
    have hd8 : σ8.data = G ++ some (.mark γ₀.id) :: γ₀.D := by subst hσ8; exact hd6
    have rel8 : RelF m6 σ8 rs2 γ₀.fr := by subst hσ8; exact rel6.jmp _ _
    have hfr68 : FrameF σ6 σ8 := by subst hσ8; exact FrameF.jmp _ _ _
    have hfn68 : fnOf σ8 σ8.curfunc = fnOf σ6 σ6.curfunc := by subst hσ8; rfl
    have hfns68 : σ8.fns = σ6.fns := by subst hσ8; rfl
    have hseg8 : Seg σ8 (pre ++ fHd γ₀.id ++ ci ++ fMid γ₀.id ri.1) ri.1
        ([.popUntilMark γ₀.id, .label] ++ rt.1 ++ fBr rb.1 ++ rb.1 ++ fTl γ₀.id ri.1 rt.1 rb.1 ++ post) :=
      hin8.seg (by simp [forFull]) (by rw [hpc8]; simp; omega)
    have ih8 := hFE true self incr hincr isFn c gi (ri, g5) hci hfnok m6 σ8 rs2 γ₀.fr _ _ rel8
      (fun _ => hgen.2.2.frame (hfr6.trans hfr68).toFrame) hseg8
    cases h3 : Ref.eval n incr γ₀.fr rs2 with
    | ok vs rs3 =>
      rw [h3] at ih8
      obtain ⟨σ9, m9, w, r9, l9, hv9, rel9, hm9, ext9, fr9, hcl9⟩ := ih8
      simp only
      have hin9 : InFn σ9 (forFull pre post γ₀.id ci rt.1 ri.1 rb.1) := hin8.of_fn l9.fn
      have a9 : At σ9 (pre ++ fHd γ₀.id ++ ci ++ fMid γ₀.id ri.1 ++ ri.1) (.popUntilMark γ₀.id)
          ([.label] ++ rt.1 ++ fBr rb.1 ++ rb.1 ++ fTl γ₀.id ri.1 rt.1 rb.1 ++ post) :=
        hin9.at (by simp [forFull]) (by rw [l9.pc, hpc8]; simp; omega)
      have hx : ∀ f, (exec (f + 1) (.popUntilMark γ₀.id)).run σ9
          = (.ok (), σ9.jmp (σ9.pc + 1) (some (.mark γ₀.id) :: γ₀.D)) :=
        fun f => exec_popUntilMark_good f γ₀.id σ9 (some w :: G) γ₀.D (by rw [l9.data, hd8]; rfl)
          (GoodAbove.cons_vok hcl9 hG)
      have r10 := (Reach.step a9 hx).toX
      have hfr10 : FrameF σ6 (σ9.jmp (σ9.pc + 1) (some (.mark γ₀.id) :: γ₀.D)) :=
        (hfr68.trans fr9).trans (FrameF.jmp _ _ _)
      have hfr010 := hfr6.trans hfr10
      have hfn10 : fnOf (σ9.jmp (σ9.pc + 1) (some (.mark γ₀.id) :: γ₀.D))
          (σ9.jmp (σ9.pc + 1) (some (.mark γ₀.id) :: γ₀.D)).curfunc = fnOf σ6 σ6.curfunc := l9.fn.trans hfn68
      have hnext := hF ls self label test incr body htest hincr hbody isFn c hfn gb rb g2 gt rt g4 gi ri g5 hcb hct hci Γ γ₀
        hls hlab hg ci pre post m9 (σ9.jmp (σ9.pc + 1) (some (.mark γ₀.id) :: γ₀.D)) rs3 (hin9.of_fn rfl)
        (by rw [St.jmp_pc, l9.pc, hpc8]; push_cast; omega) rfl (by rw [hfr010.linear]; exact hlin) (rel9.jmp _ _)
        ⟨hgen.1.frame hfr010.toFrame, hgen.2.1.frame hfr010.toFrame, hgen.2.2.frame hfr010.toFrame⟩
        (hctx.after (hfn10.trans hfn6) hfr010 (hext6.trans ext9) ⟨[], by rw [hd]; rfl, fun γ _ => GoodAbove.nil γ.id⟩)
        (hlf.frame hfr010.toFrame) hlo hbrk hcont
      exact LoopOut.of_reach ((r8.trans r9).trans r10) hfn10 (fun id hid => hm9 id (by rw [hfns68]; exact hid)) ext9 hfr10 hnext
    | err rs3 => rw [h3] at ih8; exact FailsX.of_reach r8 ih8
    | timeout => trivial
    | brk l rs3 => rw [h3] at ih8; exact ih8
    | cont l rs3 => rw [h3] at ih8; exact ih8
  rw [Ref.loop]
  -- the test label
  have a0 : At σ (pre ++ fHd γ₀.id ++ ci ++ fMid γ₀.id ri.1 ++ ri.1 ++ [.popUntilMark γ₀.id]) .label
      (rt.1 ++ fBr rb.1 ++ rb.1 ++ fTl γ₀.id ri.1 rt.1 rb.1 ++ post) :=
    hin.at (by simp [forFull]) (by rw [hpc]; simp; omega)
  have r0 := reachX_label a0
  have hseg1 : Seg (σ.jmp (σ.pc + 1) σ.data) (pre ++ fHd γ₀.id ++ ci ++ fMid γ₀.id ri.1 ++ ri.1 ++ [.popUntilMark γ₀.id, .label])
      rt.1 (fBr rb.1 ++ rb.1 ++ fTl γ₀.id ri.1 rt.1 rb.1 ++ post) :=
    (hin.of_fn (σ' := σ.jmp (σ.pc + 1) σ.data) rfl).seg (by simp [forFull]) (by rw [St.jmp_pc, hpc]; simp; omega)
  have ih1 := hFE true self test htest isFn c gt (rt, g4) hct hfnok m _ rs γ₀.fr _ _ (hrel.jmp _ _)
    (fun _ => hgen.2.1.frame (Frame.jmp σ (σ.pc + 1) σ.data)) hseg1
  cases h1 : Ref.eval n test γ₀.fr rs with
  | ok tv rs1 =>
    rw [h1] at ih1
    obtain ⟨σ2, m2, w2, r2, l2, hv2, rel2, hm2, ext2, fr2, hcl2⟩ := ih1
    simp only
    have htr : truthy tv = truthy w2 := by rw [hv2]; exact truthy_tr m2 id id w2
    have hin2 : InFn σ2 (forFull pre post γ₀.id ci rt.1 ri.1 rb.1) := hin.of_fn (l2.fn.trans rfl)
    have hpc2 : σ2.pc = ((pre.length + ci.length + ri.1.length + rt.1.length + 9 : Nat) : Int) := by
      rw [l2.pc, St.jmp_pc, hpc]; push_cast; omega
    have hd2 : σ2.data = some w2 :: some (.mark γ₀.id) :: γ₀.D := by rw [l2.data, St.jmp_data, hd]
    have a2 : At σ2 (pre ++ fHd γ₀.id ++ ci ++ fMid γ₀.id ri.1 ++ ri.1 ++ [.popUntilMark γ₀.id, .label] ++ rt.1)
        (.branch false ((rb.1.length : Int) + 4)) ([.label] ++ rb.1 ++ fTl γ₀.id ri.1 rt.1 rb.1 ++ post) :=
      hin2.at (by simp [forFull]) (by rw [hpc2]; simp; omega)
    have hfr02 : FrameF σ σ2 := (FrameF.jmp _ _ _).trans fr2
    by_cases htv : truthy w2 = true
    · -- the body
      have hnt : (!truthy tv) = false := by rw [htr, htv]; rfl
      rw [if_neg (by rw [hnt]; decide)]
      have r3 := (reach_branch_fall a2 hd2 (by rw [htv]; decide)).toX
      have a3 : At (σ2.jmp (σ2.pc + 1) (some (.mark γ₀.id) :: γ₀.D))
          (pre ++ fHd γ₀.id ++ ci ++ fMid γ₀.id ri.1 ++ ri.1 ++ [.popUntilMark γ₀.id, .label] ++ rt.1
            ++ [.branch false ((rb.1.length : Int) + 4)]) .label (rb.1 ++ fTl γ₀.id ri.1 rt.1 rb.1 ++ post) :=
        (hin2.of_fn (σ' := σ2.jmp (σ2.pc + 1) (some (.mark γ₀.id) :: γ₀.D)) rfl).at (by simp [forFull])
          (by rw [St.jmp_pc, hpc2]; simp; omega)
      have r4 := reachX_label a3
      generalize hσ4 : ((σ2.jmp (σ2.pc + 1) (some (.mark γ₀.id) :: γ₀.D)).jmp
          ((σ2.jmp (σ2.pc + 1) (some (.mark γ₀.id) :: γ₀.D)).pc + 1)
          (σ2.jmp (σ2.pc + 1) (some (.mark γ₀.id) :: γ₀.D)).data) = σ4 at r4
      have hin4 : InFn σ4 (forFull pre post γ₀.id ci rt.1 ri.1 rb.1) := by subst hσ4; exact hin2.of_fn rfl
      have hpc4 : σ4.pc = ((pre.length + ci.length + ri.1.length + rt.1.length + 11 : Nat) : Int) := by
        subst hσ4; simp only [St.jmp_pc, hpc2]; push_cast; omega
      have hd4 : σ4.data = some (.mark γ₀.id) :: γ₀.D := by subst hσ4; rfl
      have rel4 : RelF m2 σ4 rs1 γ₀.fr := by subst hσ4; exact (rel2.jmp _ _).jmp _ _
      have hfr24 : FrameF σ2 σ4 := by subst hσ4; exact (FrameF.jmp _ _ _).trans (FrameF.jmp _ _ _)
      have hfn24 : fnOf σ4 σ4.curfunc = fnOf σ2 σ2.curfunc := by subst hσ4; rfl
      have hfr4 : FrameF σ σ4 := hfr02.trans hfr24
      have hfn04 : fnOf σ4 σ4.curfunc = fnOf σ σ.curfunc := hfn24.trans (l2.fn.trans rfl)
      have hlin4 : σ4.linear = γ₀.lin := by rw [hfr4.linear]; exact hlin
      have hctx4 : CtxF (γ₀ :: Γ) c.scopes σ4 rs1 :=
        hctx.after hfn04 hfr4 ext2 ⟨[], by rw [hd4, hd]; rfl, fun γ _ => GoodAbove.nil γ.id⟩
      have hb := body_pumX hB hbody hfn hcb hls' hg hin4
        (P := pre ++ fHd γ₀.id ++ ci ++ fMid γ₀.id ri.1 ++ ri.1 ++ [.popUntilMark γ₀.id, .label] ++ rt.1 ++ fBr rb.1)
        (Q := [.jump (-((ri.1.length : Int) + rt.1.length + rb.1.length + 6)), .label, .clearMark γ₀.id, .removeScope,
          .push .nil] ++ post) (D := γ₀.D) (by simp [forFull]) (by rw [hpc4]; simp; omega) hd4 rel4
        (hgen.1.frame hfr4.toFrame) hctx4 (hlf.frame hfr4.toFrame) hlo
      have hreach4 := ((r0.trans r2).trans r3).trans r4
      refine LoopOut.of_reach hreach4 hfn04 hm2 ext2 hfr4 ?_
      cases h2 : Ref.evalBegin n body γ₀.fr rs1 with
      | ok vb rs2 =>
        rw [h2] at hb
        obtain ⟨σ6, m6, r6, hpc6, hd6, hfn6, rel6, hm6, ext6, fr6⟩ := hb
        simp only
        have hin6 : InFn σ6 (forFull pre post γ₀.id ci rt.1 ri.1 rb.1) := hin4.of_fn hfn6
        have hpc6' : σ6.pc = ((pre.length + ci.length + ri.1.length + rt.1.length + rb.1.length + 12 : Nat) : Int) := by
          rw [hpc6, hpc4]; push_cast; omega
        -- the back jump
        have a6 : At σ6 (pre ++ fHd γ₀.id ++ ci ++ fMid γ₀.id ri.1 ++ ri.1 ++ [.popUntilMark γ₀.id, .label] ++ rt.1 ++ fBr rb.1
            ++ rb.1 ++ [.popUntilMark γ₀.id]) (.jump (-((ri.1.length : Int) + rt.1.length + rb.1.length + 6)))
            ([.label, .clearMark γ₀.id, .removeScope, .push .nil] ++ post) :=
          hin6.at (by simp [forFull]) (by rw [hpc6']; simp; omega)
        have r7 := (reach_jump a6 (by rw [hpc6']; push_cast; omega)
          (by rw [hpc6']; simp only [List.length_append, List.length_cons, List.length_nil]; push_cast; omega)).toX
        have hpc7 : (σ6.jmp (σ6.pc + -((ri.1.length : Int) + rt.1.length + rb.1.length + 6)) σ6.data).pc
            = ((pre.length + ci.length + 6 : Nat) : Int) := by rw [St.jmp_pc, hpc6']; push_cast; omega
        have hfr47 : FrameF σ4 (σ6.jmp (σ6.pc + -((ri.1.length : Int) + rt.1.length + rb.1.length + 6)) σ6.data) :=
          fr6.trans (FrameF.jmp _ _ _)
        have h := hafter m6 (σ6.jmp (σ6.pc + -((ri.1.length : Int) + rt.1.length + rb.1.length + 6)) σ6.data) rs2 []
          (hin6.of_fn rfl) hpc7 (by rw [St.jmp_data, hd6]; rfl) (GoodAbove.nil _) (rel6.jmp _ _)
          (hfr4.trans hfr47) (ext2.trans ext6) (hfn6.trans hfn04) _ rfl
        refine LoopOut.of_reach (r6.trans r7) hfn6 hm6 ext6 hfr47 ?_
        cases h3 : Ref.eval n incr γ₀.fr rs2 with
        | ok vs rs3 => rw [h3] at h; exact h
        | err rs3 => rw [h3] at h; exact h
        | timeout => trivial
        | brk l rs3 => rw [h3] at h; exact h.elim
        | cont l rs3 => rw [h3] at h; exact h.elim
      | err rs2 => rw [h2] at hb; exact hb
      | timeout => trivial
      | brk l rs2 =>
        rw [h2] at hb
        obtain ⟨γ, hγ, hj⟩ := hb
        simp only
        have hj' : JumpedB (some (.mark γ₀.id) :: γ₀.D) γ.brkPos γ (γ₀ :: Γ) m2 σ4 rs1 rs2 := by rw [← hd4]; exact hj
        rcases findCtx_cons hγ with ⟨hmine, rfl⟩ | ⟨hmine, hγ'⟩
        · rw [hlab] at hmine
          rw [if_pos hmine]
          obtain ⟨σ', m', X, r, hpc', hlin', hd', hg', hf', rel', hm', ext', fr'⟩ := hj'
          exact ⟨σ', m', X, r, hpc', hd', hg' γ (List.mem_cons_self ..), hf', rel', hm', ext',
            fr'.toF (by rw [hlin', hlin4])⟩
        · rw [hlab] at hmine
          rw [if_neg (by rw [hmine]; decide)]
          exact ⟨γ, hγ', hj'.weaken (fun γ' h' => List.mem_cons_of_mem _ h')⟩
      | cont l rs2 =>
        rw [h2] at hb
        obtain ⟨γ, hγ, hj⟩ := hb
        simp only
        have hj' : JumpedB (some (.mark γ₀.id) :: γ₀.D) γ.contPos γ (γ₀ :: Γ) m2 σ4 rs1 rs2 := by rw [← hd4]; exact hj
        rcases findCtx_cons hγ with ⟨hmine, rfl⟩ | ⟨hmine, hγ'⟩
        · rw [hlab] at hmine
          rw [if_pos hmine]
          obtain ⟨σ', m', X, r, hpc', hlin', hd', hg', hf', rel', hm', ext', fr'⟩ := hj'
          have hfr' : FrameF σ4 σ' := fr'.toF (by rw [hlin', hlin4])
          have h := hafter m' σ' rs2 X (hin4.of_fn hf') (by rw [hpc', hcont]) hd' (hg' γ (List.mem_cons_self ..)) rel'
            (hfr4.trans hfr') (ext2.trans ext') (hf'.trans hfn04) _ rfl
          refine LoopOut.of_reach r hf' hm' ext' hfr' ?_
          cases h3 : Ref.eval n incr γ.fr rs2 with
          | ok vs rs3 => rw [h3] at h; exact h
          | err rs3 => rw [h3] at h; exact h
          | timeout => trivial
          | brk l rs3 => rw [h3] at h; exact h.elim
          | cont l rs3 => rw [h3] at h; exact h.elim
        · rw [hlab] at hmine
          rw [if_neg (by rw [hmine]; decide)]
          exact ⟨γ, hγ', hj'.weaken (fun γ' h' => List.mem_cons_of_mem _ h')⟩
    · -- the exit branch
      have hft : truthy w2 = false := by simpa using htv
      rw [if_pos (by rw [htr, hft]; rfl)]
      have r3 := (reach_branch_taken a2 hd2 (by rw [hft])
        (by rw [hpc2]; push_cast; omega)
        (by rw [hpc2]; simp only [List.length_append, List.length_cons, List.length_nil]; push_cast; omega)).toX
      have hpc3 : (σ2.jmp (σ2.pc + ((rb.1.length : Int) + 4)) (some (.mark γ₀.id) :: γ₀.D)).pc
          = ((pre.length + ci.length + ri.1.length + rt.1.length + rb.1.length + 13 : Nat) : Int) := by
        rw [St.jmp_pc, hpc2]; push_cast; omega
      have a3 : At (σ2.jmp (σ2.pc + ((rb.1.length : Int) + 4)) (some (.mark γ₀.id) :: γ₀.D))
          (pre ++ fHd γ₀.id ++ ci ++ fMid γ₀.id ri.1 ++ ri.1 ++ [.popUntilMark γ₀.id, .label] ++ rt.1 ++ fBr rb.1 ++ rb.1
            ++ [.popUntilMark γ₀.id, .jump (-((ri.1.length : Int) + rt.1.length + rb.1.length + 6))]) .label
          ([.clearMark γ₀.id, .removeScope, .push .nil] ++ post) :=
        (hin2.of_fn (σ' := σ2.jmp (σ2.pc + ((rb.1.length : Int) + 4)) (some (.mark γ₀.id) :: γ₀.D)) rfl).at
          (by simp [forFull]) (by rw [hpc3]; simp; omega)
      have r4 := reachX_label a3
      exact ⟨_, m2, [], ((r0.trans r2).trans r3).trans r4, by rw [St.jmp_pc, hpc3, hbrk]; push_cast; omega, rfl,
        GoodAbove.nil _, l2.fn.trans rfl, (rel2.jmp _ _).jmp _ _, hm2, ext2,
        (hfr02.trans (FrameF.jmp _ _ _)).trans (FrameF.jmp _ _ _)⟩
  | err rs1 =>
    rw [h1] at ih1
    exact FailsX.of_reach r0 ih1
  | timeout => trivial
  | brk l rs1 => rw [h1] at ih1; exact ih1.elim
  | cont l rs1 => rw [h1] at ih1; exact ih1.elim

/-! ## The `for` form -/

theorem forDone_getD_self (g5 : GS) (L : Nat) (b c : Int) (h : L < g5.loops.length) :
    ((forDone g5 L b c).loops.getD L {}).breakOff = b ∧ ((forDone g5 L b c).loops.getD L {}).contOff = c := by
  simp [forDone, List.getD_eq_getElem?_getD, h]

theorem asmFor_offs (L : Nat) (i t s b : List Instr) :
    (asmFor L (i ++ [.popUntilMark L]) t (s ++ [.popUntilMark L]) (b ++ [.popUntilMark L])).2.1
        = ((i.length + s.length + t.length + b.length + 14 : Nat) : Int)
    ∧ (asmFor L (i ++ [.popUntilMark L]) t (s ++ [.popUntilMark L]) (b ++ [.popUntilMark L])).2.2
        = ((i.length + 6 : Nat) : Int) := by
  constructor <;> simp [asmFor] <;> omega

theorem goodAbove_mark {L id : Nat} (h : L ≠ id) : GoodAbove id [some (.mark L)] := fun x hx => by
  simp only [List.mem_singleton] at hx
  subst hx
  exact ⟨_, rfl, fun e => by injection e with e; exact h e⟩

theorem JumpedB.rebase {B X₀ : List (Option Val)} {tgt : Int} {γ : LCtx} {Γ : List LCtx} {m : Nat → Nat} {s : St}
    {rs rs' : Ref.St} (h : JumpedB (X₀ ++ B) tgt γ Γ m s rs rs') (hg₀ : ∀ γ' ∈ Γ, GoodAbove γ'.id X₀) :
    JumpedB B tgt γ Γ m s rs rs' := by
  obtain ⟨s', m', X, r, hpc, hlin, hd, hg, hf, rel, hm', ext, fr⟩ := h
  exact ⟨s', m', X ++ X₀, r, hpc, hlin, by rw [hd, List.append_assoc], fun γ' h' => (hg γ' h').append (hg₀ γ' h'), hf,
    rel, hm', ext, fr⟩

/-- the context record of a loop, at run time -/
def forCtx (L : Nat) (label : Option String) (depth start : Nat) (brk cont : Nat) (lin : List (Option Nat)) (fr : Nat)
    (D : List (Option Val)) : LCtx :=
  { id := L, label := label, depth := depth, start := start, brkPos := (brk : Int), contPos := (cont : Int), lin := lin, fr := fr, D := D }

theorem lsOut_fHd {L a b : Nat} (h : L < a) : LsOut (fHd L) a b := fun l hl => by
  simp only [List.mem_cons, Instr.loopStart.injEq, reduceCtorEq, List.not_mem_nil, or_false] at hl
  exact Or.inl (hl ▸ h)

theorem lsOut_fMid (L : Nat) (cs : List Instr) (a b : Nat) : LsOut (fMid L cs) a b := fun l hl => by simp at hl
theorem lsOut_fBr (cb : List Instr) (a b : Nat) : LsOut (fBr cb) a b := fun l hl => by simp at hl
theorem lsOut_pl (L a b : Nat) : LsOut [Instr.popUntilMark L, .label] a b := fun l hl => by simp at hl

end ZygoVerif.Sim
