/-
The parser model on a queue of tokens that is already complete (no runes left to lex): the
instructions of a parser program act on the queue alone, and `Prog.bind` runs its parts one
after the other. Used to parse the tokens of printed data (Proofs/ReadPrint).
-/
import ZygoVerif.Proofs.ReadEager
namespace ZygoVerif.Parser
open ZygoVerif.Lexer

/-- a view with nothing left to lex, of a text whose end has been signalled -/
def tv (c : LexCore) (ex : List Sexp) : View := ⟨c, [], ex, true⟩

def setToks (c : LexCore) (ts : List Token) : LexCore := { c with tokens := ts }

theorem runA_bind {α β : Type} (p : Prog α) (f : α → Prog β) (v : View) :
    runA (p.bind f) v = (match runA p v with
      | (.ret a, v') => runA (f a) v'
      | (.stop st, v') => (.stop st, v')) := by
  induction p generalizing v with
  | pure a => rfl
  | fail => rfl
  | waitPeek n k ih =>
    simp only [Prog.bind, runA]
    cases peekWaitA false n v.exprs v.fin v.runes v.core with
    | tok t v' => exact ih t v'
    | stop st v' => rfl
  | signPeek k ih =>
    simp only [Prog.bind, runA]
    cases peekWaitA true 0 v.exprs v.fin v.runes v.core with
    | tok t v' => exact ih t v'
    | stop st v' => rfl
  | peekAt n k ih =>
    simp only [Prog.bind, runA]
    cases peekWaitA false n v.exprs v.fin v.runes v.core with
    | tok t v' =>
      simp only
      cases v'.core.tokens[n]? with
      | some t' => exact ih t' v'
      | none => rfl
    | stop st v' => rfl
  | getTok k ih =>
    simp only [Prog.bind, runA]
    cases peekWaitA false 0 v.exprs v.fin v.runes v.core with
    | tok t v' => exact ih t _
    | stop st v' => rfl
  | topGet k ih =>
    simp only [Prog.bind, runA]
    cases topGetA v.exprs v.fin v.runes v.core with
    | tok t v' => exact ih (some t) v'
    | finished st v' =>
      cases st with
      | done => exact ih none v'
      | more => rfl
      | err => rfl
  | pushTok t k ih => simp only [Prog.bind, runA]; exact ih _
  | pushExpr e k ih => simp only [Prog.bind, runA]; exact ih _

/-- `p` consumes the tokens `pre` from the front of the queue and returns `a` -/
def Consumes {α : Type} (p : Prog α) (pre : List Token) (a : α) : Prop :=
  ∀ (c : LexCore) (rest : List Token) (ex : List Sexp), c.tokens = pre ++ rest →
    runA p (tv c ex) = (.ret a, tv (setToks c rest) ex)

theorem Consumes.bind {α β : Type} {p : Prog α} {f : α → Prog β} {pre1 pre2 : List Token} {a : α} {b : β}
    (h1 : Consumes p pre1 a) (h2 : Consumes (f a) pre2 b) : Consumes (p.bind f) (pre1 ++ pre2) b := by
  intro c rest ex hc
  rw [runA_bind, h1 c (pre2 ++ rest) ex (by rw [hc, List.append_assoc])]
  simp only
  have := h2 (setToks c (pre2 ++ rest)) rest ex rfl
  simpa [setToks] using this

theorem Consumes.pure {α : Type} (a : α) : Consumes (Prog.pure a) [] a := by
  intro c rest ex hc
  simp only [runA, tv, setToks]
  congr
  simp at hc
  rw [← hc]

theorem headIf_zero_cons (c : LexCore) (t : Token) (ts : List Token) (h : c.tokens = t :: ts) : headIf 0 c = some t := by
  simp [headIf, h]

/-- peeking at a non-empty complete queue -/
theorem runA_waitPeek0 {α : Type} (k : Token → Prog α) (c : LexCore) (ex : List Sexp) (t : Token) (ts : List Token)
    (h : c.tokens = t :: ts) : runA (.waitPeek 0 k) (tv c ex) = runA (k t) (tv c ex) := by
  simp only [runA, tv, peekWaitA, headIf_zero_cons c t ts h]

theorem runA_getTok {α : Type} (k : Token → Prog α) (c : LexCore) (ex : List Sexp) (t : Token) (ts : List Token)
    (h : c.tokens = t :: ts) : runA (.getTok k) (tv c ex) = runA (k t) (tv (setToks c ts) ex) := by
  simp only [runA, tv, peekWaitA, headIf_zero_cons c t ts h, setToks, h, List.tail_cons]

theorem runA_topGet_tok {α : Type} (k : Option Token → Prog α) (c : LexCore) (ex : List Sexp) (t : Token) (ts : List Token)
    (h : c.tokens = t :: ts) : runA (.topGet k) (tv c ex) = runA (k (some t)) (tv (setToks c ts) ex) := by
  simp only [runA, tv, topGetA, h, setToks]

theorem runA_topGet_end {α : Type} (k : Option Token → Prog α) (c : LexCore) (ex : List Sexp)
    (h : c.tokens = []) (hl : inLiteral c = false) : runA (.topGet k) (tv c ex) = runA (k none) (tv c ex) := by
  simp only [runA, tv, topGetA, h, hl, Bool.false_eq_true, ↓reduceIte]

/-- `popTok`/`getTok` takes one token -/
theorem consumes_popTok (t : Token) : Consumes popTok [t] () := by
  intro c rest ex hc
  simp only [popTok]
  rw [runA_getTok _ c ex t rest (by simpa using hc)]
  rfl

end ZygoVerif.Parser
