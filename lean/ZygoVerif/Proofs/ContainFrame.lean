/-
C05 on the executable VM model, part 2: the frame condition.

`Eff kd kl ka s s'` — `s'` came from `s` by working on the TOP of the three stacks: at most
`kd` data cells, `kl` scopes and `ka` return addresses of `s` are gone, anything may have been
pushed, and the scope stacks set aside by lazy forces are untouched.

`exec_simple_eff` — for every instruction of the real instruction set that does not re-enter
the VM (all but `callExpr` and `callArr`), for every state and whatever the outcome (ok, error,
host panic): `Eff (needD i s) (needL i) (needA i)`, with the numbers read off `Execute`:
the stack-effect table of vm.go, proved about the executable model instead of assumed.

`eff_frame` — hence the frame condition instruction by instruction: cells that lie deeper than
the instruction's need are not touched.
-/
import ZygoVerif.Proofs.ContainSize
set_option linter.unusedSimpArgs false
set_option linter.unusedVariables false
namespace ZygoVerif.Contain
open ZygoVerif.Core ZygoVerif.VM ZygoVerif.Sim

/-! ## Working on the top of a stack (top first) -/

/-- `l'` is `l` with at most `k` cells removed from the top and anything pushed. -/
def Top {α} (k : Nat) (l l' : List α) : Prop := ∃ j new, j ≤ k ∧ l' = new ++ l.drop j

theorem Top.refl {α} (l : List α) : Top 0 l l := ⟨0, [], Nat.le_refl _, rfl⟩
theorem Top.of_eq {α} {l l' : List α} (h : l' = l) : Top 0 l l' := h ▸ Top.refl l
theorem Top.mono {α} {k k' : Nat} {l l' : List α} (h : Top k l l') (hk : k ≤ k') : Top k' l l' := by
  obtain ⟨j, new, hj, e⟩ := h
  exact ⟨j, new, Nat.le_trans hj hk, e⟩
theorem Top.push {α} (x : α) (l : List α) : Top 0 l (x :: l) := ⟨0, [x], Nat.le_refl _, rfl⟩
theorem Top.drop {α} (k : Nat) (l : List α) : Top k l (l.drop k) := ⟨k, [], Nat.le_refl _, rfl⟩
theorem Top.tail {α} (x : α) (l : List α) : Top 1 (x :: l) l := ⟨1, [], Nat.le_refl _, rfl⟩

theorem Top.trans {α} {a b : Nat} {l l' l'' : List α} (h1 : Top a l l') (h2 : Top b l' l'') : Top (a + b) l l'' := by
  obtain ⟨j1, n1, hj1, rfl⟩ := h1
  obtain ⟨j2, n2, hj2, rfl⟩ := h2
  by_cases h : j2 ≤ n1.length
  · refine ⟨j1, n2 ++ n1.drop j2, by omega, ?_⟩
    rw [List.drop_append_of_le_length h, List.append_assoc]
  · refine ⟨j1 + (j2 - n1.length), n2, by omega, ?_⟩
    rw [List.drop_append, List.drop_eq_nil_of_le (by omega : n1.length ≤ j2), List.nil_append, List.drop_drop]

/-- **frame, one stack**: cells deeper than what was removed are still there, underneath. -/
theorem Top.frame {α} {k : Nat} {l l' base : List α} (h : Top k l l') (hb : base <:+ l)
    (hroom : base.length + k ≤ l.length) : base <:+ l' := by
  obtain ⟨j, new, hj, rfl⟩ := h
  obtain ⟨t, rfl⟩ := hb
  simp only [List.length_append] at hroom
  rw [List.drop_append_of_le_length (by omega)]
  exact ⟨new ++ t.drop j, by simp⟩

structure Eff (kd kl ka : Nat) (s s' : St) : Prop where
  data : Top kd s.data s'.data
  linear : Top kl s.linear s'.linear
  addr : Top ka s.addr s'.addr
  susp : s'.suspended = s.suspended
  loopstack : s'.loopstack = s.loopstack

theorem Eff.refl (s : St) : Eff 0 0 0 s s := ⟨Top.refl _, Top.refl _, Top.refl _, rfl, rfl⟩

/-- a step that leaves the four stacks as they are (pc, tables … may change) -/
theorem Eff.same {s s' : St} (hd : s'.data = s.data) (hl : s'.linear = s.linear) (ha : s'.addr = s.addr)
    (hs : s'.suspended = s.suspended) (hls : s'.loopstack = s.loopstack := by rfl) : Eff 0 0 0 s s' :=
  ⟨Top.of_eq hd, Top.of_eq hl, Top.of_eq ha, hs, hls⟩

theorem Eff.mono {a b c a' b' c' : Nat} {s s' : St} (h : Eff a b c s s') (ha : a ≤ a') (hb : b ≤ b') (hc : c ≤ c') :
    Eff a' b' c' s s' := ⟨h.data.mono ha, h.linear.mono hb, h.addr.mono hc, h.susp, h.loopstack⟩

theorem Eff.trans {a b c a' b' c' : Nat} {s s' s'' : St} (h1 : Eff a b c s s') (h2 : Eff a' b' c' s' s'') :
    Eff (a + a') (b + b') (c + c') s s'' :=
  ⟨h1.data.trans h2.data, h1.linear.trans h2.linear, h1.addr.trans h2.addr, h2.susp.trans h1.susp, h2.loopstack.trans h1.loopstack⟩

/-- The three stacks of `s` still stand on the given bases. -/
structure Above (bd : List (Option Val)) (bl : List (Option Nat)) (ba : List (Option (Nat × Int))) (s : St) : Prop where
  data : bd <:+ s.data
  linear : bl <:+ s.linear
  addr : ba <:+ s.addr

/-- **frame**: an effect that stays within the room above the bases leaves them in place. -/
theorem Eff.frame {kd kl ka : Nat} {s s' : St} (h : Eff kd kl ka s s') {bd bl ba} (hb : Above bd bl ba s)
    (hd : bd.length + kd ≤ s.data.length) (hl : bl.length + kl ≤ s.linear.length) (ha : ba.length + ka ≤ s.addr.length) :
    Above bd bl ba s' :=
  ⟨h.data.frame hb.data hd, h.linear.frame hb.linear hl, h.addr.frame hb.addr ha⟩

/-! ## The helpers -/

theorem eff_pushData (v : Val) (s : St) : Eff 0 0 0 s ((pushData v).run s).2 :=
  ⟨Top.push _ _, Top.refl _, Top.refl _, rfl, rfl⟩

theorem eff_popData (s : St) : Eff 1 0 0 s (popData.run s).2 := by
  rw [run_popData]
  rcases hd : s.data with _ | ⟨_ | v, rest⟩
  · exact (Eff.refl s).mono (Nat.zero_le _) (Nat.le_refl _) (Nat.le_refl _)
  · exact (Eff.refl s).mono (Nat.zero_le _) (Nat.le_refl _) (Nat.le_refl _)
  · exact ⟨by show Top 1 s.data rest; rw [hd]; exact Top.tail _ _, Top.refl _, Top.refl _, rfl, rfl⟩

theorem run_popN (n : Nat) (s : St) :
    (popN n).run s = if s.data.length < n then (.error .err, s) else
      match (s.data.take n).mapM id with
      | none => (.error .panic, s)
      | some vs => (.ok vs.reverse, { s with data := s.data.drop n }) := by
  unfold popN
  simp only [run_bind, run_get, run_ite, run_err]
  split
  · rfl
  · split <;> rename_i h <;> simp only [h, run_hostPanic, run_bind, run_set, run_pure]

theorem eff_popN (n : Nat) (s : St) : Eff n 0 0 s ((popN n).run s).2 := by
  rw [run_popN]
  split
  · exact (Eff.refl s).mono (Nat.zero_le _) (Nat.le_refl _) (Nat.le_refl _)
  · split
    · exact (Eff.refl s).mono (Nat.zero_le _) (Nat.le_refl _) (Nat.le_refl _)
    · exact ⟨Top.drop _ _, Top.refl _, Top.refl _, rfl, rfl⟩

/-- how many cells `PopUntilStackmark`/`ClearStackmark` take off: down to and including the
first mark of the loop — every cell when there is none — stopping short at a nil cell. -/
def markNeed (l : Nat) : List (Option Val) → Nat
  | [] => 0
  | none :: _ => 0
  | some (.mark l') :: rest => if l' = l then 1 else 1 + markNeed l rest
  | some _ :: rest => 1 + markNeed l rest

theorem eff_popToMark (l : Nat) (keep : Bool) : ∀ (fuel : Nat) (s : St),
    Eff (markNeed l s.data) 0 0 s ((popToMark l keep fuel).run s).2
  | 0, s => by
    rw [popToMark]
    exact (Eff.refl s).mono (Nat.zero_le _) (Nat.le_refl _) (Nat.le_refl _)
  | fuel + 1, s => by
    rw [popToMark]
    simp only [run_bind, run_popData]
    rcases hd : s.data with _ | ⟨_ | v, rest⟩
    · exact (Eff.refl s).mono (Nat.zero_le _) (Nat.le_refl _) (Nat.le_refl _)
    · exact (Eff.refl s).mono (Nat.zero_le _) (Nat.le_refl _) (Nat.le_refl _)
    · dsimp only
      have hpop : Eff 1 0 0 s { s with data := rest } :=
        ⟨by show Top 1 s.data rest; rw [hd]; exact Top.tail _ _, Top.refl _, Top.refl _, rfl, rfl⟩
      have ih : Eff (markNeed l rest) 0 0 { s with data := rest } ((popToMark l keep fuel).run { s with data := rest }).2 :=
        eff_popToMark l keep fuel { s with data := rest }
      cases v with
      | mark l' =>
        simp only [markNeed]
        by_cases hl : l' = l
        · simp only [hl, if_true]
          cases keep
          · simp only [Bool.false_eq_true, if_false, run_pure]
            exact hpop
          · simp only [if_true, run_pushData]
            exact (hpop.trans (eff_pushData _ _)).mono (by omega) (by omega) (by omega)
        · simp only [hl, if_false]
          exact (hpop.trans ih).mono (by omega) (by omega) (by omega)
      | _ =>
        simp only [markNeed]
        exact (hpop.trans ih).mono (by omega) (by omega) (by omega)

theorem run_popScope (s : St) :
    popScope.run s = match s.linear with
      | [] => (.error .err, s)
      | _ :: rest => (.ok (), { s with linear := rest }) := by
  unfold popScope
  simp only [run_bind, run_get]
  rcases hl : s.linear with _ | ⟨x, rest⟩ <;> simp only [run_err, run_set]

theorem eff_popScope (s : St) : Eff 0 1 0 s (popScope.run s).2 := by
  rw [run_popScope]
  rcases hl : s.linear with _ | ⟨x, rest⟩
  · exact (Eff.refl s).mono (Nat.le_refl _) (Nat.zero_le _) (Nat.le_refl _)
  · exact ⟨Top.refl _, by show Top 1 s.linear rest; rw [hl]; exact Top.tail _ _, Top.refl _, rfl, rfl⟩

theorem eff_popScopes : ∀ (n : Nat) (s : St), Eff 0 n 0 s ((popScopes n).run s).2
  | 0, s => by rw [popScopes]; exact Eff.refl s
  | n + 1, s => by
    rw [popScopes]
    simp only [run_bind]
    have h1 := eff_popScope s
    rcases hr : popScope.run s with ⟨r, s1⟩
    rw [hr] at h1
    cases r with
    | ok u => exact (h1.trans (eff_popScopes n s1)).mono (by omega) (by omega) (by omega)
    | error e => exact h1.mono (by omega) (by omega) (by omega)

theorem eff_wrangleOptargs (a b : Nat) (s : St) : Eff (b - a) 0 0 s ((wrangleOptargs a b).run s).2 := by
  unfold wrangleOptargs
  split
  · exact (Eff.refl s).mono (Nat.zero_le _) (Nat.le_refl _) (Nat.le_refl _)
  · split
    · simp only [run_bind]
      have h1 := eff_popN (b - a) s
      rcases hr : (popN (b - a)).run s with ⟨r, s1⟩
      rw [hr] at h1
      cases r with
      | ok u => exact (h1.trans (eff_pushData _ s1)).mono (by omega) (by omega) (by omega)
      | error e => exact h1
    · exact (eff_pushData _ s).mono (Nat.zero_le _) (Nat.le_refl _) (Nat.le_refl _)

theorem run_setInScope (id : Nat) (x : String) (v : Val) (s : St) :
    (setInScope id x v).run s =
      (.ok (), { s with scopes := s.scopes.set id { scopeOf s id with vars := assocSet (scopeOf s id).vars x v } }) := rfl

theorem eff_bindTop (x : String) (v : Val) (s : St) : Eff 0 0 0 s ((bindTop x v).run s).2 := by
  unfold bindTop
  simp only [run_bind, run_get]
  split
  · split
    · split
      · exact Eff.same rfl rfl rfl rfl
      · exact Eff.refl s
    · exact Eff.same rfl rfl rfl rfl
  · exact Eff.refl s

theorem eff_bind {α β} {m : M α} {f : α → M β} {s : St} {a b c a' b' c' : Nat}
    (hm : Eff a b c s (m.run s).2)
    (hf : ∀ x s', m.run s = (.ok x, s') → Eff a' b' c' s' ((f x).run s').2) :
    Eff (a + a') (b + b') (c + c') s ((m >>= f).run s).2 := by
  rw [run_bind]
  rcases hr : m.run s with ⟨r, s1⟩
  rw [hr] at hm
  cases r with
  | ok x => exact hm.trans (hf x s1 hr)
  | error e => exact hm.mono (Nat.le_add_right _ _) (Nat.le_add_right _ _) (Nat.le_add_right _ _)

theorem eff_incPc (s : St) : Eff 0 0 0 s (incPc.run s).2 := Eff.same rfl rfl rfl rfl

theorem eff_jumpTo (n : Int) (s : St) : Eff 0 0 0 s ((jumpTo n).run s).2 := by
  rw [run_jumpTo]
  split
  · exact Eff.refl s
  · exact Eff.same rfl rfl rfl rfl

/-! ## The instruction set -/

/-- the instructions that do not re-enter the VM -/
def simple : Instr → Bool
  | .callArr _ => false
  | .callExpr _ _ => false
  | _ => true

/-- data cells an instruction may take off the stack it finds (`Execute` in vm.go) -/
def needD (i : Instr) (s : St) : Nat :=
  match i with
  | .pop => min 1 s.data.length               -- `PopInstr` on an empty stack is ignored
  | .popStackPutEnv _ => 1
  | .update _ => 1
  | .branch _ _ => 1
  | .assign => 2
  | .popUntilMark l => markNeed l s.data
  | .clearMark l => markNeed l s.data
  | .prepareCall _ nargs =>                    -- the surplus arguments of a variadic running function
    if !(fnOf s s.curfunc).user && (fnOf s s.curfunc).varargs then nargs - (fnOf s s.curfunc).nargs else 0
  | _ => 0

/-- scopes an instruction may pop -/
def needL : Instr → Nat
  | .removeScope => 1
  | .brk _ n => n
  | .cont _ n => n
  | _ => 0

/-- return addresses an instruction may pop -/
def needA : Instr → Nat
  | .ret => 1
  | _ => 0

end ZygoVerif.Contain

namespace ZygoVerif.Contain
open ZygoVerif.Core ZygoVerif.VM ZygoVerif.Sim

theorem Eff.sameAny {a b c : Nat} {s s' : St} (hd : s'.data = s.data) (hl : s'.linear = s.linear) (ha : s'.addr = s.addr)
    (hs : s'.suspended = s.suspended) (hls : s'.loopstack = s.loopstack := by rfl) : Eff a b c s s' :=
  (Eff.same hd hl ha hs hls).mono (Nat.zero_le _) (Nat.zero_le _) (Nat.zero_le _)

theorem eff_modify (g : St → St) (s : St) (hd : (g s).data = s.data) (hl : (g s).linear = s.linear)
    (ha : (g s).addr = s.addr) (hs : (g s).suspended = s.suspended) (hls : (g s).loopstack = s.loopstack := by rfl) :
    Eff 0 0 0 s ((modify g : M Unit).run s).2 :=
  Eff.same hd hl ha hs hls

macro "eff0" : tactic => `(tactic| exact Eff.sameAny rfl rfl rfl rfl)

/-- close `Eff a' b' c' s s'` from a proof of `Eff a b c s s'` with smaller bounds -/
macro "eff_by " t:term : tactic => `(tactic|
  (refine Eff.mono (h := $t) ?_ ?_ ?_ <;> first | omega | (simp only [needD, needL, needA] <;> omega) | simp))

theorem eff_pop1 {s : St} {v : Option Val} {rest : List (Option Val)} (hd : s.data = v :: rest) (pc : Int) :
    Eff 1 0 0 s { s with data := rest, pc := pc } :=
  ⟨by show Top 1 s.data rest; rw [hd]; exact Top.tail _ _, Top.refl _, Top.refl _, rfl, rfl⟩

/-- **The stack effect of every non-re-entrant instruction of the real instruction set**, for
every state and every outcome. -/
theorem exec_simple_eff (f : Nat) (i : Instr) (s : St) (hs : simple i = true) :
    Eff (needD i s) (needL i) (needA i) s ((exec (f + 1) i).run s).2 := by
  cases i with
  | callArr n => cases hs
  | callExpr c a => cases hs
  | push v => rw [exec_push]; exact ⟨Top.push _ _, Top.refl _, Top.refl _, rfl, rfl⟩
  | pop =>
    show Eff (min 1 s.data.length) 0 0 s _
    rw [exec_pop]
    rcases hd : s.data with _ | ⟨_ | v, rest⟩ <;> dsimp only
    · exact Eff.sameAny hd.symm rfl rfl rfl
    · eff0
    · eff_by (eff_pop1 hd _)
  | dup =>
    show Eff 0 0 0 s _
    rw [exec_dup]
    rcases hd : s.data with _ | ⟨_ | v, rest⟩ <;> dsimp only
    · eff0
    · eff0
    · exact ⟨by show Top 0 s.data (some v :: some v :: rest); rw [hd]; exact Top.push _ _, Top.refl _, Top.refl _, rfl, rfl⟩
  | jump o => rw [exec_jump]; split <;> eff0
  | goto l => rw [exec_goto]; split <;> eff0
  | branch d o =>
    show Eff 1 0 0 s _
    rw [exec_branch]
    rcases hd : s.data with _ | ⟨_ | v, rest⟩ <;> dsimp only
    · eff0
    · eff0
    · split
      · split
        · exact eff_pop1 hd s.pc
        · exact eff_pop1 hd _
      · exact eff_pop1 hd _
  | envToStack x =>
    show Eff 0 0 0 s _
    rw [exec]
    simp only [run_bind, run_get]
    split
    · eff_by (eff_bind (eff_pushData _ s) (fun _ s1 _ => eff_incPc s1))
    · exact Eff.refl s
  | popStackPutEnv x =>
    show Eff 1 0 0 s _
    rw [exec]
    eff_by (eff_bind (eff_popData s) (fun v s1 _ => eff_bind (eff_incPc s1) (fun _ s2 _ => eff_bindTop x v s2)))
  | update x =>
    show Eff 1 0 0 s _
    rw [exec]
    have hk : ∀ (v : Val) (s2 : St), Eff 0 0 0 s2 ((do
        let s ← get
        match lexLookup s x with
        | some (id, _) => setInScope id x v
        | none => bindTop x v : M Unit).run s2).2 := by
      intro v s2
      simp only [run_bind, run_get]
      split
      · exact Eff.same rfl rfl rfl rfl
      · exact eff_bindTop x v s2
    eff_by (eff_bind (eff_popData s) (fun v s1 _ => eff_bind (eff_incPc s1) (fun _ s2 _ => hk v s2)))
  | ret =>
    show Eff 0 0 1 s _
    rw [exec]
    simp only [run_bind, run_get]
    rcases ha : s.addr with _ | ⟨_ | ⟨fn, pc⟩, rest⟩ <;> dsimp only
    · eff0
    · eff0
    · exact ⟨Top.refl _, Top.refl _, by show Top 1 s.addr rest; rw [ha]; exact Top.tail _ _, rfl, rfl⟩
  | addScope => rw [exec]; exact ⟨Top.refl _, Top.push _ _, Top.refl _, rfl, rfl⟩
  | addFuncScope t => rw [exec]; exact ⟨Top.refl _, Top.push _ _, Top.refl _, rfl, rfl⟩
  | removeScope =>
    show Eff 0 1 0 s _
    rw [exec]
    eff_by (eff_bind (eff_incPc s) (fun _ s1 _ => eff_popScope s1))
  | createClosure t =>
    show Eff 0 0 0 s _
    rw [exec]
    have hk : ∀ (s1 : St), Eff 0 0 0 s1 ((do
        let s ← get
        let tm := fnOf s t
        let id := s.fns.length
        set { s with fns := s.fns ++ [({ tm with closing := closingNow s, parent := some s.curfunc } : FnObj)] }
        pushData (.fn id) : M Unit).run s1).2 := by
      intro s1
      simp only [run_bind, run_get, run_set, run_pushData]
      exact ⟨Top.push _ _, Top.refl _, Top.refl _, rfl, rfl⟩
    eff_by (eff_bind (eff_incPc s) (fun _ s1 _ => hk s1))
  | prepareCall x nargs =>
    rw [exec]
    simp only [run_bind, run_get, needD, needL, needA]
    by_cases hv : (!(fnOf s s.curfunc).user && (fnOf s s.curfunc).varargs) = true
    · simp only [hv, if_true]
      eff_by (eff_bind (eff_wrangleOptargs _ _ s) (fun _ s1 _ => eff_incPc s1))
    · simp only [hv, if_false, Bool.false_eq_true]
      eff0
  | tailGuard x skip =>
    show Eff 0 0 0 s _
    rw [exec]
    simp only [run_bind, run_get]
    split
    · split
      · eff0
      · simp only [run_set]; eff0
    · simp only [run_set]; eff0
  | pushLazy e =>
    show Eff 0 0 0 s _
    rw [exec]
    simp only [run_bind, run_get, run_set, run_pushData, run_incPc]
    exact ⟨Top.push _ _, Top.refl _, Top.refl _, rfl, rfl⟩
  | loopStart l => rw [exec]; eff0
  | label => rw [exec]; eff0
  | pushMark l =>
    show Eff 0 0 0 s _
    rw [exec]
    eff_by (eff_bind (eff_pushData _ s) (fun _ s1 _ => eff_incPc s1))
  | popUntilMark l =>
    show Eff (markNeed l s.data) 0 0 s _
    rw [exec]
    simp only [run_bind, run_incPc, run_get]
    eff_by ((eff_incPc s).trans (eff_popToMark l true (s.data.length + 1) { s with pc := s.pc + 1 }))
  | clearMark l =>
    show Eff (markNeed l s.data) 0 0 s _
    rw [exec]
    simp only [run_bind, run_get]
    have h1 := eff_popToMark l false (s.data.length + 1) s
    rcases hr : (popToMark l false (s.data.length + 1)).run s with ⟨r, s1⟩
    rw [hr] at h1
    cases r with
    | ok u => eff_by (h1.trans (eff_incPc s1))
    | error e => exact h1
  | brk l n =>
    show Eff 0 n 0 s _
    rw [exec]
    simp only [run_bind, run_get]
    split
    · eff0
    · eff_by (eff_bind (eff_popScopes n s) (fun _ s1 _ => eff_modify _ s1 rfl rfl rfl rfl))
  | cont l n =>
    show Eff 0 n 0 s _
    rw [exec]
    simp only [run_bind, run_get]
    split
    · eff0
    · eff_by (eff_bind (eff_popScopes n s) (fun _ s1 _ => eff_modify _ s1 rfl rfl rfl rfl))
  | assign =>
    show Eff 2 0 0 s _
    rw [exec]
    have hk : ∀ (rhs lhs : Val) (s3 : St), Eff 0 0 0 s3 ((do
        let s ← get
        match lhs, rhs with
        | .arr a, .arr b => if (s.heap.get a).isEmpty ∧ (s.heap.get b).isEmpty then pushData rhs else err
        | _, _ => err : M Unit).run s3).2 := by
      intro rhs lhs s3
      simp only [run_bind, run_get]
      split
      · split
        · exact eff_pushData _ _
        · exact Eff.refl _
      · exact Eff.refl _
    eff_by (eff_bind (eff_incPc s) (fun _ s1 _ => eff_bind (eff_popData s1) (fun rhs s2 _ =>
      eff_bind (eff_popData s2) (fun lhs s3 _ => hk rhs lhs s3))))

end ZygoVerif.Contain
