/-
Proofs/RunGenRT.lean — compiling at run time (`EvalCallExpression`, `Force`) only adds verified
functions: the table invariant `WF` is kept by `runGen (compile … e)` for an expression of the
covered grammar, and the helper `code ++ [ret]` is a verified function object.
-/
import ZygoVerif.Proofs.RunStep
import ZygoVerif.Proofs.ContainTop
set_option linter.unusedSimpArgs false
set_option linter.unusedVariables false
namespace ZygoVerif.RunInv
open ZygoVerif.Core ZygoVerif.VM ZygoVerif.Bal ZygoVerif.Refine ZygoVerif.Contain

/-- the generator state the VM hands to the generator -/
def gsOf (s : St) : GS := { fns := s.fns, loops := s.loops, loopstack := s.loopstack, live := s.linear }

theorem gsok_of_wf {s : St} (h : WF s) : GSok (gsOf s) := by
  intro id hid
  have : (gsOf s).loopstack = [] := h.loopstack
  rw [this] at hid
  cases hid

/-- the operand helper: `Generate(e)` followed by `ret`, for every expression of the covered grammar -/
theorem operand_verified (isFn : Nat → Bool) (e : Expr) (gs gs' : GS) (code : List Instr) (t : Bool)
    (hok : okL e = true) (hgs : GSok gs) (h : compile isFn {} e gs = Except.ok ((code, t), gs')) :
    (∃ ann, verify { kind := .fn, nformals := 0, varargs := false, nfixed := 0, code := B gs'.loops (code ++ [Instr.ret]) } ann = true) ∧
      FnsOK gs gs' gs'.loops := by
  obtain ⟨_, ids, R⟩ := balL_compile isFn e {} gs code t gs' hok hgs h
  obtain ⟨hf, hfr⟩ := R.sem gs'.loops (TOk.self gs gs')
  refine ⟨?_, hf⟩
  have hinv : GInv 0 {} gs (topEnv gs.loops.length) gs'.loops restState := by
    refine ⟨by decide, rfl, fun F A h => h.1, fun m hm => by simp [restState, openMarks] at hm, ?_, fun ht => by cases ht⟩
    intro id hid
    right
    intro F A h
    exact h.2 id (hgs id hid)
  obtain ⟨mid, hfrag⟩ := hfr 0 (topEnv gs.loops.length) restState hinv
  let F : Fn := { kind := .fn, nformals := 0, varargs := false, nfixed := 0, code := B gs'.loops (code ++ [Instr.ret]) }
  have hentry : F.entry = restState := rfl
  have hb : bump restState 1 = retState := rfl
  refine ⟨(F.entry :: mid ++ [retState]).map some ++ [none], ?_⟩
  apply verify_of_frag_ret (topEnv gs.loops.length) F (B gs'.loops code) mid
  · show B gs'.loops (code ++ [Instr.ret]) = _
    simp [B, toB]
  · rw [hentry, ← hb]; exact hfrag
  · have hl : lids F.code = ilids code := by
      show lids (B gs'.loops (code ++ [Instr.ret])) = _
      rw [lids_B, ilids_append]
      have : ilids [Instr.ret] = [] := rfl
      rw [this, List.append_nil]
    refine ⟨⟨?_, ?_⟩, fun i hi => by cases hi⟩
    · apply loopsUnique_of_nodup
      rw [hl]; exact nodup_of_idsIn ids
    · intro l hlN
      apply loopPos_none
      rw [hl]
      intro hm
      have := (mem_range_of_idsIn ids l hm).1
      omega

/-- **Compiling at run time keeps the table invariant.** -/
theorem wf_runGen {s s1 : St} (isFn : Nat → Bool) (e : Expr) (code : List Instr) (t : Bool) (hw : WF s) (hok : okL e = true)
    (h : (runGen (compile isFn {} e)).run s = (.ok (code, t), s1)) :
    WF s1 ∧ TExt s s1 ∧ s1.data = s.data ∧ s1.linear = s.linear ∧ s1.addr = s.addr ∧ s1.curfunc = s.curfunc ∧ s1.pc = s.pc ∧
      s1.suspended = s.suspended ∧ s1.scopes = s.scopes ∧ s1.heap = s.heap ∧ s1.lazies = s.lazies ∧
      AllOK (szS s1) code ∧
      ∃ ann, verify { kind := .fn, nformals := 0, varargs := false, nfixed := 0, code := B s1.loops (code ++ [Instr.ret]) } ann = true := by
  rw [run_runGen] at h
  split at h
  · rename_i a gs' hc
    cases h
    have hc' : compile isFn {} e (gsOf s) = Except.ok ((code, t), gs') := hc
    have hgs := gsok_of_wf hw
    obtain ⟨_, _, R⟩ := balL_compile isFn e {} (gsOf s) code t gs' hok hgs hc'
    obtain ⟨hver, hfns⟩ := operand_verified isFn e (gsOf s) gs' code t hok hgs hc'
    have hcok := cok_compile isFn e {} (gsOf s) code t gs' hok hgs hw.two hc'
    have hext : TExt s (withGen s gs') := ⟨R.ext.fns, R.ext.loops⟩
    have hls : (withGen s gs').loopstack = [] := by
      show gs'.loopstack = []
      rw [R.ext.stack]; exact hw.loopstack
    refine ⟨?_, hext, rfl, rfl, rfl, rfl, rfl, rfl, rfl, rfl, rfl, hcok.code, hver⟩
    refine hw.grow hext ?_ (by rw [hls]; exact hw.loopstack.symm) rfl rfl (fun lz h => Or.inl h) (fun c h => Or.inl h)
    intro id h1 h2
    have hget : gs'.fns[id]? = some (fnOf (withGen s gs') id) := by
      show gs'.fns[id]? = some (gs'.fns.getD id {})
      have h2' : id < gs'.fns.length := h2
      rw [List.getD_eq_getElem?_getD, List.getElem?_eq_getElem h2']
      rfl
    obtain ⟨hcode, huser, hsig⟩ := hcok.fns id _ h1 hget
    exact ⟨huser, hsig, hcode, hfns id _ h1 hget⟩
  · cases h

/-- the helper function object appended by `mkFunction` -/
theorem wf_mkThunk {s : St} (name : String) (code : List Instr) (cl : List (Option Nat)) (par : Option Nat) (hw : WF s)
    (hc : AllOK (szS s) code)
    (hv : ∃ ann, verify { kind := .fn, nformals := 0, varargs := false, nfixed := 0, code := B s.loops (code ++ [Instr.ret]) } ann = true) :
    WF { s with fns := s.fns ++ [({ name, code := code ++ [.ret], closing := cl, parent := par } : FnObj)] } ∧
    FnGood { s with fns := s.fns ++ [({ name, code := code ++ [.ret], closing := cl, parent := par } : FnObj)] } s.fns.length := by
  have hfo : fnOf { s with fns := s.fns ++ [({ name, code := code ++ [.ret], closing := cl, parent := par } : FnObj)] } s.fns.length
      = ({ name, code := code ++ [.ret], closing := cl, parent := par } : FnObj) := by
    show (s.fns ++ [_]).getD s.fns.length {} = _
    rw [List.getD_eq_getElem?_getD, List.getElem?_append_right (Nat.le_refl _), Nat.sub_self]
    rfl
  have hg : FnGood { s with fns := s.fns ++ [({ name, code := code ++ [.ret], closing := cl, parent := par } : FnObj)] } s.fns.length := by
    refine ⟨by rw [hfo], by rw [hfo]; rfl, ?_, ?_⟩
    · rw [hfo]
      refine AllOK.append (hc.mono ⟨Nat.le_refl _, by simp [szS]⟩) (fun i hi => ?_)
      simp at hi; subst hi; rfl
    · obtain ⟨ann, hann⟩ := hv
      refine ⟨ann, ?_⟩
      simp only [fnB, hfo]
      exact hann
  refine ⟨?_, hg⟩
  refine hw.grow ⟨⟨_, rfl⟩, ⟨[], by simp⟩⟩ ?_ rfl rfl rfl (fun lz h => Or.inl h) (fun c h => Or.inl h)
  intro id h1 h2
  simp only [List.length_append, List.length_cons, List.length_nil] at h2
  have : id = s.fns.length := by omega
  subst this
  exact hg

end ZygoVerif.RunInv
