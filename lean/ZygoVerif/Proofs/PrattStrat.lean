/-
C06, Pratt loop = stratified grammar, part 3: the simulation, for token lists of unbounded length.

`Corr T G bps` — what links an operator table to a grammar: level `k` of `G` (loosest first) has
the binding power `bps[k]`; a token owned by level `k` as an operator has left binding power
`bps[k]` and the `MunchLeft` the level's action says (left-associative operators recurse with
`bps[k]`, right-associative ones with `bps[k] - 1`); every other token has left binding power 0; a
prefix operator of level `k` recurses with `bps[k]`. (`Proofs/PrattStratTable.lean` shows it for the
table of the current tree and the documented levels.)

`main`: under `Corr`, for every token list of the fragment (`Frag`: no `if`/`for`/`break`/`continue`,
every token has a binding power, and `inScope`: an operator without right operand is not directly
followed by a tighter one — also inside selectors), with `levels ≥ k` = the levels binding
tighter than `rbp` (`Thr k rbp`):
    Expression(rbp)         returns r  ⇔  E_k                    returns r      (M)
    the loop of Expression  returns r  ⇔  the chains of levels ≥ k return r      (ML)
    the loop, when the next token binds no tighter than level k
                            returns r  ⇔  the chain of level k returns r         (MC)
by induction on the weight of the token list; (ML) by cutting the loop at `bps[k]`
(`PL_decomp`) and induction on the number of levels; the stop property of `Expression`
(`PE.stop`) is what lets a chain go on where the loop goes on.
-/
import ZygoVerif.Proofs.PrattFuel
import ZygoVerif.Proofs.StratFuel
namespace ZygoVerif.Pratt
open ZygoVerif.Stratified

/-! ## the correspondence between a table and a grammar -/

def actAt (G : Grammar) (m : Nat) (t : Sx) : Option Act :=
  match G[m]? with
  | some lv => actOf G lv t
  | none => none

def rightAt (G : Grammar) (m : Nat) : Bool :=
  match G[m]? with
  | some lv => lv.right
  | none => false

def Sx.isArr : Sx → Bool
  | .arr _ => true
  | _ => false

/-- the token in operator position -/
def ledCorr (T : Table) (G : Grammar) (bps : List Nat) (t : Sx) : Bool :=
  match levelOf G t G 0 with
  | none => lbp T t == some 0 && (List.range G.length).all (fun m => actAt G m t == none)
  | some (k, act) =>
    decide (k < G.length) && lbp T t == some (bps.getD k 0) && actAt G k t == some act &&
    (List.range G.length).all (fun m => m == k || actAt G m t == none) &&
    (match act with
     | .bin out => ledOf T t == .bin out (if rightAt G k then bps.getD k 0 - 1 else bps.getD k 0)
     | .post name => ledOf T t == .post name
     | .field => ledOf T t == .field && k + 1 == G.length
     | .index => ledOf T t == .index && k + 1 == G.length && t.isArr
     | .drop => ledOf T t == .drop)

/-- the token in operand position -/
def nudCorr (T : Table) (G : Grammar) (bps : List Nat) (t : Sx) : Bool :=
  match prefixOf t G with
  | none => nudOf T t == .atom
  | some (out, above) =>
    (List.range G.length).any (fun k => above.length + (k + 1) == G.length && nudOf T t == .pre out (bps.getD k 0))

/-- a plain (not dot-flagged) symbol whose `MunchLeft` is the field-access handler: the symbol `.`
itself without its dot flag — the parser never builds it (`.` is lexed as a dot token) -/
def plainField (T : Table) : Sx → Bool
  | .sym n => ledOf T (.sym n) == .field
  | .lab n => ledOf T (.lab n) == .field
  | _ => false

/-- a token of the fragment: it starts an expression as an atom or a prefix operator,
`LeftBindingPower` knows it, and it is not the undotted `.` -/
def okTok (T : Table) (t : Sx) : Bool := okNudB T t && (lbp T t).isSome && !plainField T t

structure Corr (T : Table) (G : Grammar) (bps : List Nat) : Prop where
  pos : ∀ j, j < G.length → 0 < bps.getD j 0
  incr : ∀ i j, i < j → j < G.length → bps.getD i 0 < bps.getD j 0
  colon : okTok T (.sym ":") = true
  lab : ∀ n, okTok T (.lab n) = true → okTok T (.sym n) = true
  led : ∀ t, okTok T t = true → ledCorr T G bps t = true
  nud : ∀ t, okTok T t = true → nudCorr T G bps t = true

/-! ## weights (the induction measure) -/

mutual
def wt : Sx → Nat
  | .arr xs => 1 + wtList xs
  | .lab _ => 2
  | .sym _ => 1
  | .dot _ => 1
  | .lit _ => 1
  | .other _ _ => 1
  | .list _ => 1
  | .comma => 1
  | .semi => 1
  | .hash => 1
  | .null => 1
def wtList : List Sx → Nat
  | [] => 0
  | t :: ts => wt t + wtList ts
end

theorem wt_pos (t : Sx) : 1 ≤ wt t := by cases t <;> simp [wt] <;> omega

theorem wtList_split (xs : List Sx) : wtList (splitColonTail xs) = wtList xs := by
  induction xs with
  | nil => rfl
  | cons a r ih => cases a <;> simp [splitColonTail, wtList, wt, ih] <;> omega

theorem wtList_append (a b : List Sx) : wtList (a ++ b) = wtList a + wtList b := by
  induction a with
  | nil => simp [wtList]
  | cons x r ih => simp [wtList, ih]; omega

theorem wtList_suffix {a b : List Sx} (h : a <:+ b) : wtList a ≤ wtList b := by
  obtain ⟨p, rfl⟩ := h
  rw [wtList_append]; omega

theorem wtList_takeWhile (p : Sx → Bool) (l : List Sx) : wtList (l.takeWhile p) ≤ wtList l := by
  have := wtList_append (l.takeWhile p) (l.dropWhile p)
  rw [List.takeWhile_append_dropWhile] at this; omega

theorem wtList_dropWhile_tail (p : Sx → Bool) (l : List Sx) : wtList (l.dropWhile p).tail ≤ wtList l := by
  have h1 := wtList_append (l.takeWhile p) (l.dropWhile p)
  rw [List.takeWhile_append_dropWhile] at h1
  have h2 : wtList (l.dropWhile p).tail ≤ wtList (l.dropWhile p) := by
    cases l.dropWhile p with
    | nil => simp [wtList]
    | cons a b => simp [wtList]
  omega

theorem suffix_eq_or_lt {a b : List Sx} (h : a <:+ b) : a = b ∨ wtList a < wtList b := by
  obtain ⟨p, rfl⟩ := h
  cases p with
  | nil => left; rfl
  | cons x r =>
    right
    rw [wtList_append]
    have := wt_pos x
    simp only [wtList]; omega

/-! ## the fragment -/

theorem fragList_mono {p q : Sx → Bool} (hpq : ∀ t, p t = true → q t = true) :
    (∀ t, fragTok p t = true → fragTok q t = true) ∧ (∀ ts, fragList p ts = true → fragList q ts = true) := by
  have key : ∀ n, (∀ t, t.size ≤ n → fragTok p t = true → fragTok q t = true) ∧
      (∀ ts, sizeList ts ≤ n → fragList p ts = true → fragList q ts = true) := by
    intro n
    induction n with
    | zero =>
      refine ⟨fun t ht => ?_, fun ts hts h => ?_⟩
      · cases t <;> simp [Sx.size] at ht
      · cases ts with
        | nil => rfl
        | cons a r => cases a <;> simp [sizeList, Sx.size] at hts <;> omega
    | succ n ih =>
      refine ⟨fun t ht h => ?_, fun ts hts h => ?_⟩
      · cases t with
        | arr xs =>
          simp only [fragTok, Bool.and_eq_true] at h ⊢
          simp only [Sx.size] at ht
          exact ⟨hpq _ h.1, ih.2 xs (by omega) h.2⟩
        | _ => simp only [fragTok] at h ⊢; exact hpq _ h
      · cases ts with
        | nil => rfl
        | cons a r =>
          simp only [fragList, Bool.and_eq_true] at h ⊢
          simp only [sizeList] at hts
          have ha : 1 ≤ a.size := by cases a <;> simp [Sx.size] <;> omega
          refine ⟨?_, ih.2 r (by omega) h.2⟩
          cases a with
          | arr xs =>
            simp only [fragTok, Bool.and_eq_true] at h ⊢
            simp only [Sx.size] at hts
            exact ⟨hpq _ h.1.1, ih.2 xs (by omega) h.1.2⟩
          | _ => simp only [fragTok] at h ⊢; exact hpq _ h.1
  exact ⟨fun t h => (key t.size).1 t (Nat.le_refl _) h, fun ts h => (key (sizeList ts)).2 ts (Nat.le_refl _) h⟩

/-- a token list of the fragment, at every depth -/
def Frag (T : Table) (G : Grammar) (ts : List Sx) : Prop :=
  fragList (okTok T) ts = true ∧ adjacentOK G ts = true ∧ coveredList G ts = true

theorem adjacentOK_tail {G : Grammar} {t : Sx} {ts : List Sx} (h : adjacentOK G (t :: ts) = true) : adjacentOK G ts = true := by
  cases ts with
  | nil => rfl
  | cons u r => simp only [adjacentOK, Bool.and_eq_true] at h; exact h.2

theorem adjacentOK_suffix {G : Grammar} {a b : List Sx} (hs : a <:+ b) (h : adjacentOK G b = true) : adjacentOK G a = true := by
  obtain ⟨p, rfl⟩ := hs
  induction p with
  | nil => exact h
  | cons x r ih => exact ih (adjacentOK_tail h)

theorem adjacentOK_prefix {G : Grammar} (a b : List Sx) (h : adjacentOK G (a ++ b) = true) : adjacentOK G a = true := by
  induction a with
  | nil => rfl
  | cons x r ih =>
    cases r with
    | nil => rfl
    | cons y r' =>
      simp only [List.cons_append, adjacentOK, Bool.and_eq_true] at h ⊢
      exact ⟨h.1, ih h.2⟩

theorem coveredList_mem {G : Grammar} {ts : List Sx} (h : coveredList G ts = true) : ∀ t ∈ ts, covered G t = true := by
  induction ts with
  | nil => intro t ht; cases ht
  | cons a r ih =>
    simp only [coveredList, Bool.and_eq_true] at h
    intro t ht
    rw [List.mem_cons] at ht
    rcases ht with rfl | ht
    · exact h.1
    · exact ih h.2 t ht

theorem coveredList_of_mem {G : Grammar} {ts : List Sx} (h : ∀ t ∈ ts, covered G t = true) : coveredList G ts = true := by
  induction ts with
  | nil => rfl
  | cons a r ih =>
    simp only [coveredList, Bool.and_eq_true]
    exact ⟨h a (by simp), ih (fun t ht => h t (by simp [ht]))⟩

theorem coveredList_split {G : Grammar} (xs : List Sx) (h : coveredList G xs = true) :
    coveredList G (Pratt.splitColonTail xs) = true := by
  induction xs with
  | nil => rfl
  | cons a r ih =>
    simp only [coveredList, Bool.and_eq_true] at h
    have hr := ih h.2
    cases a with
    | lab n => simp [Pratt.splitColonTail, coveredList, covered, hr]
    | _ => simp only [Pratt.splitColonTail, coveredList, Bool.and_eq_true]; exact ⟨h.1, hr⟩

theorem Frag.sub {T : Table} {G : Grammar} {ts ts' : List Sx} (h : Frag T G ts) (hs : ∀ t ∈ ts', t ∈ ts)
    (ha : adjacentOK G ts' = true) : Frag T G ts' :=
  ⟨fragList_sublist _ ts ts' h.1 hs, ha, coveredList_of_mem (fun t ht => coveredList_mem h.2.2 t (hs t ht))⟩

theorem Frag.suffix {T : Table} {G : Grammar} {ts ts' : List Sx} (h : Frag T G ts) (hs : ts' <:+ ts) : Frag T G ts' :=
  h.sub (fun _ ht => hs.subset ht) (adjacentOK_suffix hs h.2.1)

theorem Frag.tail {T : Table} {G : Grammar} {t : Sx} {ts : List Sx} (h : Frag T G (t :: ts)) : Frag T G ts :=
  h.suffix (List.suffix_cons t ts)

theorem Frag.nudFrag {T : Table} {G : Grammar} {ts : List Sx} (h : Frag T G ts) : fragList (okNudB T) ts = true :=
  (fragList_mono (p := okTok T) (q := okNudB T) (fun t ht => by
    simp only [okTok, Bool.and_eq_true] at ht; exact ht.1.1)).2 ts h.1

theorem Frag.head {T : Table} {G : Grammar} {t : Sx} {ts : List Sx} (h : Frag T G (t :: ts)) : okTok T t = true :=
  fragTok_top _ t (fragList_mem _ _ h.1 t (by simp))

section Main
variable {T : Table} {G : Grammar} {bps : List Nat} (hC : Corr T G bps)

include hC in
theorem Corr.colonNud : okNudB T (.sym ":") = true := by
  have := hC.colon
  simp only [okTok, Bool.and_eq_true] at this
  exact this.1.1

include hC in
/-- the tokens of a selector are in the fragment -/
theorem Frag.inner {xs : List Sx} {ts : List Sx} (h : Frag T G ts) (hm : Sx.arr xs ∈ ts) :
    Frag T G (Pratt.splitColonTail xs) := by
  have hft := fragList_mem _ _ h.1 _ hm
  have hcov := coveredList_mem h.2.2 _ hm
  simp only [fragTok, Bool.and_eq_true] at hft
  simp only [covered, Bool.and_eq_true] at hcov
  refine ⟨?_, ?_, coveredList_split xs hcov.2⟩
  · -- okTok through splitColonTail
    have hx := hft.2
    clear hft hcov hm h
    induction xs with
    | nil => rfl
    | cons a r ih =>
      simp only [fragList, Bool.and_eq_true] at hx
      have hr := ih hx.2
      cases a with
      | lab n =>
        have h1 : okTok T (.sym n) = true := hC.lab n (fragTok_top _ _ hx.1)
        simp [Pratt.splitColonTail, fragList, fragTok, h1, hC.colon, hr]
      | _ => simp only [Pratt.splitColonTail, fragList, Bool.and_eq_true]; exact ⟨hx.1, hr⟩
  · rw [← splitColonTail_eq]; exact hcov.1

/-! ## thresholds -/

/-- the levels `k, k+1, …` are exactly those that bind tighter than `rbp` -/
def Thr (G : Grammar) (bps : List Nat) (k rbp : Nat) : Prop :=
  (∀ j, j < k → j < G.length → bps.getD j 0 ≤ rbp) ∧ (∀ j, k ≤ j → j < G.length → rbp < bps.getD j 0)

include hC in
theorem thr_zero : Thr G bps 0 0 := ⟨fun j hj _ => by omega, fun j _ hj => hC.pos j hj⟩

include hC in
theorem thr_succ {k : Nat} (hk : k < G.length) : Thr G bps (k + 1) (bps.getD k 0) := by
  refine ⟨fun j hj hjn => ?_, fun j hj hjn => hC.incr k j (by omega) hjn⟩
  by_cases h : j = k
  · subst h; exact Nat.le_refl _
  · exact Nat.le_of_lt (hC.incr j k (by omega) hk)

include hC in
theorem thr_pred {k : Nat} (hk : k < G.length) : Thr G bps k (bps.getD k 0 - 1) := by
  have hp := hC.pos k hk
  refine ⟨fun j hj hjn => ?_, fun j hj hjn => ?_⟩
  · have := hC.incr j k hj hk; omega
  · by_cases h : j = k
    · subst h; omega
    · have := hC.incr k j (by omega) hjn; omega

/-! ## classification of a token in operator position -/

/-- no level owns the token -/
def Unowned (T : Table) (G : Grammar) (t : Sx) : Prop :=
  levelOf G t G 0 = none ∧ lbp T t = some 0 ∧ ∀ m, m < G.length → actAt G m t = none

/-- level `k` owns the token with action `act` -/
def Owned (T : Table) (G : Grammar) (bps : List Nat) (t : Sx) (k : Nat) (act : Act) : Prop :=
  levelOf G t G 0 = some (k, act) ∧ k < G.length ∧ lbp T t = some (bps.getD k 0) ∧ actAt G k t = some act ∧
  (∀ m, m < G.length → m ≠ k → actAt G m t = none) ∧
  (match act with
   | .bin out => ledOf T t = .bin out (if rightAt G k then bps.getD k 0 - 1 else bps.getD k 0)
   | .post name => ledOf T t = .post name
   | .field => ledOf T t = .field ∧ k + 1 = G.length
   | .index => ledOf T t = .index ∧ k + 1 = G.length ∧ t.isArr = true
   | .drop => ledOf T t = .drop)

include hC in
theorem classify (t : Sx) (ht : okTok T t = true) : Unowned T G t ∨ ∃ k act, Owned T G bps t k act := by
  have h := hC.led t ht
  unfold ledCorr at h
  cases hl : levelOf G t G 0 with
  | none =>
    rw [hl] at h
    simp only [Bool.and_eq_true, beq_iff_eq, List.all_eq_true, List.mem_range] at h
    exact Or.inl ⟨hl, h.1, h.2⟩
  | some p =>
    obtain ⟨k, act⟩ := p
    rw [hl] at h
    simp only [Bool.and_eq_true, beq_iff_eq, List.all_eq_true, List.mem_range, decide_eq_true_eq, Bool.or_eq_true] at h
    obtain ⟨⟨⟨⟨h1, h2⟩, h3⟩, h4⟩, h5⟩ := h
    refine Or.inr ⟨k, act, hl, h1, h2, h3, fun m hm hne => ?_, ?_⟩
    · rcases h4 m hm with h | h
      · exact absurd h hne
      · exact h
    · cases act <;> simpa [and_assoc] using h5

theorem actAt_drop {G : Grammar} {k : Nat} {lv : Level} {rest : Grammar} (hk : G.drop k = lv :: rest) (t : Sx) :
    actAt G k t = actOf G lv t := by
  have : G[k]? = some lv := by
    have := congrArg List.head? hk
    simpa [List.head?_drop] using this
  simp [actAt, this]

theorem rightAt_drop {G : Grammar} {k : Nat} {lv : Level} {rest : Grammar} (hk : G.drop k = lv :: rest) :
    rightAt G k = lv.right := by
  have : G[k]? = some lv := by
    have := congrArg List.head? hk
    simpa [List.head?_drop] using this
  simp [rightAt, this]

theorem drop_succ_of {G : Grammar} {k : Nat} {lv : Level} {rest : Grammar} (hk : G.drop k = lv :: rest) :
    G.drop (k + 1) = rest := by
  have := congrArg List.tail hk
  simpa [List.tail_drop] using this

theorem lt_of_drop {G : Grammar} {k : Nat} {lv : Level} {rest : Grammar} (hk : G.drop k = lv :: rest) : k < G.length := by
  by_cases h : k < G.length
  · exact h
  · rw [List.drop_eq_nil_of_le (by omega)] at hk
    cases hk

theorem drop_of_lt {G : Grammar} {k : Nat} (hk : k < G.length) : ∃ lv rest, G.drop k = lv :: rest :=
  ⟨G[k], G.drop (k + 1), (List.drop_eq_getElem_cons hk)⟩

/-- every token binds no tighter than `c` at the head of `ts` -/
def HeadLe (T : Table) (ts : List Sx) (c : Nat) : Prop := ∀ t r, ts = t :: r → ∃ l, lbp T t = some l ∧ l ≤ c

include hC in
/-- a binding power below that of level `k` is at most `rbp` when the levels from `k` on are those above `rbp` -/
theorem lbp_le_of_lt {t : Sx} (ht : okTok T t = true) {k rbp l : Nat} (hk : k < G.length) (hthr : Thr G bps k rbp)
    (hl : lbp T t = some l) (hlt : l < bps.getD k 0) : l ≤ rbp := by
  rcases classify hC t ht with ⟨_, h0, _⟩ | ⟨j, act, _, hj, hb, _⟩
  · rw [h0] at hl; cases hl; omega
  · rw [hb] at hl
    cases hl
    have hjk : j < k := by
      by_cases hge : j < k
      · exact hge
      · exfalso
        by_cases he : j = k
        · subst he; omega
        · have := hC.incr k j (by omega) hj; omega
    exact hthr.1 j hjk hj

omit hC in
/-- the loop returns at once when the next token binds no tighter than `rbp` -/
theorem PL_returns {st : Sx} {ts : List Sx} {rbp : Nat} (hh : HeadLe T ts rbp) (left : Sx) (r : Sx × List Sx) :
    PL T st rbp left ts r ↔ r = (left, ts) := by
  cases ts with
  | nil => exact PL_nil rbp left r
  | cons t ts =>
    obtain ⟨l, hl, hle⟩ := hh t ts rfl
    exact PL_stop hl hle

/-- the chains of `lvls` on the empty rest -/
theorem SClimb_nil {E : Sx} (lvls : Grammar) (x : Sx) (r : Sx × List Sx) : SClimb G E lvls x [] r ↔ r = (x, []) := by
  induction lvls generalizing r with
  | nil => rfl
  | cons lv rest ih =>
    simp only [SClimb]
    constructor
    · rintro ⟨y, ts1, h1, h2⟩
      have := (ih _).1 h1
      simp only [Prod.mk.injEq] at this
      obtain ⟨rfl, rfl⟩ := this
      exact SC_nil.1 h2
    · rintro rfl
      exact ⟨x, [], (ih _).2 rfl, SC_nil.2 rfl⟩

include hC in
theorem bps_le {i j : Nat} (hij : i ≤ j) (hj : j < G.length) : bps.getD i 0 ≤ bps.getD j 0 := by
  by_cases h : i = j
  · subst h; exact Nat.le_refl _
  · exact Nat.le_of_lt (hC.incr i j (by omega) hj)

include hC in
theorem level_le_of_bps_le {j k : Nat} (hj : j < G.length) (hle : bps.getD j 0 ≤ bps.getD k 0) : j ≤ k := by
  by_cases h : j ≤ k
  · exact h
  · have := hC.incr k j (by omega) hj; omega

include hC in
/-- every token of the fragment binds no tighter than the last level -/
theorem headLe_last {ts : List Sx} (hfr : Frag T G ts) {k : Nat} (hk : k + 1 = G.length) : HeadLe T ts (bps.getD k 0) := by
  intro u r heq
  subst heq
  rcases classify hC u hfr.head with ⟨_, h0, _⟩ | ⟨j, act, _, hj, hb, _⟩
  · exact ⟨0, h0, Nat.zero_le _⟩
  · exact ⟨_, hb, bps_le hC (by omega) (by omega)⟩

include hC in
/-- after an operator without right operand the next token binds no tighter (`adjacentOK`) -/
theorem headLe_adjacent {t : Sx} {ts : List Sx} (hfr : Frag T G (t :: ts)) {j : Nat} {act : Act}
    (hlev : levelOf G t G 0 = some (j, act)) (hj : j < G.length) (hact : (∃ n, act = .post n) ∨ act = .drop) :
    HeadLe T ts (bps.getD j 0) := by
  intro u r heq
  subst heq
  have hadj := hfr.2.1
  rcases classify hC u hfr.tail.head with ⟨_, h0, _⟩ | ⟨j', act', hlev', hj', hb', _⟩
  · exact ⟨0, h0, Nat.zero_le _⟩
  · refine ⟨_, hb', ?_⟩
    have hle : j' ≤ j := by
      simp only [adjacentOK, hlev, hlev', Bool.and_eq_true] at hadj
      rcases hact with ⟨n, rfl⟩ | rfl
      · simpa using hadj.1
      · simpa using hadj.1
    exact bps_le hC hle hj

/-- the three claims about the token list `ts` -/
structure Claims (T : Table) (G : Grammar) (bps : List Nat) (ts : List Sx) : Prop where
  M : ∀ (E : Sx) (k rbp : Nat) (r : Sx × List Sx), k ≤ G.length → Thr G bps k rbp →
    (PE T E rbp ts r ↔ SS G E (G.drop k) ts r)
  MC : ∀ (E : Sx) (k rbp : Nat) (lv : Level) (rest : Grammar) (left : Sx) (r : Sx × List Sx),
    G.drop k = lv :: rest → Thr G bps k rbp → HeadLe T ts (bps.getD k 0) →
    (PL T E rbp left ts r ↔ SC G E lv rest left ts r)
  ML : ∀ (E : Sx) (k rbp : Nat) (left : Sx) (r : Sx × List Sx), k ≤ G.length → Thr G bps k rbp →
    (PL T E rbp left ts r ↔ SClimb G E (G.drop k) left ts r)

include hC in
/-- selectors: `normalizeArraySelector` and the selector of the specification agree -/
theorem sel_step {ts : List Sx} (IH : ∀ ts', wtList ts' < wtList ts → Frag T G ts' → Claims T G bps ts')
    (hfr : Frag T G ts) {xs : List Sx} (hm : Sx.arr xs ∈ ts) (s : Sx) : PSel T (.arr xs) s ↔ SSel G (.arr xs) s := by
  have hin := Frag.inner hC hfr hm
  have hft : fragTok (okNudB T) (.arr xs) = true := fragList_mem _ _ hfr.nudFrag _ hm
  have hwt : wtList (Pratt.splitColonTail xs) < wtList ts := by
    rw [wtList_split]
    obtain ⟨a, b, rfl⟩ := List.append_of_mem hm
    rw [wtList_append]
    simp only [wtList, wt]; omega
  rw [PSel_arr (Corr.colonNud hC) hft, SSel_arr]
  -- the parts of the selector
  have one : ∀ l : List Sx, (∀ t ∈ l, t ∈ Pratt.splitColonTail xs) → adjacentOK G l = true → wtList l ≤ wtList (Pratt.splitColonTail xs) →
      ∀ y, POne T l y ↔ SOne G l y := by
    intro l hsub hadj hw y
    have hfl : Frag T G l := hin.sub hsub hadj
    rw [POne_iff hfl.nudFrag, SOne_iff]
    have := (IH l (by omega) hfl).M (staleOf l) 0 0 (y, []) (Nat.zero_le _) (thr_zero hC)
    simpa using this
  have hsplit : Pratt.splitColonTail xs =
      (Pratt.splitColonTail xs).takeWhile (fun t => !t.isNamed ":") ++ (Pratt.splitColonTail xs).dropWhile (fun t => !t.isNamed ":") :=
    (List.takeWhile_append_dropWhile).symm
  apply selShape_congr
  · apply one
    · exact fun t ht => (List.takeWhile_sublist _).subset ht
    · have := hin.2.1; rw [hsplit] at this; exact adjacentOK_prefix _ _ this
    · exact wtList_takeWhile _ _
  · apply one
    · exact fun t ht => (List.dropWhile_sublist _).subset (List.mem_of_mem_tail ht)
    · have h1 : adjacentOK G ((Pratt.splitColonTail xs).dropWhile (fun t => !t.isNamed ":")) = true :=
        adjacentOK_suffix (List.dropWhile_suffix _) hin.2.1
      exact adjacentOK_suffix (List.tail_suffix _) h1
    · exact wtList_dropWhile_tail _ _
  · intro r
    have := (IH _ hwt hin).M (staleOf (Pratt.splitColonTail xs)) 0 0 r (Nat.zero_le _) (thr_zero hC)
    simpa using this

include hC in
/-- (MC): the loop, when the next token binds no tighter than level `k`, is the chain of level `k` -/
theorem MC_step {ts : List Sx} (IH : ∀ ts', wtList ts' < wtList ts → Frag T G ts' → Claims T G bps ts')
    (hfr : Frag T G ts) (E : Sx) (k rbp : Nat) (lv : Level) (rest : Grammar) (left : Sx) (r : Sx × List Sx)
    (hk : G.drop k = lv :: rest) (hthr : Thr G bps k rbp) (hh : HeadLe T ts (bps.getD k 0)) :
    PL T E rbp left ts r ↔ SC G E lv rest left ts r := by
  have hcn := Corr.colonNud hC
  cases ts with
  | nil => rw [PL_nil, SC_nil]
  | cons t ts' =>
    have hkl := lt_of_drop hk
    have hnf := hfr.nudFrag
    have htok := hfr.head
    have hfr' := hfr.tail
    have hwt' : wtList ts' < wtList (t :: ts') := by have := wt_pos t; simp only [wtList]; omega
    obtain ⟨l, hl, hle⟩ := hh t ts' rfl
    have hact : actAt G k t = actOf G lv t := actAt_drop hk t
    rcases classify hC t htok with ⟨_, h0, hnone⟩ | ⟨j, act, hlev, hj, hb, hat, huniq, hled⟩
    · have hn : actOf G lv t = none := by rw [← hact]; exact hnone k hkl
      rw [PL_stop h0 (Nat.zero_le _), SC_pass hn]
    · rw [hb] at hl
      cases hl
      have hjk : j ≤ k := level_le_of_bps_le hC hj hle
      by_cases hne : j = k
      · subst hne
        have hlt : ¬ rbp ≥ bps.getD j 0 := by have := hthr.2 j (Nat.le_refl _) hj; omega
        have hactk : actOf G lv t = some act := by rw [← hact]; exact hat
        have hrest : G.drop (j + 1) = rest := drop_succ_of hk
        -- results of sub-parses stay in the fragment and are lighter
        have sub : ∀ {c : Nat} {x : Sx} {ts1 : List Sx}, PE T E c ts' (x, ts1) →
            Frag T G ts1 ∧ wtList ts1 < wtList (t :: ts') ∧ HeadLe T ts1 c := by
          intro c x ts1 hpe
          have hs : ts1 <:+ ts' := PE.suffix hfr'.nudFrag hpe
          refine ⟨hfr'.suffix hs, by have := wtList_suffix hs; omega, ?_⟩
          intro t1 r1 heq
          subst heq
          exact PE.stop hfr'.nudFrag hpe
        cases act with
        | bin out =>
          simp only at hled
          rw [rightAt_drop hk] at hled
          by_cases hr : lv.right = true
          · rw [if_pos hr] at hled
            rw [PL_bin hcn hnf hb hlt hled, SC_binR hactk hr]
            have hM := fun r' => (IH ts' hwt' hfr').M E j (bps.getD j 0 - 1) r' (Nat.le_of_lt hj) (thr_pred hC hj)
            rw [hk] at hM
            have ret : ∀ {x : Sx} {ts1 : List Sx}, PE T E (bps.getD j 0 - 1) ts' (x, ts1) → ∀ lf r', (PL T E rbp lf ts1 r' ↔ r' = (lf, ts1)) := by
              intro x ts1 hpe lf r'
              obtain ⟨hf1, _, hh1⟩ := sub hpe
              apply PL_returns
              intro t1 r1 heq
              obtain ⟨l1, hl1, hle1⟩ := hh1 t1 r1 heq
              subst heq
              have hp := hC.pos j hj
              exact ⟨l1, hl1, lbp_le_of_lt hC hf1.head hj hthr hl1 (by omega)⟩
            constructor
            · rintro ⟨x, ts1, hpe, hpl⟩
              exact ⟨x, ts1, (hM _).1 hpe, (ret hpe _ _).1 hpl⟩
            · rintro ⟨y, ts1, hss, rfl⟩
              have hpe := (hM _).2 hss
              exact ⟨y, ts1, hpe, (ret hpe _ _).2 rfl⟩
          · have hr' : lv.right = false := by simpa using hr
            rw [if_neg hr] at hled
            rw [PL_bin hcn hnf hb hlt hled, SC_binL hactk hr']
            have hM := fun r' => (IH ts' hwt' hfr').M E (j + 1) (bps.getD j 0) r' hj (thr_succ hC hj)
            rw [hrest] at hM
            constructor
            · rintro ⟨x, ts1, hpe, hpl⟩
              obtain ⟨hf1, hw1, hh1⟩ := sub hpe
              exact ⟨x, ts1, (hM _).1 hpe, ((IH ts1 hw1 hf1).MC E j rbp lv rest _ r hk hthr hh1).1 hpl⟩
            · rintro ⟨y, ts1, hss, hsc⟩
              have hpe := (hM _).2 hss
              obtain ⟨hf1, hw1, hh1⟩ := sub hpe
              exact ⟨y, ts1, hpe, ((IH ts1 hw1 hf1).MC E j rbp lv rest _ r hk hthr hh1).2 hsc⟩
        | post name =>
          simp only at hled
          rw [(PL_noarg hb hlt).1 name hled, (SC_noarg).1 name hactk]
          exact (IH ts' hwt' hfr').MC E j rbp lv rest _ r hk hthr (headLe_adjacent hC hfr hlev hj (Or.inl ⟨name, rfl⟩))
        | drop =>
          simp only at hled
          rw [(PL_noarg hb hlt).2.2 hled, (SC_noarg).2.2 hactk]
          exact (IH ts' hwt' hfr').MC E j rbp lv rest _ r hk hthr (headLe_adjacent hC hfr hlev hj (Or.inr rfl))
        | field =>
          simp only at hled
          rw [(PL_noarg hb hlt).2.1 hled.1, (SC_noarg).2.1 hactk]
          exact (IH ts' hwt' hfr').MC E j rbp lv rest _ r hk hthr (headLe_last hC hfr' hled.2)
        | index =>
          simp only at hled
          obtain ⟨hled1, hlast, harr⟩ := hled
          cases t with
          | arr xs =>
            rw [PL_index hcn hnf hb hlt hled1, SC_index hactk]
            have hsel := sel_step hC IH hfr (xs := xs) (by simp)
            have hmc := fun lf => (IH ts' hwt' hfr').MC E j rbp lv rest lf r hk hthr (headLe_last hC hfr' hlast)
            constructor
            · rintro ⟨sel, h1, h2⟩; exact ⟨sel, (hsel sel).1 h1, (hmc _).1 h2⟩
            · rintro ⟨sel, h1, h2⟩; exact ⟨sel, (hsel sel).2 h1, (hmc _).2 h2⟩
          | _ => simp [Sx.isArr] at harr
      · have hjlt : j < k := by omega
        have hn : actOf G lv t = none := by rw [← hact]; exact huniq k hkl (by omega)
        rw [PL_stop hb (hthr.1 j hjlt hj), SC_pass hn]

include hC in
/-- (ML): the loop of `Expression(rbp)` is the chains of the levels above `rbp` — the loop is cut at the
binding power of the loosest of them, the tighter levels are done by induction, the loosest by (MC) -/
theorem ML_step {ts : List Sx} (IH : ∀ ts', wtList ts' < wtList ts → Frag T G ts' → Claims T G bps ts')
    (hfr : Frag T G ts) (E : Sx) (k rbp : Nat) (left : Sx) (r : Sx × List Sx) (hkn : k ≤ G.length)
    (hthr : Thr G bps k rbp) : PL T E rbp left ts r ↔ SClimb G E (G.drop k) left ts r := by
  have hcn := Corr.colonNud hC
  have hnf := hfr.nudFrag
  -- (MC) for every suffix of `ts`
  have mc : ∀ ts1, ts1 <:+ ts → ∀ (k rbp : Nat) (lv : Level) (rest : Grammar) (lf : Sx) (r' : Sx × List Sx),
      G.drop k = lv :: rest → Thr G bps k rbp → HeadLe T ts1 (bps.getD k 0) →
      (PL T E rbp lf ts1 r' ↔ SC G E lv rest lf ts1 r') := by
    intro ts1 hs k rbp lv rest lf r' hk ht hh
    rcases suffix_eq_or_lt hs with rfl | hlt
    · exact MC_step hC IH hfr E k rbp lv rest lf r' hk ht hh
    · exact (IH ts1 hlt (hfr.suffix hs)).MC E k rbp lv rest lf r' hk ht hh
  have key : ∀ d k rbp left r, G.length - k = d → k ≤ G.length → Thr G bps k rbp →
      (PL T E rbp left ts r ↔ SClimb G E (G.drop k) left ts r) := by
    intro d
    induction d with
    | zero =>
      intro k rbp left r hd hkn hthr
      have hkeq : k = G.length := by omega
      rw [List.drop_eq_nil_of_le (by omega)]
      simp only [SClimb]
      apply PL_returns
      intro u r1 heq
      subst heq
      rcases classify hC u hfr.head with ⟨_, h0, _⟩ | ⟨j, act, _, hj, hb, _⟩
      · exact ⟨0, h0, Nat.zero_le _⟩
      · exact ⟨_, hb, hthr.1 j (by omega) hj⟩
    | succ d ih =>
      intro k rbp left r hd hkn hthr
      have hkl : k < G.length := by omega
      obtain ⟨lv, rest, hk⟩ := drop_of_lt hkl
      rw [hk]
      simp only [SClimb]
      have hle : rbp ≤ bps.getD k 0 := Nat.le_of_lt (hthr.2 k (Nat.le_refl _) hkl)
      rw [PL_decomp hcn hle hnf left r]
      have hin := fun lf r' => ih (k + 1) (bps.getD k 0) lf r' (by omega) (by omega) (thr_succ hC hkl)
      rw [drop_succ_of hk] at hin
      constructor
      · rintro ⟨y, ts1, h1, h2⟩
        have hs : ts1 <:+ ts := PL.suffix hnf h1
        have hh : HeadLe T ts1 (bps.getD k 0) := by
          intro t1 r1 heq; subst heq; exact PL.stop hnf h1
        exact ⟨y, ts1, (hin _ _).1 h1, (mc ts1 hs k rbp lv rest y r hk hthr hh).1 h2⟩
      · rintro ⟨y, ts1, h1, h2⟩
        have h1' := (hin _ _).2 h1
        have hs : ts1 <:+ ts := PL.suffix hnf h1'
        have hh : HeadLe T ts1 (bps.getD k 0) := by
          intro t1 r1 heq; subst heq; exact PL.stop hnf h1'
        exact ⟨y, ts1, h1', (mc ts1 hs k rbp lv rest y r hk hthr hh).2 h2⟩
  exact key (G.length - k) k rbp left r rfl hkn hthr

theorem prefixOf_suffix (t : Sx) : ∀ (lvls : Grammar) (out : String) (above : Grammar),
    prefixOf t lvls = some (out, above) → above <:+ lvls
  | [], _, _, h => by simp [prefixOf] at h
  | lv :: rest, out, above, h => by
    rw [prefixOf] at h
    split at h
    · simp only [Option.some.injEq, Prod.mk.injEq] at h
      rw [← h.2]; exact List.suffix_cons lv rest
    · exact (prefixOf_suffix t rest out above h).trans (List.suffix_cons lv rest)

include hC in
/-- (M): `Expression(rbp)` is the parse at the levels above `rbp` -/
theorem M_step {ts : List Sx} (IH : ∀ ts', wtList ts' < wtList ts → Frag T G ts' → Claims T G bps ts')
    (hfr : Frag T G ts) (E : Sx) (k rbp : Nat) (r : Sx × List Sx) (hkn : k ≤ G.length) (hthr : Thr G bps k rbp) :
    PE T E rbp ts r ↔ SS G E (G.drop k) ts r := by
  have hcn := Corr.colonNud hC
  rw [SS_iff_climb]
  cases ts with
  | nil =>
    rw [PE_nil]
    constructor
    · rintro rfl; exact ⟨E, [], SO_nil.2 rfl, (SClimb_nil _ _ _).2 rfl⟩
    · rintro ⟨x, ts1, h1, h2⟩
      have := SO_nil.1 h1
      simp only [Prod.mk.injEq] at this
      obtain ⟨rfl, rfl⟩ := this
      exact (SClimb_nil _ _ _).1 h2
  | cons t ts' =>
    have hnf := hfr.nudFrag
    have hfr' := hfr.tail
    have hwt' : wtList ts' < wtList (t :: ts') := by have := wt_pos t; simp only [wtList]; omega
    have hnud := hC.nud t hfr.head
    unfold nudCorr at hnud
    cases hp : prefixOf t G with
    | none =>
      rw [hp] at hnud
      have hn : nudOf T t = .atom := by simpa using hnud
      rw [PE_atom hn]
      have hml := fun r' => (IH ts' hwt' hfr').ML E k rbp t r' hkn hthr
      constructor
      · intro h; exact ⟨t, ts', (SO_atom hp).2 rfl, (hml _).1 h⟩
      · rintro ⟨x, ts1, h1, h2⟩
        have := (SO_atom hp).1 h1
        simp only [Prod.mk.injEq] at this
        obtain ⟨rfl, rfl⟩ := this
        exact (hml _).2 h2
    | some p =>
      obtain ⟨out, above⟩ := p
      rw [hp] at hnud
      simp only [List.any_eq_true, List.mem_range, Bool.and_eq_true, beq_iff_eq] at hnud
      obtain ⟨kp, hkp, hlen, hn⟩ := hnud
      have habove : G.drop (kp + 1) = above := by
        obtain ⟨pre, hpre⟩ := prefixOf_suffix t G out above hp
        have hl : pre.length = kp + 1 := by
          have := congrArg List.length hpre
          rw [List.length_append] at this; omega
        rw [← hpre, ← hl, List.drop_left]
      rw [PE_pre hcn hnf hn]
      have hM := fun r' => (IH ts' hwt' hfr').M E (kp + 1) (bps.getD kp 0) r' hkp (thr_succ hC hkp)
      rw [habove] at hM
      have ml : ∀ {x : Sx} {ts1 : List Sx}, PE T E (bps.getD kp 0) ts' (x, ts1) → ∀ lf r',
          (PL T E rbp lf ts1 r' ↔ SClimb G E (G.drop k) lf ts1 r') := by
        intro x ts1 hpe lf r'
        have hs : ts1 <:+ ts' := PE.suffix hfr'.nudFrag hpe
        exact (IH ts1 (by have := wtList_suffix hs; omega) (hfr'.suffix hs)).ML E k rbp lf r' hkn hthr
      constructor
      · rintro ⟨x, ts1, hpe, hpl⟩
        exact ⟨_, ts1, (SO_pre hp).2 ⟨x, ts1, (hM _).1 hpe, rfl⟩, (ml hpe _ _).1 hpl⟩
      · rintro ⟨x0, ts0, h1, h2⟩
        obtain ⟨x, ts1, hss, heq⟩ := (SO_pre hp).1 h1
        simp only [Prod.mk.injEq] at heq
        obtain ⟨rfl, rfl⟩ := heq
        have hpe := (hM _).2 hss
        exact ⟨x, ts0, hpe, (ml hpe _ _).2 h2⟩

include hC in
/-- **the simulation**, for every token list of the fragment -/
theorem claims_all : ∀ (N : Nat) (ts : List Sx), wtList ts ≤ N → Frag T G ts → Claims T G bps ts := by
  intro N
  induction N with
  | zero =>
    intro ts hw hfr
    have IH : ∀ ts', wtList ts' < wtList ts → Frag T G ts' → Claims T G bps ts' := fun ts' h _ => by omega
    exact ⟨fun E k rbp r h1 h2 => M_step hC IH hfr E k rbp r h1 h2,
      fun E k rbp lv rest left r h1 h2 h3 => MC_step hC IH hfr E k rbp lv rest left r h1 h2 h3,
      fun E k rbp left r h1 h2 => ML_step hC IH hfr E k rbp left r h1 h2⟩
  | succ N ih =>
    intro ts hw hfr
    have IH : ∀ ts', wtList ts' < wtList ts → Frag T G ts' → Claims T G bps ts' :=
      fun ts' h hf => ih ts' (by omega) hf
    exact ⟨fun E k rbp r h1 h2 => M_step hC IH hfr E k rbp r h1 h2,
      fun E k rbp lv rest left r h1 h2 h3 => MC_step hC IH hfr E k rbp lv rest left r h1 h2 h3,
      fun E k rbp left r h1 h2 => ML_step hC IH hfr E k rbp left r h1 h2⟩

include hC in
/-- **Pratt loop = stratified grammar** (one expression, with enough fuel on either side): for
every token list of the fragment and every result `r` (tree, unconsumed rest),
`Pratt.Expression(0)` returns `r` iff the stratified parser over `G` returns `r`. In particular
one of them fails (an error of a selector, or never returns) iff the other does. -/
theorem pratt_iff_strat (ts : List Sx) (hfr : Frag T G ts) (E : Sx) (r : Sx × List Sx) :
    PE T E 0 ts r ↔ SS G E G ts r := by
  have := (claims_all hC (wtList ts) ts (Nat.le_refl _) hfr).M E 0 0 r (Nat.zero_le _) (thr_zero hC)
  simpa using this

end Main

end ZygoVerif.Pratt
