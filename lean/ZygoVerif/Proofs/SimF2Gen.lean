/-
C02, execution half — F2: the generator on the fragment `Ff`.

`fn` and `defn` register a template (`allocTemplate`), compile the body, complete the template
(`finishTemplate`); everything else leaves the generator state alone. `compile` is total on the
fragment, its code is never empty, and the function table only grows (`KeepFns`).
-/
import ZygoVerif.Proofs.SimF2Env
set_option linter.unusedSimpArgs false
set_option linter.unusedVariables false
namespace ZygoVerif.Sim
open ZygoVerif.Core ZygoVerif.VM

/-! ## `fn`, `defn` -/

/-- the template `buildSexpFun` registers -/
def tmplOf (isFn : Nat → Bool) (gs : GS) (fname : String) (ps : List String) (rest : Option String) : FnObj :=
  { name := fname, nargs := ps.length, varargs := rest.isSome, params := ps ++ rest.toList, closing := newClosing isFn gs.live }

/-- the generator state after `allocTemplate` -/
def gsAlloc (isFn : Nat → Bool) (gs : GS) (fname : String) (ps : List String) (rest : Option String) : GS :=
  { gs with fns := gs.fns ++ [tmplOf isFn gs fname ps rest] }

/-- the template with its code -/
def finTmpl (g₂ : GS) (t : Nat) (b : List Instr) : FnObj :=
  { g₂.fns.getD t {} with code := [.addFuncScope t] ++ ((g₂.fns.getD t {}).params.map Instr.popStackPutEnv).reverse ++ b ++ [.removeScope, .ret] }

/-- the generator state after `finishTemplate` -/
def gsFin (g₂ : GS) (t : Nat) (b : List Instr) : GS := { g₂ with fns := g₂.fns.set t (finTmpl g₂ t b) }

/-- the context in which the body of `defn name` is compiled -/
def bodyCtx (c : Ctx) (gs : GS) (name : String) (ps : List String) (rest : Option String) (body : List Expr) : Ctx :=
  { tail := true, scopes := 0, funcname := if !rebindsOwnName name ps rest body then name else "", known := (name, gs.fns.length) :: c.known }

/-- the context in which the body of an anonymous function is compiled -/
def anonCtx (c : Ctx) (gs : GS) : Ctx :=
  { tail := true, scopes := 0, funcname := s!"__anon{gs.fns.length}", known := c.known }

theorem compile_defn_eq (isFn : Nat → Bool) (c : Ctx) (name : String) (ps : List String) (rest : Option String)
    (body : List Expr) (gs g₂ : GS) (b : List Instr) (tl : Bool) (hname : name ≠ "")
    (hb : (compileBegin isFn (bodyCtx c gs name ps rest body) body).run (gsAlloc isFn gs name ps rest) = .ok ((b, tl), g₂)) :
    (compile isFn c (.defn name ps rest body)).run gs =
      .ok (([.createClosure gs.fns.length, .popStackPutEnv name, .push .nil], c.tail), gsFin g₂ gs.fns.length b) := by
  rw [compile]
  have hemp : name.isEmpty = false := by
    simpa [String.isEmpty_iff] using hname
  unfold allocTemplate finishTemplate
  simp only [bind, StateT.bind, StateT.run, get, getThe, MonadStateOf.get, StateT.get, pure, Except.pure, Except.bind,
    set, StateT.set, StateT.pure, modify, modifyGet, MonadStateOf.modifyGet, StateT.modifyGet, hemp, Bool.false_eq_true,
    if_false]
  have hb' := hb
  unfold bodyCtx gsAlloc tmplOf at hb'
  simp only [StateT.run] at hb'
  rw [hb']
  rfl

theorem compile_fn_eq (isFn : Nat → Bool) (c : Ctx) (ps : List String) (rest : Option String) (body : List Expr) (gs g₂ : GS)
    (b : List Instr) (tl : Bool)
    (hb : (compileBegin isFn (anonCtx c gs) body).run (gsAlloc isFn gs s!"__anon{gs.fns.length}" ps rest) = .ok ((b, tl), g₂)) :
    (compile isFn c (.fn ps rest body)).run gs =
      .ok (([.createClosure gs.fns.length], c.tail), gsFin g₂ gs.fns.length b) := by
  rw [compile]
  have hemp : ("" : String).isEmpty = true := by decide
  unfold allocTemplate finishTemplate
  simp only [bind, StateT.bind, StateT.run, get, getThe, MonadStateOf.get, StateT.get, pure, Except.pure, Except.bind,
    set, StateT.set, StateT.pure, modify, modifyGet, MonadStateOf.modifyGet, StateT.modifyGet, hemp,
    if_true]
  have hb' := hb
  unfold anonCtx gsAlloc tmplOf at hb'
  simp only [StateT.run] at hb'
  rw [hb']
  rfl

theorem newClosing_single (isFn : Nat → Bool) : newClosing isFn [some 0] = [some 0] := by
  unfold newClosing
  simp only [newClosing.go]
  split <;> simp [newClosing.go]

/-- the completed template, when the body's compile kept the table -/
theorem finTmpl_eq (isFn : Nat → Bool) (gs g₂ : GS) (fname : String) (ps : List String) (rest : Option String) (b : List Instr)
    (hk : KeepFns (gsAlloc isFn gs fname ps rest) g₂) :
    finTmpl g₂ gs.fns.length b = { tmplOf isFn gs fname ps rest with code := fnCode gs.fns.length (ps ++ rest.toList) b } := by
  have h : g₂.fns.getD gs.fns.length {} = tmplOf isFn gs fname ps rest := by
    rw [hk.fns gs.fns.length (by simp [gsAlloc])]
    simp [gsAlloc, List.getD_eq_getElem?_getD]
  unfold finTmpl
  rw [h]
  rfl

theorem keepFns_fin (isFn : Nat → Bool) (gs g₂ : GS) (fname : String) (ps : List String) (rest : Option String) (b : List Instr)
    (hk : KeepFns (gsAlloc isFn gs fname ps rest) g₂) : KeepFns gs (gsFin g₂ gs.fns.length b) := by
  have hl : gs.fns.length + 1 ≤ g₂.fns.length := by have := hk.len; simpa [gsAlloc] using this
  refine ⟨by simp [gsFin]; omega, fun t ht => ?_, hk.live, hk.loopsLen, hk.loopsGet, hk.loopstack⟩
  simp only [gsFin, List.getD_eq_getElem?_getD]
  rw [List.getElem?_set_ne (by omega), ← List.getD_eq_getElem?_getD, hk.fns t (by simp [gsAlloc]; omega)]
  simp only [gsAlloc, List.getD_eq_getElem?_getD, List.getElem?_append_left ht]

theorem gsFin_getD_self (g₂ : GS) (t : Nat) (b : List Instr) (ht : t < g₂.fns.length) :
    (gsFin g₂ t b).fns.getD t {} = finTmpl g₂ t b := by
  simp [gsFin, List.getD_eq_getElem?_getD, List.getElem?_set_self ht]

theorem gsFin_getD_other (g₂ : GS) (t t' : Nat) (b : List Instr) (h : t' ≠ t) :
    (gsFin g₂ t b).fns.getD t' {} = g₂.fns.getD t' {} := by
  simp only [gsFin, List.getD_eq_getElem?_getD]
  rw [List.getElem?_set_ne (fun e => h e.symm)]

/-! ## `compile` on Ff: total, code never empty, the function table only grows -/

theorem ff_call_ne {self h : String} {c : Ctx} (hc : FnameOk self c)
    (h1 : (h != self) = true) (h2 : (h != "") = true) (h3 : okHead h = true) : (h == c.funcname) = false := by
  rcases hc with hc | hc | ⟨t, hc⟩ <;> rw [hc]
  · simpa using h1
  · simpa using h2
  · unfold okHead at h3
    simp only [Bool.and_eq_true, Bool.not_eq_true'] at h3
    exact ne_anon t h h3.2

theorem bodyCtx_funcname (c : Ctx) (gs : GS) (name : String) (ps : List String) (rest : Option String) (body : List Expr) :
    FnameOk name (bodyCtx c gs name ps rest body) := by
  unfold bodyCtx FnameOk
  simp only
  split
  · exact Or.inl rfl
  · exact Or.inr (Or.inl rfl)

theorem anonCtx_funcname (c : Ctx) (gs : GS) : FnameOk "" (anonCtx c gs) := Or.inr (Or.inr ⟨gs.fns.length, rfl⟩)

/-- what the totality statements give -/
abbrev TotF (fnOk : Bool) (gs gs' : GS) : Prop := KeepFns gs gs' ∧ (fnOk = false → gs'.fns = gs.fns)

theorem TotF.refl (fnOk : Bool) (gs : GS) : TotF fnOk gs gs := ⟨KeepFns.refl gs, fun _ => rfl⟩

theorem TotF.trans {fnOk : Bool} {a b c : GS} (h₁ : TotF fnOk a b) (h₂ : TotF fnOk b c) : TotF fnOk a c :=
  ⟨h₁.1.trans h₂.1, fun h => by rw [h₂.2 h, h₁.2 h]⟩

/-- a whole `for`: the record is pushed, the parts only append, the record is completed and popped -/
theorem KeepFns.for_ {gs g5 : GS} {c : Ctx} {label : Option String} {brk cont : Int} (h : KeepFns (forGs gs c label) g5) :
    KeepFns gs (forDone g5 gs.loops.length brk cont) := by
  have hl := h.loopsLen
  simp only [forGs, List.length_append, List.length_cons, List.length_nil] at hl
  refine ⟨h.len, h.fns, h.live, ?_, fun id hid => ?_, ?_⟩
  · show gs.loops.length ≤ (g5.loops.set _ _).length
    simp only [List.length_set]; omega
  · show (g5.loops.set gs.loops.length _).getD id {} = _
    have hne : gs.loops.length ≠ id := by omega
    rw [List.getD_eq_getElem?_getD, List.getElem?_set_ne hne, ← List.getD_eq_getElem?_getD,
      h.loopsGet id (by simp [forGs]; omega)]
    simp only [forGs, List.getD_eq_getElem?_getD, List.getElem?_append_left hid]
  · show g5.loopstack.drop 1 = gs.loopstack
    rw [h.loopstack]; rfl

/-- a call with a computed callee is one instruction; the callee is compiled when the instruction runs -/
theorem compile_call_nonsym (isFn : Nat → Bool) (c : Ctx) {f : Expr} (args : List Expr) (gs : GS) (hns : ∀ x, f ≠ .sym x) :
    (compile isFn c (.call f args)).run gs = .ok (([.callExpr f args], c.tail), gs) := by
  cases f with
  | sym x => exact absurd rfl (hns x)
  | _ => rw [compile] <;> first | rfl | (intro _ hh; cases hh)

mutual
theorem compile_total_Ff : ∀ (fnOk : Bool) (self : String) (e : Expr), Ff fnOk self e = true → ∀ isFn c gs,
    FnameOk self c → ∃ code t gs', (compile isFn c e).run gs = .ok ((code, t), gs') ∧ code ≠ [] ∧ TotF fnOk gs gs'
  | fnOk, _, .int v, _, isFn, c, gs, hfn => ⟨_, _, gs, by rw [compile]; rfl, by simp, TotF.refl _ _⟩
  | fnOk, _, .bool v, _, isFn, c, gs, hfn => ⟨_, _, gs, by rw [compile]; rfl, by simp, TotF.refl _ _⟩
  | fnOk, _, .str v, _, isFn, c, gs, hfn => ⟨_, _, gs, by rw [compile]; rfl, by simp, TotF.refl _ _⟩
  | fnOk, _, .nilLit, _, isFn, c, gs, hfn => ⟨_, _, gs, by rw [compile]; rfl, by simp, TotF.refl _ _⟩
  | fnOk, _, .sym x, _, isFn, c, gs, hfn => ⟨_, _, gs, by rw [compile]; rfl, by simp, TotF.refl _ _⟩
  | fnOk, self, .begin_ es, he, isFn, c, gs, hfn => by
    rw [Ff] at he
    cases es with
    | nil => exact ⟨[.push .nil], c.tail, gs, by rw [compile]; rfl, by simp, TotF.refl _ _⟩
    | cons e0 es0 =>
      rw [compile]
      · exact compileBegin_total_Ff fnOk self (e0 :: es0) (by simp) he isFn c gs hfn
      · intro hh; cases hh
  | fnOk, self, .def_ x e, he, isFn, c, gs, hfn => by
    rw [Ff] at he
    simp only [Bool.and_eq_true] at he
    obtain ⟨ce, t, g1, h1, _, hk⟩ := compile_total_Ff fnOk self e he.2 isFn { c with tail := false } gs hfn
    refine ⟨ce ++ [.dup, .popStackPutEnv x], false, g1, ?_, by simp, hk⟩
    rw [compile]
    simp only [g_bind_ok, g_pure_ok]
    exact ⟨_, _, h1, rfl⟩
  | fnOk, self, .set_ x e, he, isFn, c, gs, hfn => by
    rw [Ff] at he
    simp only [Bool.and_eq_true] at he
    obtain ⟨ce, t, g1, h1, _, hk⟩ := compile_total_Ff fnOk self e he.2 isFn { c with tail := false } gs hfn
    refine ⟨ce ++ [.dup, .update x], false, g1, ?_, by simp, hk⟩
    rw [compile]
    simp only [g_bind_ok, g_pure_ok]
    exact ⟨_, _, h1, rfl⟩
  | fnOk, self, .cond arms d, he, isFn, c, gs, hfn => by
    rw [Ff] at he
    simp only [Bool.and_eq_true] at he
    obtain ⟨dc, t, g1, hd, hdne, hk1⟩ := compile_total_Ff fnOk self d he.2 isFn c gs hfn
    obtain ⟨as, g2, has, hk2⟩ := compileArms_total_Ff fnOk self arms he.1 isFn c g1 hfn
    refine ⟨asmCond as dc, c.tail, g2, ?_, asmCond_ne_nil as dc hdne, hk1.trans hk2⟩
    rw [compile]
    simp only [g_bind_ok, g_pure_ok]
    exact ⟨_, _, hd, _, _, has, rfl⟩
  | fnOk, self, .and_ es, he, isFn, c, gs, hfn => by
    rw [Ff] at he
    obtain ⟨cs, g1, hcs, hne, hk⟩ := compileSC_total_Ff fnOk self es he isFn c gs hfn
    refine ⟨asmSC false cs, c.tail, g1, ?_, asmSC_ne_nil false cs hne, hk⟩
    rw [compile]
    simp only [g_bind_ok, g_pure_ok]
    exact ⟨_, _, hcs, rfl⟩
  | fnOk, self, .or_ es, he, isFn, c, gs, hfn => by
    rw [Ff] at he
    obtain ⟨cs, g1, hcs, hne, hk⟩ := compileSC_total_Ff fnOk self es he isFn c gs hfn
    refine ⟨asmSC true cs, c.tail, g1, ?_, asmSC_ne_nil true cs hne, hk⟩
    rw [compile]
    simp only [g_bind_ok, g_pure_ok]
    exact ⟨_, _, hcs, rfl⟩
  | fnOk, self, .newScope es, he, isFn, c, gs, hfn => by
    rw [Ff] at he
    simp only [Bool.and_eq_true, Bool.not_eq_true', List.isEmpty_eq_false_iff] at he
    obtain ⟨code, t, g1, h1, _, hk⟩ := compileNewScope_total_Ff fnOk self es he.1 he.2 isFn { c with scopes := c.scopes + 1 }
      c.tail gs hfn
    refine ⟨[.addScope] ++ code ++ [.removeScope], t, g1, ?_, by simp, hk⟩
    cases es with
    | nil => exact absurd rfl he.1
    | cons e es =>
      rw [compile]
      · simp only [g_bind_ok, g_pure_ok]
        exact ⟨_, _, h1, rfl⟩
      · intro hh; cases hh
  | fnOk, self, .let_ seq bs body, he, isFn, c, gs, hfn => by
    rw [Ff] at he
    simp only [Bool.and_eq_true, Bool.not_eq_true', List.isEmpty_eq_false_iff] at he
    obtain ⟨⟨⟨_, hbody⟩, hbs⟩, hbl⟩ := he
    obtain ⟨rhs, t1, g1, h1, hk1⟩ := compileBinds_total_Ff fnOk self bs hbs isFn { c with scopes := c.scopes + 1, tail := false }
      seq gs hfn
    obtain ⟨b, t2, g2, h2, _, hk2⟩ := compileBegin_total_Ff fnOk self body hbody hbl isFn { c with scopes := c.scopes + 1 } g1 hfn
    refine ⟨[.addScope] ++ rhs ++ (if seq then [] else (bs.map (fun p => Instr.popStackPutEnv p.1)).reverse)
      ++ b ++ [.removeScope], t2, g2, ?_, by simp, hk1.trans hk2⟩
    rw [compile]
    simp only [g_bind_ok, g_pure_ok]
    exact ⟨_, _, h1, _, _, h2, rfl⟩
  | fnOk, self, .arr es, he, isFn, c, gs, hfn => by
    rw [Ff] at he
    obtain ⟨code, t, g1, h1, hk⟩ := compileAll_total_Ff fnOk self es he isFn { c with tail := false } gs hfn
    refine ⟨code ++ [.callArr es.length], c.tail, g1, ?_, by simp, hk⟩
    rw [compile]
    simp only [g_bind_ok, g_pure_ok]
    exact ⟨_, _, h1, rfl⟩
  | fnOk, self, .for_ label init test incr body, he, isFn, c, gs, hfn => by
    rw [Ff] at he
    simp only [Bool.and_eq_true] at he
    obtain ⟨⟨⟨hi, ht⟩, hs⟩, hb⟩ := he
    obtain ⟨b, tb, g2, h2, hk2⟩ := compileBeginAny_total_Ff fnOk self body hb isFn { c with tail := false, scopes := c.scopes + 1 }
      (forGs gs c label) hfn
    obtain ⟨i, ti, g3, h3, _, hk3⟩ := compile_total_Ff fnOk self init hi isFn { c with tail := false, scopes := c.scopes + 1 } g2 hfn
    obtain ⟨t, tt, g4, h4, _, hk4⟩ := compile_total_Ff fnOk self test ht isFn { c with tail := false, scopes := c.scopes + 1 } g3 hfn
    obtain ⟨s, ts, g5, h5, _, hk5⟩ := compile_total_Ff fnOk self incr hs isFn { c with tail := false, scopes := c.scopes + 1 } g4 hfn
    refine ⟨forCode gs.loops.length i t s b, c.tail,
      forDone g5 gs.loops.length
        (asmFor gs.loops.length (i ++ [.popUntilMark gs.loops.length]) t
          (s ++ [.popUntilMark gs.loops.length]) (b ++ [.popUntilMark gs.loops.length])).2.1
        (asmFor gs.loops.length (i ++ [.popUntilMark gs.loops.length]) t
          (s ++ [.popUntilMark gs.loops.length]) (b ++ [.popUntilMark gs.loops.length])).2.2,
      ?_, by simp [forCode, asmFor], ?_, ?_⟩
    · rw [compile_for_eq, h2]
      simp only
      rw [h3]
      simp only
      rw [h4]
      simp only
      rw [h5]
    · exact KeepFns.for_ (((hk2.1.trans hk3.1).trans hk4.1).trans hk5.1)
    · intro h
      show g5.fns = gs.fns
      rw [hk5.2 h, hk4.2 h, hk3.2 h, hk2.2 h]; rfl
  | fnOk, self, .call f args, he, isFn, c, gs, hfn => by
    cases f with
    | sym h =>
      rw [Ff] at he
      simp only [Bool.and_eq_true] at he
      refine ⟨[.callExpr (.sym h) args], c.tail, gs, ?_, by simp, TotF.refl _ _⟩
      rw [compile]
      have hne := ff_call_ne hfn he.1.1.1 he.1.1.2 he.1.2
      simp only [hne, Bool.and_false, Bool.false_eq_true, if_false]
      rfl
    | _ => exact ⟨_, _, gs, compile_call_nonsym isFn c args gs (fun _ hh => by cases hh), by simp, TotF.refl _ _⟩
  | fnOk, self, .fn ps rest body, he, isFn, c, gs, hfn => by
    rw [Ff] at he
    simp only [Bool.and_eq_true, Option.isNone_iff_eq_none, decide_eq_true_eq, Bool.not_eq_true',
      List.isEmpty_eq_false_iff] at he
    obtain ⟨⟨⟨⟨⟨hfnok, hrest⟩, hnd⟩, hps⟩, hbody⟩, hff⟩ := he
    obtain ⟨b, tl, g2, hb, _, hk2⟩ := compileBegin_total_Ff true "" body hbody hff isFn (anonCtx c gs)
      (gsAlloc isFn gs s!"__anon{gs.fns.length}" ps rest) (anonCtx_funcname c gs)
    exact ⟨_, _, _, compile_fn_eq isFn c ps rest body gs g2 b tl hb, by simp,
      keepFns_fin isFn gs g2 _ ps rest b hk2.1, fun h => by rw [hfnok] at h; cases h⟩
  | fnOk, self, .defn name ps rest body, he, isFn, c, gs, hfn => by
    rw [Ff] at he
    simp only [Bool.and_eq_true, Option.isNone_iff_eq_none, bne_iff_ne, ne_eq, decide_eq_true_eq, Bool.not_eq_true',
      List.isEmpty_eq_false_iff] at he
    obtain ⟨⟨⟨⟨⟨⟨⟨hfnok, hrest⟩, hname⟩, hne⟩, hnd⟩, hps⟩, hbody⟩, hff⟩ := he
    obtain ⟨b, tl, g2, hb, _, hk2⟩ := compileBegin_total_Ff true name body hbody hff isFn (bodyCtx c gs name ps rest body)
      (gsAlloc isFn gs name ps rest) (bodyCtx_funcname c gs name ps rest body)
    exact ⟨_, _, _, compile_defn_eq isFn c name ps rest body gs g2 b tl hne hb, by simp,
      keepFns_fin isFn gs g2 _ ps rest b hk2.1, fun h => by rw [hfnok] at h; cases h⟩
  | _, _, .break_ _, he, _, _, _, _ | _, _, .continue_ _, he, _, _, _, _
  | _, _, .assign _ _, he, _, _, _, _ | _, _, .bad _, he, _, _, _, _ => by
    simp [Ff] at he
theorem compileBegin_total_Ff : ∀ (fnOk : Bool) (self : String) (es : List Expr), es ≠ [] → FfList fnOk self es = true →
    ∀ isFn c gs, FnameOk self c →
    ∃ code t gs', (compileBegin isFn c es).run gs = .ok ((code, t), gs') ∧ code ≠ [] ∧ TotF fnOk gs gs'
  | _, _, [], hne, _, _, _, _, _ => absurd rfl hne
  | fnOk, self, [e], _, he, isFn, c, gs, hfn => by
    rw [FfList] at he
    simp only [Bool.and_eq_true] at he
    rw [compileBegin]
    exact compile_total_Ff fnOk self e he.1 isFn c gs hfn
  | fnOk, self, e :: e' :: es, _, he, isFn, c, gs, hfn => by
    rw [FfList] at he
    simp only [Bool.and_eq_true] at he
    obtain ⟨a, ta, g1, ha, hane, hk1⟩ := compile_total_Ff fnOk self e he.1 isFn { c with tail := false } gs hfn
    obtain ⟨b, tb, g2, hb, _, hk2⟩ := compileBegin_total_Ff fnOk self (e' :: es) (by simp) he.2 isFn c g1 hfn
    refine ⟨a ++ (if a.isEmpty then [] else [.pop]) ++ b, tb, g2, ?_, by simp [hane], hk1.trans hk2⟩
    rw [compileBegin]
    · simp only [g_bind_ok, g_pure_ok]
      exact ⟨_, _, ha, _, _, hb, rfl⟩
    · intro hh; cases hh
/-- a statement list that may be empty (the body of a `for`) -/
theorem compileBeginAny_total_Ff : ∀ (fnOk : Bool) (self : String) (es : List Expr), FfList fnOk self es = true →
    ∀ isFn c gs, FnameOk self c →
    ∃ code t gs', (compileBegin isFn c es).run gs = .ok ((code, t), gs') ∧ TotF fnOk gs gs'
  | fnOk, _, [], _, isFn, c, gs, _ => ⟨[], false, gs, by rw [compileBegin]; rfl, TotF.refl _ _⟩
  | fnOk, self, e :: es, he, isFn, c, gs, hfn => by
    obtain ⟨code, t, g1, h1, _, hk⟩ := compileBegin_total_Ff fnOk self (e :: es) (by simp) he isFn c gs hfn
    exact ⟨code, t, g1, h1, hk⟩
theorem compileSC_total_Ff : ∀ (fnOk : Bool) (self : String) (es : List Expr), FfList fnOk self es = true → ∀ isFn c gs,
    FnameOk self c → ∃ cs gs', (compileSC isFn c es).run gs = .ok (cs, gs') ∧ (∀ x ∈ cs, x ≠ []) ∧ TotF fnOk gs gs'
  | fnOk, _, [], _, isFn, c, gs, hfn => ⟨[], gs, by rw [compileSC]; rfl, by simp, TotF.refl _ _⟩
  | fnOk, self, [e], he, isFn, c, gs, hfn => by
    rw [FfList] at he
    simp only [Bool.and_eq_true] at he
    obtain ⟨a, t, g1, ha, hane, hk⟩ := compile_total_Ff fnOk self e he.1 isFn c gs hfn
    refine ⟨[a], g1, ?_, by simpa using hane, hk⟩
    rw [compileSC]
    simp only [g_bind_ok, g_pure_ok]
    exact ⟨_, _, ha, rfl⟩
  | fnOk, self, e :: e' :: es, he, isFn, c, gs, hfn => by
    rw [FfList] at he
    simp only [Bool.and_eq_true] at he
    obtain ⟨b, g1, hb, hbne, hk1⟩ := compileSC_total_Ff fnOk self (e' :: es) he.2 isFn c gs hfn
    obtain ⟨a, t, g2, ha, hane, hk2⟩ := compile_total_Ff fnOk self e he.1 isFn { c with tail := false } g1 hfn
    refine ⟨a :: b, g2, ?_, ?_, hk1.trans hk2⟩
    · rw [compileSC]
      · simp only [g_bind_ok, g_pure_ok]
        exact ⟨_, _, hb, _, _, ha, rfl⟩
      · intro hh; cases hh
    · intro x hx
      rcases List.mem_cons.mp hx with rfl | hx
      · exact hane
      · exact hbne x hx
theorem compileNewScope_total_Ff : ∀ (fnOk : Bool) (self : String) (es : List Expr), es ≠ [] → FfList fnOk self es = true →
    ∀ isFn c oldtail gs, FnameOk self c →
    ∃ code t gs', (compileNewScope isFn c oldtail es).run gs = .ok ((code, t), gs') ∧ code ≠ [] ∧ TotF fnOk gs gs'
  | _, _, [], hne, _, _, _, _, _, _ => absurd rfl hne
  | fnOk, self, [e], _, he, isFn, c, oldtail, gs, hfn => by
    rw [FfList] at he
    simp only [Bool.and_eq_true] at he
    rw [compileNewScope]
    exact compile_total_Ff fnOk self e he.1 isFn _ gs hfn
  | fnOk, self, e :: e' :: es, _, he, isFn, c, oldtail, gs, hfn => by
    rw [FfList] at he
    simp only [Bool.and_eq_true] at he
    obtain ⟨a, ta, g1, ha, hane, hk1⟩ := compile_total_Ff fnOk self e he.1 isFn { c with tail := false } gs hfn
    obtain ⟨b, tb, g2, hb, _, hk2⟩ := compileNewScope_total_Ff fnOk self (e' :: es) (by simp) he.2 isFn c oldtail g1 hfn
    refine ⟨a ++ [.pop] ++ b, tb, g2, ?_, by simp, hk1.trans hk2⟩
    rw [compileNewScope]
    · simp only [g_bind_ok, g_pure_ok]
      exact ⟨_, _, ha, _, _, hb, rfl⟩
    · intro hh; cases hh
theorem compileBinds_total_Ff : ∀ (fnOk : Bool) (self : String) (bs : List (String × Expr)), FfBinds fnOk self bs = true →
    ∀ isFn c seq gs, FnameOk self c →
    ∃ code t gs', (compileBinds isFn c seq bs).run gs = .ok ((code, t), gs') ∧ TotF fnOk gs gs'
  | fnOk, _, [], _, isFn, c, seq, gs, hfn => ⟨[], c.tail, gs, by rw [compileBinds]; rfl, TotF.refl _ _⟩
  | fnOk, self, (x, e) :: bs, he, isFn, c, seq, gs, hfn => by
    rw [FfBinds] at he
    simp only [Bool.and_eq_true] at he
    obtain ⟨a, ta, g1, ha, _, hk1⟩ := compile_total_Ff fnOk self e he.1.2 isFn c gs hfn
    obtain ⟨b, tb, g2, hb, hk2⟩ := compileBinds_total_Ff fnOk self bs he.2 isFn { c with tail := ta } seq g1 hfn
    refine ⟨a ++ (if seq then [.popStackPutEnv x] else []) ++ b, tb, g2, ?_, hk1.trans hk2⟩
    rw [compileBinds]
    simp only [g_bind_ok, g_pure_ok]
    exact ⟨_, _, ha, _, _, hb, rfl⟩
theorem compileAll_total_Ff : ∀ (fnOk : Bool) (self : String) (es : List Expr), FfList fnOk self es = true →
    ∀ isFn c gs, FnameOk self c →
    ∃ code t gs', (compileAll isFn c es).run gs = .ok ((code, t), gs') ∧ TotF fnOk gs gs'
  | fnOk, _, [], _, isFn, c, gs, hfn => ⟨[], c.tail, gs, by rw [compileAll]; rfl, TotF.refl _ _⟩
  | fnOk, self, e :: es, he, isFn, c, gs, hfn => by
    rw [FfList] at he
    simp only [Bool.and_eq_true] at he
    obtain ⟨a, ta, g1, ha, _, hk1⟩ := compile_total_Ff fnOk self e he.1 isFn c gs hfn
    obtain ⟨b, tb, g2, hb, hk2⟩ := compileAll_total_Ff fnOk self es he.2 isFn { c with tail := ta } g1 hfn
    refine ⟨a ++ b, tb, g2, ?_, hk1.trans hk2⟩
    rw [compileAll]
    simp only [g_bind_ok, g_pure_ok]
    exact ⟨_, _, ha, _, _, hb, rfl⟩
theorem compileArms_total_Ff : ∀ (fnOk : Bool) (self : String) (arms : List (Expr × Expr)), FfArms fnOk self arms = true →
    ∀ isFn c gs, FnameOk self c →
    ∃ as gs', (compileArms isFn c arms).run gs = .ok (as, gs') ∧ TotF fnOk gs gs'
  | fnOk, _, [], _, isFn, c, gs, hfn => ⟨[], gs, by rw [compileArms]; rfl, TotF.refl _ _⟩
  | fnOk, self, (p, b) :: arms, he, isFn, c, gs, hfn => by
    rw [FfArms] at he
    simp only [Bool.and_eq_true] at he
    obtain ⟨r, g1, hr, hk1⟩ := compileArms_total_Ff fnOk self arms he.2 isFn c gs hfn
    obtain ⟨pc, _, g2, hp, _, hk2⟩ := compile_total_Ff fnOk self p he.1.1 isFn { c with tail := false } g1 hfn
    obtain ⟨bc, _, g3, hb, _, hk3⟩ := compile_total_Ff fnOk self b he.1.2 isFn c g2 hfn
    refine ⟨(pc, bc) :: r, g3, ?_, (hk1.trans hk2).trans hk3⟩
    rw [compileArms]
    simp only [g_bind_ok, g_pure_ok]
    exact ⟨_, _, hr, _, _, hp, _, _, hb, rfl⟩
end

theorem compile_ne_nil_Ff {fnOk : Bool} {self : String} {e : Expr} (he : Ff fnOk self e = true) {isFn c gs r}
    (h : (compile isFn c e).run gs = .ok r) (hfn : FnameOk self c) : r.1.1 ≠ [] := by
  obtain ⟨code, t, g1, h1, hne, _⟩ := compile_total_Ff fnOk self e he isFn c gs hfn
  rw [h1] at h
  injection h with h
  subst h
  exact hne

/-- the generator state a compile leaves, by determinism -/
theorem compile_keep_Ff {fnOk : Bool} {self : String} {e : Expr} (he : Ff fnOk self e = true) {isFn c gs r}
    (h : (compile isFn c e).run gs = .ok r) (hfn : FnameOk self c) : TotF fnOk gs r.2 := by
  obtain ⟨code, t, g1, h1, _, hk⟩ := compile_total_Ff fnOk self e he isFn c gs hfn
  rw [h1] at h
  injection h with h
  subst h
  exact hk

theorem compileBegin_keep_Ff {fnOk : Bool} {self : String} {es : List Expr} (hne : es ≠ []) (he : FfList fnOk self es = true)
    {isFn c gs r} (h : (compileBegin isFn c es).run gs = .ok r) (hfn : FnameOk self c) : TotF fnOk gs r.2 := by
  obtain ⟨code, t, g1, h1, _, hk⟩ := compileBegin_total_Ff fnOk self es hne he isFn c gs hfn
  rw [h1] at h
  injection h with h
  subst h
  exact hk

theorem compileArms_keep_Ff {fnOk : Bool} {self : String} {arms : List (Expr × Expr)} (he : FfArms fnOk self arms = true)
    {isFn c gs r} (h : (compileArms isFn c arms).run gs = .ok r) (hfn : FnameOk self c) : TotF fnOk gs r.2 := by
  obtain ⟨as, g1, h1, hk⟩ := compileArms_total_Ff fnOk self arms he isFn c gs hfn
  rw [h1] at h
  injection h with h
  subst h
  exact hk

theorem compileSC_keep_Ff {fnOk : Bool} {self : String} {es : List Expr} (he : FfList fnOk self es = true)
    {isFn c gs r} (h : (compileSC isFn c es).run gs = .ok r) (hfn : FnameOk self c) : TotF fnOk gs r.2 := by
  obtain ⟨cs, g1, h1, _, hk⟩ := compileSC_total_Ff fnOk self es he isFn c gs hfn
  rw [h1] at h
  injection h with h
  subst h
  exact hk

theorem compileNewScope_keep_Ff {fnOk : Bool} {self : String} {es : List Expr} (hne : es ≠ []) (he : FfList fnOk self es = true)
    {isFn c oldtail gs r} (h : (compileNewScope isFn c oldtail es).run gs = .ok r) (hfn : FnameOk self c) :
    TotF fnOk gs r.2 := by
  obtain ⟨code, t, g1, h1, _, hk⟩ := compileNewScope_total_Ff fnOk self es hne he isFn c oldtail gs hfn
  rw [h1] at h
  injection h with h
  subst h
  exact hk

theorem compileBinds_keep_Ff {fnOk : Bool} {self : String} {bs : List (String × Expr)} (he : FfBinds fnOk self bs = true)
    {isFn c seq gs r} (h : (compileBinds isFn c seq bs).run gs = .ok r) (hfn : FnameOk self c) : TotF fnOk gs r.2 := by
  obtain ⟨code, t, g1, h1, hk⟩ := compileBinds_total_Ff fnOk self bs he isFn c seq gs hfn
  rw [h1] at h
  injection h with h
  subst h
  exact hk

theorem compileAll_keep_Ff {fnOk : Bool} {self : String} {es : List Expr} (he : FfList fnOk self es = true)
    {isFn c gs r} (h : (compileAll isFn c es).run gs = .ok r) (hfn : FnameOk self c) : TotF fnOk gs r.2 := by
  obtain ⟨code, t, g1, h1, hk⟩ := compileAll_total_Ff fnOk self es he isFn c gs hfn
  rw [h1] at h
  injection h with h
  subst h
  exact hk

theorem compileBeginAny_keep_Ff {fnOk : Bool} {self : String} {es : List Expr} (he : FfList fnOk self es = true)
    {isFn c gs r} (h : (compileBegin isFn c es).run gs = .ok r) (hfn : FnameOk self c) : TotF fnOk gs r.2 := by
  obtain ⟨code, t, g1, h1, hk⟩ := compileBeginAny_total_Ff fnOk self es he isFn c gs hfn
  rw [h1] at h
  injection h with h
  subst h
  exact hk

def tailCode (h : String) (sc : Nat) (args : List Expr) (code : List Instr) : List Instr :=
  [.tailGuard h (code.length + sc + 4)] ++ code ++ [.prepareCall h args.length] ++ List.replicate (sc + 1) .removeScope
    ++ [.goto 0, .callExpr (.sym h) args]

def knownFn (c : Ctx) (gs : GS) (h : String) : Option FnObj := (c.known.lookup h).bind (fun t => gs.fns[t]?)

def arityOk (f : Option FnObj) (n : Nat) : Bool :=
  match f with
  | some fo => if fo.varargs then decide (fo.nargs ≤ n) else n == fo.nargs
  | none => true

theorem compile_call_eq (isFn : Nat → Bool) (c : Ctx) (h : String) (args : List Expr) (gs : GS) :
    (compile isFn c (.call (.sym h) args)).run gs =
      if (c.tail && h == c.funcname) = true ∧ arityOk (knownFn c gs h) args.length = true then
        (match (compileCallArgs isFn { c with tail := false } (knownFn c gs h) 0 args).run gs with
         | .ok (code, gs') => .ok ((tailCode h c.scopes args code, c.tail), gs')
         | .error e => .error e)
      else .ok (([.callExpr (.sym h) args], c.tail), gs) := by
  rw [compile]
  by_cases h1 : (c.tail && h == c.funcname) = true
  · simp only [h1, if_true, true_and]
    simp only [bind, StateT.bind, StateT.run, get, getThe, MonadStateOf.get, StateT.get, pure, Except.pure, Except.bind,
      StateT.pure]
    unfold knownFn
    generalize (List.lookup h c.known).bind (fun t => gs.fns[t]?) = f
    have key : (StateT.bind (compileCallArgs isFn { c with tail := false } f 0 args)
          (fun code => StateT.pure ([Instr.tailGuard h (code.length + c.scopes + 4)] ++ code ++ [Instr.prepareCall h args.length] ++
                  List.replicate (c.scopes + 1) Instr.removeScope ++ [Instr.goto 0, Instr.callExpr (Expr.sym h) args], c.tail))) gs
        = (match compileCallArgs isFn { c with tail := false } f 0 args gs with
             | .ok (code, gs') => .ok ((tailCode h c.scopes args code, c.tail), gs')
             | .error e => .error e) := by
      unfold StateT.bind tailCode
      cases compileCallArgs isFn { c with tail := false } f 0 args gs with
      | ok v => rfl
      | error e => rfl
    have push : ∀ (b : Bool) (F G : GS → Except Unit ((List Instr × Bool) × GS)),
        (if b = true then F else G) gs = if b = true then F gs else G gs := by
      intro b F G; cases b <;> rfl
    rw [push, key]
    cases f with
    | none => rfl
    | some fo => rfl
  · simp only [h1, false_and, if_false]
    rfl


/-- inside a `for`: the records completed so far (the loop's own record is still open) -/
theorem LoopsFinal.for_body {gs g2 g5 : GS} {c : Ctx} {label : Option String} {b k : Int} {s : St}
    (h : LoopsFinal (forDone g5 gs.loops.length b k) s) (h1 : KeepFns (forGs gs c label) g2) (h2 : KeepFns g2 g5) :
    LoopsFinal g2 s := by
  have hl5 : (forDone g5 gs.loops.length b k).loops.length = g5.loops.length := by simp [forDone]
  have hst2 : g2.loopstack = gs.loops.length :: gs.loopstack := h1.loopstack
  have hst5 : (forDone g5 gs.loops.length b k).loopstack = gs.loopstack := by
    show g5.loopstack.drop 1 = _
    rw [h2.loopstack, hst2]; rfl
  refine ⟨Nat.le_trans h2.loopsLen (hl5 ▸ h.1), fun id hid hns => ?_⟩
  rw [hst2] at hns
  have hne : gs.loops.length ≠ id := fun e => hns (e ▸ List.mem_cons_self ..)
  rw [h.2 id (by rw [hl5]; exact Nat.lt_of_lt_of_le hid h2.loopsLen)
    (by rw [hst5]; exact fun hm => hns (List.mem_cons_of_mem _ hm))]
  show (g5.loops.set gs.loops.length _).getD id {} = _
  rw [List.getD_eq_getElem?_getD, List.getElem?_set_ne hne, ← List.getD_eq_getElem?_getD]
  exact h2.loopsGet id hid

/-! ## Self tail calls: the generator on tail positions (`Fz`) -/

/-- an operand compiled inline -/
theorem compileCallArgs_cons_run {isFn : Nat → Bool} {c : Ctx} {f : Option FnObj} {i : Nat} {e : Expr} {es : List Expr}
    {gs : GS} {r : List Instr × GS} (hl : ∀ fo, f = some fo → fo.isLazyCallArg i = false) :
    (compileCallArgs isFn c f i (e :: es)).run gs = .ok r ↔
      ∃ ra g1 rb, (compile isFn c e).run gs = .ok (ra, g1) ∧ (compileCallArgs isFn c f (i + 1) es).run g1 = .ok (rb, r.2)
        ∧ r.1 = ra.1 ++ rb := by
  rw [compileCallArgs.eq_def]
  have key : (do let a ← (do let (a, _) ← compile isFn c e; pure a : G (List Instr))
                 let b ← compileCallArgs isFn c f (i + 1) es
                 pure (a ++ b) : G (List Instr)).run gs = .ok r ↔
      ∃ ra g1 rb, (compile isFn c e).run gs = .ok (ra, g1) ∧ (compileCallArgs isFn c f (i + 1) es).run g1 = .ok (rb, r.2)
        ∧ r.1 = ra.1 ++ rb := by
    simp only [g_bind_ok, g_pure_ok]
    constructor
    · rintro ⟨a, g1, ⟨ra, g1', h1, h2⟩, b, g2, h3, h4⟩
      obtain ⟨rfl, rfl⟩ := Prod.mk.inj h2
      subst h4
      exact ⟨ra, _, b, h1, h3, rfl⟩
    · rintro ⟨ra, g1, rb, h1, h2, h3⟩
      exact ⟨ra.1, g1, ⟨ra, g1, h1, rfl⟩, rb, r.2, h2, by rw [← h3]⟩
  cases f with
  | none => simpa using key
  | some fo =>
    have := hl fo rfl
    simpa [this] using key

/-- an operand in a lazy position: only the instruction that makes the lazy argument object -/
theorem compileCallArgs_cons_lazy {isFn : Nat → Bool} {c : Ctx} {fo : FnObj} {i : Nat} {e : Expr} {es : List Expr}
    {gs : GS} {r : List Instr × GS} (hl : fo.isLazyCallArg i = true) :
    (compileCallArgs isFn c (some fo) i (e :: es)).run gs = .ok r ↔
      ∃ rb, (compileCallArgs isFn c (some fo) (i + 1) es).run gs = .ok (rb, r.2) ∧ r.1 = [.pushLazy e] ++ rb := by
  rw [compileCallArgs.eq_def]
  simp only [hl, if_true, g_bind_ok, g_pure_ok]
  constructor
  · rintro ⟨a, g1, h1, b, g2, h3, h4⟩
    obtain ⟨rfl, rfl⟩ := Prod.mk.inj h1
    subst h4
    exact ⟨b, h3, rfl⟩
  · rintro ⟨rb, h2, h3⟩
    exact ⟨_, _, rfl, rb, r.2, h2, by rw [← h3]⟩

theorem compileCallArgs_total : ∀ (self : String) (args : List Expr), FfList false self args = true →
    ∀ isFn c f i gs, FnameOk self c → ∃ code gs', (compileCallArgs isFn c f i args).run gs = .ok (code, gs') ∧ KeepFns gs gs'
  | _, [], _, isFn, c, f, i, gs, _ => ⟨[], gs, by rw [compileCallArgs.eq_def]; rfl, KeepFns.refl _⟩
  | self, e :: es, he, isFn, c, f, i, gs, hfn => by
    rw [FfList] at he
    simp only [Bool.and_eq_true] at he
    obtain ⟨a, t, g1, ha, _, hk1⟩ := compile_total_Ff false self e he.1 isFn c gs hfn
    have key : ∀ (b : Bool), ∃ code gs', (do
          let a ← (if b = true then pure [Instr.pushLazy e] else (do let (a, _) ← compile isFn c e; pure a) : G (List Instr))
          let r ← compileCallArgs isFn c f (i + 1) es
          pure (a ++ r) : G (List Instr)).run gs = .ok (code, gs') ∧ KeepFns gs gs' := by
      intro b
      cases b
      · obtain ⟨r, g2, hr, hk2⟩ := compileCallArgs_total self es he.2 isFn c f (i + 1) g1 hfn
        refine ⟨a ++ r, g2, ?_, hk1.1.trans hk2⟩
        simp only [Bool.false_eq_true, if_false, g_bind_ok, g_pure_ok]
        exact ⟨_, _, ⟨_, _, ha, rfl⟩, _, _, hr, rfl⟩
      · obtain ⟨r, g2, hr, hk2⟩ := compileCallArgs_total self es he.2 isFn c f (i + 1) gs hfn
        refine ⟨[.pushLazy e] ++ r, g2, ?_, hk2⟩
        simp only [if_true, g_bind_ok, g_pure_ok]
        exact ⟨_, _, rfl, _, _, hr, rfl⟩
    rw [compileCallArgs.eq_def]
    exact key _

theorem tailCode_ne_nil (h : String) (sc : Nat) (args : List Expr) (code : List Instr) : tailCode h sc args code ≠ [] := by
  simp [tailCode]

/-- a call in tail position: an ordinary call, or (own name, right arity) the tail sequence -/
theorem compile_total_call {self h : String} {args : List Expr} (hh : (h != "") = true) (hhead : okHead h = true)
    (hself : (h != self) = true ∨ FfList false self args = true) (isFn : Nat → Bool) (c : Ctx) (gs : GS) (hfn : FnameOk self c) :
    ∃ code gs', (compile isFn c (.call (.sym h) args)).run gs = .ok ((code, c.tail), gs') ∧ code ≠ [] ∧ KeepFns gs gs' := by
  rw [compile_call_eq]
  by_cases hc : (c.tail && h == c.funcname) = true ∧ arityOk (knownFn c gs h) args.length = true
  · rw [if_pos hc]
    have hhc : h = c.funcname := by have := hc.1; simp only [Bool.and_eq_true, beq_iff_eq] at this; exact this.2
    have hargs : FfList false self args = true := by
      rcases hself with hne | ha
      · have := ff_call_ne hfn hne hh hhead
        rw [← hhc] at this; simp at this
      · exact ha
    have hfn' : FnameOk self { c with tail := false } := hfn
    obtain ⟨code, g1, hcode, hk⟩ := compileCallArgs_total self args hargs isFn { c with tail := false } (knownFn c gs h) 0 gs hfn'
    refine ⟨tailCode h c.scopes args code, g1, ?_, tailCode_ne_nil _ _ _ _, hk⟩
    have : (compileCallArgs isFn { c with tail := false } (knownFn c gs h) 0 args).run gs = .ok (code, g1) := hcode
    rw [this]
  · rw [if_neg hc]
    exact ⟨_, gs, rfl, by simp, KeepFns.refl _⟩

/-! ## What the generator knows about the function being compiled -/

theorem knownOk_bodyCtx (isFn : Nat → Bool) (c : Ctx) (gs : GS) (name : String) (ps : List String) (rest : Option String)
    (body : List Expr) : KnownOk (bodyCtx c gs name ps rest body) (gsAlloc isFn gs name ps rest) ps rest := by
  intro hne
  right
  have hf : (bodyCtx c gs name ps rest body).funcname = name := by
    unfold bodyCtx at hne ⊢
    simp only at hne ⊢
    split
    · rfl
    · rename_i h; rw [if_neg h] at hne; exact absurd rfl hne
  rw [hf]
  refine ⟨gs.fns.length, by simp [bodyCtx, List.lookup], by simp [gsAlloc], ?_, ?_, ?_⟩ <;>
    simp [gsAlloc, tmplOf, List.getD_eq_getElem?_getD]

theorem knownOk_anonCtx (c : Ctx) (gs gs0 : GS) (ps : List String) (rest : Option String) :
    KnownOk (anonCtx c gs) gs0 ps rest :=
  fun _ => Or.inl ⟨gs.fns.length, rfl⟩


end ZygoVerif.Sim
