/-
Proofs/RunErr.lean — the calling contract on the ERROR path, part 1: the non-call instructions.

`RunInv.allSpec'` speaks about normal returns. Here: whatever the outcome (`ok`, `err`, host
panic) of ONE non-call instruction fetched by a `Running` loop, the state it leaves still has
the stacks the current run was started on underneath (`Above`): what the verifier's annotation
says about the instruction's operands (`needD ≤` the activation's own cells, `needL ≤` the
scopes it opened, `ret` pops the activation's own return address) is exactly the room
`Contain.Eff.frame` asks for; and when it fails, the tables (functions, scopes, heap, lazy
objects, loop records) are those it found (`exec_simple_fail_tab`).
-/
import ZygoVerif.Proofs.RunMain
import ZygoVerif.Proofs.ContainFrame
import ZygoVerif.Proofs.ContainExact
import ZygoVerif.Proofs.C01VM

namespace ZygoVerif.RunInv
open ZygoVerif.Core ZygoVerif.VM ZygoVerif.Bal ZygoVerif.Refine ZygoVerif.Sim ZygoVerif.Contain

/-! ## Room above the base, read off the annotation -/

/-- scopes: an instruction pops at most the scopes its activation opened -/
theorem Running.roomL {b : Base} {s : St} {top : Act} {rest : List Act} (h : Running b s top rest) {i : Instr}
    (hf : (fnOf s s.curfunc).code[s.pc.toNat]? = some i)
    (hfind : ∀ l n, (i = .brk l n ∨ i = .cont l n) → findLoopStart (fnOf s s.curfunc).code l ≠ none) :
    b.linear.length + needL i ≤ s.linear.length := by
  obtain ⟨a, own, succs, _, _, hsc, hs⟩ := h.astep hf
  have hdep := Chain.depth _ _ _ _ h.chain
  have hpos : ∀ l, loopPos (fnB s top.f).code l = findLoopStart (fnOf s s.curfunc).code l := by
    intro l
    show loopPos (B s.loops (fnOf s top.f).code) l = _
    rw [loopPos_B, h.cur]
  cases i with
  | removeScope =>
    simp only [Bal.astep, toB, eff] at hs
    split at hs
    · simp only [needL]; omega
    · cases hs
  | brk l n =>
    have hne := hfind l n (Or.inl rfl)
    simp only [Bal.astep, toB, eff, hpos] at hs
    split at hs
    · rename_i hnone; exact absurd hnone hne
    · split at hs
      · split at hs
        · simp only [needL]; omega
        · cases hs
      · cases hs
  | cont l n =>
    have hne := hfind l n (Or.inr rfl)
    simp only [Bal.astep, toB, eff, hpos] at hs
    split at hs
    · rename_i hnone; exact absurd hnone hne
    · split at hs
      · split at hs
        · simp only [needL]; omega
        · cases hs
      · cases hs
  | _ => simp only [needL]; omega

/-- `break`/`continue` of a loop that is not in the running function: a run-time error that pops nothing -/
theorem exec_exit_none (n : Nat) (s : St) (i : Instr) (l k : Nat) (hi : i = .brk l k ∨ i = .cont l k)
    (hnone : findLoopStart (fnOf s s.curfunc).code l = none) : ((exec (n + 1) i).run s).2 = s := by
  rcases hi with rfl | rfl <;> simp only [exec, run_bind, run_get, hnone, run_err]

/-- **Scopes, return addresses, set-aside stacks after one non-call instruction, whatever its
outcome**: the scope stack the run was started on is still underneath, as a list; so are the
return addresses below the bottom activation; the set-aside stacks are untouched. -/
theorem exec_simple_above_la {b : Base} {s : St} {top : Act} {rest : List Act} (hr : Running b s top rest) {i : Instr}
    (hf : (fnOf s s.curfunc).code[s.pc.toNat]? = some i) (hs : simple i = true) (n : Nat) :
    b.linear <:+ ((exec (n + 1) i).run s).2.linear ∧ ((exec (n + 1) i).run s).2.suspended = s.suspended ∧
      ((exec (n + 1) i).run s).2.loopstack = s.loopstack ∧ (b.main = false → b.addr <:+ ((exec (n + 1) i).run s).2.addr) := by
  by_cases hfind : ∀ l k, (i = .brk l k ∨ i = .cont l k) → findLoopStart (fnOf s s.curfunc).code l ≠ none
  · have he := exec_simple_eff n i s hs
    refine ⟨he.linear.frame hr.lin (hr.roomL hf hfind), he.susp, he.loopstack, fun hm => ?_⟩
    obtain ⟨h1, h2⟩ := Chain.addr_suffix _ _ _ _ hr.chain hm
    refine he.addr.frame h1 ?_
    have : needA i ≤ 1 := by cases i <;> simp [needA]
    omega
  · have : ∃ l k, (i = .brk l k ∨ i = .cont l k) ∧ findLoopStart (fnOf s s.curfunc).code l = none := by
      apply Classical.byContradiction
      intro hne
      apply hfind
      intro l k hi hnone
      exact hne ⟨l, k, hi, hnone⟩
    obtain ⟨l, k, hi, hnone⟩ := this
    rw [exec_exit_none n s i l k hi hnone]
    exact ⟨hr.lin, rfl, rfl, fun hm => (Chain.addr_suffix _ _ _ _ hr.chain hm).1⟩

/-! ## Operands -/

theorem markNeed_le (l : Nat) : ∀ (data : List (Option Val)) (own D : List Cell),
    data.map cellOf = own ++ D → Cell.mark l ∈ own → markNeed l data ≤ own.length
  | [], _, _, _, _ => by simp [markNeed]
  | c :: rest, [], _, _, hm => by cases hm
  | c :: rest, o :: own', D, hd, hm => by
    simp only [List.map_cons, List.cons_append, List.cons.injEq] at hd
    obtain ⟨ho, hrest⟩ := hd
    have ih := markNeed_le l rest own' D hrest
    cases c with
    | none => simp [markNeed]
    | some v =>
      cases v with
      | mark l' =>
        simp only [markNeed]
        split
        · simp
        · rename_i hne
          have : Cell.mark l ∈ own' := by
            rcases List.mem_cons.mp hm with h | h
            · rw [← ho] at h; simp only [cellOf, Cell.mark.injEq] at h; exact absurd h.symm hne
            · exact h
          have := ih this
          simp only [List.length_cons]; omega
      | _ =>
        simp only [markNeed]
        have : Cell.mark l ∈ own' := by
          rcases List.mem_cons.mp hm with h | h
          · rw [← ho] at h; simp [cellOf] at h
          · exact h
        have := ih this
        simp only [List.length_cons]; omega

theorem conc_mark_mem (l : Nat) : ∀ (fs : List Frame) (n : Nat) (own : List Cell), Conc fs n own →
    ∀ pre fr rest, cutTo l fs = some (pre, fr, rest) → Cell.mark l ∈ own := by
  intro fs n own hc
  induction hc with
  | base n => intro pre fr rest h; simp [cutTo] at h
  | frame fr rest n above below _ _ ih =>
    intro pre fr' rest' h
    simp only [cutTo] at h
    split at h
    · rename_i hk
      apply List.mem_append_right
      rw [hk]
      exact List.mem_cons_self
    · split at h
      · cases h
      · rename_i p f r heq
        apply List.mem_append_right
        exact List.mem_cons_of_mem _ (ih p f r heq)

theorem conc_nil {fs : List Frame} {n : Nat} (h : Conc fs n []) : fs = [] ∧ n = 0 := by
  generalize ho : ([] : List Cell) = own at h
  cases h with
  | base n =>
    cases n with
    | zero => exact ⟨rfl, rfl⟩
    | succ m => simp [List.replicate] at ho
  | frame fr rest n above below _ _ => simp at ho

/-- operands: an instruction takes at most the cells its activation put on the data stack -/
theorem Running.roomD {b : Base} {s : St} {top : Act} {rest : List Act} (h : Running b s top rest) {i : Instr}
    (hf : (fnOf s s.curfunc).code[s.pc.toNat]? = some i) (hsi : simple i = true) :
    b.data.length + needD i s ≤ s.data.length := by
  obtain ⟨a, own, succs, hd, hconc, _, hs⟩ := h.astep hf
  have hdl := Chain.dlen _ _ _ _ h.chain
  have hlen : s.data.length = own.length + top.D.length := by
    have := congrArg List.length hd
    simpa using this
  suffices needD i s ≤ own.length by omega
  have one : ∀ {p m : Nat}, eff (toB s.loops i) = .simple p m → p ≤ own.length := by
    intro p m he
    simp only [Bal.astep, he] at hs
    split at hs
    · rename_i a' hp
      obtain ⟨_, tail, ht, _⟩ := popPush_sound a a' p m own hp hconc
      rw [ht]; simp
    · cases hs
  cases i with
  | callArr n => cases hsi
  | callExpr c as => cases hsi
  | pop =>
    show min 1 s.data.length ≤ own.length
    cases own with
    | nil =>
      exfalso
      obtain ⟨hf0, hb0⟩ := conc_nil hconc
      obtain ⟨k, frames, base⟩ := a
      simp only at hf0 hb0
      subst hf0 hb0
      simp [Bal.astep, toB, eff, popPush] at hs
    | cons o os => simp only [List.length_cons]; omega
  | popStackPutEnv x => exact one (p := 1) (m := 0) rfl
  | update x => exact one (p := 1) (m := 0) rfl
  | assign => exact one (p := 2) (m := 1) rfl
  | branch d o =>
    show 1 ≤ own.length
    simp only [Bal.astep, toB, eff] at hs
    split at hs
    · rename_i a' t hp _
      obtain ⟨_, tail, ht, _⟩ := popPush_sound a a' 1 0 own hp hconc
      rw [ht]; simp
    · cases hs
    · cases hs
  | popUntilMark l =>
    show markNeed l s.data ≤ own.length
    simp only [Bal.astep, toB, eff] at hs
    split at hs
    · rename_i pre fr rest' hcut
      exact markNeed_le l s.data own top.D hd (conc_mark_mem l _ _ _ hconc _ _ _ hcut)
    · cases hs
  | clearMark l =>
    show markNeed l s.data ≤ own.length
    simp only [Bal.astep, toB, eff] at hs
    split at hs
    · rename_i pre fr rest' hcut
      exact markNeed_le l s.data own top.D hd (conc_mark_mem l _ _ _ hconc _ _ _ hcut)
    · cases hs
  | prepareCall x k =>
    simp only [needD]
    by_cases hv : (!(fnOf s s.curfunc).user && (fnOf s s.curfunc).varargs) = true
    · simp only [hv, if_true]
      simp only [Bool.and_eq_true, Bool.not_eq_true'] at hv
      obtain ⟨tail, ht⟩ := h.top_vals_prep hf hv.2
      -- the operands named by the annotation are the activation's own
      have hva : (fnB s top.f).varargs = true := by rw [← h.cur]; exact hv.2
      have hnf : (fnB s top.f).nfixed = (fnOf s s.curfunc).nargs := by rw [← h.cur]; rfl
      simp only [Bal.astep, toB, eff, hva, if_true] at hs
      split at hs
      · split at hs
        · rename_i a' hp
          obtain ⟨_, tl, ht', _⟩ := popPush_sound a a' _ 1 own hp hconc
          rw [ht', ← hnf]; simp
        · cases hs
      · cases hs
    · simp only [hv]; simp
  | _ => simp [needD]

/-- **The data stack after one non-call instruction, whatever its outcome**: if the data the run
was started on is still underneath before, it is afterwards. -/
theorem exec_simple_above_d {b : Base} {s : St} {top : Act} {rest : List Act} (hr : Running b s top rest) {i : Instr}
    (hf : (fnOf s s.curfunc).code[s.pc.toNat]? = some i) (hs : simple i = true) (n : Nat) (hd : b.data <:+ s.data) :
    b.data <:+ ((exec (n + 1) i).run s).2.data :=
  (exec_simple_eff n i s hs).data.frame hd (hr.roomD hf hs)

/-! ## The tables when a non-call instruction fails -/

/-- the tables (functions, scopes, loop records, lazy objects, heap) are the same -/
structure Tab (s s' : St) : Prop where
  fns : s'.fns = s.fns
  scopes : s'.scopes = s.scopes
  loops : s'.loops = s.loops
  lazies : s'.lazies = s.lazies
  heap : s'.heap = s.heap

theorem Tab.refl (s : St) : Tab s s := ⟨rfl, rfl, rfl, rfl, rfl⟩
theorem Tab.trans {a b c : St} (h1 : Tab a b) (h2 : Tab b c) : Tab a c :=
  ⟨h2.fns.trans h1.fns, h2.scopes.trans h1.scopes, h2.loops.trans h1.loops, h2.lazies.trans h1.lazies, h2.heap.trans h1.heap⟩

/-- if `m` fails from `s`, the tables are those of `s` -/
def FT {α} (m : M α) (s : St) : Prop := ∀ e s', m.run s = (.error e, s') → Tab s s'

theorem ft_of_tab {α} {m : M α} {s : St} (h : Tab s (m.run s).2) : FT m s := by
  intro e s' hr; rw [hr] at h; exact h

theorem tab_bind {α β} {m : M α} {k : α → M β} {s : St} (hm : Tab s (m.run s).2)
    (hk : ∀ a s1, m.run s = (.ok a, s1) → Tab s1 ((k a).run s1).2) : Tab s ((m >>= k).run s).2 := by
  rw [run_bind]
  rcases hr : m.run s with ⟨r, s1⟩
  rw [hr] at hm
  cases r with
  | ok a => exact hm.trans (hk a s1 hr)
  | error e => exact hm

theorem ft_bind {α β} {m : M α} {k : α → M β} {s : St} (hm : Tab s (m.run s).2)
    (hk : ∀ a s1, m.run s = (.ok a, s1) → FT (k a) s1) : FT (m >>= k) s := by
  intro e s' h
  rw [run_bind] at h
  rcases hr : m.run s with ⟨r, s1⟩
  rw [hr] at hm h
  cases r with
  | ok a => exact hm.trans (hk a s1 hr e s' h)
  | error e' => cases h; exact hm

theorem tab_popData (s : St) : Tab s (popData.run s).2 := by
  rw [run_popData]; split <;> exact ⟨rfl, rfl, rfl, rfl, rfl⟩
theorem tab_pushData (v : Val) (s : St) : Tab s ((pushData v).run s).2 := ⟨rfl, rfl, rfl, rfl, rfl⟩
theorem tab_incPc (s : St) : Tab s (incPc.run s).2 := ⟨rfl, rfl, rfl, rfl, rfl⟩
theorem tab_jumpTo (n : Int) (s : St) : Tab s ((jumpTo n).run s).2 := by
  unfold jumpTo
  simp only [run_bind, run_get, run_ite]
  split <;> exact ⟨rfl, rfl, rfl, rfl, rfl⟩
theorem tab_popScope (s : St) : Tab s (popScope.run s).2 := by
  rw [run_popScope]; split <;> exact ⟨rfl, rfl, rfl, rfl, rfl⟩
theorem tab_popScopes : ∀ (n : Nat) (s : St), Tab s ((popScopes n).run s).2
  | 0, s => Tab.refl s
  | n + 1, s => by
    rw [popScopes]
    exact tab_bind (tab_popScope s) (fun _ s1 _ => tab_popScopes n s1)
theorem tab_popN (n : Nat) (s : St) : Tab s ((popN n).run s).2 := by
  rw [Contain.run_popN]
  split
  · exact Tab.refl s
  · split <;> exact ⟨rfl, rfl, rfl, rfl, rfl⟩
theorem tab_popToMark (l : Nat) (keep : Bool) : ∀ (fuel : Nat) (s : St), Tab s ((popToMark l keep fuel).run s).2
  | 0, s => by rw [popToMark]; exact Tab.refl s
  | fuel + 1, s => by
    rw [popToMark]
    refine tab_bind (tab_popData s) (fun v s1 _ => ?_)
    split
    · split
      · split
        · exact tab_pushData _ _
        · exact Tab.refl _
      · exact tab_popToMark l keep fuel s1
    · exact tab_popToMark l keep fuel s1
theorem tab_wrangle (a b : Nat) (s : St) : Tab s ((wrangleOptargs a b).run s).2 := by
  unfold wrangleOptargs
  split
  · exact Tab.refl s
  · split
    · exact tab_bind (tab_popN _ s) (fun _ s1 _ => tab_pushData _ s1)
    · exact tab_pushData _ s

theorem ft_bindTop (x : String) (v : Val) (s : St) : FT (bindTop x v) s := by
  intro e s' h
  unfold bindTop at h
  simp only [run_bind, run_get] at h
  split at h
  · split at h
    · split at h
      · rw [Contain.run_setInScope] at h; cases h
      · rw [run_err] at h; cases h; exact Tab.refl s
    · rw [Contain.run_setInScope] at h; cases h
  · rw [run_hostPanic] at h; cases h; exact Tab.refl s

/-- **A non-call instruction that fails leaves the tables as it found them** (it fails before it
writes: the operands are taken and checked first). -/
theorem exec_simple_fail_tab (n : Nat) (i : Instr) (s : St) (hs : simple i = true) : FT (exec (n + 1) i) s := by
  cases i with
  | callArr k => cases hs
  | callExpr c a => cases hs
  | push v => intro e s' h; rw [exec_push] at h; cases h
  | pop =>
    apply ft_of_tab
    rw [exec_pop]; split <;> exact ⟨rfl, rfl, rfl, rfl, rfl⟩
  | dup =>
    apply ft_of_tab
    rw [exec_dup]; split <;> exact ⟨rfl, rfl, rfl, rfl, rfl⟩
  | jump o => apply ft_of_tab; rw [exec]; exact tab_bind (Tab.refl s) (fun a s1 _ => tab_jumpTo _ s1)
  | goto l => apply ft_of_tab; rw [exec]; exact tab_jumpTo _ s
  | branch d o =>
    apply ft_of_tab
    rw [exec]
    refine tab_bind (tab_popData s) (fun v s1 _ => tab_bind (Tab.refl s1) (fun a s2 _ => ?_))
    split
    · exact tab_jumpTo _ _
    · exact tab_incPc _
  | envToStack x =>
    apply ft_of_tab
    rw [exec]
    simp only [run_bind, run_get]
    split
    · exact tab_bind (tab_pushData _ s) (fun _ s1 _ => tab_incPc s1)
    · exact Tab.refl s
  | popStackPutEnv x =>
    rw [exec]
    exact ft_bind (tab_popData s) (fun v s1 _ => ft_bind (tab_incPc s1) (fun _ s2 _ => ft_bindTop x v s2))
  | update x =>
    rw [exec]
    refine ft_bind (tab_popData s) (fun v s1 _ => ft_bind (tab_incPc s1) (fun _ s2 _ => ?_))
    intro e s' h
    simp only [run_bind, run_get] at h
    split at h
    · rw [Contain.run_setInScope] at h; cases h
    · exact ft_bindTop x v s2 e s' h
  | ret =>
    apply ft_of_tab
    rw [exec]
    simp only [run_bind, run_get]
    rcases ha : s.addr with _ | ⟨_ | ⟨fn, pc⟩, rest⟩ <;> exact ⟨rfl, rfl, rfl, rfl, rfl⟩
  | addScope => rw [exec]; intro e s' h; cases h
  | addFuncScope t => rw [exec]; intro e s' h; cases h
  | removeScope =>
    apply ft_of_tab
    rw [exec]
    exact tab_bind (tab_incPc s) (fun _ s1 _ => tab_popScope s1)
  | createClosure t =>
    rw [exec]
    intro e s' h
    simp only [run_bind, run_incPc, run_get, run_set, run_pushData] at h
    cases h
  | prepareCall x k =>
    apply ft_of_tab
    rw [exec]
    simp only [run_bind, run_get]
    by_cases hv : (!(fnOf s s.curfunc).user && (fnOf s s.curfunc).varargs) = true
    · simp only [hv, if_true]
      exact tab_bind (tab_wrangle _ _ s) (fun _ s1 _ => tab_incPc s1)
    · simp only [hv, if_false, Bool.false_eq_true]
      first
        | exact tab_incPc s
        | exact tab_bind (Tab.refl s) (fun _ s1 _ => tab_incPc s1)
  | tailGuard x skip =>
    apply ft_of_tab
    rw [exec]
    simp only [run_bind, run_get]
    split
    · split
      · exact tab_incPc s
      · exact ⟨rfl, rfl, rfl, rfl, rfl⟩
    · exact ⟨rfl, rfl, rfl, rfl, rfl⟩
  | pushLazy e =>
    rw [exec]
    intro e' s' h
    simp only [run_bind, run_get, run_set, run_pushData, run_incPc] at h
    cases h
  | loopStart l => rw [exec]; exact ft_of_tab (tab_incPc s)
  | label => rw [exec]; exact ft_of_tab (tab_incPc s)
  | pushMark l => rw [exec]; exact ft_of_tab (tab_bind (tab_pushData _ s) (fun _ s1 _ => tab_incPc s1))
  | popUntilMark l =>
    apply ft_of_tab
    rw [exec]
    exact tab_bind (tab_incPc s) (fun _ s1 _ => tab_bind (Tab.refl s1) (fun a s2 _ => tab_popToMark l true _ s2))
  | clearMark l =>
    apply ft_of_tab
    rw [exec]
    exact tab_bind (Tab.refl s) (fun a s1 _ => tab_bind (tab_popToMark l false _ s1) (fun _ s2 _ => tab_incPc s2))
  | brk l k =>
    apply ft_of_tab
    rw [exec]
    refine tab_bind (Tab.refl s) (fun a s1 _ => ?_)
    split
    · exact Tab.refl _
    · exact tab_bind (tab_popScopes k s1) (fun _ s2 _ => ⟨rfl, rfl, rfl, rfl, rfl⟩)
  | cont l k =>
    apply ft_of_tab
    rw [exec]
    refine tab_bind (Tab.refl s) (fun a s1 _ => ?_)
    split
    · exact Tab.refl _
    · exact tab_bind (tab_popScopes k s1) (fun _ s2 _ => ⟨rfl, rfl, rfl, rfl, rfl⟩)
  | assign =>
    apply ft_of_tab
    rw [exec]
    refine tab_bind (tab_incPc s) (fun _ s1 _ => tab_bind (tab_popData s1) (fun rhs s2 _ =>
      tab_bind (tab_popData s2) (fun lhs s3 _ => tab_bind (Tab.refl s3) (fun a s4 _ => ?_))))
    split
    · split
      · exact tab_pushData _ _
      · exact Tab.refl _
    · exact Tab.refl _

/-! ## The fault state of a loop -/

/-- the lazy arguments captured scope stacks without nil cells, and those still to be forced a
non-empty one -/
def LzOK (s : St) : Prop :=
  (∀ z ∈ s.lazies, VMSafe.allSome z.stack) ∧ (∀ z ∈ s.lazies, z.value = none → z.stack ≠ [])

theorem LzOK.same {s s' : St} (h : LzOK s) (e : s'.lazies = s.lazies) : LzOK s' := by
  unfold LzOK; rw [e]; exact h

/-- what the loop needs of the state a failing instruction leaves: good tables, tables only
grown, the set-aside stacks as before, the scope stack of the base still underneath -/
structure FaultOK (b : Base) (s₀ s₁ : St) : Prop where
  tab : WF { s₁ with data := [] }
  ext : TExt s₀ s₁
  susp : s₁.suspended = s₀.suspended
  lin : b.linear <:+ s₁.linear
  lz : LzOK s₁

/-- (C1) a failing non-call instruction leaves such a state -/
theorem faultOK_simple {b : Base} {s s₁ : St} {top : Act} {rest : List Act} (hw : WF s) (hr : Running b s top rest) {i : Instr}
    (hf : (fnOf s s.curfunc).code[s.pc.toNat]? = some i) (hs : simple i = true) (n : Nat) (e : Fault)
    (h : (exec (n + 1) i).run s = (.error e, s₁)) (hlz : LzOK s) : FaultOK b s s₁ := by
  have ht := exec_simple_fail_tab n i s hs e s₁ h
  obtain ⟨l1, l2, l3, _⟩ := exec_simple_above_la hr hf hs n
  rw [h] at l1 l2 l3
  have he : TExt s s₁ := TExt.same ht.fns ht.loops
  refine ⟨?_, he, l2, l1, hlz.same ht.lazies⟩
  have he' : TExt s { s₁ with data := [] } := TExt.same ht.fns ht.loops
  refine hw.mk' he' (fun id h1 h2 => ?_) (l3.trans hw.loopstack) ?_ ?_ ?_ (fun c hc => by cases hc)
  · have : ({ s₁ with data := [] } : St).fns.length = s.fns.length := by show s₁.fns.length = _; rw [ht.fns]
    omega
  · show ∀ sc ∈ s₁.scopes, ∀ p ∈ sc.vars, vok s₁.fns.length p.2 = true
    rw [ht.scopes, ht.fns]; exact hw.scopes
  · show ∀ a ∈ s₁.heap.arrs, ∀ v ∈ a, vok s₁.fns.length v = true
    rw [ht.heap, ht.fns]; exact hw.heap
  · show ∀ lz ∈ s₁.lazies, okL lz.e = true ∧ ∀ v, lz.value = some v → vok s₁.fns.length v = true
    rw [ht.lazies, ht.fns]; exact hw.lazies

end ZygoVerif.RunInv
