/-
Proofs/RunErr.lean — the calling contract on the ERROR path, part 1: the non-call instructions.

`RunInv.allSpec'` speaks about normal returns. Here: whatever the outcome (`ok`, `err`, host
panic) of ONE non-call instruction fetched by a `Running` loop, the state it leaves still has
the stacks the current run was started on underneath (`Above`): what the verifier's annotation
says about the instruction's operands (`needD ≤` the activation's own cells, `needL ≤` the
scopes it opened, `ret` pops the activation's own return address) is exactly the room
`Contain.Eff.frame` asks for; and when it fails, the tables (functions, scopes, heap, lazy
objects, loop records) are those it found (`exec_simple_fail_tab`).
-/
import ZygoVerif.Proofs.RunMain
import ZygoVerif.Proofs.ContainFrame
import ZygoVerif.Proofs.ContainExact

namespace ZygoVerif.RunInv
open ZygoVerif.Core ZygoVerif.VM ZygoVerif.Bal ZygoVerif.Refine ZygoVerif.Sim ZygoVerif.Contain

/-! ## Room above the base, read off the annotation -/

/-- scopes: an instruction pops at most the scopes its activation opened -/
theorem Running.roomL {b : Base} {s : St} {top : Act} {rest : List Act} (h : Running b s top rest) {i : Instr}
    (hf : (fnOf s s.curfunc).code[s.pc.toNat]? = some i)
    (hfind : ∀ l n, (i = .brk l n ∨ i = .cont l n) → findLoopStart (fnOf s s.curfunc).code l ≠ none) :
    b.linear.length + needL i ≤ s.linear.length := by
  obtain ⟨a, own, succs, _, _, hsc, hs⟩ := h.astep hf
  have hdep := Chain.depth _ _ _ _ h.chain
  have hpos : ∀ l, loopPos (fnB s top.f).code l = findLoopStart (fnOf s s.curfunc).code l := by
    intro l
    show loopPos (B s.loops (fnOf s top.f).code) l = _
    rw [loopPos_B, h.cur]
  cases i with
  | removeScope =>
    simp only [Bal.astep, toB, eff] at hs
    split at hs
    · simp only [needL]; omega
    · cases hs
  | brk l n =>
    have hne := hfind l n (Or.inl rfl)
    simp only [Bal.astep, toB, eff, hpos] at hs
    split at hs
    · rename_i hnone; exact absurd hnone hne
    · split at hs
      · split at hs
        · simp only [needL]; omega
        · cases hs
      · cases hs
  | cont l n =>
    have hne := hfind l n (Or.inr rfl)
    simp only [Bal.astep, toB, eff, hpos] at hs
    split at hs
    · rename_i hnone; exact absurd hnone hne
    · split at hs
      · split at hs
        · simp only [needL]; omega
        · cases hs
      · cases hs
  | _ => simp only [needL]; omega

/-- `break`/`continue` of a loop that is not in the running function: a run-time error that pops nothing -/
theorem exec_exit_none (n : Nat) (s : St) (i : Instr) (l k : Nat) (hi : i = .brk l k ∨ i = .cont l k)
    (hnone : findLoopStart (fnOf s s.curfunc).code l = none) : ((exec (n + 1) i).run s).2 = s := by
  rcases hi with rfl | rfl <;> simp only [exec, run_bind, run_get, hnone, run_err]

/-- **Scopes, return addresses, set-aside stacks after one non-call instruction, whatever its
outcome**: the scope stack the run was started on is still underneath, as a list; so are the
return addresses below the bottom activation; the set-aside stacks are untouched. -/
theorem exec_simple_above_la {b : Base} {s : St} {top : Act} {rest : List Act} (hr : Running b s top rest) {i : Instr}
    (hf : (fnOf s s.curfunc).code[s.pc.toNat]? = some i) (hs : simple i = true) (n : Nat) :
    b.linear <:+ ((exec (n + 1) i).run s).2.linear ∧ ((exec (n + 1) i).run s).2.suspended = s.suspended ∧
      ((exec (n + 1) i).run s).2.loopstack = s.loopstack ∧ (b.main = false → b.addr <:+ ((exec (n + 1) i).run s).2.addr) := by
  by_cases hfind : ∀ l k, (i = .brk l k ∨ i = .cont l k) → findLoopStart (fnOf s s.curfunc).code l ≠ none
  · have he := exec_simple_eff n i s hs
    refine ⟨he.linear.frame hr.lin (hr.roomL hf hfind), he.susp, he.loopstack, fun hm => ?_⟩
    obtain ⟨h1, h2⟩ := Chain.addr_suffix _ _ _ _ hr.chain hm
    refine he.addr.frame h1 ?_
    have : needA i ≤ 1 := by cases i <;> simp [needA]
    omega
  · have : ∃ l k, (i = .brk l k ∨ i = .cont l k) ∧ findLoopStart (fnOf s s.curfunc).code l = none := by
      apply Classical.byContradiction
      intro hne
      apply hfind
      intro l k hi hnone
      exact hne ⟨l, k, hi, hnone⟩
    obtain ⟨l, k, hi, hnone⟩ := this
    rw [exec_exit_none n s i l k hi hnone]
    exact ⟨hr.lin, rfl, rfl, fun hm => (Chain.addr_suffix _ _ _ _ hr.chain hm).1⟩

/-! ## Operands -/

theorem markNeed_le (l : Nat) : ∀ (data : List (Option Val)) (own D : List Cell),
    data.map cellOf = own ++ D → Cell.mark l ∈ own → markNeed l data ≤ own.length
  | [], _, _, _, _ => by simp [markNeed]
  | c :: rest, [], _, _, hm => by cases hm
  | c :: rest, o :: own', D, hd, hm => by
    simp only [List.map_cons, List.cons_append, List.cons.injEq] at hd
    obtain ⟨ho, hrest⟩ := hd
    have ih := markNeed_le l rest own' D hrest
    cases c with
    | none => simp [markNeed]
    | some v =>
      cases v with
      | mark l' =>
        simp only [markNeed]
        split
        · simp
        · rename_i hne
          have : Cell.mark l ∈ own' := by
            rcases List.mem_cons.mp hm with h | h
            · rw [← ho] at h; simp only [cellOf, Cell.mark.injEq] at h; exact absurd h.symm hne
            · exact h
          have := ih this
          simp only [List.length_cons]; omega
      | _ =>
        simp only [markNeed]
        have : Cell.mark l ∈ own' := by
          rcases List.mem_cons.mp hm with h | h
          · rw [← ho] at h; simp [cellOf] at h
          · exact h
        have := ih this
        simp only [List.length_cons]; omega

theorem conc_mark_mem (l : Nat) : ∀ (fs : List Frame) (n : Nat) (own : List Cell), Conc fs n own →
    ∀ pre fr rest, cutTo l fs = some (pre, fr, rest) → Cell.mark l ∈ own := by
  intro fs n own hc
  induction hc with
  | base n => intro pre fr rest h; simp [cutTo] at h
  | frame fr rest n above below _ _ ih =>
    intro pre fr' rest' h
    simp only [cutTo] at h
    split at h
    · rename_i hk
      apply List.mem_append_right
      rw [hk]
      exact List.mem_cons_self
    · split at h
      · cases h
      · rename_i p f r heq
        apply List.mem_append_right
        exact List.mem_cons_of_mem _ (ih p f r heq)

theorem conc_nil {fs : List Frame} {n : Nat} (h : Conc fs n []) : fs = [] ∧ n = 0 := by
  generalize ho : ([] : List Cell) = own at h
  cases h with
  | base n =>
    cases n with
    | zero => exact ⟨rfl, rfl⟩
    | succ m => simp [List.replicate] at ho
  | frame fr rest n above below _ _ => simp at ho

/-- operands: an instruction takes at most the cells its activation put on the data stack -/
theorem Running.roomD {b : Base} {s : St} {top : Act} {rest : List Act} (h : Running b s top rest) {i : Instr}
    (hf : (fnOf s s.curfunc).code[s.pc.toNat]? = some i) (hsi : simple i = true) :
    b.data.length + needD i s ≤ s.data.length := by
  obtain ⟨a, own, succs, hd, hconc, _, hs⟩ := h.astep hf
  have hdl := Chain.dlen _ _ _ _ h.chain
  have hlen : s.data.length = own.length + top.D.length := by
    have := congrArg List.length hd
    simpa using this
  suffices needD i s ≤ own.length by omega
  have one : ∀ {p m : Nat}, eff (toB s.loops i) = .simple p m → p ≤ own.length := by
    intro p m he
    simp only [Bal.astep, he] at hs
    split at hs
    · rename_i a' hp
      obtain ⟨_, tail, ht, _⟩ := popPush_sound a a' p m own hp hconc
      rw [ht]; simp
    · cases hs
  cases i with
  | callArr n => cases hsi
  | callExpr c as => cases hsi
  | pop =>
    show min 1 s.data.length ≤ own.length
    cases own with
    | nil =>
      exfalso
      obtain ⟨hf0, hb0⟩ := conc_nil hconc
      obtain ⟨k, frames, base⟩ := a
      simp only at hf0 hb0
      subst hf0 hb0
      simp [Bal.astep, toB, eff, popPush] at hs
    | cons o os => simp only [List.length_cons]; omega
  | popStackPutEnv x => exact one (p := 1) (m := 0) rfl
  | update x => exact one (p := 1) (m := 0) rfl
  | assign => exact one (p := 2) (m := 1) rfl
  | branch d o =>
    show 1 ≤ own.length
    simp only [Bal.astep, toB, eff] at hs
    split at hs
    · rename_i a' t hp _
      obtain ⟨_, tail, ht, _⟩ := popPush_sound a a' 1 0 own hp hconc
      rw [ht]; simp
    · cases hs
    · cases hs
  | popUntilMark l =>
    show markNeed l s.data ≤ own.length
    simp only [Bal.astep, toB, eff] at hs
    split at hs
    · rename_i pre fr rest' hcut
      exact markNeed_le l s.data own top.D hd (conc_mark_mem l _ _ _ hconc _ _ _ hcut)
    · cases hs
  | clearMark l =>
    show markNeed l s.data ≤ own.length
    simp only [Bal.astep, toB, eff] at hs
    split at hs
    · rename_i pre fr rest' hcut
      exact markNeed_le l s.data own top.D hd (conc_mark_mem l _ _ _ hconc _ _ _ hcut)
    · cases hs
  | prepareCall x k =>
    simp only [needD]
    by_cases hv : (!(fnOf s s.curfunc).user && (fnOf s s.curfunc).varargs) = true
    · simp only [hv, if_true]
      simp only [Bool.and_eq_true, Bool.not_eq_true'] at hv
      obtain ⟨tail, ht⟩ := h.top_vals_prep hf hv.2
      -- the operands named by the annotation are the activation's own
      have hva : (fnB s top.f).varargs = true := by rw [← h.cur]; exact hv.2
      have hnf : (fnB s top.f).nfixed = (fnOf s s.curfunc).nargs := by rw [← h.cur]; rfl
      simp only [Bal.astep, toB, eff, hva, if_true] at hs
      split at hs
      · split at hs
        · rename_i a' hp
          obtain ⟨_, tl, ht', _⟩ := popPush_sound a a' _ 1 own hp hconc
          rw [ht', ← hnf]; simp
        · cases hs
      · cases hs
    · simp only [hv]; simp
  | _ => simp [needD]

/-- **The data stack after one non-call instruction, whatever its outcome**: if the data the run
was started on is still underneath before, it is afterwards. -/
theorem exec_simple_above_d {b : Base} {s : St} {top : Act} {rest : List Act} (hr : Running b s top rest) {i : Instr}
    (hf : (fnOf s s.curfunc).code[s.pc.toNat]? = some i) (hs : simple i = true) (n : Nat) (hd : b.data <:+ s.data) :
    b.data <:+ ((exec (n + 1) i).run s).2.data :=
  (exec_simple_eff n i s hs).data.frame hd (hr.roomD hf hs)

/-! ## The tables when a non-call instruction fails -/

/-- the tables (functions, scopes, loop records, lazy objects, heap) are the same -/
structure Tab (s s' : St) : Prop where
  fns : s'.fns = s.fns
  scopes : s'.scopes = s.scopes
  loops : s'.loops = s.loops
  lazies : s'.lazies = s.lazies
  heap : s'.heap = s.heap

theorem Tab.refl (s : St) : Tab s s := ⟨rfl, rfl, rfl, rfl, rfl⟩
theorem Tab.trans {a b c : St} (h1 : Tab a b) (h2 : Tab b c) : Tab a c :=
  ⟨h2.fns.trans h1.fns, h2.scopes.trans h1.scopes, h2.loops.trans h1.loops, h2.lazies.trans h1.lazies, h2.heap.trans h1.heap⟩

/-- if `m` fails from `s`, the tables are those of `s` -/
def FT {α} (m : M α) (s : St) : Prop := ∀ e s', m.run s = (.error e, s') → Tab s s'

theorem ft_of_tab {α} {m : M α} {s : St} (h : Tab s (m.run s).2) : FT m s := by
  intro e s' hr; rw [hr] at h; exact h

theorem tab_bind {α β} {m : M α} {k : α → M β} {s : St} (hm : Tab s (m.run s).2)
    (hk : ∀ a s1, m.run s = (.ok a, s1) → Tab s1 ((k a).run s1).2) : Tab s ((m >>= k).run s).2 := by
  rw [run_bind]
  rcases hr : m.run s with ⟨r, s1⟩
  rw [hr] at hm
  cases r with
  | ok a => exact hm.trans (hk a s1 hr)
  | error e => exact hm

theorem ft_bind {α β} {m : M α} {k : α → M β} {s : St} (hm : Tab s (m.run s).2)
    (hk : ∀ a s1, m.run s = (.ok a, s1) → FT (k a) s1) : FT (m >>= k) s := by
  intro e s' h
  rw [run_bind] at h
  rcases hr : m.run s with ⟨r, s1⟩
  rw [hr] at hm h
  cases r with
  | ok a => exact hm.trans (hk a s1 hr e s' h)
  | error e' => cases h; exact hm

theorem tab_popData (s : St) : Tab s (popData.run s).2 := by
  rw [run_popData]; split <;> exact ⟨rfl, rfl, rfl, rfl, rfl⟩
theorem tab_pushData (v : Val) (s : St) : Tab s ((pushData v).run s).2 := ⟨rfl, rfl, rfl, rfl, rfl⟩
theorem tab_incPc (s : St) : Tab s (incPc.run s).2 := ⟨rfl, rfl, rfl, rfl, rfl⟩
theorem tab_jumpTo (n : Int) (s : St) : Tab s ((jumpTo n).run s).2 := by
  unfold jumpTo
  simp only [run_bind, run_get, run_ite]
  split <;> exact ⟨rfl, rfl, rfl, rfl, rfl⟩
theorem tab_popScope (s : St) : Tab s (popScope.run s).2 := by
  rw [run_popScope]; split <;> exact ⟨rfl, rfl, rfl, rfl, rfl⟩
theorem tab_popScopes : ∀ (n : Nat) (s : St), Tab s ((popScopes n).run s).2
  | 0, s => Tab.refl s
  | n + 1, s => by
    rw [popScopes]
    exact tab_bind (tab_popScope s) (fun _ s1 _ => tab_popScopes n s1)
theorem tab_popN (n : Nat) (s : St) : Tab s ((popN n).run s).2 := by
  rw [Contain.run_popN]
  split
  · exact Tab.refl s
  · split <;> exact ⟨rfl, rfl, rfl, rfl, rfl⟩
theorem tab_popToMark (l : Nat) (keep : Bool) : ∀ (fuel : Nat) (s : St), Tab s ((popToMark l keep fuel).run s).2
  | 0, s => by rw [popToMark]; exact Tab.refl s
  | fuel + 1, s => by
    rw [popToMark]
    refine tab_bind (tab_popData s) (fun v s1 _ => ?_)
    split
    · split
      · split
        · exact tab_pushData _ _
        · exact Tab.refl _
      · exact tab_popToMark l keep fuel s1
    · exact tab_popToMark l keep fuel s1
theorem tab_wrangle (a b : Nat) (s : St) : Tab s ((wrangleOptargs a b).run s).2 := by
  unfold wrangleOptargs
  split
  · exact Tab.refl s
  · split
    · exact tab_bind (tab_popN _ s) (fun _ s1 _ => tab_pushData _ s1)
    · exact tab_pushData _ s

theorem ft_bindTop (x : String) (v : Val) (s : St) : FT (bindTop x v) s := by
  intro e s' h
  unfold bindTop at h
  simp only [run_bind, run_get] at h
  split at h
  · split at h
    · split at h
      · rw [Contain.run_setInScope] at h; cases h
      · rw [run_err] at h; cases h; exact Tab.refl s
    · rw [Contain.run_setInScope] at h; cases h
  · rw [run_hostPanic] at h; cases h; exact Tab.refl s

/-- **A non-call instruction that fails leaves the tables as it found them** (it fails before it
writes: the operands are taken and checked first). -/
theorem exec_simple_fail_tab (n : Nat) (i : Instr) (s : St) (hs : simple i = true) : FT (exec (n + 1) i) s := by
  cases i with
  | callArr k => cases hs
  | callExpr c a => cases hs
  | push v => intro e s' h; rw [exec_push] at h; cases h
  | pop =>
    apply ft_of_tab
    rw [exec_pop]; split <;> exact ⟨rfl, rfl, rfl, rfl, rfl⟩
  | dup =>
    apply ft_of_tab
    rw [exec_dup]; split <;> exact ⟨rfl, rfl, rfl, rfl, rfl⟩
  | jump o => apply ft_of_tab; rw [exec]; exact tab_bind (Tab.refl s) (fun a s1 _ => tab_jumpTo _ s1)
  | goto l => apply ft_of_tab; rw [exec]; exact tab_jumpTo _ s
  | branch d o =>
    apply ft_of_tab
    rw [exec]
    refine tab_bind (tab_popData s) (fun v s1 _ => tab_bind (Tab.refl s1) (fun a s2 _ => ?_))
    split
    · exact tab_jumpTo _ _
    · exact tab_incPc _
  | envToStack x =>
    apply ft_of_tab
    rw [exec]
    simp only [run_bind, run_get]
    split
    · exact tab_bind (tab_pushData _ s) (fun _ s1 _ => tab_incPc s1)
    · exact Tab.refl s
  | popStackPutEnv x =>
    rw [exec]
    exact ft_bind (tab_popData s) (fun v s1 _ => ft_bind (tab_incPc s1) (fun _ s2 _ => ft_bindTop x v s2))
  | update x =>
    rw [exec]
    refine ft_bind (tab_popData s) (fun v s1 _ => ft_bind (tab_incPc s1) (fun _ s2 _ => ?_))
    intro e s' h
    simp only [run_bind, run_get] at h
    split at h
    · rw [Contain.run_setInScope] at h; cases h
    · exact ft_bindTop x v s2 e s' h
  | ret =>
    apply ft_of_tab
    rw [exec]
    simp only [run_bind, run_get]
    rcases ha : s.addr with _ | ⟨_ | ⟨fn, pc⟩, rest⟩ <;> exact ⟨rfl, rfl, rfl, rfl, rfl⟩
  | addScope => rw [exec]; intro e s' h; cases h
  | addFuncScope t => rw [exec]; intro e s' h; cases h
  | removeScope =>
    apply ft_of_tab
    rw [exec]
    exact tab_bind (tab_incPc s) (fun _ s1 _ => tab_popScope s1)
  | createClosure t =>
    rw [exec]
    intro e s' h
    simp only [run_bind, run_incPc, run_get, run_set, run_pushData] at h
    cases h
  | prepareCall x k =>
    apply ft_of_tab
    rw [exec]
    simp only [run_bind, run_get]
    by_cases hv : (!(fnOf s s.curfunc).user && (fnOf s s.curfunc).varargs) = true
    · simp only [hv, if_true]
      exact tab_bind (tab_wrangle _ _ s) (fun _ s1 _ => tab_incPc s1)
    · simp only [hv, if_false, Bool.false_eq_true]
      first
        | exact tab_incPc s
        | exact tab_bind (Tab.refl s) (fun _ s1 _ => tab_incPc s1)
  | tailGuard x skip =>
    apply ft_of_tab
    rw [exec]
    simp only [run_bind, run_get]
    split
    · split
      · exact tab_incPc s
      · exact ⟨rfl, rfl, rfl, rfl, rfl⟩
    · exact ⟨rfl, rfl, rfl, rfl, rfl⟩
  | pushLazy e =>
    rw [exec]
    intro e' s' h
    simp only [run_bind, run_get, run_set, run_pushData, run_incPc] at h
    cases h
  | loopStart l => rw [exec]; exact ft_of_tab (tab_incPc s)
  | label => rw [exec]; exact ft_of_tab (tab_incPc s)
  | pushMark l => rw [exec]; exact ft_of_tab (tab_bind (tab_pushData _ s) (fun _ s1 _ => tab_incPc s1))
  | popUntilMark l =>
    apply ft_of_tab
    rw [exec]
    exact tab_bind (tab_incPc s) (fun _ s1 _ => tab_bind (Tab.refl s1) (fun a s2 _ => tab_popToMark l true _ s2))
  | clearMark l =>
    apply ft_of_tab
    rw [exec]
    exact tab_bind (Tab.refl s) (fun a s1 _ => tab_bind (tab_popToMark l false _ s1) (fun _ s2 _ => tab_incPc s2))
  | brk l k =>
    apply ft_of_tab
    rw [exec]
    refine tab_bind (Tab.refl s) (fun a s1 _ => ?_)
    split
    · exact Tab.refl _
    · exact tab_bind (tab_popScopes k s1) (fun _ s2 _ => ⟨rfl, rfl, rfl, rfl, rfl⟩)
  | cont l k =>
    apply ft_of_tab
    rw [exec]
    refine tab_bind (Tab.refl s) (fun a s1 _ => ?_)
    split
    · exact Tab.refl _
    · exact tab_bind (tab_popScopes k s1) (fun _ s2 _ => ⟨rfl, rfl, rfl, rfl, rfl⟩)
  | assign =>
    apply ft_of_tab
    rw [exec]
    refine tab_bind (tab_incPc s) (fun _ s1 _ => tab_bind (tab_popData s1) (fun rhs s2 _ =>
      tab_bind (tab_popData s2) (fun lhs s3 _ => tab_bind (Tab.refl s3) (fun a s4 _ => ?_))))
    split
    · split
      · exact tab_pushData _ _
      · exact Tab.refl _
    · exact Tab.refl _

/-! ## The fault state of a loop -/

/-- what the loop needs of the state a failing instruction leaves: good tables, tables only
grown, the set-aside stacks as before, the scope stack of the base still underneath -/
structure FaultOK (b : Base) (s₀ s₁ : St) : Prop where
  tab : WF { s₁ with data := [] }
  ext : TExt s₀ s₁
  susp : s₁.suspended = s₀.suspended
  lin : b.linear <:+ s₁.linear

/-- (C1) a failing non-call instruction leaves such a state -/
theorem faultOK_simple {b : Base} {s s₁ : St} {top : Act} {rest : List Act} (hw : WF s) (hr : Running b s top rest) {i : Instr}
    (hf : (fnOf s s.curfunc).code[s.pc.toNat]? = some i) (hs : simple i = true) (n : Nat) (e : Fault)
    (h : (exec (n + 1) i).run s = (.error e, s₁)) : FaultOK b s s₁ := by
  have ht := exec_simple_fail_tab n i s hs e s₁ h
  obtain ⟨l1, l2, l3, _⟩ := exec_simple_above_la hr hf hs n
  rw [h] at l1 l2 l3
  have he : TExt s s₁ := TExt.same ht.fns ht.loops
  refine ⟨?_, he, l2, l1⟩
  have he' : TExt s { s₁ with data := [] } := TExt.same ht.fns ht.loops
  refine hw.mk' he' (fun id h1 h2 => ?_) (l3.trans hw.loopstack) ?_ ?_ ?_ (fun c hc => by cases hc)
  · have : ({ s₁ with data := [] } : St).fns.length = s.fns.length := by show s₁.fns.length = _; rw [ht.fns]
    omega
  · show ∀ sc ∈ s₁.scopes, ∀ p ∈ sc.vars, vok s₁.fns.length p.2 = true
    rw [ht.scopes, ht.fns]; exact hw.scopes
  · show ∀ a ∈ s₁.heap.arrs, ∀ v ∈ a, vok s₁.fns.length v = true
    rw [ht.heap, ht.fns]; exact hw.heap
  · show ∀ lz ∈ s₁.lazies, okL lz.e = true ∧ ∀ v, lz.value = some v → vok s₁.fns.length v = true
    rw [ht.lazies, ht.fns]; exact hw.lazies

/-- **The loop over the top-level text on the error exit**: there is a fault — a state of the
run that satisfies the invariant, the instruction fetched there, and the state its failing
`exec` left — and the loop's result is that state restored and parked. -/
theorem main_loop_err (b : Base) (a0 : Act) (ha0 : a0.A = 0) :
    ∀ (n : Nat) (st : CtlState) (s s' : St), Holds b a0 [] s → (runLoop n st).run s = (.error .err, s') →
      ∃ s₀ top rest i m s₁, WF s₀ ∧ Running b s₀ top rest ∧ TExt s s₀ ∧ s₀.suspended = s.suspended ∧
        (fnOf s₀ s₀.curfunc).code[s₀.pc.toNat]? = some i ∧ (exec m i).run s₀ = (.error .err, s₁) ∧
        s' = park (restoreSt st s₁)
  | 0, st, s, s', _, hex => by rw [runLoop_zero] at hex; cases hex
  | n + 1, st, s, s', hh, hex => by
    rw [runLoop] at hex
    by_cases hns : (s.pc = -1 ∨ s.pc ≥ curSize s)
    · simp only [run_bind, run_get, run_ite, hns, if_true, run_pure] at hex
      cases hex
    · cases hi : (fnOf s s.curfunc).code[s.pc.toNat]? with
      | none =>
        simp only [run_bind, run_get, run_ite, hns, if_false, hi, run_pure] at hex
        cases hex
      | some i =>
        simp only [run_bind, run_get, run_ite, hns, if_false, hi] at hex
        rcases hx : (exec n i).run s with ⟨r, s1⟩
        simp only [hx, run_set] at hex
        cases r with
        | error e =>
          cases e with
          | err =>
            simp only [run_bind, run_restore, run_modify, run_throw] at hex
            obtain ⟨hw, upper, top, rest, hr, _⟩ := hh
            refine ⟨s, top, rest, i, n, s1, hw, hr, TExt.refl _, rfl, hi, hx, ?_⟩
            injection hex with _ h2
            exact h2.symm
          | panic => simp only [run_throw] at hex; cases hex
          | timeout => simp only [run_throw] at hex; cases hex
        | ok u =>
          cases n with
          | zero => simp only [VM.exec, run_throw] at hx; cases hx
          | succ m =>
            have hv : VmStep s s1 := ⟨m, i, hns, hi, hx⟩
            obtain ⟨hh1, he1, hs1⟩ := holds_step_ext hh hv (by rw [ha0]; exact Nat.zero_le _)
            obtain ⟨s₀, top, rest, i', m', s₁, q1, q2, q3, q4, q5, q6, q7⟩ := main_loop_err b a0 ha0 (m + 1) st s1 s' hh1 hex
            exact ⟨s₀, top, rest, i', m', s₁, q1, q2, he1.trans q3, q4.trans hs1, q5, q6, q7⟩

/-- **`Run` on a loaded text that ends in an error**: there is a fault (see `main_loop_err`),
and if the state the failing instruction left is `FaultOK`, the interpreter is back at rest —
the three stacks EXACTLY those of entry — with the table invariant and the facts about
`mainfunc`. -/
theorem run_loaded_err {s1 : St} (code : List Instr) (as : List AState) (N fuel : Nat) (s' : St)
    (hw : WF s1) (hd : s1.data = []) (ha : s1.addr = []) (hsu : s1.suspended = [])
    (hu : (fnOf s1 mainFn).user = false) (hold : AllOK (szS s1) (fnOf s1 mainFn).code)
    (hoids : idsIn (fnOf s1 mainFn).code 0 N) (hids : idsIn code N s1.loops.length) (hN : N ≤ s1.loops.length)
    (hpc : s1.pc = ((fnOf s1 mainFn).code.length : Int)) (hcode : AllOK (szS s1) code)
    (hfrag : FragOK mainEnv (B s1.loops code) as) (h0 : as[0]? = some restState)
    (hex : (run fuel).run (loaded s1 code) = (.error .err, s')) :
    ∃ b s₀ top rest i m s₁, b.main = true ∧ WF s₀ ∧ Running b s₀ top rest ∧
      (fnOf s₀ s₀.curfunc).code[s₀.pc.toNat]? = some i ∧ (exec m i).run s₀ = (.error .err, s₁) ∧
      (FaultOK b s₀ s₁ → WF s' ∧ MainOK s' ∧ s'.data = [] ∧ s'.linear = s1.linear ∧ s'.addr = [] ∧ s'.loopstack = [] ∧
        s'.curfunc = mainFn ∧ s'.suspended = []) := by
  obtain ⟨b, a0, hbm, hA, hbl, hh⟩ := loaded_running code as N hw hd ha hu hold hoids hids hN hpc hcode hfrag h0
  obtain ⟨s2, hs2⟩ : ∃ s2, s2 = loaded s1 code := ⟨_, rfl⟩
  rw [← hs2] at hex hh
  have hw2 := hh.1
  have hmain : fnOf s2 mainFn = { (fnOf s1 mainFn) with code := (fnOf s1 mainFn).code ++ code } := by
    rw [hs2]; exact loaded_main s1 code hw.two
  have hsz : szS s2 = szS s1 := by rw [hs2]; simp only [szS, loaded_len]; rfl
  have hloops : s2.loops = s1.loops := by rw [hs2]; rfl
  have hcodeM : (fnOf s2 mainFn).code = (fnOf s1 mainFn).code ++ code := by rw [hmain]
  have hidsM : idsIn ((fnOf s1 mainFn).code ++ code) 0 s1.loops.length := idsIn_app hoids hids (Nat.zero_le _) hN
  cases fuel with
  | zero => simp only [VM.run, run_throw] at hex; cases hex
  | succ n =>
    rw [run_succ_eq] at hex
    simp only [run_bind, run_capture] at hex
    rcases hl : (runLoop n (captureOf s2)).run s2 with ⟨r, s3⟩
    rw [hl] at hex
    cases r with
    | ok u => exact absurd hex (runTail_not_err s3 s')
    | error flt =>
      dsimp only at hex
      injection hex with h1 h2
      subst h2
      injection h1 with h1
      subst h1
      obtain ⟨s₀, top, rest, i, m, s₁, q1, q2, q3, q4, q5, q6, rfl⟩ := main_loop_err b a0 hA n _ s2 s3 hh hl
      refine ⟨b, s₀, top, rest, i, m, s₁, hbm, q1, q2, q5, q6, fun hf => ?_⟩
      have hsus2 : s2.suspended = [] := by rw [hs2]; exact hsu
      have hsus1 : s₁.suspended = [] := by rw [hf.susp, q4, hsus2]
      have hext : Extends s2 s₁ := by
        refine ⟨by rw [show s2.data = [] by rw [hs2]; exact hd]; exact List.nil_suffix, ?_,
          by rw [show s2.addr = [] by rw [hs2]; exact ha]; exact List.nil_suffix, by rw [hsus2]; exact List.nil_suffix⟩
        have : linAt (captureOf s2) s₁ = s₁.linear := by
          unfold linAt; rw [hsus1]; simp
        rw [this, show s2.linear = b.linear by rw [hbl, hs2]; rfl]
        exact hf.lin
      have hre := restore_exact_vm s2 s₁ hext
      have he2 : TExt s2 s₁ := q3.trans hf.ext
      have hidx : mainFn < s2.fns.length := by have := hw2.two; show 0 < s2.fns.length; omega
      have hfo : fnOf s₁ mainFn = fnOf s2 mainFn := he2.fnOf mainFn hidx
      obtain ⟨sx, hsx0⟩ : ∃ sx : St, sx = park (restoreSt (captureOf s2) s₁) := ⟨_, rfl⟩
      rw [← hsx0]
      have hsx := hsx0
      rw [hre] at hsx
      have e1 : sx.fns = s₁.fns := by rw [hsx]; rfl
      have e2 : sx.loops = s₁.loops := by rw [hsx]; rfl
      have e3 : sx.curfunc = mainFn := by rw [hsx, hs2]; rfl
      have hfx : fnOf sx mainFn = fnOf s2 mainFn := by
        rw [← hfo]; simp only [VM.fnOf, e1]
      have hux : (fnOf sx mainFn).user = false := by rw [hfx, hmain]; exact hu
      have hwx : WF sx := by
        have he' : TExt { s₁ with data := [] } sx := TExt.same e1 e2
        refine hf.tab.mk' he' (fun id h1 h2 => ?_) ?_ ?_ ?_ ?_ ?_
        · have : sx.fns.length = s₁.fns.length := by rw [e1]
          have : ({ s₁ with data := [] } : St).fns.length = s₁.fns.length := rfl
          omega
        · rw [hsx]; exact hf.tab.loopstack
        · rw [hsx]; exact hf.tab.scopes
        · rw [hsx]; exact hf.tab.heap
        · rw [hsx]; exact hf.tab.lazies
        · rw [hsx]; show ∀ c ∈ s2.data, _; rw [hs2]; show ∀ c ∈ s1.data, _; rw [hd]; intro c hc; cases hc
      refine ⟨hwx, ⟨hux, ?_, ?_, ?_⟩, by rw [hsx, hs2]; exact hd, by rw [hsx, hs2]; rfl, by rw [hsx, hs2]; exact ha,
        hwx.loopstack, e3, by rw [hsx]; exact hsus2⟩
      · rw [hfx, hcodeM]
        have : (szS s1).le (szS sx) := by
          have := he2.sz
          rw [hsz] at this
          exact ⟨Nat.le_trans this.1 (by show s₁.loops.length ≤ sx.loops.length; rw [e2]; exact Nat.le_refl _),
            Nat.le_trans this.2 (by show s₁.fns.length ≤ sx.fns.length; rw [e1]; exact Nat.le_refl _)⟩
        exact (AllOK.append hold hcode).mono this
      · rw [hfx, hcodeM]
        refine idsIn_mono hidsM (Nat.le_refl _) ?_
        rw [e2, ← hloops]; exact he2.loops_len
      · have hcs : curSize sx = ((fnOf sx mainFn).code.length : Int) := by simp [curSize, e3, hux]
        rw [← hcs, hsx]; rfl

/-! ## One text that ends in an error -/

/-- **A text of the grammar that ends in an error**, served by an interpreter that satisfies the
invariants and is at rest: the error has a fault — a state `s₀` of the run that satisfies the
run-time invariant, the instruction `i` fetched there, the state `s₁` its failing `exec` left —
and if `s₁` is `FaultOK` (it is when `i` is not a call instruction: `faultOK_simple`) the
interpreter is served again: table invariant, `mainfunc`, AT REST with the three stacks exactly
those of entry. -/
theorem runText_err (fuel : Nat) (es : List Expr) (s s' : St) (v : String) (tr : List String) (d : String) (alive : Bool)
    (hs : Served s) (hok : okLs es = true) (h : runText fuel es s = (Outcome.done "err" v tr d, s', alive)) :
    ∃ b s₀ top rest i m s₁, b.main = true ∧ WF s₀ ∧ Running b s₀ top rest ∧
      (fnOf s₀ s₀.curfunc).code[s₀.pc.toNat]? = some i ∧ (exec m i).run s₀ = (.error .err, s₁) ∧
      (FaultOK b s₀ s₁ → Served s') := by
  obtain ⟨hw, hm, ⟨hd, hl, ha, hls, hcf, hpc⟩, hsusp⟩ := hs
  obtain ⟨s0, hs0⟩ : ∃ s0 : St, s0 = { s with trace := [] } := ⟨_, rfl⟩
  have hw0 : WF s0 := by
    rw [hs0]
    exact hw.mk' (TExt.same rfl rfl) (fun id h1 h2 => absurd h2 (Nat.not_lt.mpr h1)) hw.loopstack hw.scopes hw.heap hw.lazies hw.data
  rcases hload : (runGen (compileBegin (isFnScope s0) {} es)).run s0 with ⟨r, s1⟩
  cases r with
  | error e =>
    exfalso
    unfold runText at h
    rw [← hs0] at h
    simp only [hload] at h
    have := congrArg (fun x => x.1) h
    simp at this
  | ok ct =>
    obtain ⟨code, t⟩ := ct
    rw [hs0] at hload
    rw [runText_loaded fuel es s s1 code t hpc hload] at h
    rw [← hs0] at hload
    rcases hr : (run fuel).run (loaded s1 code) with ⟨r, s3⟩
    rw [hr] at h
    have hcls : r = .error .err ∧ s3 = s' := by
      cases r with
      | ok val => simp only [finishRun] at h; have := congrArg (fun x => x.1) h; simp at this
      | error e =>
        cases e with
        | err => simp only [finishRun] at h; cases h; exact ⟨rfl, rfl⟩
        | panic => simp only [finishRun] at h; have := congrArg (fun x => x.1) h; simp at this
        | timeout => simp only [finishRun] at h; have := congrArg (fun x => x.1) h; simp at this
    obtain ⟨rfl, rfl⟩ := hcls
    obtain ⟨hw1, he1, d1, l1, a1, c1, p1, _, hcode, hids, as, τ, hfrag, h0, _⟩ := load_ok (isFnScope s0) es code t hw0 hok hload
    have hidx : mainFn < s0.fns.length := by have := hw0.two; show 0 < s0.fns.length; omega
    have hfo : fnOf s1 mainFn = fnOf s mainFn := by rw [he1.fnOf mainFn hidx, hs0]; rfl
    have hsz : (szS s).le (szS s1) := by have := he1.sz; rw [hs0] at this; exact this
    obtain ⟨b, s₀, top, rest, i, m, s₁, q0, q1, q2, q3, q4, q5⟩ := run_loaded_err code as s0.loops.length fuel s3 hw1
      (by rw [d1, hs0]; exact hd) (by rw [a1, hs0]; exact ha) (by rw [load_susp _ _ hload, hs0]; exact hsusp)
      (by rw [hfo]; exact hm.user) (by rw [hfo]; exact hm.code.mono hsz)
      (by rw [hfo, hs0]; exact hm.ids) hids he1.loops_len (by rw [p1, hfo, hs0]; exact hm.pc) hcode hfrag h0 hr
    refine ⟨b, s₀, top, rest, i, m, s₁, q0, q1, q2, q3, q4, fun hf => ?_⟩
    obtain ⟨r1, r2, r3, r4, r5, r6, r7, r8⟩ := q5 hf
    refine ⟨r1, r2, ⟨r3, by rw [r4, l1, hs0]; exact hl, r5, r6, r7, ?_⟩, r8⟩
    have hcs : curSize s3 = ((fnOf s3 mainFn).code.length : Int) := by
      simp [curSize, r7, r2.user]
    rw [hcs, r2.pc]
    exact Int.le_refl _

/-- (C1 at the level of texts) **an error raised by a non-call instruction — at any depth of
activations of the outermost loop, in the code of the top-level text or of any function called
in that loop — leaves the interpreter served and at rest**: the fault of `runText_err`, and if
its instruction is not `callArr`/`callExpr` (an unbound symbol, a failed `break`, a type error
of an assignment, a wrong-arity tail call …) the conclusion holds outright. -/
theorem runText_err_simple_partial (fuel : Nat) (es : List Expr) (s s' : St) (v : String) (tr : List String) (d : String)
    (alive : Bool) (hs : Served s) (hok : okLs es = true)
    (h : runText fuel es s = (Outcome.done "err" v tr d, s', alive)) :
    ∃ b s₀ top rest i m s₁, b.main = true ∧ WF s₀ ∧ Running b s₀ top rest ∧
      (fnOf s₀ s₀.curfunc).code[s₀.pc.toNat]? = some i ∧ (exec m i).run s₀ = (.error .err, s₁) ∧
      (simple i = true → Served s') := by
  obtain ⟨b, s₀, top, rest, i, m, s₁, q0, q1, q2, q3, q4, q5⟩ := runText_err fuel es s s' v tr d alive hs hok h
  refine ⟨b, s₀, top, rest, i, m, s₁, q0, q1, q2, q3, q4, fun hsi => q5 ?_⟩
  cases m with
  | zero => simp only [VM.exec, run_throw] at q4; cases q4
  | succ n => exact faultOK_simple q1 q2 q3 hsi n .err q4

/-- what (C2) has to provide: a failing CALL instruction (`callArr`, `callExpr`) fetched by a
`Running` loop leaves a `FaultOK` state — the nested evaluators restore on every error path -/
def CallFaultOK : Prop :=
  ∀ (b : Base) (s₀ s₁ : St) (top : Act) (rest : List Act) (i : Instr) (m : Nat), WF s₀ → Running b s₀ top rest →
    (fnOf s₀ s₀.curfunc).code[s₀.pc.toNat]? = some i → simple i = false →
    (exec m i).run s₀ = (.error .err, s₁) → FaultOK b s₀ s₁

/-- with it, the served states are closed under erroring texts -/
theorem runText_err_served (hcall : CallFaultOK) (fuel : Nat) (es : List Expr) (s s' : St) (v : String) (tr : List String)
    (d : String) (alive : Bool) (hs : Served s) (hok : okLs es = true)
    (h : runText fuel es s = (Outcome.done "err" v tr d, s', alive)) : Served s' := by
  obtain ⟨b, s₀, top, rest, i, m, s₁, _, q1, q2, q3, q4, q5⟩ := runText_err fuel es s s' v tr d alive hs hok h
  apply q5
  cases hsi : simple i with
  | true =>
    cases m with
    | zero => simp only [VM.exec, run_throw] at q4; cases q4
    | succ n => exact faultOK_simple q1 q2 q3 hsi n .err q4
  | false => exact hcall b s₀ s₁ top rest i m q1 q2 q3 hsi q4

end ZygoVerif.RunInv
