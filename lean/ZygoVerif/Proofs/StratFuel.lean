/-
C06, Pratt loop = stratified grammar, part 2: the stratified recursive-descent parser of
Spec/Stratified.lean without its fuel. More fuel never changes a result (`mono`);
`SS`/`SC`/`SO`/`SOne`/`SSel` — "returns … with enough fuel" — satisfy the grammar's equations
  E_k ::= E_{k+1} chain_k,  operand ::= prefix-op E_above | atom,  …
and `SClimb lvls x ts r`: the operand `x` is carried through the chains of the levels `lvls`,
tightest first (`SS_iff_climb`: a level list parses an operand, then climbs).
-/
import ZygoVerif.Spec.Stratified
import ZygoVerif.Proofs.PrattFuel
namespace ZygoVerif.Stratified
open ZygoVerif.Pratt (Sx staleOf countNamed selShape)

theorem splitColonTail_eq : ∀ xs : List Sx, splitColonTail xs = Pratt.splitColonTail xs
  | [] => rfl
  | .lab n :: ts => by simp [splitColonTail, Pratt.splitColonTail, splitColonTail_eq ts]
  | .sym n :: ts => by simp [splitColonTail, Pratt.splitColonTail, splitColonTail_eq ts]
  | .dot n :: ts => by simp [splitColonTail, Pratt.splitColonTail, splitColonTail_eq ts]
  | .lit n :: ts => by simp [splitColonTail, Pratt.splitColonTail, splitColonTail_eq ts]
  | .other u n :: ts => by simp [splitColonTail, Pratt.splitColonTail, splitColonTail_eq ts]
  | .arr xs :: ts => by simp [splitColonTail, Pratt.splitColonTail, splitColonTail_eq ts]
  | .list xs :: ts => by simp [splitColonTail, Pratt.splitColonTail, splitColonTail_eq ts]
  | .comma :: ts => by simp [splitColonTail, Pratt.splitColonTail, splitColonTail_eq ts]
  | .semi :: ts => by simp [splitColonTail, Pratt.splitColonTail, splitColonTail_eq ts]
  | .hash :: ts => by simp [splitColonTail, Pratt.splitColonTail, splitColonTail_eq ts]
  | .null :: ts => by simp [splitColonTail, Pratt.splitColonTail, splitColonTail_eq ts]

/-! ## more fuel never changes a result -/

theorem mono_step (G : Grammar) : ∀ f,
    (∀ E lvls ts r, strat G E f lvls ts = some r → strat G E (f + 1) lvls ts = some r) ∧
    (∀ E lv rest x ts r, chain G E f lv rest x ts = some r → chain G E (f + 1) lv rest x ts = some r) ∧
    (∀ E ts r, operand G E f ts = some r → operand G E (f + 1) ts = some r) ∧
    (∀ ts r, single G f ts = some r → single G (f + 1) ts = some r) ∧
    (∀ t r, selector G f t = some r → selector G (f + 1) t = some r) := by
  intro f
  induction f with
  | zero =>
    exact ⟨fun _ _ _ _ h => by simp [strat] at h, fun _ _ _ _ _ _ h => by simp [chain] at h,
      fun _ _ _ h => by simp [operand] at h, fun _ _ h => by simp [single] at h, fun _ _ h => by simp [selector] at h⟩
  | succ f ih =>
    obtain ⟨ihS, ihC, ihO, ih1, ihSel⟩ := ih
    refine ⟨?_, ?_, ?_, ?_, ?_⟩
    · intro E lvls ts r h
      cases lvls with
      | nil => rw [strat.eq_2] at h ⊢; exact ihO _ _ _ h
      | cons lv rest =>
        rw [strat.eq_3] at h ⊢
        cases hx : strat G E f rest ts with
        | none => rw [hx] at h; cases h
        | some p =>
          obtain ⟨x, ts1⟩ := p
          rw [hx] at h
          rw [ihS _ _ _ _ hx]
          exact ihC _ _ _ _ _ _ h
    · intro E lv rest x ts r h
      cases ts with
      | nil => rw [chain.eq_2] at h ⊢; exact h
      | cons t ts =>
        rw [chain.eq_3] at h ⊢
        cases ha : actOf G lv t with
        | none => rw [ha] at h; exact h
        | some a =>
          rw [ha] at h
          cases a with
          | bin out =>
            simp only at h ⊢
            by_cases hr : lv.right = true
            · rw [if_pos hr] at h ⊢
              cases hy : strat G E f (lv :: rest) ts with
              | none => rw [hy] at h; cases h
              | some p => rw [hy] at h; rw [ihS _ _ _ _ hy]; exact h
            · rw [if_neg hr] at h ⊢
              cases hy : strat G E f rest ts with
              | none => rw [hy] at h; cases h
              | some p =>
                obtain ⟨y, ts1⟩ := p
                rw [hy] at h
                rw [ihS _ _ _ _ hy]
                exact ihC _ _ _ _ _ _ h
          | post name => exact ihC _ _ _ _ _ _ h
          | field => exact ihC _ _ _ _ _ _ h
          | drop => exact ihC _ _ _ _ _ _ h
          | index =>
            simp only at h ⊢
            cases hs : selector G f t with
            | none => rw [hs] at h; cases h
            | some sel => rw [hs] at h; rw [ihSel _ _ hs]; exact ihC _ _ _ _ _ _ h
    · intro E ts r h
      cases ts with
      | nil => rw [operand.eq_2] at h ⊢; exact h
      | cons t ts =>
        rw [operand.eq_3] at h ⊢
        cases hp : prefixOf t G with
        | none => rw [hp] at h; exact h
        | some p =>
          obtain ⟨out, above⟩ := p
          rw [hp] at h
          simp only at h ⊢
          cases hx : strat G E f above ts with
          | none => rw [hx] at h; cases h
          | some q => rw [hx] at h; rw [ihS _ _ _ _ hx]; exact h
    · intro ts r h
      rw [single.eq_2] at h ⊢
      cases hx : strat G (ts.getLast?.getD Sx.null) f G ts with
      | none => rw [hx] at h; cases h
      | some p => rw [ihS _ _ _ _ hx]; rw [hx] at h; exact h
    · intro t r h
      cases t with
      | arr xs =>
        rw [selector.eq_2] at h ⊢
        by_cases h1 : (List.filter (fun x => x.isNamed ":") (splitColonTail xs)).length > 1
        · rw [if_pos h1] at h; cases h
        · rw [if_neg h1] at h ⊢
          by_cases h2 : ((List.filter (fun x => x.isNamed ":") (splitColonTail xs)).length == 1) = true
          · rw [if_pos h2] at h ⊢
            simp only at h ⊢
            have key : ∀ (l : List Sx) (s : List Sx),
                (if l.isEmpty = true then some [] else Option.map (fun x => [x]) (single G f l)) = some s →
                (if l.isEmpty = true then some [] else Option.map (fun x => [x]) (single G (f + 1) l)) = some s := by
              intro l s hh
              by_cases he : l.isEmpty = true
              · rw [if_pos he] at hh ⊢; exact hh
              · rw [if_neg he] at hh ⊢
                cases hp : single G f l with
                | none => rw [hp] at hh; cases hh
                | some y => rw [hp] at hh; rw [ih1 _ _ hp]; exact hh
            cases hb : (if (List.takeWhile (fun t => !t.isNamed ":") (splitColonTail xs)).isEmpty = true then some []
                else Option.map (fun x => [x]) (single G f (List.takeWhile (fun t => !t.isNamed ":") (splitColonTail xs)))) with
            | none => rw [hb] at h; cases h
            | some s =>
              rw [hb] at h
              rw [key _ _ hb]
              simp only at h ⊢
              cases ha : (if (List.dropWhile (fun t => !t.isNamed ":") (splitColonTail xs)).tail.isEmpty = true then some []
                  else Option.map (fun x => [x]) (single G f (List.dropWhile (fun t => !t.isNamed ":") (splitColonTail xs)).tail)) with
              | none => rw [ha] at h; cases h
              | some e => rw [ha] at h; rw [key _ _ ha]; exact h
          · rw [if_neg h2] at h ⊢
            by_cases h3 : (splitColonTail xs).length ≤ 1
            · rw [if_pos h3] at h ⊢; exact h
            · rw [if_neg h3] at h ⊢
              cases hx : strat G ((splitColonTail xs).getLast?.getD Sx.null) f G (splitColonTail xs) with
              | none => rw [hx] at h; cases h
              | some p => rw [ihS _ _ _ _ hx]; rw [hx] at h; exact h
      | _ => simp only [selector] at h ⊢; exact h

theorem mono (G : Grammar) {f f' : Nat} (hle : f ≤ f') :
    (∀ E lvls ts r, strat G E f lvls ts = some r → strat G E f' lvls ts = some r) ∧
    (∀ E lv rest x ts r, chain G E f lv rest x ts = some r → chain G E f' lv rest x ts = some r) ∧
    (∀ E ts r, operand G E f ts = some r → operand G E f' ts = some r) ∧
    (∀ ts r, single G f ts = some r → single G f' ts = some r) ∧
    (∀ t r, selector G f t = some r → selector G f' t = some r) := by
  induction hle with
  | refl => exact ⟨fun _ _ _ _ h => h, fun _ _ _ _ _ _ h => h, fun _ _ _ h => h, fun _ _ h => h, fun _ _ h => h⟩
  | step _ ih =>
    obtain ⟨a, b, c, d, e⟩ := ih
    obtain ⟨a', b', c', d', e'⟩ := mono_step G _
    exact ⟨fun _ _ _ _ h => a' _ _ _ _ (a _ _ _ _ h), fun _ _ _ _ _ _ h => b' _ _ _ _ _ _ (b _ _ _ _ _ _ h),
      fun _ _ _ h => c' _ _ _ (c _ _ _ h), fun _ _ h => d' _ _ (d _ _ h), fun _ _ h => e' _ _ (e _ _ h)⟩

/-! ## "returns … with enough fuel" -/

def SS (G : Grammar) (E : Sx) (lvls : Grammar) (ts : List Sx) (r : Sx × List Sx) : Prop := ∃ f, strat G E f lvls ts = some r
def SC (G : Grammar) (E : Sx) (lv : Level) (rest : Grammar) (x : Sx) (ts : List Sx) (r : Sx × List Sx) : Prop :=
  ∃ f, chain G E f lv rest x ts = some r
def SO (G : Grammar) (E : Sx) (ts : List Sx) (r : Sx × List Sx) : Prop := ∃ f, operand G E f ts = some r
def SOne (G : Grammar) (ts : List Sx) (x : Sx) : Prop := ∃ f, single G f ts = some x
def SSel (G : Grammar) (t : Sx) (s : Sx) : Prop := ∃ f, selector G f t = some s

section Eqns
variable {G : Grammar} {E : Sx}

theorem SS_nil {ts : List Sx} {r : Sx × List Sx} : SS G E [] ts r ↔ SO G E ts r := by
  constructor
  · rintro ⟨f, h⟩
    cases f with
    | zero => simp [strat] at h
    | succ f => rw [strat.eq_2] at h; exact ⟨f, h⟩
  · rintro ⟨f, h⟩; exact ⟨f + 1, by rw [strat.eq_2]; exact h⟩

theorem SS_cons {lv : Level} {rest : Grammar} {ts : List Sx} {r : Sx × List Sx} :
    SS G E (lv :: rest) ts r ↔ ∃ x ts1, SS G E rest ts (x, ts1) ∧ SC G E lv rest x ts1 r := by
  constructor
  · rintro ⟨f, h⟩
    cases f with
    | zero => simp [strat] at h
    | succ f =>
      rw [strat.eq_3] at h
      cases hx : strat G E f rest ts with
      | none => rw [hx] at h; cases h
      | some p => obtain ⟨x, ts1⟩ := p; rw [hx] at h; exact ⟨x, ts1, ⟨f, hx⟩, ⟨f, h⟩⟩
  · rintro ⟨x, ts1, ⟨f1, h1⟩, ⟨f2, h2⟩⟩
    have g1 := (mono G (Nat.le_max_left f1 f2)).1 _ _ _ _ h1
    have g2 := (mono G (Nat.le_max_right f1 f2)).2.1 _ _ _ _ _ _ h2
    exact ⟨max f1 f2 + 1, by rw [strat.eq_3, g1]; exact g2⟩

theorem SO_nil {r : Sx × List Sx} : SO G E [] r ↔ r = (E, []) := by
  constructor
  · rintro ⟨f, h⟩
    cases f with
    | zero => simp [operand] at h
    | succ f => rw [operand.eq_2] at h; exact (Option.some.inj h).symm
  · rintro rfl; exact ⟨1, by rw [operand.eq_2]⟩

theorem SO_atom {t : Sx} {ts : List Sx} {r : Sx × List Sx} (hp : prefixOf t G = none) :
    SO G E (t :: ts) r ↔ r = (t, ts) := by
  constructor
  · rintro ⟨f, h⟩
    cases f with
    | zero => simp [operand] at h
    | succ f => rw [operand.eq_3, hp] at h; exact (Option.some.inj h).symm
  · rintro rfl; exact ⟨1, by rw [operand.eq_3, hp]⟩

theorem SO_pre {t : Sx} {ts : List Sx} {r : Sx × List Sx} {out : String} {above : Grammar}
    (hp : prefixOf t G = some (out, above)) :
    SO G E (t :: ts) r ↔ ∃ x ts1, SS G E above ts (x, ts1) ∧ r = (.list [.sym out, x], ts1) := by
  constructor
  · rintro ⟨f, h⟩
    cases f with
    | zero => simp [operand] at h
    | succ f =>
      rw [operand.eq_3, hp] at h
      simp only at h
      cases hx : strat G E f above ts with
      | none => rw [hx] at h; cases h
      | some p => obtain ⟨x, ts1⟩ := p; rw [hx] at h; exact ⟨x, ts1, ⟨f, hx⟩, (Option.some.inj h).symm⟩
  · rintro ⟨x, ts1, ⟨f, h⟩, rfl⟩
    exact ⟨f + 1, by rw [operand.eq_3, hp]; simp only; rw [h]⟩

theorem SC_nil {lv : Level} {rest : Grammar} {x : Sx} {r : Sx × List Sx} : SC G E lv rest x [] r ↔ r = (x, []) := by
  constructor
  · rintro ⟨f, h⟩
    cases f with
    | zero => simp [chain] at h
    | succ f => rw [chain.eq_2] at h; exact (Option.some.inj h).symm
  · rintro rfl; exact ⟨1, by rw [chain.eq_2]⟩

theorem SC_pass {lv : Level} {rest : Grammar} {x t : Sx} {ts : List Sx} {r : Sx × List Sx} (ha : actOf G lv t = none) :
    SC G E lv rest x (t :: ts) r ↔ r = (x, t :: ts) := by
  constructor
  · rintro ⟨f, h⟩
    cases f with
    | zero => simp [chain] at h
    | succ f => rw [chain.eq_3, ha] at h; exact (Option.some.inj h).symm
  · rintro rfl; exact ⟨1, by rw [chain.eq_3, ha]⟩

theorem SC_binL {lv : Level} {rest : Grammar} {x t : Sx} {ts : List Sx} {r : Sx × List Sx} {out : String}
    (ha : actOf G lv t = some (.bin out)) (hr : lv.right = false) :
    SC G E lv rest x (t :: ts) r ↔ ∃ y ts1, SS G E rest ts (y, ts1) ∧ SC G E lv rest (.list [.sym out, x, y]) ts1 r := by
  have hr' : ¬ lv.right = true := by simp [hr]
  constructor
  · rintro ⟨f, h⟩
    cases f with
    | zero => simp [chain] at h
    | succ f =>
      rw [chain.eq_3, ha] at h
      simp only [if_neg hr'] at h
      cases hy : strat G E f rest ts with
      | none => rw [hy] at h; cases h
      | some p => obtain ⟨y, ts1⟩ := p; rw [hy] at h; exact ⟨y, ts1, ⟨f, hy⟩, ⟨f, h⟩⟩
  · rintro ⟨y, ts1, ⟨f1, h1⟩, ⟨f2, h2⟩⟩
    have g1 := (mono G (Nat.le_max_left f1 f2)).1 _ _ _ _ h1
    have g2 := (mono G (Nat.le_max_right f1 f2)).2.1 _ _ _ _ _ _ h2
    exact ⟨max f1 f2 + 1, by rw [chain.eq_3, ha]; simp only [if_neg hr']; rw [g1]; exact g2⟩

theorem SC_binR {lv : Level} {rest : Grammar} {x t : Sx} {ts : List Sx} {r : Sx × List Sx} {out : String}
    (ha : actOf G lv t = some (.bin out)) (hr : lv.right = true) :
    SC G E lv rest x (t :: ts) r ↔ ∃ y ts1, SS G E (lv :: rest) ts (y, ts1) ∧ r = (.list [.sym out, x, y], ts1) := by
  constructor
  · rintro ⟨f, h⟩
    cases f with
    | zero => simp [chain] at h
    | succ f =>
      rw [chain.eq_3, ha] at h
      simp only [if_pos hr] at h
      cases hy : strat G E f (lv :: rest) ts with
      | none => rw [hy] at h; cases h
      | some p => obtain ⟨y, ts1⟩ := p; rw [hy] at h; exact ⟨y, ts1, ⟨f, hy⟩, (Option.some.inj h).symm⟩
  · rintro ⟨y, ts1, ⟨f, h⟩, rfl⟩
    exact ⟨f + 1, by rw [chain.eq_3, ha]; simp only [if_pos hr]; rw [h]⟩

/-- the operators without a right operand: the chain goes on with a new left tree -/
theorem SC_noarg {lv : Level} {rest : Grammar} {x t : Sx} {ts : List Sx} {r : Sx × List Sx} :
    (∀ name, actOf G lv t = some (.post name) → (SC G E lv rest x (t :: ts) r ↔ SC G E lv rest (.list [.sym name, x]) ts r)) ∧
    (actOf G lv t = some .field → (SC G E lv rest x (t :: ts) r ↔ SC G E lv rest (.list [.sym "hashidx", x, t]) ts r)) ∧
    (actOf G lv t = some .drop → (SC G E lv rest x (t :: ts) r ↔ SC G E lv rest t ts r)) := by
  refine ⟨fun name ha => ⟨?_, ?_⟩, fun ha => ⟨?_, ?_⟩, fun ha => ⟨?_, ?_⟩⟩
  all_goals first
    | (rintro ⟨f, h⟩
       cases f with
       | zero => simp [chain] at h
       | succ f => rw [chain.eq_3, ha] at h; exact ⟨f, h⟩)
    | (rintro ⟨f, h⟩; exact ⟨f + 1, by rw [chain.eq_3, ha]; exact h⟩)

theorem SC_index {lv : Level} {rest : Grammar} {x t : Sx} {ts : List Sx} {r : Sx × List Sx}
    (ha : actOf G lv t = some .index) :
    SC G E lv rest x (t :: ts) r ↔ ∃ sel, SSel G t sel ∧ SC G E lv rest (.list [.sym "arrayidx", x, sel]) ts r := by
  constructor
  · rintro ⟨f, h⟩
    cases f with
    | zero => simp [chain] at h
    | succ f =>
      rw [chain.eq_3, ha] at h
      simp only at h
      cases hs : selector G f t with
      | none => rw [hs] at h; cases h
      | some sel => rw [hs] at h; exact ⟨sel, ⟨f, hs⟩, ⟨f, h⟩⟩
  · rintro ⟨sel, ⟨f1, h1⟩, ⟨f2, h2⟩⟩
    have g1 := (mono G (Nat.le_max_left f1 f2)).2.2.2.2 _ _ h1
    have g2 := (mono G (Nat.le_max_right f1 f2)).2.1 _ _ _ _ _ _ h2
    exact ⟨max f1 f2 + 1, by rw [chain.eq_3, ha]; simp only; rw [g1]; exact g2⟩

/-! ## selectors -/

theorem SOne_iff {ts : List Sx} {x : Sx} : SOne G ts x ↔ SS G (staleOf ts) G ts (x, []) := by
  constructor
  · rintro ⟨f, h⟩
    cases f with
    | zero => simp [single] at h
    | succ f =>
      rw [single.eq_2] at h
      cases hx : strat G (ts.getLast?.getD Sx.null) f G ts with
      | none => rw [hx] at h; cases h
      | some p =>
        obtain ⟨x', ts1⟩ := p
        rw [hx] at h
        cases ts1 with
        | nil => simp only [Option.some.injEq] at h; subst h; exact ⟨f, hx⟩
        | cons a b => cases h
  · rintro ⟨f, h⟩
    exact ⟨f + 1, by rw [single.eq_2]; unfold staleOf at h; rw [h]⟩

theorem SSel_arr {xs : List Sx} {s : Sx} :
    SSel G (.arr xs) s ↔ selShape (SOne G) (fun toks r => SS G (staleOf toks) G toks r) (Pratt.splitColonTail xs) s := by
  rw [← splitColonTail_eq]
  unfold selShape
  simp only [countNamed]
  constructor
  · rintro ⟨f, h⟩
    cases f with
    | zero => simp [selector] at h
    | succ f =>
      rw [selector.eq_2] at h
      by_cases h1 : (List.filter (fun x => x.isNamed ":") (splitColonTail xs)).length > 1
      · rw [if_pos h1] at h; cases h
      · rw [if_neg h1] at h
        refine ⟨h1, ?_⟩
        by_cases h2 : ((List.filter (fun x => x.isNamed ":") (splitColonTail xs)).length == 1) = true
        · rw [if_pos h2] at h ⊢
          simp only at h
          have key : ∀ (l : List Sx) (o : List Sx),
              (if l.isEmpty = true then some [] else Option.map (fun x => [x]) (single G f l)) = some o →
              (if l.isEmpty = true then o = [] else ∃ y, SOne G l y ∧ o = [y]) := by
            intro l o hh
            by_cases he : l.isEmpty = true
            · rw [if_pos he] at hh ⊢; exact (Option.some.inj hh).symm
            · rw [if_neg he] at hh ⊢
              cases hp : single G f l with
              | none => rw [hp] at hh; cases hh
              | some y => rw [hp] at hh; exact ⟨y, ⟨f, hp⟩, (Option.some.inj hh).symm⟩
          cases hb : (if (List.takeWhile (fun t => !t.isNamed ":") (splitColonTail xs)).isEmpty = true then some []
              else Option.map (fun x => [x]) (single G f (List.takeWhile (fun t => !t.isNamed ":") (splitColonTail xs)))) with
          | none => rw [hb] at h; cases h
          | some sb =>
            rw [hb] at h
            simp only at h
            cases ha : (if (List.dropWhile (fun t => !t.isNamed ":") (splitColonTail xs)).tail.isEmpty = true then some []
                else Option.map (fun x => [x]) (single G f (List.dropWhile (fun t => !t.isNamed ":") (splitColonTail xs)).tail)) with
            | none => rw [ha] at h; cases h
            | some se =>
              rw [ha] at h
              exact ⟨sb, se, key _ _ hb, key _ _ ha, (Option.some.inj h).symm⟩
        · rw [if_neg h2] at h ⊢
          by_cases h3 : (splitColonTail xs).length ≤ 1
          · rw [if_pos h3] at h ⊢; exact (Option.some.inj h).symm
          · rw [if_neg h3] at h ⊢
            cases hx : strat G ((splitColonTail xs).getLast?.getD Sx.null) f G (splitColonTail xs) with
            | none => rw [hx] at h; cases h
            | some p =>
              obtain ⟨x, ts1⟩ := p
              rw [hx] at h
              refine ⟨x, ts1, ⟨f, hx⟩, ?_⟩
              cases ts1 with
              | nil => exact (Option.some.inj h).symm
              | cons a b => exact (Option.some.inj h).symm
  · rintro ⟨h1, h⟩
    by_cases h2 : ((List.filter (fun x => x.isNamed ":") (splitColonTail xs)).length == 1) = true
    · rw [if_pos h2] at h
      obtain ⟨sb, se, hb, ha, rfl⟩ := h
      have key : ∀ (l : List Sx) (o : List Sx),
          (if l.isEmpty = true then o = [] else ∃ y, SOne G l y ∧ o = [y]) →
          ∃ f0, ∀ f, f0 ≤ f → (if l.isEmpty = true then some [] else Option.map (fun x => [x]) (single G f l)) = some o := by
        intro l o hh
        by_cases he : l.isEmpty = true
        · rw [if_pos he] at hh; exact ⟨0, fun f _ => by rw [if_pos he, hh]⟩
        · rw [if_neg he] at hh
          obtain ⟨y, ⟨f0, hp⟩, rfl⟩ := hh
          exact ⟨f0, fun f hf => by rw [if_neg he, (mono G hf).2.2.2.1 _ _ hp]; rfl⟩
      obtain ⟨f1, k1⟩ := key _ _ hb
      obtain ⟨f2, k2⟩ := key _ _ ha
      refine ⟨max f1 f2 + 1, ?_⟩
      rw [selector.eq_2]
      rw [if_neg h1, if_pos h2]
      simp only
      rw [k1 _ (Nat.le_max_left f1 f2), k2 _ (Nat.le_max_right f1 f2)]
    · rw [if_neg h2] at h
      by_cases h3 : (splitColonTail xs).length ≤ 1
      · rw [if_pos h3] at h
        exact ⟨1, by rw [selector.eq_2]; rw [if_neg h1, if_neg h2, if_pos h3, h]⟩
      · rw [if_neg h3] at h
        obtain ⟨x, ts1, ⟨f, hx⟩, rfl⟩ := h
        refine ⟨f + 1, ?_⟩
        rw [selector.eq_2]
        rw [if_neg h1, if_neg h2, if_neg h3]
        unfold staleOf at hx
        rw [hx]
        cases ts1 <;> rfl

/-! ## climbing the levels -/

/-- the operand `x` followed by `ts` is carried through the chains of `lvls`, tightest level first -/
def SClimb (G : Grammar) (E : Sx) : Grammar → Sx → List Sx → Sx × List Sx → Prop
  | [], x, ts, r => r = (x, ts)
  | lv :: rest, x, ts, r => ∃ y ts1, SClimb G E rest x ts (y, ts1) ∧ SC G E lv rest y ts1 r

/-- a level list parses an operand and climbs -/
theorem SS_iff_climb (lvls : Grammar) (ts : List Sx) (r : Sx × List Sx) :
    SS G E lvls ts r ↔ ∃ x ts1, SO G E ts (x, ts1) ∧ SClimb G E lvls x ts1 r := by
  induction lvls generalizing r with
  | nil =>
    rw [SS_nil]
    constructor
    · intro h; exact ⟨r.1, r.2, h, rfl⟩
    · rintro ⟨x, ts1, h, rfl⟩; exact h
  | cons lv rest ih =>
    rw [SS_cons]
    constructor
    · rintro ⟨y, ts2, h1, h2⟩
      obtain ⟨x, ts1, g1, g2⟩ := (ih _).1 h1
      exact ⟨x, ts1, g1, y, ts2, g2, h2⟩
    · rintro ⟨x, ts1, g1, y, ts2, g2, h2⟩
      exact ⟨y, ts2, (ih _).2 ⟨x, ts1, g1, g2⟩, h2⟩

end Eqns

end ZygoVerif.Stratified
