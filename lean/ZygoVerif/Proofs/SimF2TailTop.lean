/-
C02, execution half — F2c at top level: program texts whose `defn`s may call themselves in tail position.
-/
import ZygoVerif.Proofs.SimF2Ind
import ZygoVerif.Proofs.SimF2Top
import ZygoVerif.Proofs.SimF2BrkTop
set_option linter.unusedSimpArgs false
set_option linter.unusedVariables false
namespace ZygoVerif.Sim
open ZygoVerif.Core ZygoVerif.VM

/-- a top-level form of F2c: a form of F2 — its loops may `break`/`continue` (`Fx [] ""`) —, or a `defn`
whose body is in tail position (`FzList true`): self tail calls under `begin`/`cond`/`let`/`letseq`/`newScope`,
loops that `break`/`continue` in the statements before -/
def Fy (e : Expr) : Bool :=
  Fx [] "" e || (match e with
    | .defn name ps rest body => okRest rest && okName name && (name != "") && decide (ps ++ rest.toList).Nodup && ps.all okParam
        && !body.isEmpty && FzList true name body
    | _ => false)

/-- the program texts of F2c -/
def FyList : List Expr → Bool
  | [] => true
  | e :: es => Fy e && FyList es

/-- the two kinds of top-level forms -/
theorem fy_cases {e : Expr} (h : Fy e = true) : Fx [] "" e = true ∨
    ∃ name ps rest body, e = .defn name ps rest body ∧ okRest rest = true ∧ okName name = true ∧ name ≠ ""
      ∧ (ps ++ rest.toList).Nodup ∧ (∀ p ∈ ps, okParam p = true) ∧ body ≠ [] ∧ FzList true name body = true := by
  unfold Fy at h
  simp only [Bool.or_eq_true] at h
  rcases h with h | h
  · exact Or.inl h
  · cases e with
    | defn name ps rest body =>
      simp only [Bool.and_eq_true, bne_iff_ne, ne_eq, decide_eq_true_eq, Bool.not_eq_true',
        List.isEmpty_eq_false_iff, List.all_eq_true] at h
      obtain ⟨⟨⟨⟨⟨⟨hrest, hname⟩, hne⟩, hnd⟩, hps⟩, hbody⟩, hfz⟩ := h
      exact Or.inr ⟨name, ps, rest, body, rfl, hrest, hname, hne, hnd, hps, hbody, hfz⟩
    | _ => simp at h

theorem compile_total_Fy {e : Expr} (he : Fy e = true) (isFn : Nat → Bool) (c : Ctx) (gs : GS) (hfn : c.funcname = "")
    (hls0 : gs.loopstack = []) :
    ∃ code t gs', (compile isFn c e).run gs = .ok ((code, t), gs') ∧ code ≠ [] ∧ TotX gs gs' code := by
  rcases fy_cases he with h | ⟨name, ps, rest, body, rfl, hrest, hname, hne, hnd, hps, hbody, hfz⟩
  · exact compile_total_Fx [] "" e h isFn c gs [] (Or.inr (Or.inl hfn)) (gsOk_nil hls0) rfl
  · obtain ⟨b, tl, g2, hb, _, hk2⟩ := compileBegin_total_Fz true name body hbody hfz isFn (bodyCtx c gs name ps rest body)
      (gsAlloc isFn gs name ps rest) (bodyCtx_funcname c gs name ps rest body) (fun _ => hls0)
    refine ⟨_, _, _, compile_defn_eq isFn c name ps rest body gs g2 b tl hne hb, by simp, keepFns_fin isFn gs g2 _ ps rest b hk2.1, ?_, ?_⟩
    · exact hk2.2.1
    · lsin

theorem compile_tot_Fy {e : Expr} (he : Fy e = true) {isFn c gs r} (hfn : c.funcname = "") (hls0 : gs.loopstack = [])
    (h : (compile isFn c e).run gs = .ok r) : r.1.1 ≠ [] ∧ TotX gs r.2 r.1.1 := by
  obtain ⟨code, t, g1, h1, hne, hk⟩ := compile_total_Fy he isFn c gs hfn hls0
  rw [h1] at h; injection h with h; subst h; exact ⟨hne, hk⟩

theorem compileBegin_total_Fy : ∀ (es : List Expr), es ≠ [] → FyList es = true → ∀ isFn c gs, c.funcname = "" →
    gs.loopstack = [] →
    ∃ code t gs', (compileBegin isFn c es).run gs = .ok ((code, t), gs') ∧ code ≠ [] ∧ TotX gs gs' code
  | [], hne, _, _, _, _, _, _ => absurd rfl hne
  | [e], _, he, isFn, c, gs, hfn, hls0 => by
    rw [FyList] at he
    simp only [Bool.and_eq_true] at he
    rw [compileBegin]
    exact compile_total_Fy he.1 isFn c gs hfn hls0
  | e :: e' :: es, _, he, isFn, c, gs, hfn, hls0 => by
    rw [FyList] at he
    simp only [Bool.and_eq_true] at he
    have hfn' : ({ c with tail := false } : Ctx).funcname = "" := hfn
    obtain ⟨a, ta, g1, ha, hane, hf1⟩ := compile_total_Fy he.1 isFn { c with tail := false } gs hfn' hls0
    obtain ⟨b, tb, g2, hb, _, hf2⟩ := compileBegin_total_Fy (e' :: es) (by simp) he.2 isFn c g1 hfn
      (by rw [hf1.1.loopstack]; exact hls0)
    refine ⟨a ++ (if a.isEmpty then [] else [.pop]) ++ b, tb, g2, ?_, by simp [hane],
      TotX.seq hf1 hf2 (fun x y hx hy => by lsin)⟩
    rw [compileBegin]
    · simp only [g_bind_ok, g_pure_ok]
      exact ⟨_, _, ha, _, _, hb, rfl⟩
    · intro hh; cases hh

theorem compileBegin_tot_Fy {es : List Expr} (hne : es ≠ []) (he : FyList es = true) {isFn c gs r} (hfn : c.funcname = "")
    (hls0 : gs.loopstack = []) (h : (compileBegin isFn c es).run gs = .ok r) : TotX gs r.2 r.1.1 := by
  obtain ⟨code, t, g1, h1, _, hk⟩ := compileBegin_total_Fy es hne he isFn c gs hfn hls0
  rw [h1] at h; injection h with h; subst h; exact hk

/-- one top-level form -/
theorem simF_Fy {n : Nat} {e : Expr} (he : Fy e = true) (isFn : Nat → Bool) (c : Ctx) (hfn : c.funcname = "") (gs : GS)
    (hls0 : gs.loopstack = [])
    (r : (List Instr × Bool) × GS) (hc : (compile isFn c e).run gs = .ok r) (m : Nat → Nat) (s : St) (rs : Ref.St) (env : Nat)
    (pre post : List Instr) (hrel : RelF m s rs env) (hgen : GenOk gs r.2 s) (hlo : LsOut pre gs.loops.length r.2.loops.length)
    (hseg : Seg s pre r.1.1 post) :
    SimF r.1.1 m s rs env (Ref.eval n e env rs) := by
  rcases fy_cases he with h | ⟨name, ps, rest, body, rfl, hrest, hname, hne, hnd, hps, hbody, hfz⟩
  · exact simF_of_simX_nil ((xclaims n).1 [] "" e h isFn c gs r hc (Or.inr (Or.inl hfn)) [] rfl (gsOk_nil hls0) m s rs env pre post
      hrel hgen (fun _ h => by cases h) hgen.loops hlo hseg)
  · cases n with
    | zero => rw [Ref.eval]; trivial
    | succ k =>
      obtain ⟨b, tl, g2, hb, _, hk2⟩ := compileBegin_total_Fz true name body hbody hfz isFn (bodyCtx c gs name ps rest body)
        (gsAlloc isFn gs name ps rest) (bodyCtx_funcname c gs name ps rest body) (fun _ => hls0)
      exact simF_defn_core name ps rest body hrest hname hne hnd hps hbody hfz (fun _ => hls0) isFn c g2 b tl hb hk2.1 r hc hrel
        hgen hseg

/-- a program text: its forms one after the other -/
theorem simF_FyList : ∀ (n : Nat) (es : List Expr), es ≠ [] → FyList es = true → ∀ isFn c gs r,
    (compileBegin isFn c es).run gs = .ok r → c.funcname = "" → gs.loopstack = [] →
    ∀ m s rs env pre post, RelF m s rs env → GenOk gs r.2 s → LsOut pre gs.loops.length r.2.loops.length →
      Seg s pre r.1.1 post → SimF r.1.1 m s rs env (Ref.evalBegin n es env rs)
  | 0, es, _, _, isFn, c, gs, r, _, _, _, m, s, rs, env, pre, post, _, _, _, _ => by rw [Ref.evalBegin]; trivial
  | n + 1, [], hne, _, _, _, _, _, _, _, _, _, _, _, _, _, _, _, _, _, _ => absurd rfl hne
  | n + 1, [e], _, hes, isFn, c, gs, r, hc, hfn, hls0, m, s, rs, env, pre, post, hrel, hgen, hlo, hseg => by
    rw [FyList] at hes
    simp only [Bool.and_eq_true] at hes
    rw [compileBegin] at hc
    rw [Ref.evalBegin]
    exact simF_Fy hes.1 isFn c hfn gs hls0 r hc m s rs env pre post hrel hgen hlo hseg
  | n + 1, e :: e' :: es', _, hes, isFn, c, gs, r, hc, hfn, hls0, m, s, rs, env, pre, post, hrel, hgen, hlo, hseg => by
    rw [FyList] at hes
    simp only [Bool.and_eq_true] at hes
    rw [compileBegin] at hc
    · simp only [g_bind_ok, g_pure_ok] at hc
      obtain ⟨ra, gs1, ha, rb, gs2, hb, rfl⟩ := hc
      have hfn' : ({ c with tail := false } : Ctx).funcname = "" := hfn
      obtain ⟨hane', tot1⟩ := compile_tot_Fy hes.1 hfn' hls0 ha
      have hls1 : gs1.loopstack = [] := by rw [tot1.1.loopstack]; exact hls0
      have tot2 := compileBegin_tot_Fy (by simp) hes.2 hfn hls1 hb
      have hane : ra.1.isEmpty = false := by simpa [List.isEmpty_eq_false_iff] using hane'
      simp only [hane, Bool.false_eq_true, if_false] at hseg hgen hlo ⊢
      rw [Ref.evalBegin]
      · have ih := simF_Fy (n := n) hes.1 isFn _ hfn' gs hls0 (ra, gs1) ha m s rs env pre ([.pop] ++ rb.1 ++ post) hrel
          (hgen.first tot2.1) (hlo.mono (Nat.le_refl _) tot2.2.1) (hseg.refocus (by simp))
        cases h1 : Ref.eval n e env rs with
        | ok v1 rs1 =>
          rw [h1] at ih
          obtain ⟨s1, m1, w1, r1, l1, hv1, rel1, hm1, ext1, fr1, hcl1⟩ := ih
          obtain ⟨r2, m2⟩ := glue_pop hseg l1
          have ih2 := simF_FyList n (e' :: es') (by simp) hes.2 isFn c gs1 (rb, gs2) hb hfn hls1 m1
            (s1.jmp (s1.pc + 1) s.data) rs1 env _ post (rel1.jmp _ _)
            ((hgen.rest tot1.1).frame (fr1.toFrame.trans (Frame.jmp s1 (s1.pc + 1) s.data)))
            ((hlo.mono tot1.2.1 (Nat.le_refl _)).app ((tot1.2.2.below (Nat.le_refl _)).app (lsOut_pop _ _)))
            (hseg.moved m2 (c₁ := ra.1 ++ [.pop]) (c₂ := rb.1) (post' := post) rfl (by simp))
          exact SimF.seq (r1.trans r2.toX) m2 hm1 ext1 (fr1.trans (FrameF.jmp _ _ _)) ih2 (by lenarith)
        | err rs1 => rw [h1] at ih; exact SimF.prefix ih (fun _ _ hh => by cases hh)
        | timeout => trivial
        | brk l rs1 => rw [h1] at ih; exact ih.elim
        | cont l rs1 => rw [h1] at ih; exact ih.elim
      · intro hh; cases hh
    · intro hh; cases hh

/-- **A non-empty F2c program text, loaded and run** from a resting top-level state related to the
reference state: `runText` reports what the reference evaluator yields. -/
theorem runText_Fy (m : Nat → Nat) (s : St) (rs : Ref.St) (p : List Expr) (hne : p ≠ []) (hp : FyList p = true)
    (hs : AtRest s) (hlin : s.linear = [some 0]) (hstack : s.loopstack = [])
    (hold : ∀ l, Instr.loopStart l ∈ (fnOf s mainFn).code → l < s.loops.length) (hrel : RelF m s rs 0) (n : Nat) :
    ∃ N, ∀ fuel, N ≤ fuel → TextOut (runText fuel p s) (Ref.evalBegin n p 0 { rs with trace := [] }) := by
  obtain ⟨code, t, gs', hc, -, hk, hls⟩ := compileBegin_total_Fy p hne hp (isFnScope (clearTrace s)) {}
    { fns := s.fns, loops := s.loops, loopstack := s.loopstack, live := s.linear } rfl hstack
  have hload : (runGen (compileBegin (isFnScope (clearTrace s)) {} p)).run (clearTrace s)
      = (.ok (code, t), withGen (clearTrace s) gs') := run_runGen_gen _ (clearTrace s) _ gs' hc
  have hsz : curSize (clearTrace s) = ((fnOf s mainFn).code.length : Int) := by
    show (if (fnOf s s.curfunc).user then (0 : Int) else ((fnOf s s.curfunc).code.length : Int)) = _
    rw [hs.cur, hs.user]; rfl
  have hpre : (if (clearTrace s).pc ≥ curSize (clearTrace s) then ([] : List Instr) else [.pop]) = [] :=
    if_pos (by rw [hsz]; show s.pc ≥ _; rw [hs.pc]; exact Int.le_refl _)
  have hmain' : gs'.fns.getD mainFn {} = fnOf s mainFn := hk.fns mainFn hs.main
  have hmlt : mainFn < gs'.fns.length := Nat.lt_of_lt_of_le hs.main hk.len
  have hfmain : fnOf (loadedF s gs' code) mainFn = { fnOf s mainFn with code := (fnOf s mainFn).code ++ code } := by
    rw [fnOf_loadedF, hpre, hmain']
    simp only [List.getElem?_set_self hmlt, Option.getD_some, List.append_nil]
  have hfother : ∀ id, id ≠ mainFn → fnOf (loadedF s gs' code) id = gs'.fns.getD id {} := fun id hid => by
    rw [fnOf_loadedF, List.getElem?_set_ne (fun e => hid e.symm), List.getD_eq_getElem?_getD]
  have hseg : Seg (loadedF s gs' code) (fnOf s mainFn).code code [] :=
    ⟨by show (fnOf (loadedF s gs' code) mainFn).user = false; rw [hfmain]; exact hs.user,
     by show (fnOf (loadedF s gs' code) mainFn).code = _; rw [hfmain]; simp, hs.pc⟩
  have hlenL : (loadedF s gs' code).fns.length = gs'.fns.length := by
    show (List.set gs'.fns mainFn _).length = _; simp
  have hkeep : FnsKeep s (loadedF s gs' code) :=
    ⟨by rw [hlenL]; exact hk.len, fun id hid hne' => by rw [hfother id hne']; exact hk.fns id hid,
     by rw [hfmain], by rw [hfmain], ⟨hk.loopsLen, hk.loopsGet⟩⟩
  have hrelL : RelF m (loadedF s gs' code) { rs with trace := [] } 0 :=
    hrel.load rfl rfl hs.cur.symm rfl rfl hkeep
  have hgen : GenOk { fns := s.fns, loops := s.loops, loopstack := s.loopstack, live := s.linear } gs' (loadedF s gs' code) :=
    ⟨hlin, hs.main, by rw [hlenL]; exact Nat.le_refl _,
     fun t' h1 _ => hfother t' (by have := hs.main; simp only at h1; omega), ⟨Nat.le_refl _, fun _ _ _ => rfl⟩⟩
  have hsim := simF_FyList n p hne hp _ {} _ ((code, t), gs') hc rfl hstack m (loadedF s gs' code)
    { rs with trace := [] } 0 (fnOf s mainFn).code [] hrelL hgen (fun l hl => Or.inl (hold l hl)) hseg
  cases hres : Ref.evalBegin n p 0 { rs with trace := [] } with
  | ok v' rs' =>
    rw [hres] at hsim
    obtain ⟨s1, m1, v, r, l, hv, rel1, -, -, -, -⟩ := hsim
    obtain ⟨N, hN⟩ := run_of_landsE hseg r l
    refine ⟨N, fun fuel hf => ?_⟩
    refine ⟨s1.jmp s1.pc (loadedF s gs' code).data, depths (s1.jmp s1.pc (loadedF s gs' code).data), ?_⟩
    have e : loadState (clearTrace s) (withGen (clearTrace s) gs') code = loadedF s gs' code := rfl
    rw [runText_eq]
    simp only [hload, e, hN fuel hf]
    have hpr : pr (s1.jmp s1.pc (loadedF s gs' code).data).heap v = pr rs'.heap v' := by
      rw [hv, rel1.heap]; exact (pr_tr m1 id id s1.heap v).symm
    rw [hpr, show (s1.jmp s1.pc (loadedF s gs' code).data).trace = rs'.trace from rel1.trace]
  | err rs' =>
    rw [hres] at hsim
    obtain ⟨N, hN⟩ := run_of_failsE hsim
    refine ⟨N, fun fuel hf => ?_⟩
    obtain ⟨sf, hrun, htr⟩ := hN fuel hf
    refine ⟨sf, depths sf, ?_⟩
    have e : loadState (clearTrace s) (withGen (clearTrace s) gs') code = loadedF s gs' code := rfl
    rw [runText_eq]
    simp only [hload, e, hrun, htr]
  | timeout => exact ⟨0, fun _ _ => trivial⟩
  | brk l rs' => rw [hres] at hsim; exact hsim.elim
  | cont l rs' => rw [hres] at hsim; exact hsim.elim

end ZygoVerif.Sim
