/-
Every integer notation, from the spelling to the reader's answer: the spelling is one atom, the
cascade of `DecodeAtom` classifies it (hex / octal / binary / decimal with underscores, signed /
uint64 suffix in base 10, 16, 8), and the conversion gives the positional value of the digits —
or a refusal when the value does not fit the type. Uses the glue of Proofs/LiteralRead.
-/
import ZygoVerif.Proofs.LiteralRead
namespace ZygoVerif.Literal
open ZygoVerif ZygoVerif.Lexer ZygoVerif.Parser ZygoVerif.NumLit ZygoVerif.Spec.DataValue
open ZygoVerif.EvalData ZygoVerif.ReadPrint

/-! ## facts about ASCII runes, by enumeration -/

theorem ascii_forall (P : Char → Prop) (h : ∀ n, n < 128 → P (Char.ofNat n)) (c : Char) (hc : c.toNat < 128) : P c := by
  have := h c.toNat hc
  rwa [Char.ofNat_toNat] at this

theorem isHexC_lt (c : Char) (h : isHexC c = true) : c.toNat < 128 := by
  simp only [isHexC, isDig, Bool.or_eq_true, Bool.and_eq_true, decide_eq_true_eq] at h
  have e9 : '9'.toNat = 57 := by decide
  have ef : 'f'.toNat = 102 := by decide
  have eF : 'F'.toNat = 70 := by decide
  rcases h with (h | h) | h
  · have h2 : c.toNat ≤ '9'.toNat := h.2
    omega
  · have h2 : c.toNat ≤ 'f'.toNat := h.2
    omega
  · have h2 : c.toNat ≤ 'F'.toNat := h.2
    omega

theorem isDigU_lt (c : Char) (h : isDigU c = true) : c.toNat < 128 := by
  simp only [isDigU, Bool.or_eq_true, beq_iff_eq] at h
  rcases h with h | rfl
  · exact isHexC_lt c (isDig_isHex c h)
  · decide

structure HexFacts (c : Char) : Prop where
  plain : isSpecial c = false
  nL : c ≠ 'L'
  nColon : c ≠ ':'
  nMinus : c ≠ '-'
  nPlus : c ≠ '+'

theorem hexFacts_table : ∀ n, n < 128 → isHexC (Char.ofNat n) = true →
    (isSpecial (Char.ofNat n) = false ∧ Char.ofNat n ≠ 'L' ∧ Char.ofNat n ≠ ':' ∧ Char.ofNat n ≠ '-' ∧ Char.ofNat n ≠ '+') := by
  decide

theorem hexFacts (c : Char) (h : isHexC c = true) : HexFacts c := by
  have := ascii_forall (fun c => isHexC c = true →
    (isSpecial c = false ∧ c ≠ 'L' ∧ c ≠ ':' ∧ c ≠ '-' ∧ c ≠ '+')) hexFacts_table c (isHexC_lt c h) h
  exact ⟨this.1, this.2.1, this.2.2.1, this.2.2.2.1, this.2.2.2.2⟩

theorem digUFacts_table : ∀ n, n < 128 → isDigU (Char.ofNat n) = true →
    (isSpecial (Char.ofNat n) = false ∧ Char.ofNat n ≠ 'L' ∧ Char.ofNat n ≠ ':') := by
  decide

theorem digUFacts (c : Char) (h : isDigU c = true) : isSpecial c = false ∧ c ≠ 'L' ∧ c ≠ ':' :=
  ascii_forall (fun c => isDigU c = true → (isSpecial c = false ∧ c ≠ 'L' ∧ c ≠ ':')) digUFacts_table c (isDigU_lt c h) h

/-! ## the digits a spelling is made of -/

theorem digitVal?_hex (base : Nat) (c : Char) (h : (digitVal? base c).isSome = true) : isHexC c = true := by
  rw [digitVal?_eq] at h
  cases hd : digitVal c with
  | none => rw [hd] at h; simp at h
  | some d =>
    unfold digitVal at hd
    simp only [isHexC, isDig, Bool.or_eq_true, Bool.and_eq_true, decide_eq_true_eq]
    split at hd
    · rename_i hc; exact Or.inl (Or.inl hc)
    · split at hd
      · rename_i hc; exact Or.inl (Or.inr hc)
      · split at hd
        · rename_i hc; exact Or.inr hc
        · cases hd

theorem digit_tables : ∀ n, n < 128 →
    ((digitVal? 10 (Char.ofNat n)).isSome = true → isDig (Char.ofNat n) = true) ∧
    ((digitVal? 8 (Char.ofNat n)).isSome = true → ('0' ≤ Char.ofNat n && Char.ofNat n ≤ '7') = true) ∧
    ((digitVal? 2 (Char.ofNat n)).isSome = true → (Char.ofNat n == '0' || Char.ofNat n == '1') = true) := by
  decide

theorem digit_classes (c : Char) :
    ((digitVal? 10 c).isSome = true → isDig c = true) ∧
    ((digitVal? 8 c).isSome = true → ('0' ≤ c && c ≤ '7') = true) ∧
    ((digitVal? 2 c).isSome = true → (c == '0' || c == '1') = true) := by
  refine ⟨fun h => ?_, fun h => ?_, fun h => ?_⟩
  · exact (ascii_forall (fun c => (digitVal? 10 c).isSome = true → isDig c = true)
      (fun n hn => (digit_tables n hn).1) c (isHexC_lt c (digitVal?_hex 10 c h))) h
  · exact (ascii_forall (fun c => (digitVal? 8 c).isSome = true → ('0' ≤ c && c ≤ '7') = true)
      (fun n hn => (digit_tables n hn).2.1) c (isHexC_lt c (digitVal?_hex 8 c h))) h
  · exact (ascii_forall (fun c => (digitVal? 2 c).isSome = true → (c == '0' || c == '1') = true)
      (fun n hn => (digit_tables n hn).2.2) c (isHexC_lt c (digitVal?_hex 2 c h))) h

theorem mapM_some_all (base : Nat) : ∀ (ds : List Char) (l : List Nat), ds.mapM (digitVal? base) = some l →
    ∀ c ∈ ds, (digitVal? base c).isSome = true := by
  intro ds
  induction ds with
  | nil => intro l _ c hc; cases hc
  | cons a r ih =>
    intro l h c hc
    simp only [List.mapM_cons] at h
    cases ha : digitVal? base a with
    | none => rw [ha] at h; simp at h
    | some d =>
      rw [ha] at h
      cases hr : r.mapM (digitVal? base) with
      | none => rw [hr] at h; simp at h
      | some l' =>
        simp only [List.mem_cons] at hc
        rcases hc with rfl | hc
        · rw [ha]; rfl
        · exact ih l' hr c hc

/-- what `digitsOf base ds = some l` says about the runes of `ds` -/
theorem digitsOf_some (base : Nat) (ds : List Char) (l : List Nat) (h : digitsOf base ds = some l) :
    ds ≠ [] ∧ ∀ c ∈ ds, (digitVal? base c).isSome = true := by
  unfold digitsOf at h
  split at h
  · cases h
  · rename_i hne
    exact ⟨by intro hn; rw [hn] at hne; simp at hne, mapM_some_all base ds l h⟩

theorem digitsOf_hex (base : Nat) (ds : List Char) (l : List Nat) (h : digitsOf base ds = some l) :
    ds ≠ [] ∧ ∀ c ∈ ds, isHexC c = true :=
  ⟨(digitsOf_some base ds l h).1, fun c hc => digitVal?_hex base c ((digitsOf_some base ds l h).2 c hc)⟩

/-! ## the cascade up to the based literals -/

theorem decodeAtom_hexRe (a : List Char) (h0 : a.getLast? ≠ some ':') (h1 : a ≠ ['&']) (h2 : a ≠ ['\\'])
    (h3 : boolRe a = false) (h4 : uint64Re a = false) (h5 : decimalRe a = false) (h6 : hexRe a = true) :
    decodeAtom a = .ok ⟨.hex, a.drop 2⟩ := by
  unfold decodeAtom
  have hc : (a.getLast? == some ':') = false := by simpa using h0
  simp only [hc, Bool.false_eq_true, ↓reduceIte]
  have e1 : (a == ['&']) = false := by simpa using h1
  have e2 : (a == ['\\']) = false := by simpa using h2
  simp only [e1, e2, h3, h4, h5, h6, Bool.false_eq_true, ↓reduceIte]

theorem decodeAtom_octRe (a : List Char) (h0 : a.getLast? ≠ some ':') (h1 : a ≠ ['&']) (h2 : a ≠ ['\\'])
    (h3 : boolRe a = false) (h4 : uint64Re a = false) (h5 : decimalRe a = false) (h6 : hexRe a = false)
    (h7 : octRe a = true) : decodeAtom a = .ok ⟨.oct, a.drop 2⟩ := by
  unfold decodeAtom
  have hc : (a.getLast? == some ':') = false := by simpa using h0
  simp only [hc, Bool.false_eq_true, ↓reduceIte]
  have e1 : (a == ['&']) = false := by simpa using h1
  have e2 : (a == ['\\']) = false := by simpa using h2
  simp only [e1, e2, h3, h4, h5, h6, h7, Bool.false_eq_true, ↓reduceIte]

theorem decodeAtom_binaryRe (a : List Char) (h0 : a.getLast? ≠ some ':') (h1 : a ≠ ['&']) (h2 : a ≠ ['\\'])
    (h3 : boolRe a = false) (h4 : uint64Re a = false) (h5 : decimalRe a = false) (h6 : hexRe a = false)
    (h7 : octRe a = false) (h8 : binaryRe a = true) : decodeAtom a = .ok ⟨.binary, a.drop 2⟩ := by
  unfold decodeAtom
  have hc : (a.getLast? == some ':') = false := by simpa using h0
  simp only [hc, Bool.false_eq_true, ↓reduceIte]
  have e1 : (a == ['&']) = false := by simpa using h1
  have e2 : (a == ['\\']) = false := by simpa using h2
  simp only [e1, e2, h3, h4, h5, h6, h7, h8, Bool.false_eq_true, ↓reduceIte]

theorem getLast?_in (ds : List Char) (hne : ds ≠ []) : ∃ c, ds.getLast? = some c ∧ c ∈ ds :=
  ⟨ds.getLast hne, List.getLast?_eq_some_getLast hne, List.getLast_mem hne⟩

theorem getLast?_cons2 (a b : Char) (ds : List Char) (hne : ds ≠ []) : (a :: b :: ds).getLast? = ds.getLast? := by
  cases ds with
  | nil => exact absurd rfl hne
  | cons d r => simp [List.getLast?_cons_cons]

/-- the common part for `0k<digits>`: everything before `HexRegex` says no -/
theorem based_prefix (k : Char) (ds : List Char) (hk : isDigU k = false) (hne : ds ≠ [])
    (hd : ∀ c ∈ ds, isHexC c = true) :
    ('0' :: k :: ds).getLast? ≠ some ':' ∧ ('0' :: k :: ds) ≠ ['&'] ∧ ('0' :: k :: ds) ≠ ['\\'] ∧
    boolRe ('0' :: k :: ds) = false ∧ uint64Re ('0' :: k :: ds) = false ∧ decimalRe ('0' :: k :: ds) = false := by
  obtain ⟨l, hl, hlm⟩ := getLast?_in ds hne
  have hf := hexFacts l (hd l hlm)
  have hlast : ('0' :: k :: ds).getLast? = some l := by rw [getLast?_cons2 _ _ _ hne, hl]
  refine ⟨?_, by simp, by simp, boolRe_head '0' _ (by decide) (by decide), uint64Re_last _ l hlast hf.nL, ?_⟩
  · rw [hlast]; intro h; exact hf.nColon (Option.some.inj h)
  · have : dropMinus ('0' :: k :: ds) = '0' :: k :: ds := rfl
    simp [decimalRe, this, digThenDigU, hk]

theorem plain_based (k : Char) (ds : List Char) (hk : isSpecial k = false) (hd : ∀ c ∈ ds, isHexC c = true) :
    ∀ c ∈ '0' :: k :: ds, isSpecial c = false := by
  intro c hc
  simp only [List.mem_cons] at hc
  rcases hc with rfl | rfl | hc
  · decide
  · exact hk
  · exact (hexFacts c (hd c hc)).plain

/-- the reader's answer for an int64 conversion result -/
def intAnswer (n : Nat) : Option (List Sexp) := if n < 2 ^ 63 then some [.int (n : Int)] else none

theorem numeralValue_of (base : Nat) (ds : List Char) (l : List Nat) (h : digitsOf base ds = some l) :
    numeralValue base ds = if posValue base l < 2 ^ 63 then some (.int (posValue base l : Nat)) else none := by
  simp [numeralValue, h]

theorem answer_of_numeral (text : List Char) (tok : Token) (n : Nat)
    (hr : (∀ e, atomOfTok tok = some (some e) → readAll text = some [e]) ∧ (atomOfTok tok = some none → readAll text = none))
    (ha : atomOfTok tok = some (if n < 2 ^ 63 then some (.int (n : Int)) else none)) :
    readAll text = intAnswer n := by
  unfold intAnswer
  by_cases hn : n < 2 ^ 63
  · simp only [hn, ↓reduceIte] at ha ⊢
    exact hr.1 _ ha
  · simp only [hn, ↓reduceIte] at ha ⊢
    exact hr.2 ha

/-- **hex** `0x<digits>`: read as Σ dᵢ·16ⁿ⁻¹⁻ⁱ, refused beyond int64 -/
theorem read_hex (ds : List Char) (l : List Nat) (h : digitsOf 16 ds = some l) :
    readAll ('0' :: 'x' :: ds) = intAnswer (posValue 16 l) := by
  obtain ⟨hne, hd⟩ := digitsOf_hex 16 ds l h
  obtain ⟨p0, p1, p2, p3, p4, p5⟩ := based_prefix 'x' ds (by decide) hne hd
  have hall : ds.all isHexC = true := by rw [List.all_eq_true]; exact hd
  have hne' : ds.isEmpty = false := by cases ds <;> simp_all
  have hre : hexRe ('0' :: 'x' :: ds) = true := by simp [hexRe, hexPlus, hall, hne']
  have hdec := decodeAtom_hexRe _ p0 p1 p2 p3 p4 p5 hre
  have hr := read_plain_atom ('0' :: 'x' :: ds) _ (by simp) hdec (plain_based 'x' ds (by decide) hd) (by rfl)
  cases ds with
  | nil => exact absurd rfl hne
  | cons c r =>
    refine answer_of_numeral _ _ _ hr ?_
    show atomOfTok ⟨.hex, c :: r⟩ = _
    rw [literal_hex c r (hd c (by simp)), numeralValue_of 16 _ l h]

/-- **octal** `0o<digits>` -/
theorem read_oct (ds : List Char) (l : List Nat) (h : digitsOf 8 ds = some l) :
    readAll ('0' :: 'o' :: ds) = intAnswer (posValue 8 l) := by
  obtain ⟨hne, hd⟩ := digitsOf_hex 8 ds l h
  obtain ⟨p0, p1, p2, p3, p4, p5⟩ := based_prefix 'o' ds (by decide) hne hd
  have hall : ds.all (fun c => '0' ≤ c && c ≤ '7') = true := by
    rw [List.all_eq_true]; intro c hc; exact (digit_classes c).2.1 ((digitsOf_some 8 ds l h).2 c hc)
  have hne' : ds.isEmpty = false := by cases ds <;> simp_all
  have hre : octRe ('0' :: 'o' :: ds) = true := by simp only [octRe, hall, hne']; rfl
  have hdec := decodeAtom_octRe _ p0 p1 p2 p3 p4 p5 (by rfl) hre
  have hr := read_plain_atom ('0' :: 'o' :: ds) _ (by simp) hdec (plain_based 'o' ds (by decide) hd) (by rfl)
  cases ds with
  | nil => exact absurd rfl hne
  | cons c r =>
    refine answer_of_numeral _ _ _ hr ?_
    show atomOfTok ⟨.oct, c :: r⟩ = _
    rw [literal_oct c r (hd c (by simp)), numeralValue_of 8 _ l h]

/-- **binary** `0b<digits>` -/
theorem read_binary (ds : List Char) (l : List Nat) (h : digitsOf 2 ds = some l) :
    readAll ('0' :: 'b' :: ds) = intAnswer (posValue 2 l) := by
  obtain ⟨hne, hd⟩ := digitsOf_hex 2 ds l h
  obtain ⟨p0, p1, p2, p3, p4, p5⟩ := based_prefix 'b' ds (by decide) hne hd
  have hall : ds.all (fun c => c == '0' || c == '1') = true := by
    rw [List.all_eq_true]; intro c hc; exact (digit_classes c).2.2 ((digitsOf_some 2 ds l h).2 c hc)
  have hne' : ds.isEmpty = false := by cases ds <;> simp_all
  have hre : binaryRe ('0' :: 'b' :: ds) = true := by simp only [binaryRe, hall, hne']; rfl
  have hdec := decodeAtom_binaryRe _ p0 p1 p2 p3 p4 p5 (by rfl) (by rfl) hre
  have hr := read_plain_atom ('0' :: 'b' :: ds) _ (by simp) hdec (plain_based 'b' ds (by decide) hd) (by rfl)
  cases ds with
  | nil => exact absurd rfl hne
  | cons c r =>
    refine answer_of_numeral _ _ _ hr ?_
    show atomOfTok ⟨.binary, c :: r⟩ = _
    rw [literal_binary c r (hd c (by simp)), numeralValue_of 2 _ l h]

/-! ## decimal, with underscores, with a minus sign -/

theorem isDig_isDigU (c : Char) (h : isDig c = true) : isDigU c = true := by simp [isDigU, h]

/-- `digitsUnderscores` of the specification is `[0-9][_0-9]*` of the lexer -/
theorem digitsUnderscores_iff (body : List Char) (h : digitsUnderscores body = true) :
    ∃ c r, body = c :: r ∧ isDig c = true ∧ ∀ x ∈ r, isDigU x = true := by
  cases body with
  | nil => simp [digitsUnderscores] at h
  | cons c r =>
    simp only [digitsUnderscores, Bool.and_eq_true, List.all_eq_true] at h
    exact ⟨c, r, rfl, h.1, fun x hx => h.2 x hx⟩

theorem decodeAtom_dec_unsigned (c : Char) (r : List Char) (hc : isDig c = true) (hr : ∀ x ∈ r, isDigU x = true) :
    decodeAtom (c :: r) = .ok ⟨.decimal, c :: r⟩ := by
  have hall : ∀ x ∈ c :: r, isDigU x = true := by
    intro x hx; simp only [List.mem_cons] at hx
    rcases hx with rfl | hx
    · exact isDig_isDigU _ hc
    · exact hr x hx
  obtain ⟨l, hl, hlm⟩ := getLast?_in (c :: r) (by simp)
  obtain ⟨_, fL, fC⟩ := digUFacts l (hall l hlm)
  obtain ⟨_, _, g3, g4, g5, g6, g7, _⟩ := isDig_facts c hc
  apply decodeAtom_decimal
  · rw [hl]; intro h; exact fC (Option.some.inj h)
  · intro h; simp only [List.cons.injEq] at h; exact g5 h.1
  · intro h; simp only [List.cons.injEq] at h; exact g6 h.1
  · exact boolRe_head c r g3 g4
  · exact uint64Re_last _ l hl fL
  · have : dropMinus (c :: r) = c :: r := by
      unfold dropMinus; split
      · rename_i heq; simp only [List.cons.injEq] at heq; exact absurd heq.1.symm (Ne.symm g7)
      · rfl
    simp only [decimalRe, this, digThenDigU, hc, Bool.true_and, List.all_eq_true]
    exact hr

theorem decodeAtom_dec_signed (c : Char) (r : List Char) (hc : isDig c = true) (hr : ∀ x ∈ r, isDigU x = true) :
    decodeAtom ('-' :: c :: r) = .ok ⟨.decimal, '-' :: c :: r⟩ := by
  have hall : ∀ x ∈ c :: r, isDigU x = true := by
    intro x hx; simp only [List.mem_cons] at hx
    rcases hx with rfl | hx
    · exact isDig_isDigU _ hc
    · exact hr x hx
  obtain ⟨l, hl, hlm⟩ := getLast?_in (c :: r) (by simp)
  obtain ⟨_, fL, fC⟩ := digUFacts l (hall l hlm)
  have hl' : ('-' :: c :: r).getLast? = some l := by rw [List.getLast?_cons_cons]; exact hl
  apply decodeAtom_decimal
  · rw [hl']; intro h; exact fC (Option.some.inj h)
  · intro h; simp at h
  · intro h; simp at h
  · exact boolRe_head '-' (c :: r) (by decide) (by decide)
  · exact uint64Re_last _ l hl' fL
  · simp only [decimalRe, dropMinus, digThenDigU, hc, Bool.true_and, List.all_eq_true]
    exact hr

def negAnswer (n : Nat) : Option (List Sexp) := if n ≤ 2 ^ 63 then some [.int (-(n : Int))] else none

theorem filter_minus (body : List Char) : ('-' :: body).filter (· != '_') = '-' :: body.filter (· != '_') := by
  rw [List.filter_cons]; simp

/-- **decimal without a sign** `D[D_]*`: read as the positional value of its digits (underscores
dropped), refused beyond int64 -/
theorem read_decimal (body : List Char) (l : List Nat) (hb : digitsUnderscores body = true)
    (h : digitsOf 10 (dropUnderscores body) = some l) : readAll body = intAnswer (posValue 10 l) := by
  obtain ⟨c, r, rfl, hc, hr⟩ := digitsUnderscores_iff body hb
  have hdec := decodeAtom_dec_unsigned c r hc hr
  have hpl : ∀ x ∈ c :: r, isSpecial x = false := by
    intro x hx; simp only [List.mem_cons] at hx
    rcases hx with rfl | hx
    · exact (digUFacts _ (isDig_isDigU _ hc)).1
    · exact (digUFacts x (hr x hx)).1
  have hrd := read_plain_atom (c :: r) _ (by simp) hdec hpl (by rfl)
  refine answer_of_numeral _ _ _ hrd ?_
  rw [literal_decimal c r hc, numeralValue_of 10 _ l h]

/-- **negative decimal** `-D[D_]*`: the minus sign and the digits are ONE atom (the sign look-back at
the start of a text), read as minus the positional value; refused below −2⁶³ -/
theorem read_neg_decimal (body : List Char) (l : List Nat) (hb : digitsUnderscores body = true)
    (h : digitsOf 10 (dropUnderscores body) = some l) : readAll ('-' :: body) = negAnswer (posValue 10 l) := by
  obtain ⟨c, r, rfl, hc, hr⟩ := digitsUnderscores_iff body hb
  have hdec := decodeAtom_dec_signed c r hc hr
  have hpl : ∀ x ∈ r, isSpecial x = false := fun x hx => (digUFacts x (hr x hx)).1
  have h1 := lex_minus_digit [] '\x00' c (by decide) hc
  have h2 := lex_plain_run r hpl ['-', c] [] c
  have hlex : Lex ⟨.normal, [], [], '\x00'⟩ ('-' :: c :: r) ⟨.normal, '-' :: c :: r, [], lastOf '\x00' ('-' :: c :: r)⟩ := by
    have := Lex.trans h1 h2
    simpa [lastOf] using this
  have hrd := read_atom ('-' :: c :: r) _ (by simp) hdec hlex (by rfl)
  have hat : atomOfTok ⟨.decimal, '-' :: c :: r⟩ =
      some (if posValue 10 l ≤ 2 ^ 63 then some (.int (-(posValue 10 l : Nat))) else none) := by
    have hn : natOfDigits 10 ((c :: r).filter (· != '_')) = some (posValue 10 l) := by
      rw [natOfDigits_eq_posValue]
      have : digitsOf 10 ((c :: r).filter (· != '_')) = some l := h
      rw [this]; rfl
    simp only [atomOfTok, filter_minus, parseInt64, hn]
    by_cases hle : posValue 10 l ≤ 2 ^ 63 <;> simp
  unfold negAnswer
  by_cases hle : posValue 10 l ≤ 2 ^ 63
  · simp only [hle, ↓reduceIte] at hat ⊢
    exact hrd.1 _ hat
  · simp only [hle, ↓reduceIte] at hat ⊢
    exact hrd.2 hat

/-! ## the uint64 suffix -/

def uintAnswer (n : Nat) : Option (List Sexp) := if n < 2 ^ 64 then some [.uint n] else none

theorem ULL_last (d : List Char) : (d ++ "ULL".toList).getLast? = some 'L' := by
  have : "ULL".toList.getLast? = some 'L' := by decide
  rw [List.getLast?_append, this]; rfl

theorem ULL_take (d : List Char) : (d ++ "ULL".toList).take ((d ++ "ULL".toList).length - 3) = d := by
  have : (d ++ "ULL".toList).length - 3 = d.length := by
    have : "ULL".toList.length = 3 := by decide
    simp
  rw [this, List.take_left']
  rfl

theorem decodeAtom_ULL (d : List Char)
    (hre : (hexPlus d || (match d with
      | '0' :: 'x' :: r => hexPlus r
      | '0' :: 'o' :: r => hexPlus r
      | _ => false)) = true) :
    decodeAtom (d ++ "ULL".toList) = .ok ⟨.uint64, d ++ "ULL".toList⟩ := by
  have hlast := ULL_last d
  apply decodeAtom_uint64
  · rw [hlast]; decide
  · intro h; rw [h] at hlast; revert hlast; decide
  · intro h; rw [h] at hlast; revert hlast; decide
  · simp only [boolRe, Bool.or_eq_false_iff, beq_eq_false_iff_ne]
    constructor <;> (intro h; rw [h] at hlast; revert hlast; decide)
  · simp only [uint64Re, stripSuffix_append]
    exact hre

theorem plain_ULL (d : List Char) (hd : ∀ c ∈ d, isSpecial c = false) : ∀ c ∈ d ++ "ULL".toList, isSpecial c = false := by
  intro c hc
  rw [List.mem_append] at hc
  rcases hc with hc | hc
  · exact hd c hc
  · have : ∀ c ∈ "ULL".toList, isSpecial c = false := by decide
    exact this c hc

theorem answer_of_uint (text : List Char) (tok : Token) (base : Nat) (ds : List Char) (l : List Nat)
    (hr : (∀ e, atomOfTok tok = some (some e) → readAll text = some [e]) ∧ (atomOfTok tok = some none → readAll text = none))
    (hl : digitsOf base ds = some l)
    (ha : atomOfTok tok = some ((parseUint64 base ds).map Sexp.uint)) :
    readAll text = uintAnswer (posValue base l) := by
  have hp : parseUint64 base ds = if posValue base l < 2 ^ 64 then some (posValue base l) else none := by
    simp [parseUint64, natOfDigits_eq_posValue, hl]
  rw [hp] at ha
  unfold uintAnswer
  by_cases hn : posValue base l < 2 ^ 64
  · simp only [hn, ↓reduceIte, Option.map_some] at ha ⊢
    exact hr.1 _ ha
  · simp only [hn, ↓reduceIte, Option.map_none] at ha ⊢
    exact hr.2 ha

/-- **`<decimal digits>ULL`** -/
theorem read_uint_dec (d : List Char) (l : List Nat) (h : digitsOf 10 d = some l) :
    readAll (d ++ "ULL".toList) = uintAnswer (posValue 10 l) := by
  obtain ⟨hne, hd⟩ := digitsOf_hex 10 d l h
  have hdig : ∀ c ∈ d, isDig c = true := fun c hc => (digit_classes c).1 ((digitsOf_some 10 d l h).2 c hc)
  have hall : d.all isHexC = true := by rw [List.all_eq_true]; exact hd
  have hne' : d.isEmpty = false := by cases d <;> simp_all
  have hdec := decodeAtom_ULL d (by simp [hexPlus, hall, hne'])
  have hr := read_plain_atom (d ++ "ULL".toList) _ (by simp [hne]) hdec
    (plain_ULL d (fun c hc => (hexFacts c (hd c hc)).plain)) (by rfl)
  refine answer_of_uint _ _ 10 d l hr h ?_
  simp only [atomOfTok, ULL_take]
  split
  · split
    · have := hdig 'o' (by simp); exact absurd this (by decide)
    · have := hdig 'x' (by simp); exact absurd this (by decide)
    · rfl
  · rfl

/-- **`0x<hex digits>ULL`** -/
theorem read_uint_hex (ds : List Char) (l : List Nat) (h : digitsOf 16 ds = some l) :
    readAll ('0' :: 'x' :: ds ++ "ULL".toList) = uintAnswer (posValue 16 l) := by
  obtain ⟨hne, hd⟩ := digitsOf_hex 16 ds l h
  have hall : ds.all isHexC = true := by rw [List.all_eq_true]; exact hd
  have hne' : ds.isEmpty = false := by cases ds <;> simp_all
  have hdec := decodeAtom_ULL ('0' :: 'x' :: ds) (by simp [hexPlus, hall, hne'])
  have hr := read_plain_atom ('0' :: 'x' :: ds ++ "ULL".toList) _ (by simp) hdec
    (plain_ULL _ (plain_based 'x' ds (by decide) hd)) (by rfl)
  refine answer_of_uint _ _ 16 ds l hr h ?_
  have hlen : ('0' :: 'x' :: ds).length > 2 := by
    cases ds with
    | nil => exact absurd rfl hne
    | cons a b => simp
  simp only [atomOfTok, ULL_take, hlen, ↓reduceIte]

/-- **`0o<octal digits>ULL`** -/
theorem read_uint_oct (ds : List Char) (l : List Nat) (h : digitsOf 8 ds = some l) :
    readAll ('0' :: 'o' :: ds ++ "ULL".toList) = uintAnswer (posValue 8 l) := by
  obtain ⟨hne, hd⟩ := digitsOf_hex 8 ds l h
  have hall : ds.all isHexC = true := by rw [List.all_eq_true]; exact hd
  have hne' : ds.isEmpty = false := by cases ds <;> simp_all
  have hdec := decodeAtom_ULL ('0' :: 'o' :: ds) (by simp [hexPlus, hall, hne'])
  have hr := read_plain_atom ('0' :: 'o' :: ds ++ "ULL".toList) _ (by simp) hdec
    (plain_ULL _ (plain_based 'o' ds (by decide) hd)) (by rfl)
  refine answer_of_uint _ _ 8 ds l hr h ?_
  have hlen : ('0' :: 'o' :: ds).length > 2 := by
    cases ds with
    | nil => exact absurd rfl hne
    | cons a b => simp
  simp only [atomOfTok, ULL_take, hlen, ↓reduceIte]

end ZygoVerif.Literal
